#!/usr/bin/env python3
"""
gen_ncx.py -- translate the numeric conversion primitives of PnetCDF's *generated*
src/drivers/common/ncx.c into Lean 4 definitions (PnVerif/Gen/Ncx.lean), the theorems that
tie each of them to Spec/ConvSpec (PnVerif/Gen/NcxProofs.lean) and a machine-readable table
(ncx_table.json) that the correspondence harness uses.

Input  : the scratch copy of the repository *after* `make` (ncx.c exists, config.h exists).
Method : clang-14 -ast-dump=json (typed AST with every implicit conversion explicit), then a
         symbolic execution of each function body over a deliberately small C subset.
         Anything outside the subset raises Unsupported -> the translation FAILS CLOSED.

The translation keeps C semantics explicit:
  * integral conversions: value-preserving when the source range is inside the target range,
    otherwise two's-complement wrap (emitted as `% 2^n` arithmetic that omega understands);
  * constants are folded with C semantics (IEEE double / float rounding done by Python's own
    binary64 arithmetic and struct 'f');
  * float<->double / int->float casts of *variables* become the `Rounding` parameter;
  * float->int casts become `FV.toInt` (undefined for NaN/Inf -- visible in the model).
"""
import sys, os, re, json, struct, subprocess
from fractions import Fraction
sys.path.insert(0, os.path.dirname(os.path.abspath(__file__)))
import astutil


class Unsupported(Exception):
    pass


# ---- C types ---------------------------------------------------------------------------
INT_TYPES = {
    'schar': (-2**7, 2**7 - 1), 'uchar': (0, 2**8 - 1),
    'short': (-2**15, 2**15 - 1), 'ushort': (0, 2**16 - 1),
    'int': (-2**31, 2**31 - 1), 'uint': (0, 2**32 - 1),
    'long': (-2**63, 2**63 - 1), 'ulong': (0, 2**64 - 1),
    'longlong': (-2**63, 2**63 - 1), 'ulonglong': (0, 2**64 - 1),
}
FLT_TYPES = ('float', 'double')
FLT_MAX = None
DBL_MAX = None
QUAL2CT = {
    'signed char': 'schar', 'char': 'schar', 'unsigned char': 'uchar',
    'short': 'short', 'unsigned short': 'ushort', 'int': 'int', 'unsigned int': 'uint',
    'long': 'long', 'unsigned long': 'ulong', 'long long': 'longlong',
    'unsigned long long': 'ulonglong', 'float': 'float', 'double': 'double',
}
EXT2CT = {'BYTE': 'schar', 'UBYTE': 'uchar', 'SHORT': 'short', 'USHORT': 'ushort',
          'INT': 'int', 'UINT': 'uint', 'INT64': 'longlong', 'UINT64': 'ulonglong',
          'FLOAT': 'float', 'DOUBLE': 'double'}


def f32(x):
    """round a python float / int / Fraction to binary32, return Fraction or 'inf'"""
    try:
        y = struct.unpack('f', struct.pack('f', float(x)))[0]
    except OverflowError:
        y = float('inf') if x > 0 else float('-inf')
    return y


FILL_F32 = Fraction(f32(9.9692099683868690e+36))
FILL_F64 = Fraction(9.9692099683868690e+36)
EXT_FILL = {'BYTE': -127, 'UBYTE': 255, 'SHORT': -32767, 'USHORT': 65535,
            'INT': -2147483647, 'UINT': 4294967295, 'INT64': -9223372036854775806,
            'UINT64': 18446744073709551614, 'FLOAT': FILL_F32, 'DOUBLE': FILL_F64}
MEM_FILL = {'schar': -127, 'uchar': 255, 'short': -32767, 'ushort': 65535,
            'int': -2147483647, 'uint': 4294967295, 'long': -2147483647,
            'longlong': -9223372036854775806, 'ulonglong': 18446744073709551614,
            'float': FILL_F32, 'double': FILL_F64}


def ctype_of(node):
    t = node.get('type', {})
    q = t.get('desugaredQualType', t.get('qualType', ''))
    q = q.replace('const ', '').replace('volatile ', '').strip()
    if q.endswith('*'):
        return 'ptr'
    if q in QUAL2CT:
        return QUAL2CT[q]
    q2 = t.get('qualType', '').replace('const ', '').strip()
    alias = {'schar': 'schar', 'uchar': 'uchar', 'ushort': 'ushort', 'uint': 'uint',
             'longlong': 'longlong', 'ulonglong': 'ulonglong', 'ix_short': 'short',
             'ix_ushort': 'ushort', 'ix_int': 'int', 'ix_uint': 'uint',
             'ix_int64': 'longlong', 'ix_uint64': 'ulonglong', 'ix_float': 'float',
             'ix_double': 'double', 'size_t': 'ulong', 'MPI_Offset': 'longlong'}
    if q2 in alias:
        return alias[q2]
    if q == 'void':
        return 'void'
    raise Unsupported('type %r' % t)


# ---- symbolic values ---------------------------------------------------------------------
class Const:
    """a compile-time constant: int (python int), or float (Fraction | 'nan' | 'inf' | '-inf')"""
    def __init__(self, ct, val):
        self.ct, self.val = ct, val


class Sym:
    """a Lean term of C type ct (Int for integer types, FV for float types)"""
    def __init__(self, ct, lean):
        self.ct, self.lean = ct, lean


def lean_int(n):
    return '(%d : Int)' % n if n >= 0 else '(%d : Int)' % n


def lean_rat(fr):
    fr = Fraction(fr)
    if fr.denominator == 1:
        return '((%d : Int) : Rat)' % fr.numerator
    return '(mkRat (%d) %d)' % (fr.numerator, fr.denominator)


def lean_fv_const(v):
    if v == 'nan':
        return 'FV.nan'
    if v == 'inf':
        return 'FV.pinf'
    if v == '-inf':
        return 'FV.ninf'
    return '(FV.fin %s)' % lean_rat(v)


def to_lean(x):
    if isinstance(x, Sym):
        return x.lean
    if x.ct in FLT_TYPES:
        return lean_fv_const(x.val)
    return lean_int(x.val)


def wrap_const(ct, n):
    lo, hi = INT_TYPES[ct]
    m = hi - lo + 1
    return (n - lo) % m + lo


def pyfloat_to_constval(y):
    if y != y:
        return 'nan'
    if y == float('inf'):
        return 'inf'
    if y == float('-inf'):
        return '-inf'
    return Fraction(y)


def cast(x, dst):
    """C conversion of x (Const|Sym) to type dst"""
    src = x.ct
    if src == dst or (src in ('long', 'longlong') and dst in ('long', 'longlong')) \
            or (src in ('ulong', 'ulonglong') and dst in ('ulong', 'ulonglong')):
        return Const(dst, x.val) if isinstance(x, Const) else Sym(dst, x.lean)
    if isinstance(x, Const):
        if src in INT_TYPES and dst in INT_TYPES:
            return Const(dst, wrap_const(dst, x.val))
        if src in INT_TYPES and dst == 'double':
            return Const(dst, pyfloat_to_constval(float(x.val)))
        if src in INT_TYPES and dst == 'float':
            return Const(dst, pyfloat_to_constval(f32(x.val)))
        if src == 'float' and dst == 'double':
            return Const(dst, x.val)
        if src == 'double' and dst == 'float':
            if isinstance(x.val, Fraction):
                return Const(dst, pyfloat_to_constval(f32(float(x.val))))
            return Const(dst, x.val)
        if src in FLT_TYPES and dst in INT_TYPES:
            if not isinstance(x.val, Fraction):
                raise Unsupported('constant float->int of non-finite')
            n = int(x.val)  # truncation toward zero
            lo, hi = INT_TYPES[dst]
            if not (lo <= n <= hi):
                raise Unsupported('constant float->int out of range (UB)')
            return Const(dst, n)
        raise Unsupported('const cast %s->%s' % (src, dst))
    # symbolic
    if src in INT_TYPES and dst in INT_TYPES:
        slo, shi = INT_TYPES[src]
        dlo, dhi = INT_TYPES[dst]
        if dlo <= slo and shi <= dhi:
            return Sym(dst, x.lean)            # value preserving
        m = dhi - dlo + 1
        if dlo == 0:
            return Sym(dst, '(%s %% %d)' % (x.lean, m))
        return Sym(dst, '((%s + %d) %% %d - %d)' % (x.lean, m // 2, m, m // 2))
    if src in INT_TYPES and dst == 'double':
        return Sym(dst, '(R.f64 ((%s : Int) : Rat))' % x.lean)
    if src in INT_TYPES and dst == 'float':
        return Sym(dst, '(R.f32 ((%s : Int) : Rat))' % x.lean)
    if src == 'float' and dst == 'double':
        return Sym(dst, x.lean)
    if src == 'double' and dst == 'float':
        return Sym(dst, '(R.f32cast %s)' % x.lean)
    if src in FLT_TYPES and dst in INT_TYPES:
        return Sym(dst, '(FV.toInt 0 %s)' % x.lean)
    raise Unsupported('cast %s->%s' % (src, dst))


def const_cmp(op, a, b, isflt):
    if isflt:
        def tofl(v):
            return {'nan': float('nan'), 'inf': float('inf'), '-inf': float('-inf')}.get(v, v) \
                if not isinstance(v, Fraction) else v
        a, b = tofl(a), tofl(b)
    return {'>': a > b, '<': a < b, '>=': a >= b, '<=': a <= b, '==': a == b, '!=': a != b}[op]


class Fn:
    """symbolic executor for one primitive"""
    def __init__(self, kind, in_ct, out_ct):
        self.kind, self.in_ct, self.out_ct = kind, in_ct, out_ct

    # -- expressions ------------------------------------------------------------------
    def val(self, n, env):
        k = n['kind']
        if k in ('ParenExpr', 'ConstantExpr'):
            return self.val(n['inner'][0], env)
        if k == 'IntegerLiteral':
            return Const(ctype_of(n), int(n['value']))
        if k == 'CharacterLiteral':
            return Const(ctype_of(n), int(n['value']))
        if k == 'FloatingLiteral':
            ct = ctype_of(n)
            y = float(n['value'])
            if ct == 'float':
                y = f32(y)
            return Const(ct, pyfloat_to_constval(y))
        if k in ('ImplicitCastExpr', 'CStyleCastExpr'):
            ck = n.get('castKind')
            sub = n['inner'][0]
            if ck in ('LValueToRValue', 'NoOp'):
                return self.val(sub, env)
            if ck in ('IntegralCast', 'IntegralToFloating', 'FloatingCast', 'FloatingToIntegral'):
                return cast(self.val(sub, env), ctype_of(n))
            raise Unsupported('castKind %s' % ck)
        if k == 'UnaryOperator':
            op = n['opcode']
            if op == '*':
                tgt = self.lvalue(n, env)
                return env[tgt]
            x = self.val(n['inner'][0], env)
            ct = ctype_of(n)
            if op == '-':
                if isinstance(x, Const):
                    if ct in FLT_TYPES:
                        v = x.val
                        v = {'inf': '-inf', '-inf': 'inf', 'nan': 'nan'}.get(v, None) if not isinstance(v, Fraction) else -v
                        return Const(ct, v)
                    return Const(ct, wrap_const(ct, -x.val))
                if ct in FLT_TYPES:
                    return Sym(ct, '(FV.neg %s)' % x.lean)
                raise Unsupported('symbolic integer negation')
            if op == '+':
                return x
            raise Unsupported('unary %s' % op)
        if k == 'BinaryOperator' and n['opcode'] in ('+', '-', '*'):
            a = self.val(n['inner'][0], env)
            b = self.val(n['inner'][1], env)
            ct = ctype_of(n)
            if isinstance(a, Const) and isinstance(b, Const) and ct in INT_TYPES:
                r = {'+': a.val + b.val, '-': a.val - b.val, '*': a.val * b.val}[n['opcode']]
                lo, hi = INT_TYPES[ct]
                if lo < 0 and not (lo <= r <= hi):
                    raise Unsupported('signed constant overflow')
                return Const(ct, wrap_const(ct, r))
            raise Unsupported('non-constant arithmetic')
        if k == 'DeclRefExpr':
            nm = n['referencedDecl']['name']
            if nm in env:
                return env[nm]
            raise Unsupported('read of %s' % nm)
        raise Unsupported('expr kind %s' % k)

    def lvalue(self, n, env):
        """returns the env key an lvalue expression designates"""
        k = n['kind']
        if k == 'ParenExpr':
            return self.lvalue(n['inner'][0], env)
        if k == 'DeclRefExpr':
            return n['referencedDecl']['name']
        if k == 'UnaryOperator' and n['opcode'] == '*':
            p = n['inner'][0]
            while p['kind'] in ('ImplicitCastExpr', 'ParenExpr', 'CStyleCastExpr'):
                p = p['inner'][0]
            if p['kind'] == 'DeclRefExpr':
                return '*' + p['referencedDecl']['name']
        raise Unsupported('lvalue %s' % k)

    def cond(self, n, env):
        """-> python bool (constant) or Lean Prop string"""
        k = n['kind']
        if k in ('ParenExpr',):
            return self.cond(n['inner'][0], env)
        if k == 'ImplicitCastExpr' and n.get('castKind') in ('NoOp', 'LValueToRValue', 'IntegralCast'):
            return self.cond(n['inner'][0], env)
        if k == 'BinaryOperator':
            op = n['opcode']
            if op in ('||', '&&'):
                a = self.cond(n['inner'][0], env)
                b = self.cond(n['inner'][1], env)
                if isinstance(a, bool) and isinstance(b, bool):
                    return (a or b) if op == '||' else (a and b)
                if isinstance(a, bool):
                    a, b = b, a      # b is now the constant (no side effects in this subset)
                if isinstance(b, bool):
                    if op == '||':
                        return True if b else a
                    return a if b else False
                return '(%s %s %s)' % (a, '∨' if op == '||' else '∧', b)
            if op == '&':
                a = self.val(n['inner'][0], env)
                b = self.val(n['inner'][1], env)
                if isinstance(b, Const) and b.val > 0 and (b.val & (b.val - 1)) == 0 and isinstance(a, Sym) \
                        and a.ct in INT_TYPES:
                    # bit k of a two's-complement integer x is set  <->  x mod 2^(k+1) >= 2^k
                    return '((%s %% %d) ≥ %d)' % (a.lean, 2 * b.val, b.val)
                raise Unsupported('bit test')
            if op in ('>', '<', '>=', '<=', '==', '!='):
                l, r = n['inner']
                # pointer test  fillp != NULL
                if self._is_ptr(l) or self._is_ptr(r):
                    nm = self._ptr_name(l) or self._ptr_name(r)
                    if nm == 'fillp' and op in ('!=', '=='):
                        return 'fill.isSome' if op == '!=' else '(fill.isSome = false)'
                    raise Unsupported('pointer comparison')
                a = self.val(l, env)
                b = self.val(r, env)
                isflt = a.ct in FLT_TYPES
                if (a.ct in FLT_TYPES) != (b.ct in FLT_TYPES):
                    raise Unsupported('mixed comparison without conversion')
                if isinstance(a, Const) and isinstance(b, Const):
                    return bool(const_cmp(op, a.val, b.val, isflt))
                if isflt:
                    f = {'>': 'FV.gt', '<': 'FV.lt', '>=': 'FV.ge', '<=': 'FV.le', '==': 'FV.feq'}
                    if op == '!=':
                        return '(¬ FV.feq %s %s)' % (to_lean(a), to_lean(b))
                    return '(%s %s %s)' % (f[op], to_lean(a), to_lean(b))
                lop = {'>': '>', '<': '<', '>=': '≥', '<=': '≤', '==': '=', '!=': '≠'}[op]
                return '(%s %s %s)' % (to_lean(a), lop, to_lean(b))
        raise Unsupported('condition kind %s' % k)

    def _is_ptr(self, n):
        try:
            return ctype_of(n) == 'ptr'
        except Unsupported:
            return False

    def _ptr_name(self, n):
        while n['kind'] in ('ImplicitCastExpr', 'ParenExpr', 'CStyleCastExpr'):
            n = n['inner'][0]
        if n['kind'] == 'DeclRefExpr':
            return n['referencedDecl']['name']
        return None

    # -- statements -----------------------------------------------------------------
    def run(self, stmts, env):
        """execute a statement list; returns Lean term of type (Out × Int)"""
        if not stmts:
            raise Unsupported('fell off the end without return')
        s, rest = stmts[0], stmts[1:]
        k = s['kind']
        if k == 'CompoundStmt':
            return self.run(list(s.get('inner', [])) + rest, env)
        if k == 'NullStmt':
            return self.run(rest, env)
        if k == 'DeclStmt':
            env = dict(env)
            for d in s['inner']:
                if d['kind'] != 'VarDecl':
                    raise Unsupported('decl %s' % d['kind'])
                ct = ctype_of(d)
                if ct == 'ptr':
                    if d.get('inner'):
                        if self._ptr_name(d['inner'][0]) != 'xp' or self.kind != 'put':
                            raise Unsupported('pointer init')
                        env['__cp__'] = d['name']; env['__cpidx__'] = 0; env['__bytes__'] = {}
                    else:
                        env['__cpdecl__'] = d['name']
                    continue
                if d.get('inner'):
                    env[d['name']] = cast(self.val(d['inner'][0], env), ct)
                else:
                    env[d['name']] = Sym(ct, 'UNINIT_' + d['name'])
            return self.run(rest, env)
        if k == 'ReturnStmt':
            e = self.val(s['inner'][0], env)
            out = env.get('__out__')
            if out is None:
                raise Unsupported('return before output was produced')
            lean = '(%s, %s)' % (to_lean(out), to_lean(e))
            if 'UNINIT_' in lean:
                raise Unsupported('uninitialised value reaches the result')
            return lean
        if k == 'IfStmt':
            inner = s['inner']
            c = self.cond(inner[0], env)
            then_s = [inner[1]]
            else_s = [inner[2]] if len(inner) > 2 else []
            # the idiom  if (fillp != NULL) memcpy(&xx, fillp, n);
            if c == 'fill.isSome' and not else_s and self._is_memcpy_fill(inner[1]):
                env = dict(env)
                tgt = self._memcpy_target(inner[1])
                cur = env[tgt]
                env[tgt] = Sym(cur.ct, '(fill.getD %s)' % to_lean(cur))
                if tgt == '*xp':
                    env['__out__'] = env[tgt]
                return self.run(rest, env)
            if isinstance(c, bool):
                return self.run((then_s if c else else_s) + rest, env)
            t = self.run(then_s + rest, env)
            e = self.run(else_s + rest, env)
            return '(if %s then %s else %s)' % (c, t, e)
        if k == 'CallExpr':
            callee = self._ptr_name(s['inner'][0])
            args = s['inner'][1:]
            if callee and callee.startswith('get_ix_') and self.kind == 'get':
                env = dict(env)
                tgt = self._addr_target(args[1])
                if tgt == 'xx':
                    env['xx'] = Sym(self.in_ct, 'v')
                elif tgt == '*ip':                  # decode straight into *ip (same repr.)
                    env['*ip'] = Sym(self.out_ct, 'v')
                    env['__out__'] = env['*ip']
                else:
                    raise Unsupported('get_ix target')
                return self.run(rest, env)
            if callee and callee.startswith('put_ix_') and self.kind == 'put':
                env = dict(env)
                tgt = self._addr_target(args[1])
                if tgt == 'xx':
                    env['__out__'] = env['xx']
                elif tgt == '*ip':
                    env['__out__'] = Sym(self.out_ct, 'v')
                else:
                    raise Unsupported('put_ix source')
                return self.run(rest, env)
            if callee in ('swapn2b', 'swapn4b', 'swapn8b') and self.kind == 'put' and \
                    self._ptr_name(args[0]) == 'xp' and self._ptr_name(args[1]) == 'xp':
                return self.run(rest, env)
            raise Unsupported('call %s' % callee)
        if k == 'BinaryOperator' and s['opcode'] == '=' and ctype_of(s['inner'][0]) == 'ptr':
            # cp = (uchar *) xp;
            if self._ptr_name(s['inner'][0]) == env.get('__cpdecl__') and self._ptr_name(s['inner'][1]) == 'xp' \
                    and self.kind == 'put':
                env = dict(env)
                env['__cp__'] = env['__cpdecl__']; env['__cpidx__'] = 0; env['__bytes__'] = {}
                return self.run(rest, env)
            raise Unsupported('pointer assignment')
        if k == 'BinaryOperator' and s['opcode'] == '=' and self._is_cp_deref(s['inner'][0], env) is not None:
            bump = self._is_cp_deref(s['inner'][0], env)
            v = cast(self.val(s['inner'][1], env), 'uchar')
            env = dict(env)
            b = dict(env['__bytes__']); b[env['__cpidx__']] = v
            env['__bytes__'] = b
            if bump:
                env['__cpidx__'] += 1
            nb = {'short': 2, 'ushort': 2, 'int': 4, 'uint': 4, 'longlong': 8, 'ulonglong': 8}[self.out_ct]
            if sorted(b.keys()) == list(range(nb)):
                # all bytes written: assemble the big-endian value
                terms = []
                for i in range(nb):
                    terms.append('%s * %d' % (to_lean(b[i]), 256 ** (nb - 1 - i)))
                tot = '(' + ' + '.join(terms) + ')'
                lo, hi = INT_TYPES[self.out_ct]
                m = hi - lo + 1
                if lo < 0:
                    tot = '((%s + %d) %% %d - %d)' % (tot, m // 2, m, m // 2)
                env['__out__'] = Sym(self.out_ct, tot)
            return self.run(rest, env)
        if k == 'BinaryOperator' and s['opcode'] == '=':
            tgt = self.lvalue(s['inner'][0], env)
            lct = ctype_of(s['inner'][0])
            v = cast(self.val(s['inner'][1], env), lct)
            env = dict(env)
            env[tgt] = v
            if self.kind == 'get' and tgt == '*ip':
                env['__out__'] = v
            if tgt == '*xp':
                env['__out__'] = v
            return self.run(rest, env)
        if k in ('ContinueStmt',):
            # inline loop bodies: `continue` ends the element
            out = env.get('__out__')
            return '(%s, %s)' % (to_lean(out), to_lean(env['status']))
        if k == 'UnaryOperator' and s['opcode'] in ('++',):
            return self.run(rest, env)     # pointer bumps xp++ / tp++ (element stepping)
        if k == 'BinaryOperator' and s['opcode'] == ',':
            return self.run(list(s['inner']) + rest, env)
        raise Unsupported('stmt kind %s' % k)

    def _is_cp_deref(self, n, env):
        """*cp++ -> True, *cp -> False, anything else -> None"""
        if '__cp__' not in env:
            return None
        while n['kind'] == 'ParenExpr':
            n = n['inner'][0]
        if n['kind'] == 'UnaryOperator' and n['opcode'] == '*':
            p = strip(n['inner'][0])
            if p['kind'] == 'UnaryOperator' and p['opcode'] == '++' and p.get('isPostfix'):
                q = strip(p['inner'][0])
                if q['kind'] == 'DeclRefExpr' and q['referencedDecl']['name'] == env['__cp__']:
                    return True
            if p['kind'] == 'DeclRefExpr' and p['referencedDecl']['name'] == env['__cp__']:
                return False
        return None

    def _addr_target(self, n):
        while n['kind'] in ('ImplicitCastExpr', 'ParenExpr', 'CStyleCastExpr'):
            n = n['inner'][0]
        if n['kind'] == 'UnaryOperator' and n['opcode'] == '&':
            return self.lvalue(n['inner'][0], {})
        if n['kind'] == 'DeclRefExpr':          # a pointer variable itself: ip -> *ip
            return '*' + n['referencedDecl']['name']
        raise Unsupported('address expr')

    def _is_memcpy_fill(self, n):
        if n['kind'] != 'CallExpr':
            return False
        return self._ptr_name(n['inner'][0]) == 'memcpy' and self._ptr_name(n['inner'][2]) == 'fillp'

    def _memcpy_target(self, n):
        return self._addr_target(n['inner'][1])


# ---- per-function drivers --------------------------------------------------------------
PRIM_RE = re.compile(r'ncmpix_(get|put)_NC_([A-Z0-9]+)_([a-z]+)$')
LOOP_RE = re.compile(r'ncmpix_(pad_)?(get|put)n_NC_([A-Z0-9]+)_([a-z]+)$')


def body_of(fn):
    for c in fn.get('inner', []):
        if c['kind'] == 'CompoundStmt':
            return c
    return None


def translate_prim(fn):
    m = PRIM_RE.match(fn['name'])
    kind, X, T = m.group(1), m.group(2), m.group(3)
    xct, tct = EXT2CT[X], T
    if kind == 'get':
        ex = Fn('get', xct, tct)
    else:
        ex = Fn('put', tct, xct)
    env = {}
    if kind == 'put':
        env['*ip'] = Sym(tct, 'v')
        env['*xp'] = Sym(xct, 'cur')
    term = ex.run([body_of(fn)], env)
    return dict(name=fn['name'], kind=kind, X=X, T=T, in_ct=ex.in_ct, out_ct=ex.out_ct, term=term)


def find_kind(n, kind):
    res = []
    if n.get('kind') == kind:
        res.append(n)
    for c in n.get('inner', []) or []:
        res.extend(find_kind(c, kind))
    return res


def strip(n):
    while n['kind'] in ('ImplicitCastExpr', 'ParenExpr', 'CStyleCastExpr'):
        n = n['inner'][0]
    return n


def translate_loop(fn, prims):
    """classify a getn/putn loop; returns dict(shape=..., elem=<prim name or inline term>)"""
    m = LOOP_RE.match(fn['name'])
    pad, kind, X, T = bool(m.group(1)), m.group(2), m.group(3), m.group(4)
    body = body_of(fn)
    base = dict(name=fn['name'], pad=pad, kind=kind, X=X, T=T)
    fors = find_kind(body, 'ForStmt')
    whiles = find_kind(body, 'WhileStmt')
    calls = [c for c in find_kind(body, 'CallExpr')]
    callee_names = [Fn('x', '', '')._ptr_name(c['inner'][0]) for c in calls]
    if len(fors) == 1 and not whiles:
        f = fors[0]
        # for ( ; nelems != 0; nelems--, xp += SZ, tp++) { lstatus = prim(xp,tp[,fillp]); if (status == NC_NOERR) status = lstatus; }
        cond = f['inner'][2]
        if not (cond['kind'] == 'BinaryOperator' and cond['opcode'] == '!='):
            raise Unsupported('loop condition')
        lbody = f['inner'][4]
        stm = lbody['inner']
        if len(stm) != 2 or stm[0]['kind'] != 'DeclStmt' or stm[1]['kind'] != 'IfStmt':
            raise Unsupported('loop body shape')
        call = find_kind(stm[0], 'CallExpr')
        if len(call) != 1:
            raise Unsupported('loop body call')
        pname = Fn('x', '', '')._ptr_name(call[0]['inner'][0])
        want = 'ncmpix_%s_NC_%s_%s' % (kind, X, T)
        if pname != want:
            raise Unsupported('loop %s calls %s' % (fn['name'], pname))
        # if (status == NC_NOERR) status = lstatus;
        ic = stm[1]['inner'][0]
        ia = stm[1]['inner'][1]
        ok = (ic['kind'] == 'BinaryOperator' and ic['opcode'] == '==' and
              strip(ic['inner'][0]).get('referencedDecl', {}).get('name') == 'status' and
              strip(ic['inner'][1]).get('kind') == 'IntegerLiteral' and strip(ic['inner'][1])['value'] == '0' and
              ia['kind'] == 'BinaryOperator' and ia['opcode'] == '=' and
              strip(ia['inner'][0]).get('referencedDecl', {}).get('name') == 'status' and
              strip(ia['inner'][1]).get('referencedDecl', {}).get('name') == 'lstatus' and
              len(stm[1]['inner']) == 2)
        if not ok:
            raise Unsupported('status combination in %s' % fn['name'])
        # stride of xp must be the external size
        inc = f['inner'][3]
        base.update(shape='firstErr', elem=pname)
        return base
    if len(whiles) == 1 and not fors:
        w = whiles[0]
        xct, tct = EXT2CT[X], T
        ex = Fn(kind, xct if kind == 'get' else tct, tct if kind == 'get' else xct)
        env = {'status': Const('int', 0)}
        if kind == 'get':
            env['*xp'] = Sym(xct, 'v')
            ex.kind = 'get'
            out_key = '*tp'
        else:
            env['*tp'] = Sym(tct, 'v')
            out_key = '*xp'
            env['*xp'] = Sym(xct, 'UNINIT_xp')

        class LoopFn(Fn):
            def lvalue(self, n, env):
                k = n['kind']
                if k == 'UnaryOperator' and n['opcode'] == '*':
                    p = strip(n['inner'][0])
                    if p['kind'] == 'UnaryOperator' and p['opcode'] == '++':   # *xp++
                        p = strip(p['inner'][0])
                    if p['kind'] == 'DeclRefExpr':
                        return '*' + p['referencedDecl']['name']
                return Fn.lvalue(self, n, env)

            def run(self, stmts, env):
                if not stmts:
                    out = env.get('__out__')
                    if out is None:
                        raise Unsupported('loop body produced no output')
                    lean = '(%s, %s)' % (to_lean(out), to_lean(env['status']))
                    if 'UNINIT_' in lean and self.kind == 'put' and 'fill.getD UNINIT_xp' in lean:
                        raise Unsupported('fillp==NULL leaves external byte unwritten')
                    return lean
                s = stmts[0]
                if s['kind'] == 'BinaryOperator' and s['opcode'] == '=':
                    tgt = self.lvalue(s['inner'][0], env)
                    lct = ctype_of(s['inner'][0])
                    v = cast(self.val(s['inner'][1], env), lct)
                    env = dict(env)
                    env[tgt] = v
                    if tgt == out_key:
                        env['__out__'] = v
                    return self.run(stmts[1:], env)
                if s['kind'] == 'ContinueStmt':
                    return self.run([], env)
                return Fn.run(self, stmts, env)

        lf = LoopFn(kind, ex.in_ct, ex.out_ct)
        # memcpy(xp, fillp, 1) writes *xp
        lf._addr_target = lambda n, _o=lf._addr_target: ('*xp' if strip(n).get('referencedDecl', {}).get('name') == 'xp' else _o(n))
        wbody = w['inner'][1]
        # put loops with fillp == NULL leave the byte as it is: model current content as default fill
        if kind == 'put':
            env['*xp'] = Sym(xct, 'cur')
        term = lf.run([wbody], env)
        base.update(shape='inline', term=term, in_ct=lf.in_ct, out_ct=lf.out_ct)
        return base
    if not fors and not whiles and callee_names and \
            set(callee_names) <= {'memcpy', 'swapn2b', 'swapn4b', 'swapn8b'} and EXT2CT[X] == T and \
            len(callee_names) <= (2 if pad else 1):
        rets = find_kind(body, 'ReturnStmt')
        if len(rets) == 1 and strip(rets[0]['inner'][0]).get('value') == '0':
            base.update(shape='memcpy')
            return base
    raise Unsupported('loop shape of %s' % fn['name'])


LEAN_TY = lambda ct: 'FV' if ct in FLT_TYPES else 'Int'


def lean_name(cname):
    return cname.replace('ncmpix_', '')


def range_hyps(ct, var='v'):
    if ct == 'float':
        return ['(hrange : FV.inRange %s %s)' % (lean_rat(FLT_MAX), var)]
    if ct == 'double':
        return ['(hrange : FV.inRange %s %s)' % (lean_rat(DBL_MAX), var)]
    lo, hi = INT_TYPES[ct]
    return ['(hlo : %s ≤ %s)' % (lean_int(lo), var), '(hhi : %s ≤ %s)' % (var, lean_int(hi))]


def spec_term(kind, X, T, in_ct, out_ct, fillexpr):
    """Lean term of the specification for one element"""
    if in_ct in INT_TYPES and out_ct in INT_TYPES:
        lo, hi = INT_TYPES[out_ct]
        return 'ConvSpec.specII %s %s %s v' % (lean_int(lo), lean_int(hi), fillexpr)
    if in_ct in FLT_TYPES and out_ct in INT_TYPES:
        lo, hi = INT_TYPES[out_ct]
        return 'ConvSpec.specFI %s %s %s v' % (lean_int(lo), lean_int(hi), fillexpr)
    if in_ct in INT_TYPES and out_ct == 'float':
        return 'ConvSpec.specIF32 R v'
    if in_ct in INT_TYPES and out_ct == 'double':
        return 'ConvSpec.specIF64 R v'
    if in_ct == 'double' and out_ct == 'float':
        return 'ConvSpec.specDF R %s v' % fillexpr
    return 'ConvSpec.specFFid v'


def tac_args(tac, e):
    if tac == 'ncx_ff':
        return ' v'
    if tac == 'ncx_fi':
        lo, hi = INT_TYPES[e['out_ct']]
        return ' v %s %s' % (lean_int(lo), lean_int(hi))
    return ''


def fill_const(out_ct, val):
    if out_ct in FLT_TYPES:
        return lean_fv_const(Fraction(val))
    return lean_int(val)


def main():
    src_root, out_dir = sys.argv[1], sys.argv[2]
    cdir = os.path.join(src_root, 'src/drivers/common')
    cmd = ['clang-14', '-fsyntax-only', '-Xclang', '-ast-dump=json', '-Xclang',
           '-ast-dump-filter=ncmpix_', '-DHAVE_CONFIG_H', '-I.', '-I../../include',
           '-I../include', '-I/usr/lib/x86_64-linux-gnu/openmpi/include', 'ncx.c']
    p = subprocess.run(cmd, cwd=cdir, stdout=subprocess.PIPE, stderr=subprocess.PIPE, text=True)
    if p.returncode != 0 and not p.stdout:
        sys.stderr.write(p.stderr[-2000:])
        sys.exit(3)
    prims, loops, failures = [], [], []
    seen = set()
    for o in astutil.iter_json_stream(p.stdout):
        nm = o.get('name', '')
        if o.get('kind') != 'FunctionDecl' or body_of(o) is None or nm in seen:
            continue
        try:
            if PRIM_RE.match(nm):
                seen.add(nm)
                prims.append(translate_prim(o))
            elif LOOP_RE.match(nm):
                seen.add(nm)
                loops.append(translate_loop(o, prims))
        except Unsupported as e:
            failures.append((nm, str(e)))
        except (KeyError, IndexError, TypeError) as e:
            failures.append((nm, 'translator: %r' % (e,)))
    if failures:
        for nm, e in failures:
            sys.stderr.write('UNSUPPORTED %s: %s\n' % (nm, e))
    os.makedirs(out_dir, exist_ok=True)
    emit(prims, loops, failures, out_dir)
    json.dump(dict(prims=[{k: v for k, v in p.items()} for p in prims], loops=loops,
                   failures=failures), open(os.path.join(out_dir, 'ncx_table.json'), 'w'), indent=0, default=str)
    print('gen_ncx: %d primitives, %d loops, %d untranslatable' % (len(prims), len(loops), len(failures)))
    sys.exit(2 if failures else 0)


# known deviations of the code from the specification (see KNOWN_FINDINGS.txt).  They are NOT
# used to weaken anything silently: for each matching primitive the generator emits the
# full statement as a `def ..._Statement : Prop`, a proved counterexample, and the partial
# theorem with exactly the listed extra hypotheses.
FLT_MAX = Fraction(f32(3.402823466e+38))
DBL_MAX = Fraction(1.7976931348623157e+308)


def deviations(p):
    """-> list of (hypothesis-text, counterexample-value, finding-id)"""
    d = []
    if p['in_ct'] in FLT_TYPES and p['out_ct'] in INT_TYPES:
        # F12: the deviation exists only while the primitive has no NaN test (`x != x`); decided from the translated term,
        # so the same generator serves the tree before and after the repair
        if '(¬ FV.feq v v)' not in p.get('term', ''):
            d.append(('(hnan : v ≠ FV.nan)', 'FV.nan', 'F12'))
        if p['out_ct'] in ('long', 'longlong'):
            d.append(('(hgap : FV.notInGap ((9223372036854775807 : Int) : Rat) ((9223372036854775808 : Int) : Rat) v)',
                      '(FV.fin ((9223372036854775808 : Int) : Rat))', 'F17'))
        if p['out_ct'] in ('ulonglong',):
            d.append(('(hgap : FV.notInGap ((18446744073709551615 : Int) : Rat) ((18446744073709551616 : Int) : Rat) v)',
                      '(FV.fin ((18446744073709551616 : Int) : Rat))', 'F17'))
    # F18: exists only while the primitive still compares the float with X_DOUBLE_MAX (decided from the translated term)
    if p['kind'] == 'put' and p['in_ct'] == 'float' and p['out_ct'] == 'double' and 'FV.gt v' in p.get('term', ''):
        d.append(('(hpinf : v ≠ FV.pinf)', 'FV.pinf', 'F18'))
        d.append(('(hninf : v ≠ FV.ninf)', 'FV.ninf', 'F18'))
    return d


def emit(prims, loops, failures, out_dir):
    L = []
    L.append('/- GENERATED by tools/gen_ncx.py from src/drivers/common/ncx.c -- do not edit -/')
    L.append('import PnVerif.Base.FV')
    L.append('namespace PnVerif.Gen.Ncx')
    L.append('open PnVerif')
    L.append('set_option linter.unusedVariables false')
    L.append('')
    for p in prims:
        nm = lean_name(p['name'])
        if p['kind'] == 'put':
            sig = '(R : Rounding) (fill : Option %s) (cur : %s) (v : %s)' % (LEAN_TY(p['out_ct']), LEAN_TY(p['out_ct']), LEAN_TY(p['in_ct']))
        else:
            sig = '(R : Rounding) (v : %s)' % LEAN_TY(p['in_ct'])
        L.append('def %s %s : %s × Int :=\n  %s' % (nm, sig, LEAN_TY(p['out_ct']), p['term']))
        L.append('')
    for l in loops:
        if l['shape'] == 'inline':
            nm = lean_name(l['name']) + '_elem'
            if l['kind'] == 'put':
                sig = '(R : Rounding) (fill : Option %s) (cur : %s) (v : %s)' % (LEAN_TY(l['out_ct']), LEAN_TY(l['out_ct']), LEAN_TY(l['in_ct']))
            else:
                sig = '(R : Rounding) (v : %s)' % LEAN_TY(l['in_ct'])
            L.append('def %s %s : %s × Int :=\n  %s' % (nm, sig, LEAN_TY(l['out_ct']), l['term']))
            L.append('')
    # table of loop shapes (data, consumed by Props/C09)
    L.append('/-- (name, shape) of every getn/putn loop: "firstErr" = calls the primitive per element and')
    L.append('    keeps the first error; "inline" = element body inlined, status assigned on error;')
    L.append('    "memcpy" = same representation, plain copy. -/')
    L.append('def loopShapes : List (String × String) := [')
    L.append(',\n'.join('  ("%s", "%s")' % (lean_name(l['name']), l['shape']) for l in loops))
    L.append(']')
    L.append('def untranslatable : List String := [%s]' % ', '.join('"%s"' % f[0] for f in failures))
    L.append('end PnVerif.Gen.Ncx')
    open(os.path.join(out_dir, 'Ncx.lean'), 'w').write('\n'.join(L) + '\n')

    P = []
    P.append('/- GENERATED by tools/gen_ncx.py -- one theorem per conversion primitive of ncx.c -/')
    P.append('import PnVerif.Gen.Ncx')
    P.append('import PnVerif.Spec.ConvSpec')
    P.append('import PnVerif.Base.FVLemmas')
    P.append('namespace PnVerif.Gen.NcxProofs')
    P.append('open PnVerif PnVerif.Gen.Ncx')
    P.append('set_option linter.unusedVariables false')
    P.append('')
    obligations = []
    elems = []
    for p in prims:
        elems.append(dict(nm=lean_name(p['name']), kind=p['kind'], X=p['X'], T=p['T'], in_ct=p['in_ct'],
                          out_ct=p['out_ct'], inline=('fill.getD cur' in p['term']), dev=deviations(p)))
    for l in loops:
        if l['shape'] == 'inline':
            elems.append(dict(nm=lean_name(l['name']) + '_elem', kind=l['kind'], X=l['X'], T=l['T'],
                              in_ct=l['in_ct'], out_ct=l['out_ct'], inline=True, dev=deviations(l)))
    for e in elems:
        nm = e['nm']
        if e['kind'] == 'put':
            dflt = fill_const(e['out_ct'], EXT_FILL[e['X']])
            if e['inline']:
                # inline byte loops: fillp == NULL leaves the destination byte as it was
                fillexpr = '(fill.getD cur)'
                binders = '(R : Rounding) (fill : Option %s) (cur : %s) (v : %s)' % (LEAN_TY(e['out_ct']), LEAN_TY(e['out_ct']), LEAN_TY(e['in_ct']))
                app = '%s R fill cur v' % nm
            else:
                fillexpr = '(fill.getD %s)' % dflt
                binders = '(R : Rounding) (fill : Option %s) (cur : %s) (v : %s)' % (LEAN_TY(e['out_ct']), LEAN_TY(e['out_ct']), LEAN_TY(e['in_ct']))
                app = '%s R fill cur v' % nm
        else:
            fillexpr = fill_const(e['out_ct'], MEM_FILL[e['T']])
            binders = '(R : Rounding) (v : %s)' % LEAN_TY(e['in_ct'])
            app = '%s R v' % nm
        spec = spec_term(e['kind'], e['X'], e['T'], e['in_ct'], e['out_ct'], fillexpr)
        hyps = ' '.join(range_hyps(e['in_ct']))
        if e['in_ct'] in INT_TYPES and e['out_ct'] in INT_TYPES:
            tac = 'ncx_int'
        elif e['in_ct'] in FLT_TYPES and e['out_ct'] in INT_TYPES:
            tac = 'ncx_fi'
        elif e['in_ct'] in INT_TYPES:
            tac = 'ncx_if'
        else:
            tac = 'ncx_ff'
        if e['dev']:
            dh = ' '.join(h for h, _, _ in e['dev'])
            P.append('/-- full-strength statement (false on the current tree, see the counterexample) -/')
            P.append('def %s_Statement : Prop := ∀ %s %s, %s = %s' % (nm, binders, hyps, app, spec))
            P.append('theorem %s_partial %s %s %s :\n    %s = %s := by\n  %s %s%s' % (nm, binders, hyps, dh, app, spec, tac, nm, tac_args(tac, e)))
            obligations.append(nm + '_partial')
            for i, (h, cv, fid) in enumerate(e['dev']):
                cname = '%s_counterexample%d' % (nm, i)
                ctac = 'ncx_cex_get' if e['kind'] == 'get' else ('ncx_cex_putf' if e['out_ct'] in FLT_TYPES else 'ncx_cex_put')
                P.append('/-- known finding %s -/' % fid)
                P.append('theorem %s : ¬ %s_Statement := by\n  %s %s' % (cname, nm, ctac, cv))
                obligations.append(cname)
        else:
            P.append('theorem %s_ok %s %s :\n    %s = %s := by\n  %s %s%s' % (nm, binders, hyps, app, spec, tac, nm, tac_args(tac, e)))
            obligations.append(nm + '_ok')
        P.append('')
    emit_table(elems, loops, out_dir)
    P.append('def obligations : List String := [')
    P.append(',\n'.join('  "%s"' % o for o in obligations))
    P.append(']')
    P.append('end PnVerif.Gen.NcxProofs')
    open(os.path.join(out_dir, 'NcxProofs.lean'), 'w').write('\n'.join(P) + '\n')


def emit_table(elems, loops, out_dir):
    T = []
    T.append('/- GENERATED by tools/gen_ncx.py -- name-indexed dispatch over Gen/Ncx.lean for the C09 driver -/')
    T.append('import PnVerif.Gen.Ncx')
    T.append('import PnVerif.Spec.ConvSpec')
    T.append('namespace PnVerif.Gen.NcxTable')
    T.append('open PnVerif PnVerif.Gen')
    T.append('inductive Val where | i (z : Int) | f (v : FV)')
    T.append('def Val.toI : Val → Int | .i z => z | _ => 0')
    T.append('def Val.toF : Val → FV | .f v => v | _ => .nan')
    T.append('')
    T.append('/-- (kind, C type of the input, C type of the output) -/')
    T.append('def info (name : String) : Option (String × String × String) :=')
    T.append('  match name with')
    for e in elems:
        T.append('  | "%s" => some ("%s", "%s", "%s")' % (e['nm'], e['kind'], e['in_ct'], e['out_ct']))
    T.append('  | _ => none')
    T.append('')

    def conv_in(ct, x):
        return '%s.toF' % x if ct in FLT_TYPES else '%s.toI' % x

    def conv_out(ct):
        return '.f' if ct in FLT_TYPES else '.i'
    for which in ('model', 'spec'):
        T.append('def %s (R : Rounding) (name : String) (fill : Option Val) (cur v : Val) : Option (Val × Int) :=' % which)
        T.append('  match name with')
        for e in elems:
            nm = e['nm']
            if which == 'model':
                if e['kind'] == 'put':
                    call = 'Ncx.%s R (fill.map Val.%s) (%s) (%s)' % (nm, 'toF' if e['out_ct'] in FLT_TYPES else 'toI',
                                                                  conv_in(e['out_ct'], 'cur'), conv_in(e['in_ct'], 'v'))
                else:
                    call = 'Ncx.%s R (%s)' % (nm, conv_in(e['in_ct'], 'v'))
            else:
                if e['kind'] == 'put':
                    if e['inline']:
                        fillexpr = '((fill.map Val.%s).getD (%s))' % ('toF' if e['out_ct'] in FLT_TYPES else 'toI', conv_in(e['out_ct'], 'cur'))
                    else:
                        fillexpr = '((fill.map Val.%s).getD %s)' % ('toF' if e['out_ct'] in FLT_TYPES else 'toI', fill_const(e['out_ct'], EXT_FILL[e['X']]))
                else:
                    fillexpr = fill_const(e['out_ct'], MEM_FILL[e['T']])
                call = spec_term(e['kind'], e['X'], e['T'], e['in_ct'], e['out_ct'], fillexpr).replace(' v', ' (%s)' % conv_in(e['in_ct'], 'v'))
            T.append('  | "%s" => let r := %s; some (%s r.1, r.2)' % (nm, call, conv_out(e['out_ct'])))
        T.append('  | _ => none')
        T.append('')
    T.append('/-- loop name ↦ (shape, element function name, external C type, memory C type) -/')
    T.append('def loopInfo (name : String) : Option (String × String × String × String) :=')
    T.append('  match name with')
    for l in loops:
        ln = lean_name(l['name'])
        elem = ln + '_elem' if l['shape'] == 'inline' else ('%s_NC_%s_%s' % (l['kind'], l['X'], l['T']) if l['shape'] == 'firstErr' else '')
        T.append('  | "%s" => some ("%s", "%s", "%s", "%s")' % (ln, l['shape'], elem, EXT2CT[l['X']], l['T']))
    T.append('  | _ => none')
    T.append('end PnVerif.Gen.NcxTable')
    open(os.path.join(out_dir, 'NcxTable.lean'), 'w').write('\n'.join(T) + '\n')


if __name__ == '__main__':
    main()
