#!/usr/bin/env python3
"""
gen_c11_iosites.py <scratch tree> <outdir>      (property C11, DESIGN.md 2.3 / 4 C11)

Translate the error handling around every MPI-IO data-transfer call of the default driver
(src/drivers/ncmpio/*.c of the scratch copy, after `make`) into Lean tables:

  IoSites.lean   `sites`  : one row per call expression MPI_File_{read,write}[_at][_all] ...
                 `chains` : one row per call of a function through which the status of such a
                            site travels towards a driver entry point (ncmpio_enddef, ncmpio_wait ...)
                 `paths`  : site -> chain rows -> driver entry point
  ErrMap.lean    the class -> NC code table of ncmpii_error_mpi2nc, the MPI error classes and the
                 NC_* codes of this build
  c11_table.json the same + source line ranges (used by checks/c11.py to map run-time return
                 addresses to table rows; line numbers are deliberately NOT in the Lean files)

Method.  clang-14 -ast-dump=json of every compiled file (macros expanded, so TRACE_IO(f)(a) is
`mpireturn = f(a)` and NC_EFILE is -204), then a small set-based abstract interpreter run over the
*whole enclosing function* once per (event, value point):

  event   = one dynamic execution of one call expression fails (an MPI data transfer returns an
            error code of some class / a status-carrying callee returns a non-zero NC code);
            every other call succeeds (single-fault assumption, which is the property's quantifier)
  point   = the NC code m that ncmpii_error_mpi2nc produces for the failing class (sites) or the
            callee's return value (chains): one run for every integer literal the function compares
            anything with (NC_EFILE, NC_EWRITE, 0 ...) and one run for the symbolic value X
            "some non-zero code different from all of those"
  result  = the set of values the function can return on the paths on which the event fired

int locals are tracked with values  Z (0) | K n | X | F (failing MPI code) | U (unknown);
conditions over tracked values are decided, all other conditions fork; loops run to a fixpoint
over the (finite) state set.  The translator FAILS CLOSED: an AST node it does not understand that
touches a tracked variable, a result containing U/F, or an event that cannot fire gives an
`unknown` row (exit status 2), and Props/C11.lean has a theorem that there is no such row.

Assumptions (repeated in the evidence file):
  * single fault: every other MPI call returns MPI_SUCCESS, every other status-returning call 0;
  * MPI_Bcast(&x, .., root 0, ..) leaves x unchanged on rank 0 and stores the root's fault-free value
    (0 for a status) on the other ranks; rank tests `rank == 0`, `ncp->rank > 0` ... are tracked;
  * MPI_Allreduce(&a, &b, 1, MPI_INT, MPI_MIN) with the other ranks fault-free gives b = a for a <= 0
    (NC error codes are negative: checked, and a Lean theorem);
  * a constant error code stored / returned under a condition the event does not decide is ANOTHER
    failure (request too large, out of memory, bad argument): such paths are outside the quantifier;
  * status variables are int locals that are not modified through aliases (`&status` anywhere but as a
    direct call argument fails closed);
  * the dispatcher layer (src/dispatchers) returns the driver's status unchanged (exercised by the
    fault-injection harness on every run, not analysed here).
"""
import sys, os, re, json, subprocess, glob
from concurrent.futures import ProcessPoolExecutor

MPI_INC = '/usr/lib/x86_64-linux-gnu/openmpi/include'
SITE_RE = re.compile(r'^MPI_File_i?(read|write)(_at|_shared|_ordered)?(_all)?(_begin|_end)?(_c)?$')
Z = ('Z',)
X = ('X',)
F = ('F',)
U = ('U',)


def K(n, t=False):
    """integer constant; t = derived from the event (stored / returned under a condition the event decided)"""
    return Z if n == 0 else ('K', int(n), bool(t))


class Unsupported(Exception):
    pass


# ------------------------------------------------------------------------------------------
# loading
# ------------------------------------------------------------------------------------------
def clang_flags():
    return ['-DHAVE_CONFIG_H', '-I.', '-I../../include', '-I../include', '-I' + MPI_INC]


def load_file(arg):
    """-> dict(file, text, funcs=[FunctionDecl nodes defined in this file], driver=[names])"""
    cdir, f = arg
    p = subprocess.run(['clang-14', '-fsyntax-only', '-Xclang', '-ast-dump=json'] + clang_flags() + [f],
                       cwd=cdir, stdout=subprocess.PIPE, stderr=subprocess.PIPE)
    if p.returncode != 0:
        return dict(file=f, error=p.stderr.decode('utf8', 'replace')[-800:])
    d = json.loads(p.stdout)
    text = open(os.path.join(cdir, f), 'rb').read()
    funcs, driver = [], []
    for n in d.get('inner', []):
        if n.get('kind') == 'FunctionDecl' and any(c.get('kind') == 'CompoundStmt' for c in n.get('inner', []) or []):
            off = loc_offset(n.get('loc', {}))
            nm = n.get('name', '')
            if off is not None and text[off:off + len(nm)] == nm.encode():
                funcs.append(n)
        if n.get('kind') == 'VarDecl' and 'PNC_driver' in n.get('type', {}).get('qualType', ''):
            driver = [r.get('referencedDecl', {}).get('name') for r in find_all(n, 'DeclRefExpr')]
    return dict(file=f, text=text.decode('utf8', 'replace'), funcs=funcs, driver=driver)


def loc_offset(loc):
    if not isinstance(loc, dict):
        return None
    if 'expansionLoc' in loc:
        return loc['expansionLoc'].get('offset')
    return loc.get('offset')


def find_all(n, kind, acc=None):
    if acc is None:
        acc = []
    if isinstance(n, dict):
        if n.get('kind') == kind:
            acc.append(n)
        for c in n.get('inner', []) or []:
            find_all(c, kind, acc)
    return acc


def value_refs(e, acc=None):
    """ids of the variables whose VALUE can become the value of e (not through a call)"""
    if acc is None:
        acc = []
    if isinstance(e, dict):
        if e.get('kind') == 'CallExpr':
            return acc
        if e.get('kind') == 'DeclRefExpr':
            acc.append(e.get('referencedDecl', {}).get('id'))
        for c in e.get('inner', []) or []:
            value_refs(c, acc)
    return acc


def strip(e):
    """remove parens and value-preserving casts"""
    while isinstance(e, dict) and e.get('kind') in ('ParenExpr', 'ImplicitCastExpr', 'CStyleCastExpr') and \
            (e['kind'] == 'ParenExpr' or e.get('castKind') in ('LValueToRValue', 'NoOp', 'IntegralCast', 'FunctionToPointerDecay')):
        e = e['inner'][0]
    return e


def callee_name(call):
    c = strip(call['inner'][0])
    if c.get('kind') == 'DeclRefExpr':
        return c.get('referencedDecl', {}).get('name')
    return None


def declref(e):
    """(id, name) if e is a reference to a variable"""
    e = strip(e)
    if isinstance(e, dict) and e.get('kind') == 'DeclRefExpr':
        r = e.get('referencedDecl', {})
        if r.get('kind') in ('VarDecl', 'ParmVarDecl'):
            return r.get('id'), r.get('name')
    return None


def int_literal(e):
    e = strip(e)
    if not isinstance(e, dict):
        return None
    if e.get('kind') == 'IntegerLiteral':
        return int(e['value'])
    if e.get('kind') == 'UnaryOperator' and e.get('opcode') == '-':
        v = int_literal(e['inner'][0])
        return None if v is None else -v
    if e.get('kind') == 'UnaryOperator' and e.get('opcode') == '+':
        return int_literal(e['inner'][0])
    return None


def is_rank_expr(e):
    e = strip(e)
    if e.get('kind') == 'DeclRefExpr' and e.get('referencedDecl', {}).get('name') == 'rank':
        return True
    if e.get('kind') == 'MemberExpr' and e.get('name') == 'rank':
        return True
    return False


def is_null_ptr(e):
    """NULL literal argument: ((void*)0)"""
    e = strip(e)
    while isinstance(e, dict) and e.get('kind') in ('ImplicitCastExpr', 'CStyleCastExpr', 'ParenExpr'):
        e = e['inner'][0]
    return isinstance(e, dict) and e.get('kind') == 'IntegerLiteral' and int(e['value']) == 0


# ------------------------------------------------------------------------------------------
# the abstract interpreter
# ------------------------------------------------------------------------------------------
class Flow:
    __slots__ = ('normal', 'brk', 'cont', 'ret', 'gotos')

    def __init__(self):
        self.normal, self.brk, self.cont, self.ret, self.gotos = set(), set(), set(), set(), {}

    def absorb(self, o, normal=False):
        if normal:
            self.normal |= o.normal
        self.brk |= o.brk
        self.cont |= o.cont
        self.ret |= o.ret
        for k, v in o.gotos.items():
            self.gotos.setdefault(k, set()).update(v)


class Interp:
    """one function, one armed event, one value point"""

    def __init__(self, fn, tracked_funcs, armed_id, incoming, armed_is_mpi):
        self.fn = fn
        self.tracked_funcs = tracked_funcs
        self.armed = armed_id
        self.incoming = incoming            # value delivered by the armed event: F is turned into `incoming` by mpi2nc
        self.armed_is_mpi = armed_is_mpi
        self.body = [c for c in fn['inner'] if c.get('kind') == 'CompoundStmt'][0]
        self.vars = {}                       # decl id -> index
        self.varnames = []
        for p in fn.get('inner', []):
            if p.get('kind') == 'ParmVarDecl' and self.is_int(p):
                self.add_var(p)
        for v in find_all(self.body, 'VarDecl'):
            if self.is_int(v):
                self.add_var(v)
        self.statuslike = self.compute_statuslike()
        self.labels = {l.get('declId'): l.get('name') for l in find_all(self.body, 'LabelStmt')}
        self.steps = 0
        self.ctx = False
        self._inv = False

    @staticmethod
    def is_int(v):
        t = v.get('type', {})
        return t.get('desugaredQualType', t.get('qualType')) == 'int' or t.get('qualType') == 'int'

    def add_var(self, v):
        self.vars[v['id']] = len(self.varnames)
        self.varnames.append(v.get('name', '?'))

    # -- which variables carry statuses (flow into a return value) -----------------------
    def compute_statuslike(self):
        sl = set()
        for r in find_all(self.body, 'ReturnStmt'):
            for i in value_refs(r):
                if i in self.vars:
                    sl.add(i)
        assigns = []
        for b in find_all(self.body, 'BinaryOperator'):
            if b.get('opcode') == '=':
                l = declref(b['inner'][0])
                if l and l[0] in self.vars:
                    assigns.append((l[0], value_refs(b['inner'][1])))
        for v in find_all(self.body, 'VarDecl'):
            if v['id'] in self.vars and v.get('inner'):
                assigns.append((v['id'], value_refs(v['inner'][-1])))
        # MPI_Allreduce(&a, &b, ...) : b <- a ; MPI_Bcast(&a) : nothing
        for c in find_all(self.body, 'CallExpr'):
            if callee_name(c) == 'MPI_Allreduce' and len(c['inner']) >= 3:
                a, b = self.addr_of_var(c['inner'][1]), self.addr_of_var(c['inner'][2])
                if a is not None and b is not None:
                    assigns.append((b, [a]))
        changed = True
        while changed:
            changed = False
            for l, rs in assigns:
                if l in sl:
                    for r in rs:
                        if r in self.vars and r not in sl:
                            sl.add(r)
                            changed = True
        return sl

    def addr_of_var(self, e):
        e = strip(e)
        while isinstance(e, dict) and e.get('kind') in ('ImplicitCastExpr', 'CStyleCastExpr', 'ParenExpr'):
            e = e['inner'][0]
        if isinstance(e, dict) and e.get('kind') == 'UnaryOperator' and e.get('opcode') == '&':
            d = declref(e['inner'][0])
            if d and d[0] in self.vars:
                return d[0]
        return None

    # -- states ---------------------------------------------------------------------------
    # state = (fired, root, values tuple)      root in 'T','F','?'
    def init_state(self):
        return (False, '?', tuple(U for _ in self.varnames))

    def get(self, st, vid):
        return st[2][self.vars[vid]]

    def set(self, st, vid, val):
        i = self.vars[vid]
        v = st[2]
        return (st[0], st[1], v[:i] + (val,) + v[i + 1:])

    # -- expressions: -> list of (value, state) ---------------------------------------------
    def touches_tracked(self, e):
        """does an expression we do not interpret contain an event or a write to a tracked variable"""
        for c in find_all(e, 'CallExpr'):
            nm = callee_name(c)
            if c['id'] == self.armed or (nm in self.tracked_funcs):
                return True
            for a in c['inner'][1:]:
                if self.addr_of_var(a) is not None:
                    return True
        for b in find_all(e, 'BinaryOperator') + find_all(e, 'CompoundAssignOperator'):
            if b.get('opcode', '').endswith('=') and b.get('opcode') not in ('==', '!=', '<=', '>='):
                l = declref(b['inner'][0])
                if l and l[0] in self.vars:
                    return True
        for u in find_all(e, 'UnaryOperator'):
            if u.get('opcode') in ('++', '--'):
                l = declref(u['inner'][0])
                if l and l[0] in self.vars:
                    return True
        return False

    def ev(self, e, st, want_status=False):
        self.steps += 1
        if self.steps > 2000000:
            raise Unsupported('step limit')
        k = e.get('kind')
        if k in ('ParenExpr',):
            return self.ev(e['inner'][0], st, want_status)
        if k in ('ImplicitCastExpr', 'CStyleCastExpr'):
            ck = e.get('castKind')
            if ck in ('LValueToRValue', 'NoOp', 'IntegralCast'):
                return self.ev(e['inner'][0], st, want_status)
            return [(U, s) for _, s in self.ev(e['inner'][0], st)]
        if k == 'IntegerLiteral':
            return [(K(int(e['value']), self.ctx), st)]
        if k == 'DeclRefExpr':
            d = declref(e)
            if d and d[0] in self.vars:
                return [(self.get(st, d[0]), st)]
            r = e.get('referencedDecl', {})
            if r.get('kind') == 'EnumConstantDecl':
                return [(U, st)]
            return [(U, st)]
        if k == 'UnaryOperator':
            op = e.get('opcode')
            if op == '-':
                return [((K(-v[1], v[2]) if v[0] == 'K' else (Z if v == Z else U)), s) for v, s in self.ev(e['inner'][0], st)]
            if op in ('+', '__extension__'):
                return self.ev(e['inner'][0], st, want_status)
            if op == '!':
                return [((K(1) if b else Z), s) for b, s in self.cond(e, st)]
            if op in ('++', '--'):
                d = declref(e['inner'][0])
                if d and d[0] in self.vars:
                    return [(U, self.set(st, d[0], U))]
                if self.touches_tracked(e['inner'][0]):
                    raise Unsupported('++/-- operand')
                return [(U, st)]
            if op in ('&', '*', '~'):
                return self.children(e, st)
            raise Unsupported('unary ' + str(op))
        if k == 'BinaryOperator':
            op = e.get('opcode')
            if op == '=':
                lhs, rhs = e['inner']
                d = declref(lhs)
                if d and d[0] in self.vars:
                    out = []
                    for v, s in self.ev(rhs, st, want_status=(d[0] in self.statuslike)):
                        if d[0] in self.statuslike and v[0] == 'K' and not v[2]:
                            # a constant error code that is not a consequence of the event (stored before it
                            # fired, or under a condition the event does not decide) is ANOTHER failure --
                            # request too large, out of memory, bad argument ...: excluded by the
                            # single-fault assumption, the path is dropped
                            continue
                        out.append((v, self.set(s, d[0], v)))
                    return out
                out = []
                for _, s in (self.ev(lhs, st) if self.touches_tracked(lhs) else [(U, st)]):
                    out += self.ev(rhs, s)
                return out
            if op in ('==', '!=', '<', '>', '<=', '>=', '&&', '||'):
                return [((K(1) if b else Z), s) for b, s in self.cond(e, st)]
            if op == ',':
                out = []
                for _, s in self.ev(e['inner'][0], st):
                    out += self.ev(e['inner'][1], s, want_status)
                return out
            out = []
            for _, s in self.ev(e['inner'][0], st):
                for _, s2 in self.ev(e['inner'][1], s):
                    out.append((U, s2))
            return out
        if k == 'CompoundAssignOperator':
            d = declref(e['inner'][0])
            outs = self.ev(e['inner'][1], st)
            if d and d[0] in self.vars:
                return [(U, self.set(s, d[0], U)) for _, s in outs]
            if self.touches_tracked(e['inner'][0]):
                raise Unsupported('compound assignment target')
            return [(U, s) for _, s in outs]
        if k == 'ConditionalOperator':
            out = []
            self._inv = False
            rs = self.cond(e['inner'][0], st)
            forked = len(set(b for b, _ in rs)) > 1
            saved = self.ctx
            self.ctx = False if forked else (True if self._inv else saved)
            for b, s in rs:
                out += self.ev(e['inner'][1 if b else 2], s, want_status)
            self.ctx = saved
            return out
        if k == 'CallExpr':
            return self.call(e, st, want_status)
        if k in ('MemberExpr', 'ArraySubscriptExpr'):
            return self.children(e, st)
        if k in ('StringLiteral', 'CharacterLiteral', 'FloatingLiteral',
                 'UnaryExprOrTypeTraitExpr', 'CompoundLiteralExpr', 'InitListExpr', 'OffsetOfExpr', 'PredefinedExpr',
                 'StmtExpr', 'BinaryConditionalOperator', 'ImplicitValueInitExpr', 'VAArgExpr', 'ConstantExpr'):
            if self.touches_tracked(e):
                raise Unsupported('%s with tracked effect' % k)
            return [(U, st)]
        raise Unsupported('expression kind %s' % k)

    def children(self, e, st):
        """evaluate the operands of an expression we do not give a value to, for their effects"""
        cur = [st]
        for c in e.get('inner', []) or []:
            if not self.touches_tracked(c):
                continue
            nxt = []
            for s in cur:
                nxt += [s2 for _, s2 in self.ev(c, s)]
            cur = nxt
        return [(U, s) for s in cur]

    def call(self, e, st, want_status):
        outs = []
        for s in self.call_args(e, st):
            outs += self.call1(e, s, want_status)
        return outs

    def call_args(self, e, st):
        cur = [st]
        for a in e['inner'][1:]:
            if self.addr_of_var(a) is None and self.touches_tracked(a):
                for c in find_all(a, 'CallExpr'):
                    if c['id'] == self.armed or callee_name(c) in self.tracked_funcs:
                        raise Unsupported('event inside a call argument')
                nxt = []
                for s in cur:
                    nxt += [s2 for _, s2 in self.ev(a, s)]
                cur = nxt
        return cur

    def call1(self, e, st, want_status):
        nm = callee_name(e)
        args = e['inner'][1:]
        if e['id'] == self.armed:
            if st[0]:
                return [(Z, st)]
            fired = (True, st[1], st[2])
            return [((F if self.armed_is_mpi else self.incoming), fired), (Z, st)]
        if nm == 'ncmpii_error_mpi2nc':
            out = []
            for v, s in self.ev(args[0], st):
                out.append(((self.incoming if v == F else U), s))
            return out
        if nm == 'MPI_Bcast':
            vid = self.addr_of_var(args[0])
            if vid is None:
                return [(Z, st)]
            root = int_literal(args[3]) if len(args) > 3 else None
            if root != 0:
                return [(Z, self.set(st, vid, U))]
            own = st
            # on a rank other than the root the variable receives the root's value of a run in which
            # the root met no fault: success for anything that currently holds a status
            other = self.set(st, vid, Z if (vid in self.statuslike or self.get(st, vid) != U) else U)
            if st[1] == 'T':
                return [(Z, own)]
            if st[1] == 'F':
                return [(Z, other)]
            return [(Z, (st[0], 'T', own[2])), (Z, (st[0], 'F', other[2]))]
        if nm == 'MPI_Allreduce':
            a, b = self.addr_of_var(args[0]), self.addr_of_var(args[1])
            opn = strip_all(args[4]) if len(args) > 4 else None
            opname = None
            for d in find_all(args[4], 'DeclRefExpr') if len(args) > 4 else []:
                opname = d.get('referencedDecl', {}).get('name')
            s = st
            if b is not None:
                if a is not None and opname == 'ompi_mpi_op_min':
                    va = self.get(st, a)
                    ok = va == Z or va == X or (va[0] == 'K' and va[1] < 0)
                    s = self.set(st, b, va if ok else U)
                else:
                    s = self.set(st, b, U)
            elif a is not None:
                pass                                    # send buffer only: unchanged
            return [(Z, s)]
        # any other call: variables passed by address become unknown
        s = st
        for a in args:
            vid = self.addr_of_var(a)
            if vid is not None:
                s = self.set(s, vid, U)
        if nm is not None and nm.startswith('MPI_'):
            return [(Z, s)]
        if nm in self.tracked_funcs:
            return [(Z, s)]                              # single fault: the other status-carrying calls succeed
        if want_status:
            return [(Z, s)]                              # status of another operation: success
        return [(U, s)]

    # -- conditions: -> list of (bool, state) -------------------------------------------------
    def cond(self, e, st):
        e0 = strip(e)
        k = e0.get('kind')
        if k == 'UnaryOperator' and e0.get('opcode') == '!':
            return [(not b, s) for b, s in self.cond(e0['inner'][0], st)]
        if k == 'BinaryOperator':
            op = e0.get('opcode')
            if op == '&&':
                out = []
                for b, s in self.cond(e0['inner'][0], st):
                    if not b:
                        out.append((False, s))
                    else:
                        out += self.cond(e0['inner'][1], s)
                return out
            if op == '||':
                out = []
                for b, s in self.cond(e0['inner'][0], st):
                    if b:
                        out.append((True, s))
                    else:
                        out += self.cond(e0['inner'][1], s)
                return out
            if op in ('==', '!=', '<', '>', '<=', '>='):
                l, r = e0['inner']
                # rank tests
                if is_rank_expr(l) and int_literal(r) == 0 and op in ('==', '!=', '>'):
                    t_is_root = (op == '==')
                    out = []
                    for b in (True, False):
                        root = 'T' if (b == t_is_root) else 'F'
                        if st[1] != '?' and st[1] != root:
                            continue
                        out.append((b, (st[0], root, st[2])))
                    return out
                out = []
                for vl, s in self.ev(l, st):
                    for vr, s2 in self.ev(r, s):
                        if any(v in (X, F) or (v[0] == 'K' and v[2]) for v in (vl, vr)):
                            self._inv = True
                        d = self.compare(op, vl, vr)
                        if d is None:
                            out += [(True, s2), (False, s2)]
                        else:
                            out.append((d, s2))
                return out
        out = []
        for v, s in self.ev(e0, st):
            if v in (X, F) or (v[0] == 'K' and v[2]):
                self._inv = True
            if v == Z:
                out.append((False, s))
            elif v[0] in ('K', 'X', 'F'):
                out.append((True, s))
            else:
                out += [(True, s), (False, s)]
        return out

    @staticmethod
    def compare(op, a, b):
        def num(v):
            return 0 if v == Z else (v[1] if v[0] == 'K' else None)
        if a == U or b == U:
            return None
        na, nb = num(a), num(b)
        if na is not None and nb is not None:
            return {'==': na == nb, '!=': na != nb, '<': na < nb, '>': na > nb, '<=': na <= nb, '>=': na >= nb}[op]
        if op in ('==', '!='):
            if a == b:                       # X == X, F == F
                eq = True
            elif (a == X and nb is not None) or (b == X and na is not None):
                eq = False                   # X differs from every literal of the function and from 0
            elif (a == F and nb == 0) or (b == F and na == 0):
                eq = False                   # a failing MPI call does not return MPI_SUCCESS
            else:
                return None
            return eq if op == '==' else not eq
        return None

    # -- statements ---------------------------------------------------------------------------
    def ex(self, s, states):
        """-> Flow"""
        fl = Flow()
        if not states or s is None or not s:
            fl.normal = set(states)
            return fl
        k = s.get('kind')
        if k == 'CompoundStmt':
            cur = set(states)
            pending = {}
            for c in s.get('inner', []) or []:
                if c.get('kind') == 'LabelStmt':
                    nm = c.get('name')
                    cur |= pending.pop(nm, set())
                    cur |= fl.gotos.pop(nm, set())
                f = self.ex(c, cur)
                fl.absorb(f)
                cur = f.normal
            fl.normal = cur
            return fl
        if k == 'LabelStmt':
            inner = [c for c in s.get('inner', []) if c]
            return self.ex(inner[0], states) if inner else self._pass(states)
        if k == 'NullStmt':
            return self._pass(states)
        if k == 'DeclStmt':
            cur = set(states)
            for v in s.get('inner', []) or []:
                if v.get('kind') != 'VarDecl':
                    continue
                init = [c for c in v.get('inner', []) or [] if c.get('kind') not in (None,) and 'Attr' not in c.get('kind', '')]
                if v['id'] in self.vars:
                    nxt = set()
                    for st in cur:
                        if init:
                            for val, s2 in self.ev(init[-1], st, want_status=(v['id'] in self.statuslike)):
                                nxt.add(self.set(s2, v['id'], val))
                        else:
                            nxt.add(self.set(st, v['id'], U))
                    cur = nxt
                elif init:
                    nxt = set()
                    for st in cur:
                        if self.touches_tracked(init[-1]):
                            for _, s2 in self.ev(init[-1], st):
                                nxt.add(s2)
                        else:
                            nxt.add(st)
                    cur = nxt
            fl.normal = cur
            return fl
        if k == 'IfStmt':
            inner = s['inner']
            cnd, th = inner[0], inner[1]
            el = inner[2] if len(inner) > 2 else None
            # a branch is executed in one of two contexts: `ctx` = the condition was decided by a value
            # that derives from the event (then constants stored there are consequences of the event),
            # not ctx = the condition is unknown (constants stored there are other failures, see `ev`)
            saved = self.ctx
            grp = {}
            for st in states:
                self._inv = False
                rs = self.cond(cnd, st)
                forked = len(set(b for b, _ in rs)) > 1
                newctx = False if forked else (True if self._inv else saved)
                for b, s2 in rs:
                    grp.setdefault((b, newctx), set()).add(s2)
            for (b, newctx), sts in sorted(grp.items()):
                self.ctx = newctx
                if b:
                    fl.absorb(self.ex(th, sts), normal=True)
                elif el:
                    fl.absorb(self.ex(el, sts), normal=True)
                else:
                    fl.normal |= sts
            self.ctx = saved
            return fl
        if k in ('ForStmt', 'WhileStmt', 'DoStmt'):
            return self.loop(s, states)
        if k == 'SwitchStmt':
            if self.touches_tracked(s) or find_all(s, 'ReturnStmt') or find_all(s, 'GotoStmt'):
                raise Unsupported('switch with tracked effect')
            return self._pass(states)
        if k == 'ReturnStmt':
            inner = [c for c in s.get('inner', []) or [] if c]
            for st in states:
                if inner:
                    for v, s2 in self.ev(inner[0], st, want_status=True):
                        if v[0] == 'K' and not v[2]:
                            continue        # `return NC_ENOMEM` under an event-independent condition: another failure
                        fl.ret.add((s2[0], v, s['id']))
                else:
                    fl.ret.add((st[0], U, s['id']))
            return fl
        if k == 'BreakStmt':
            fl.brk = set(states)
            return fl
        if k == 'ContinueStmt':
            fl.cont = set(states)
            return fl
        if k == 'GotoStmt':
            nm = self.labels.get(s.get('targetLabelDeclId'))
            if nm is None:
                raise Unsupported('goto without label')
            fl.gotos[nm] = set(states)
            return fl
        # expression statement
        out = set()
        for st in states:
            for _, s2 in self.ev(s, st):
                out.add(s2)
        fl.normal = out
        return fl

    def _pass(self, states):
        fl = Flow()
        fl.normal = set(states)
        return fl

    def loop(self, s, states):
        fl = Flow()
        k = s['kind']
        inner = s['inner']
        if k == 'ForStmt':
            init, cnd, inc, body = inner[0], inner[2], inner[3], inner[4]
        elif k == 'WhileStmt':
            init, cnd, inc, body = None, inner[0], None, inner[1]
        else:
            init, cnd, inc, body = None, inner[1], None, inner[0]
        cur = set(states)
        if init:
            f = self.ex(init, cur)
            fl.absorb(f)
            cur = f.normal
        seen_head, exits = set(), set()

        def test(sts):
            t, f_ = set(), set()
            for st in sts:
                if cnd:
                    for b, s2 in self.cond(cnd, st):
                        (t if b else f_).add(s2)
                else:
                    t.add(st)
            return t, f_
        first = (k == 'DoStmt')
        work = cur
        for _ in range(200):
            new = work - seen_head
            if not new:
                break
            seen_head |= new
            if first:
                t = new
                first = False
            else:
                t, f_ = test(new)
                exits |= f_
            fb = self.ex(body, t)
            exits |= fb.brk
            fl.ret |= fb.ret
            for g, v in fb.gotos.items():
                fl.gotos.setdefault(g, set()).update(v)
            nxt = fb.normal | fb.cont
            if inc:
                n2 = set()
                for st in nxt:
                    for _, s2 in self.ev(inc, st):
                        n2.add(s2)
                nxt = n2
            if k == 'DoStmt':
                t2, f2 = test(nxt)
                exits |= f2
                # re-enter the body with t2 (no second test)
                first = True
                work = t2
            else:
                work = nxt
        else:
            raise Unsupported('loop did not reach a fixpoint')
        fl.normal = exits
        return fl

    def run(self):
        """-> set of (value, ReturnStmt id) over the paths on which the event fired; fell_off flag"""
        # a status variable whose address escapes (anything but `f(&v)`) could change behind our back
        direct = set()
        for c in find_all(self.body, 'CallExpr'):
            for a in c['inner'][1:]:
                e = strip_all(a)
                if isinstance(e, dict) and e.get('kind') == 'UnaryOperator' and e.get('opcode') == '&':
                    direct.add(e['id'])
        for u in find_all(self.body, 'UnaryOperator'):
            if u.get('opcode') == '&' and u['id'] not in direct:
                d = declref(u['inner'][0])
                if d and d[0] in self.statuslike:
                    raise Unsupported('address of status variable %s escapes' % d[1])
        fl = self.ex(self.body, {self.init_state()})
        if fl.gotos:
            raise Unsupported('backward or unresolved goto: %s' % list(fl.gotos))
        res = set((v, rid) for fired, v, rid in fl.ret if fired)
        for st in fl.normal:
            if st[0]:
                res.add((U, 'fell-off'))
        return res


def strip_all(e):
    while isinstance(e, dict) and e.get('kind') in ('ParenExpr', 'ImplicitCastExpr', 'CStyleCastExpr'):
        e = e['inner'][0]
    return e


# ------------------------------------------------------------------------------------------
# analysis of one function: events, points, outcomes
# ------------------------------------------------------------------------------------------
def compare_literals(fn):
    pts = set([0])
    for b in find_all(fn, 'BinaryOperator'):
        if b.get('opcode') in ('==', '!=', '<', '>', '<=', '>='):
            for side in b['inner']:
                v = int_literal(side)
                if v is not None:
                    pts.add(v)
    return pts


def line_of(text_offsets, off):
    import bisect
    return bisect.bisect_right(text_offsets, off)


def analyse_event(fn, tracked, call, is_mpi, nc_codes_neg):
    """-> dict(points={p: [values]}, other=[values], retnow=bool, problems=[...])"""
    pts = sorted(p for p in compare_literals(fn) if p <= 0)
    # only codes that can be NC statuses matter as incoming values (0 or negative); positive literals
    # (counts, flags) are never the value of X because X is an NC error code (< 0)
    problems = []
    handler_returns = set()
    for i in find_all(fn, 'IfStmt'):
        c = i['inner'][0]
        names = [d.get('referencedDecl', {}).get('name') for d in find_all(c, 'DeclRefExpr')]
        if 'mpireturn' in names:
            for r in find_all(i['inner'][1], 'ReturnStmt'):
                handler_returns.add(r['id'])
    out_points, retnow_all = {}, True
    other = None
    any_fired = False
    for p in pts + ['X']:
        if p == 0 and not is_mpi:
            continue
        incoming = X if p == 'X' else K(p, True)
        try:
            it = Interp(fn, tracked, call['id'], incoming, is_mpi)
            res = it.run()
        except Unsupported as ex:
            problems.append('unsupported: %s' % ex)
            return dict(points={}, other=[], retnow=False, problems=problems)
        if res:
            any_fired = True
        vals = sorted(set((v[:2] if v[0] == 'K' else v) for v, _ in res), key=str)
        for v, rid in res:
            if v != Z and rid not in handler_returns:
                retnow_all = False
        if any(v in (U, F) for v in vals):
            problems.append('point %s: result contains unknown value %s' % (p, vals))
        if p == 'X':
            other = vals
        else:
            out_points[p] = vals
    if not any_fired:
        problems.append('event cannot fire on any path (dead code?)')
    return dict(points=out_points, other=other or [], retnow=retnow_all and any_fired, problems=problems)


def val_int(v, m):
    """concrete value of an abstract result when the incoming code is m"""
    if v == Z:
        return 0
    if v[0] == 'K':
        return v[1]
    if v == X:
        return m
    return None


def normalise(o):
    """drop points whose result set equals what `other` gives at that point"""
    pts = {}
    for p, vals in o['points'].items():
        conc = sorted(set(val_int(v, p) for v in vals if val_int(v, p) is not None))
        oth = sorted(set(val_int(v, p) for v in o['other'] if val_int(v, p) is not None))
        if conc != oth:
            pts[p] = conc
    return pts


def classify(o, efile, is_site):
    """closed set of patterns; mirrors PnVerif.IoStatus.classify (Lean proves they agree)"""
    if o['problems']:
        return 'unknown', 0
    pts = normalise(o)
    oth = o['other']
    if any(len(v) != 1 for v in pts.values()) or len(oth) != 1:
        allv = set(tuple(v) for v in pts.values())
        if oth == sorted([X, Z], key=str) and not pts:
            return 'overwritable', 0
        if set(oth) == {X, Z}:
            return 'overwritable', 0
        return 'unknown', 0
    oth = oth[0]
    nz = {p: v[0] for p, v in pts.items() if p != 0}
    if 0 in pts and pts[0] != [0]:
        return 'unknown', 0
    if oth == X:
        if not nz:
            return ('returnNow' if o['retnow'] and is_site else 'propagate'), 0
        if set(nz) == {efile} and nz[efile] != 0:
            return ('mapEFILEthenReturn' if o['retnow'] and is_site else 'mapEFILEthenPropagate'), nz[efile]
        if all(v != 0 for v in nz.values()):
            return 'remap', 0
        return 'unknown', 0
    if oth == Z:
        if not nz:
            return 'ignored', 0
        if set(nz) == {efile} and nz[efile] != 0:
            return 'onlyIfEFILE', nz[efile]
        return 'unknown', 0
    if oth[0] == 'K' and not nz:
        return 'constant', oth[1]
    return 'unknown', 0


# ------------------------------------------------------------------------------------------
# ncmpii_error_mpi2nc
# ------------------------------------------------------------------------------------------
def macro_table(tree):
    src = '#include <mpi.h>\n#include <pnetcdf.h>\n'
    p = subprocess.run(['gcc', '-E', '-dM', '-I' + MPI_INC, '-I' + os.path.join(tree, 'src/include'), '-x', 'c', '-'],
                       input=src, stdout=subprocess.PIPE, stderr=subprocess.PIPE, text=True)
    if p.returncode != 0:
        raise Unsupported('cannot preprocess mpi.h/pnetcdf.h: ' + p.stderr[-300:])
    mpi, nc = {}, {}
    for m in re.finditer(r'^#define\s+(MPI_ERR_\w+)\s+\(?(-?\d+)\)?\s*$', p.stdout, re.M):
        mpi[m.group(1)] = int(m.group(2))
    for m in re.finditer(r'^#define\s+(NC_E\w+|NC_NOERR)\s+\(?\s*(-?\d+)\s*\)?\s*$', p.stdout, re.M):
        nc[m.group(1)] = int(m.group(2))
    return mpi, nc


def analyse_errmap(tree):
    cdir = os.path.join(tree, 'src/drivers/common')
    r = load_file((cdir, 'error_mpi2nc.c'))
    if 'error' in r:
        raise Unsupported('clang failed on error_mpi2nc.c: ' + r['error'])
    fn = [f for f in r['funcs'] if f['name'] == 'ncmpii_error_mpi2nc']
    if len(fn) != 1:
        raise Unsupported('ncmpii_error_mpi2nc not found')
    body = [c for c in fn[0]['inner'] if c.get('kind') == 'CompoundStmt'][0]
    explicit, default, classvar = [], None, None
    for s in body['inner']:
        k = s.get('kind')
        if k == 'DeclStmt':
            continue
        if k == 'CallExpr':
            nm = callee_name(s)
            if nm == 'MPI_Error_class':
                a0 = declref(s['inner'][1])
                if not a0 or a0[1] != 'mpi_errorcode':
                    raise Unsupported('MPI_Error_class is not applied to the function argument')
                u = strip_all(s['inner'][2])
                classvar = declref(u['inner'][0])[1] if u.get('kind') == 'UnaryOperator' else None
                continue
            if nm in ('MPI_Error_string', 'printf', 'MPI_Comm_rank', 'fprintf'):
                continue
            raise Unsupported('errmap: unexpected call %s' % nm)
        if k == 'IfStmt':
            c = strip(s['inner'][0])
            if len(s['inner']) != 2 or c.get('kind') != 'BinaryOperator' or c.get('opcode') != '==':
                raise Unsupported('errmap: unexpected if shape')
            d = declref(c['inner'][0])
            v = int_literal(c['inner'][1])
            if not d or d[1] != classvar or v is None or default is not None:
                raise Unsupported('errmap: condition is not `errorclass == <class>`')
            t = s['inner'][1]
            if t.get('kind') == 'CompoundStmt' and len(t['inner']) == 1:
                t = t['inner'][0]
            if t.get('kind') != 'ReturnStmt' or int_literal(t['inner'][0]) is None:
                raise Unsupported('errmap: branch is not `return <code>`')
            if v not in [e[0] for e in explicit]:          # the first test wins
                explicit.append((v, int_literal(t['inner'][0])))
            continue
        if k == 'ReturnStmt':
            default = int_literal(s['inner'][0])
            if default is None:
                raise Unsupported('errmap: final return is not a constant')
            continue
        raise Unsupported('errmap: unexpected statement %s' % k)
    if default is None or classvar is None:
        raise Unsupported('errmap: no default return / no MPI_Error_class')
    return explicit, default


# ------------------------------------------------------------------------------------------
# main
# ------------------------------------------------------------------------------------------
def lean_str(s):
    return '"' + s.replace('\\', '\\\\').replace('"', '\\"') + '"'


def lean_int(n):
    return '(%d)' % n if n < 0 else str(n)


def res_lean(v):
    if v == Z:
        return '.zero'
    if v == X:
        return '.mapped'
    if v[0] == 'K':
        return '(.lit %s)' % lean_int(v[1])
    return '.unknown'


def outcome_lean(o):
    pts = []
    for p in sorted(o['points'], reverse=True):
        vals = o['points'][p]
        pts.append('(%s, [%s])' % (lean_int(p), ', '.join(res_lean(v) for v in vals)))
    return '{ points := [%s], other := [%s] }' % (', '.join(pts), ', '.join(res_lean(v) for v in o['other']))


def main():
    tree, outdir = sys.argv[1], sys.argv[2]
    os.makedirs(outdir, exist_ok=True)
    failures = []
    cdir = os.path.join(tree, 'src/drivers/ncmpio')
    files = sorted(os.path.basename(f) for f in glob.glob(os.path.join(cdir, '*.c')))
    built = [f for f in files if os.path.exists(os.path.join(cdir, f[:-2] + '.lo')) or os.path.exists(os.path.join(cdir, f[:-2] + '.o'))]
    if not built:
        print('no compiled objects in %s (run after make)' % cdir, file=sys.stderr)
        return 3
    with ProcessPoolExecutor(min(8, os.cpu_count() or 2)) as ex:
        loaded = list(ex.map(load_file, [(cdir, f) for f in built]))
    funcs = {}         # name -> (file, node, line offsets)
    driver = []
    for r in loaded:
        if 'error' in r:
            failures.append('clang failed on %s: %s' % (r['file'], r['error'][-200:]))
            continue
        offs = [m.start() for m in re.finditer('\n', r['text'])]
        for fn in r['funcs']:
            if fn['name'] in funcs:
                # static functions of the same name in two files: keep both under file-qualified names
                failures.append('duplicate function name %s (%s, %s)' % (fn['name'], funcs[fn['name']][0], r['file']))
            funcs[fn['name']] = (r['file'], fn, offs)
        if r['driver']:
            driver = [d for d in r['driver'] if d]
    if not driver:
        failures.append('driver table (PNC_driver) not found')

    # completeness: every textual MPI_File_{read,write}* call token outside comments must be a CallExpr we see
    mpi, nc = macro_table(tree)
    efile = nc.get('NC_EFILE')
    try:
        explicit, default = analyse_errmap(tree)
    except Unsupported as ex:
        failures.append('errmap: %s' % ex)
        explicit, default = [], 0

    # ---- sites
    sites = []
    site_funcs = set()
    for name, (f, fn, offs) in sorted(funcs.items()):
        calls = [c for c in find_all(fn, 'CallExpr') if SITE_RE.match(callee_name(c) or '')]
        calls.sort(key=lambda c: loc_offset(c['range']['begin']))
        for j, c in enumerate(calls, 1):
            site_funcs.add(name)
            sites.append(dict(func=name, file=f, ord=j, call=callee_name(c), node=c))
    # textual cross-check (comments stripped)
    for r in loaded:
        if 'error' in r:
            continue
        t = re.sub(r'/\*.*?\*/', lambda m: re.sub(r'[^\n]', ' ', m.group(0)), r['text'], flags=re.S)
        t = re.sub(r'//[^\n]*', '', t)
        ntext = len(re.findall(r'\bMPI_File_i?(?:read|write)\w*\s*\)?\s*\(', t))
        nast = len([s for s in sites if s['file'] == r['file']])
        if ntext != nast:
            failures.append('%s: %d textual MPI_File read/write calls but %d in the AST of its functions (conditional compilation or a new form)' % (r['file'], ntext, nast))

    # ---- tracked functions: closure of callers
    callers = {}       # callee -> [(caller, call node)]
    for name, (f, fn, offs) in funcs.items():
        for c in find_all(fn, 'CallExpr'):
            nm = callee_name(c)
            if nm in funcs:
                callers.setdefault(nm, []).append((name, c))
    tracked = set(site_funcs)
    work = list(site_funcs)
    while work:
        g = work.pop()
        for (cl, _) in callers.get(g, []):
            if cl not in tracked:
                tracked.add(cl)
                work.append(cl)

    # ---- analyse sites
    site_rows = []
    for s in sites:
        f, fn, offs = funcs[s['func']]
        o = analyse_event(fn, tracked, s['node'], True, True)
        args = s['node']['inner'][1:]
        nm = s['call']
        # buffer / count argument positions: (fh, [offset,] buf, count, type, status)
        bi = 2 if '_at' in nm else 1
        zero = len(args) > bi + 1 and is_null_ptr(args[bi]) and int_literal(args[bi + 1]) == 0
        pat, code = classify(o, efile, True)
        sid = '%s.%d' % (s['func'], s['ord'])
        b, e = loc_offset(s['node']['range']['begin']), loc_offset(s['node']['range']['end'])
        row = dict(id=sid, func=s['func'], file=f, ord=s['ord'], call=nm, zeroLen=bool(zero), isRead=('read' in nm),
                   pattern=pat, code=code, outcome=o, line_begin=line_of(offs, b) + 0, line_end=line_of(offs, e) + 0)
        row['line_begin'] += 1
        row['line_end'] += 1
        if pat == 'unknown':
            failures.append('site %s (%s:%d): %s' % (sid, f, row['line_begin'], '; '.join(o['problems']) or 'unrecognised outcome shape %s' % json.dumps(o, default=str)))
        site_rows.append(row)

    # ---- analyse chains
    chain_rows = []
    for caller in sorted(tracked):
        f, fn, offs = funcs[caller]
        calls = [c for c in find_all(fn, 'CallExpr') if callee_name(c) in tracked]
        calls.sort(key=lambda c: loc_offset(c['range']['begin']))
        cnt = {}
        for c in calls:
            g = callee_name(c)
            cnt[g] = cnt.get(g, 0) + 1
            o = analyse_event(fn, tracked, c, False, True)
            pat, code = classify(o, efile, False)
            cid = '%s>%s.%d' % (caller, g, cnt[g])
            b, e = loc_offset(c['range']['begin']), loc_offset(c['range']['end'])
            row = dict(id=cid, caller=caller, callee=g, ord=cnt[g], file=f, pattern=pat, code=code, outcome=o,
                       line_begin=line_of(offs, b) + 1, line_end=line_of(offs, e) + 1)
            if pat == 'unknown':
                failures.append('chain %s (%s:%d): %s' % (cid, f, row['line_begin'], '; '.join(o['problems']) or 'unrecognised outcome shape'))
            chain_rows.append(row)

    # ---- paths: site function -> ... -> driver entry
    by_callee = {}
    for r in chain_rows:
        by_callee.setdefault(r['callee'], []).append(r)
    paths = []

    def walk(func, acc, seen):
        if func in driver:
            paths.append((list(acc), func))
        for r in by_callee.get(func, []):
            if r['caller'] in seen:
                continue
            if len(paths) > 20000:
                return
            walk(r['caller'], acc + [r['id']], seen | {r['caller']})
    fpaths = {}
    for fnm in sorted(site_funcs):
        paths = []
        walk(fnm, [], {fnm})
        fpaths[fnm] = paths
        if not paths:
            failures.append('function %s holds an I/O site but no call path reaches a driver entry point' % fnm)
        if len(paths) > 20000:
            failures.append('too many call paths from %s' % fnm)

    # ---- write outputs
    def strip_row(r):
        d = {k: v for k, v in r.items() if k not in ('node',)}
        d['outcome'] = dict(points={str(p): [list(v) for v in vs] for p, vs in r['outcome']['points'].items()},
                            other=[list(v) for v in r['outcome']['other']], retnow=r['outcome']['retnow'],
                            problems=r['outcome']['problems'])
        return d
    classes = sorted((v, k) for k, v in mpi.items() if k not in ('MPI_ERR_LASTCODE',) and v > 0)
    table = dict(sites=[strip_row(r) for r in site_rows], chains=[strip_row(r) for r in chain_rows],
                 paths={k: [dict(chain=p[0], api=p[1]) for p in v] for k, v in fpaths.items()},
                 driver=driver, errmap=dict(explicit=explicit, default=default), mpi_classes=classes,
                 nc_codes=nc, failures=failures, tracked=sorted(tracked))
    with open(os.path.join(outdir, 'c11_table.json'), 'w') as fh:
        json.dump(table, fh, indent=1)

    # ErrMap.lean
    ncname = {}
    for k, v in sorted(nc.items()):
        ncname.setdefault(v, k)
    L = ['/- GENERATED by tools/gen_c11_iosites.py from src/drivers/common/error_mpi2nc.c, mpi.h, pnetcdf.h -- do not edit -/',
         'namespace PnVerif.Gen.ErrMap', '']
    for nm in ('NC_NOERR', 'NC_EFILE', 'NC_EREAD', 'NC_EWRITE'):
        L.append('def %s : Int := %s' % (nm, lean_int(nc.get(nm, 0))))
    L.append('')
    L.append('/- class values of this MPI by name -/')
    L.append('namespace Cls')
    for v, k in classes:
        L.append('def %s : Nat := %d' % (k, v))
    L.append('end Cls')
    L.append('')
    L.append('/-- every MPI error class of this MPI (name, class value) -/')
    L.append('def mpiClasses : List (String × Nat) := [')
    L.append(',\n'.join('  (%s, %d)' % (lean_str(k), v) for v, k in classes))
    L.append(']')
    L.append('')
    L.append('/-- `if (errorclass == C) return E;` rows of ncmpii_error_mpi2nc, in source order -/')
    L.append('def explicitMap : List (Nat × Int) := [')
    L.append(',\n'.join('  (%d, %s)' % (c, lean_int(e)) for c, e in explicit))
    L.append(']')
    L.append('')
    L.append('/-- the final `return` of ncmpii_error_mpi2nc -/')
    L.append('def defaultCode : Int := %s' % lean_int(default))
    L.append('')
    L.append('/-- every NC_E* code of pnetcdf.h (name, value) -/')
    L.append('def ncCodes : List (String × Int) := [')
    L.append(',\n'.join('  (%s, %s)' % (lean_str(k), lean_int(v)) for k, v in sorted(nc.items(), key=lambda kv: (-kv[1], kv[0]))))
    L.append(']')
    L.append('end PnVerif.Gen.ErrMap')
    open(os.path.join(outdir, 'ErrMap.lean'), 'w').write('\n'.join(L) + '\n')

    # IoSites.lean
    # Strings are inert labels in the Lean tables: every kernel computation runs on numeric keys
    # (48-bit prefix of sha1 of the name: stable when unrelated rows appear or disappear).
    import hashlib

    def key(name):
        return int(hashlib.sha1(name.encode()).hexdigest()[:12], 16)

    def ident(name):
        return re.sub(r'[^A-Za-z0-9_]', '_', name.replace('>', '__'))
    allnames = [r['id'] for r in site_rows] + [r['id'] for r in chain_rows] + sorted(funcs) 
    if len(set(key(n) for n in set(allnames))) != len(set(allnames)):
        failures.append('key collision among row / function names')
    L = ['import PnVerif.Model.IoStatus',
         '/- GENERATED by tools/gen_c11_iosites.py from src/drivers/ncmpio/*.c -- do not edit -/',
         'namespace PnVerif.Gen.IoSites', 'open PnVerif.IoStatus', '']
    L.append('/- numeric keys of the rows (sites, chain rows) and of the functions: key = sha1(name)[0:48 bits] -/')
    L.append('namespace Key')
    for n in [r['id'] for r in site_rows] + [r['id'] for r in chain_rows]:
        L.append('def %s : Nat := 0x%012x' % (ident(n), key(n)))
    L.append('end Key')
    L.append('namespace Fn')
    for n in sorted(set([r['func'] for r in site_rows] + [r['caller'] for r in chain_rows] + [r['callee'] for r in chain_rows] + driver)):
        L.append('def %s : Nat := 0x%012x' % (ident(n), key(n)))
    L.append('end Fn')
    L.append('')
    L.append('def sites : List Site := [')
    rows = []
    for r in site_rows:
        rows.append('  { key := Key.%s, fn := Fn.%s, id := %s, file := %s, func := %s, call := %s, zeroLen := %s, isRead := %s,\n    pattern := .%s, code := %s,\n    out := %s }'
                    % (ident(r['id']), ident(r['func']), lean_str(r['id']), lean_str(r['file']), lean_str(r['func']), lean_str(r['call']),
                       'true' if r['zeroLen'] else 'false', 'true' if r['isRead'] else 'false', r['pattern'], lean_int(r['code']),
                       outcome_lean(r['outcome'])))
    L.append(',\n'.join(rows))
    L.append(']')
    L.append('')
    L.append('def chains : List Chain := [')
    rows = []
    for r in chain_rows:
        rows.append('  { key := Key.%s, callerFn := Fn.%s, calleeFn := Fn.%s, id := %s, caller := %s, callee := %s, pattern := .%s, code := %s,\n    out := %s }'
                    % (ident(r['id']), ident(r['caller']), ident(r['callee']), lean_str(r['id']), lean_str(r['caller']), lean_str(r['callee']),
                       r['pattern'], lean_int(r['code']), outcome_lean(r['outcome'])))
    L.append(',\n'.join(rows))
    L.append(']')
    L.append('')
    L.append('/-- driver entry points (the PNC_driver table of ncmpio_driver.c) -/')
    L.append('def driverEntries : List Nat := [%s]' % ', '.join('Fn.' + ident(d) for d in driver))
    L.append('')
    L.append('/-- call paths: function holding the site, chain rows innermost first (index into `chains` and key), driver entry reached -/')
    L.append('def paths : List Path := [')
    rows = []
    cidx = {r['id']: i for i, r in enumerate(chain_rows)}
    for fnm in sorted(fpaths):
        for ch, api in fpaths[fnm]:
            rows.append(('  { fn := Fn.%s, chain := [%s], chainKeys := [%s], api := Fn.%s, apiName := %s }'
                         % (ident(fnm), ', '.join(str(cidx[c]) for c in ch), ', '.join('Key.' + ident(c) for c in ch), ident(api), lean_str(api)), ''))
    L.append(',\n'.join(t for t, _ in rows))
    L.append(']')
    L.append('')
    L.append('def untranslatable : List String := [%s]' % ', '.join(lean_str(f[:160]) for f in failures))
    L.append('end PnVerif.Gen.IoSites')
    open(os.path.join(outdir, 'IoSites.lean'), 'w').write('\n'.join(L) + '\n')
    npaths = sum(len(v) for v in fpaths.values())
    print('gen_c11_iosites: %d sites, %d chain rows, %d paths, %d classes, %d explicit errmap rows, %d failures'
          % (len(site_rows), len(chain_rows), npaths, len(classes), len(explicit), len(failures)))
    for f in failures[:20]:
        print('  FAIL-CLOSED:', f, file=sys.stderr)
    return 2 if failures else 0


if __name__ == '__main__':
    sys.exit(main())
