#!/usr/bin/env python3
"""mark_fixed.py <commit> <property> <sig> [<property> <sig> ...] : turn finding: lines into fixed: lines"""
import sys, re
c = sys.argv[1]
pairs = list(zip(sys.argv[2::2], sys.argv[3::2]))
p = '/verif/KNOWN_FINDINGS.txt'
out = []
for l in open(p).read().split('\n'):
    m = re.match(r'finding:\s+property=(\S+)\s+sig=(\S+)\s+(.*)$', l)
    if m and (m.group(1), m.group(2)) in pairs:
        out.append('fixed: property=%s %s (was sig=%s) %s' % (m.group(1), c, m.group(2), m.group(3)))
    else:
        out.append(l)
open(p, 'w').write('\n'.join(out))
