#!/usr/bin/env python3
"""run_all.py [--tier quick|thorough] [--seed N] [--jobs J] [ids...] : run every registered check against /repo
(or $VERIF_REPO) and print one summary line per check.  Used before committing evidence and for seed sweeps."""
import json, os, subprocess, sys, time, argparse
from concurrent.futures import ThreadPoolExecutor
TOP = os.path.dirname(os.path.dirname(os.path.abspath(__file__)))
ap = argparse.ArgumentParser()
ap.add_argument('--tier', default='quick'); ap.add_argument('--seed', default=None); ap.add_argument('--jobs', type=int, default=3)
ap.add_argument('ids', nargs='*')
a = ap.parse_args()
ids = a.ids or [c['property_id'] for c in json.load(open(os.path.join(TOP, 'MANIFEST.json')))['checks']]
env = dict(os.environ)
if a.seed is not None: env['VERIF_SEED'] = str(a.seed)
def run(i):
    t = time.time()
    p = subprocess.run([os.path.join(TOP, 'check'), i, '--tier', a.tier], cwd=TOP, env=env, stdout=subprocess.PIPE, stderr=subprocess.STDOUT, text=True)
    viol = [l for l in p.stdout.split('\n') if l.startswith('VIOLATION')]
    kf = sum(1 for l in p.stdout.split('\n') if l.startswith('KNOWN-FINDING'))
    last = [l for l in p.stdout.strip().split('\n') if l.startswith('[' + i + ']')]
    return i, p.returncode, viol, kf, (last[-1] if last else p.stdout.strip().split('\n')[-1][:200]), time.time() - t
bad = 0
with ThreadPoolExecutor(a.jobs) as ex:
    for i, rc, viol, kf, last, dt in ex.map(run, ids):
        print('%s rc=%d violations=%d known=%d %.0fs | %s' % (i, rc, len(viol), kf, dt, last), flush=True)
        for v in viol[:3]: print('    ' + v)
        bad += (rc != 0)
sys.exit(1 if bad else 0)
