#!/bin/bash
# apply_fixes.sh <patch-name>... : (1) apply all named findings/patches/<name>.diff to a scratch worktree of /repo HEAD,
# build, run the pinned suite; (2) if 73 PASS / 0 FAIL, apply and commit them one by one in /repo with the commit
# message taken from the leading '# ' lines of each patch file.
set -e
wt=/tmp/mut/fixbatch
git -C /repo worktree remove --force $wt >/dev/null 2>&1 || true; rm -rf $wt
/verif/tools/mk_worktree.sh $wt >/dev/null
for n in "$@"; do git -C $wt apply /verif/findings/patches/$n.diff || { echo "patch $n does not apply"; exit 3; }; done
( cd $wt && make -s -j8 -C src > /tmp/mut/fixbatch_build.log 2>&1 && make -s -j8 check > /tmp/mut/fixbatch_check.log 2>&1 ) || true
pass=$(grep -cE '^PASS' /tmp/mut/fixbatch_check.log || true); fail=$(grep -cE '^(FAIL|ERROR)' /tmp/mut/fixbatch_check.log || true)
git -C /repo worktree remove --force $wt >/dev/null 2>&1 || true; rm -rf $wt
echo "suite with [$*]: PASS=$pass FAIL=$fail"
[ "$pass" = "73" ] && [ "$fail" = "0" ] || { echo "suite not green: nothing committed"; exit 4; }
for n in "$@"; do
  f=/verif/findings/patches/$n.diff
  git -C /repo apply $f
  msg=$(grep '^# ' $f | sed 's/^# //' )
  case "$msg" in fix:*) ;; *) msg="fix: $msg";; esac
  git -C /repo add -A src
  git -C /repo commit -q -m "$msg"
  echo "committed $n as $(git -C /repo rev-parse --short HEAD)"
done
