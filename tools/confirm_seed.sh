#!/bin/bash
# confirm_seed.sh <name> <mutdir> : independently confirm a seeded change delivered in <mutdir>/MUT
#   1. fresh worktree of /repo, demo passes on the clean tree
#   2. patch applies, library rebuilds, `make check` = 73 PASS / 0 FAIL, demo fails
# writes <mutdir>/MUT/confirm.json ; removes the worktree.
name="$1"; mut="$2"; wt=/tmp/mut/confirm-$name
ranks=$(python3 -c "import json;print(json.load(open('$mut/MUT/meta.json')).get('ranks',1))" 2>/dev/null || echo 1)
git -C /repo worktree remove --force $wt >/dev/null 2>&1; rm -rf $wt
/verif/tools/mk_worktree.sh $wt >/dev/null || exit 2
cd $wt
builddemo() {
  if [ -f $mut/MUT/demo.c ]; then
    mpicc -g -I$wt/src/include $mut/MUT/demo.c $wt/src/libs/.libs/libpnetcdf.a -lm -o $wt/demo_bin 2>$wt/demo_build.log || return 9
  fi
}
rundemo() {
  export NCOFFSETS=$wt/src/utils/ncoffsets/ncoffsets   # demos that call a utility take its path from the environment
  cd $wt
  if [ -f $mut/MUT/demo.c ]; then
    timeout 300 mpiexec --allow-run-as-root --oversubscribe -n $ranks $wt/demo_bin > $wt/demo_out.$1 2>&1
  else
    WT=$wt TOP=$wt WORK=/tmp/confirm_demo_work timeout 600 bash $mut/MUT/demo.sh $wt > $wt/demo_out.$1 2>&1
  fi
  echo $?
}
make -s -j8 -C src >/dev/null 2>&1
builddemo; clean_rc=$(rundemo clean)
git apply $mut/MUT/patch.diff || { echo "patch does not apply"; exit 3; }
make -s -j8 -C src > $wt/build.log 2>&1; build_rc=$?
make -s -j8 check > $wt/check.log 2>&1
pass=$(grep -cE '^PASS' $wt/check.log); fail=$(grep -cE '^(FAIL|ERROR)' $wt/check.log)
builddemo; mut_rc=$(rundemo mut)
python3 - <<PY
import json
json.dump(dict(name="$name", ranks=$ranks, demo_rc_clean=int("$clean_rc" or -1), build_rc=$build_rc, tests_pass=int("$pass" or 0), tests_fail=int("$fail" or 0), demo_rc_mutated=int("$mut_rc" or -1),
  confirmed=(int("$clean_rc" or -1)==0 and $build_rc==0 and int("$pass" or 0)==73 and int("$fail" or 0)==0 and int("$mut_rc" or 0)!=0),
  demo_tail_mutated=open("$wt/demo_out.mut").read()[-600:]), open("$mut/MUT/confirm.json","w"), indent=1)
print(open("$mut/MUT/confirm.json").read())
PY
cd /; git -C /repo worktree remove --force $wt >/dev/null 2>&1; rm -rf $wt
