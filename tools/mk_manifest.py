#!/usr/bin/env python3
"""Regenerate MANIFEST.json from the per-property table below (single source of truth)."""
import json, os
HERE = os.path.dirname(os.path.dirname(os.path.abspath(__file__)))
ALL = ['C%02d' % i for i in range(1, 21)]

CHECKS = {
 'C01': dict(
    text='Proved for every number of dimensions, shape and (start,count,stride): the byte offsets produced by stride_flatten (literal transcription incl. the array_len running product and the record-dimension special cases) are exactly the offsets the format assigns to the addressed elements in request order (strideFlatten_offsets); ncmpio_first_offset (index loop over dsizes[], first/last/record dimension cases) computes the specified offset of start (firstOffset_eq); whenever is_request_contiguous (innermost-first scan, most significant dimension exempt, several-record-variables rule) answers yes for a request inside the shape, the elements are one run of consecutive elements starting there (isReqContig_sound); distinct in-bounds elements occupy disjoint byte ranges inside their own variable / record slot (elems_disjoint_*, elem_inside_*); a batch of disjoint element writes reads back exactly and leaves every other byte unchanged, and disjoint writes commute (put_get_roundtrip, disjoint_puts_commute: any decomposition over any number of processes gives one file). The transcription is tied to ncmpio_filetype.c by running the real static function on every reachable small input; the blocking API as a whole (all forms, typed/flexible, vector buffer types, imap, collective/independent, 1-4 ranks, reopen) is compared line by line with an abstract dataset specification in Lean.',
    note='Trusted: Lean kernel + 3 standard axioms; MPI datatype/file-view semantics (subarray, hvector, set_view, read/write_at_all) assumed and exercised through OpenMPI+ROMIO; put_varm/get_varm pipeline (pack, convert, swap, imap typemaps, buftype decode) not modelled line by line but tied to Spec/Dataset.lean by the API-level differential stream; values restricted to exactly representable integers (conversion is C09).',
    technique='Lean 4 proof (induction over dimensions, byte-map frame lemmas) about a hand transcription of stride_flatten + unit and API-level differential correspondence',
    design='§4 C01'),
 'C10': dict(
    text='PARTIAL. Proved: (1) a pairwise-disjoint batch of writes yields the same byte map in every order and under every split into per-process pieces (putElems_perm, split_any_way) - with C01 this is independence of the process count, the decomposition and the schedule; (2) the alignment-hint logic of ncmpi__enddef, transcribed literally (resolveAlign): results are positive multiples of 4, a hint beats the enddef argument, the argument beats the default, defaults 512/4/4 (4/4/4 on redefinition), a hint is honoured up to the 4-byte rounding. Not proved but decided differentially on the real library: every seeded logical program is run under several configurations (hints via MPI_Info or PNETCDF_HINTS, safe mode, ncmpi__enddef arguments, 1-4 processes with different decompositions): all results must equal the configuration-free abstract specification and the logical dumps must coincide; reported hint values must equal the model and the variable offsets must honour them.',
    note='Partial: in-place swap, packing buffer size, hash-table sizes, collective header I/O, intra-node aggregation, safe mode and the PNETCDF_HINTS tokenizer are exercised (differential between configurations), not modelled; OpenMPI/ROMIO hints not modelled. Trusted: Lean kernel + 3 axioms; harness/apirun.c; Spec/Dataset.lean as the configuration-free reference.',
    technique='Lean 4 proof (permutation invariance of disjoint writes; decision logic of alignment precedence) + differential execution between configurations against a configuration-free specification',
    design='§4 C10'),
 'C06': dict(
    text='Proved for every process count, MOVE_UNIT, distance and length, every file length and both MPI read-at-EOF behaviours: move_file_block is a block copy (moveBlock_correct); fixed variables moved last-to-first and the record section moved whole or record by record from the last keep every byte of every existing variable for every number of records incl. 0 (moveFixed_preserves, moveRecords_preserves, enddefMove_preserves under LayoutOK); abort of a redefinition writes nothing and abort of a create removes the file. The real static move functions run on 1-8 ranks with a lowered MOVE_UNIT and are diffed byte for byte against the model; API histories (different record counts per rank in independent mode then redef, repeated redefinitions, alignment/minfree) re-read all old values.',
    note='LayoutOK (what NC_begins must establish) is a hypothesis of enddefMove_preserves, evaluated on every real layout pair at run time rather than derived from a Layout model; statements are byte level; iterated redefinition by harness only. Trusted: Lean kernel + 3 axioms, MPI-IO read/write semantics (both EOF behaviours modelled), harness/c06_*.c.',
    technique='Lean 4 proof (induction over copy rounds; layout hypotheses) + unit (real static functions, multi-rank) and API-level differential correspondence',
    design='§4 C06'),
 'C16': dict(
    text='Proved for every length and process count: per-rank shares partition each new variable exactly (shares_partition); every planned byte lies in a new fill-mode variable or its slot of an existing record and nowhere else (plan_targets_new_only, plan_avoids, nofill_no_segment); every element is covered and the file-view blocks are sorted and disjoint (plan_covers, plan_monotone); byte-level end result fill_effect; default fill bytes are the documented NC_FILL_* values. The real fillerup_aggregate / fill_var_rec are run for arbitrary (nprocs, rank) and their recorded file view and buffer diffed against the model; API streams with every fill setting, partial writes, redefinitions adding fixed and record variables on 1-4 ranks.',
    note='Byte level; typed values through the API harness only. A _FillValue attribute alone does not enable filling at enddef in this code base (reported by inq_var_fill as no_fill=1) - outside the property as written. Trusted: Lean kernel + 3 axioms, harness/c16_*.c.',
    technique='Lean 4 proof (arithmetic of shares, plan coverage/disjointness) + unit and API-level differential correspondence',
    design='§4 C16'),
 'C15': dict(
    text='Proved for every rank and API form: the transcribed check_start_count_stride accepts exactly the in-bounds requests and returns the documented code with the documented precedence (checkSCS_iff_exact, checkSCS_error_documented); every element of an accepted request lies inside the variable\'s own area / record slot (accepted_inside*), rejected and zero-length requests change nothing, accepted puts change only the target. The 64-bit wrap-around statement is refuted (F15 counterexample) and proved inside an explicit no-overflow envelope. The real static checker is run on ~2*10^5 tuples (all small tuples exhaustively) and an API stream compares the whole file image after every request with what the model allows.',
    note='imap packing / buftype decoding not modelled (exercised); byte-level frame theorems are about row-major addressing, tied to ncmpio_filetype.c by whole-file image comparison and by C01. Single process. Trusted: Lean kernel + 3 axioms, harness/c15_scs.c.',
    technique='Lean 4 proof (decision logic over Int, induction over dimensions) + exhaustive small-scope unit correspondence + file-image differential',
    design='§4 C15'),
 'C18': dict(
    text='Proved: def_dim accepts exactly the representable lengths; the division loop of check_vlen decides bytes <= vlen_max exactly without overflow; check_vlens/enddef accept exactly under the per-format size rules incl. the last-variable exceptions and the CDF-1 begin rule, else NC_EVARSIZE (accept_iff_rules); vsize header field saturation; element offset = begin + row-major index * size with no bound (large_offsets_correct). no_overflow is refuted for CDF-5 (sum of sizes beyond 2^63, genuine defect) and proved under the extra hypothesis. ~10^4 definitions around every threshold through the real library, sparse-file single elements and multi-row blocks on both sides of 2^31/2^32 verified with raw reads.',
    note='Only the new-file path of NC_begins is modelled; subarray64 typemap not proved (covered by the sparse block stream). Trusted: Lean kernel + 3 axioms, harness/c18_size.c, harness/apirun.c, sparse-file support of the file system.',
    technique='Lean 4 proof (decision logic, arithmetic) + differential correspondence around every size threshold + sparse-file placement checks',
    design='§4 C18'),
 'C07': dict(
    text='Proved for every hash function and table size >= 1: the name-table invariant (every id in exactly one bucket, the right one) is preserved by insert, delete-with-shift, replace, copy and populate; hash lookup = linear search; each metadata operation returns the sequential specification\'s result and commutes with the abstraction (per-op refinement, lifted by induction to whole programs over any number of files); data-mode changes are on disk when the call returns. copy_att of an extended-type attribute into a classic file is a genuine defect (counterexample + partial). Random adversarial histories (colliding names, UTF-8 NFC pairs, table sizes 1..256, all formats) compare every inquiry, the real bucket tables and the on-disk header.',
    note='NFC normalisation and name legality are parameters (exercised against Python unicodedata), hash function a parameter (real Bernstein hash transcribed in the driver). Single process. Trusted: Lean kernel + 3 axioms, harness/c07_meta.c.',
    technique='Lean 4 proof (invariant + refinement to association lists, arbitrary hash) + differential correspondence of every inquiry and the real bucket tables',
    design='§4 C07'),
 'C17': dict(
    text='PARTIAL (id table proved, resources measured). Proved: reachable id-table invariant, lowest-free id reuse, NC_MAX_NFILES files simultaneously, frame lemma files_independent, close frees the slot and cancels/reports pending requests; check_id = EBADID iff slot empty or out of range is refuted for the source as it is (F1: NULL dereference on a stale id) and proved for the repaired variant - the check detects which variant the tree follows by replaying the trigger. Measured, not proved: after the last close ncmpi_inq_malloc_size = 0 and a PMPI shim balances create/free of datatypes, communicators, infos, file handles, over directed and random lifecycle scripts with every probe that may crash in a forked child.',
    note='Heap and MPI-object balance are measurements on executed scripts (labelled so in the evidence). Trusted: Lean kernel + 3 axioms, harness/c17_life.c (PMPI shim, fork isolation).',
    technique='Lean 4 proof (invariant by induction over lifecycle operations; variant-parametric id check) + measured resource balance under fork isolation',
    design='§4 C17'),
 'C05': dict(
    text='Proved by induction over every history of good calls, for any number of ranks: in collective data mode every rank\'s record count equals the header field and equals 1 + the highest record written through a completed call; in independent mode nobody is above that value and the next synchronisation restores agreement; counts never decrease and cover each rank\'s own writes (numrecs_inv_partial, sync_restores, own_writes_readable); rank-local calls of different ranks commute (schedule_independent). The unrestricted statement is refuted by three genuine defects (zero-path deadlock F2, partial wait F20, vard without data F21), each with a counterexample theorem and replayed on the real library. 2-4 ranks run seeded histories; after every call each rank\'s inq_dimlen and the header bytes are compared with the model.',
    note='create/open modelled for the happy path; pending queues hold only puts; MPI-IO visibility of the root\'s header write to other processes\' file reads not modelled. Trusted: Lean kernel + 3 axioms, harness/c05_rec.c.',
    technique='Lean 4 proof (invariant by induction over histories, unbounded ranks; commutation) + multi-rank differential correspondence',
    design='§4 C05'),
 'C08': dict(
    text='Proved: every rank executes the same sequence of collective operations for every API, configuration and number of ranks unless some rank\'s input is one of three triggers (trace_rank_independent_partial; full statement proved for the repaired variant, refuted for the current tree with one witness per defect by decide); an operational matcher shows equal sequences complete and unequal ones deadlock (matched_traces_no_deadlock, mismatch_deadlocks); with safe mode off a rank\'s return code depends only on its own input (errors_local). A PMPI shim records each rank\'s real collective sequence for every assignment of {valid, zero-length, each invalid kind} to 2-3 ranks (thorough up to 8) over all collective APIs, compared with the model and across ranks, every case under alarm().',
    note='Progress inside OpenMPI once sequences match is not modelled; fatal mode errors treated as shared configuration; others_stored is a harness oracle. Trusted: Lean kernel + 3 axioms, harness/c08_coll.c (PMPI shim).',
    technique='Lean 4 proof (decision logic over input classes + operational matcher by induction) + PMPI-recorded trace correspondence on multiple ranks',
    design='§4 C08'),
 'C12': dict(
    text='Proved for every log (any mix of valid and cancelled entries) and every buffer size >= the largest entry: the replay rounds concatenate to the whole log so every valid entry is replayed exactly once in order (rounds_partition, replayed_exactly_once), each round fits the buffer, every round makes progress, and the number of rounds executed equals the nrounds the counting pass announces so that all processes perform the same number of collective waits (rounds_eq_count). The REAL ncbbio_log_flush_core is run on hand-built logs with a stub lower driver and its rounds diffed with the model; API programs run with the burst buffer enabled (flush buffer 1 byte..unlimited, shared/per-process logs, retention on/off, 1-4 ranks) must behave exactly as the driver-independent dataset specification and leave no log files.',
    note='Log encoding on disk, putlist bookkeeping and the sharedfile layer exercised, not modelled; nonblocking API through the burst buffer not in the stream yet; library reconfigured with --enable-burst-buffering for this check. Trusted: Lean kernel + 3 axioms, harness/c12_unit.c, harness/apirun.c, Spec/Dataset.lean.',
    technique='Lean 4 proof (induction over the log with fuel = length) + unit correspondence on the real flush function + API-level differential against the specification',
    design='§4 C12'),
 'C02': dict(
    text='Proved: the sort/overlap-merge/coalesce pipeline maps every covered file byte to the buffer byte of the first containing segment and a write-disjoint group moves exactly the byte pairs of the individual requests (merge_spec, merge_disjoint_identity, aggregate_disjoint); the request-queue invariant holds after every history of posts, waits (all forms incl. the three shortcuts) and cancels in which no wait is refused (queue_inv_partial); a wait with an explicit id list completes exactly the named requests once, leaves the rest pending unchanged, resets ids and puts each status in its own slot when no shortcut fires (wait_exact_partial); cancel_spec, post_spec, record_split. Each genuine defect (F4a/F4b shortcut, F13 overlapping iget, refused-wait, numrecs bound) has a counterexample theorem and a fixed replay on the library. Unit stream: merge_requests / type_create_off_len on crafted lists; API stream: random pending multisets completed in random partitions with shuffled/NULL/unknown/repeated ids on 1-3 ranks against the blocking-call oracle and the full queue state of struct NC.',
    note='wait_equiv_blocking as a whole (vars_flatten, grouping in req_aggregation, construct_filetypes/buffertypes, mgetput) is covered by the blocking-call oracle only, not by a theorem. Trusted: Lean kernel + 3 axioms, harness/c02_*.c.',
    technique='Lean 4 proof (list algebra of the merge pipeline; queue invariant by induction over histories) + unit and API-level differential correspondence with a blocking-call oracle',
    design='§4 C02'),
 'C03': dict(
    text='Proved: every layout NC_begins accepts (fresh or after any history of redefinitions, by induction over an unbounded list of phases) obeys the format rules - 4-aligned begins in definition order, no overlap, header fits, record packing rule, requested alignments, nothing moves backwards (begins_wf, history_wf); the written header has exactly the reported size, is decoded by a decoder written from the BNF alone to exactly the defined schema, and is read back by the library model for every chunk size (written_file_valid, written_file_reads_back, header_size_is_bytes_written). The reported-extent statement is refuted for files without variables (genuine defect, counterexample + partial). API histories (all formats, hints, enddef arguments, data-mode updates, redefinitions, clobbering incl. symlinks, no-variable files): model layout = inquiries, header bytes = Lean encoder, and the Lean specification decoder is run on a snapshot of the REAL file.',
    note='Name character classes and NFC normalisation are not modelled (names normalised by the harness bookkeeping). Trusted: Lean kernel + 3 axioms, harness/c03_api.c.',
    technique='Lean 4 proof (layout invariant by induction over redefinition histories; encode/decode round trip) + differential correspondence incl. an independent Lean decoder run on real files',
    design='§4 C03'),
 'C04': dict(
    text='Proved for every byte string and every chunk size: the chunked window reader (transcription of hdr_fetch/hdr_get_*) equals the whole-file reader (chunk_independent); any byte string the BNF-only specification decoder accepts within the library limits is decoded by the library model to exactly that schema, whatever the vsize fields, gaps or trailing bytes (decode_specvalid, valid_file_opens); the library reads its own encoding back exactly (decode_encode); bytes written = reported size. Lean-encoded files with gaps, unaligned begins, stale/saturated vsize, zero-length and multi-chunk attributes, UTF-8 and 256-byte names are read through ncmpio_hdr_get_NC with chunks 36..262144 on 1-4 ranks and through the public API (every inquiry, all data); invalid/truncated files compare model against implementation.',
    note='valid_file_opens is stated for variables up to 2^31-4 bytes (larger: C18); the dispatcher shape cache is covered by API inquiries only. Trusted: Lean kernel + 3 axioms, harness/c04_*.c.',
    technique='Lean 4 proof (reader as one program run by a flat and a window interpreter; refinement lemma for every chunk size) + unit (real ncmpio_hdr_get_NC, small chunks) and API-level correspondence on Lean-encoded files',
    design='§4 C04'),
 'C11': dict(
    text='Model regenerated from the source on every run: a translator (clang AST + abstract interpretation) finds every MPI_File read/write call site, the call chains to the driver entry points and what each function returns when exactly one call fails, plus the error-class map. Proved over the regenerated tables: every MPI class maps to a non-zero NC code; each pattern label is a sound summary for every incoming code; outside the listed exceptions no failure can become NC_NOERR along any path (no_silent_drop_partial, induction over call chains; unexcepted_cases_are_clean by decide +kernel); every listed exception really drops (exceptions_are_real), the full statement is refuted with concrete witnesses (F6, F3, fill). PMPI fault injection at every transfer position of 28 programs (quick: one per distinct site/path, 3 classes; thorough: all positions x 20 classes) compares the API return value with the table prediction; hangs detected by watchdog.',
    note='"Never leaves other processes blocked" is observed, not proved; the dispatcher layer is exercised but not translated; the intra-node aggregation path is in the tables but not driven. Trusted: Lean kernel + 3 axioms, tools/gen_c11_iosites.py, harness/c11_fault.c.',
    technique='Lean 4 proof over tables regenerated from the C source (translator) + PMPI fault-injection correspondence',
    design='§4 C11'),
 'C13': dict(
    text='Proved: byte swap is an involution; the user buffer is restored on every exit (blocking return, wait, cancel) for all API forms, hint settings and flag combinations (user_buffer_restored); the attached-buffer table invariant over all histories (abuf_inv), a bput is refused iff the remaining space is too small (einsuffbuf_iff), reported usage never under-reports (usage_ge_pending); usage = pending bytes is refuted for non-LIFO completion (genuine defect F5) and proved for LIFO histories. Harness: guard zones and slack around every buffer, sizes on both sides of the in-place-swap threshold, all hint settings, gapped buffer types, imap, varn; data of a bput equals the buffer at posting time; usage/refusal against pending bytes.',
    note='bput_captures and read_touches_only_selected are harness oracles (they depend on MPI_Pack/Unpack). Trusted: Lean kernel + 3 axioms, harness/c13_buf.c.',
    technique='Lean 4 proof (decision table of buffer flow; allocator invariant by induction) + differential correspondence with guard-zone oracles',
    design='§4 C13'),
 'C14': dict(
    text='Proved: a two-layer flag model (dispatcher + driver, 38 API kinds, order of tests transcribed) keeps its invariant after every call history of any length (inv_all_histories); both layers always denote the same mode and permission (flags_agree); for every reachable state and call the model step equals the documented automaton written from the documentation (matches_spec; composed by induction into refines_all_histories); a rejected call leaves state and file untouched (rejected_is_noop); only the seven mode-changing calls change the mode. The current source violates the table only through ncmpi_fill_var_rec (genuine defect, counterexample + partial). Exhaustive correspondence: every sequence of mode-changing calls to depth 3 (thorough 4-5) from created/opened-rw/opened-ro followed by ~230 probes, comparing return codes, both raw flag words and file bytes.',
    note='Argument classes are realised on one fixed schema; where the documentation fixes no order of two argument errors the specification follows the implementation (listed in findings/C14.txt). Trusted: Lean kernel + 3 axioms, harness/c14_mode.c.',
    technique='Lean 4 proof (invariant by induction over call sequences + finite case analysis against the documented automaton) + exhaustive bounded correspondence',
    design='§4 C14'),
 'C09': dict(
    text='Every numeric conversion primitive of ncx.c (164 scalar primitives + 97 inlined byte-loop elements) is translated from the current source into Lean on every run and proved equal to the written-from-the-rules specification ConvSpec for ALL input values (integers by omega, floats over exact rationals); whole requests of any length are lifted by proved fold theorems (element independence, first error). Known deviations (NaN, 2^63/2^64, float Inf into double) are proved as counterexamples next to the partial theorems and replayed on the compiled C.',
    note='Trusted: Lean kernel + 3 standard axioms; translator tools/gen_ncx.py (clang AST -> Lean, fail-closed, every generated def also executed against the compiled C on ~10^5 boundary/random inputs); IEEE rounding of C casts is a model parameter; get_ix_/put_ix_ byte codecs and the dispatch in convert_swap.m4 are exercised by the harness, not proved.',
    technique='Lean 4 proof over a model regenerated from ncx.c (clang AST translator) + differential run of every primitive against the compiled C',
    design='§4 C09'),
}

NOT_YET = {}

def main():
    checks = []
    for pid in ALL:
        if pid not in CHECKS:
            continue
        c = CHECKS[pid]
        checks.append(dict(
            property_id=pid,
            quick_cmd='./check %s --tier quick' % pid,
            thorough_cmd='./check %s --tier thorough' % pid,
            evidence_file='/verif/evidence/%s.json' % pid,
            replay_cmd_template='./check %s --replay {path}' % pid,
            engine='lean4-proof+correspondence',
            level_claimed=dict(category='proof', text=c['text'], design_ref=c['design']),
            level_note=c['note'],
            technique=c['technique']))
    na = [dict(property_id=p, reason=NOT_YET.get(p, 'not claimed yet: model and theorems for this property are still being built in this round (planned, see DESIGN.md §4); no check is registered until it is sound'))
          for p in ALL if p not in CHECKS]
    m = dict(
        version=1,
        setup_cmd='cd /verif/lean && lake build PnVerif Driver 2>&1 | tail -3; cd /verif && python3 tools/build_drivers.py',
        hooks=dict(guard='PNETCDF_VERIF', enable='checks build a scratch copy of /repo with CFLAGS containing -DPNETCDF_VERIF -DPNC_MALLOC_TRACE (no source hook exists so far; statics are reached by #include, MPI by PMPI interposition)',
                   baseline_off_cmd='cd /repo && make -s -j8 check', source_commits=[], add_only=True),
        engines=[dict(name='lean4-proof+correspondence', path='/verif/check',
                      serves_properties=[c['property_id'] for c in checks],
                      kind_free_text='Lean 4 theorems over models regenerated from the C source (translators in tools/) or hand-written and tied by differential execution against the scratch-built library (checks/*.py, harness/*.c, lean/Driver/*.lean)')],
        checks=checks,
        not_applicable=na,
        notes='See DESIGN.md. KNOWN_FINDINGS.txt lists reproduced genuine defects; seeded/ holds confirmed breaking changes used to test the checks.')
    json.dump(m, open(os.path.join(HERE, 'MANIFEST.json'), 'w'), indent=1)

if __name__ == '__main__':
    main()
