#!/usr/bin/env python3
"""Regenerate MANIFEST.json from the per-property table below (single source of truth)."""
import json, os
HERE = os.path.dirname(os.path.dirname(os.path.abspath(__file__)))
ALL = ['C%02d' % i for i in range(1, 21)]

CHECKS = {
 'C01': dict(
    text='Proved for every number of dimensions, shape and (start,count,stride): the byte offsets produced by stride_flatten (literal transcription incl. the array_len running product and the record-dimension special cases) are exactly the offsets the format assigns to the addressed elements in request order (strideFlatten_offsets); distinct in-bounds elements occupy disjoint byte ranges inside their own variable / record slot (elems_disjoint_*, elem_inside_*); a batch of disjoint element writes reads back exactly and leaves every other byte unchanged, and disjoint writes commute (put_get_roundtrip, disjoint_puts_commute: any decomposition over any number of processes gives one file). The transcription is tied to ncmpio_filetype.c by running the real static function on every reachable small input; the blocking API as a whole (all forms, typed/flexible, vector buffer types, imap, collective/independent, 1-4 ranks, reopen) is compared line by line with an abstract dataset specification in Lean.',
    note='Trusted: Lean kernel + 3 standard axioms; MPI datatype/file-view semantics (subarray, hvector, set_view, read/write_at_all) assumed and exercised through OpenMPI+ROMIO; put_varm/get_varm pipeline (pack, convert, swap, imap typemaps, buftype decode) not modelled line by line but tied to Spec/Dataset.lean by the API-level differential stream; values restricted to exactly representable integers (conversion is C09).',
    technique='Lean 4 proof (induction over dimensions, byte-map frame lemmas) about a hand transcription of stride_flatten + unit and API-level differential correspondence',
    design='§4 C01'),
 'C10': dict(
    text='PARTIAL. Proved: (1) a pairwise-disjoint batch of writes yields the same byte map in every order and under every split into per-process pieces (putElems_perm, split_any_way) - with C01 this is independence of the process count, the decomposition and the schedule; (2) the alignment-hint logic of ncmpi__enddef, transcribed literally (resolveAlign): results are positive multiples of 4, a hint beats the enddef argument, the argument beats the default, defaults 512/4/4 (4/4/4 on redefinition), a hint is honoured up to the 4-byte rounding. Not proved but decided differentially on the real library: every seeded logical program is run under several configurations (hints via MPI_Info or PNETCDF_HINTS, safe mode, ncmpi__enddef arguments, 1-4 processes with different decompositions): all results must equal the configuration-free abstract specification and the logical dumps must coincide; reported hint values must equal the model and the variable offsets must honour them.',
    note='Partial: in-place swap, packing buffer size, hash-table sizes, collective header I/O, intra-node aggregation, safe mode and the PNETCDF_HINTS tokenizer are exercised (differential between configurations), not modelled; OpenMPI/ROMIO hints not modelled. Trusted: Lean kernel + 3 axioms; harness/apirun.c; Spec/Dataset.lean as the configuration-free reference.',
    technique='Lean 4 proof (permutation invariance of disjoint writes; decision logic of alignment precedence) + differential execution between configurations against a configuration-free specification',
    design='§4 C10'),
 'C09': dict(
    text='Every numeric conversion primitive of ncx.c (164 scalar primitives + 97 inlined byte-loop elements) is translated from the current source into Lean on every run and proved equal to the written-from-the-rules specification ConvSpec for ALL input values (integers by omega, floats over exact rationals); whole requests of any length are lifted by proved fold theorems (element independence, first error). Known deviations (NaN, 2^63/2^64, float Inf into double) are proved as counterexamples next to the partial theorems and replayed on the compiled C.',
    note='Trusted: Lean kernel + 3 standard axioms; translator tools/gen_ncx.py (clang AST -> Lean, fail-closed, every generated def also executed against the compiled C on ~10^5 boundary/random inputs); IEEE rounding of C casts is a model parameter; get_ix_/put_ix_ byte codecs and the dispatch in convert_swap.m4 are exercised by the harness, not proved.',
    technique='Lean 4 proof over a model regenerated from ncx.c (clang AST translator) + differential run of every primitive against the compiled C',
    design='§4 C09'),
}

NOT_YET = {}

def main():
    checks = []
    for pid in ALL:
        if pid not in CHECKS:
            continue
        c = CHECKS[pid]
        checks.append(dict(
            property_id=pid,
            quick_cmd='./check %s --tier quick' % pid,
            thorough_cmd='./check %s --tier thorough' % pid,
            evidence_file='/verif/evidence/%s.json' % pid,
            replay_cmd_template='./check %s --replay {path}' % pid,
            engine='lean4-proof+correspondence',
            level_claimed=dict(category='proof', text=c['text'], design_ref=c['design']),
            level_note=c['note'],
            technique=c['technique']))
    na = [dict(property_id=p, reason=NOT_YET.get(p, 'not claimed yet: model and theorems for this property are still being built in this round (planned, see DESIGN.md §4); no check is registered until it is sound'))
          for p in ALL if p not in CHECKS]
    m = dict(
        version=1,
        setup_cmd='cd /verif/lean && lake build PnVerif Driver 2>&1 | tail -3; cd /verif && python3 tools/build_drivers.py',
        hooks=dict(guard='PNETCDF_VERIF', enable='checks build a scratch copy of /repo with CFLAGS containing -DPNETCDF_VERIF -DPNC_MALLOC_TRACE (no source hook exists so far; statics are reached by #include, MPI by PMPI interposition)',
                   baseline_off_cmd='cd /repo && make -s -j8 check', source_commits=[], add_only=True),
        engines=[dict(name='lean4-proof+correspondence', path='/verif/check',
                      serves_properties=[c['property_id'] for c in checks],
                      kind_free_text='Lean 4 theorems over models regenerated from the C source (translators in tools/) or hand-written and tied by differential execution against the scratch-built library (checks/*.py, harness/*.c, lean/Driver/*.lean)')],
        checks=checks,
        not_applicable=na,
        notes='See DESIGN.md. KNOWN_FINDINGS.txt lists reproduced genuine defects; seeded/ holds confirmed breaking changes used to test the checks.')
    json.dump(m, open(os.path.join(HERE, 'MANIFEST.json'), 'w'), indent=1)

if __name__ == '__main__':
    main()
