#!/usr/bin/env python3
"""Fill the generated tables of DESIGN.md Part I (between <!-- GEN:x --> markers) from mk_manifest.CHECKS,
KNOWN_FINDINGS.txt and seeded/RESULTS.json."""
import os, re, json, sys, importlib.util
HERE = os.path.dirname(os.path.dirname(os.path.abspath(__file__)))
spec = importlib.util.spec_from_file_location('mk', os.path.join(HERE, 'tools/mk_manifest.py'))
mk = importlib.util.module_from_spec(spec); spec.loader.exec_module(mk)

def table():
    out = []
    for pid in mk.ALL:
        c = mk.CHECKS.get(pid)
        if not c:
            out.append('**%s** — not claimed yet.\n' % pid); continue
        out.append('**%s.**  %s  \n*Not proved / trusted:* %s  \n*Technique:* %s.\n' % (pid, c['text'], c['note'], c['technique']))
    return '\n'.join(out)

def defects():
    rows = ['| status | property | signature | what fails |', '|---|---|---|---|']
    for l in open(os.path.join(HERE, 'KNOWN_FINDINGS.txt')):
        m = re.match(r'finding:\s+property=(\S+)\s+sig=(\S+)\s+(.*)$', l.strip())
        if m:
            rows.append('| known finding | %s | `%s` | %s |' % (m.group(1), m.group(2), m.group(3)[:330].replace('|', '\\|')))
        m = re.match(r'fixed:\s+property=(\S+)\s+(\S+)\s+(.*)$', l.strip())
        if m:
            rows.append('| **fixed** in /repo %s | %s | | %s |' % (m.group(2), m.group(1), m.group(3)[:330].replace('|', '\\|')))
    return '\n'.join(rows)

def seeds():
    f = os.path.join(HERE, 'seeded/RESULTS.json')
    if not os.path.exists(f):
        return '(seeded/RESULTS.json not produced yet)'
    res = json.load(open(f))
    rows = ['| seed | breaks | what it needs to manifest | result of the checks now (quick tier, seed 1) | first result (before the checks were strengthened) |', '|---|---|---|---|---|']
    for sid in sorted(res):
        r = res[sid]
        if 'error' in r:
            rows.append('| %s | | | %s | |' % (sid, r['error'])); continue
        st = '; '.join('%s: %s' % (c, o.get('status')) for c, o in sorted(r['checks'].items()))
        h = r.get('history') or []
        first = '; '.join('%s: %s' % (c, v) for c, v in sorted(h[0]['checks'].items())) if h else 'same'
        if first == st:
            first = 'same'
        rows.append('| %s | %s | %s | %s | %s |' % (sid, r['property'], r['needs'][:260].replace('|', '\\|').replace('\n', ' '), st, first))
    return '\n'.join(rows)

def main():
    p = os.path.join(HERE, 'DESIGN.md')
    s = open(p).read()
    for key, fn in (('TABLE', table), ('DEFECTS', defects), ('SEEDS', seeds)):
        a, b = '<!-- GEN:%s -->' % key, '<!-- /GEN:%s -->' % key
        if '@%s@' % key in s:
            s = s.replace('@%s@' % key, a + '\n' + b)
        i, j = s.index(a) + len(a), s.index(b)
        s = s[:i] + '\n' + fn() + '\n' + s[j:]
    open(p, 'w').write(s)

if __name__ == '__main__':
    main()
