#!/usr/bin/env python3
"""setup: build the lean_exe drivers of every check registered in MANIFEST.json (+ apidrv).
Drivers of properties that are not registered yet are attempted too, but their failure is not fatal."""
import re, subprocess, os, sys, json
here = os.path.dirname(os.path.dirname(os.path.abspath(__file__)))
t = open(os.path.join(here, 'lean/lakefile.toml')).read()
exes = re.findall(r'\[\[lean_exe\]\]\s*name\s*=\s*"([^"]+)"', t)
claimed = {c['property_id'] for c in json.load(open(os.path.join(here, 'MANIFEST.json')))['checks']}
need = {'apidrv'} | {'c%sdrv' % p[1:].lower() for p in claimed}
rc = 0
must = [e for e in exes if e in need]
r = subprocess.call(['lake', 'build'] + must, cwd=os.path.join(here, 'lean'))
if r != 0:
    rc = r
for e in exes:
    if e not in need:
        subprocess.call(['lake', 'build', e], cwd=os.path.join(here, 'lean'), stdout=subprocess.DEVNULL, stderr=subprocess.DEVNULL)
sys.exit(rc)
