#!/usr/bin/env python3
"""setup: build every lean_exe driver listed in lean/lakefile.toml"""
import re, subprocess, os, sys
here = os.path.dirname(os.path.dirname(os.path.abspath(__file__)))
t = open(os.path.join(here, 'lean/lakefile.toml')).read()
exes = re.findall(r'\[\[lean_exe\]\]\s*name\s*=\s*"([^"]+)"', t)
rc = subprocess.call(['lake', 'build'] + exes, cwd=os.path.join(here, 'lean'))
sys.exit(rc)
