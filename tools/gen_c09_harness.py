#!/usr/bin/env python3
"""
Generate the C side of the C09 correspondence: a program that #includes the scratch tree's
*generated* ncx.c (so the static primitives are reachable), reads the same line protocol as
lean/Driver/C09.lean and prints what the compiled C computes.

   P <prim> <fill|-> <cur|-> <v>           -> <out> <err>
   L <loop> <fill|-> <cur|-> <n> <v1..vn>  -> <out1..outn> <status>
"""
import sys, json, os

CT = {
    'schar': ('signed char', 1, True), 'uchar': ('unsigned char', 1, False),
    'short': ('short', 2, True), 'ushort': ('unsigned short', 2, False),
    'int': ('int', 4, True), 'uint': ('unsigned int', 4, False),
    'long': ('long', 8, True), 'longlong': ('long long', 8, True),
    'ulonglong': ('unsigned long long', 8, False),
    'float': ('float', 4, None), 'double': ('double', 8, None),
}
EXT2CT = {'BYTE': 'schar', 'UBYTE': 'uchar', 'SHORT': 'short', 'USHORT': 'ushort',
          'INT': 'int', 'UINT': 'uint', 'INT64': 'longlong', 'UINT64': 'ulonglong',
          'FLOAT': 'float', 'DOUBLE': 'double'}

PRELUDE = r'''
#include <stdio.h>
#include <stdlib.h>
#include <string.h>
#include <stdint.h>
#include "ncx.c"

/* parse a token of C type ct into native memory */
static void parse_int_s(const char *s, void *p, int sz) { long long v = strtoll(s, NULL, 10);
    if (sz==1){signed char x=(signed char)v; memcpy(p,&x,1);} else if (sz==2){short x=(short)v; memcpy(p,&x,2);}
    else if (sz==4){int x=(int)v; memcpy(p,&x,4);} else memcpy(p,&v,8); }
static void parse_int_u(const char *s, void *p, int sz) { unsigned long long v = strtoull(s, NULL, 10);
    if (sz==1){unsigned char x=(unsigned char)v; memcpy(p,&x,1);} else if (sz==2){unsigned short x=(unsigned short)v; memcpy(p,&x,2);}
    else if (sz==4){unsigned x=(unsigned)v; memcpy(p,&x,4);} else memcpy(p,&v,8); }
static void parse_bits(const char *s, void *p, int sz) { unsigned long long v = strtoull(s, NULL, 16);
    if (sz==4){uint32_t x=(uint32_t)v; memcpy(p,&x,4);} else memcpy(p,&v,8); }
/* native -> big-endian external bytes and back (independent of the library's codecs) */
static void to_be(const void *nat, unsigned char *be, int sz) { const unsigned char *n=(const unsigned char*)nat; for (int i=0;i<sz;i++) be[i]=n[sz-1-i]; }
static void from_be(const unsigned char *be, void *nat, int sz) { unsigned char *n=(unsigned char*)nat; for (int i=0;i<sz;i++) n[i]=be[sz-1-i]; }
static void print_s(const void *p, int sz) { long long v;
    if (sz==1){signed char x; memcpy(&x,p,1); v=x;} else if (sz==2){short x; memcpy(&x,p,2); v=x;}
    else if (sz==4){int x; memcpy(&x,p,4); v=x;} else memcpy(&v,p,8); printf("%lld", v); }
static void print_u(const void *p, int sz) { unsigned long long v;
    if (sz==1){unsigned char x; memcpy(&x,p,1); v=x;} else if (sz==2){unsigned short x; memcpy(&x,p,2); v=x;}
    else if (sz==4){unsigned x; memcpy(&x,p,4); v=x;} else memcpy(&v,p,8); printf("%llu", v); }
static void print_bits(const void *p, int sz) { if (sz==4){uint32_t x; memcpy(&x,p,4); printf("0x%x", x);} else {unsigned long long v; memcpy(&v,p,8); printf("0x%llx", v);} }
#define MAXN 64
'''


def parse_call(ct, tok, dst):
    cty, sz, signed = CT[ct]
    if signed is None:
        return 'parse_bits(%s, %s, %d);' % (tok, dst, sz)
    return 'parse_int_%s(%s, %s, %d);' % ('s' if signed else 'u', tok, dst, sz)


def print_call(ct, src):
    cty, sz, signed = CT[ct]
    if signed is None:
        return 'print_bits(%s, %d);' % (src, sz)
    return 'print_%s(%s, %d);' % ('s' if signed else 'u', src, sz)


def main():
    table = json.load(open(sys.argv[1]))
    out = [PRELUDE]
    names = []
    # scalar primitives
    for p in table['prims']:
        nm = p['name'].replace('ncmpix_', '')
        xct, tct = EXT2CT[p['X']], p['T']
        xsz, tsz = CT[xct][1], CT[tct][1]
        f = ['static void P_%s(const char *fill, const char *cur, const char *v) {' % nm]
        f.append('  unsigned char xp[8]; int err;')
        if p['kind'] == 'put':
            f.append('  %s in; %s fv, cv; void *fillp = NULL;' % (CT[tct][0], CT[xct][0]))
            f.append('  ' + parse_call(tct, 'v', '&in'))
            f.append('  memset(&cv,0,sizeof cv); if (cur[0] != \'-\' || cur[1]) { %s } to_be(&cv, xp, %d);' % (parse_call(xct, 'cur', '&cv'), xsz))
            f.append('  if (!(fill[0]==\'-\' && fill[1]==0)) { %s fillp = &fv; }' % parse_call(xct, 'fill', '&fv'))
            f.append('  err = %s(xp, &in, fillp);' % p['name'])
            f.append('  { %s o; from_be(xp, &o, %d); %s }' % (CT[xct][0], xsz, print_call(xct, '&o')))
        else:
            f.append('  %s in; %s o; memset(&o,0,sizeof o);' % (CT[xct][0], CT[tct][0]))
            f.append('  ' + parse_call(xct, 'v', '&in'))
            f.append('  to_be(&in, xp, %d);' % xsz)
            f.append('  err = %s(xp, &o);' % p['name'])
            f.append('  ' + print_call(tct, '&o'))
        f.append('  printf(" %d\\n", err);')
        f.append('}')
        out.append('\n'.join(f))
        names.append(('P', nm))
    # loops (also serve the inline "_elem" pseudo-primitives with n = 1)
    for l in table['loops']:
        nm = l['name'].replace('ncmpix_', '')
        xct, tct = EXT2CT[l['X']], l['T']
        xsz, tsz = CT[xct][1], CT[tct][1]
        f = ['static void L_%s(const char *fill, const char *cur, int n, char **vs) {' % nm]
        f.append('  unsigned char xbuf[MAXN*8+8]; int status, i; void *xpp = xbuf;')
        if l['kind'] == 'put':
            f.append('  %s in[MAXN]; %s fv, cv; void *fillp = NULL;' % (CT[tct][0], CT[xct][0]))
            f.append('  for (i=0;i<n;i++) { %s }' % parse_call(tct, 'vs[i]', '&in[i]'))
            f.append('  memset(&cv,0,sizeof cv); if (cur[0] != \'-\' || cur[1]) { %s } for (i=0;i<n+1;i++) to_be(&cv, xbuf+i*%d, %d);' % (parse_call(xct, 'cur', '&cv'), xsz, xsz))
            f.append('  if (!(fill[0]==\'-\' && fill[1]==0)) { %s fillp = &fv; }' % parse_call(xct, 'fill', '&fv'))
            f.append('  status = %s(&xpp, n, in, fillp);' % l['name'])
            f.append('  for (i=0;i<n;i++) { %s o; from_be(xbuf+i*%d, &o, %d); %s printf(" "); }' % (CT[xct][0], xsz, xsz, print_call(xct, '&o')))
        else:
            f.append('  %s o[MAXN]; memset(o,0,sizeof o);' % CT[tct][0])
            f.append('  for (i=0;i<n;i++) { %s in; %s to_be(&in, xbuf+i*%d, %d); }' % (CT[xct][0], parse_call(xct, 'vs[i]', '&in'), xsz, xsz))
            f.append('  status = %s((const void **)&xpp, n, o);' % l['name'])
            f.append('  for (i=0;i<n;i++) { %s printf(" "); }' % print_call(tct, '&o[i]'))
        f.append('  printf("%d\\n", status);')
        f.append('}')
        out.append('\n'.join(f))
        names.append(('L', nm))
    # dispatcher
    d = ['int main(void) {', '  static char line[1<<16]; char *tok[MAXN+8];',
         '  while (fgets(line, sizeof line, stdin)) {',
         '    int nt = 0; char *s = strtok(line, " \\n"); while (s && nt < MAXN+8) { tok[nt++] = s; s = strtok(NULL, " \\n"); }',
         '    if (nt < 5) { printf("bad-op\\n"); continue; }',
         '    if (tok[0][0] == \'P\') {']
    for k, nm in names:
        if k == 'P':
            d.append('      if (!strcmp(tok[1], "%s")) { P_%s(tok[2], tok[3], tok[4]); continue; }' % (nm, nm))
    # _elem pseudo primitives -> loop with n = 1 (prints "<out> <status>")
    for l in table['loops']:
        if l['shape'] == 'inline':
            nm = l['name'].replace('ncmpix_', '')
            d.append('      if (!strcmp(tok[1], "%s_elem")) { L_%s(tok[2], tok[3], 1, &tok[4]); continue; }' % (nm, nm))
    d.append('      printf("bad-op\\n"); continue;')
    d.append('    } else {')
    d.append('      int n = atoi(tok[4]); if (n > MAXN || nt < 5 + n) { printf("bad-op\\n"); continue; }')
    for k, nm in names:
        if k == 'L':
            d.append('      if (!strcmp(tok[1], "%s")) { L_%s(tok[2], tok[3], n, &tok[5]); continue; }' % (nm, nm))
    d.append('      printf("bad-op\\n");')
    d.append('    }')
    d.append('  }')
    d.append('  return 0;')
    d.append('}')
    out.append('\n'.join(d))
    open(sys.argv[2], 'w').write('\n\n'.join(out) + '\n')


if __name__ == '__main__':
    main()
