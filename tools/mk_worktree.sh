#!/bin/sh
# mk_worktree.sh <dir> : scratch git worktree of /repo with /repo's build products copied in
# (sources keep /repo's mtimes so `make` is incremental).  Remove with:
#   git -C /repo worktree remove --force <dir>
set -e
d="$1"
git -C /repo worktree add --detach "$d" HEAD >/dev/null 2>&1
rsync -a --exclude .git /repo/ "$d"/
echo "$d"
