/*
 * API-level script interpreter used by the C06 and C16 checks (checks/c06.py, checks/c16.py).
 * Runs under mpiexec with 1..8 ranks against the scratch build of the library.
 *
 *   usage: c06_api <script> <datafile> <outprefix>
 *
 * Every rank reads the same script; rank r writes its answers to <outprefix>.<r> (one line per
 * op that produces output).  All data goes through the flexible API with buftype
 * MPI_DATATYPE_NULL, i.e. memory type = external type, so no conversion (C09) is involved; values
 * are printed as the hex of the native element (little endian host integer of xsz bytes).
 *
 * When compiled with -DENDDEF_SRC="<path>", a copy of the tree's ncmpio_enddef.c in which
 * `#define MOVE_UNIT 67108864` was replaced by `#define MOVE_UNIT verif_move_unit` is compiled into
 * this program (the archive member is then not linked), so that the real ncmpi_enddef moves data in
 * several rounds on small files (op `moveunit <n>`).
 * When compiled with -DWITH_FILL_PLAN the MPI_Type_create_hindexed calls of the library are
 * recorded (PMPI) and printed by the op `plan` (the file view built by fillerup_aggregate).
 *
 * ops (ids of dims/vars are the library's, names are generated):
 *   create <fmt 1|2|5> | open <0 ro|1 rw> | close | abort | exists
 *   dim <len>                          (0 = NC_UNLIMITED)
 *   var <nctype> <ndims> <dimid>*
 *   att <varid|-1> <nbytes>            new text attribute of that many bytes
 *   setfill <0 nofill|1 fill>          ncmpi_set_fill
 *   varfill <varid> <nofill> <hasval> <val>   ncmpi_def_var_fill
 *   fvatt <varid> <val>                ncmpi_put_att(_FillValue, var's type, 1)
 *   enddef | enddef4 <h_minfree> <v_align> <v_minfree> <r_align> | redef
 *   indep | coll | sync | syncnr
 *   cput <varid> <seed> <start>* <count>*    collective put_vara_all, first dimension of count split over ranks
 *   iput <rank> <varid> <seed> <start>* <count>*   independent put_vara by one rank
 *   read <varid>                       every rank reads the whole variable; prints values + agreement
 *   fillrec <varid> <recno>
 *   inqfill <varid>
 *   layout | snap | moveunit <n> | plan | planreset
 *   second (template) file <datafile>.tpl:
 *   tmake (<name>:<nbytes>)*           create it with these global text attributes, a variable tv (NC_INT scalar)
 *                                      carrying the same attributes (lower-case pattern values), enddef, close
 *   topen <0 ro|1 rw> | tclose | tsnap
 *   copyatt <dir> <srcvarid|-1> <name> <dstvarid|-1>   ncmpi_copy_att; dir 0: template -> main file, 1: main -> template
 *   tgetatt <varid|-1> <name>          length and text of an attribute of the template
 *   copyatt dir 2: within the main file (srcvar -> dstvar)
 *   tmakev (<nctype>:<val>)*           template (CDF-5) with scalar variables tv<i> of these types, each with a 1-element
 *                                      _FillValue <val> of its own type; enddef; close
 *   fvput <varid> <xtype> <nelems> <val> <typed 0|1>   _FillValue through ncmpi_put_att / ncmpi_put_att_longlong
 *   attany <varid> <name> <xtype> <nelems> <val>       any attribute through ncmpi_put_att
 *   renatt <varid> <old> <new> | delatt <varid> <name>
 */
#include <stdio.h>
#include <stdlib.h>
#include <string.h>
#include <unistd.h>
#include <mpi.h>
#include <pnetcdf.h>

#ifdef ENDDEF_SRC
static long long verif_move_unit = 67108864;
#include ENDDEF_SRC
#endif

#define MAXV 64
#define MAXD 16
static int rank, nprocs;
static FILE *out;
static int ncid = -1, isopen = 0;
static int tncid = -1;
static char tpath[4200];
static int ndims_def = 0, nvars_def = 0, natts_def = 0;
static long long dimlen[MAXD];
static int vtype[MAXV], vnd[MAXV], vdim[MAXV][8];

#ifdef WITH_FILL_PLAN
#define MAXPLAN 4096
static int plan_n = -1;           /* -1: no hindexed call seen */
static int plan_calls = 0;
static long long plan_off[MAXPLAN], plan_len[MAXPLAN];
int MPI_Type_create_hindexed(int count, const int blens[], const MPI_Aint disps[], MPI_Datatype oldtype,
                             MPI_Datatype *newtype)
{
    int i;
    plan_calls++;
    plan_n = count < MAXPLAN ? count : MAXPLAN;
    for (i = 0; i < plan_n; i++) { plan_off[i] = (long long)disps[i]; plan_len[i] = blens[i]; }
    return PMPI_Type_create_hindexed(count, blens, disps, oldtype, newtype);
}
#endif

static int xsz_of(int t)
{
    switch (t) {
        case NC_BYTE: case NC_CHAR: case NC_UBYTE: return 1;
        case NC_SHORT: case NC_USHORT: return 2;
        case NC_INT: case NC_UINT: case NC_FLOAT: return 4;
        default: return 8;
    }
}

static unsigned long long mix(unsigned long long a, unsigned long long b, unsigned long long c)
{
    unsigned long long x = (a + 1) * 0x9E3779B97F4A7C15ULL ^ (b + 1) * 0xBF58476D1CE4E5B9ULL ^ (c + 1) * 0x94D049BB133111EBULL;
    x ^= x >> 31; x *= 0xD6E8FEB86659FD93ULL; x ^= x >> 29;
    return x;
}

/* the value written for element idx of variable varid by a put with this seed */
static long long value_of(int t, int varid, long long idx, long long seed)
{
    unsigned long long m = mix((unsigned long long)varid, (unsigned long long)idx, (unsigned long long)seed);
    switch (t) {
        case NC_CHAR:  return 33 + (long long)(m % 90);
        case NC_BYTE: case NC_UBYTE: return 1 + (long long)(m % 120);
        case NC_SHORT: case NC_USHORT: return 1 + (long long)(m % 32000);
        case NC_FLOAT: return 1 + (long long)(m % 16000000);
        default: return 1 + (long long)(m % 2000000000);
    }
}

/* store value v as an element of external type t (native representation) at p */
static void store(int t, void *p, long long v)
{
    switch (t) {
        case NC_BYTE:   { signed char x = (signed char)v; memcpy(p, &x, 1); break; }
        case NC_CHAR:   { char x = (char)v; memcpy(p, &x, 1); break; }
        case NC_UBYTE:  { unsigned char x = (unsigned char)v; memcpy(p, &x, 1); break; }
        case NC_SHORT:  { short x = (short)v; memcpy(p, &x, 2); break; }
        case NC_USHORT: { unsigned short x = (unsigned short)v; memcpy(p, &x, 2); break; }
        case NC_INT:    { int x = (int)v; memcpy(p, &x, 4); break; }
        case NC_UINT:   { unsigned int x = (unsigned int)v; memcpy(p, &x, 4); break; }
        case NC_FLOAT:  { float x = (float)v; memcpy(p, &x, 4); break; }
        case NC_DOUBLE: { double x = (double)v; memcpy(p, &x, 8); break; }
        case NC_INT64:  { long long x = v; memcpy(p, &x, 8); break; }
        case NC_UINT64: { unsigned long long x = (unsigned long long)v; memcpy(p, &x, 8); break; }
    }
}

static void print_elem(FILE *fp, const unsigned char *p, int xsz)
{
    unsigned long long x = 0;
    memcpy(&x, p, (size_t)xsz);   /* little-endian host */
    fprintf(fp, " %llx", x);
}

static long long var_nelems(int v, long long numrecs, long long *inner)
{
    long long n = 1, in = 1;
    int i;
    for (i = 0; i < vnd[v]; i++) {
        long long l = dimlen[vdim[v][i]];
        if (i == 0 && l == 0) { n *= numrecs; }
        else { n *= l; in *= l; }
    }
    if (inner) *inner = in;
    return n;
}

static int is_rec(int v) { return vnd[v] > 0 && dimlen[vdim[v][0]] == 0; }

/* row-major walk of the slab (start,count) of variable v; fills buf; returns number of elements */
static long long build_slab(int v, long long seed, const MPI_Offset *start, const MPI_Offset *count, unsigned char *buf)
{
    int nd = vnd[v], i, xsz = xsz_of(vtype[v]);
    long long n = 1, k;
    long long shape[8];
    for (i = 0; i < nd; i++) { n *= count[i]; shape[i] = dimlen[vdim[v][i]]; }
    for (k = 0; k < n; k++) {
        long long rem = k, idx = 0, mul = 1, coord[8];
        for (i = nd - 1; i >= 0; i--) { coord[i] = start[i] + rem % count[i]; rem /= count[i]; }
        for (i = nd - 1; i >= 0; i--) { idx += coord[i] * mul; mul *= (i == 0 && shape[0] == 0) ? 1 : shape[i]; }
        store(vtype[v], buf + k * xsz, value_of(vtype[v], v, idx, seed));
    }
    return n;
}

static void read_file_hex(const char *path)
{
    FILE *fp = fopen(path, "rb");
    int c, n = 0;
    if (!fp) { fprintf(out, "snap nofile\n"); return; }
    fprintf(out, "snap ");
    while ((c = fgetc(fp)) != EOF) { fprintf(out, "%02x", c); n++; }
    if (n == 0) fprintf(out, "-");
    fprintf(out, "\n");
    fclose(fp);
}

int main(int argc, char **argv)
{
    char line[65536], *tok[600], oname[4096];
    FILE *sf;
    int ntok, err, i, lineno = 0;
    const char *path;

    MPI_Init(&argc, &argv);
    MPI_Comm_rank(MPI_COMM_WORLD, &rank);
    MPI_Comm_size(MPI_COMM_WORLD, &nprocs);
    alarm(170);
    if (argc < 4) { MPI_Finalize(); return 2; }
    path = argv[2];
    snprintf(tpath, sizeof(tpath), "%s.tpl", path);
    snprintf(oname, sizeof(oname), "%s.%d", argv[3], rank);
    out = fopen(oname, "w");
    sf = fopen(argv[1], "r");
    if (!sf || !out) { perror("open"); MPI_Abort(MPI_COMM_WORLD, 2); }

    while (fgets(line, sizeof(line), sf)) {
        char *p, *op;
        lineno++;
        ntok = 0;
        for (p = strtok(line, " \n"); p && ntok < 600; p = strtok(NULL, " \n")) tok[ntok++] = p;
        if (ntok == 0 || tok[0][0] == '#') continue;
        op = tok[0];
        fprintf(out, "@%d ", lineno);

        if (!strcmp(op, "create")) {
            int fmt = atoi(tok[1]);
            int cmode = NC_CLOBBER | (fmt == 2 ? NC_64BIT_OFFSET : fmt == 5 ? NC_64BIT_DATA : 0);
            err = ncmpi_create(MPI_COMM_WORLD, path, cmode, MPI_INFO_NULL, &ncid);
            isopen = (err == NC_NOERR);
            ndims_def = nvars_def = natts_def = 0;
            fprintf(out, "create %d\n", err);
        }
        else if (!strcmp(op, "open")) {
            err = ncmpi_open(MPI_COMM_WORLD, path, atoi(tok[1]) ? NC_WRITE : NC_NOWRITE, MPI_INFO_NULL, &ncid);
            isopen = (err == NC_NOERR);
            fprintf(out, "open %d\n", err);
        }
        else if (!strcmp(op, "close")) {
            err = ncmpi_close(ncid); isopen = 0;
            fprintf(out, "close %d\n", err);
        }
        else if (!strcmp(op, "abort")) {
            err = ncmpi_abort(ncid); isopen = 0;
            fprintf(out, "abort %d\n", err);
        }
        else if (!strcmp(op, "exists")) {
            MPI_Barrier(MPI_COMM_WORLD);
            fprintf(out, "exists %d\n", access(path, F_OK) == 0 ? 1 : 0);
            MPI_Barrier(MPI_COMM_WORLD);
        }
        else if (!strcmp(op, "dim")) {
            char nm[32]; int id = -1;
            long long len = atoll(tok[1]);
            snprintf(nm, sizeof(nm), "d%d", ndims_def);
            err = ncmpi_def_dim(ncid, nm, len == 0 ? NC_UNLIMITED : (MPI_Offset)len, &id);
            if (err == NC_NOERR && id < MAXD) { dimlen[id] = len; ndims_def++; }
            fprintf(out, "dim %d %d\n", id, err);
        }
        else if (!strcmp(op, "var")) {
            char nm[32]; int id = -1, t = atoi(tok[1]), nd = atoi(tok[2]), dids[8];
            for (i = 0; i < nd; i++) dids[i] = atoi(tok[3 + i]);
            snprintf(nm, sizeof(nm), "v%d", nvars_def);
            err = ncmpi_def_var(ncid, nm, (nc_type)t, nd, dids, &id);
            if (err == NC_NOERR && id < MAXV) {
                vtype[id] = t; vnd[id] = nd;
                for (i = 0; i < nd; i++) vdim[id][i] = dids[i];
                nvars_def++;
            }
            fprintf(out, "var %d %d\n", id, err);
        }
        else if (!strcmp(op, "att")) {
            char nm[32], *val; int vid = atoi(tok[1]); long long n = atoll(tok[2]);
            snprintf(nm, sizeof(nm), "a%d", natts_def++);
            val = (char*) malloc((size_t)n + 1);
            for (i = 0; i < n; i++) val[i] = (char)('A' + (i % 26));
            err = ncmpi_put_att_text(ncid, vid < 0 ? NC_GLOBAL : vid, nm, (MPI_Offset)n, val);
            free(val);
            fprintf(out, "att %d\n", err);
        }
        else if (!strcmp(op, "setfill")) {
            int oldm = -1;
            err = ncmpi_set_fill(ncid, atoi(tok[1]) ? NC_FILL : NC_NOFILL, &oldm);
            fprintf(out, "setfill %d %d\n", err, oldm == NC_FILL ? 1 : oldm == NC_NOFILL ? 0 : -1);
        }
        else if (!strcmp(op, "varfill")) {
            int vid = atoi(tok[1]), nofill = atoi(tok[2]), hasval = atoi(tok[3]);
            unsigned char fv[8];
            store(vtype[vid], fv, atoll(tok[4]));
            err = ncmpi_def_var_fill(ncid, vid, nofill, hasval ? fv : NULL);
            fprintf(out, "varfill %d\n", err);
        }
        else if (!strcmp(op, "fvatt")) {
            int vid = atoi(tok[1]);
            unsigned char fv[8];
            store(vtype[vid], fv, atoll(tok[2]));
            err = ncmpi_put_att(ncid, vid, "_FillValue", (nc_type)vtype[vid], 1, fv);
            fprintf(out, "fvatt %d\n", err);
        }
        else if (!strcmp(op, "enddef")) {
            err = ncmpi_enddef(ncid);
            fprintf(out, "enddef %d\n", err);
        }
        else if (!strcmp(op, "enddef4")) {
            err = ncmpi__enddef(ncid, atoll(tok[1]), atoll(tok[2]), atoll(tok[3]), atoll(tok[4]));
            fprintf(out, "enddef4 %d\n", err);
        }
        else if (!strcmp(op, "redef")) {
            err = ncmpi_redef(ncid);
            fprintf(out, "redef %d\n", err);
        }
        else if (!strcmp(op, "indep")) { err = ncmpi_begin_indep_data(ncid); fprintf(out, "indep %d\n", err); }
        else if (!strcmp(op, "coll"))  { err = ncmpi_end_indep_data(ncid);   fprintf(out, "coll %d\n", err); }
        else if (!strcmp(op, "sync"))  { err = ncmpi_sync(ncid);             fprintf(out, "sync %d\n", err); }
        else if (!strcmp(op, "syncnr")){ err = ncmpi_sync_numrecs(ncid);     fprintf(out, "syncnr %d\n", err); }
        else if (!strcmp(op, "cput") || !strcmp(op, "iput")) {
            int coll = !strcmp(op, "cput");
            int who = coll ? -1 : atoi(tok[1]);
            int b = coll ? 1 : 2;
            int v = atoi(tok[b]); long long seed = atoll(tok[b + 1]);
            int nd = vnd[v], xsz = xsz_of(vtype[v]);
            MPI_Offset start[8], count[8];
            long long n = 1;
            unsigned char *buf;
            for (i = 0; i < nd; i++) { start[i] = atoll(tok[b + 2 + i]); count[i] = atoll(tok[b + 2 + nd + i]); }
            if (coll && nd > 0) {
                /* split the first dimension among the ranks (block partition, remainder to the low ranks) */
                long long c0 = count[0], base = c0 / nprocs, rem = c0 % nprocs;
                long long mine = base + (rank < rem ? 1 : 0);
                long long off = base * rank + (rank < rem ? rank : rem);
                start[0] += off; count[0] = mine;
            }
            for (i = 0; i < nd; i++) n *= count[i];
            buf = (unsigned char*) malloc((size_t)(n > 0 ? n : 1) * xsz);
            if (coll) {
                build_slab(v, seed, start, count, buf);
                err = ncmpi_put_vara_all(ncid, v, start, count, buf, 0, MPI_DATATYPE_NULL);
            }
            else if (rank == who % nprocs) {
                build_slab(v, seed, start, count, buf);
                err = ncmpi_put_vara(ncid, v, start, count, buf, 0, MPI_DATATYPE_NULL);
            }
            else err = NC_NOERR;
            free(buf);
            fprintf(out, "%s %d\n", op, err);
        }
        else if (!strcmp(op, "read")) {
            int v = atoi(tok[1]), nd = vnd[v], xsz = xsz_of(vtype[v]), unl = -1, ismode_indep = (ntok > 2 && atoi(tok[2]));
            MPI_Offset start[8], count[8], nr = 0;
            long long n, n0, k;
            unsigned char *buf, *buf0;
            int same = 1, allsame = 1;
            ncmpi_inq_unlimdim(ncid, &unl);
            if (unl >= 0) ncmpi_inq_dimlen(ncid, unl, &nr);
            for (i = 0; i < nd; i++) { start[i] = 0; count[i] = (i == 0 && dimlen[vdim[v][0]] == 0) ? nr : dimlen[vdim[v][i]]; }
            n = var_nelems(v, nr, NULL);
            buf = (unsigned char*) calloc((size_t)(n > 0 ? n : 1), (size_t)xsz);
            if (ismode_indep) err = ncmpi_get_vara(ncid, v, start, count, buf, 0, MPI_DATATYPE_NULL);
            else              err = ncmpi_get_vara_all(ncid, v, start, count, buf, 0, MPI_DATATYPE_NULL);
            /* agreement of all ranks with rank 0 */
            n0 = n;
            MPI_Bcast(&n0, 1, MPI_LONG_LONG, 0, MPI_COMM_WORLD);
            buf0 = (unsigned char*) calloc((size_t)(n0 > 0 ? n0 : 1), (size_t)xsz);
            if (rank == 0) memcpy(buf0, buf, (size_t)n0 * xsz);
            MPI_Bcast(buf0, (int)(n0 * xsz), MPI_BYTE, 0, MPI_COMM_WORLD);
            if (n != n0 || memcmp(buf, buf0, (size_t)n * xsz)) same = 0;
            MPI_Allreduce(&same, &allsame, 1, MPI_INT, MPI_MIN, MPI_COMM_WORLD);
            fprintf(out, "read %d %d %lld %lld %d :", v, err, (long long)nr, n, allsame);
            for (k = 0; k < n; k++) print_elem(out, buf + k * xsz, xsz);
            fprintf(out, "\n");
            free(buf); free(buf0);
        }
        else if (!strcmp(op, "fillrec")) {
            err = ncmpi_fill_var_rec(ncid, atoi(tok[1]), atoll(tok[2]));
            fprintf(out, "fillrec %d\n", err);
        }
        else if (!strcmp(op, "inqfill")) {
            int v = atoi(tok[1]), nofill = -1;
            unsigned char fv[8];
            memset(fv, 0, 8);
            err = ncmpi_inq_var_fill(ncid, v, &nofill, fv);
            fprintf(out, "inqfill %d %d", err, nofill);
            print_elem(out, fv, xsz_of(vtype[v]));
            fprintf(out, "\n");
        }
        else if (!strcmp(op, "layout")) {
            MPI_Offset hs = -1, he = -1, rs = -1, nr = 0, off;
            int nv = 0, unl = -1;
            ncmpi_inq_header_size(ncid, &hs);
            ncmpi_inq_header_extent(ncid, &he);
            ncmpi_inq_recsize(ncid, &rs);
            ncmpi_inq_nvars(ncid, &nv);
            ncmpi_inq_unlimdim(ncid, &unl);
            if (unl >= 0) ncmpi_inq_dimlen(ncid, unl, &nr);
            fprintf(out, "layout %lld %lld %lld %lld %d", (long long)hs, (long long)he, (long long)rs, (long long)nr, nv);
            for (i = 0; i < nv; i++) { off = -1; ncmpi_inq_varoffset(ncid, i, &off); fprintf(out, " %lld", (long long)off); }
            fprintf(out, "\n");
        }
        else if (!strcmp(op, "snap")) {
            MPI_Barrier(MPI_COMM_WORLD);
            if (rank == 0) read_file_hex(path); else fprintf(out, "snap other\n");
            MPI_Barrier(MPI_COMM_WORLD);
        }
        else if (!strcmp(op, "tmake")) {
            int tid = -1, tv = -1, e2;
            err = ncmpi_create(MPI_COMM_WORLD, tpath, NC_CLOBBER, MPI_INFO_NULL, &tid);
            if (err == NC_NOERR) err = ncmpi_def_var(tid, "tv", NC_INT, 0, NULL, &tv);
            for (i = 1; i < ntok && err == NC_NOERR; i++) {
                char nm[64], *colon = strchr(tok[i], ':'), *val; long long n, k;
                if (!colon) continue;
                n = atoll(colon + 1);
                snprintf(nm, sizeof(nm), "%.*s", (int)(colon - tok[i]), tok[i]);
                val = (char*) malloc((size_t)n + 1);
                for (k = 0; k < n; k++) val[k] = (char)('a' + (k % 26));
                err = ncmpi_put_att_text(tid, NC_GLOBAL, nm, (MPI_Offset)n, val);
                if (err == NC_NOERR) err = ncmpi_put_att_text(tid, tv, nm, (MPI_Offset)n, val);
                free(val);
            }
            if (tid >= 0) { e2 = ncmpi_enddef(tid); if (err == NC_NOERR) err = e2; e2 = ncmpi_close(tid); if (err == NC_NOERR) err = e2; }
            fprintf(out, "tmake %d\n", err);
        }
        else if (!strcmp(op, "topen")) {
            err = ncmpi_open(MPI_COMM_WORLD, tpath, atoi(tok[1]) ? NC_WRITE : NC_NOWRITE, MPI_INFO_NULL, &tncid);
            fprintf(out, "topen %d\n", err);
        }
        else if (!strcmp(op, "tclose")) {
            err = ncmpi_close(tncid); tncid = -1;
            fprintf(out, "tclose %d\n", err);
        }
        else if (!strcmp(op, "tsnap")) {
            MPI_Barrier(MPI_COMM_WORLD);
            if (rank == 0) read_file_hex(tpath); else fprintf(out, "snap other\n");
            MPI_Barrier(MPI_COMM_WORLD);
        }
        else if (!strcmp(op, "copyatt")) {
            int dir = atoi(tok[1]), sv = atoi(tok[2]), dv = atoi(tok[4]);
            if (dir == 2) err = ncmpi_copy_att(ncid, sv < 0 ? NC_GLOBAL : sv, tok[3], ncid, dv < 0 ? NC_GLOBAL : dv);
            else if (dir == 0) err = ncmpi_copy_att(tncid, sv < 0 ? NC_GLOBAL : sv, tok[3], ncid, dv < 0 ? NC_GLOBAL : dv);
            else          err = ncmpi_copy_att(ncid, sv < 0 ? NC_GLOBAL : sv, tok[3], tncid, dv < 0 ? NC_GLOBAL : dv);
            fprintf(out, "copyatt %d\n", err);
        }
        else if (!strcmp(op, "tgetatt")) {
            int v = atoi(tok[1]); MPI_Offset n = -1; char *val;
            err = ncmpi_inq_attlen(tncid, v < 0 ? NC_GLOBAL : v, tok[2], &n);
            val = (char*) calloc((size_t)(n > 0 ? n : 0) + 1, 1);
            if (err == NC_NOERR) err = ncmpi_get_att_text(tncid, v < 0 ? NC_GLOBAL : v, tok[2], val);
            fprintf(out, "tgetatt %d %lld %s\n", err, (long long)n, n > 0 ? val : "-");
            free(val);
        }
        else if (!strcmp(op, "tmakev")) {
            int tid = -1, e2;
            err = ncmpi_create(MPI_COMM_WORLD, tpath, NC_CLOBBER | NC_64BIT_DATA, MPI_INFO_NULL, &tid);
            for (i = 1; i < ntok && err == NC_NOERR; i++) {
                char nm[32], *colon = strchr(tok[i], ':'); int ty, vid = -1; unsigned char fv[8];
                if (!colon) continue;
                ty = atoi(tok[i]);
                snprintf(nm, sizeof(nm), "tv%d", i - 1);
                err = ncmpi_def_var(tid, nm, (nc_type)ty, 0, NULL, &vid);
                store(ty, fv, atoll(colon + 1));
                if (err == NC_NOERR) err = ncmpi_put_att(tid, vid, "_FillValue", (nc_type)ty, 1, fv);
            }
            if (tid >= 0) { e2 = ncmpi_enddef(tid); if (err == NC_NOERR) err = e2; e2 = ncmpi_close(tid); if (err == NC_NOERR) err = e2; }
            fprintf(out, "tmakev %d\n", err);
        }
        else if (!strcmp(op, "fvput") || !strcmp(op, "attany")) {
            int isfv = !strcmp(op, "fvput");
            int vid = atoi(tok[1]);
            const char *nm = isfv ? "_FillValue" : tok[2];
            int b = isfv ? 2 : 3;
            int ty = atoi(tok[b]), n = atoi(tok[b + 1]), typed = isfv ? atoi(tok[b + 3]) : 0;
            long long val = atoll(tok[b + 2]);
            if (typed) {
                long long arr[4];
                for (i = 0; i < n && i < 4; i++) arr[i] = val;
                err = ncmpi_put_att_longlong(ncid, vid, nm, (nc_type)ty, (MPI_Offset)n, arr);
            } else {
                unsigned char buf[32];
                for (i = 0; i < n && i < 4; i++) store(ty, buf + i * xsz_of(ty), val);
                err = ncmpi_put_att(ncid, vid, nm, (nc_type)ty, (MPI_Offset)n, buf);
            }
            fprintf(out, "%s %d\n", op, err);
        }
        else if (!strcmp(op, "renatt")) {
            err = ncmpi_rename_att(ncid, atoi(tok[1]), tok[2], tok[3]);
            fprintf(out, "renatt %d\n", err);
        }
        else if (!strcmp(op, "delatt")) {
            err = ncmpi_del_att(ncid, atoi(tok[1]), tok[2]);
            fprintf(out, "delatt %d\n", err);
        }
        else if (!strcmp(op, "moveunit")) {
#ifdef ENDDEF_SRC
            verif_move_unit = atoll(tok[1]);
            fprintf(out, "moveunit %lld\n", verif_move_unit);
#else
            fprintf(out, "moveunit unsupported\n");
#endif
        }
        else if (!strcmp(op, "planreset")) {
#ifdef WITH_FILL_PLAN
            plan_n = -1; plan_calls = 0;
#endif
            fprintf(out, "planreset\n");
        }
        else if (!strcmp(op, "plan")) {
#ifdef WITH_FILL_PLAN
            fprintf(out, "plan %d %d", plan_calls, plan_n);
            for (i = 0; i < plan_n; i++) fprintf(out, " %lld %lld", plan_off[i], plan_len[i]);
            fprintf(out, "\n");
#else
            fprintf(out, "plan unsupported\n");
#endif
        }
        else fprintf(out, "badop %s\n", op);
        fflush(out);
    }
    fclose(sf);
    fclose(out);
    MPI_Finalize();
    return 0;
}
