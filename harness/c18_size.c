/*
 * C18 correspondence harness: the real library through its public API.
 *
 *   D fmt size
 *        -> <err of ncmpi_def_dim>
 *   T fmt halign ralign nvars { xtype isrec nd len.. }
 *        -> dd=<def_dim errs> dv=<def_var errs> e=<enddef err> hs=<header size> he=<header extent>
 *           b=<begin per defined variable> rs=<recsize> H=<header bytes, hex>
 *   W fmt halign ralign nvars { xtype isrec nd len.. } nw { var nd idx.. value expect_off }
 *        -> e=<enddef err> b=<begins> w=<put errs> g=<get errs:values> c=<close err> sz=<file size>
 *           blk=<allocated 512-byte blocks> p=<bytes found at expect_off, hex, per write>
 *
 * fmt 1|2|5; dimension names d000.., record dimension rec_, variable names v000.. (fixed width, so
 * that the header length is computable by the caller).  No data is written by T; W writes single
 * elements into a sparse file and reads the bytes back with pread().
 */
#include <stdio.h>
#include <stdlib.h>
#include <string.h>
#include <unistd.h>
#include <fcntl.h>
#include <sys/stat.h>
#include <mpi.h>
#include <pnetcdf.h>

#define MAXV 8
#define MAXD 6

static char dir[900], path[1024];
static int nfile;

static int xsz_of(int xt)
{
    switch (xt) {
        case NC_BYTE: case NC_CHAR: case NC_UBYTE: return 1;
        case NC_SHORT: case NC_USHORT: return 2;
        case NC_INT: case NC_UINT: case NC_FLOAT: return 4;
        default: return 8;
    }
}

struct vdesc { int xt, isrec, nd; MPI_Offset len[MAXD]; int id, ok; };

/* create + define; returns enddef error, fills ids; prints dd= dv= */
static int define_file(int fmt, long long halign, long long ralign, int nv, struct vdesc *v, int *ncidp, int quiet)
{
    MPI_Info info;
    char val[64];
    int cmode = NC_CLOBBER | (fmt == 2 ? NC_64BIT_OFFSET : fmt == 5 ? NC_64BIT_DATA : 0);
    int ncid, err, i, j, ndim = 0, recdim = -1;
    snprintf(path, sizeof(path), "%s/s%d.nc", dir, nfile++);
    MPI_Info_create(&info);
    snprintf(val, sizeof(val), "%lld", halign); MPI_Info_set(info, "nc_header_align_size", val);
    snprintf(val, sizeof(val), "%lld", ralign); MPI_Info_set(info, "nc_record_align_size", val);
    err = ncmpi_create(MPI_COMM_WORLD, path, cmode, info, &ncid);
    MPI_Info_free(&info);
    if (err != NC_NOERR) { printf("create-failed %d\n", err); return err; }
    *ncidp = ncid;
    if (!quiet) printf("dd=");
    for (i = 0; i < nv; i++) {
        int dimids[MAXD];
        char nm[16];
        v[i].ok = 1;
        for (j = 0; j < v[i].nd; j++) {
            if (j == 0 && v[i].isrec) {
                if (recdim < 0) {
                    err = ncmpi_def_dim(ncid, "rec_", NC_UNLIMITED, &recdim);
                    if (!quiet) printf("%d,", err);
                }
                dimids[0] = recdim;
            } else {
                snprintf(nm, sizeof(nm), "d%03d", ndim++);
                err = ncmpi_def_dim(ncid, nm, v[i].len[j], &dimids[j]);
                if (!quiet) printf("%d,", err);
                if (err != NC_NOERR) v[i].ok = 0;
            }
        }
    }
    /* second walk: define the variables (dimension ids are assigned in definition order) */
    if (!quiet) printf(" dv=");
    {
        int next = 0, rd = -1, seenrec = 0;
        for (i = 0; i < nv; i++) {
            int dimids[MAXD];
            char nm[16];
            for (j = 0; j < v[i].nd; j++) {
                if (j == 0 && v[i].isrec) {
                    if (!seenrec) { rd = next++; seenrec = 1; }
                    dimids[0] = rd;
                } else dimids[j] = next++;
            }
            snprintf(nm, sizeof(nm), "v%03d", i);
            if (v[i].ok) {
                err = ncmpi_def_var(ncid, nm, (nc_type)v[i].xt, v[i].nd, dimids, &v[i].id);
                if (!quiet) printf("%d,", err);
                if (err != NC_NOERR) v[i].ok = 0;
            } else if (!quiet) printf("skip,");
        }
    }
    err = ncmpi_enddef(ncid);
    return err;
}

static int parse_vars(int nv, struct vdesc *v)
{
    int i, j;
    for (i = 0; i < nv; i++) {
        v[i].xt = atoi(strtok(NULL, " \n"));
        v[i].isrec = atoi(strtok(NULL, " \n"));
        v[i].nd = atoi(strtok(NULL, " \n"));
        if (v[i].nd > MAXD) return 1;
        for (j = 0; j < v[i].nd; j++) v[i].len[j] = atoll(strtok(NULL, " \n"));
    }
    return 0;
}

int main(int argc, char **argv)
{
    static char line[1 << 16];
    alarm(900);
    MPI_Init(&argc, &argv);
    strncpy(dir, argc >= 2 ? argv[1] : "/tmp", sizeof(dir) - 1);
    while (fgets(line, sizeof(line), stdin)) {
        char *tok = strtok(line, " \n");
        if (tok == NULL) continue;
        if (strcmp(tok, "D") == 0) {
            int fmt = atoi(strtok(NULL, " \n")), ncid, d, err;
            long long size = atoll(strtok(NULL, " \n"));
            int cmode = NC_CLOBBER | (fmt == 2 ? NC_64BIT_OFFSET : fmt == 5 ? NC_64BIT_DATA : 0);
            snprintf(path, sizeof(path), "%s/s%d.nc", dir, nfile++);
            err = ncmpi_create(MPI_COMM_WORLD, path, cmode, MPI_INFO_NULL, &ncid);
            if (err != NC_NOERR) { printf("create-failed %d\n", err); fflush(stdout); continue; }
            err = ncmpi_def_dim(ncid, "x", (MPI_Offset)size, &d);
            printf("%d\n", err);
            ncmpi_close(ncid);
            unlink(path);
        }
        else if (strcmp(tok, "T") == 0 || strcmp(tok, "W") == 0) {
            int isW = (tok[0] == 'W');
            int fmt = atoi(strtok(NULL, " \n"));
            long long halign = atoll(strtok(NULL, " \n")), ralign = atoll(strtok(NULL, " \n"));
            int nv = atoi(strtok(NULL, " \n")), ncid = -1, err, i, j;
            struct vdesc v[MAXV];
            if (nv > MAXV || parse_vars(nv, v)) { printf("bad-op\n"); fflush(stdout); continue; }
            err = define_file(fmt, halign, ralign, nv, v, &ncid, isW);
            printf(" e=%d", err);
            if (err == NC_NOERR) {
                MPI_Offset hs = -1, he = -1, rs = -1, off;
                ncmpi_inq_header_size(ncid, &hs);
                ncmpi_inq_header_extent(ncid, &he);
                ncmpi_inq_recsize(ncid, &rs);
                if (!isW) printf(" hs=%lld he=%lld", (long long)hs, (long long)he);
                printf(" b=");
                for (i = 0; i < nv; i++)
                    if (v[i].ok) { ncmpi_inq_varoffset(ncid, v[i].id, &off); printf("%lld,", (long long)off); }
                if (!isW) printf(" rs=%lld", (long long)rs);
                if (!isW) {
                    int fd = open(path, O_RDONLY);
                    unsigned char *hb = malloc(hs > 0 ? hs : 1);
                    ssize_t got = fd >= 0 ? pread(fd, hb, hs, 0) : -1;
                    printf(" H=");
                    for (j = 0; j < got; j++) printf("%02x", hb[j]);
                    if (fd >= 0) close(fd);
                    free(hb);
                }
            }
            if (isW && err == NC_NOERR) {
                int nw = atoi(strtok(NULL, " \n"));
                int wv[16], wx[16]; long long woff[16], wval[16];
                if (nw > 16) nw = 16;
                printf(" w=");
                for (i = 0; i < nw; i++) {
                    MPI_Offset idx[MAXD];
                    int var = atoi(strtok(NULL, " \n")), nd = atoi(strtok(NULL, " \n"));
                    for (j = 0; j < nd; j++) idx[j] = atoll(strtok(NULL, " \n"));
                    long long value = atoll(strtok(NULL, " \n"));
                    woff[i] = atoll(strtok(NULL, " \n"));
                    wv[i] = var; wval[i] = value; wx[i] = xsz_of(v[var].xt);
                    int ival = (int)value;
                    err = ncmpi_put_var1_int_all(ncid, v[var].id, idx, &ival);
                    printf("%d,", err);
                    /* read it back through the library right away */
                    ival = -12345;
                    err = ncmpi_get_var1_int_all(ncid, v[var].id, idx, &ival);
                    wval[i] = ival * 1000003LL + err;      /* packed for printing below */
                }
                printf(" g=");
                for (i = 0; i < nw; i++) printf("%lld:%lld,", wval[i] % 1000003LL, wval[i] / 1000003LL);
                err = ncmpi_close(ncid); ncid = -1;
                printf(" c=%d", err);
                {
                    struct stat st;
                    int fd = open(path, O_RDONLY);
                    if (fd >= 0 && fstat(fd, &st) == 0) printf(" sz=%lld blk=%lld", (long long)st.st_size, (long long)st.st_blocks);
                    printf(" p=");
                    for (i = 0; i < nw; i++) {
                        unsigned char b[8] = {0};
                        ssize_t got = fd >= 0 ? pread(fd, b, wx[i], woff[i]) : -1;
                        for (j = 0; j < wx[i]; j++) printf("%02x", got == wx[i] ? b[j] : 0xee);
                        printf(",");
                    }
                    if (fd >= 0) close(fd);
                }
                (void)wv;
            }
            printf("\n");
            if (ncid >= 0) ncmpi_close(ncid);
            unlink(path);
        }
        else printf("bad-op\n");
        fflush(stdout);
    }
    MPI_Finalize();
    return 0;
}
