/*
 * C11 fault-injection harness (DESIGN.md 4 C11, BUILDER_GUIDE "Harness conventions").
 *
 * Statically linked with the scratch libpnetcdf.a.  The program defines its own
 * MPI_File_{read,write}[_at][_all]: they call PMPI_* (the real transfer IS performed) and, for the
 * k-th data-transfer call of rank r, return the chosen MPI error CLASS value instead of MPI_SUCCESS
 * (MPI_Error_class of a class value is the class itself).  Every transfer call is logged with the
 * return addresses of its callers, so that checks/c11.py can map it (addr2line) to a row of the
 * generated site table and to the call chain up to the driver entry point.
 *
 *   c11_fault <scenario> <file> <logprefix> <rank> <k> <class>     (k = 0: count only)
 *
 * log file <logprefix>.<rank>, one record per line:
 *   CALL <idx> <MPI function> <api seq> <count> <zero|data> <ret addr> <ret addr> ...
 *   INJECT <idx> <class>
 *   API <seq> <label> <return code> [request statuses ...]
 *   HANG <seq> <label>           (watchdog: this rank was still inside API <seq>; label "sync" = it had
 *                                 returned from API <seq> and waited for the other ranks to return too)
 *   CRASH <signal> <seq> <label> (SIGSEGV/SIGBUS/SIGABRT/SIGFPE inside API <seq>)
 *   KILLED <seq> <label>         (SIGTERM from mpiexec because another rank ended abnormally)
 *   STOP <seq>                   (a fault fired during API <seq> on some rank: every rank stops here)
 *   DONE
 *
 * After every API call the ranks agree (MPI_Allreduce on a private communicator) whether the fault
 * has fired; if so the program stops.  So a rank that is still blocked INSIDE the call in which the
 * fault fired -- the only blocking the property is about -- shows up as HANG <that seq>, and later
 * calls, whose behaviour after a reported error is the application's business, are not executed.
 */
#include <stdio.h>
#include <stdlib.h>
#include <string.h>
#include <unistd.h>
#include <signal.h>
#include <execinfo.h>
#include <mpi.h>
#include <pnetcdf.h>

static int g_rank = 0, g_nprocs = 1;
static int g_target_rank = -1, g_target_k = 0, g_class = 0;
static int g_ncalls = 0, g_fired = 0;
static int g_seq = 0;
static const char *g_label = "-";
static FILE *g_log = NULL;

static MPI_Comm g_hc = MPI_COMM_NULL;
/* a coverage build (tools/coverage.py) must not lose the counters of the runs that stop early */
extern void __gcov_dump(void) __attribute__((weak));

static void sync_point(void)
{
    int mine = g_fired, any = 0;
    const char *save = g_label;
    g_label = "sync";
    PMPI_Allreduce(&mine, &any, 1, MPI_INT, MPI_MAX, g_hc);
    g_label = save;
    if (any) {
        fprintf(g_log, "STOP %d\nDONE\n", g_seq);
        fflush(g_log);
        PMPI_Barrier(g_hc);
        if (__gcov_dump) __gcov_dump();
        _exit(0);
    }
}

static void on_alarm(int sig)
{
    char b[256];
    int n = snprintf(b, sizeof b, "HANG %d %s\n", g_seq, g_label);
    if (g_log) { fflush(g_log); if (write(fileno(g_log), b, n) < 0) {} }
    _exit(7);
}

static void on_crash(int sig)
{
    char b[256];
    int n = snprintf(b, sizeof b, "%s %d %d %s\n", sig == SIGTERM ? "KILLED" : "CRASH", sig, g_seq, g_label);
    if (sig == SIGTERM) n = snprintf(b, sizeof b, "KILLED %d %s\n", g_seq, g_label);
    if (g_log) { if (write(fileno(g_log), b, n) < 0) {} }
    _exit(sig == SIGTERM ? 8 : 9);
}

static int hook(const char *fn, int count, const void *buf, int real)
{
    void *bt[24];
    int i, n;
    g_ncalls++;
    n = backtrace(bt, 24);
    fprintf(g_log, "CALL %d %s %d %d %s", g_ncalls, fn, g_seq, count, (buf == NULL && count == 0) ? "zero" : "data");
    /* bt[0] = hook, bt[1] = the MPI_File_* wrapper, bt[2] = the library function holding the site ... */
    for (i = 2; i < n; i++) fprintf(g_log, " %p", bt[i]);
    fprintf(g_log, "\n");
    if (g_rank == g_target_rank && g_ncalls == g_target_k && !g_fired) {
        g_fired = 1;
        fprintf(g_log, "INJECT %d %d\n", g_ncalls, g_class);
        fflush(g_log);
        return g_class;
    }
    return real;
}

int MPI_File_write_at(MPI_File fh, MPI_Offset off, const void *buf, int count, MPI_Datatype t, MPI_Status *st)
{ int r = PMPI_File_write_at(fh, off, buf, count, t, st); return hook("MPI_File_write_at", count, buf, r); }
int MPI_File_write_at_all(MPI_File fh, MPI_Offset off, const void *buf, int count, MPI_Datatype t, MPI_Status *st)
{ int r = PMPI_File_write_at_all(fh, off, buf, count, t, st); return hook("MPI_File_write_at_all", count, buf, r); }
int MPI_File_read_at(MPI_File fh, MPI_Offset off, void *buf, int count, MPI_Datatype t, MPI_Status *st)
{ int r = PMPI_File_read_at(fh, off, buf, count, t, st); return hook("MPI_File_read_at", count, buf, r); }
int MPI_File_read_at_all(MPI_File fh, MPI_Offset off, void *buf, int count, MPI_Datatype t, MPI_Status *st)
{ int r = PMPI_File_read_at_all(fh, off, buf, count, t, st); return hook("MPI_File_read_at_all", count, buf, r); }
int MPI_File_write(MPI_File fh, const void *buf, int count, MPI_Datatype t, MPI_Status *st)
{ int r = PMPI_File_write(fh, buf, count, t, st); return hook("MPI_File_write", count, buf, r); }
int MPI_File_write_all(MPI_File fh, const void *buf, int count, MPI_Datatype t, MPI_Status *st)
{ int r = PMPI_File_write_all(fh, buf, count, t, st); return hook("MPI_File_write_all", count, buf, r); }
int MPI_File_read(MPI_File fh, void *buf, int count, MPI_Datatype t, MPI_Status *st)
{ int r = PMPI_File_read(fh, buf, count, t, st); return hook("MPI_File_read", count, buf, r); }
int MPI_File_read_all(MPI_File fh, void *buf, int count, MPI_Datatype t, MPI_Status *st)
{ int r = PMPI_File_read_all(fh, buf, count, t, st); return hook("MPI_File_read_all", count, buf, r); }

/* ---- API call recording -------------------------------------------------------------------- */
#define A(label, call) do { g_seq++; g_label = (label); rc = (call); \
        fprintf(g_log, "API %d %s %d\n", g_seq, (label), rc); fflush(g_log); sync_point(); } while (0)

static void api_wait(const char *label, int ncid, int n, int *reqs, int coll)
{
    int st[8], i, rc;
    for (i = 0; i < n; i++) st[i] = 0;
    g_seq++; g_label = label;
    rc = coll ? ncmpi_wait_all(ncid, n, reqs, st) : ncmpi_wait(ncid, n, reqs, st);
    fprintf(g_log, "API %d %s %d", g_seq, label, rc);
    for (i = 0; i < n; i++) fprintf(g_log, " %d", st[i]);
    fprintf(g_log, "\n"); fflush(g_log);
    sync_point();
}

#define NX 8
static int g_buf[4 * NX * 4], g_rbuf[4 * NX * 4];

/* common schema: dims rec(unlimited), y(4*nprocs), x(NX); vars fix(y,x) int, rec(rec,x) int, sca int */
static int def_schema(int ncid, int *fix, int *recv, int *sca, int fill)
{
    int rc, dr, dy, dx, dims[2], old;
    if (fill) A("set_fill", ncmpi_set_fill(ncid, NC_FILL, &old));
    A("def_dim", ncmpi_def_dim(ncid, "rec", NC_UNLIMITED, &dr));
    A("def_dim", ncmpi_def_dim(ncid, "y", 4 * g_nprocs, &dy));
    A("def_dim", ncmpi_def_dim(ncid, "x", NX, &dx));
    dims[0] = dy; dims[1] = dx;
    A("def_var", ncmpi_def_var(ncid, "fix", NC_INT, 2, dims, fix));
    dims[0] = dr;
    A("def_var", ncmpi_def_var(ncid, "recv", NC_INT, 2, dims, recv));
    A("def_var", ncmpi_def_var(ncid, "sca", NC_INT, 0, NULL, sca));
    A("put_att", ncmpi_put_att_text(ncid, NC_GLOBAL, "title", 5, "hello"));
    A("put_att", ncmpi_put_att_text(ncid, *fix, "units", 2, "mm"));
    return rc;
}

static void slab(MPI_Offset *start, MPI_Offset *count)
{
    start[0] = 4 * g_rank; start[1] = 0; count[0] = 4; count[1] = NX;
}
static void recslab(MPI_Offset *start, MPI_Offset *count, int rec0, int nrec)
{
    /* each rank writes its own part of x in records rec0 .. rec0+nrec-1 */
    start[0] = rec0; count[0] = nrec;
    start[1] = (NX / g_nprocs) * g_rank; count[1] = NX / g_nprocs;
}

static int create(const char *path, int *ncid, MPI_Info info)
{
    int rc;
    A("create", ncmpi_create(MPI_COMM_WORLD, path, NC_CLOBBER | NC_64BIT_DATA, info, ncid));
    return rc;
}

/* ---- second family of programs: every way into ncmpio_read_write ----------------------------
 * pack / no pack of the memory buffer (xbuf != buf), read / write, MPI_File_{read,write}_at (independent
 * mode or 1 process) / _at_all (collective, >= 2 processes); flexible API with derived memory types
 * (vector, indexed, resized) with and without type conversion and byte swap; waits over several
 * requests whose buffers are not adjacent; intra-node aggregation. */
static signed char g_cb[512], g_crb[512];
static int g_ib[512], g_irb[512];
static float g_fb[512], g_frb[512];

static void def_schema2(int ncid, int *bv, int *iv)
{
    int rc, dy, dx, dims[2];
    A("def_dim", ncmpi_def_dim(ncid, "y", 4 * g_nprocs, &dy));
    A("def_dim", ncmpi_def_dim(ncid, "x", NX, &dx));
    dims[0] = dy; dims[1] = dx;
    A("def_var", ncmpi_def_var(ncid, "bv", NC_BYTE, 2, dims, bv));
    A("def_var", ncmpi_def_var(ncid, "iv", NC_INT, 2, dims, iv));
    (void)rc;
}

/* memory layouts holding 4*NX = 32 elements of type `elt` */
static MPI_Datatype mk_type(int kind, MPI_Datatype elt, MPI_Offset *bufcount)
{
    MPI_Datatype t = MPI_DATATYPE_NULL;
    if (kind == 0) {                               /* vector: every second element */
        MPI_Type_vector(4 * NX, 1, 2, elt, &t); *bufcount = 1;
    } else if (kind == 1) {                        /* indexed: three blocks with gaps */
        int bl[3] = {8, 8, 16}, disp[3] = {0, 12, 30};
        MPI_Type_indexed(3, bl, disp, elt, &t); *bufcount = 1;
    } else {                                       /* resized element, extent twice its size */
        MPI_Aint lb, ext;
        MPI_Type_get_extent(elt, &lb, &ext);
        MPI_Type_create_resized(elt, 0, 2 * ext, &t); *bufcount = 4 * NX;
    }
    MPI_Type_commit(&t);
    return t;
}

static void flex_pair(int ncid, int coll, int var, const char *vname, int kind, const char *kname,
                      MPI_Datatype elt, void *wbuf, void *rbuf)
{
    int rc;
    char lp[64], lg[64];
    MPI_Offset start[2], count[2], bc;
    MPI_Datatype t = mk_type(kind, elt, &bc);
    slab(start, count);
    snprintf(lp, sizeof lp, "put_flex%s_%s_%s", coll ? "_all" : "", kname, vname);
    snprintf(lg, sizeof lg, "get_flex%s_%s_%s", coll ? "_all" : "", kname, vname);
    /* the label strings must outlive the call (g_label is read by the signal handlers) */
    if (coll) {
        A(strdup(lp), ncmpi_put_vara_all(ncid, var, start, count, wbuf, bc, t));
        A(strdup(lg), ncmpi_get_vara_all(ncid, var, start, count, rbuf, bc, t));
    } else {
        A(strdup(lp), ncmpi_put_vara(ncid, var, start, count, wbuf, bc, t));
        A(strdup(lg), ncmpi_get_vara(ncid, var, start, count, rbuf, bc, t));
    }
    MPI_Type_free(&t);
}

static void flex_all(int ncid, int coll, int bv, int iv)
{
    /* NC_BYTE <- signed char: no conversion, no byte swap: the derived type reaches ncmpio_read_write */
    flex_pair(ncid, coll, bv, "byte", 0, "vec", MPI_SIGNED_CHAR, g_cb, g_crb);
    flex_pair(ncid, coll, bv, "byte", 1, "idx", MPI_SIGNED_CHAR, g_cb, g_crb);
    flex_pair(ncid, coll, bv, "byte", 2, "rsz", MPI_SIGNED_CHAR, g_cb, g_crb);
    /* NC_INT <- int: byte swap on this machine */
    flex_pair(ncid, coll, iv, "int", 0, "vec", MPI_INT, g_ib, g_irb);
    flex_pair(ncid, coll, iv, "int", 1, "idx", MPI_INT, g_ib, g_irb);
    /* NC_INT <- float, NC_BYTE <- int: type conversion */
    flex_pair(ncid, coll, iv, "int_from_float", 0, "vec", MPI_FLOAT, g_fb, g_frb);
    flex_pair(ncid, coll, bv, "byte_from_int", 2, "rsz", MPI_INT, g_ib, g_irb);
}

static void multi_wait(int ncid, int coll, int bv, int iv)
{
    int rc, reqs[4];
    MPI_Offset s1[2], c1[2], s2[2], c2[2];
    const char *w = coll ? "wait_all" : "wait";
    char lab[64];
    /* two halves of this rank's rows, from / into buffers that are NOT adjacent in memory */
    slab(s1, c1); c1[0] = 2;
    slab(s2, c2); s2[0] += 2; c2[0] = 2;
    A("iput_byte", ncmpi_iput_vara_schar(ncid, bv, s1, c1, g_cb, &reqs[0]));
    A("iput_byte", ncmpi_iput_vara_schar(ncid, bv, s2, c2, g_cb + 200, &reqs[1]));
    snprintf(lab, sizeof lab, "%s_2puts_byte", w); api_wait(strdup(lab), ncid, 2, reqs, coll);
    A("iput_int", ncmpi_iput_vara_int(ncid, iv, s1, c1, g_ib, &reqs[0]));
    A("iput_int", ncmpi_iput_vara_int(ncid, iv, s2, c2, g_ib + 200, &reqs[1]));
    snprintf(lab, sizeof lab, "%s_2puts_int", w); api_wait(strdup(lab), ncid, 2, reqs, coll);
    A("iget_byte", ncmpi_iget_vara_schar(ncid, bv, s1, c1, g_crb, &reqs[0]));
    A("iget_byte", ncmpi_iget_vara_schar(ncid, bv, s2, c2, g_crb + 200, &reqs[1]));
    snprintf(lab, sizeof lab, "%s_2gets_byte", w); api_wait(strdup(lab), ncid, 2, reqs, coll);
    A("iget_int", ncmpi_iget_vara_int(ncid, iv, s1, c1, g_irb, &reqs[0]));
    A("iget_int", ncmpi_iget_vara_int(ncid, iv, s2, c2, g_irb + 200, &reqs[1]));
    snprintf(lab, sizeof lab, "%s_2gets_int", w); api_wait(strdup(lab), ncid, 2, reqs, coll);
    /* puts and gets in one wait: write phase, then read phase */
    A("iput_byte", ncmpi_iput_vara_schar(ncid, bv, s1, c1, g_cb, &reqs[0]));
    A("iput_byte", ncmpi_iput_vara_schar(ncid, bv, s2, c2, g_cb + 200, &reqs[1]));
    A("iget_int", ncmpi_iget_vara_int(ncid, iv, s1, c1, g_irb, &reqs[2]));
    A("iget_int", ncmpi_iget_vara_int(ncid, iv, s2, c2, g_irb + 200, &reqs[3]));
    snprintf(lab, sizeof lab, "%s_mixed_2puts_2gets", coll ? "wait_all" : "wait"); api_wait(strdup(lab), ncid, 4, reqs, coll);
    /* buffered puts */
    A("buffer_attach", ncmpi_buffer_attach(ncid, 4096));
    A("bput_byte", ncmpi_bput_vara_schar(ncid, bv, s1, c1, g_cb, &reqs[0]));
    A("bput_int", ncmpi_bput_vara_int(ncid, iv, s2, c2, g_ib + 200, &reqs[1]));
    snprintf(lab, sizeof lab, "%s_2bputs", w); api_wait(strdup(lab), ncid, 2, reqs, coll);
    A("buffer_detach", ncmpi_buffer_detach(ncid));
}

static int scenario2(const char *name, const char *path)
{
    int rc, ncid, bv, iv, i;
    MPI_Offset start[2], count[2];
    MPI_Info info = MPI_INFO_NULL;
    int ina = (strstr(name, "_ina") != NULL);
    for (i = 0; i < 512; i++) { g_cb[i] = (signed char)(i % 100); g_ib[i] = (i % 90) + g_rank; g_fb[i] = (float)(i % 50); }
    if (strncmp(name, "flex_", 5) && strncmp(name, "multi_", 6)) return 0;
    if (ina) {                      /* intra-node aggregation: one aggregator for the 2+ ranks of this node */
        MPI_Info_create(&info);
        MPI_Info_set(info, "nc_num_aggrs_per_node", "1");
    }
    create(path, &ncid, info); def_schema2(ncid, &bv, &iv);
    A("enddef", ncmpi_enddef(ncid));
    if (!strcmp(name, "flex_indep")) {
        A("begin_indep", ncmpi_begin_indep_data(ncid));
        flex_all(ncid, 0, bv, iv);
        A("end_indep", ncmpi_end_indep_data(ncid));
    }
    else if (!strcmp(name, "flex_coll") || !strcmp(name, "flex_coll_ina")) {
        slab(start, count);
        A("put_vara_all_byte", ncmpi_put_vara_schar_all(ncid, bv, start, count, g_cb));
        A("put_vara_all_int", ncmpi_put_vara_int_all(ncid, iv, start, count, g_ib));
        flex_all(ncid, 1, bv, iv);
    }
    else if (!strcmp(name, "multi_indep")) {
        A("begin_indep", ncmpi_begin_indep_data(ncid));
        multi_wait(ncid, 0, bv, iv);
        A("end_indep", ncmpi_end_indep_data(ncid));
    }
    else if (!strcmp(name, "multi_coll") || !strcmp(name, "multi_coll_ina")) {
        multi_wait(ncid, 1, bv, iv);
    }
    else {
        fprintf(g_log, "BAD-SCENARIO %s\n", name);
    }
    A("close", ncmpi_close(ncid));
    if (info != MPI_INFO_NULL) MPI_Info_free(&info);
    return 1;
}

/* ---- third family: the remaining driver entry points that reach an I/O site -------------------
 * vard, varn, interleaved requests in one wait, ncmpi__enddef, copy_att in data mode, abort. */
static int scenario3(const char *name, const char *path)
{
    int rc, ncid, fix, recv, sca, i, reqs[4];
    MPI_Offset start[2], count[2];
    MPI_Info info = MPI_INFO_NULL;
    if (strncmp(name, "x_", 2)) return 0;
    for (i = 0; i < 4 * NX * 4; i++) g_buf[i] = 1000 * g_rank + i;
    if (strstr(name, "_ina")) {
        MPI_Info_create(&info);
        MPI_Info_set(info, "nc_num_aggrs_per_node", "1");
    }
    if (!strcmp(name, "x_enddef2")) {
        /* the ncmpi__enddef entry point: first enddef (fill mode), then a redef that moves data */
        char big[3000];
        memset(big, 'z', sizeof big);
        create(path, &ncid, info); def_schema(ncid, &fix, &recv, &sca, 1);
        A("_enddef", ncmpi__enddef(ncid, 0, 4, 0, 4));
        slab(start, count);
        A("put_vara_all", ncmpi_put_vara_int_all(ncid, fix, start, count, g_buf));
        recslab(start, count, 0, 2);
        A("put_vara_all_rec", ncmpi_put_vara_int_all(ncid, recv, start, count, g_buf));
        A("redef", ncmpi_redef(ncid));
        A("put_att", ncmpi_put_att_text(ncid, NC_GLOBAL, "big", 3000, big));
        A("_enddef_move", ncmpi__enddef(ncid, 0, 4, 0, 4));
        A("close", ncmpi_close(ncid));
        return 1;
    }
    if (!strcmp(name, "x_copy_att")) {
        int ncid2, f2, r2, s2;
        char path2[1024];
        snprintf(path2, sizeof path2, "%s.b", path);
        create(path, &ncid, info); def_schema(ncid, &fix, &recv, &sca, 0);
        A("enddef", ncmpi_enddef(ncid));
        A("create", ncmpi_create(MPI_COMM_WORLD, path2, NC_CLOBBER | NC_64BIT_DATA, info, &ncid2));
        def_schema(ncid2, &f2, &r2, &s2, 0);
        A("enddef", ncmpi_enddef(ncid2));
        A("copy_att_data", ncmpi_copy_att(ncid, NC_GLOBAL, "title", ncid2, NC_GLOBAL));
        A("copy_att_data_var", ncmpi_copy_att(ncid, fix, "units", ncid2, f2));
        A("close", ncmpi_close(ncid2));
        A("close", ncmpi_close(ncid));
        if (g_rank == 0) unlink(path2);
        return 1;
    }
    create(path, &ncid, info); def_schema(ncid, &fix, &recv, &sca, 0);
    A("enddef", ncmpi_enddef(ncid));
    if (!strcmp(name, "x_vard") || !strcmp(name, "x_vard_indep")) {
        int coll = !strcmp(name, "x_vard");
        int sizes[2], subs[2], sts[2];
        MPI_Datatype ft, fr;
        sizes[0] = 4 * g_nprocs; sizes[1] = NX; subs[0] = 4; subs[1] = NX; sts[0] = 4 * g_rank; sts[1] = 0;
        MPI_Type_create_subarray(2, sizes, subs, sts, MPI_ORDER_C, MPI_INT, &ft); MPI_Type_commit(&ft);
        sizes[0] = 2; sizes[1] = NX; subs[0] = 2; subs[1] = NX / g_nprocs; sts[0] = 0; sts[1] = (NX / g_nprocs) * g_rank;
        MPI_Type_create_subarray(2, sizes, subs, sts, MPI_ORDER_C, MPI_INT, &fr); MPI_Type_commit(&fr);
        if (coll) {
            A("put_vard_all", ncmpi_put_vard_all(ncid, fix, ft, g_buf, 4 * NX, MPI_INT));
            A("put_vard_all_rec", ncmpi_put_vard_all(ncid, recv, fr, g_buf, 2 * (NX / g_nprocs), MPI_INT));
            A("get_vard_all", ncmpi_get_vard_all(ncid, fix, ft, g_rbuf, 4 * NX, MPI_INT));
            A("get_vard_all_rec", ncmpi_get_vard_all(ncid, recv, fr, g_rbuf, 2 * (NX / g_nprocs), MPI_INT));
        } else {
            A("begin_indep", ncmpi_begin_indep_data(ncid));
            A("put_vard", ncmpi_put_vard(ncid, fix, ft, g_buf, 4 * NX, MPI_INT));
            A("put_vard_rec", ncmpi_put_vard(ncid, recv, fr, g_buf, 2 * (NX / g_nprocs), MPI_INT));
            A("get_vard", ncmpi_get_vard(ncid, fix, ft, g_rbuf, 4 * NX, MPI_INT));
            A("end_indep", ncmpi_end_indep_data(ncid));
        }
        MPI_Type_free(&ft); MPI_Type_free(&fr);
    }
    else if (!strcmp(name, "x_varn") || !strcmp(name, "x_varn_indep") || !strcmp(name, "x_varn_ina")) {
        int coll = strcmp(name, "x_varn_indep") != 0;
        MPI_Offset s0[2], s1[2], c0[2], c1[2], *starts[2], *counts[2];
        starts[0] = s0; starts[1] = s1; counts[0] = c0; counts[1] = c1;
        /* two separate pieces of this rank's rows of the fixed-size variable */
        s0[0] = 4 * g_rank; s0[1] = 0; c0[0] = 1; c0[1] = NX;
        s1[0] = 4 * g_rank + 2; s1[1] = 0; c1[0] = 2; c1[1] = NX;
        if (!coll) A("begin_indep", ncmpi_begin_indep_data(ncid));
        if (coll) A("put_varn_all", ncmpi_put_varn_int_all(ncid, fix, 2, starts, counts, g_buf));
        else      A("put_varn", ncmpi_put_varn_int(ncid, fix, 2, starts, counts, g_buf));
        if (coll) A("get_varn_all", ncmpi_get_varn_int_all(ncid, fix, 2, starts, counts, g_rbuf));
        else      A("get_varn", ncmpi_get_varn_int(ncid, fix, 2, starts, counts, g_rbuf));
        /* record variable: two records, this rank's share of x (numrecs grows) */
        s0[0] = 0; s0[1] = (NX / g_nprocs) * g_rank; c0[0] = 1; c0[1] = NX / g_nprocs;
        s1[0] = 2; s1[1] = (NX / g_nprocs) * g_rank; c1[0] = 1; c1[1] = NX / g_nprocs;
        if (coll) A("put_varn_all_rec", ncmpi_put_varn_int_all(ncid, recv, 2, starts, counts, g_buf));
        else      A("put_varn_rec", ncmpi_put_varn_int(ncid, recv, 2, starts, counts, g_buf));
        if (!coll) A("end_indep", ncmpi_end_indep_data(ncid));
    }
    else if (!strcmp(name, "x_interleaved") || !strcmp(name, "x_interleaved_indep")) {
        int coll = !strcmp(name, "x_interleaved");
        MPI_Offset stride[2];
        /* two requests whose file regions interleave: even and odd columns of the same rows */
        if (!coll) A("begin_indep", ncmpi_begin_indep_data(ncid));
        slab(start, count); count[1] = NX / 2; stride[0] = 1; stride[1] = 2;
        A("iput_vars_even", ncmpi_iput_vars_int(ncid, fix, start, count, stride, g_buf, &reqs[0]));
        start[1] = 1;
        A("iput_vars_odd", ncmpi_iput_vars_int(ncid, fix, start, count, stride, g_buf + 64, &reqs[1]));
        api_wait(coll ? "wait_all_interleaved_puts" : "wait_interleaved_puts", ncid, 2, reqs, coll);
        start[1] = 0;
        A("iget_vars_even", ncmpi_iget_vars_int(ncid, fix, start, count, stride, g_rbuf, &reqs[0]));
        start[1] = 1;
        A("iget_vars_odd", ncmpi_iget_vars_int(ncid, fix, start, count, stride, g_rbuf + 64, &reqs[1]));
        api_wait(coll ? "wait_all_interleaved_gets" : "wait_interleaved_gets", ncid, 2, reqs, coll);
        if (!coll) A("end_indep", ncmpi_end_indep_data(ncid));
    }
    else if (!strcmp(name, "x_abort")) {
        A("begin_indep", ncmpi_begin_indep_data(ncid));
        recslab(start, count, 0, 2);
        A("put_vara_rec", ncmpi_put_vara_int(ncid, recv, start, count, g_buf));
        A("abort", ncmpi_abort(ncid));                   /* data mode: like close; leaves independent mode first */
        if (info != MPI_INFO_NULL) MPI_Info_free(&info);
        return 1;
    }
    else {
        fprintf(g_log, "BAD-SCENARIO %s\n", name);
    }
    A("close", ncmpi_close(ncid));
    if (info != MPI_INFO_NULL) MPI_Info_free(&info);
    return 1;
}

static void scenario(const char *name, const char *path)
{
    int rc, ncid, fix, recv, sca, i, reqs[4], v2;
    MPI_Offset start[2], count[2];
    MPI_Info info = MPI_INFO_NULL;
    for (i = 0; i < 4 * NX * 4; i++) g_buf[i] = 1000 * g_rank + i;
    if (scenario2(name, path)) return;
    if (scenario3(name, path)) return;

    if (!strcmp(name, "create_enddef")) {
        create(path, &ncid, info); def_schema(ncid, &fix, &recv, &sca, 0);
        A("enddef", ncmpi_enddef(ncid));
        A("close", ncmpi_close(ncid));
    }
    else if (!strcmp(name, "create_close")) {       /* enddef inside close */
        create(path, &ncid, info); def_schema(ncid, &fix, &recv, &sca, 0);
        A("close", ncmpi_close(ncid));
    }
    else if (!strcmp(name, "fill")) {
        create(path, &ncid, info); def_schema(ncid, &fix, &recv, &sca, 1);
        A("enddef", ncmpi_enddef(ncid));
        A("fill_var_rec", ncmpi_fill_var_rec(ncid, recv, 0));
        A("fill_var_rec", ncmpi_fill_var_rec(ncid, recv, 2));
        A("close", ncmpi_close(ncid));
    }
    else if (!strcmp(name, "put_get_coll")) {
        create(path, &ncid, info); def_schema(ncid, &fix, &recv, &sca, 0);
        A("enddef", ncmpi_enddef(ncid));
        slab(start, count);
        A("put_vara_all", ncmpi_put_vara_int_all(ncid, fix, start, count, g_buf));
        recslab(start, count, 0, 2);
        A("put_vara_all_rec", ncmpi_put_vara_int_all(ncid, recv, start, count, g_buf));
        recslab(start, count, 2, 1);
        A("put_vara_all_rec", ncmpi_put_vara_int_all(ncid, recv, start, count, g_buf));
        slab(start, count);
        A("get_vara_all", ncmpi_get_vara_int_all(ncid, fix, start, count, g_rbuf));
        A("put_var1_all", ncmpi_put_var1_int_all(ncid, sca, NULL, g_buf));
        A("close", ncmpi_close(ncid));
    }
    else if (!strcmp(name, "put_get_indep")) {
        create(path, &ncid, info); def_schema(ncid, &fix, &recv, &sca, 0);
        A("enddef", ncmpi_enddef(ncid));
        A("begin_indep", ncmpi_begin_indep_data(ncid));
        slab(start, count);
        A("put_vara", ncmpi_put_vara_int(ncid, fix, start, count, g_buf));
        recslab(start, count, 0, 2);
        A("put_vara_rec", ncmpi_put_vara_int(ncid, recv, start, count, g_buf));
        slab(start, count);
        A("get_vara", ncmpi_get_vara_int(ncid, fix, start, count, g_rbuf));
        A("end_indep", ncmpi_end_indep_data(ncid));
        A("close", ncmpi_close(ncid));
    }
    else if (!strcmp(name, "sync_close_indep")) {
        create(path, &ncid, info); def_schema(ncid, &fix, &recv, &sca, 0);
        A("enddef", ncmpi_enddef(ncid));
        A("begin_indep", ncmpi_begin_indep_data(ncid));
        recslab(start, count, 0, 1);
        A("put_vara_rec", ncmpi_put_vara_int(ncid, recv, start, count, g_buf));
        A("sync", ncmpi_sync(ncid));
        recslab(start, count, 1, 2);
        A("put_vara_rec", ncmpi_put_vara_int(ncid, recv, start, count, g_buf));
        A("sync_numrecs", ncmpi_sync_numrecs(ncid));
        recslab(start, count, 3, 1);
        A("put_vara_rec", ncmpi_put_vara_int(ncid, recv, start, count, g_buf));
        A("close", ncmpi_close(ncid));                      /* close while in independent mode */
    }
    else if (!strcmp(name, "redef_indep")) {
        create(path, &ncid, info); def_schema(ncid, &fix, &recv, &sca, 0);
        A("enddef", ncmpi_enddef(ncid));
        A("begin_indep", ncmpi_begin_indep_data(ncid));
        recslab(start, count, 0, 2);
        A("put_vara_rec", ncmpi_put_vara_int(ncid, recv, start, count, g_buf));
        A("redef", ncmpi_redef(ncid));                      /* leaves independent mode: numrecs written */
        A("put_att", ncmpi_put_att_text(ncid, NC_GLOBAL, "a2", 3, "abc"));
        A("enddef", ncmpi_enddef(ncid));
        A("close", ncmpi_close(ncid));
    }
    else if (!strcmp(name, "redef_move")) {
        char big[3000];
        int dx2;
        memset(big, 'x', sizeof big);
        create(path, &ncid, info); def_schema(ncid, &fix, &recv, &sca, 0);
        A("enddef", ncmpi_enddef(ncid));
        slab(start, count);
        A("put_vara_all", ncmpi_put_vara_int_all(ncid, fix, start, count, g_buf));
        recslab(start, count, 0, 2);
        A("put_vara_all_rec", ncmpi_put_vara_int_all(ncid, recv, start, count, g_buf));
        A("redef", ncmpi_redef(ncid));
        A("put_att", ncmpi_put_att_text(ncid, NC_GLOBAL, "big", 3000, big));   /* header grows: all data moves */
        A("def_dim", ncmpi_def_dim(ncid, "x2", 3, &dx2));
        A("def_var", ncmpi_def_var(ncid, "fix2", NC_INT, 1, &dx2, &v2));          /* new fixed var: records move */
        A("enddef", ncmpi_enddef(ncid));
        slab(start, count);
        A("get_vara_all", ncmpi_get_vara_int_all(ncid, fix, start, count, g_rbuf));
        A("redef", ncmpi_redef(ncid));
        { int d0 = 0; /* dim id 0 = rec */
          A("def_var", ncmpi_def_var(ncid, "recv2", NC_INT, 1, &d0, &v2)); }
        A("close", ncmpi_close(ncid));                       /* enddef (record-by-record move) inside close */
    }
    else if (!strcmp(name, "wait_mixed") || !strcmp(name, "wait_puts") || !strcmp(name, "wait_gets") ||
             !strcmp(name, "wait_indep")) {
        int mixed = !strcmp(name, "wait_mixed"), puts = mixed || !strcmp(name, "wait_puts") || !strcmp(name, "wait_indep");
        int gets = mixed || !strcmp(name, "wait_gets") || !strcmp(name, "wait_indep");
        int indep = !strcmp(name, "wait_indep"), n = 0;
        create(path, &ncid, info); def_schema(ncid, &fix, &recv, &sca, 0);
        A("enddef", ncmpi_enddef(ncid));
        slab(start, count);
        A("put_vara_all", ncmpi_put_vara_int_all(ncid, fix, start, count, g_buf));
        if (indep) A("begin_indep", ncmpi_begin_indep_data(ncid));
        if (puts) {
            recslab(start, count, 0, 2);
            A("iput_vara_rec", ncmpi_iput_vara_int(ncid, recv, start, count, g_buf, &reqs[n])); n++;
        }
        if (gets) {
            slab(start, count);
            A("iget_vara", ncmpi_iget_vara_int(ncid, fix, start, count, g_rbuf, &reqs[n])); n++;
        }
        api_wait(indep ? "wait_mixed" : (mixed ? "wait_all_mixed" : "wait_all"), ncid, n, reqs, !indep);
        if (indep) A("end_indep", ncmpi_end_indep_data(ncid));
        A("close", ncmpi_close(ncid));
    }
    else if (!strcmp(name, "wait_mixed_ina")) {
        /* intra-node aggregation (hint nc_num_aggrs_per_node=1): the write phase of wait_all goes through
         * ncmpio_intra_node_aggregation_nreqs instead of wait_getput */
        MPI_Info_create(&info);
        MPI_Info_set(info, "nc_num_aggrs_per_node", "1");
        create(path, &ncid, info); def_schema(ncid, &fix, &recv, &sca, 0);
        A("enddef", ncmpi_enddef(ncid));
        slab(start, count);
        A("put_vara_all", ncmpi_put_vara_int_all(ncid, fix, start, count, g_buf));
        recslab(start, count, 0, 2);
        A("iput_vara_rec", ncmpi_iput_vara_int(ncid, recv, start, count, g_buf, &reqs[0]));
        slab(start, count);
        A("iget_vara", ncmpi_iget_vara_int(ncid, fix, start, count, g_rbuf, &reqs[1]));
        api_wait("wait_all_mixed", ncid, 2, reqs, 1);
        recslab(start, count, 2, 1);
        A("iput_vara_rec", ncmpi_iput_vara_int(ncid, recv, start, count, g_buf, &reqs[0]));
        api_wait("wait_all", ncid, 1, reqs, 1);
        A("close", ncmpi_close(ncid));
        MPI_Info_free(&info);
    }
    else if (!strcmp(name, "data_mode_meta")) {
        create(path, &ncid, info); def_schema(ncid, &fix, &recv, &sca, 0);
        A("enddef", ncmpi_enddef(ncid));
        A("put_att_data", ncmpi_put_att_text(ncid, NC_GLOBAL, "title", 5, "HELLO"));
        A("rename_var_data", ncmpi_rename_var(ncid, fix, "fx"));
        A("rename_att_data", ncmpi_rename_att(ncid, NC_GLOBAL, "title", "titl"));
        A("rename_dim_data", ncmpi_rename_dim(ncid, 1, "w"));
        A("close", ncmpi_close(ncid));
    }
    else if (!strcmp(name, "open_read")) {
        int nd, nv, na, ud;
        create(path, &ncid, info); def_schema(ncid, &fix, &recv, &sca, 0);
        A("enddef", ncmpi_enddef(ncid));
        slab(start, count);
        A("put_vara_all", ncmpi_put_vara_int_all(ncid, fix, start, count, g_buf));
        A("close", ncmpi_close(ncid));
        A("open", ncmpi_open(MPI_COMM_WORLD, path, NC_NOWRITE, info, &ncid));
        if (rc == NC_NOERR) {
            A("inq", ncmpi_inq(ncid, &nd, &nv, &na, &ud));
            slab(start, count);
            A("get_vara_all", ncmpi_get_vara_int_all(ncid, fix, start, count, g_rbuf));
            A("close", ncmpi_close(ncid));
        }
    }
    else if (!strcmp(name, "open_bighdr")) {
        /* CDF-2 header laid out so that the first dimid of variable "v" starts exactly at the end of the
         * first header read chunk (262144 bytes): the second hdr_fetch happens inside the dimid loop of
         * hdr_get_NC_var.  magic 4 + numrecs 4 + dim_list 20 + gatt_list 24+L + var_list: tag/nelems 8,
         * name 8, ndims 4  ->  dimid at 72 + L = 262144 */
        int d, v, nd, nv, na, ud;
        size_t L = 262144 - 72;
        char *big = (char*) malloc(L);
        memset(big, 'y', L);
        g_seq++; g_label = "create";
        rc = ncmpi_create(MPI_COMM_WORLD, path, NC_CLOBBER | NC_64BIT_OFFSET, info, &ncid);
        fprintf(g_log, "API %d create %d\n", g_seq, rc); fflush(g_log); sync_point();
        A("def_dim", ncmpi_def_dim(ncid, "d", 4, &d));
        A("put_att", ncmpi_put_att_text(ncid, NC_GLOBAL, "a", L, big));
        A("def_var", ncmpi_def_var(ncid, "v", NC_INT, 1, &d, &v));
        A("enddef", ncmpi_enddef(ncid));
        A("close", ncmpi_close(ncid));
        A("open", ncmpi_open(MPI_COMM_WORLD, path, NC_NOWRITE, info, &ncid));
        if (rc == NC_NOERR) {
            A("inq", ncmpi_inq(ncid, &nd, &nv, &na, &ud));
            A("close", ncmpi_close(ncid));
        }
        free(big);
    }
    else if (!strcmp(name, "zero_req")) {
        /* collective calls where the last rank has nothing to transfer */
        create(path, &ncid, info); def_schema(ncid, &fix, &recv, &sca, 0);
        A("enddef", ncmpi_enddef(ncid));
        slab(start, count);
        if (g_rank == g_nprocs - 1) count[0] = 0;
        A("put_vara_all", ncmpi_put_vara_int_all(ncid, fix, start, count, g_buf));
        A("get_vara_all", ncmpi_get_vara_int_all(ncid, fix, start, count, g_rbuf));
        A("iput_vara", ncmpi_iput_vara_int(ncid, fix, start, count, g_buf, &reqs[0]));
        api_wait("wait_all", ncid, 1, reqs, 1);
        A("close", ncmpi_close(ncid));
    }
    else if (!strcmp(name, "hcoll_header")) {
        /* romio_no_indep_rw: header and numrecs are written collectively (NC_HCOLL) */
        MPI_Info_create(&info);
        MPI_Info_set(info, "romio_no_indep_rw", "true");
        create(path, &ncid, info); def_schema(ncid, &fix, &recv, &sca, 0);
        A("enddef", ncmpi_enddef(ncid));
        recslab(start, count, 0, 2);
        A("put_vara_all_rec", ncmpi_put_vara_int_all(ncid, recv, start, count, g_buf));
        A("put_att_data", ncmpi_put_att_text(ncid, NC_GLOBAL, "title", 5, "HELLO"));
        A("close", ncmpi_close(ncid));
        A("open", ncmpi_open(MPI_COMM_WORLD, path, NC_NOWRITE, info, &ncid));
        if (rc == NC_NOERR) A("close", ncmpi_close(ncid));
        MPI_Info_free(&info);
    }
    else {
        fprintf(g_log, "BAD-SCENARIO %s\n", name);
    }
}

int main(int argc, char **argv)
{
    char fn[1024];
    MPI_Init(&argc, &argv);
    MPI_Comm_rank(MPI_COMM_WORLD, &g_rank);
    MPI_Comm_size(MPI_COMM_WORLD, &g_nprocs);
    MPI_Comm_set_errhandler(MPI_COMM_WORLD, MPI_ERRORS_RETURN);
    MPI_File_set_errhandler(MPI_FILE_NULL, MPI_ERRORS_RETURN);
    MPI_Comm_dup(MPI_COMM_WORLD, &g_hc);
    if (argc < 7) { fprintf(stderr, "usage\n"); MPI_Finalize(); return 2; }
    g_target_rank = atoi(argv[4]); g_target_k = atoi(argv[5]); g_class = atoi(argv[6]);
    snprintf(fn, sizeof fn, "%s.%d", argv[3], g_rank);
    g_log = fopen(fn, "w");
    if (!g_log) { perror(fn); MPI_Abort(MPI_COMM_WORLD, 3); }
    signal(SIGALRM, on_alarm);
    signal(SIGSEGV, on_crash); signal(SIGBUS, on_crash); signal(SIGABRT, on_crash); signal(SIGFPE, on_crash);
    signal(SIGTERM, on_crash);
    alarm(argc > 7 ? atoi(argv[7]) : 20);
    scenario(argv[1], argv[2]);
    g_seq++; g_label = "finalize";
    fprintf(g_log, "DONE\n");
    fflush(g_log);
    MPI_Finalize();
    fclose(g_log);
    return 0;
}
