/*
 * C11 fault-injection harness (DESIGN.md 4 C11, BUILDER_GUIDE "Harness conventions").
 *
 * Statically linked with the scratch libpnetcdf.a.  The program defines its own
 * MPI_File_{read,write}[_at][_all]: they call PMPI_* (the real transfer IS performed) and, for the
 * k-th data-transfer call of rank r, return the chosen MPI error CLASS value instead of MPI_SUCCESS
 * (MPI_Error_class of a class value is the class itself).  Every transfer call is logged with the
 * return addresses of its callers, so that checks/c11.py can map it (addr2line) to a row of the
 * generated site table and to the call chain up to the driver entry point.
 *
 *   c11_fault <scenario> <file> <logprefix> <rank> <k> <class>     (k = 0: count only)
 *
 * log file <logprefix>.<rank>, one record per line:
 *   CALL <idx> <MPI function> <api seq> <count> <zero|data> <ret addr> <ret addr> ...
 *   INJECT <idx> <class>
 *   API <seq> <label> <return code> [request statuses ...]
 *   HANG <seq> <label>           (watchdog: this rank was still inside API <seq>; label "sync" = it had
 *                                 returned from API <seq> and waited for the other ranks to return too)
 *   CRASH <signal> <seq> <label> (SIGSEGV/SIGBUS/SIGABRT/SIGFPE inside API <seq>)
 *   KILLED <seq> <label>         (SIGTERM from mpiexec because another rank ended abnormally)
 *   STOP <seq>                   (a fault fired during API <seq> on some rank: every rank stops here)
 *   DONE
 *
 * After every API call the ranks agree (MPI_Allreduce on a private communicator) whether the fault
 * has fired; if so the program stops.  So a rank that is still blocked INSIDE the call in which the
 * fault fired -- the only blocking the property is about -- shows up as HANG <that seq>, and later
 * calls, whose behaviour after a reported error is the application's business, are not executed.
 */
#include <stdio.h>
#include <stdlib.h>
#include <string.h>
#include <unistd.h>
#include <signal.h>
#include <execinfo.h>
#include <mpi.h>
#include <pnetcdf.h>

static int g_rank = 0, g_nprocs = 1;
static int g_target_rank = -1, g_target_k = 0, g_class = 0;
static int g_ncalls = 0, g_fired = 0;
static int g_seq = 0;
static const char *g_label = "-";
static FILE *g_log = NULL;

static MPI_Comm g_hc = MPI_COMM_NULL;

static void sync_point(void)
{
    int mine = g_fired, any = 0;
    const char *save = g_label;
    g_label = "sync";
    PMPI_Allreduce(&mine, &any, 1, MPI_INT, MPI_MAX, g_hc);
    g_label = save;
    if (any) {
        fprintf(g_log, "STOP %d\nDONE\n", g_seq);
        fflush(g_log);
        PMPI_Barrier(g_hc);
        _exit(0);
    }
}

static void on_alarm(int sig)
{
    char b[256];
    int n = snprintf(b, sizeof b, "HANG %d %s\n", g_seq, g_label);
    if (g_log) { fflush(g_log); if (write(fileno(g_log), b, n) < 0) {} }
    _exit(7);
}

static void on_crash(int sig)
{
    char b[256];
    int n = snprintf(b, sizeof b, "%s %d %d %s\n", sig == SIGTERM ? "KILLED" : "CRASH", sig, g_seq, g_label);
    if (sig == SIGTERM) n = snprintf(b, sizeof b, "KILLED %d %s\n", g_seq, g_label);
    if (g_log) { if (write(fileno(g_log), b, n) < 0) {} }
    _exit(sig == SIGTERM ? 8 : 9);
}

static int hook(const char *fn, int count, const void *buf, int real)
{
    void *bt[24];
    int i, n;
    g_ncalls++;
    n = backtrace(bt, 24);
    fprintf(g_log, "CALL %d %s %d %d %s", g_ncalls, fn, g_seq, count, (buf == NULL && count == 0) ? "zero" : "data");
    /* bt[0] = hook, bt[1] = the MPI_File_* wrapper, bt[2] = the library function holding the site ... */
    for (i = 2; i < n; i++) fprintf(g_log, " %p", bt[i]);
    fprintf(g_log, "\n");
    if (g_rank == g_target_rank && g_ncalls == g_target_k && !g_fired) {
        g_fired = 1;
        fprintf(g_log, "INJECT %d %d\n", g_ncalls, g_class);
        fflush(g_log);
        return g_class;
    }
    return real;
}

int MPI_File_write_at(MPI_File fh, MPI_Offset off, const void *buf, int count, MPI_Datatype t, MPI_Status *st)
{ int r = PMPI_File_write_at(fh, off, buf, count, t, st); return hook("MPI_File_write_at", count, buf, r); }
int MPI_File_write_at_all(MPI_File fh, MPI_Offset off, const void *buf, int count, MPI_Datatype t, MPI_Status *st)
{ int r = PMPI_File_write_at_all(fh, off, buf, count, t, st); return hook("MPI_File_write_at_all", count, buf, r); }
int MPI_File_read_at(MPI_File fh, MPI_Offset off, void *buf, int count, MPI_Datatype t, MPI_Status *st)
{ int r = PMPI_File_read_at(fh, off, buf, count, t, st); return hook("MPI_File_read_at", count, buf, r); }
int MPI_File_read_at_all(MPI_File fh, MPI_Offset off, void *buf, int count, MPI_Datatype t, MPI_Status *st)
{ int r = PMPI_File_read_at_all(fh, off, buf, count, t, st); return hook("MPI_File_read_at_all", count, buf, r); }
int MPI_File_write(MPI_File fh, const void *buf, int count, MPI_Datatype t, MPI_Status *st)
{ int r = PMPI_File_write(fh, buf, count, t, st); return hook("MPI_File_write", count, buf, r); }
int MPI_File_write_all(MPI_File fh, const void *buf, int count, MPI_Datatype t, MPI_Status *st)
{ int r = PMPI_File_write_all(fh, buf, count, t, st); return hook("MPI_File_write_all", count, buf, r); }
int MPI_File_read(MPI_File fh, void *buf, int count, MPI_Datatype t, MPI_Status *st)
{ int r = PMPI_File_read(fh, buf, count, t, st); return hook("MPI_File_read", count, buf, r); }
int MPI_File_read_all(MPI_File fh, void *buf, int count, MPI_Datatype t, MPI_Status *st)
{ int r = PMPI_File_read_all(fh, buf, count, t, st); return hook("MPI_File_read_all", count, buf, r); }

/* ---- API call recording -------------------------------------------------------------------- */
#define A(label, call) do { g_seq++; g_label = (label); rc = (call); \
        fprintf(g_log, "API %d %s %d\n", g_seq, (label), rc); fflush(g_log); sync_point(); } while (0)

static void api_wait(const char *label, int ncid, int n, int *reqs, int coll)
{
    int st[8], i, rc;
    for (i = 0; i < n; i++) st[i] = 0;
    g_seq++; g_label = label;
    rc = coll ? ncmpi_wait_all(ncid, n, reqs, st) : ncmpi_wait(ncid, n, reqs, st);
    fprintf(g_log, "API %d %s %d", g_seq, label, rc);
    for (i = 0; i < n; i++) fprintf(g_log, " %d", st[i]);
    fprintf(g_log, "\n"); fflush(g_log);
    sync_point();
}

#define NX 8
static int g_buf[4 * NX * 4], g_rbuf[4 * NX * 4];

/* common schema: dims rec(unlimited), y(4*nprocs), x(NX); vars fix(y,x) int, rec(rec,x) int, sca int */
static int def_schema(int ncid, int *fix, int *recv, int *sca, int fill)
{
    int rc, dr, dy, dx, dims[2], old;
    if (fill) A("set_fill", ncmpi_set_fill(ncid, NC_FILL, &old));
    A("def_dim", ncmpi_def_dim(ncid, "rec", NC_UNLIMITED, &dr));
    A("def_dim", ncmpi_def_dim(ncid, "y", 4 * g_nprocs, &dy));
    A("def_dim", ncmpi_def_dim(ncid, "x", NX, &dx));
    dims[0] = dy; dims[1] = dx;
    A("def_var", ncmpi_def_var(ncid, "fix", NC_INT, 2, dims, fix));
    dims[0] = dr;
    A("def_var", ncmpi_def_var(ncid, "recv", NC_INT, 2, dims, recv));
    A("def_var", ncmpi_def_var(ncid, "sca", NC_INT, 0, NULL, sca));
    A("put_att", ncmpi_put_att_text(ncid, NC_GLOBAL, "title", 5, "hello"));
    A("put_att", ncmpi_put_att_text(ncid, *fix, "units", 2, "mm"));
    return rc;
}

static void slab(MPI_Offset *start, MPI_Offset *count)
{
    start[0] = 4 * g_rank; start[1] = 0; count[0] = 4; count[1] = NX;
}
static void recslab(MPI_Offset *start, MPI_Offset *count, int rec0, int nrec)
{
    /* each rank writes its own part of x in records rec0 .. rec0+nrec-1 */
    start[0] = rec0; count[0] = nrec;
    start[1] = (NX / g_nprocs) * g_rank; count[1] = NX / g_nprocs;
}

static int create(const char *path, int *ncid, MPI_Info info)
{
    int rc;
    A("create", ncmpi_create(MPI_COMM_WORLD, path, NC_CLOBBER | NC_64BIT_DATA, info, ncid));
    return rc;
}

static void scenario(const char *name, const char *path)
{
    int rc, ncid, fix, recv, sca, i, reqs[4], v2;
    MPI_Offset start[2], count[2];
    MPI_Info info = MPI_INFO_NULL;
    for (i = 0; i < 4 * NX * 4; i++) g_buf[i] = 1000 * g_rank + i;

    if (!strcmp(name, "create_enddef")) {
        create(path, &ncid, info); def_schema(ncid, &fix, &recv, &sca, 0);
        A("enddef", ncmpi_enddef(ncid));
        A("close", ncmpi_close(ncid));
    }
    else if (!strcmp(name, "create_close")) {       /* enddef inside close */
        create(path, &ncid, info); def_schema(ncid, &fix, &recv, &sca, 0);
        A("close", ncmpi_close(ncid));
    }
    else if (!strcmp(name, "fill")) {
        create(path, &ncid, info); def_schema(ncid, &fix, &recv, &sca, 1);
        A("enddef", ncmpi_enddef(ncid));
        A("fill_var_rec", ncmpi_fill_var_rec(ncid, recv, 0));
        A("fill_var_rec", ncmpi_fill_var_rec(ncid, recv, 2));
        A("close", ncmpi_close(ncid));
    }
    else if (!strcmp(name, "put_get_coll")) {
        create(path, &ncid, info); def_schema(ncid, &fix, &recv, &sca, 0);
        A("enddef", ncmpi_enddef(ncid));
        slab(start, count);
        A("put_vara_all", ncmpi_put_vara_int_all(ncid, fix, start, count, g_buf));
        recslab(start, count, 0, 2);
        A("put_vara_all_rec", ncmpi_put_vara_int_all(ncid, recv, start, count, g_buf));
        recslab(start, count, 2, 1);
        A("put_vara_all_rec", ncmpi_put_vara_int_all(ncid, recv, start, count, g_buf));
        slab(start, count);
        A("get_vara_all", ncmpi_get_vara_int_all(ncid, fix, start, count, g_rbuf));
        A("put_var1_all", ncmpi_put_var1_int_all(ncid, sca, NULL, g_buf));
        A("close", ncmpi_close(ncid));
    }
    else if (!strcmp(name, "put_get_indep")) {
        create(path, &ncid, info); def_schema(ncid, &fix, &recv, &sca, 0);
        A("enddef", ncmpi_enddef(ncid));
        A("begin_indep", ncmpi_begin_indep_data(ncid));
        slab(start, count);
        A("put_vara", ncmpi_put_vara_int(ncid, fix, start, count, g_buf));
        recslab(start, count, 0, 2);
        A("put_vara_rec", ncmpi_put_vara_int(ncid, recv, start, count, g_buf));
        slab(start, count);
        A("get_vara", ncmpi_get_vara_int(ncid, fix, start, count, g_rbuf));
        A("end_indep", ncmpi_end_indep_data(ncid));
        A("close", ncmpi_close(ncid));
    }
    else if (!strcmp(name, "sync_close_indep")) {
        create(path, &ncid, info); def_schema(ncid, &fix, &recv, &sca, 0);
        A("enddef", ncmpi_enddef(ncid));
        A("begin_indep", ncmpi_begin_indep_data(ncid));
        recslab(start, count, 0, 1);
        A("put_vara_rec", ncmpi_put_vara_int(ncid, recv, start, count, g_buf));
        A("sync", ncmpi_sync(ncid));
        recslab(start, count, 1, 2);
        A("put_vara_rec", ncmpi_put_vara_int(ncid, recv, start, count, g_buf));
        A("sync_numrecs", ncmpi_sync_numrecs(ncid));
        recslab(start, count, 3, 1);
        A("put_vara_rec", ncmpi_put_vara_int(ncid, recv, start, count, g_buf));
        A("close", ncmpi_close(ncid));                      /* close while in independent mode */
    }
    else if (!strcmp(name, "redef_indep")) {
        create(path, &ncid, info); def_schema(ncid, &fix, &recv, &sca, 0);
        A("enddef", ncmpi_enddef(ncid));
        A("begin_indep", ncmpi_begin_indep_data(ncid));
        recslab(start, count, 0, 2);
        A("put_vara_rec", ncmpi_put_vara_int(ncid, recv, start, count, g_buf));
        A("redef", ncmpi_redef(ncid));                      /* leaves independent mode: numrecs written */
        A("put_att", ncmpi_put_att_text(ncid, NC_GLOBAL, "a2", 3, "abc"));
        A("enddef", ncmpi_enddef(ncid));
        A("close", ncmpi_close(ncid));
    }
    else if (!strcmp(name, "redef_move")) {
        char big[3000];
        int dx2;
        memset(big, 'x', sizeof big);
        create(path, &ncid, info); def_schema(ncid, &fix, &recv, &sca, 0);
        A("enddef", ncmpi_enddef(ncid));
        slab(start, count);
        A("put_vara_all", ncmpi_put_vara_int_all(ncid, fix, start, count, g_buf));
        recslab(start, count, 0, 2);
        A("put_vara_all_rec", ncmpi_put_vara_int_all(ncid, recv, start, count, g_buf));
        A("redef", ncmpi_redef(ncid));
        A("put_att", ncmpi_put_att_text(ncid, NC_GLOBAL, "big", 3000, big));   /* header grows: all data moves */
        A("def_dim", ncmpi_def_dim(ncid, "x2", 3, &dx2));
        A("def_var", ncmpi_def_var(ncid, "fix2", NC_INT, 1, &dx2, &v2));          /* new fixed var: records move */
        A("enddef", ncmpi_enddef(ncid));
        slab(start, count);
        A("get_vara_all", ncmpi_get_vara_int_all(ncid, fix, start, count, g_rbuf));
        A("redef", ncmpi_redef(ncid));
        { int d0 = 0; /* dim id 0 = rec */
          A("def_var", ncmpi_def_var(ncid, "recv2", NC_INT, 1, &d0, &v2)); }
        A("close", ncmpi_close(ncid));                       /* enddef (record-by-record move) inside close */
    }
    else if (!strcmp(name, "wait_mixed") || !strcmp(name, "wait_puts") || !strcmp(name, "wait_gets") ||
             !strcmp(name, "wait_indep")) {
        int mixed = !strcmp(name, "wait_mixed"), puts = mixed || !strcmp(name, "wait_puts") || !strcmp(name, "wait_indep");
        int gets = mixed || !strcmp(name, "wait_gets") || !strcmp(name, "wait_indep");
        int indep = !strcmp(name, "wait_indep"), n = 0;
        create(path, &ncid, info); def_schema(ncid, &fix, &recv, &sca, 0);
        A("enddef", ncmpi_enddef(ncid));
        slab(start, count);
        A("put_vara_all", ncmpi_put_vara_int_all(ncid, fix, start, count, g_buf));
        if (indep) A("begin_indep", ncmpi_begin_indep_data(ncid));
        if (puts) {
            recslab(start, count, 0, 2);
            A("iput_vara_rec", ncmpi_iput_vara_int(ncid, recv, start, count, g_buf, &reqs[n])); n++;
        }
        if (gets) {
            slab(start, count);
            A("iget_vara", ncmpi_iget_vara_int(ncid, fix, start, count, g_rbuf, &reqs[n])); n++;
        }
        api_wait(indep ? "wait_mixed" : (mixed ? "wait_all_mixed" : "wait_all"), ncid, n, reqs, !indep);
        if (indep) A("end_indep", ncmpi_end_indep_data(ncid));
        A("close", ncmpi_close(ncid));
    }
    else if (!strcmp(name, "wait_mixed_ina")) {
        /* intra-node aggregation (hint nc_num_aggrs_per_node=1): the write phase of wait_all goes through
         * ncmpio_intra_node_aggregation_nreqs instead of wait_getput */
        MPI_Info_create(&info);
        MPI_Info_set(info, "nc_num_aggrs_per_node", "1");
        create(path, &ncid, info); def_schema(ncid, &fix, &recv, &sca, 0);
        A("enddef", ncmpi_enddef(ncid));
        slab(start, count);
        A("put_vara_all", ncmpi_put_vara_int_all(ncid, fix, start, count, g_buf));
        recslab(start, count, 0, 2);
        A("iput_vara_rec", ncmpi_iput_vara_int(ncid, recv, start, count, g_buf, &reqs[0]));
        slab(start, count);
        A("iget_vara", ncmpi_iget_vara_int(ncid, fix, start, count, g_rbuf, &reqs[1]));
        api_wait("wait_all_mixed", ncid, 2, reqs, 1);
        recslab(start, count, 2, 1);
        A("iput_vara_rec", ncmpi_iput_vara_int(ncid, recv, start, count, g_buf, &reqs[0]));
        api_wait("wait_all", ncid, 1, reqs, 1);
        A("close", ncmpi_close(ncid));
        MPI_Info_free(&info);
    }
    else if (!strcmp(name, "data_mode_meta")) {
        create(path, &ncid, info); def_schema(ncid, &fix, &recv, &sca, 0);
        A("enddef", ncmpi_enddef(ncid));
        A("put_att_data", ncmpi_put_att_text(ncid, NC_GLOBAL, "title", 5, "HELLO"));
        A("rename_var_data", ncmpi_rename_var(ncid, fix, "fx"));
        A("rename_att_data", ncmpi_rename_att(ncid, NC_GLOBAL, "title", "titl"));
        A("rename_dim_data", ncmpi_rename_dim(ncid, 1, "w"));
        A("close", ncmpi_close(ncid));
    }
    else if (!strcmp(name, "open_read")) {
        int nd, nv, na, ud;
        create(path, &ncid, info); def_schema(ncid, &fix, &recv, &sca, 0);
        A("enddef", ncmpi_enddef(ncid));
        slab(start, count);
        A("put_vara_all", ncmpi_put_vara_int_all(ncid, fix, start, count, g_buf));
        A("close", ncmpi_close(ncid));
        A("open", ncmpi_open(MPI_COMM_WORLD, path, NC_NOWRITE, info, &ncid));
        if (rc == NC_NOERR) {
            A("inq", ncmpi_inq(ncid, &nd, &nv, &na, &ud));
            slab(start, count);
            A("get_vara_all", ncmpi_get_vara_int_all(ncid, fix, start, count, g_rbuf));
            A("close", ncmpi_close(ncid));
        }
    }
    else if (!strcmp(name, "open_bighdr")) {
        /* CDF-2 header laid out so that the first dimid of variable "v" starts exactly at the end of the
         * first header read chunk (262144 bytes): the second hdr_fetch happens inside the dimid loop of
         * hdr_get_NC_var.  magic 4 + numrecs 4 + dim_list 20 + gatt_list 24+L + var_list: tag/nelems 8,
         * name 8, ndims 4  ->  dimid at 72 + L = 262144 */
        int d, v, nd, nv, na, ud;
        size_t L = 262144 - 72;
        char *big = (char*) malloc(L);
        memset(big, 'y', L);
        g_seq++; g_label = "create";
        rc = ncmpi_create(MPI_COMM_WORLD, path, NC_CLOBBER | NC_64BIT_OFFSET, info, &ncid);
        fprintf(g_log, "API %d create %d\n", g_seq, rc); fflush(g_log); sync_point();
        A("def_dim", ncmpi_def_dim(ncid, "d", 4, &d));
        A("put_att", ncmpi_put_att_text(ncid, NC_GLOBAL, "a", L, big));
        A("def_var", ncmpi_def_var(ncid, "v", NC_INT, 1, &d, &v));
        A("enddef", ncmpi_enddef(ncid));
        A("close", ncmpi_close(ncid));
        A("open", ncmpi_open(MPI_COMM_WORLD, path, NC_NOWRITE, info, &ncid));
        if (rc == NC_NOERR) {
            A("inq", ncmpi_inq(ncid, &nd, &nv, &na, &ud));
            A("close", ncmpi_close(ncid));
        }
        free(big);
    }
    else if (!strcmp(name, "zero_req")) {
        /* collective calls where the last rank has nothing to transfer */
        create(path, &ncid, info); def_schema(ncid, &fix, &recv, &sca, 0);
        A("enddef", ncmpi_enddef(ncid));
        slab(start, count);
        if (g_rank == g_nprocs - 1) count[0] = 0;
        A("put_vara_all", ncmpi_put_vara_int_all(ncid, fix, start, count, g_buf));
        A("get_vara_all", ncmpi_get_vara_int_all(ncid, fix, start, count, g_rbuf));
        A("iput_vara", ncmpi_iput_vara_int(ncid, fix, start, count, g_buf, &reqs[0]));
        api_wait("wait_all", ncid, 1, reqs, 1);
        A("close", ncmpi_close(ncid));
    }
    else if (!strcmp(name, "hcoll_header")) {
        /* romio_no_indep_rw: header and numrecs are written collectively (NC_HCOLL) */
        MPI_Info_create(&info);
        MPI_Info_set(info, "romio_no_indep_rw", "true");
        create(path, &ncid, info); def_schema(ncid, &fix, &recv, &sca, 0);
        A("enddef", ncmpi_enddef(ncid));
        recslab(start, count, 0, 2);
        A("put_vara_all_rec", ncmpi_put_vara_int_all(ncid, recv, start, count, g_buf));
        A("put_att_data", ncmpi_put_att_text(ncid, NC_GLOBAL, "title", 5, "HELLO"));
        A("close", ncmpi_close(ncid));
        A("open", ncmpi_open(MPI_COMM_WORLD, path, NC_NOWRITE, info, &ncid));
        if (rc == NC_NOERR) A("close", ncmpi_close(ncid));
        MPI_Info_free(&info);
    }
    else {
        fprintf(g_log, "BAD-SCENARIO %s\n", name);
    }
}

int main(int argc, char **argv)
{
    char fn[1024];
    MPI_Init(&argc, &argv);
    MPI_Comm_rank(MPI_COMM_WORLD, &g_rank);
    MPI_Comm_size(MPI_COMM_WORLD, &g_nprocs);
    MPI_Comm_set_errhandler(MPI_COMM_WORLD, MPI_ERRORS_RETURN);
    MPI_File_set_errhandler(MPI_FILE_NULL, MPI_ERRORS_RETURN);
    MPI_Comm_dup(MPI_COMM_WORLD, &g_hc);
    if (argc < 7) { fprintf(stderr, "usage\n"); MPI_Finalize(); return 2; }
    g_target_rank = atoi(argv[4]); g_target_k = atoi(argv[5]); g_class = atoi(argv[6]);
    snprintf(fn, sizeof fn, "%s.%d", argv[3], g_rank);
    g_log = fopen(fn, "w");
    if (!g_log) { perror(fn); MPI_Abort(MPI_COMM_WORLD, 3); }
    signal(SIGALRM, on_alarm);
    signal(SIGSEGV, on_crash); signal(SIGBUS, on_crash); signal(SIGABRT, on_crash); signal(SIGFPE, on_crash);
    signal(SIGTERM, on_crash);
    alarm(argc > 7 ? atoi(argv[7]) : 20);
    scenario(argv[1], argv[2]);
    g_seq++; g_label = "finalize";
    fprintf(g_log, "DONE\n");
    fflush(g_log);
    MPI_Finalize();
    fclose(g_log);
    return 0;
}
