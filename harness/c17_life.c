/*
 * C17 correspondence + measurement harness: file-id lifecycle of the dispatcher (src/dispatchers/file.c).
 * One singleton MPI process per script (no mpiexec): requests on stdin, one answer per line on stdout,
 * same lines go to lean/Driver/C17.lean.
 *
 *   usage: c17_life <scratch dir>
 *
 *   CFG b N                 ignored here (model configuration)                    -> cfg
 *   CREATE k | CREATEX k    ncmpi_create NC_CLOBBER | NC_NOCLOBBER on path k      -> err ncid
 *   OPEN k w                ncmpi_open path k (w=1: NC_WRITE)                     -> err ncid
 *   OPENJUNK | OPENMISSING | CREATEBAD     failing opens/creates                  -> FAIL -1 # code
 *   OPENTRUNC k n           open (and close again) a copy of path k cut to n bytes -> done # codes
 *   CLOSE id | ABORT id                                                          -> err
 *   NDIMS id | DEFDIM id | DEFVAR id | PUTATT id | ENDDEF id | REDEF id | SYNC id | IPUT id |
 *   ATTACH id | DETACH id | INQPATH id                                             -> err [value]
 *   SETUP id                dims x(2048) t(unlimited) s(8), vars fx[x] rc[t][x] sm[s] rs[t][s] m2[s][s] (NC_INT), tx[s] (NC_CHAR)   -> err
 *   MREQ id IGET|IPUT|BPUT  pending varm request: transposed imap + non-contiguous derived buftype (see mreq())           -> err
 *   WAITID id | CANCELID id (the last MREQ request) -> err status;  CANCELGET | CANCELPUT | CANCELALL id                -> err
 *   ZREQ id <form>          one zero-length or argument-error request in the given API form (see zreq())          -> z err
 *   IOP id IPUT|BPUT|IGET fx|rc|sm|rs   post a nonblocking request; the harness keeps the user buffer     -> err
 *   CLOSE / ABORT / WAITALL append ` bufs=ok` / ` bufs=CHANGED(n)` when put buffers of that id were kept:
 *                           are they bit-identical to what the caller handed over?
 *   PROBE id <kind>         the same call executed in a forked child, so that a crash is a result:
 *                           -> err [value]   or   SIG<n>
 *   FILL k n                open path k read-only n more times                     -> list of err:id
 *   SNAP                    ncmpi_inq_files_opened + ndims/nvars/natts of every open file
 *   LEAK                    ncmpi_inq_malloc_size and the PMPI create/free balance -> malloc=.. type=.. comm=.. info=.. file=..
 *
 * PMPI shim (below): counts datatype / communicator / info / file-handle constructors against their
 * destructors, for every call made by the library AND by this harness (which frees what it makes).
 */
#ifdef HAVE_CONFIG_H
#include <config.h>
#endif
#include <stdio.h>
#include <stdlib.h>
#include <string.h>
#include <unistd.h>
#include <signal.h>
#include <sys/wait.h>
#include <sys/resource.h>
#include <mpi.h>
#include <pnetcdf.h>

/* ------------------------------------------------------------------ PMPI shim */
static long n_type, n_comm, n_info, n_file;
#define OKINC(call, ctr) int r_ = (call); if (r_ == MPI_SUCCESS) ctr++; return r_;
int MPI_Type_contiguous(int c, MPI_Datatype o, MPI_Datatype *n) { OKINC(PMPI_Type_contiguous(c, o, n), n_type) }
int MPI_Type_vector(int c, int b, int s, MPI_Datatype o, MPI_Datatype *n) { OKINC(PMPI_Type_vector(c, b, s, o, n), n_type) }
int MPI_Type_create_hvector(int c, int b, MPI_Aint s, MPI_Datatype o, MPI_Datatype *n) { OKINC(PMPI_Type_create_hvector(c, b, s, o, n), n_type) }
int MPI_Type_indexed(int c, const int *b, const int *d, MPI_Datatype o, MPI_Datatype *n) { OKINC(PMPI_Type_indexed(c, b, d, o, n), n_type) }
int MPI_Type_create_hindexed(int c, const int *b, const MPI_Aint *d, MPI_Datatype o, MPI_Datatype *n) { OKINC(PMPI_Type_create_hindexed(c, b, d, o, n), n_type) }
int MPI_Type_create_indexed_block(int c, int b, const int *d, MPI_Datatype o, MPI_Datatype *n) { OKINC(PMPI_Type_create_indexed_block(c, b, d, o, n), n_type) }
int MPI_Type_create_subarray(int nd, const int *a, const int *b, const int *c, int o, MPI_Datatype ot, MPI_Datatype *n) { OKINC(PMPI_Type_create_subarray(nd, a, b, c, o, ot, n), n_type) }
int MPI_Type_create_struct(int c, const int *b, const MPI_Aint *d, const MPI_Datatype *t, MPI_Datatype *n) { OKINC(PMPI_Type_create_struct(c, b, d, t, n), n_type) }
int MPI_Type_create_resized(MPI_Datatype o, MPI_Aint lb, MPI_Aint ex, MPI_Datatype *n) { OKINC(PMPI_Type_create_resized(o, lb, ex, n), n_type) }
int MPI_Type_dup(MPI_Datatype o, MPI_Datatype *n) { OKINC(PMPI_Type_dup(o, n), n_type) }
int MPI_Type_free(MPI_Datatype *t) { int r_ = PMPI_Type_free(t); if (r_ == MPI_SUCCESS) n_type--; return r_; }
int MPI_Comm_dup(MPI_Comm c, MPI_Comm *n) { OKINC(PMPI_Comm_dup(c, n), n_comm) }
int MPI_Comm_split(MPI_Comm c, int col, int key, MPI_Comm *n) { int r_ = PMPI_Comm_split(c, col, key, n); if (r_ == MPI_SUCCESS && *n != MPI_COMM_NULL) n_comm++; return r_; }
int MPI_Comm_create(MPI_Comm c, MPI_Group g, MPI_Comm *n) { int r_ = PMPI_Comm_create(c, g, n); if (r_ == MPI_SUCCESS && *n != MPI_COMM_NULL) n_comm++; return r_; }
int MPI_Comm_free(MPI_Comm *c) { int r_ = PMPI_Comm_free(c); if (r_ == MPI_SUCCESS) n_comm--; return r_; }
int MPI_Info_create(MPI_Info *i) { OKINC(PMPI_Info_create(i), n_info) }
int MPI_Info_dup(MPI_Info i, MPI_Info *n) { OKINC(PMPI_Info_dup(i, n), n_info) }
int MPI_File_get_info(MPI_File f, MPI_Info *i) { OKINC(PMPI_File_get_info(f, i), n_info) }
int MPI_Info_free(MPI_Info *i) { int r_ = PMPI_Info_free(i); if (r_ == MPI_SUCCESS) n_info--; return r_; }
int MPI_File_open(MPI_Comm c, const char *p, int m, MPI_Info i, MPI_File *f) { OKINC(PMPI_File_open(c, p, m, i, f), n_file) }
int MPI_File_close(MPI_File *f) { int r_ = PMPI_File_close(f); if (r_ == MPI_SUCCESS) n_file--; return r_; }

/* ------------------------------------------------------------------ harness */
#define NPATH 8
static char dir[900], path[NPATH][1024];
static int counter;
static MPI_Comm work_comm = MPI_COMM_WORLD;

/* ---- nonblocking requests whose user buffers we keep, to see what close/abort/wait do to them */
typedef struct TB { struct TB *next; int ncid, isput; size_t n; int *buf, *copy; } TB;
static TB *tbs;
static void track(int ncid, int isput, int *buf, int *copy, size_t n) {
    TB *t = (TB *)malloc(sizeof(TB));
    t->ncid = ncid; t->isput = isput; t->n = n; t->buf = buf; t->copy = copy;   /* copy: taken BEFORE the request was posted */
    t->next = tbs; tbs = t;
}
/* release the buffers of ncid; returns -1 if there was no put buffer, else the number of put buffers
   that are not bit-identical to what the caller had handed over */
static int release(int ncid) {
    TB **pp = &tbs, *t; int nput = 0, bad = 0;
    while ((t = *pp) != NULL) {
        if (t->ncid != ncid) { pp = &t->next; continue; }
        if (t->isput) { nput++; if (memcmp(t->buf, t->copy, t->n * sizeof(int))) bad++; }
        *pp = t->next; free(t->buf); free(t->copy); free(t);
    }
    return nput ? bad : -1;
}
static void bufs_suffix(int ncid, char *out, size_t outsz) {
    int r = release(ncid); size_t l = strlen(out);
    if (r == 0) snprintf(out + l, outsz - l, " bufs=ok");
    else if (r > 0) snprintf(out + l, outsz - l, " bufs=CHANGED(%d)", r);
}
/* SETUP: dimensions x (2048: 8 KiB of int, above the in-place byte-swap threshold), t (unlimited), s (8) and
   variables fx[x], rc[t][x], sm[s], rs[t][s], all NC_INT */
static int setup(int id) {
    int dx, dt, ds, v, d2[2], err;
    if ((err = ncmpi_def_dim(id, "x", 2048, &dx)) != NC_NOERR) return err;
    if ((err = ncmpi_def_dim(id, "t", NC_UNLIMITED, &dt)) != NC_NOERR) return err;
    if ((err = ncmpi_def_dim(id, "s", 8, &ds)) != NC_NOERR) return err;
    if ((err = ncmpi_def_var(id, "fx", NC_INT, 1, &dx, &v)) != NC_NOERR) return err;
    d2[0] = dt; d2[1] = dx;
    if ((err = ncmpi_def_var(id, "rc", NC_INT, 2, d2, &v)) != NC_NOERR) return err;
    if ((err = ncmpi_def_var(id, "sm", NC_INT, 1, &ds, &v)) != NC_NOERR) return err;
    d2[1] = ds;
    if ((err = ncmpi_def_var(id, "rs", NC_INT, 2, d2, &v)) != NC_NOERR) return err;
    d2[0] = ds;
    if ((err = ncmpi_def_var(id, "m2", NC_INT, 2, d2, &v)) != NC_NOERR) return err;   /* m2[8][8]: target of varm / vars / varn / vard forms */
    return ncmpi_def_var(id, "tx", NC_CHAR, 1, &ds, &v);                                /* tx[8]: NC_ECHAR forms */
}

/* ZREQ id form: ONE request that transfers nothing — zero-length, or rejected for its arguments — in the given API form.
   Such calls return before anything is queued, so whatever they allocate or construct (imap / buftype datatypes, packing
   buffers) must be released on the spot.  No pending request is left behind, no file state changes.  Returns the error code. */
static int zreq(int id, const char *f) {
    int m2, tx, rc, err = NC_NOERR, req = NC_REQ_NULL, st, attached_here = 0, i;
    static int buf[256];
    static char cbuf[64];
    MPI_Offset s0[2] = {0, 0}, cz[2] = {0, 8}, c22[2] = {2, 2}, c88[2] = {8, 8}, str2[2] = {2, 1}, str0[2] = {0, 1};
    MPI_Offset imT[2] = {1, 8}, imC[2] = {8, 1}, sbad[2] = {9, 0}, cbig[2] = {9, 8}, im1[1] = {2}, c1[1] = {4};
    MPI_Offset *starts[2], *counts[2], sa[2] = {0, 0}, sb[2] = {4, 4}, ca[2] = {0, 3}, cb[2] = {2, 0};
    MPI_Datatype vec = MPI_DATATYPE_NULL, ftz = MPI_DATATYPE_NULL;
    if ((err = ncmpi_inq_varid(id, "m2", &m2)) != NC_NOERR) return err;
    if ((err = ncmpi_inq_varid(id, "tx", &tx)) != NC_NOERR) return err;
    if ((err = ncmpi_inq_varid(id, "rc", &rc)) != NC_NOERR) return err;
    for (i = 0; i < 256; i++) buf[i] = i;
    starts[0] = sa; starts[1] = sb; counts[0] = ca; counts[1] = cb;
    MPI_Type_vector(4, 1, 2, MPI_INT, &vec); MPI_Type_commit(&vec);            /* a derived, non-contiguous buftype */
    MPI_Type_contiguous(0, MPI_INT, &ftz); MPI_Type_commit(&ftz);              /* a zero-size filetype */
    if (!strncmp(f, "BP_", 3)) {                                                 /* bput forms need an attached buffer */
        MPI_Offset bs = 0;
        if (ncmpi_inq_buffer_size(id, &bs) != NC_NOERR) { if ((err = ncmpi_buffer_attach(id, 4096)) != NC_NOERR) goto done; attached_here = 1; }
    }
#define F(name) (!strcmp(f, name))
    /* ---- blocking, collective */
    if      F("B_PUTA_Z")        err = ncmpi_put_vara_int_all(id, m2, s0, cz, buf);
    else if F("B_GETA_Z")        err = ncmpi_get_vara_int_all(id, m2, s0, cz, buf);
    else if F("B_PUTA_Z_REC")    err = ncmpi_put_vara_int_all(id, rc, s0, cz, buf);
    else if F("B_PUTS_Z")        err = ncmpi_put_vars_int_all(id, m2, s0, cz, str2, buf);
    else if F("B_GETS_Z")        err = ncmpi_get_vars_int_all(id, m2, s0, cz, str2, buf);
    else if F("B_PUTM_Z")        err = ncmpi_put_varm_int_all(id, m2, s0, cz, NULL, imT, buf);
    else if F("B_GETM_Z")        err = ncmpi_get_varm_int_all(id, m2, s0, cz, NULL, imT, buf);
    else if F("B_PUTM_ZC")       err = ncmpi_put_varm_int_all(id, m2, s0, cz, NULL, imC, buf);
    else if F("B_PUTN_0")        err = ncmpi_put_varn_int_all(id, m2, 0, NULL, NULL, buf);
    else if F("B_GETN_0")        err = ncmpi_get_varn_int_all(id, m2, 0, NULL, NULL, buf);
    else if F("B_PUTN_Z")        err = ncmpi_put_varn_int_all(id, m2, 2, starts, counts, buf);
    else if F("B_GETN_Z")        err = ncmpi_get_varn_int_all(id, m2, 2, starts, counts, buf);
    else if F("B_PUTD_NULL")     err = ncmpi_put_vard_all(id, m2, MPI_DATATYPE_NULL, buf, 0, MPI_INT);
    else if F("B_GETD_NULL")     err = ncmpi_get_vard_all(id, m2, MPI_DATATYPE_NULL, buf, 0, MPI_INT);
    else if F("B_PUTD_Z")        err = ncmpi_put_vard_all(id, m2, ftz, buf, 0, MPI_INT);
    else if F("B_GETD_Z")        err = ncmpi_get_vard_all(id, m2, ftz, buf, 0, MPI_INT);
    else if F("B_PUTF_Z")        err = ncmpi_put_vara_all(id, m2, s0, cz, buf, 0, vec);
    else if F("B_GETF_Z")        err = ncmpi_get_vara_all(id, m2, s0, cz, buf, 0, vec);
    else if F("B_PUTMF_Z")       err = ncmpi_put_varm_all(id, m2, s0, cz, NULL, imT, buf, 0, vec);
    else if F("B_VAR1_EINVALCOORDS") err = ncmpi_put_var1_int_all(id, m2, sbad, buf);
    else if F("B_PUTM_EEDGE")    err = ncmpi_put_varm_int_all(id, m2, s0, cbig, NULL, imT, buf);
    else if F("B_GETM_EINVALCOORDS") err = ncmpi_get_varm_int_all(id, m2, sbad, c22, NULL, imT, buf);
    else if F("B_PUTM_ESTRIDE")  err = ncmpi_put_varm_int_all(id, m2, s0, c22, str0, imT, buf);
    else if F("B_PUTM_ECHAR")    err = ncmpi_put_varm_int_all(id, tx, s0, c1, NULL, im1, buf);
    else if F("B_PUTF_EEDGE")    err = ncmpi_put_vara_all(id, m2, s0, cbig, buf, 18, vec);
    /* ---- nonblocking */
    else if F("I_PUTA_Z")        err = ncmpi_iput_vara_int(id, m2, s0, cz, buf, &req);
    else if F("I_GETA_Z")        err = ncmpi_iget_vara_int(id, m2, s0, cz, buf, &req);
    else if F("I_PUTA_Z_REC")    err = ncmpi_iput_vara_int(id, rc, s0, cz, buf, &req);
    else if F("I_PUTS_Z")        err = ncmpi_iput_vars_int(id, m2, s0, cz, str2, buf, &req);
    else if F("I_GETS_Z")        err = ncmpi_iget_vars_int(id, m2, s0, cz, str2, buf, &req);
    else if F("I_PUTM_Z")        err = ncmpi_iput_varm_int(id, m2, s0, cz, NULL, imT, buf, &req);
    else if F("I_GETM_Z")        err = ncmpi_iget_varm_int(id, m2, s0, cz, NULL, imT, buf, &req);
    else if F("I_PUTM_ZS")       err = ncmpi_iput_varm_int(id, m2, s0, cz, str2, imT, buf, &req);
    else if F("I_PUTM_ZC")       err = ncmpi_iput_varm_int(id, m2, s0, cz, NULL, imC, buf, &req);
    else if F("I_PUTN_0")        err = ncmpi_iput_varn_int(id, m2, 0, NULL, NULL, buf, &req);
    else if F("I_GETN_0")        err = ncmpi_iget_varn_int(id, m2, 0, NULL, NULL, buf, &req);
    else if F("I_PUTN_Z")        err = ncmpi_iput_varn_int(id, m2, 2, starts, counts, buf, &req);
    else if F("I_GETN_Z")        err = ncmpi_iget_varn_int(id, m2, 2, starts, counts, buf, &req);
    else if F("I_PUTF_Z")        err = ncmpi_iput_vara(id, m2, s0, cz, buf, 0, vec, &req);
    else if F("I_GETF_Z")        err = ncmpi_iget_vara(id, m2, s0, cz, buf, 0, vec, &req);
    else if F("I_PUTMF_Z")       err = ncmpi_iput_varm(id, m2, s0, cz, NULL, imT, buf, 0, vec, &req);
    else if F("I_GETMF_Z")       err = ncmpi_iget_varm(id, m2, s0, cz, NULL, imT, buf, 0, vec, &req);
    else if F("BP_PUTA_Z")       err = ncmpi_bput_vara_int(id, m2, s0, cz, buf, &req);
    else if F("BP_PUTM_Z")       err = ncmpi_bput_varm_int(id, m2, s0, cz, NULL, imT, buf, &req);
    else if F("BP_PUTMF_Z")      err = ncmpi_bput_varm(id, m2, s0, cz, NULL, imT, buf, 0, vec, &req);
    else if F("BP_PUTN_Z")       err = ncmpi_bput_varn_int(id, m2, 2, starts, counts, buf, &req);
    else if F("BP_PUTM_EEDGE")   err = ncmpi_bput_varm_int(id, m2, s0, cbig, NULL, imT, buf, &req);
    else if F("I_PUTM_EEDGE")    err = ncmpi_iput_varm_int(id, m2, s0, cbig, NULL, imT, buf, &req);
    else if F("I_GETM_EEDGE")    err = ncmpi_iget_varm_int(id, m2, s0, cbig, NULL, imT, buf, &req);
    else if F("I_PUTM_EINVALCOORDS") err = ncmpi_iput_varm_int(id, m2, sbad, c22, NULL, imT, buf, &req);
    else if F("I_PUTM_ESTRIDE")  err = ncmpi_iput_varm_int(id, m2, s0, c22, str0, imT, buf, &req);
    else if F("I_PUTM_ECHAR")    err = ncmpi_iput_varm_int(id, tx, s0, c1, NULL, im1, buf, &req);
    else if F("I_GETM_ECHAR")    err = ncmpi_iget_varm_text(id, m2, s0, c22, NULL, imT, cbuf, &req);
    else if F("I_PUTMF_EEDGE")   err = ncmpi_iput_varm(id, m2, s0, cbig, NULL, imT, buf, 18, vec, &req);
    else if F("I_GETF_EINVALCOORDS") err = ncmpi_iget_vara(id, m2, sbad, c22, buf, 1, vec, &req);
    else err = -9999;
#undef F
    (void)c88;
    /* whatever came back must not be a live request (it would change what close reports): complete it */
    if (req != NC_REQ_NULL) { ncmpi_wait_all(id, 1, &req, &st); if (err == NC_NOERR) err = -9998; }
    if (attached_here) ncmpi_buffer_detach(id);
done:
    MPI_Type_free(&vec); MPI_Type_free(&ftz);
    return err;
}
/* IOP id IPUT|BPUT|IGET fx|rc|sm|rs : post one nonblocking request for the whole variable / record 0 */
static int iop(int id, const char *kind, const char *var) {
    int varid, err, req, isrec = (var[0] == 'r'), i;
    size_t n = (var[1] == 'x' || var[1] == 'c') ? 2048 : 8;
    MPI_Offset start[2] = {0, 0}, count[2];
    int *buf, *copy;
    if ((err = ncmpi_inq_varid(id, var, &varid)) != NC_NOERR) return err;
    if (isrec) { count[0] = 1; count[1] = (MPI_Offset)n; } else count[0] = (MPI_Offset)n;
    buf = (int *)malloc(n * sizeof(int));
    for (i = 0; i < (int)n; i++) buf[i] = 0x01020304 + i * 0x00010203 + counter;
    counter++;
    copy = (int *)malloc(n * sizeof(int)); memcpy(copy, buf, n * sizeof(int));
    if (!strcmp(kind, "IPUT")) err = ncmpi_iput_vara_int(id, varid, start, count, buf, &req);
    else if (!strcmp(kind, "BPUT")) err = ncmpi_bput_vara_int(id, varid, start, count, buf, &req);
    else err = ncmpi_iget_vara_int(id, varid, start, count, buf, &req);
    if (err == NC_NOERR) track(id, kind[0] != 'I' || kind[1] == 'P', buf, copy, n); else { free(buf); free(copy); }
    return err;
}

/* MREQ id IGET|IPUT|BPUT: a pending request in the form varm + transposed imap + NON-contiguous derived buftype (flexible API,
   MPI_Type_vector), 4 elements of m2: the library keeps an imaptype AND a private MPI_Type_dup of the buftype until the request
   is completed or cancelled.  The id of the last such request per file is remembered for WAITID / CANCELID. */
static int lastreq[NC_MAX_NFILES];
static int mreq(int id, const char *kind) {
    int m2, err, req = NC_REQ_NULL, i, *buf, *copy;
    MPI_Offset s0[2] = {1, 2}, c22[2] = {2, 2}, imT[2] = {1, 2};
    MPI_Datatype vec;
    if ((err = ncmpi_inq_varid(id, "m2", &m2)) != NC_NOERR) return err;
    buf = (int *)malloc(8 * sizeof(int)); copy = (int *)malloc(8 * sizeof(int));
    for (i = 0; i < 8; i++) buf[i] = 0x0a0b0c0d + i + counter;
    counter++;
    memcpy(copy, buf, 8 * sizeof(int));
    MPI_Type_vector(4, 1, 2, MPI_INT, &vec); MPI_Type_commit(&vec);
    if (!strcmp(kind, "IGET")) err = ncmpi_iget_varm(id, m2, s0, c22, NULL, imT, buf, 1, vec, &req);
    else if (!strcmp(kind, "IPUT")) err = ncmpi_iput_varm(id, m2, s0, c22, NULL, imT, buf, 1, vec, &req);
    else err = ncmpi_bput_varm(id, m2, s0, c22, NULL, imT, buf, 1, vec, &req);
    MPI_Type_free(&vec);            /* the caller may free its datatype right after posting */
    if (err == NC_NOERR) { track(id, kind[1] != 'G', buf, copy, 8); if (id >= 0 && id < NC_MAX_NFILES) lastreq[id] = req; }
    else { free(buf); free(copy); }
    return err;
}

/* one API call on ncid `id`; prints "err [value]" into out */
static void do_call(int id, const char *kind, char *out, size_t outsz) {
    int err, n = -1;
    char nm[64];
    if (!strcmp(kind, "NDIMS")) { err = ncmpi_inq_ndims(id, &n); snprintf(out, outsz, "%d %d", err, err ? -1 : n); }
    else if (!strcmp(kind, "NVARS")) { err = ncmpi_inq_nvars(id, &n); snprintf(out, outsz, "%d %d", err, err ? -1 : n); }
    else if (!strcmp(kind, "DEFDIM")) { snprintf(nm, sizeof nm, "d%d", counter++); err = ncmpi_def_dim(id, nm, 2, &n); snprintf(out, outsz, "%d", err); }
    else if (!strcmp(kind, "DEFVAR")) { snprintf(nm, sizeof nm, "v%d", counter++); err = ncmpi_def_var(id, nm, NC_INT, 0, NULL, &n); snprintf(out, outsz, "%d", err); }
    else if (!strcmp(kind, "PUTATT")) { snprintf(nm, sizeof nm, "a%d", counter++); err = ncmpi_put_att_text(id, NC_GLOBAL, nm, 3, "abc"); snprintf(out, outsz, "%d", err); }
    else if (!strcmp(kind, "ENDDEF")) { err = ncmpi_enddef(id); snprintf(out, outsz, "%d", err); }
    else if (!strcmp(kind, "REDEF")) { err = ncmpi_redef(id); snprintf(out, outsz, "%d", err); }
    else if (!strcmp(kind, "SYNC")) { err = ncmpi_sync(id); snprintf(out, outsz, "%d", err); }
    else if (!strcmp(kind, "CLOSE")) { err = ncmpi_close(id); snprintf(out, outsz, "%d", err); bufs_suffix(id, out, outsz); }
    else if (!strcmp(kind, "ABORT")) { err = ncmpi_abort(id); snprintf(out, outsz, "%d", err); bufs_suffix(id, out, outsz); }
    else if (!strcmp(kind, "SETUP")) { err = setup(id); snprintf(out, outsz, "%d", err); }
    else if (!strcmp(kind, "IPUTFX")) { err = iop(id, "IPUT", "fx"); snprintf(out, outsz, "%d", err); }
    else if (!strcmp(kind, "ATTACH")) { err = ncmpi_buffer_attach(id, 65536); snprintf(out, outsz, "%d", err); }
    else if (!strcmp(kind, "DETACH")) { err = ncmpi_buffer_detach(id); snprintf(out, outsz, "%d", err); }
    else if (!strcmp(kind, "INQPATH")) {
        char p[2048]; int len = 0; p[0] = 0;
        err = ncmpi_inq_path(id, &len, p);
        const char *b = strrchr(p, '/');
        snprintf(out, outsz, "%d %s", err, err ? "-" : (b ? b + 1 : p));
    }
    else if (!strcmp(kind, "INQFORMAT")) { err = ncmpi_inq_format(id, &n); snprintf(out, outsz, "%d %d", err, err ? -1 : n); }
    else if (!strcmp(kind, "INQATT")) { nc_type t; MPI_Offset l; err = ncmpi_inq_att(id, NC_GLOBAL, "a0", &t, &l); snprintf(out, outsz, "%d", err); }
    else if (!strcmp(kind, "GETVAR")) { int v = 0; err = ncmpi_get_var_int_all(id, 0, &v); snprintf(out, outsz, "%d", err); }
    else if (!strcmp(kind, "WAITID") || !strcmp(kind, "CANCELID")) {
        int st = 0, rq = (id >= 0 && id < NC_MAX_NFILES) ? lastreq[id] : NC_REQ_NULL;
        err = kind[0] == 'W' ? ncmpi_wait_all(id, 1, &rq, &st) : ncmpi_cancel(id, 1, &rq, &st);
        snprintf(out, outsz, "%d %d", err, st);
    }
    else if (!strcmp(kind, "CANCELGET")) { err = ncmpi_cancel(id, NC_GET_REQ_ALL, NULL, NULL); snprintf(out, outsz, "%d", err); }
    else if (!strcmp(kind, "CANCELPUT")) { err = ncmpi_cancel(id, NC_PUT_REQ_ALL, NULL, NULL); snprintf(out, outsz, "%d", err); }
    else if (!strcmp(kind, "CANCELALL")) { err = ncmpi_cancel(id, NC_REQ_ALL, NULL, NULL); snprintf(out, outsz, "%d", err); if (err == NC_NOERR) bufs_suffix(id, out, outsz); }
    else if (!strcmp(kind, "WAITALL")) { err = ncmpi_wait_all(id, NC_REQ_ALL, NULL, NULL); snprintf(out, outsz, "%d", err); if (err == NC_NOERR) bufs_suffix(id, out, outsz); }
    else if (!strcmp(kind, "BEGININDEP")) { err = ncmpi_begin_indep_data(id); snprintf(out, outsz, "%d", err); }
    else snprintf(out, outsz, "bad-kind");
}

static void probe(int id, const char *kind) {
    int pfd[2], st = 0; pid_t pid; char buf[256]; ssize_t n;
    fflush(stdout); fflush(stderr);
    if (pipe(pfd) != 0) { printf("pipe-failed\n"); return; }
    pid = fork();
    if (pid == 0) {
        struct rlimit rl = {0, 0};
        char out[256];
        setrlimit(RLIMIT_CORE, &rl);
        signal(SIGSEGV, SIG_DFL); signal(SIGBUS, SIG_DFL); signal(SIGABRT, SIG_DFL); signal(SIGFPE, SIG_DFL);
        close(pfd[0]);
        do_call(id, kind, out, sizeof out);
        if (write(pfd[1], out, strlen(out)) < 0) _exit(3);
        _exit(0);
    }
    close(pfd[1]);
    n = read(pfd[0], buf, sizeof buf - 1);
    if (n < 0) n = 0;
    buf[n] = 0;
    close(pfd[0]);
    waitpid(pid, &st, 0);
    if (WIFSIGNALED(st)) printf("SIG%d\n", WTERMSIG(st));
    else if (WIFEXITED(st) && WEXITSTATUS(st) != 0) printf("EXIT%d\n", WEXITSTATUS(st));
    else printf("%s\n", buf);
}

int main(int argc, char **argv) {
    static char line[65536];
    char *tok[64], out[4096];
    int ntok, k, i, err, id;
    struct rlimit rl;

    snprintf(dir, sizeof dir, "%s", argc > 1 ? argv[1] : ".");
    if (getrlimit(RLIMIT_NOFILE, &rl) == 0) { rl.rlim_cur = rl.rlim_max; setrlimit(RLIMIT_NOFILE, &rl); }
    MPI_Init(&argc, &argv);
    alarm(900);
    MPI_Comm_set_errhandler(MPI_COMM_WORLD, MPI_ERRORS_RETURN);
    for (k = 0; k < NPATH; k++) snprintf(path[k], sizeof path[k], "%s/c17_%d.nc", dir, k);
    if (argc > 2 && !strcmp(argv[2], "dupcomm")) PMPI_Comm_dup(MPI_COMM_WORLD, &work_comm);   /* exercises the MPI_Comm_dup path of ncmpi_create/open */

    while (fgets(line, sizeof line, stdin)) {
        char *p;
        ntok = 0;
        for (p = strtok(line, " \n"); p && ntok < 64; p = strtok(NULL, " \n")) tok[ntok++] = p;
        if (ntok == 0) { printf("bad-op\n"); continue; }
        if (!strcmp(tok[0], "CFG")) printf("cfg\n");
        else if ((!strcmp(tok[0], "CREATE") || !strcmp(tok[0], "CREATEX")) && ntok == 2) {
            k = atoi(tok[1]) % NPATH; id = -1;
            err = ncmpi_create(work_comm, path[k], tok[0][6] == 'X' ? NC_NOCLOBBER : NC_CLOBBER, MPI_INFO_NULL, &id);
            printf("%d %d\n", err, err ? -1 : id);
        } else if (!strcmp(tok[0], "OPEN") && ntok == 3) {
            MPI_Info info;
            k = atoi(tok[1]) % NPATH; id = -1;
            MPI_Info_create(&info); MPI_Info_set(info, "nc_header_align_size", "512");
            err = ncmpi_open(work_comm, path[k], atoi(tok[2]) ? NC_WRITE : NC_NOWRITE, info, &id);
            MPI_Info_free(&info);
            printf("%d %d\n", err, err ? -1 : id);
        } else if (!strcmp(tok[0], "OPENJUNK")) {
            char jp[1024]; FILE *f;
            snprintf(jp, sizeof jp, "%s/c17_junk.txt", dir);
            f = fopen(jp, "w"); if (f) { fputs("this is not a netCDF file, it is plain text of sufficient length\n", f); fclose(f); }
            id = -1; err = ncmpi_open(work_comm, jp, NC_NOWRITE, MPI_INFO_NULL, &id);
            printf("%s %d # %d\n", err ? "FAIL" : "0", err ? -1 : id, err);
        } else if (!strcmp(tok[0], "OPENMISSING")) {
            char jp[1024];
            snprintf(jp, sizeof jp, "%s/c17_does_not_exist.nc", dir);
            id = -1; err = ncmpi_open(work_comm, jp, NC_NOWRITE, MPI_INFO_NULL, &id);
            printf("%s %d # %d\n", err ? "FAIL" : "0", err ? -1 : id, err);
        } else if (!strcmp(tok[0], "CREATEBAD")) {
            char jp[1024];
            snprintf(jp, sizeof jp, "%s/no_such_dir/x.nc", dir);
            id = -1;
            if (ntok > 1 && atoi(tok[1]) == 1) err = ncmpi_create(work_comm, path[0], NC_64BIT_OFFSET | NC_64BIT_DATA, MPI_INFO_NULL, &id);
            else err = ncmpi_create(work_comm, jp, NC_CLOBBER, MPI_INFO_NULL, &id);
            printf("%s %d # %d\n", err ? "FAIL" : "0", err ? -1 : id, err);
        } else if (!strcmp(tok[0], "OPENTRUNC") && ntok == 3) {
            /* open a copy of path k cut to its first n bytes; close it again when the open succeeds */
            char jp[1024]; FILE *fi, *fo; long n = atol(tok[2]), c = 0; int ch;
            k = atoi(tok[1]) % NPATH;
            snprintf(jp, sizeof jp, "%s/c17_trunc.nc", dir);
            fi = fopen(path[k], "rb"); fo = fopen(jp, "wb");
            if (fi && fo) while (c < n && (ch = fgetc(fi)) != EOF) { fputc(ch, fo); c++; }
            if (fi) fclose(fi);
            if (fo) fclose(fo);
            id = -1; err = ncmpi_open(work_comm, jp, NC_NOWRITE, MPI_INFO_NULL, &id);
            if (err == NC_NOERR || id >= 0) { int e2 = ncmpi_close(id); printf("done # open %d close %d\n", err, e2); }
            else printf("done # open %d\n", err);
        } else if (!strcmp(tok[0], "PROBE") && ntok == 3) {
            probe(atoi(tok[1]), tok[2]);
        } else if (!strcmp(tok[0], "FILL") && ntok == 3) {
            int n = atoi(tok[2]);
            k = atoi(tok[1]) % NPATH;
            for (i = 0; i < n; i++) {
                id = -1; err = ncmpi_open(work_comm, path[k], NC_NOWRITE, MPI_INFO_NULL, &id);
                printf("%s%d:%d", i ? " " : "", err, err ? -1 : id);
            }
            printf("\n");
        } else if (!strcmp(tok[0], "MREQ") && ntok == 3) {
            printf("%d\n", mreq(atoi(tok[1]), tok[2]));
        } else if (!strcmp(tok[0], "ZREQ") && ntok == 3) {
            printf("z %d\n", zreq(atoi(tok[1]), tok[2]));
        } else if (!strcmp(tok[0], "IOP") && ntok == 4) {
            printf("%d\n", iop(atoi(tok[1]), tok[2], tok[3]));
        } else if (!strcmp(tok[0], "SNAP")) {
            int num = 0, *ids = (int *)calloc(NC_MAX_NFILES + 1, sizeof(int));
            err = ncmpi_inq_files_opened(&num, ids);
            printf("%d %d", err, num);
            for (i = 0; i < num; i++) {
                int nd = -1, nv = -1, na = -1;
                ncmpi_inq(ids[i], &nd, &nv, &na, NULL);
                printf(" %d:%d:%d:%d", ids[i], nd, nv, na);
            }
            printf("\n");
            free(ids);
        } else if (!strcmp(tok[0], "LEAK")) {
            MPI_Offset sz = -1;
            err = ncmpi_inq_malloc_size(&sz);
            printf("malloc=%lld type=%ld comm=%ld info=%ld file=%ld\n", err ? -1LL : (long long)sz, n_type, n_comm, n_info, n_file);
        } else if (ntok == 2) {
            do_call(atoi(tok[1]), tok[0], out, sizeof out);
            printf("%s\n", out);
        } else printf("bad-op\n");
        fflush(stdout);
    }
    if (work_comm != MPI_COMM_WORLD) PMPI_Comm_free(&work_comm);
    MPI_Finalize();
    return 0;
}
