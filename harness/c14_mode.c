/*
 * C14 correspondence harness: drives the REAL library through its public API along call histories
 * and reads back, after every call, what the mode tests read: the mode bits of the dispatcher word
 * PNC.flag and of the driver word NC.flags, ncp->old, ncp->abuf, the pending-request queue lengths,
 * ncp->vars.num_rec_vars, plus whether the file bytes changed and whether the file still exists.
 *
 *   usage: c14_mode <script> <result-file> <workdir>          (same script goes to lean/Driver/C14.lean)
 *
 * script lines                                   result lines (one per script line, rank 0 writes)
 *   S <created|openrw|openro> <hasRec> <cfg>       st <state>
 *   C <call> <args..>   perform, keep state        e=<code> <state> chg=<0|1> ex=<0|1> val=<n>
 *   P <call> <args..>   perform, then restore      (same)   -- restore = nothing if the call failed and
 *                       the state before the call            nothing changed, else rebuild S + the C lines
 *   E                   end of case                ok
 *   <state> = D=<hex> N=<hex> old= ab= g= p= b= rc=     or   closed
 *
 * Argument classes are realised on a fixed schema (see schema()).  All ranks run the same script.
 * The library's own warnings go to stdout; results go to the result file.
 */
#include <stdio.h>
#include <stdlib.h>
#include <string.h>
#include <unistd.h>
#include <signal.h>
#include <mpi.h>
#include <pnetcdf.h>
#include <dispatch.h>
#include "ncmpio_NC.h"

#define MODEBITS 0xF000
#define MAXSEQ 64

static int rank, nprocs;
static FILE *res;
static char path[1024], tmpl[2][1024], wdir[900];
static int ncid = -1, isopen = 0;
static int hasRec = 1;
static int did_t, did_x, id_fv, id_cv, id_rv;
static char seq[MAXSEQ][256];
static int nseq = 0;
static char startline[256];
static int ibuf[8][16];
static char cbuf[8][16];
static int nbufs = 0;
static int tmpl_done[2] = {0, 0};

static void die(const char *m, int e) {
    fprintf(stderr, "c14_mode: %s: %s\n", m, ncmpi_strerrno(e));
    MPI_Abort(MPI_COMM_WORLD, 3);
}
#define OK(x) do { int e_ = (x); if (e_ != NC_NOERR) die(#x, e_); } while (0)

/* fixed schema: dims t (unlimited), x=4, xlong=2; vars fv(x) int, cv(x) char, [rv(t,x) int, fill on];
 * attributes: table ATTS below */
/* attribute of external type letter t (c char, b byte, s short, i int, f float, d double) with n elements */
static int put_att_t(int id, int varid, const char *name, char t, MPI_Offset n) {
    static const int iv[8] = {1, 2, 3, 4, 5, 6, 7, 8};
    switch (t) {
        case 'c': return ncmpi_put_att_text(id, varid, name, n, "abcdefgh");
        case 'b': return ncmpi_put_att_int(id, varid, name, NC_BYTE, n, iv);
        case 's': return ncmpi_put_att_int(id, varid, name, NC_SHORT, n, iv);
        case 'f': return ncmpi_put_att_int(id, varid, name, NC_FLOAT, n, iv);
        case 'd': return ncmpi_put_att_int(id, varid, name, NC_DOUBLE, n, iv);
        default:  return ncmpi_put_att_int(id, varid, name, NC_INT, n, iv);
    }
}

/* the attributes of the schema (mirrored in checks/c14.py: ATTS).  scope G global, F variable fv, A every variable.
 * o<t><n>: attributes to be overwritten, on the file and on fv; p<k>: copy_att pairs (source global, destination fv) */
static const struct att { char scope; const char *name; char t; int n; } ATTS[] = {
    {'G', "ga", 'i', 2}, {'G', "gb", 'i', 1}, {'A', "va", 'i', 2}, {'A', "vb", 'i', 1},
    {'G', "oi1", 'i', 1}, {'G', "oi2", 'i', 2}, {'G', "oi3", 'i', 3}, {'G', "os2", 's', 2}, {'G', "os3", 's', 3},
    {'G', "oc3", 'c', 3}, {'G', "oc4", 'c', 4}, {'G', "oc5", 'c', 5}, {'G', "od1", 'd', 1}, {'G', "od2", 'd', 2},
    {'G', "ob3", 'b', 3},
    {'F', "oi1", 'i', 1}, {'F', "oi2", 'i', 2}, {'F', "oi3", 'i', 3}, {'F', "os2", 's', 2}, {'F', "os3", 's', 3},
    {'F', "oc3", 'c', 3}, {'F', "oc4", 'c', 4}, {'F', "oc5", 'c', 5}, {'F', "od1", 'd', 1}, {'F', "od2", 'd', 2},
    {'F', "ob3", 'b', 3},
    {'G', "p0", 'i', 3}, {'F', "p0", 'i', 2},   {'G', "p1", 'd', 1}, {'F', "p1", 'i', 1},
    {'G', "p2", 'd', 2}, {'F', "p2", 'i', 3},   {'G', "p3", 's', 4}, {'F', "p3", 'i', 2},
    {'G', "p4", 's', 3}, {'F', "p4", 'i', 2},   {'G', "p5", 'c', 3}, {'F', "p5", 'i', 1},
    {'G', "p6", 'c', 5}, {'F', "p6", 'i', 1},   {'G', "p7", 'i', 1}, {'F', "p7", 'c', 4},
    {'G', "p8", 'i', 2}, {'F', "p8", 'c', 4},   {'G', "p9", 'c', 4}, {'F', "p9", 'c', 3},
    {'G', "p10", 'c', 5}, {'F', "p10", 'c', 4}, {'G', "p11", 'i', 2}, {'F', "p11", 'i', 2},
    {'G', "p12", 'i', 1}, {'F', "p12", 'd', 1},
    {0, NULL, 0, 0}};

static void schema(int id) {
    int d2[2], fillv = -7;
    OK(ncmpi_def_dim(id, "t", NC_UNLIMITED, &did_t));
    OK(ncmpi_def_dim(id, "x", 4, &did_x));
    OK(ncmpi_def_var(id, "fv", NC_INT, 1, &did_x, &id_fv));
    OK(ncmpi_def_var(id, "cv", NC_CHAR, 1, &did_x, &id_cv));
    id_rv = -2;
    if (hasRec) {
        d2[0] = did_t; d2[1] = did_x;
        OK(ncmpi_def_var(id, "rv", NC_INT, 2, d2, &id_rv));
        OK(ncmpi_def_var_fill(id, id_rv, 0, &fillv));
    }
    OK(ncmpi_def_dim(id, "xlong", 2, &d2[0]));          /* dim id 2: a 5-byte name for "shorter" renames */
    for (int i = 0; ATTS[i].name; i++) {
        const struct att *a = &ATTS[i];
        if (a->scope == 'G') OK(put_att_t(id, NC_GLOBAL, a->name, a->t, a->n));
        else if (a->scope == 'F') OK(put_att_t(id, id_fv, a->name, a->t, a->n));
        else for (int v = 0; v < (hasRec ? 3 : 2); v++) OK(put_att_t(id, v, a->name, a->t, a->n));
    }
}

static void make_template(void) {
    int id, v[4] = {10, 11, 12, 13};
    if (tmpl_done[hasRec]) return;
    OK(ncmpi_create(MPI_COMM_WORLD, tmpl[hasRec], NC_CLOBBER, MPI_INFO_NULL, &id));
    schema(id);
    OK(ncmpi_enddef(id));
    OK(ncmpi_put_var_int_all(id, id_fv, v));
    OK(ncmpi_put_var_text_all(id, id_cv, "abcd"));
    if (hasRec) {
        MPI_Offset st[2] = {0, 0}, ct[2] = {2, 4};
        int r[8] = {1, 2, 3, 4, 5, 6, 7, 8};
        OK(ncmpi_put_vara_int_all(id, id_rv, st, ct, r));
    }
    OK(ncmpi_close(id));
    tmpl_done[hasRec] = 1;
}

static void copy_template(void) {
    MPI_Barrier(MPI_COMM_WORLD);
    if (rank == 0) {
        FILE *a = fopen(tmpl[hasRec], "rb"), *b = fopen(path, "wb");
        char buf[8192]; size_t n;
        if (!a || !b) { fprintf(stderr, "c14_mode: cannot copy template\n"); MPI_Abort(MPI_COMM_WORLD, 4); }
        while ((n = fread(buf, 1, sizeof buf, a)) > 0) fwrite(buf, 1, n, b);
        fclose(a); fclose(b);
    }
    MPI_Barrier(MPI_COMM_WORLD);
}

/* 64-bit FNV-1a of the file bytes; *ex = exists */
static unsigned long long fhash(int *ex) {
    unsigned long long h = 1469598103934665603ULL;
    MPI_Barrier(MPI_COMM_WORLD);
    FILE *f = fopen(path, "rb");
    if (!f) { *ex = 0; MPI_Barrier(MPI_COMM_WORLD); return 0; }
    *ex = 1;
    unsigned char buf[8192]; size_t n;
    while ((n = fread(buf, 1, sizeof buf, f)) > 0)
        for (size_t i = 0; i < n; i++) { h ^= buf[i]; h *= 1099511628211ULL; }
    fclose(f);
    /* nobody goes on (and writes) before every rank has finished reading */
    MPI_Barrier(MPI_COMM_WORLD);
    return h ^ 0x9e3779b97f4a7c15ULL;
}

typedef struct { int closed, D, N, old, ab, g, p, b, rc; } St;

static St readback(void) {
    St s; memset(&s, 0, sizeof s);
    PNC *pncp = NULL;
    if (!isopen || PNC_check_id(ncid, &pncp) != NC_NOERR || pncp == NULL) { s.closed = 1; return s; }
    NC *ncp = (NC *)pncp->ncp;
    s.D = pncp->flag & MODEBITS;
    s.N = ncp->flags & MODEBITS;
    s.old = ncp->old != NULL;
    s.ab = ncp->abuf != NULL;
    s.g = ncp->numLeadGetReqs;
    s.p = ncp->numLeadPutReqs;
    for (int i = 0; i < ncp->numLeadPutReqs; i++) if (ncp->put_lead_list[i].abuf_index >= 0) s.b++;
    s.rc = ncp->vars.num_rec_vars > 0;
    return s;
}
static int same(St a, St b) { return memcmp(&a, &b, sizeof a) == 0; }
static void fmt(char *o, St s) {
    if (s.closed) sprintf(o, "closed");
    else sprintf(o, "D=%x N=%x old=%d ab=%d g=%d p=%d b=%d rc=%d", s.D, s.N, s.old, s.ab, s.g, s.p, s.b, s.rc);
}

static void cleanup(void) {
    if (isopen) {
        ncmpi_cancel(ncid, NC_REQ_ALL, NULL, NULL);
        ncmpi_buffer_detach(ncid);
        ncmpi_close(ncid);
        isopen = 0;
    }
    nbufs = 0;
}

static void do_start(const char *line) {
    char kind[32]; int hr = 1, cfg = 0;
    sscanf(line, "S %31s %d %d", kind, &hr, &cfg);
    cleanup();
    hasRec = hr ? 1 : 0;
    if (!strcmp(kind, "created")) {
        OK(ncmpi_create(MPI_COMM_WORLD, path, NC_CLOBBER, MPI_INFO_NULL, &ncid));
        schema(ncid);
    } else {
        make_template();          /* sets the ids too (same order every time) */
        if (!tmpl_done[hasRec]) die("template", 0);
        /* ids are deterministic: t=0 x=1 fv=0 cv=1 rv=2 */
        did_t = 0; did_x = 1; id_fv = 0; id_cv = 1; id_rv = hasRec ? 2 : -2;
        copy_template();
        OK(ncmpi_open(MPI_COMM_WORLD, path, !strcmp(kind, "openrw") ? NC_WRITE : NC_NOWRITE, MPI_INFO_NULL, &ncid));
    }
    isopen = 1;
}

static int varid_of(const char *v) {
    switch (v[0]) {
        case 'g': return NC_GLOBAL;
        case 'b': return 99;
        case 'f': return id_fv;
        case 'c': return id_cv;
        case 'r': return id_rv;
    }
    return 98;
}
static const char *varname_of(const char *v) { return v[0] == 'f' ? "fv" : v[0] == 'c' ? "cv" : "rv"; }

/* one API call; returns the NC code; *val = inquiry value */
static int do_call(char *line, long long *val) {
    char *tok[16]; int nt = 0;
    char tmp[256]; strncpy(tmp, line, 255); tmp[255] = 0;
    for (char *p = strtok(tmp, " \t\r\n"); p && nt < 16; p = strtok(NULL, " \t\r\n")) tok[nt++] = p;
    const char *c = tok[1];
#define A(i) ((i) + 2 < nt ? tok[(i) + 2] : "0")
#define B(i) (atoi(A(i)))
    *val = 0;
    int two[4] = {5, 6, 7, 8};
    if (!strcmp(c, "enddef")) return ncmpi_enddef(ncid);
    if (!strcmp(c, "enddefargs")) return ncmpi__enddef(ncid, B(0) ? -1 : 0, 0, 0, 0);
    if (!strcmp(c, "redef")) return ncmpi_redef(ncid);
    if (!strcmp(c, "begin")) return ncmpi_begin_indep_data(ncid);
    if (!strcmp(c, "end")) return ncmpi_end_indep_data(ncid);
    if (!strcmp(c, "close")) { int e = ncmpi_close(ncid); isopen = 0; return e; }
    if (!strcmp(c, "abort")) { int e = ncmpi_abort(ncid); isopen = 0; return e; }
    if (!strcmp(c, "defdim")) { int id; return ncmpi_def_dim(ncid, B(0) ? "x" : "newdim", 3, &id); }
    if (!strcmp(c, "defvar")) {
        int id; return ncmpi_def_var(ncid, B(0) ? "fv" : "newvar", NC_INT, 1, B(1) ? &did_t : &did_x, &id);
    }
    if (!strcmp(c, "defvarfill")) return ncmpi_def_var_fill(ncid, varid_of(A(0)), 0, NULL);
    if (!strcmp(c, "setfill")) { int o; return ncmpi_set_fill(ncid, NC_NOFILL, &o); }
    if (!strcmp(c, "delatt")) {
        int g = A(0)[0] == 'g';
        return ncmpi_del_att(ncid, varid_of(A(0)), B(1) ? NULL : (B(2) ? (g ? "ga" : "va") : "nonexist"));
    }
    if (!strcmp(c, "putatt")) {
        /* v nameBad typeBad charMix negLen exists oldType oldCount newType newCount name */
        const char *nm = B(1) ? NULL : A(10);
        char ty = A(8)[0];
        MPI_Offset n = B(4) ? -1 : B(9);
        if (B(2)) return ncmpi_put_att_int(ncid, varid_of(A(0)), nm, (nc_type)0, n, two);
        if (B(3)) return ncmpi_put_att_int(ncid, varid_of(A(0)), nm, NC_CHAR, n, two);
        return put_att_t(ncid, varid_of(A(0)), nm, ty, n);
    }
    if (!strcmp(c, "getatt")) {
        int g = A(0)[0] == 'g', out[8];
        return ncmpi_get_att_int(ncid, varid_of(A(0)), B(1) ? NULL : (B(2) ? (g ? "ga" : "va") : "nonexist"), out);
    }
    if (!strcmp(c, "copyatt")) {
        /* vinBad voutBad nameBad srcExists dstExists srcType srcCount dstType dstCount name : global -> fv */
        return ncmpi_copy_att(ncid, B(0) ? 99 : NC_GLOBAL, B(2) ? NULL : A(9), ncid, B(1) ? 99 : id_fv);
    }
    if (!strcmp(c, "renameatt")) {
        /* v nameBad exists newInUse oldLen newLen oldname */
        int g = A(0)[0] == 'g';
        char nn[64]; int nl = B(5);
        if (B(3)) strcpy(nn, g ? "gb" : "vb");
        else { memset(nn, 'q', nl); nn[nl] = 0; }
        return ncmpi_rename_att(ncid, varid_of(A(0)), B(1) ? NULL : A(6), nn);
    }
    if (!strcmp(c, "renamevar")) {
        /* v nameBad inUse oldLen newLen : the old names fv/cv/rv have 2 bytes */
        char nn[64]; int nl = B(4);
        if (B(2)) strcpy(nn, A(0)[0] == 'c' ? "fv" : "cv");
        else { memset(nn, 'w', nl); nn[nl] = 0; }
        return ncmpi_rename_var(ncid, varid_of(A(0)), B(1) ? NULL : nn);
    }
    if (!strcmp(c, "renamedim")) {
        /* nameBad dimBad inUse oldLen newLen : oldLen 1 = dim x (id 1), 5 = dim xlong (id 2) */
        char nn[64]; int nl = B(4);
        if (B(2)) strcpy(nn, "t");
        else { memset(nn, 'y', nl); nn[nl] = 0; }
        return ncmpi_rename_dim(ncid, B(1) ? 99 : (B(3) == 5 ? 2 : did_x), B(0) ? NULL : nn);
    }
    if (!strcmp(c, "rw") || !strcmp(c, "post")) {
        int isrw = !strcmp(c, "rw");
        int isPut, coll = 0, text, bad; const char *v, *fl, *kind = "";
        if (isrw) { isPut = B(0); coll = B(1); v = A(2); text = B(3); bad = B(4); fl = nt > 7 ? tok[7] : "vara"; }
        else { kind = A(0); isPut = strcmp(kind, "iget") != 0; v = A(1); text = B(2); bad = B(3); fl = nt > 6 ? tok[6] : "vara"; }
        int vid = varid_of(v), isr = v[0] == 'r';
        MPI_Offset st[2] = {0, 0}, ct[2] = {1, 4}, sd[2] = {1, 1}, im[2] = {4, 1};
        MPI_Offset *sp = isr ? st : st + 1, *cp = isr ? ct : ct + 1, *dp = isr ? sd : sd + 1, *ip = isr ? im : im + 1;
        if (bad) st[1] = 99;
        /* zero-length form of the flavour: a zero in count[] (vara/vars/varm/mvar), num == 0 (varn),
         * bufcount == 0 (flex), MPI_DATATYPE_NULL filetype (vard) */
        int zl = isrw ? (nt > 8 && !strcmp(tok[8], "z")) : (nt > 7 && !strcmp(tok[7], "z"));
        int num = 1; MPI_Offset fbc = 4;
        if (zl) {
            if (!strcmp(fl, "varn")) num = 0;
            else if (!strcmp(fl, "flex")) { fbc = 0; if (coll) cp[0] = 0; }
            else if (strcmp(fl, "vard")) cp[0] = 0;
        }
        if (!isrw) {
            if (nbufs >= 8) nbufs = 0;
        }
        int *ib = ibuf[isrw ? 0 : nbufs]; char *cb = cbuf[isrw ? 0 : nbufs];
        for (int i = 0; i < 4; i++) { ib[i] = 20 + i; cb[i] = 'p' + i; }
        if (!isrw) {
            int req, e;
            nbufs++;
            if (!strcmp(fl, "var1")) {
                if (!strcmp(kind, "iput")) e = text ? ncmpi_iput_var1_text(ncid, vid, sp, cb, &req) : ncmpi_iput_var1_int(ncid, vid, sp, ib, &req);
                else if (!strcmp(kind, "iget")) e = text ? ncmpi_iget_var1_text(ncid, vid, sp, cb, &req) : ncmpi_iget_var1_int(ncid, vid, sp, ib, &req);
                else e = text ? ncmpi_bput_var1_text(ncid, vid, sp, cb, &req) : ncmpi_bput_var1_int(ncid, vid, sp, ib, &req);
            } else if (!strcmp(fl, "varn")) {
                MPI_Offset *ss[1] = {sp}, *cc[1] = {cp};
                if (!strcmp(kind, "iput")) e = text ? ncmpi_iput_varn_text(ncid, vid, num, ss, cc, cb, &req) : ncmpi_iput_varn_int(ncid, vid, num, ss, cc, ib, &req);
                else if (!strcmp(kind, "iget")) e = text ? ncmpi_iget_varn_text(ncid, vid, num, ss, cc, cb, &req) : ncmpi_iget_varn_int(ncid, vid, num, ss, cc, ib, &req);
                else e = text ? ncmpi_bput_varn_text(ncid, vid, num, ss, cc, cb, &req) : ncmpi_bput_varn_int(ncid, vid, num, ss, cc, ib, &req);
            } else if (!strcmp(fl, "flex")) {
                MPI_Datatype bt = text ? MPI_CHAR : MPI_INT; void *bp = text ? (void *)cb : (void *)ib;
                if (!strcmp(kind, "iput")) e = ncmpi_iput_vara(ncid, vid, sp, cp, bp, fbc, bt, &req);
                else if (!strcmp(kind, "iget")) e = ncmpi_iget_vara(ncid, vid, sp, cp, bp, fbc, bt, &req);
                else e = ncmpi_bput_vara(ncid, vid, sp, cp, bp, fbc, bt, &req);
            } else {
                if (!strcmp(kind, "iput")) e = text ? ncmpi_iput_vara_text(ncid, vid, sp, cp, cb, &req) : ncmpi_iput_vara_int(ncid, vid, sp, cp, ib, &req);
                else if (!strcmp(kind, "iget")) e = text ? ncmpi_iget_vara_text(ncid, vid, sp, cp, cb, &req) : ncmpi_iget_vara_int(ncid, vid, sp, cp, ib, &req);
                else e = text ? ncmpi_bput_vara_text(ncid, vid, sp, cp, cb, &req) : ncmpi_bput_vara_int(ncid, vid, sp, cp, ib, &req);
            }
            return e;
        }
#define RW4(nm, args_i, args_t) \
        (isPut ? (coll ? (text ? ncmpi_put_##nm##_text_all args_t : ncmpi_put_##nm##_int_all args_i) \
                       : (text ? ncmpi_put_##nm##_text args_t : ncmpi_put_##nm##_int args_i)) \
               : (coll ? (text ? ncmpi_get_##nm##_text_all args_t : ncmpi_get_##nm##_int_all args_i) \
                       : (text ? ncmpi_get_##nm##_text args_t : ncmpi_get_##nm##_int args_i)))
        if (!strcmp(fl, "var1")) return RW4(var1, (ncid, vid, sp, ib), (ncid, vid, sp, cb));
        if (!strcmp(fl, "var"))  return RW4(var, (ncid, vid, ib), (ncid, vid, cb));
        if (!strcmp(fl, "vars")) return RW4(vars, (ncid, vid, sp, cp, dp, ib), (ncid, vid, sp, cp, dp, cb));
        if (!strcmp(fl, "varm")) return RW4(varm, (ncid, vid, sp, cp, dp, ip, ib), (ncid, vid, sp, cp, dp, ip, cb));
        if (!strcmp(fl, "varn")) {
            MPI_Offset *ss[1] = {sp}, *cc[1] = {cp};
            return RW4(varn, (ncid, vid, num, ss, cc, ib), (ncid, vid, num, ss, cc, cb));
        }
        if (!strcmp(fl, "flex")) {   /* flexible API with an MPI datatype that names the typed API's itype */
            MPI_Datatype bt = text ? MPI_CHAR : MPI_INT; void *bp = text ? (void *)cb : (void *)ib;
            if (isPut) return coll ? ncmpi_put_vara_all(ncid, vid, sp, cp, bp, fbc, bt) : ncmpi_put_vara(ncid, vid, sp, cp, bp, fbc, bt);
            return coll ? ncmpi_get_vara_all(ncid, vid, sp, cp, bp, fbc, bt) : ncmpi_get_vara(ncid, vid, sp, cp, bp, fbc, bt);
        }
        if (!strcmp(fl, "vard")) {   /* filetype = 4 contiguous ints; only for int variables */
            MPI_Datatype ft; int e;
            if (zl) {
                if (isPut) return coll ? ncmpi_put_vard_all(ncid, vid, MPI_DATATYPE_NULL, ib, 4, MPI_INT) : ncmpi_put_vard(ncid, vid, MPI_DATATYPE_NULL, ib, 4, MPI_INT);
                return coll ? ncmpi_get_vard_all(ncid, vid, MPI_DATATYPE_NULL, ib, 4, MPI_INT) : ncmpi_get_vard(ncid, vid, MPI_DATATYPE_NULL, ib, 4, MPI_INT);
            }
            MPI_Type_contiguous(4, MPI_INT, &ft); MPI_Type_commit(&ft);
            if (isPut) e = coll ? ncmpi_put_vard_all(ncid, vid, ft, ib, 4, MPI_INT) : ncmpi_put_vard(ncid, vid, ft, ib, 4, MPI_INT);
            else e = coll ? ncmpi_get_vard_all(ncid, vid, ft, ib, 4, MPI_INT) : ncmpi_get_vard(ncid, vid, ft, ib, 4, MPI_INT);
            MPI_Type_free(&ft);
            return e;
        }
        if (!strcmp(fl, "mvar")) {   /* ncmpi_mput/mget_vara_<type>[_all] with one variable */
            int vids[1] = {vid}; MPI_Offset *ss[1] = {sp}, *cc[1] = {cp};
            int *ibs[1] = {ib}; char *cbs[1] = {cb};
            if (isPut) return coll ? (text ? ncmpi_mput_vara_text_all(ncid, 1, vids, ss, cc, cbs) : ncmpi_mput_vara_int_all(ncid, 1, vids, ss, cc, ibs))
                                   : (text ? ncmpi_mput_vara_text(ncid, 1, vids, ss, cc, cbs) : ncmpi_mput_vara_int(ncid, 1, vids, ss, cc, ibs));
            return coll ? (text ? ncmpi_mget_vara_text_all(ncid, 1, vids, ss, cc, cbs) : ncmpi_mget_vara_int_all(ncid, 1, vids, ss, cc, ibs))
                        : (text ? ncmpi_mget_vara_text(ncid, 1, vids, ss, cc, cbs) : ncmpi_mget_vara_int(ncid, 1, vids, ss, cc, ibs));
        }
        return RW4(vara, (ncid, vid, sp, cp, ib), (ncid, vid, sp, cp, cb));
    }
    if (!strcmp(c, "wait")) {
        int n = B(1) ? 0 : NC_REQ_ALL;
        return B(0) ? ncmpi_wait_all(ncid, n, NULL, NULL) : ncmpi_wait(ncid, n, NULL, NULL);
    }
    if (!strcmp(c, "cancel")) return ncmpi_cancel(ncid, B(0) ? 0 : NC_REQ_ALL, NULL, NULL);
    if (!strcmp(c, "sync")) return ncmpi_sync(ncid);
    if (!strcmp(c, "syncnumrecs")) return ncmpi_sync_numrecs(ncid);
    if (!strcmp(c, "flush")) return ncmpi_flush(ncid);
    if (!strcmp(c, "fillvarrec")) return ncmpi_fill_var_rec(ncid, varid_of(A(0)), 0);
    if (!strcmp(c, "attach")) return ncmpi_buffer_attach(ncid, B(0) ? 4096 : 0);
    if (!strcmp(c, "detach")) return ncmpi_buffer_detach(ncid);
    if (!strcmp(c, "inq")) {
        const char *fl = nt > 2 ? tok[2] : "inq";
        int a, b2, c2, d; MPI_Offset o; char nm[NC_MAX_NAME + 1];
        if (!strcmp(fl, "ndims")) return ncmpi_inq_ndims(ncid, &a);
        if (!strcmp(fl, "format")) return ncmpi_inq_format(ncid, &a);
        if (!strcmp(fl, "unlimdim")) return ncmpi_inq_unlimdim(ncid, &a);
        if (!strcmp(fl, "dimlen")) return ncmpi_inq_dimlen(ncid, did_x, &o);
        if (!strcmp(fl, "varid")) return ncmpi_inq_varid(ncid, "fv", &a);
        if (!strcmp(fl, "natts")) return ncmpi_inq_natts(ncid, &a);
        if (!strcmp(fl, "attname")) return ncmpi_inq_attname(ncid, NC_GLOBAL, 0, nm);
        if (!strcmp(fl, "recsize")) return ncmpi_inq_recsize(ncid, &o);
        if (!strcmp(fl, "hdrsize")) return ncmpi_inq_header_size(ncid, &o);
        if (!strcmp(fl, "nrecvars")) return ncmpi_inq_num_rec_vars(ncid, &a);
        if (!strcmp(fl, "putsize")) return ncmpi_inq_put_size(ncid, &o);
        if (!strcmp(fl, "varoffset")) return ncmpi_inq_varoffset(ncid, id_fv, &o);
        if (!strcmp(fl, "version")) return ncmpi_inq_version(ncid, &a);
        return ncmpi_inq(ncid, &a, &b2, &c2, &d);
    }
    if (!strcmp(c, "inqvar")) { char nm[NC_MAX_NAME + 1]; return ncmpi_inq_varname(ncid, varid_of(A(0)), nm); }
    if (!strcmp(c, "inqnreqs")) { int n = 0; int e = ncmpi_inq_nreqs(ncid, &n); *val = n; return e; }
    if (!strcmp(c, "inqbuf")) {
        MPI_Offset u; const char *fl = nt > 2 ? tok[2] : "usage";
        return !strcmp(fl, "size") ? ncmpi_inq_buffer_size(ncid, &u) : ncmpi_inq_buffer_usage(ncid, &u);
    }
    fprintf(stderr, "c14_mode: unknown call '%s'\n", line);
    MPI_Abort(MPI_COMM_WORLD, 5);
    return 0;
}

static void rebuild(void) {
    long long v;
    do_start(startline);
    for (int i = 0; i < nseq; i++) { char l[256]; strcpy(l, seq[i]); do_call(l, &v); }
}

static void on_alarm(int sig) {
    (void)sig;
    if (res) { fprintf(res, "TIMEOUT\n"); fflush(res); }
    _exit(7);
}

int main(int argc, char **argv) {
    MPI_Init(&argc, &argv);
    MPI_Comm_rank(MPI_COMM_WORLD, &rank);
    MPI_Comm_size(MPI_COMM_WORLD, &nprocs);
    if (argc < 4) { fprintf(stderr, "usage: c14_mode script result workdir\n"); MPI_Abort(MPI_COMM_WORLD, 2); }
    FILE *in = fopen(argv[1], "r");
    res = rank == 0 ? fopen(argv[2], "w") : fopen("/dev/null", "w");
    if (!in || !res) { fprintf(stderr, "c14_mode: cannot open script/result\n"); MPI_Abort(MPI_COMM_WORLD, 2); }
    setvbuf(res, NULL, _IOLBF, 0);   /* a crash inside a call must not lose the lines before it */
    strncpy(wdir, argv[3], sizeof wdir - 1);
    snprintf(path, sizeof path, "%s/c14_work.nc", wdir);
    snprintf(tmpl[0], sizeof tmpl[0], "%s/c14_tmpl0.nc", wdir);
    snprintf(tmpl[1], sizeof tmpl[1], "%s/c14_tmpl1.nc", wdir);
    signal(SIGALRM, on_alarm);
    alarm(argc > 4 ? atoi(argv[4]) : 1500);

    char line[256], sb[160];
    while (fgets(line, sizeof line, in)) {
        size_t n = strlen(line);
        while (n && (line[n - 1] == '\n' || line[n - 1] == '\r')) line[--n] = 0;
        if (!n) { fprintf(res, "\n"); continue; }
        if (line[0] == 'S') {
            strcpy(startline, line); nseq = 0;
            do_start(line);
            fmt(sb, readback());
            fprintf(res, "st %s\n", sb);
        } else if (line[0] == 'E') {
            cleanup();
            fprintf(res, "ok\n");
        } else if (line[0] == 'C' || line[0] == 'P') {
            int ex0, ex1; long long val;
            St s0 = readback();
            unsigned long long h0 = fhash(&ex0);
            char l2[256]; strcpy(l2, line);
            int e = do_call(l2, &val);
            St s1 = readback();
            unsigned long long h1 = fhash(&ex1);
            int chg = (ex0 != ex1) || (h0 != h1);
            fmt(sb, s1);
            fprintf(res, "e=%d %s chg=%d ex=%d val=%lld\n", e, sb, chg, ex1, val);
            if (line[0] == 'C') {
                if (nseq < MAXSEQ) strcpy(seq[nseq++], line);
            } else {
                /* the decision to restore must be the same on every rank (rebuild() is collective) */
                int mine = (e == NC_NOERR || chg || !same(s0, s1)), any = mine;
                if (nprocs > 1) MPI_Allreduce(&mine, &any, 1, MPI_INT, MPI_LOR, MPI_COMM_WORLD);
                if (any) rebuild();
            }
        } else {
            fprintf(res, "bad-line\n");
        }
    }
    cleanup();
    fclose(res);
    MPI_Barrier(MPI_COMM_WORLD);
    if (rank == 0) { unlink(path); unlink(tmpl[0]); unlink(tmpl[1]); }
    MPI_Finalize();
    return 0;
}
