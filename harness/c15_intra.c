/*
 * C15 correspondence harness for the intra-node write aggregation (ncmpio_intra_node.c).
 *
 * The scratch tree's ncmpio_intra_node.c is #included, so that the static flatten_req(),
 * flatten_subarray() and qsort_off_len_buf() are reachable.  The aggregator's sort/merge/pack/coalesce
 * statements live in the middle of intra_node_aggregation() between MPI calls; checks/c15.py copies
 * them VERBATIM (between two source comments, fail closed when they move) into c15_intra_merge.inc,
 * which is compiled here as the body of aggr_pure().
 *
 *   F isrec begin xsz recsize nd shape.. S start.. C count.. T|TN stride..
 *        -> <err> <npairs> off:len,...
 *   Q recsize nreq { lead isrec begin xsz nd shape.. S start.. C count.. T|TN stride.. }
 *        the real static flatten_reqs() on a hand-built NC / put_lead_list / NC_req array (requests with the
 *        same `lead` share one NC_lead_req, i.e. are the per-record pieces of one multi-record request)
 *        -> <err> <num_pairs> off:len,...
 *   M n off:len ...     (offsets/lengths multiples of 4; recv_buf word k holds the id k)
 *        -> s=<off:len:buf,... after qsort_off_len_buf> f=<off:len,... final> w=<ids of wr_buf words> n=<buf_count>
 */
#include "ncmpio_intra_node.c"

#include <stdio.h>
#include <string.h>
#include <unistd.h>

#ifdef HAVE_MPI_LARGE_COUNT
typedef MPI_Count OFFT;
typedef MPI_Count LENT;
#else
typedef MPI_Aint OFFT;
typedef int LENT;
#endif

/* the extracted statements use: ncp->rank/my_aggr are NOT in the extract; i, j, npairs, offsets,
 * lengths, recv_buf, wr_buf, buf_count */
static void aggr_pure(MPI_Aint *npairs_io, OFFT *offsets, LENT *lengths, char *recv_buf, char *wr_buf,
                      MPI_Offset *buf_count_out)
{
    int i, j;
    MPI_Aint npairs = *npairs_io;
    MPI_Offset buf_count = 0;
#include "c15_intra_merge.inc"
    *npairs_io = npairs;
    *buf_count_out = buf_count;
}

#define MAXD 8
int main(int argc, char **argv)
{
    static char line[1 << 20];
    alarm(600);
    while (fgets(line, sizeof(line), stdin)) {
        char *tok = strtok(line, " \n");
        if (tok == NULL) continue;
        if (strcmp(tok, "F") == 0) {
            NC nc;
            NC_var var;
            MPI_Offset shape[MAXD], start[MAXD], count[MAXD], stride[MAXD];
            int isrec = atoi(strtok(NULL, " \n")), i, nd, hasT;
            memset(&nc, 0, sizeof(nc));
            memset(&var, 0, sizeof(var));
            var.begin = atoll(strtok(NULL, " \n"));
            var.xsz = atoi(strtok(NULL, " \n"));
            nc.recsize = atoll(strtok(NULL, " \n"));
            nd = atoi(strtok(NULL, " \n"));
            if (nd > MAXD) { printf("bad-op\n"); continue; }
            for (i = 0; i < nd; i++) shape[i] = atoll(strtok(NULL, " \n"));
            if (isrec && nd > 0) shape[0] = NC_UNLIMITED;
            strtok(NULL, " \n");
            for (i = 0; i < nd; i++) start[i] = atoll(strtok(NULL, " \n"));
            strtok(NULL, " \n");
            for (i = 0; i < nd; i++) count[i] = atoll(strtok(NULL, " \n"));
            tok = strtok(NULL, " \n"); hasT = (strcmp(tok, "T") == 0);
            if (hasT) for (i = 0; i < nd; i++) stride[i] = atoll(strtok(NULL, " \n"));
            var.ndims = nd;
            var.shape = nd > 0 ? shape : NULL;
            MPI_Aint np = 0;
            OFFT *offs = NULL;
            LENT *lens = NULL;
            int err = flatten_req(&nc, &var, start, count, hasT ? stride : NULL, &np, &offs, &lens);
            printf("%d %lld ", err, (long long)np);
            for (i = 0; i < np; i++) printf("%s%lld:%lld", i ? "," : "", (long long)offs[i], (long long)lens[i]);
            if (np == 0) printf("-");
            printf("\n");
            if (offs) NCI_Free(offs);
            if (lens) NCI_Free(lens);
        }
        else if (strcmp(tok, "Q") == 0) {
#define MAXQ 16
            static NC nc;
            static NC_lead_req leads[MAXQ];
            static NC_var vars[MAXQ];
            static NC_req reqs[MAXQ];
            static MPI_Offset shapes[MAXQ][MAXD], scs[MAXQ][3 * MAXD];
            int nreq, i, j, bad = 0, seen[MAXQ];
            memset(&nc, 0, sizeof(nc));
            memset(leads, 0, sizeof(leads));
            memset(vars, 0, sizeof(vars));
            memset(reqs, 0, sizeof(reqs));
            memset(seen, 0, sizeof(seen));
            nc.recsize = atoll(strtok(NULL, " \n"));
            nreq = atoi(strtok(NULL, " \n"));
            if (nreq > MAXQ) { printf("bad-op\n"); continue; }
            nc.put_lead_list = leads;
            for (i = 0; i < nreq && !bad; i++) {
                int lead = atoi(strtok(NULL, " \n")), isrec = atoi(strtok(NULL, " \n"));
                long long begin = atoll(strtok(NULL, " \n"));
                int xsz = atoi(strtok(NULL, " \n")), nd = atoi(strtok(NULL, " \n")), hasT;
                if (lead < 0 || lead >= MAXQ || nd > MAXD) { bad = 1; break; }
                for (j = 0; j < nd; j++) shapes[lead][j] = atoll(strtok(NULL, " \n"));
                if (isrec && nd > 0) shapes[lead][0] = NC_UNLIMITED;
                strtok(NULL, " \n");
                for (j = 0; j < nd; j++) scs[i][j] = atoll(strtok(NULL, " \n"));
                strtok(NULL, " \n");
                for (j = 0; j < nd; j++) scs[i][nd + j] = atoll(strtok(NULL, " \n"));
                tok = strtok(NULL, " \n"); hasT = (strcmp(tok, "T") == 0);
                for (j = 0; j < nd; j++) scs[i][2 * nd + j] = hasT ? atoll(strtok(NULL, " \n")) : 1;
                vars[lead].ndims = nd; vars[lead].begin = begin; vars[lead].xsz = xsz;
                vars[lead].shape = nd > 0 ? shapes[lead] : NULL;
                leads[lead].varp = &vars[lead];
                leads[lead].flag = hasT ? 0 : NC_REQ_STRIDE_NULL;
                leads[lead].nonlead_num++;
                if (!seen[lead]) { seen[lead] = 1; leads[lead].nonlead_off = i; leads[lead].start = scs[i]; }
                reqs[i].lead_off = lead;
                reqs[i].start = scs[i];
            }
            if (bad) { printf("bad-op\n"); continue; }
            MPI_Aint np = 0;
            OFFT *offs = NULL;
            LENT *lens = NULL;
            int err = flatten_reqs(&nc, nreq, reqs, &np, &offs, &lens);
            printf("%d %lld ", err, (long long)np);
            for (i = 0; i < np; i++) printf("%s%lld:%lld", i ? "," : "", (long long)offs[i], (long long)lens[i]);
            if (np == 0) printf("-");
            printf("\n");
            if (offs) NCI_Free(offs);
            if (lens) NCI_Free(lens);
        }
        else if (strcmp(tok, "M") == 0) {
            long n = atol(strtok(NULL, " \n")), i, total = 0;
            OFFT *offs = (OFFT *) NCI_Malloc(sizeof(OFFT) * (n + 1));
            LENT *lens = (LENT *) NCI_Malloc(sizeof(LENT) * (n + 1));
            OFFT *o2 = (OFFT *) malloc(sizeof(OFFT) * (n + 1));
            LENT *l2 = (LENT *) malloc(sizeof(LENT) * (n + 1));
            MPI_Aint *b2 = (MPI_Aint *) malloc(sizeof(MPI_Aint) * (n + 1));
            for (i = 0; i < n; i++) {
                char *t = strtok(NULL, " \n"), *c = strchr(t, ':');
                offs[i] = atoll(t); lens[i] = atoll(c + 1);
                o2[i] = offs[i]; l2[i] = lens[i]; b2[i] = total;
                total += lens[i];
            }
            /* the real sort on a copy */
            qsort_off_len_buf(n, o2, l2, b2);
            printf("s=");
            for (i = 0; i < n; i++) printf("%s%lld:%lld:%lld", i ? "," : "", (long long)o2[i], (long long)l2[i], (long long)b2[i]);
            /* the extracted aggregator statements */
            char *recv_buf = (char *) NCI_Malloc(total + 8), *wr_buf = (char *) malloc(total + 8);
            for (i = 0; i < total / 4; i++) ((unsigned int *)recv_buf)[i] = (unsigned int)i;
            memset(wr_buf, 0xee, total + 8);
            MPI_Aint np = n;
            MPI_Offset bc = 0;
            aggr_pure(&np, offs, lens, recv_buf, wr_buf, &bc);     /* frees recv_buf */
            printf(" f=");
            for (i = 0; i < np; i++) printf("%s%lld:%lld", i ? "," : "", (long long)offs[i], (long long)lens[i]);
            printf(" w=");
            for (i = 0; i < bc / 4; i++) printf("%s%u", i ? "," : "", ((unsigned int *)wr_buf)[i]);
            if (bc == 0) printf("-");
            printf(" n=%lld\n", (long long)bc);
            NCI_Free(offs); NCI_Free(lens); free(o2); free(l2); free(b2); free(wr_buf);
        }
        else printf("bad-op\n");
        fflush(stdout);
    }
    return 0;
}
