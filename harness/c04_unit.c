/*
 * C04 unit correspondence harness: drives ncmpio_hdr_get_NC() of the scratch tree directly with a
 * hand-built NC object, so that every read-chunk size can be exercised (the hint
 * nc_header_read_chunk_size is parsed but never stored by the library, note N1).
 *
 * The static functions of ncmpio_header_get.c (hdr_fetch, hdr_get_*) are reached by including the
 * file from the scratch tree (-I<tree>/src/drivers/ncmpio).
 *
 *   usage: c04_unit <request-file> <output-prefix>
 *   request line:  <path> <ncp->chunk> <safe_mode> [<hcoll>]     hcoll = 1: NC_HCOLL set (hint romio_no_indep_rw=true),
 *                  the header is then read with MPI_File_read_at_all when there is more than one rank
 *   answer line (file <output-prefix>.<rank>, one per request, same syntax as `DEC` of lean/Driver/C04.lean):
 *       OK <schema with vsize := recomputed len> | xsz begin_var begin_rec recsize num_rec_vars
 *       ERR <code>
 */
#include "ncmpio_header_get.c"
#include <unistd.h>
#include <sys/resource.h>

static void hex(FILE *o, const void *p, size_t n) {
    const unsigned char *c = (const unsigned char*)p;
    size_t i;
    if (n == 0) { fputs("-", o); return; }
    for (i = 0; i < n; i++) fprintf(o, "%02x", c[i]);
}

static void dump_attrs(FILE *o, NC_attrarray *a) {
    int i;
    fprintf(o, " %d", a->ndefined);
    for (i = 0; i < a->ndefined; i++) {
        NC_attr *t = a->value[i];
        int xsz = 0;
        ncmpii_xlen_nc_type(t->xtype, &xsz);
        fputc(' ', o); hex(o, t->name, t->name_len);
        fprintf(o, " %d %lld ", (int)t->xtype, (long long)t->nelems);
        hex(o, t->xvalue, (size_t)(t->nelems * xsz));
    }
}

int main(int argc, char **argv) {
    int rank, nprocs;
    char line[8192], path[4096], outname[4096];
    FILE *in, *out;
    MPI_Init(&argc, &argv);
    MPI_Comm_rank(MPI_COMM_WORLD, &rank);
    { struct rlimit rl; rl.rlim_cur = rl.rlim_max = (rlim_t)6 << 30; setrlimit(RLIMIT_AS, &rl); } /* a runaway allocation is a result, not a stuck machine */
    MPI_Comm_size(MPI_COMM_WORLD, &nprocs);
    MPI_Comm_set_errhandler(MPI_COMM_WORLD, MPI_ERRORS_RETURN);
    if (argc < 3) { fprintf(stderr, "usage\n"); MPI_Abort(MPI_COMM_WORLD, 2); }
    in = fopen(argv[1], "r");
    snprintf(outname, sizeof outname, "%s.%d", argv[2], rank);
    out = fopen(outname, "w");
    if (!in || !out) { fprintf(stderr, "cannot open\n"); MPI_Abort(MPI_COMM_WORLD, 2); }
    while (fgets(line, sizeof line, in)) {
        int chunk, safe, hcoll = 0, err, i, j;
        MPI_File fh;
        NC *ncp;
        if (sscanf(line, "%4095s %d %d %d", path, &chunk, &safe, &hcoll) < 3) continue;
        alarm(10);   /* per-request watchdog: a hang is a result (the driver script restarts after it) */
        err = MPI_File_open(MPI_COMM_WORLD, path, MPI_MODE_RDONLY, MPI_INFO_NULL, &fh);
        if (err != MPI_SUCCESS) { fprintf(out, "OPENFAIL\n"); continue; }
        ncp = (NC*) NCI_Calloc(1, sizeof(NC));
        ncp->comm = MPI_COMM_WORLD;
        ncp->rank = rank;
        ncp->nprocs = nprocs;
        ncp->collective_fh = fh;
        ncp->independent_fh = fh;
        ncp->chunk = chunk;
        ncp->safe_mode = safe;
        if (hcoll) fSet(ncp->flags, NC_HCOLL);
        ncp->path = path;
        err = ncmpio_hdr_get_NC(ncp);
        if (err != NC_NOERR) fprintf(out, "ERR %d\n", err);
        else {
            fprintf(out, "OK %d %lld %d", ncp->format, (long long)ncp->numrecs, ncp->dims.ndefined);
            for (i = 0; i < ncp->dims.ndefined; i++) {
                fputc(' ', out); hex(out, ncp->dims.value[i]->name, ncp->dims.value[i]->name_len);
                fprintf(out, " %lld", (long long)ncp->dims.value[i]->size);
            }
            dump_attrs(out, &ncp->attrs);
            fprintf(out, " %d", ncp->vars.ndefined);
            for (i = 0; i < ncp->vars.ndefined; i++) {
                NC_var *v = ncp->vars.value[i];
                fputc(' ', out); hex(out, v->name, v->name_len);
                fprintf(out, " %d", v->ndims);
                for (j = 0; j < v->ndims; j++) fprintf(out, " %d", v->dimids[j]);
                dump_attrs(out, &v->attrs);
                fprintf(out, " %d %lld %lld", (int)v->xtype, (long long)v->len, (long long)v->begin);
            }
            fprintf(out, " | %lld %lld %lld %lld %d\n", (long long)ncp->xsz, (long long)ncp->begin_var,
                    (long long)ncp->begin_rec, (long long)ncp->recsize, ncp->vars.num_rec_vars);
        }
        fflush(out);
        ncmpio_free_NC_dimarray(&ncp->dims);
        ncmpio_free_NC_attrarray(&ncp->attrs);
        ncmpio_free_NC_vararray(&ncp->vars);
        NCI_Free(ncp);
        MPI_File_close(&fh);
    }
    fclose(out);
    MPI_Finalize();
    return 0;
}
