/*
 * C16 unit-level correspondence harness.
 *
 * Includes <scratch tree>/src/drivers/ncmpio/ncmpio_fill.c and calls the real static functions
 * `fillerup_aggregate` and `fill_var_rec` with hand-built NC objects whose `nprocs` / `rank` fields are
 * set to arbitrary values (a single real process; the file handle is opened on MPI_COMM_SELF).  The
 * MPI calls the functions make are intercepted (PMPI): MPI_Type_create_hindexed (the file view of
 * the aggregated fill), MPI_File_write_at / MPI_File_write_at_all (offset, count, buffer) are recorded
 * and NOT executed.
 *
 *   usage: c16_unit <script> <datafile>
 *   script lines (the same lines go to lean/Driver/C16.lean):
 *     FP <nprocs> <rank> <recsize> <nrecs> <nvars> (<begin> <xsz> <varLen> <isRec> <noFill>)*
 *          -> <n> (<off> <len>)* | <buffer hex>        (n = -1: no hindexed view was created)
 *     FR <nprocs> <rank> <recsize> <recno> <begin> <xsz> <varLen> <isRec>
 *          -> <off> <len> | <buffer hex>
 */
#include <stdio.h>
#include <stdlib.h>
#include <string.h>
#include <unistd.h>
#include <mpi.h>

#include "ncmpio_fill.c"

#define MAXPLAN 100000
static int plan_n, plan_calls;
static long long plan_off[MAXPLAN], plan_len[MAXPLAN];
static long long w_off, w_cnt; static int w_calls;
static unsigned char *w_buf; static long long w_buflen;

int MPI_Type_create_hindexed(int count, const int blens[], const MPI_Aint disps[], MPI_Datatype oldtype,
                             MPI_Datatype *newtype)
{
    int i;
    plan_calls++;
    plan_n = count < MAXPLAN ? count : MAXPLAN;
    for (i = 0; i < plan_n; i++) { plan_off[i] = (long long)disps[i]; plan_len[i] = blens[i]; }
    return PMPI_Type_create_hindexed(count, blens, disps, oldtype, newtype);
}

static void record_write(MPI_Offset off, const void *buf, int count, MPI_Datatype t)
{
    int tsz = 1;
    MPI_Type_size(t, &tsz);
    w_calls++; w_off = (long long)off; w_cnt = (long long)count * tsz;
    free(w_buf); w_buf = NULL; w_buflen = 0;
    if (w_cnt > 0 && buf != NULL) {
        w_buf = (unsigned char*) malloc((size_t)w_cnt);
        memcpy(w_buf, buf, (size_t)w_cnt);
        w_buflen = w_cnt;
    }
}
int MPI_File_write_at(MPI_File fh, MPI_Offset off, const void *buf, int count, MPI_Datatype t, MPI_Status *st)
{ record_write(off, buf, count, t); return MPI_SUCCESS; }
int MPI_File_write_at_all(MPI_File fh, MPI_Offset off, const void *buf, int count, MPI_Datatype t, MPI_Status *st)
{ record_write(off, buf, count, t); return MPI_SUCCESS; }

static NC_var *mkvar(long long begin, int xsz, long long varlen, int isrec, int nofill, int scalar_form)
{
    NC_var *v = (NC_var*) calloc(1, sizeof(NC_var));
    v->xsz = xsz;
    v->xtype = xsz == 1 ? NC_BYTE : xsz == 2 ? NC_SHORT : xsz == 4 ? NC_INT : NC_DOUBLE;
    v->no_fill = nofill;
    v->begin = begin;
    v->shape  = (MPI_Offset*) calloc(3, sizeof(MPI_Offset));
    v->dsizes = (MPI_Offset*) calloc(3, sizeof(MPI_Offset));
    if (isrec) {
        v->shape[0] = NC_UNLIMITED;
        if (varlen == 1 && scalar_form) { v->ndims = 1; v->dsizes[0] = 0; }
        else { v->ndims = 2; v->shape[1] = varlen; v->dsizes[1] = varlen; v->dsizes[0] = 0; }
    } else {
        if (varlen == 1 && scalar_form) { v->ndims = 0; free(v->shape); v->shape = NULL; }
        else { v->ndims = 1; v->shape[0] = varlen; v->dsizes[0] = varlen; }
    }
    return v;
}
static void freevar(NC_var *v) { free(v->shape); free(v->dsizes); free(v); }

static void print_buf(void)
{
    long long i;
    printf(" | ");
    if (w_buflen == 0) printf("-");
    for (i = 0; i < w_buflen; i++) printf("%02x", w_buf[i]);
    printf("\n");
}

int main(int argc, char **argv)
{
    static char line[1<<20];
    char *tok[20000];
    FILE *sf;
    MPI_File fh;
    int ntok, err, i, lineno = 0;

    MPI_Init(&argc, &argv);
    alarm(240);
    if (argc < 3) { MPI_Finalize(); return 2; }
    sf = fopen(argv[1], "r");
    if (!sf) { perror(argv[1]); return 2; }
    err = MPI_File_open(MPI_COMM_SELF, argv[2], MPI_MODE_RDWR | MPI_MODE_CREATE, MPI_INFO_NULL, &fh);
    if (err != MPI_SUCCESS) { fprintf(stderr, "MPI_File_open failed\n"); return 3; }

    while (fgets(line, sizeof(line), sf)) {
        NC nc, old;
        char *p;
        lineno++;
        ntok = 0;
        for (p = strtok(line, " \n"); p && ntok < 20000; p = strtok(NULL, " \n")) tok[ntok++] = p;
        if (ntok == 0) continue;
        memset(&nc, 0, sizeof(nc)); memset(&old, 0, sizeof(old));
        nc.comm = MPI_COMM_SELF; nc.collective_fh = fh; nc.independent_fh = MPI_FILE_NULL;
        nc.nprocs = atoi(tok[1]); nc.rank = atoi(tok[2]);
        nc.recsize = atoll(tok[3]);
        plan_n = -1; plan_calls = 0; w_calls = 0; w_off = -1; w_cnt = -1;
        free(w_buf); w_buf = NULL; w_buflen = 0;

        if (!strcmp(tok[0], "FP")) {
            long long nrecs = atoll(tok[4]);
            int nv = atoi(tok[5]), nold = 2, nrec = 0;
            nc.vars.ndefined = nold + nv;
            nc.vars.value = (NC_var**) calloc(nold + nv, sizeof(NC_var*));
            /* variables that existed before the redefinition: fill mode ON, must never show up in the plan */
            nc.vars.value[0] = mkvar(7000000, 4, 10, 0, 0, 0);
            nc.vars.value[1] = mkvar(8000000, 4, 10, 1, 0, 0);
            nrec = 1;
            for (i = 0; i < nv; i++) {
                long long b = atoll(tok[6+5*i]); int xsz = atoi(tok[7+5*i]); long long vl = atoll(tok[8+5*i]);
                int isrec = atoi(tok[9+5*i]), nofill = atoi(tok[10+5*i]);
                nc.vars.value[nold+i] = mkvar(b, xsz, vl, isrec, nofill, (lineno + i) % 2);
                nrec += isrec;
            }
            nc.vars.num_rec_vars = nrec;
            old.vars.ndefined = nold;
            old.numrecs = nrecs;
            err = fillerup_aggregate(&nc, &old);
            if (err != NC_NOERR) printf("error %d\n", err);
            else {
                printf("%d", plan_n);
                for (i = 0; i < plan_n; i++) printf(" %lld %lld", plan_off[i], plan_len[i]);
                print_buf();
            }
            for (i = 0; i < nold + nv; i++) freevar(nc.vars.value[i]);
            free(nc.vars.value);
        }
        else if (!strcmp(tok[0], "FR") && ntok == 9) {
            NC_var *v = mkvar(atoll(tok[5]), atoi(tok[6]), atoll(tok[7]), atoi(tok[8]), 0, lineno % 2);
            nc.numrecs = 2000000000;   /* no numrecs update of the header in this unit test */
            err = fill_var_rec(&nc, v, atoll(tok[4]));
            if (err != NC_NOERR) printf("error %d\n", err);
            else { printf("%lld %lld", w_off, w_cnt); print_buf(); }
            freevar(v);
        }
        else printf("badop\n");
        fflush(stdout);
    }
    MPI_File_close(&fh);
    MPI_Finalize();
    return 0;
}
