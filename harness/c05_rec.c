/*
 * C05 correspondence harness: the record count on every rank and in the file header after every call of a
 * history of collective / independent / nonblocking writes to record variables, mode switches, syncs,
 * redefinitions.
 *
 *   mpiexec -n N c05_rec <script> <outdir>
 *
 * Script (the same lines are interpreted by the Lean driver c05drv over Model/NumRecs.lean):
 *   HIST <id> n=<ranks> nr0=<initial records> fmt=<1|2|5> [aggr=<nc_num_aggrs_per_node>] [tmo=<s>]
 *   putAll | V <recEnd> | Z | E | D | ...            one input per rank (V: writes record recEnd-1)
 *   vardAll | V <ext> | N <ext> | E | ...
 *   putIndep <rank> <recEnd>
 *   iput <rank> <id> <isRec 0|1> <recEnd>
 *   waitAll | A | L <id> <id> .. | ...              A = NC_REQ_ALL, L = explicit list (may be empty)
 *   wait <rank> A | wait <rank> L <id> ..
 *   fillRec | <recno> | <recno> ...
 *   beginIndep | endIndep | sync | syncNumrecs | redef | reopen
 *   END
 * Output, <outdir>/out.<rank>:   S <hist> <opindex> <rank> nr=<ncmpi_inq_dimlen(unlimited)> [hdr=<numrecs field read from the file bytes>] rc=<code>
 *                                H <hist> <opindex> <rank>     (watchdog: the call did not return)
 */
#include <mpi.h>
#include <pnetcdf.h>
#include <stdio.h>
#include <stdlib.h>
#include <string.h>
#include <unistd.h>
#include <signal.h>
#include <fcntl.h>

#define NX 4
#define MAXR 16
#define MAXID 256
static int rank, np;
static FILE *out;
static char cur[64] = "-";
static int opidx = 0;

static void on_sig(int sig)
{
    char line[256];
    int n = snprintf(line, sizeof line, "%c %s %d %d\n", sig == SIGALRM ? 'H' : 'K', cur, opidx, rank);
    if (out) { fflush(out); if (write(fileno(out), line, n) < 0) {} }
    _exit(sig == SIGALRM ? 3 : 4);
}

static long long read_hdr(const char *path, int fmt)
{
    unsigned char b[8]; long long v = 0; int i, len = fmt == 5 ? 8 : 4;
    int fd = open(path, O_RDONLY);
    if (fd < 0) return -1;
    if (pread(fd, b, len, 4) != len) { close(fd); return -2; }
    close(fd);
    for (i = 0; i < len; i++) v = (v << 8) | b[i];
    return v;
}

static int kvi(const char *line, const char *key, int d)
{
    char pat[32]; snprintf(pat, sizeof pat, " %s=", key);
    const char *p = strstr(line, pat);
    return p ? atoi(p + strlen(pat)) : d;
}

int main(int argc, char **argv)
{
    char line[4096], path[600], fn[600];
    MPI_Init(&argc, &argv);
    MPI_Comm_rank(MPI_COMM_WORLD, &rank); MPI_Comm_size(MPI_COMM_WORLD, &np);
    if (argc < 3) { MPI_Finalize(); return 2; }
    signal(SIGALRM, on_sig); signal(SIGTERM, on_sig);
    snprintf(fn, sizeof fn, "%s/out.%d", argv[2], rank);
    out = fopen(fn, "w");
    FILE *sc = fopen(argv[1], "r");
    if (!out || !sc) MPI_Abort(MPI_COMM_WORLD, 2);
    snprintf(path, sizeof path, "%s/hist.nc", argv[2]);
    setenv("PNETCDF_SAFE_MODE", "0", 1);

    int ncid = -1, dt = 0, dx, vr = 0, vq, vs = 0, vf = 0, fmt = 1, tmo = 20, active = 0, naux = 0;
    int reqid[MAXID];
    MPI_Info info = MPI_INFO_NULL;
    static int bufs[MAXID][NX];
    while (fgets(line, sizeof line, sc)) {
        char *nl = strchr(line, '\n'); if (nl) *nl = 0;
        if (!strncmp(line, "HIST ", 5)) {
            int dims[2], nr0 = kvi(line, "nr0", 0), i;
            sscanf(line, "HIST %63s", cur);
            if (kvi(line, "n", np) != np) { active = 0; continue; }
            fmt = kvi(line, "fmt", 1); tmo = kvi(line, "tmo", 20);
            active = 1; opidx = 0; naux = 0;
            for (i = 0; i < MAXID; i++) reqid[i] = NC_REQ_NULL;
            alarm(tmo);
            /* configuration: intra-node write aggregation (blocking collective puts and wait_all then go through ncmpio_intra_node.c) */
            if (info != MPI_INFO_NULL) MPI_Info_free(&info);
            if (kvi(line, "aggr", 0) > 0) {
                char v[16]; snprintf(v, sizeof v, "%d", kvi(line, "aggr", 0));
                MPI_Info_create(&info); MPI_Info_set(info, "nc_num_aggrs_per_node", v);
            }
            ncmpi_create(MPI_COMM_WORLD, path, NC_CLOBBER | (fmt == 5 ? NC_64BIT_DATA : fmt == 2 ? NC_64BIT_OFFSET : 0), info, &ncid);
            ncmpi_def_dim(ncid, "t", NC_UNLIMITED, &dt); ncmpi_def_dim(ncid, "x", NX, &dx);
            dims[0] = dt; dims[1] = dx;
            ncmpi_def_var(ncid, "rvar", NC_INT, 2, dims, &vr); ncmpi_def_var_fill(ncid, vr, 0, NULL);
            ncmpi_def_var(ncid, "qvar", NC_INT, 2, dims, &vq);
            ncmpi_def_var(ncid, "svar", NC_SHORT, 2, dims, &vs);     /* target of the puts with an out-of-range element (class R) */
            ncmpi_def_var(ncid, "fvar", NC_INT, 1, &dims[1], &vf);
            ncmpi_enddef(ncid);
            if (nr0 > 0) {      /* initial records, then close and reopen so that the history starts from a file with nr0 records */
                MPI_Offset st[2] = {nr0 - 1, rank % NX}, ct[2] = {1, 1}; int v = 5;
                ncmpi_put_vara_int_all(ncid, vr, st, ct, &v);
            }
            ncmpi_close(ncid);
            ncmpi_open(MPI_COMM_WORLD, path, NC_WRITE, info, &ncid);
            ncmpi_inq_unlimdim(ncid, &dt); ncmpi_inq_varid(ncid, "rvar", &vr); ncmpi_inq_varid(ncid, "fvar", &vf); ncmpi_inq_varid(ncid, "svar", &vs);
            continue;
        }
        if (!active) continue;
        if (!strncmp(line, "END", 3)) {
            opidx = 9999;
            if (ncid >= 0) ncmpi_close(ncid);
            ncid = -1; active = 0; alarm(0);
            continue;
        }
        /* ---- one op */
        char *parts[MAXR + 1]; int n = 0, rc = 0;
        char *bar = strchr(line, '|');
        while (bar && n < MAXR) { *bar = 0; parts[n++] = bar + 1; bar = strchr(bar + 1, '|'); }
        char op[32]; long a1 = 0, a2 = 0, a3 = 0, a4 = 0;
        char rest[2048] = "";
        int nf = sscanf(line, "%31s %ld %ld %ld %ld", op, &a1, &a2, &a3, &a4);
        (void)nf;
        opidx++;
        alarm(tmo);
        char *mine = (n > rank) ? parts[rank] : NULL;
        char mcls = 0; long marg = 0;
        if (mine) { char c[8] = ""; sscanf(mine, " %7s %ld", c, &marg); mcls = c[0]; strncpy(rest, mine, sizeof rest - 1); }
        int col = rank % NX;
        /* class R = a valid request whose value does not fit the NC_SHORT variable svar: NC_ERANGE is returned, the data are
           written and the record count advances exactly as for NC_NOERR */
        int big = 100000;
        if (!strcmp(op, "putAll")) {
            MPI_Offset st[2] = {(mcls == 'V' || mcls == 'R') ? marg - 1 : 0, col}, ct[2] = {1, 1}; int v = 100 + rank;
            if (mcls == 'Z') ct[0] = 0;
            if (mcls == 'E') ct[1] = NX + 5;
            if (mcls == 'D') rc = ncmpi_put_vara_all(ncid, vr, st, ct, &v, 3, MPI_INT);
            else if (mcls == 'R') { MPI_Offset sd[2] = {1, 1}; rc = (marg % 2) ? ncmpi_put_vara_int_all(ncid, vs, st, ct, &big) : ncmpi_put_vars_int_all(ncid, vs, st, ct, sd, &big); }
            else rc = ncmpi_put_vara_int_all(ncid, vr, st, ct, &v);
        } else if (!strcmp(op, "vardAll")) {
            MPI_Offset recsize = 0, bc = 1; MPI_Datatype ft, bt = MPI_INT, dtp = MPI_DATATYPE_NULL; int bl[1] = {1}; MPI_Aint dp[1]; int v = 200 + rank;
            ncmpi_inq_recsize(ncid, &recsize);
            dp[0] = (MPI_Aint)((mcls == 'E' ? 0 : marg - 1) * recsize + col * (mcls == 'R' ? 2 : 4));
            MPI_Type_create_hindexed(1, bl, dp, mcls == 'R' ? MPI_SHORT : MPI_INT, &ft); MPI_Type_commit(&ft);
            if (mcls == 'N') bc = 0;
            if (mcls == 'E') { MPI_Type_contiguous(1, MPI_INT, &dtp); MPI_Type_commit(&dtp); bt = dtp; bc = NC_COUNT_IGNORE; }
            rc = (mcls == 'R') ? ncmpi_put_vard_all(ncid, vs, ft, &big, 1, MPI_INT) : ncmpi_put_vard_all(ncid, vr, ft, &v, bc, bt);
            MPI_Type_free(&ft); if (dtp != MPI_DATATYPE_NULL) MPI_Type_free(&dtp);
        } else if (!strcmp(op, "putIndep") || !strcmp(op, "vardIndep")) {
            int isR = strstr(line, " R") != NULL, isD = !strcmp(op, "vardIndep");
            if (rank == a1) {
                MPI_Offset st[2] = {a2 - 1, col}, ct[2] = {1, 1}; int v = 300 + rank;
                if (!isD) rc = isR ? ncmpi_put_vara_int(ncid, vs, st, ct, &big) : ncmpi_put_vara_int(ncid, vr, st, ct, &v);
                else {
                    MPI_Offset recsize = 0; MPI_Datatype ft; int bl[1] = {1}; MPI_Aint dp[1];
                    ncmpi_inq_recsize(ncid, &recsize);
                    dp[0] = (MPI_Aint)((a2 - 1) * recsize + col * (isR ? 2 : 4));
                    MPI_Type_create_hindexed(1, bl, dp, isR ? MPI_SHORT : MPI_INT, &ft); MPI_Type_commit(&ft);
                    rc = isR ? ncmpi_put_vard(ncid, vs, ft, &big, 1, MPI_INT) : ncmpi_put_vard(ncid, vr, ft, &v, 1, MPI_INT);
                    MPI_Type_free(&ft);
                }
            }
        } else if (!strcmp(op, "iput")) {
            int isR = strstr(line, " R") != NULL;
            if (rank == a1 && a2 >= 0 && a2 < MAXID) {
                bufs[a2][0] = isR ? big : 400 + (int)a2;
                if (a3) { MPI_Offset st[2] = {a4 - 1, col}, ct[2] = {1, 1}; rc = ncmpi_iput_vara_int(ncid, isR ? vs : vr, st, ct, bufs[a2], &reqid[a2]); }
                else { MPI_Offset st[1] = {col}, ct[1] = {1}; rc = ncmpi_iput_vara_int(ncid, vf, st, ct, bufs[a2], &reqid[a2]); }
            }
        } else if (!strcmp(op, "waitAll") || !strcmp(op, "wait")) {
            int coll = !strcmp(op, "waitAll");
            char *spec = coll ? rest : NULL;
            char wbuf[2048];
            if (!coll) {     /* wait <rank> A | wait <rank> L ids : the selection follows the rank number */
                const char *p = line; int sk = 0;
                while (*p && sk < 2) { while (*p == ' ') p++; while (*p && *p != ' ') p++; sk++; }
                strncpy(wbuf, p, sizeof wbuf - 1); wbuf[sizeof wbuf - 1] = 0; spec = wbuf;
            }
            if (coll || rank == a1) {
                char *tk = strtok(spec, " ");
                if (tk && tk[0] == 'A') rc = coll ? ncmpi_wait_all(ncid, NC_REQ_ALL, NULL, NULL) : ncmpi_wait(ncid, NC_REQ_ALL, NULL, NULL);
                else {
                    int ids[64], sts[64], k = 0;
                    while ((tk = strtok(NULL, " ")) && k < 64) { int sid = atoi(tk); if (sid >= 0 && sid < MAXID) { ids[k++] = reqid[sid]; reqid[sid] = NC_REQ_NULL; } }
                    rc = coll ? ncmpi_wait_all(ncid, k, ids, sts) : ncmpi_wait(ncid, k, ids, sts);
                }
            }
        } else if (!strcmp(op, "fillRec")) {
            rc = ncmpi_fill_var_rec(ncid, vr, mine ? atol(mine) : 0);
        } else if (!strcmp(op, "beginIndep")) rc = ncmpi_begin_indep_data(ncid);
        else if (!strcmp(op, "endIndep")) rc = ncmpi_end_indep_data(ncid);
        else if (!strcmp(op, "sync")) rc = ncmpi_sync(ncid);
        else if (!strcmp(op, "syncNumrecs")) rc = ncmpi_sync_numrecs(ncid);
        else if (!strcmp(op, "redef")) {
            char nm[32]; snprintf(nm, sizeof nm, "att%d", naux++);
            rc = ncmpi_redef(ncid);
            if (rc == NC_NOERR) { int one = 1; ncmpi_put_att_int(ncid, NC_GLOBAL, nm, NC_INT, 1, &one); rc = ncmpi_enddef(ncid); }
        } else if (!strcmp(op, "reopen")) {
            int i;
            rc = ncmpi_close(ncid);
            for (i = 0; i < MAXID; i++) reqid[i] = NC_REQ_NULL;
            ncmpi_open(MPI_COMM_WORLD, path, NC_WRITE, info, &ncid);
            ncmpi_inq_unlimdim(ncid, &dt); ncmpi_inq_varid(ncid, "rvar", &vr); ncmpi_inq_varid(ncid, "fvar", &vf); ncmpi_inq_varid(ncid, "svar", &vs);
        } else rc = -99999;
        MPI_Offset nr = -1;
        ncmpi_inq_dimlen(ncid, dt, &nr);
        if (rank == 0) fprintf(out, "S %s %d %d nr=%lld hdr=%lld rc=%d\n", cur, opidx, rank, (long long)nr, read_hdr(path, fmt), rc);
        else fprintf(out, "S %s %d %d nr=%lld rc=%d\n", cur, opidx, rank, (long long)nr, rc);
        fflush(out);
    }
    fprintf(out, "DONE %d\n", rank); fflush(out);
    fclose(out); fclose(sc);
    MPI_Finalize();
    return 0;
}
