/*
 * C06 unit-level correspondence harness.
 *
 * Includes a copy of <scratch tree>/src/drivers/ncmpio/ncmpio_enddef.c in which checks/c06.py
 * replaced the single line `#define MOVE_UNIT 67108864` by `#define MOVE_UNIT verif_move_unit`
 * (fails closed if that line is not found exactly once), so that the real static functions
 * move_file_block / move_fixed_vars / move_record_vars can be driven with a small MOVE_UNIT and
 * multi-round moves happen on files of a few hundred bytes.  Run under mpiexec with 1..8 ranks.
 *
 *   usage: c06_unit <script> <datafile>
 *   script lines (the same lines go to lean/Driver/C06.lean):
 *     MB <nprocs> <unit> <to> <from> <nbytes> <hexfile>
 *     MF <nprocs> <unit> <nvars> (<oldbegin> <newbegin> <len> <isrec>)* <hexfile>
 *     MR <nprocs> <unit> <newoff> <oldoff> <newrecsize> <oldrecsize> <nrecs> <hexfile>
 *   answer (rank 0, one line per request): hex of the whole file afterwards ("-" = empty)
 */
#include <stdio.h>
#include <stdlib.h>
#include <string.h>
#include <unistd.h>
#include <mpi.h>

static long long verif_move_unit = 67108864;

#include ENDDEF_SRC

#define MAXLINE (1<<20)
static int rank, nprocs;

static void write_hex_file(const char *path, const char *hex)
{
    FILE *fp = fopen(path, "wb");
    if (!fp) { perror("fopen"); MPI_Abort(MPI_COMM_WORLD, 2); }
    if (strcmp(hex, "-")) {
        size_t n = strlen(hex) / 2, i;
        for (i = 0; i < n; i++) {
            unsigned int b;
            sscanf(hex + 2*i, "%2x", &b);
            fputc((int)b, fp);
        }
    }
    fclose(fp);
}

static void print_file_hex(const char *path)
{
    FILE *fp = fopen(path, "rb");
    int c, n = 0;
    if (!fp) { printf("nofile\n"); return; }
    while ((c = fgetc(fp)) != EOF) { printf("%02x", c); n++; }
    if (n == 0) printf("-");
    printf("\n");
    fclose(fp);
}

static NC_var *mkvar(long long begin, long long len, int isrec)
{
    NC_var *v = (NC_var*) calloc(1, sizeof(NC_var));
    v->shape = (MPI_Offset*) calloc(1, sizeof(MPI_Offset));
    v->ndims = 1;
    v->shape[0] = isrec ? NC_UNLIMITED : 7;
    v->begin = begin;
    v->len = len;
    return v;
}

int main(int argc, char **argv)
{
    char *line, *tok[4096];
    FILE *sf;
    int ntok, err;

    MPI_Init(&argc, &argv);
    MPI_Comm_rank(MPI_COMM_WORLD, &rank);
    MPI_Comm_size(MPI_COMM_WORLD, &nprocs);
    alarm(240);
    if (argc < 3) { if (!rank) fprintf(stderr, "usage\n"); MPI_Finalize(); return 2; }
    sf = fopen(argv[1], "r");
    if (!sf) { perror(argv[1]); MPI_Abort(MPI_COMM_WORLD, 2); }
    line = (char*) malloc(MAXLINE);

    while (fgets(line, MAXLINE, sf)) {
        NC nc, old;
        MPI_File fh;
        char *p;
        ntok = 0;
        for (p = strtok(line, " \n"); p && ntok < 4096; p = strtok(NULL, " \n")) tok[ntok++] = p;
        if (ntok == 0) continue;
        if (atoi(tok[1]) != nprocs) { if (!rank) printf("skip\n"); continue; }

        if (rank == 0) write_hex_file(argv[2], tok[ntok-1]);
        MPI_Barrier(MPI_COMM_WORLD);
        err = MPI_File_open(MPI_COMM_WORLD, argv[2], MPI_MODE_RDWR, MPI_INFO_NULL, &fh);
        if (err != MPI_SUCCESS) { fprintf(stderr, "MPI_File_open failed\n"); MPI_Abort(MPI_COMM_WORLD, 3); }

        memset(&nc, 0, sizeof(nc));
        memset(&old, 0, sizeof(old));
        nc.rank = rank; nc.nprocs = nprocs; nc.comm = MPI_COMM_WORLD;
        nc.collective_fh = fh; nc.independent_fh = MPI_FILE_NULL;
        verif_move_unit = atoll(tok[2]);

        if (!strcmp(tok[0], "MB") && ntok == 7) {
            err = move_file_block(&nc, atoll(tok[3]), atoll(tok[4]), atoll(tok[5]));
        }
        else if (!strcmp(tok[0], "MF")) {
            int i, nv = atoi(tok[3]);
            nc.vars.ndefined = old.vars.ndefined = nv;
            nc.vars.value  = (NC_var**) calloc(nv + 1, sizeof(NC_var*));
            old.vars.value = (NC_var**) calloc(nv + 1, sizeof(NC_var*));
            for (i = 0; i < nv; i++) {
                long long ob = atoll(tok[4+4*i]), nb = atoll(tok[5+4*i]), ln = atoll(tok[6+4*i]);
                int isrec = atoi(tok[7+4*i]);
                old.vars.value[i] = mkvar(ob, ln, isrec);
                nc.vars.value[i]  = mkvar(nb, ln, isrec);
            }
            err = move_fixed_vars(&nc, &old);
            for (i = 0; i < nv; i++) {
                free(old.vars.value[i]->shape); free(old.vars.value[i]);
                free(nc.vars.value[i]->shape);  free(nc.vars.value[i]);
            }
            free(nc.vars.value); free(old.vars.value);
        }
        else if (!strcmp(tok[0], "MR") && ntok == 9) {
            nc.begin_rec  = atoll(tok[3]);
            old.begin_rec = atoll(tok[4]);
            nc.recsize    = atoll(tok[5]);
            old.recsize   = atoll(tok[6]);
            nc.numrecs    = atoll(tok[7]);
            err = move_record_vars(&nc, &old);
        }
        else err = -9999;

        MPI_File_close(&fh);
        MPI_Barrier(MPI_COMM_WORLD);
        if (rank == 0) {
            if (err != NC_NOERR) printf("error %d\n", err);
            else print_file_hex(argv[2]);
            fflush(stdout);
        }
        MPI_Barrier(MPI_COMM_WORLD);
    }
    fclose(sf);
    free(line);
    MPI_Finalize();
    return 0;
}
