/*
 * C08 correspondence harness: which MPI collective operations does every rank execute inside
 * each collective PnetCDF API call?
 *
 *   mpiexec -n N c08_coll <script> <outdir>
 *
 * A PMPI shim (below) records, per rank, the sequence of collective MPI calls made while the API
 * under test runs (only operations whose communicator / file group has more than one member,
 * i.e. the file's communicator and the collective file handle; operations on MPI_COMM_SELF
 * handles cannot block on another rank).  Script: one case per line (the same line is fed to the
 * Lean driver c08drv):
 *
 *   CASE <id> <api> <fix|rec> safe=<0|1> hcoll=<0|1> aggr=<0|1> indep=<0|1> nr=<records before> [x=<extra>] | <in rank0> | <in rank1> ...
 *
 * per-rank inputs:  V <row>   valid request touching row/record <row>
 *                   Z         accepted zero-length request
 *                   E <kind>  argument error found by the dispatcher (coords edge stride negcnt notvar global
 *                             echar einval nullstart coordsrec notrec notfill badname)
 *                   D <kind>  argument error found inside the driver (iomis etype)
 *                   P <nput> <nget> <how>   wait_all: requests posted before the call; how = all|list|bad
 *                   I <row>   (indep=1) the rank wrote record <row> independently before the call; I -1 = nothing
 *                   -         no per-rank argument
 *
 * Output (one file per rank, <outdir>/out.<rank>):
 *   R <id> <rank> ret=<code> tr=<tok,tok,..|-> nr=<numrecs after>
 *   D <id> <rank> data=<ok|bad:...>
 *   H <id> <rank> phase=<call|post|close> tr=<tokens entered so far>      (watchdog fired: deadlock)
 */
#include <mpi.h>
#include <pnetcdf.h>
#include <stdio.h>
#include <stdlib.h>
#include <string.h>
#include <unistd.h>
#include <signal.h>
#include <fcntl.h>

/* ------------------------------------------------------------------ PMPI shim */
static int rec_on = 0;
static char tokbuf[8192];
static int toklen = 0;
static void tok(const char *name, int gsize)
{
    if (!rec_on || gsize <= 1) return;
    int n = (int)strlen(name);
    if (toklen + n + 2 >= (int)sizeof(tokbuf)) return;
    if (toklen) tokbuf[toklen++] = ',';
    memcpy(tokbuf + toklen, name, n); toklen += n; tokbuf[toklen] = 0;
}
static int csize(MPI_Comm c) { int n = 1; if (c != MPI_COMM_NULL) PMPI_Comm_size(c, &n); return n; }
static int fsize(MPI_File fh)
{
    MPI_Group g; int n = 1;
    if (fh == MPI_FILE_NULL) return 1;
    if (PMPI_File_get_group(fh, &g) != MPI_SUCCESS) return 1;
    PMPI_Group_size(g, &n); PMPI_Group_free(&g); return n;
}
int MPI_Allreduce(const void *s, void *r, int c, MPI_Datatype t, MPI_Op op, MPI_Comm comm)
{ tok("allreduce", csize(comm)); return PMPI_Allreduce(s, r, c, t, op, comm); }
int MPI_Bcast(void *b, int c, MPI_Datatype t, int root, MPI_Comm comm)
{ tok("bcast", csize(comm)); return PMPI_Bcast(b, c, t, root, comm); }
int MPI_Barrier(MPI_Comm comm)
{ tok("barrier", csize(comm)); return PMPI_Barrier(comm); }
int MPI_Gather(const void *s, int sc, MPI_Datatype st, void *r, int rc, MPI_Datatype rt, int root, MPI_Comm comm)
{ tok("gather", csize(comm)); return PMPI_Gather(s, sc, st, r, rc, rt, root, comm); }
int MPI_Gatherv(const void *s, int sc, MPI_Datatype st, void *r, const int *rc, const int *d, MPI_Datatype rt, int root, MPI_Comm comm)
{ tok("gather", csize(comm)); return PMPI_Gatherv(s, sc, st, r, rc, d, rt, root, comm); }
int MPI_Alltoall(const void *s, int sc, MPI_Datatype st, void *r, int rc, MPI_Datatype rt, MPI_Comm comm)
{ tok("alltoall", csize(comm)); return PMPI_Alltoall(s, sc, st, r, rc, rt, comm); }
int MPI_Comm_dup(MPI_Comm comm, MPI_Comm *n)
{ tok("commDup", csize(comm)); return PMPI_Comm_dup(comm, n); }
int MPI_Comm_split(MPI_Comm comm, int color, int key, MPI_Comm *n)
{ tok("commSplit", csize(comm)); return PMPI_Comm_split(comm, color, key, n); }
int MPI_Comm_free(MPI_Comm *comm)
{ tok("commFree", csize(*comm)); return PMPI_Comm_free(comm); }
int MPI_File_open(MPI_Comm comm, const char *fn, int amode, MPI_Info info, MPI_File *fh)
{ tok("fileOpen", csize(comm)); return PMPI_File_open(comm, fn, amode, info, fh); }
int MPI_File_close(MPI_File *fh)
{ tok("fileClose", fsize(*fh)); return PMPI_File_close(fh); }
int MPI_File_sync(MPI_File fh)
{ tok("fileSync", fsize(fh)); return PMPI_File_sync(fh); }
int MPI_File_set_size(MPI_File fh, MPI_Offset sz)
{ tok("setSize", fsize(fh)); return PMPI_File_set_size(fh, sz); }
int MPI_File_set_view(MPI_File fh, MPI_Offset disp, MPI_Datatype et, MPI_Datatype ft, const char *rep, MPI_Info info)
{ tok("setView", fsize(fh)); return PMPI_File_set_view(fh, disp, et, ft, rep, info); }
int MPI_File_write_at_all(MPI_File fh, MPI_Offset off, const void *b, int c, MPI_Datatype t, MPI_Status *st)
{ tok("writeAll", fsize(fh)); return PMPI_File_write_at_all(fh, off, b, c, t, st); }
int MPI_File_write_all(MPI_File fh, const void *b, int c, MPI_Datatype t, MPI_Status *st)
{ tok("writeAll", fsize(fh)); return PMPI_File_write_all(fh, b, c, t, st); }
int MPI_File_read_at_all(MPI_File fh, MPI_Offset off, void *b, int c, MPI_Datatype t, MPI_Status *st)
{ tok("readAll", fsize(fh)); return PMPI_File_read_at_all(fh, off, b, c, t, st); }
int MPI_File_read_all(MPI_File fh, void *b, int c, MPI_Datatype t, MPI_Status *st)
{ tok("readAll", fsize(fh)); return PMPI_File_read_all(fh, b, c, t, st); }

/* ------------------------------------------------------------------ harness */
#define MAXR 16
#define NX 4
#define NY 32
#define MAXREC 64
typedef struct { char cls; char kind[16]; long a, b; char how[8]; long m[6]; } In;

static int rank, np;
static FILE *out;
static const char *phase = "setup";
static char cur_id[64] = "-";
static MPI_Comm ucomm;

static void emit_hang(int sig)
{
    char line[9000];
    int n = snprintf(line, sizeof line, "%c %s %d phase=%s tr=%s\n", sig == SIGALRM ? 'H' : 'K', cur_id, rank, phase,
                     toklen ? tokbuf : "-");
    if (out) { fflush(out); if (write(fileno(out), line, n) < 0) {} }
    _exit(sig == SIGALRM ? 3 : 4);
}

static int expect_r[MAXREC][NX], have_r[MAXREC][NX];   /* expected image of record variable r */
static int expect_f[NY][NX];
static int val(int seq, int rk, int j) { return 1000 * (seq % 1000) + 10 * (rk + 1) + j; }

static int parse_in(char *s, In *in)
{
    char *t[8]; int n = 0;
    for (char *p = strtok(s, " \t\n"); p && n < 8; p = strtok(NULL, " \t\n")) t[n++] = p;
    memset(in, 0, sizeof *in);
    if (n == 0) return -1;
    in->cls = t[0][0];
    switch (in->cls) {
    case 'V': case 'I': in->a = n > 1 ? atol(t[1]) : 0; break;
    case 'E': case 'D': if (n > 1) strncpy(in->kind, t[1], 15); in->a = n > 2 ? atol(t[2]) : 0;
        { int i; for (i = 0; i < 6; i++) in->m[i] = n > i + 2 ? atol(t[i + 2]) : 0; } break;
    case 'M': { int i; for (i = 0; i < 6; i++) in->m[i] = n > i + 1 ? atol(t[i + 1]) : 0; } break;
    case 'P': in->a = n > 1 ? atol(t[1]) : 0; in->b = n > 2 ? atol(t[2]) : 0; strncpy(in->how, n > 3 ? t[3] : "all", 7); break;
    default: break;
    }
    return 0;
}
static const char *kv(const char *line, const char *key, char *buf, int len)
{
    char pat[32]; snprintf(pat, sizeof pat, " %s=", key);
    const char *p = strstr(line, pat);
    if (!p) return NULL;
    p += strlen(pat);
    int i = 0; while (p[i] && p[i] != ' ' && p[i] != '|' && p[i] != '\n' && i < len - 1) { buf[i] = p[i]; i++; }
    buf[i] = 0; return buf;
}
static int kvi(const char *line, const char *key, int dflt) { char b[64]; return kv(line, key, b, sizeof b) ? atoi(b) : dflt; }

/* blocking collective get/put of every form; returns the API's return code */
static int do_getput(const char *api, int isput, int ncid, int varid, int isrec, In *in, int seq, int nrecs, int *rbuf)
{
    MPI_Offset st[2] = {0, 0}, ct[2] = {1, NX}, sd[2] = {1, 1}, im[2] = {NX, 1};
    int wbuf[NY * NX * 2];
    int *buf = isput ? wbuf : rbuf;
    char tbuf[64];
    int j, vid = varid;
    const char *form = api + 4;             /* put_XXXX / get_XXXX */
    for (j = 0; j < NX; j++) wbuf[j] = val(seq, rank, j);
    st[0] = in->a;
    if (in->cls == 'Z') { ct[0] = 0; st[0] = 0; }
    if (in->cls == 'E') {
        const char *k = in->kind;
        if (!strcmp(k, "coords")) st[1] = NX + 1;
        else if (!strcmp(k, "coordsrec")) st[0] = nrecs + 3;          /* get beyond the last record */
        else if (!strcmp(k, "edge")) ct[1] = NX + 5;
        else if (!strcmp(k, "negcnt")) ct[1] = -1;
        else if (!strcmp(k, "stride")) sd[1] = 0;
        else if (!strcmp(k, "notvar")) vid = 99;
        else if (!strcmp(k, "global")) vid = NC_GLOBAL;
    }
    if (!strcmp(form, "var")) {            /* whole variable */
        int big[MAXREC * NX], i;
        for (i = 0; i < MAXREC * NX; i++) big[i] = isrec ? expect_r[i / NX][i % NX] : expect_f[(i / NX) % NY][i % NX];
        if (isput) return ncmpi_put_var_int_all(ncid, vid, big);
        return ncmpi_get_var_int_all(ncid, vid, big);
    }
    if (in->cls == 'E' && !strcmp(in->kind, "echar")) {
        memset(tbuf, 'a', sizeof tbuf);
        return isput ? ncmpi_put_vara_text_all(ncid, vid, st, ct, tbuf) : ncmpi_get_vara_text_all(ncid, vid, st, ct, tbuf);
    }
    if (!strcmp(form, "vara") && ((in->cls == 'E' && !strcmp(in->kind, "einval")) || (in->cls == 'D' && !strcmp(in->kind, "iomis")))) {
        /* flexible API: NC_COUNT_IGNORE with a derived type -> NC_EINVAL (dispatcher);
           bufcount*buftype != request size -> NC_EIOMISMATCH (driver) */
        MPI_Datatype dt; int rc;
        MPI_Type_contiguous(NX, MPI_INT, &dt); MPI_Type_commit(&dt);
        if (in->cls == 'E')
            rc = isput ? ncmpi_put_vara_all(ncid, vid, st, ct, buf, NC_COUNT_IGNORE, dt) : ncmpi_get_vara_all(ncid, vid, st, ct, buf, NC_COUNT_IGNORE, dt);
        else
            rc = isput ? ncmpi_put_vara_all(ncid, vid, st, ct, buf, 3, MPI_INT) : ncmpi_get_vara_all(ncid, vid, st, ct, buf, 3, MPI_INT);
        MPI_Type_free(&dt);
        return rc;
    }
    if (!strcmp(form, "var1")) {
        if (in->cls == 'Z') return NC_NOERR + 12345;      /* not expressible */
        return isput ? ncmpi_put_var1_int_all(ncid, vid, st, buf) : ncmpi_get_var1_int_all(ncid, vid, st, buf);
    }
    if (!strcmp(form, "vara"))
        return isput ? ncmpi_put_vara_int_all(ncid, vid, st, ct, buf) : ncmpi_get_vara_int_all(ncid, vid, st, ct, buf);
    if (!strcmp(form, "vars"))
        return isput ? ncmpi_put_vars_int_all(ncid, vid, st, ct, sd, buf) : ncmpi_get_vars_int_all(ncid, vid, st, ct, sd, buf);
    if (!strcmp(form, "varm"))
        return isput ? ncmpi_put_varm_int_all(ncid, vid, st, ct, sd, im, buf) : ncmpi_get_varm_int_all(ncid, vid, st, ct, sd, im, buf);
    if (!strcmp(form, "varn")) {
        MPI_Offset s0[2] = {st[0], 0}, s1[2] = {st[0], 2}, c0[2] = {ct[0], 2}, c1[2] = {ct[0], 2};
        MPI_Offset *ss[2] = {s0, s1}, *cc[2] = {c0, c1};
        int num = 2;
        if (in->cls == 'Z') num = 0;
        if (in->cls == 'E') {
            if (!strcmp(in->kind, "nullstart"))
                return isput ? ncmpi_put_varn_int_all(ncid, vid, num, NULL, cc, buf) : ncmpi_get_varn_int_all(ncid, vid, num, NULL, cc, buf);
            s1[1] = st[1] ? st[1] : 2; c1[1] = ct[1] != NX ? ct[1] : 2;
        }
        return isput ? ncmpi_put_varn_int_all(ncid, vid, num, ss, cc, buf) : ncmpi_get_varn_int_all(ncid, vid, num, ss, cc, buf);
    }
    if (!strcmp(form, "vard")) {
        MPI_Offset recsize = 0; MPI_Datatype ft, et = MPI_INT; int bl[1] = {NX}, rc; MPI_Aint dp[1]; MPI_Offset bc = NX;
        MPI_Datatype bt = MPI_INT, dt = MPI_DATATYPE_NULL;
        ncmpi_inq_recsize(ncid, &recsize);
        dp[0] = isrec ? (MPI_Aint)(in->cls == 'Z' ? 0 : st[0]) * recsize : (MPI_Aint)st[0] * NX * 4;
        if (in->cls == 'D' && !strcmp(in->kind, "etype")) et = MPI_FLOAT;
        MPI_Type_create_hindexed(1, bl, dp, et, &ft); MPI_Type_commit(&ft);
        if (in->cls == 'Z') bc = 0;
        if (in->cls == 'D' && !strcmp(in->kind, "iomis")) bc = 3;
        if (in->cls == 'E' && !strcmp(in->kind, "einval")) { MPI_Type_contiguous(NX, MPI_INT, &dt); MPI_Type_commit(&dt); bt = dt; bc = NC_COUNT_IGNORE; }
        rc = isput ? ncmpi_put_vard_all(ncid, vid, ft, buf, bc, bt) : ncmpi_get_vard_all(ncid, vid, ft, buf, bc, bt);
        MPI_Type_free(&ft); if (dt != MPI_DATATYPE_NULL) MPI_Type_free(&dt);
        return rc;
    }
    if (!strcmp(form, "mvara")) {           /* ncmpi_mput_vara_all / ncmpi_mget_vara_all with one variable */
        int vids[1] = {vid}; MPI_Offset *ss[1] = {st}, *cc[1] = {ct}; int *bufs[1] = {buf};
        MPI_Offset bcs[1] = {ct[0] * NX}; MPI_Datatype bts[1] = {MPI_INT};
        int nv = in->cls == 'Z' ? 0 : 1;
        return isput ? ncmpi_mput_vara_all(ncid, nv, vids, ss, cc, (void *const *)bufs, bcs, bts)
                     : ncmpi_mget_vara_all(ncid, nv, vids, ss, cc, (void **)bufs, bcs, bts);
    }
    return -99999;
}

/* one collective metadata call; m = {name, name2, ident, xtype, len, vals} */
static int meta_call(const char *kind, int ncid, long *m, int bad, int munit, int vr, int vf, int nv0, int nv1, int dy, int dx)
{
    char nm[32], nm2[32];
    int ret = -99999;
    if (!strcmp(kind, "putatt")) {
        int varid2 = m[2] == 0 ? NC_GLOBAL : m[2] == 1 ? vr : vf;
        MPI_Offset ne = (MPI_Offset)m[4] * munit, i2;
        int *ab = (int *)malloc((size_t)(ne > 0 ? ne : 1) * sizeof(int));
        for (i2 = 0; i2 < ne; i2++) ab[i2] = (int)(m[5] + (i2 % 1000));
        if (bad) snprintf(nm, sizeof nm, "a/b"); else snprintf(nm, sizeof nm, "att%ld", m[0]);
        if (m[3] == 2) ret = ncmpi_put_att_text(ncid, varid2, nm, ne * 4, (const char *)ab);
        else if (m[3] >= 3) {     /* the flexible API: the in-memory type follows xtype (3: NC_INT, 4: NC_DOUBLE) */
            double *db = (double *)calloc((size_t)(ne > 0 ? ne : 1), sizeof(double));
            for (i2 = 0; i2 < ne; i2++) db[i2] = (double)(m[5] + (i2 % 1000));
            ret = m[3] == 3 ? ncmpi_put_att(ncid, varid2, nm, NC_INT, ne, ab) : ncmpi_put_att(ncid, varid2, nm, NC_DOUBLE, ne, db);
            free(db);
        }
        else ret = ncmpi_put_att_int(ncid, varid2, nm, m[3] == 1 ? NC_DOUBLE : NC_INT, ne, ab);
        free(ab);
    } else if (!strcmp(kind, "defdim")) {
        int nd;
        if (bad) snprintf(nm, sizeof nm, "a/b"); else snprintf(nm, sizeof nm, "dim%ld", m[0]);
        ret = ncmpi_def_dim(ncid, nm, (MPI_Offset)m[4] + 1, &nd);
    } else if (!strcmp(kind, "defvar")) {
        int nv, dd[2];
        dd[0] = (m[5] % 2) ? dx : dy; dd[1] = (m[5] % 2) ? dy : dx;
        if (bad) snprintf(nm, sizeof nm, "a/b"); else snprintf(nm, sizeof nm, "var%ld", m[0]);
        ret = ncmpi_def_var(ncid, nm, m[3] == 1 ? NC_DOUBLE : NC_INT, (int)m[4], dd, &nv);
    } else if (!strcmp(kind, "renamedim")) {
        if (bad) snprintf(nm, sizeof nm, "/"); else snprintf(nm, sizeof nm, "%c", (char)('a' + m[0]));
        ret = ncmpi_rename_dim(ncid, m[2] ? dx : dy, nm);
    } else if (!strcmp(kind, "renameatt")) {
        snprintf(nm, sizeof nm, "att%ld", m[0]);
        if (bad) snprintf(nm2, sizeof nm2, "a/"); else snprintf(nm2, sizeof nm2, "at%c", (char)('a' + m[1]));
        ret = ncmpi_rename_att(ncid, m[2] ? vr : NC_GLOBAL, nm, nm2);
    } else if (!strcmp(kind, "delatt")) {
        snprintf(nm, sizeof nm, "att%ld", m[0]);
        ret = ncmpi_del_att(ncid, m[2] ? vr : NC_GLOBAL, nm);
    } else if (!strcmp(kind, "copyatt")) {
        snprintf(nm, sizeof nm, "att%ld", m[0]);
        ret = ncmpi_copy_att(ncid, NC_GLOBAL, nm, ncid, m[2] ? vf : vr);
    } else if (!strcmp(kind, "setfill")) {
        int oldm;
        ret = ncmpi_set_fill(ncid, m[3] ? NC_FILL : NC_NOFILL, &oldm);
    } else if (!strcmp(kind, "defvarfill")) {
        int fv = (int)m[5];
        ret = ncmpi_def_var_fill(ncid, m[2] ? nv1 : nv0, (int)m[3], m[4] ? &fv : NULL);
    }
    return ret;
}

static void run_case(char *line, const char *outdir, int seq)
{
    char api[32], vk[8], idbuf[64], path[512], *bar, *parts[MAXR + 1];
    In ins[MAXR];
    int i, j, n = 0, ncid = -1, dt, dy, dx, vr, vq, vf, dims[2], ret = 0, isrec, rbuf[MAXREC * NX];
    MPI_Info info;
    MPI_Offset nr = -1;

    if (sscanf(line, "CASE %63s %31s %7s", idbuf, api, vk) != 3) return;
    strcpy(cur_id, idbuf);
    int safe = kvi(line, "safe", 0), hcoll = kvi(line, "hcoll", 0), aggr = kvi(line, "aggr", 0), indep = kvi(line, "indep", 0);
    int nr0 = kvi(line, "nr", 0), tmo = kvi(line, "tmo", 20);
    char xbuf[32]; const char *extra = kv(line, "x", xbuf, sizeof xbuf); if (!extra) extra = "";
    isrec = !strcmp(vk, "rec");
    bar = strchr(line, '|');
    while (bar && n < MAXR) { *bar = 0; parts[n++] = bar + 1; bar = strchr(bar + 1, '|'); }
    if (n != np) { fprintf(out, "X %s %d bad-rank-count %d\n", cur_id, rank, n); fflush(out); return; }
    for (i = 0; i < n; i++) parse_in(parts[i], &ins[i]);
    In *me = &ins[rank];

    memset(have_r, 0, sizeof have_r); memset(expect_r, 0, sizeof expect_r);
    toklen = 0; tokbuf[0] = 0; rec_on = 0;
    phase = "setup"; alarm(tmo);
    setenv("PNETCDF_SAFE_MODE", safe ? "1" : "0", 1);
    MPI_Info_create(&info);
    if (hcoll) MPI_Info_set(info, "romio_no_indep_rw", "true");
    if (aggr) MPI_Info_set(info, "nc_num_aggrs_per_node", "1");
    snprintf(path, sizeof path, "%s/case.nc", outdir);

    if (!strcmp(api, "create")) {
        int cmode = NC_CLOBBER;
        if (me->cls == 'E') cmode |= NC_64BIT_DATA;          /* cmode differs from root's */
        phase = "call"; rec_on = 1;
        ret = ncmpi_create(ucomm, path, cmode, info, &ncid);
        rec_on = 0; phase = "post";
        fprintf(out, "R %s %d ret=%d tr=%s nr=-1\n", cur_id, rank, ret, toklen ? tokbuf : "-"); fflush(out);
        if (ncid >= 0) { ncmpi_enddef(ncid); phase = "close"; ncmpi_close(ncid); }
        MPI_Info_free(&info); alarm(0); return;
    }
    ncmpi_create(ucomm, path, NC_CLOBBER, info, &ncid);
    ncmpi_def_dim(ncid, "t", NC_UNLIMITED, &dt); ncmpi_def_dim(ncid, "y", NY, &dy); ncmpi_def_dim(ncid, "x", NX, &dx);
    dims[0] = dt; dims[1] = dx;
    ncmpi_def_var(ncid, "rvar", NC_INT, 2, dims, &vr); ncmpi_def_var_fill(ncid, vr, 0, NULL);
    ncmpi_def_var(ncid, "qvar", NC_INT, 2, dims, &vq);
    dims[0] = dy; ncmpi_def_var(ncid, "fvar", NC_INT, 2, dims, &vf);
    int munit = !strncmp(extra, "big", 3) ? 65536 : 1;     /* metadata cases: attribute payload unit (big: 4 units = 1 MiB) */
    if (!strncmp(api, "meta_", 5)) {
        int *ab = (int *)calloc((size_t)4 * munit, sizeof(int)), two[2] = {1, 2};
        ncmpi_put_att_int(ncid, NC_GLOBAL, "att1", NC_INT, (MPI_Offset)4 * munit, ab);
        ncmpi_put_att_int(ncid, NC_GLOBAL, "att2", NC_INT, 2, two);
        ncmpi_put_att_int(ncid, vr, "att1", NC_INT, 2, two);
        ncmpi_put_att_int(ncid, vr, "att2", NC_INT, 2, two);
        free(ab);
    }
    ncmpi_enddef(ncid);
    /* populate: rank 0 writes records [0,nr0) of rvar and all of fvar */
    {
        MPI_Offset st[2] = {0, 0}, ct[2] = {rank == 0 ? nr0 : 0, NX};
        int b[MAXREC * NX];
        for (i = 0; i < nr0; i++) for (j = 0; j < NX; j++) { expect_r[i][j] = 7000 + 10 * i + j; b[i * NX + j] = expect_r[i][j]; have_r[i][j] = 1; }
        ncmpi_put_vara_int_all(ncid, vr, st, ct, b);
        ct[0] = rank == 0 ? NY : 0;
        for (i = 0; i < NY; i++) for (j = 0; j < NX; j++) { expect_f[i][j] = 9000 + 10 * i + j; b[i * NX + j] = expect_f[i][j]; }
        ncmpi_put_vara_int_all(ncid, vf, st, ct, b);
    }
    int varid = isrec ? vr : vf;
    int isput = !strncmp(api, "put_", 4), isget = !strncmp(api, "get_", 4);

    if (!strcmp(api, "open")) {
        int omode = NC_WRITE;
        ncmpi_close(ncid);
        if (me->cls == 'E') omode = NC_NOWRITE;               /* omode differs from root's */
        phase = "call"; rec_on = 1;
        ret = ncmpi_open(ucomm, path, omode, info, &ncid);
        rec_on = 0; phase = "post";
        fprintf(out, "R %s %d ret=%d tr=%s nr=-1\n", cur_id, rank, ret, toklen ? tokbuf : "-"); fflush(out);
        if (ncid >= 0) { phase = "close"; ncmpi_close(ncid); }
        MPI_Info_free(&info); alarm(0); return;
    }

    if (isput || isget) {
        phase = "call"; rec_on = 1;
        ret = do_getput(api, isput, ncid, varid, isrec, me, seq, nr0, rbuf);
        rec_on = 0;
        if (isput)      /* expected image after the call: every rank knows every rank's input */
            for (i = 0; i < np; i++) {
                if (!strcmp(api, "put_var")) continue;          /* rewrites the same image */
                if (ins[i].cls != 'V') continue;
                if (safe) { int anyE = 0; for (j = 0; j < np; j++) if (ins[j].cls == 'E') anyE = 1; if (anyE) continue; }
                for (j = 0; j < NX; j++) {
                    int v = val(seq, i, j);
                    if (!strcmp(api, "put_var1") && j > 0) break;
                    if (isrec) { expect_r[ins[i].a][j] = v; have_r[ins[i].a][j] = 1; } else expect_f[ins[i].a][j] = v;
                }
            }
    }
    else if (!strcmp(api, "wait_all")) {
        int reqs[16], sts[16], nq = 0, k, cnt;
        for (k = 0; k < me->a && k < 4; k++) {                 /* iputs: one row each, distinct per rank */
            MPI_Offset st[2] = {isrec ? nr0 + rank * 4 + k : rank * 4 + k, 0}, ct[2] = {1, NX};
            static int wb[16][NX];
            for (j = 0; j < NX; j++) wb[nq][j] = val(seq, rank, j) + 100 * k;
            ncmpi_iput_vara_int(ncid, varid, st, ct, wb[nq], &reqs[nq]); nq++;
        }
        for (i = 0; i < np; i++) for (k = 0; k < ins[i].a && k < 4; k++) {
            int bad = 0; for (j = 0; j < np; j++) if (!strcmp(ins[j].how, "bad")) bad = 1;
            if (bad) continue;
            int row = isrec ? nr0 + i * 4 + k : i * 4 + k;
            for (j = 0; j < NX; j++) { int v = val(seq, i, j) + 100 * k; if (isrec) { expect_r[row][j] = v; have_r[row][j] = 1; } else expect_f[row][j] = v; }
        }
        for (k = 0; k < me->b && nq < 16; k++) {                 /* igets of populated rows of fvar */
            MPI_Offset st[2] = {k % NY, 0}, ct[2] = {1, NX};
            static int gb[16][NX];
            ncmpi_iget_vara_int(ncid, vf, st, ct, gb[k], &reqs[nq]); nq++;
        }
        phase = "call"; rec_on = 1;
        if (!strcmp(me->how, "all")) ret = ncmpi_wait_all(ncid, NC_REQ_ALL, NULL, NULL);
        else {
            cnt = nq;
            if (!strcmp(me->how, "bad")) reqs[cnt++] = 98764;    /* no such request */
            ret = ncmpi_wait_all(ncid, cnt, reqs, sts);
        }
        rec_on = 0;
    }
    else if (!strncmp(api, "meta_", 5)) {
        /* collective metadata calls; per-rank input `M name name2 ident xtype len vals` (numbers -> concrete arguments in
           meta_call below) or `E badname name name2 ident xtype len vals` (the same with an illegal name) */
        const char *kind = api + 5;
        int dm = kvi(line, "dm", 0), bad = (me->cls == 'E'), nv0 = vr, nv1 = vq;
        if (!dm) {
            ncmpi_redef(ncid);
            if (!strcmp(kind, "defvarfill")) {      /* fill values can only be given to variables without data */
                int d2[2] = {dy, dx};
                ncmpi_def_var(ncid, "nv0", NC_INT, 2, d2, &nv0); ncmpi_def_var(ncid, "nv1", NC_INT, 2, d2, &nv1);
            }
        }
        phase = "call"; rec_on = 1;
        ret = meta_call(kind, ncid, me->m, bad, munit, vr, vf, nv0, nv1, dy, dx);
        rec_on = 0; phase = "post";
        /* without safe mode a rank whose argument was refused has not changed its header: repeat the call with the legal
           name so that the ranks agree again before the collective calls that follow */
        if (bad && !safe) meta_call(kind, ncid, me->m, 0, munit, vr, vf, nv0, nv1, dy, dx);
        if (!dm) ncmpi_enddef(ncid);
    }
    else if (!strcmp(api, "fill_var_rec")) {
        int vid = vr; MPI_Offset recno = me->a;
        if (me->cls == 'E') { if (!strcmp(me->kind, "notrec")) vid = vf; else if (!strcmp(me->kind, "notfill")) vid = vq; else if (!strcmp(me->kind, "notvar")) vid = 99; recno = 0; }
        phase = "call"; rec_on = 1;
        ret = ncmpi_fill_var_rec(ncid, vid, recno);
        rec_on = 0;
        /* expected image: ranks with valid input fill record me->a of rvar with the default fill value */
        {
            int allv = 1, same = 1; for (i = 0; i < np; i++) { if (ins[i].cls != 'V') allv = 0; if (ins[i].a != ins[0].a) same = 0; }
            if (allv && same) for (j = 0; j < NX; j++) { expect_r[ins[0].a][j] = NC_FILL_INT; have_r[ins[0].a][j] = 1; }
        }
    }
    else {
        /* mode / metadata calls */
        if (indep || !strcmp(api, "end_indep")) {
            ncmpi_begin_indep_data(ncid);
            if (me->cls == 'I' && me->a >= 0) {
                MPI_Offset st[2] = {me->a, 0}, ct[2] = {1, NX}; int b[NX];
                for (j = 0; j < NX; j++) b[j] = val(seq, rank, j);
                ncmpi_put_vara_int(ncid, vr, st, ct, b);
            }
            for (i = 0; i < np; i++) if (ins[i].cls == 'I' && ins[i].a >= 0) for (j = 0; j < NX; j++) { expect_r[ins[i].a][j] = val(seq, i, j); have_r[ins[i].a][j] = 1; }
        }
        if (!strcmp(api, "enddef") || !strcmp(api, "enddef_")) {
            int nv, d2[2];
            ncmpi_redef(ncid);
            if (!strcmp(extra, "bigatt")) { char *big = (char *)calloc(1, 3000); memset(big, 'z', 2999); ncmpi_put_att_text(ncid, NC_GLOBAL, "pad", 2999, big); free(big); }
            if (!strcmp(extra, "addfix")) { d2[0] = dy; d2[1] = dx; ncmpi_def_var(ncid, "fnew", NC_INT, 2, d2, &nv); }
            if (!strcmp(extra, "addfixfill")) { d2[0] = dy; d2[1] = dx; ncmpi_def_var(ncid, "fnew", NC_INT, 2, d2, &nv); ncmpi_def_var_fill(ncid, nv, 0, NULL); }
            if (!strcmp(extra, "addrec")) { d2[0] = dt; d2[1] = dx; ncmpi_def_var(ncid, "rnew", NC_INT, 2, d2, &nv); }
            /* new variables in fill mode with fewer elements than ranks: some ranks get an empty share of the fill */
            if (!strcmp(extra, "addtinyfill")) { int d1; ncmpi_def_dim(ncid, "one", 1, &d1); ncmpi_def_var(ncid, "tiny", NC_INT, 1, &d1, &nv); ncmpi_def_var_fill(ncid, nv, 0, NULL); }
            if (!strcmp(extra, "addrecfill")) { d2[0] = dt; ncmpi_def_var(ncid, "rnew1", NC_INT, 1, d2, &nv); ncmpi_def_var_fill(ncid, nv, 0, NULL); }
        }
        if (!strcmp(api, "close_def")) ncmpi_redef(ncid);
        int is_enddef = !strcmp(api, "enddef") || !strcmp(api, "enddef_") || !strcmp(api, "close_def");
        MPI_Offset o_ext = 0, o_rs = 0, o_nr = 0, o_off[3] = {0, 0, 0};
        if (is_enddef) {       /* layout before the call, through the public inquiry API (old header: vars 0..2) */
            ncmpi_inq_header_extent(ncid, &o_ext); ncmpi_inq_recsize(ncid, &o_rs); ncmpi_inq_dimlen(ncid, dt, &o_nr);
            ncmpi_inq_varoffset(ncid, vr, &o_off[0]); ncmpi_inq_varoffset(ncid, vq, &o_off[1]); ncmpi_inq_varoffset(ncid, vf, &o_off[2]);
        }
        if (is_enddef && rank == 0 && !extra[0]) {      /* nothing was redefined: new layout = old layout */
            MPI_Offset obr = o_off[0] < o_off[1] ? o_off[0] : o_off[1];
            fprintf(out, "L %s lay=%d:%lld:%lld:%lld:%lld:%lld:%lld:%lld:3:0:1:%lld-%lld-%d\n", cur_id, np,
                    (long long)o_ext, (long long)o_ext, (long long)obr, (long long)obr, (long long)o_rs, (long long)o_rs,
                    (long long)o_nr, (long long)o_off[2], (long long)o_off[2], NY * NX * 4);
            fflush(out);
        }
        phase = "call"; rec_on = 1;
        if (!strcmp(api, "sync")) ret = ncmpi_sync(ncid);
        else if (!strcmp(api, "sync_numrecs")) ret = ncmpi_sync_numrecs(ncid);
        else if (!strcmp(api, "begin_indep")) ret = ncmpi_begin_indep_data(ncid);
        else if (!strcmp(api, "end_indep")) ret = ncmpi_end_indep_data(ncid);
        else if (!strcmp(api, "redef")) ret = ncmpi_redef(ncid);
        else if (!strcmp(api, "enddef")) ret = ncmpi_enddef(ncid);
        else if (!strcmp(api, "enddef_")) {
            MPI_Offset hm = 0, va = 0;
            if (me->cls == 'E' && !strcmp(me->kind, "einval")) hm = -1;       /* negative h_minfree */
            if (me->cls == 'E' && !strcmp(me->kind, "multi")) va = 1024;      /* v_align differs from root's */
            ret = ncmpi__enddef(ncid, hm, va, 0, 0);
        }
        else if (!strcmp(api, "rename_var")) {
            const char *nm = "rv";
            if (me->cls == 'E' && !strcmp(me->kind, "badname")) nm = "a/b";
            if (me->cls == 'E' && !strcmp(me->kind, "multi")) nm = "rw";     /* legal but different from root's */
            ret = ncmpi_rename_var(ncid, vr, nm);
        }
        else if (!strcmp(api, "close") || !strcmp(api, "close_def")) { ret = ncmpi_close(ncid); ncid = -1; }
        else ret = -99999;
        rec_on = 0;
        if (!strcmp(api, "redef")) ncmpi_enddef(ncid);
        if ((!strcmp(api, "enddef") || !strcmp(api, "enddef_")) && ret != NC_NOERR) ncmpi_enddef(ncid);
        if (is_enddef && rank == 0 && extra[0]) {
            /* old layout was recorded while in define mode: inq_* then still report the values of the previous
               enddef (begins are recomputed in NC_begins only).  New layout: after the call. */
            MPI_Offset n_ext = o_ext, n_rs = o_rs, n_off[4] = {o_off[0], o_off[1], o_off[2], 0}, nbr, obr;
            int nv = 3, k;
            if (ncid >= 0) {
                ncmpi_inq_nvars(ncid, &nv); ncmpi_inq_header_extent(ncid, &n_ext); ncmpi_inq_recsize(ncid, &n_rs);
                for (k = 0; k < nv && k < 4; k++) ncmpi_inq_varoffset(ncid, k, &n_off[k]);
            }
            obr = o_off[0] < o_off[1] ? o_off[0] : o_off[1];
            nbr = n_off[0] < n_off[1] ? n_off[0] : n_off[1];
            if ((!strcmp(extra, "addrec") || !strcmp(extra, "addrecfill")) && n_off[3] < nbr) nbr = n_off[3];
            fprintf(out, "L %s lay=%d:%lld:%lld:%lld:%lld:%lld:%lld:%lld:%d:%d:1:%lld-%lld-%d\n", cur_id, np,
                    (long long)o_ext, (long long)n_ext, (long long)obr, (long long)nbr, (long long)o_rs, (long long)n_rs,
                    (long long)o_nr, nv,
                    /* fillerup_aggregate does its collective write iff there is at least one fill segment: one per new fixed-size
                       variable in fill mode, one per existing record of a new record variable in fill mode */
                    (!strcmp(extra, "addfixfill") || !strcmp(extra, "addtinyfill") || (!strcmp(extra, "addrecfill") && o_nr > 0)),
                    (long long)o_off[2], (long long)n_off[2], NY * NX * 4);
            fflush(out);
        }
    }
    phase = "post";
    if (ncid >= 0) ncmpi_inq_dimlen(ncid, dt, &nr);
    fprintf(out, "R %s %d ret=%d tr=%s nr=%lld\n", cur_id, rank, ret, toklen ? tokbuf : "-", (long long)nr); fflush(out);

    /* others_stored: every rank reads back the whole of rvar and fvar collectively and compares with the image implied
       by the inputs of the ranks whose request was valid -- first in the same session, then (what a reader of the
       file sees) after close + a fresh open, together with the raw numrecs field of the header */
    if (ncid >= 0) {
        char msg[160] = "ok", hmsg[160] = "";
        int flags = 0, pass;
        MPI_Offset nr_session = 0;
        ncmpi_inq(ncid, NULL, NULL, NULL, NULL);
        /* leave independent mode if the case left us there */
        ncmpi_end_indep_data(ncid);
        for (pass = 0; pass < 2 && !flags; pass++) {
            const char *tag = pass ? "reopen:" : "";
            if (pass) {
                long long hdr = -1;
                phase = "close";
                ncmpi_close(ncid); ncid = -1;
                if (rank == 0) {            /* CDF-1: numrecs = 4 bytes big-endian at offset 4 */
                    unsigned char hb[4]; int fd = open(path, O_RDONLY);
                    if (fd >= 0) { if (pread(fd, hb, 4, 4) == 4) hdr = ((long long)hb[0] << 24) | (hb[1] << 16) | (hb[2] << 8) | hb[3]; close(fd); }
                    /* only rank 0 sees this: it keeps taking part in the collective reads below and reports at the end */
                    if (hdr != (long long)nr_session) snprintf(hmsg, sizeof hmsg, "bad:header-numrecs=%lld-but-ranks-reported-%lld", hdr, (long long)nr_session);
                }
                phase = "reopen";
                if (ncmpi_open(ucomm, path, NC_NOWRITE, MPI_INFO_NULL, &ncid) != NC_NOERR) { snprintf(msg, sizeof msg, "bad:reopen-failed"); flags = 1; ncid = -1; break; }
            }
            ncmpi_inq_dimlen(ncid, dt, &nr);
            if (!pass) nr_session = nr;
            else if (nr != nr_session) { snprintf(msg, sizeof msg, "bad:reopen:numrecs=%lld-but-%lld-before-close", (long long)nr, (long long)nr_session); flags = 1; break; }
            if (nr > 0 && nr <= MAXREC) {
                MPI_Offset st[2] = {0, 0}, ct[2] = {nr, NX};
                int e = ncmpi_get_vara_int_all(ncid, vr, st, ct, rbuf);
                if (e != NC_NOERR) snprintf(msg, sizeof msg, "bad:%sget-rvar-%d", tag, e);
                else for (i = 0; i < nr && !flags; i++) for (j = 0; j < NX; j++)
                    if (have_r[i][j] && rbuf[i * NX + j] != expect_r[i][j]) { snprintf(msg, sizeof msg, "bad:%srvar[%d][%d]=%d,expected-%d", tag, i, j, rbuf[i * NX + j], expect_r[i][j]); flags = 1; break; }
            }
            for (i = 0; i < MAXREC && !flags; i++) if (have_r[i][0] && i >= nr) { snprintf(msg, sizeof msg, "bad:%srecord-%d-written-but-numrecs=%lld", tag, i, (long long)nr); flags = 1; }
            if (!flags) {
                MPI_Offset st[2] = {0, 0}, ct[2] = {NY, NX};
                int e = ncmpi_get_vara_int_all(ncid, vf, st, ct, rbuf);
                if (e != NC_NOERR) snprintf(msg, sizeof msg, "bad:%sget-fvar-%d", tag, e);
                else for (i = 0; i < NY && !flags; i++) for (j = 0; j < NX; j++)
                    if (rbuf[i * NX + j] != expect_f[i][j]) { snprintf(msg, sizeof msg, "bad:%sfvar[%d][%d]=%d,expected-%d", tag, i, j, rbuf[i * NX + j], expect_f[i][j]); flags = 1; break; }
            }
        }
        if (hmsg[0] && !strcmp(msg, "ok")) strcpy(msg, hmsg);
        fprintf(out, "D %s %d data=%s\n", cur_id, rank, msg); fflush(out);
        phase = "close";
        if (ncid >= 0) ncmpi_close(ncid);
    }
    MPI_Info_free(&info);
    alarm(0);
}

int main(int argc, char **argv)
{
    char line[4096], fn[600];
    int seq = 0;
    MPI_Init(&argc, &argv);
    MPI_Comm_rank(MPI_COMM_WORLD, &rank); MPI_Comm_size(MPI_COMM_WORLD, &np);
    if (argc < 3) { if (!rank) fprintf(stderr, "usage: c08_coll script outdir\n"); MPI_Finalize(); return 2; }
    signal(SIGALRM, emit_hang); signal(SIGTERM, emit_hang);
    PMPI_Comm_dup(MPI_COMM_WORLD, &ucomm);
    snprintf(fn, sizeof fn, "%s/out.%d", argv[2], rank);
    out = fopen(fn, "w");
    FILE *sc = fopen(argv[1], "r");
    if (!out || !sc) { fprintf(stderr, "cannot open files\n"); MPI_Abort(MPI_COMM_WORLD, 2); }
    while (fgets(line, sizeof line, sc)) {
        if (strncmp(line, "CASE ", 5)) continue;
        seq++;
        run_case(line, argv[2], seq);
    }
    fprintf(out, "END %d\n", rank); fflush(out);
    fclose(out); fclose(sc);
    PMPI_Comm_free(&ucomm);
    MPI_Finalize();
    return 0;
}
