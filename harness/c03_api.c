/*
 * C03 public-API harness: executes define/redefine/write scripts against the real library.
 *
 *   usage: c03_api <script-file> <output-prefix>          (every rank executes the same script)
 *   one answer line per script line in <output-prefix>.<rank>:   "<op> <err> [values]"
 *
 *   create <path> <fmt 1|2|5> <envH> <envV> <envR> <noclobber 0|1>   hints 0 = not set
 *   open   <path> <write 0|1> <envH> <envV> <envR>
 *   defdim <namehex> <size>            -> defdim <err> <dimid>
 *   defvar <namehex> <type> <ndims> <dimid>*   -> defvar <err> <varid>
 *   putatt <varid|-1> <namehex> <type> <nelems> <valuehex big-endian>
 *   delatt <varid|-1> <namehex>      renatt <varid|-1> <oldhex> <newhex>
 *   renvar <varid> <newhex>          rendim <dimid> <newhex>
 *   enddef | enddef4 <h_minfree> <v_align> <v_minfree> <r_align> | redef | sync | close
 *   putvar <varid> <hex>             whole fixed-size variable (rank 0 writes, the others take part with zero counts)
 *   putrec <varid> <rec> <hex>       one record of a record variable
 *   acc <put|get> <varid> <ndims> <start>*nd <count>*nd <stride>*nd|- [<hex>]
 *                                    blocking collective sub-array / strided access (ncmpi_put_vars_all / ncmpi_get_vars_all,
 *                                    flexible API); put: rank 0 writes, the others take part with zero counts; get: every
 *                                    rank reads and answers  acc <err> <hex big-endian>
 *   inq    -> inq <err> <header_size> <header_extent> <recsize> <numrecs|-1> <nvars> <varoffset>*
 *   snap <path>  -> snap 0 <size> <hex of the whole file>     (barrier, then rank 0 reads the file with POSIX calls)
 */
#include <stdio.h>
#include <stdlib.h>
#include <string.h>
#include <unistd.h>
#include <sys/resource.h>
#include <mpi.h>
#include <pnetcdf.h>

#define MAXTOK 4096
static char *tok[MAXTOK];
static int ntok;

static size_t unhex(const char *s, unsigned char *out) {
    size_t n = 0;
    if (strcmp(s, "-") == 0) return 0;
    while (s[0] && s[1]) {
        unsigned v; sscanf(s, "%2x", &v); out[n++] = (unsigned char)v; s += 2;
    }
    return n;
}
static char *cstr(const char *hex) {
    static char bufs[4][2048]; static int k = 0;
    char *b = bufs[k = (k + 1) % 4];
    size_t n = unhex(hex, (unsigned char*)b);
    b[n] = 0;
    return b;
}
static int tsize(int t) {
    switch (t) { case 1: case 2: case 7: return 1; case 3: case 8: return 2; case 4: case 5: case 9: return 4; default: return 8; }
}
static MPI_Datatype mtype(int t) {
    switch (t) {
        case NC_BYTE: return MPI_SIGNED_CHAR; case NC_CHAR: return MPI_CHAR; case NC_SHORT: return MPI_SHORT;
        case NC_INT: return MPI_INT; case NC_FLOAT: return MPI_FLOAT; case NC_DOUBLE: return MPI_DOUBLE;
        case NC_UBYTE: return MPI_UNSIGNED_CHAR; case NC_USHORT: return MPI_UNSIGNED_SHORT; case NC_UINT: return MPI_UNSIGNED;
        case NC_INT64: return MPI_LONG_LONG_INT; default: return MPI_UNSIGNED_LONG_LONG;
    }
}
/* big-endian external bytes -> native little-endian elements */
static void be2native(unsigned char *p, size_t nbytes, int sz) {
    size_t i; int k;
    for (i = 0; i + sz <= nbytes; i += sz)
        for (k = 0; k < sz / 2; k++) { unsigned char t = p[i + k]; p[i + k] = p[i + sz - 1 - k]; p[i + sz - 1 - k] = t; }
}
static MPI_Info mkinfo(const char *h, const char *v, const char *r) {
    MPI_Info info;
    MPI_Info_create(&info);
    if (strcmp(h, "0")) MPI_Info_set(info, "nc_header_align_size", h);
    if (strcmp(v, "0")) MPI_Info_set(info, "nc_var_align_size", v);
    if (strcmp(r, "0")) MPI_Info_set(info, "nc_record_align_size", r);
    return info;
}

int main(int argc, char **argv) {
    int rank, ncid = -1;
    static char line[1 << 22];
    char outname[4096];
    FILE *in, *out;
    MPI_Init(&argc, &argv);
    MPI_Comm_rank(MPI_COMM_WORLD, &rank);
    { struct rlimit rl; rl.rlim_cur = rl.rlim_max = (rlim_t)6 << 30; setrlimit(RLIMIT_AS, &rl); }
    if (argc < 3) { fprintf(stderr, "usage\n"); MPI_Abort(MPI_COMM_WORLD, 2); }
    in = fopen(argv[1], "r");
    snprintf(outname, sizeof outname, "%s.%d", argv[2], rank);
    out = fopen(outname, "w");
    if (!in || !out) { fprintf(stderr, "cannot open\n"); MPI_Abort(MPI_COMM_WORLD, 2); }
    while (fgets(line, sizeof line, in)) {
        char *p; const char *op; int err = 0;
        ntok = 0;
        for (p = strtok(line, " \n"); p && ntok < MAXTOK; p = strtok(NULL, " \n")) tok[ntok++] = p;
        if (ntok == 0) { fprintf(out, "empty 0\n"); continue; }
        op = tok[0];
        alarm(10);
        if (!strcmp(op, "create")) {
            int fmt = atoi(tok[2]), cmode = atoi(tok[6]) ? NC_NOCLOBBER : NC_CLOBBER;
            MPI_Info info = mkinfo(tok[3], tok[4], tok[5]);
            if (fmt == 2) cmode |= NC_64BIT_OFFSET; else if (fmt == 5) cmode |= NC_64BIT_DATA;
            err = ncmpi_create(MPI_COMM_WORLD, tok[1], cmode, info, &ncid);
            MPI_Info_free(&info);
            fprintf(out, "create %d\n", err);
        } else if (!strcmp(op, "open")) {
            MPI_Info info = mkinfo(tok[3], tok[4], tok[5]);
            err = ncmpi_open(MPI_COMM_WORLD, tok[1], atoi(tok[2]) ? NC_WRITE : NC_NOWRITE, info, &ncid);
            MPI_Info_free(&info);
            fprintf(out, "open %d\n", err);
        } else if (!strcmp(op, "defdim")) {
            int id = -1;
            err = ncmpi_def_dim(ncid, cstr(tok[1]), (MPI_Offset)atoll(tok[2]), &id);
            fprintf(out, "defdim %d %d\n", err, id);
        } else if (!strcmp(op, "defvar")) {
            int id = -1, nd = atoi(tok[3]), ids[64], i;
            for (i = 0; i < nd && i < 64; i++) ids[i] = atoi(tok[4 + i]);
            err = ncmpi_def_var(ncid, cstr(tok[1]), (nc_type)atoi(tok[2]), nd, ids, &id);
            fprintf(out, "defvar %d %d\n", err, id);
        } else if (!strcmp(op, "putatt")) {
            int t = atoi(tok[3]); MPI_Offset n = atoll(tok[4]);
            unsigned char *buf = malloc(strlen(tok[5]) / 2 + 16);
            size_t nb = unhex(tok[5], buf);
            be2native(buf, nb, tsize(t));
            if (t == NC_CHAR) err = ncmpi_put_att_text(ncid, atoi(tok[1]), cstr(tok[2]), n, (char*)buf);
            else err = ncmpi_put_att(ncid, atoi(tok[1]), cstr(tok[2]), (nc_type)t, n, buf);
            free(buf);
            fprintf(out, "putatt %d\n", err);
        } else if (!strcmp(op, "delatt")) {
            err = ncmpi_del_att(ncid, atoi(tok[1]), cstr(tok[2]));
            fprintf(out, "delatt %d\n", err);
        } else if (!strcmp(op, "renatt")) {
            err = ncmpi_rename_att(ncid, atoi(tok[1]), cstr(tok[2]), cstr(tok[3]));
            fprintf(out, "renatt %d\n", err);
        } else if (!strcmp(op, "renvar")) {
            err = ncmpi_rename_var(ncid, atoi(tok[1]), cstr(tok[2]));
            fprintf(out, "renvar %d\n", err);
        } else if (!strcmp(op, "rendim")) {
            err = ncmpi_rename_dim(ncid, atoi(tok[1]), cstr(tok[2]));
            fprintf(out, "rendim %d\n", err);
        } else if (!strcmp(op, "enddef")) {
            err = ncmpi_enddef(ncid); fprintf(out, "enddef %d\n", err);
        } else if (!strcmp(op, "enddef4")) {
            err = ncmpi__enddef(ncid, atoll(tok[1]), atoll(tok[2]), atoll(tok[3]), atoll(tok[4]));
            fprintf(out, "enddef4 %d\n", err);
        } else if (!strcmp(op, "redef")) {
            err = ncmpi_redef(ncid); fprintf(out, "redef %d\n", err);
        } else if (!strcmp(op, "sync")) {
            err = ncmpi_sync(ncid); fprintf(out, "sync %d\n", err);
        } else if (!strcmp(op, "close")) {
            err = ncmpi_close(ncid); ncid = -1; fprintf(out, "close %d\n", err);
        } else if (!strcmp(op, "putvar") || !strcmp(op, "putrec")) {
            int isrec = !strcmp(op, "putrec");
            int varid = atoi(tok[1]), nd, dimids[64], i, unlim = -1; nc_type t;
            MPI_Offset start[64], count[64], n = 1;
            const char *hexs = tok[isrec ? 3 : 2];
            unsigned char *buf = malloc(strlen(hexs) / 2 + 16);
            size_t nb = unhex(hexs, buf);
            err = ncmpi_inq_var(ncid, varid, NULL, &t, &nd, dimids, NULL);
            ncmpi_inq_unlimdim(ncid, &unlim);
            for (i = 0; i < nd && err == NC_NOERR; i++) {
                MPI_Offset len;
                err = ncmpi_inq_dimlen(ncid, dimids[i], &len);
                start[i] = 0; count[i] = len;
                if (isrec && i == 0) { start[i] = atoll(tok[2]); count[i] = 1; }
                n *= count[i];
            }
            if (err == NC_NOERR) {
                be2native(buf, nb, tsize(t));
                if (rank != 0) { for (i = 0; i < nd; i++) count[i] = 0; n = 0; if (nd == 0) n = 0; }
                if (nd == 0 && rank != 0) {
                    /* a scalar cannot take a zero count: every rank writes the same value */
                    n = 1;
                }
                err = ncmpi_put_vara_all(ncid, varid, start, count, buf, n, mtype(t));
            }
            free(buf);
            fprintf(out, "%s %d\n", op, err);
        } else if (!strcmp(op, "acc")) {
            int isput = !strcmp(tok[1], "put");
            int varid = atoi(tok[2]), nd = atoi(tok[3]), i, havestride; nc_type t;
            MPI_Offset start[64], count[64], stride[64], n = 1;
            unsigned char *buf;
            for (i = 0; i < nd; i++) { start[i] = atoll(tok[4 + i]); count[i] = atoll(tok[4 + nd + i]); n *= count[i]; }
            havestride = strcmp(tok[4 + 2 * nd], "-") != 0;
            if (havestride) for (i = 0; i < nd; i++) stride[i] = atoll(tok[4 + 2 * nd + i]);
            err = ncmpi_inq_vartype(ncid, varid, &t);
            buf = calloc((size_t)n + 2, 8);
            if (err == NC_NOERR && isput) {
                const char *hexs = tok[4 + 2 * nd + (havestride ? nd : 1)];
                size_t nb = unhex(hexs, buf);
                be2native(buf, nb, tsize(t));
                if (rank != 0) { for (i = 0; i < nd; i++) count[i] = 0; n = 0; }
                err = ncmpi_put_vars_all(ncid, varid, start, count, havestride ? stride : NULL, buf, n, mtype(t));
                fprintf(out, "acc %d\n", err);
            } else if (err == NC_NOERR) {
                err = ncmpi_get_vars_all(ncid, varid, start, count, havestride ? stride : NULL, buf, n, mtype(t));
                be2native(buf, (size_t)n * tsize(t), tsize(t));      /* the swap is its own inverse */
                fprintf(out, "acc %d ", err);
                if (n == 0) fputc('-', out);
                for (i = 0; i < n * tsize(t); i++) fprintf(out, "%02x", buf[i]);
                fputc('\n', out);
            } else fprintf(out, "acc %d\n", err);
            free(buf);
        } else if (!strcmp(op, "inq")) {
            MPI_Offset hs = -1, he = -1, rs = -1, nr = -1; int nv = 0, i, unlim = -1;
            err = ncmpi_inq_header_size(ncid, &hs);
            if (!err) err = ncmpi_inq_header_extent(ncid, &he);
            if (!err) err = ncmpi_inq_recsize(ncid, &rs);
            if (!err) err = ncmpi_inq_nvars(ncid, &nv);
            if (!err) err = ncmpi_inq_unlimdim(ncid, &unlim);
            if (!err && unlim >= 0) err = ncmpi_inq_dimlen(ncid, unlim, &nr);
            fprintf(out, "inq %d %lld %lld %lld %lld %d", err, (long long)hs, (long long)he, (long long)rs, (long long)nr, nv);
            for (i = 0; i < nv; i++) { MPI_Offset off = -1; ncmpi_inq_varoffset(ncid, i, &off); fprintf(out, " %lld", (long long)off); }
            fputc('\n', out);
        } else if (!strcmp(op, "snap")) {
            MPI_Barrier(MPI_COMM_WORLD);
            if (rank == 0) {
                FILE *f = fopen(tok[1], "rb");
                if (!f) fprintf(out, "snap -1 0 -\n");
                else {
                    int c; long n = 0;
                    fseek(f, 0, SEEK_END); n = ftell(f); fseek(f, 0, SEEK_SET);
                    fprintf(out, "snap 0 %ld ", n);
                    if (n == 0) fputc('-', out);
                    while ((c = fgetc(f)) != EOF) fprintf(out, "%02x", c);
                    fputc('\n', out);
                    fclose(f);
                }
            } else fprintf(out, "snap 0 0 -\n");
            MPI_Barrier(MPI_COMM_WORLD);
        } else {
            fprintf(out, "unknown-op 0\n");
        }
        fflush(out);
    }
    if (ncid >= 0) ncmpi_close(ncid);
    fclose(out);
    MPI_Finalize();
    return 0;
}
