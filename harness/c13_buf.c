/*
 * C13 correspondence + oracle harness (single process).
 *
 *   CASE <idx> <hint 0=auto 1=enable 2=disable>
 *   A <bytes>                ncmpi_buffer_attach        D   ncmpi_buffer_detach      U   usage/size only
 *   <P|R|I|B|G> <h> <apikind> <needConvert> <needSwap> <contig> <imap> <nbytes> <var> <api a|m|n|d> <mt> <bl> <nsub> {start.. count..}*
 *        P blocking put   R blocking get   I iput   B bput   G iget
 *        api d (P and R only) = ncmpi_put_vard / get_vard; the line continues with
 *            <ft> <coll> <em> … (further tokens are for the model driver only)
 *          ft   how the filetype is built on the variable's element type: 0 MPI_Type_create_subarray (record variables:
 *               hvector over records of a one-record subarray), 1 nested hvector of a contiguous row, 2 one contiguous run
 *          coll 1 = the _all API, 0 = independent API inside begin/end_indep_data
 *          em   0 regular; 1 bufcount+1 (NC_EIOMISMATCH); 2 filetype built on another element type of the same size
 *               (NC_ETYPE_MISMATCH); 3 filetype MPI_DATATYPE_NULL; 4 bufcount 0; 5 filetype of size 0  (3..5: zero-length)
 *   W <n> <h>*  |  W -1      wait_all on the ids of these handles (handles that were never queued are dropped)
 *   X <n> <h>*  |  X -1 | X -3   cancel
 *   S <esize> <nelems> <hexbytes>     ncmpii_in_swapn on a byte string
 *   END
 *
 * Every answer line carries the attached-buffer state read out of `struct NC`
 * (size_allocated:size_used:tail[is_used.req_size …]) and the result of inq_buffer_usage/size;
 * put-like ops also report which buffer the library handed to MPI-IO (PMPI interception for blocking
 * puts, NC_lead_req for nonblocking ones) and whether the user buffer was byte-swapped at that time.
 * "D …" lines are the property oracle: user buffers bit-identical after put / wait / cancel, guard
 * zones, reads touching only the selected bytes, data of a bput = buffer contents at posting time.
 */
#include <stdio.h>
#include <stdlib.h>
#include <string.h>
#include <unistd.h>
#include <mpi.h>
#include <pnetcdf.h>
#include <dispatch.h>
#include "ncmpio_NC.h"

#define MAXH 256
#define MAXSUB 4
#define GUARD 32
#define SLACK 8192
#define NVARS 9

extern void ncmpii_in_swapn(void *buf, MPI_Offset nelems, int esize);

static FILE *out;
static char dir[512];
static int ncid = -1, vid[NVARS], caseidx, sentinel_id = NC_REQ_NULL;
static unsigned char sentinel_buf[64];

static const char *vname[NVARS] = {"vb", "vs", "vi", "vf", "vd", "vl", "v2", "rd", "ri"};
static nc_type vtype[NVARS] = {NC_BYTE, NC_SHORT, NC_INT, NC_FLOAT, NC_DOUBLE, NC_INT64, NC_INT, NC_DOUBLE, NC_INT};
static int vnd[NVARS] = {1, 1, 1, 1, 1, 1, 2, 2, 3};
static MPI_Offset vshape[NVARS][3] = {{16384}, {8192}, {8192}, {4096}, {4096}, {4096}, {64, 64}, {0, 8}, {0, 6, 8}};

typedef struct {
    int used, op, var, api, mt, bl, imap, nsub, apikind;
    int ft, coll, em, nodata, free_ft; MPI_Datatype filetype;   /* vard */
    MPI_Offset st[MAXSUB][3], ct[MAXSUB][3];
    size_t nelems, memelems, esize, bytes;
    unsigned char *mem, *buf, *orig, *keep;   /* keep = what the caller put into the buffer after a bput was posted */
    MPI_Datatype etype, buftype; MPI_Offset bufcount; int free_type;
    int id, queued, state; /* 0 pending 1 completed 2 cancelled */
} Req;
static Req R[MAXH];

/* ---- PMPI interception: which buffer does the library pass to MPI_File_write_at? ---- */
static const unsigned char *watch_buf, *watch_orig; static size_t watch_len; static int seen_user, seen_swapped, seen_other, seen_count;
static void note_write(const void *buf, int count)
{
    if (watch_buf == NULL) return;
    if (buf == (const void *)watch_buf) { seen_user = 1; seen_count = count; if (memcmp(watch_buf, watch_orig, watch_len) != 0) seen_swapped = 1; }
    else seen_other = 1;
}
int MPI_File_write_at(MPI_File fh, MPI_Offset off, const void *buf, int count, MPI_Datatype t, MPI_Status *st)
{ note_write(buf, count); return PMPI_File_write_at(fh, off, buf, count, t, st); }
int MPI_File_write_at_all(MPI_File fh, MPI_Offset off, const void *buf, int count, MPI_Datatype t, MPI_Status *st)
{ note_write(buf, count); return PMPI_File_write_at_all(fh, off, buf, count, t, st); }
int MPI_File_write(MPI_File fh, const void *buf, int count, MPI_Datatype t, MPI_Status *st)
{ note_write(buf, count); return PMPI_File_write(fh, buf, count, t, st); }
int MPI_File_write_all(MPI_File fh, const void *buf, int count, MPI_Datatype t, MPI_Status *st)
{ note_write(buf, count); return PMPI_File_write_all(fh, buf, count, t, st); }
/* reads: does MPI-IO fill the caller's buffer directly? (watched for get_vard only) */
static const unsigned char *rwatch_buf; static int rseen_user;
static void note_read(void *buf) { if (rwatch_buf != NULL && buf == (void *)rwatch_buf) rseen_user = 1; }
int MPI_File_read_at(MPI_File fh, MPI_Offset off, void *buf, int count, MPI_Datatype t, MPI_Status *st)
{ note_read(buf); return PMPI_File_read_at(fh, off, buf, count, t, st); }
int MPI_File_read_at_all(MPI_File fh, MPI_Offset off, void *buf, int count, MPI_Datatype t, MPI_Status *st)
{ note_read(buf); return PMPI_File_read_at_all(fh, off, buf, count, t, st); }
int MPI_File_read(MPI_File fh, void *buf, int count, MPI_Datatype t, MPI_Status *st)
{ note_read(buf); return PMPI_File_read(fh, buf, count, t, st); }
int MPI_File_read_all(MPI_File fh, void *buf, int count, MPI_Datatype t, MPI_Status *st)
{ note_read(buf); return PMPI_File_read_all(fh, buf, count, t, st); }

static MPI_Datatype mt2mpi(int mt, int var)
{
    switch (mt) {
    case 1: return MPI_INT;
    case 2: return MPI_DOUBLE;
    case 3: return MPI_SHORT;
    case 4: return MPI_FLOAT;
    case 5: return MPI_SIGNED_CHAR;
    case 6: return MPI_LONG_LONG_INT;
    default:
        switch (vtype[var]) {
        case NC_INT: return MPI_INT;
        case NC_SHORT: return MPI_SHORT;
        case NC_DOUBLE: return MPI_DOUBLE;
        case NC_FLOAT: return MPI_FLOAT;
        case NC_INT64: return MPI_LONG_LONG_INT;
        default: return MPI_SIGNED_CHAR;
        }
    }
}
static void setval(unsigned char *p, MPI_Datatype t, long v)
{
    if (t == MPI_INT) { int x = (int)v; memcpy(p, &x, 4); }
    else if (t == MPI_DOUBLE) { double x = (double)v; memcpy(p, &x, 8); }
    else if (t == MPI_SHORT) { short x = (short)v; memcpy(p, &x, 2); }
    else if (t == MPI_FLOAT) { float x = (float)v; memcpy(p, &x, 4); }
    else if (t == MPI_LONG_LONG_INT) { long long x = v; memcpy(p, &x, 8); }
    else { signed char x = (signed char)v; memcpy(p, &x, 1); }
}

static NC *the_ncp(void) { PNC *p; PNC_check_id(ncid, &p); return (NC *)p->ncp; }

static void dump_state(void)
{
    NC *ncp = the_ncp(); MPI_Offset u = 0, s = 0; int e1, e2, i;
    fprintf(out, " | abuf=");
    if (ncp->abuf == NULL) fprintf(out, "none");
    else {
        fprintf(out, "%lld:%lld:%d[", (long long)ncp->abuf->size_allocated, (long long)ncp->abuf->size_used, ncp->abuf->tail);
        for (i = 0; i < ncp->abuf->tail; i++)
            fprintf(out, "%s%d.%lld", i ? " " : "", ncp->abuf->occupy_table[i].is_used, (long long)ncp->abuf->occupy_table[i].req_size);
        fprintf(out, "]");
    }
    e1 = ncmpi_inq_buffer_usage(ncid, &u); e2 = ncmpi_inq_buffer_size(ncid, &s);
    if (e1) fprintf(out, " usage=E%d", e1); else fprintf(out, " usage=%lld", (long long)u);
    if (e2) fprintf(out, " size=E%d", e2); else fprintf(out, " size=%lld", (long long)s);
}

static void free_req(Req *r)
{
    if (!r->used) return;
    free(r->mem); free(r->orig); free(r->keep);
    if (r->free_type) MPI_Type_free(&r->buftype);
    if (r->free_ft) MPI_Type_free(&r->filetype);
    memset(r, 0, sizeof(*r));
}
static int guards_ok(Req *r)
{
    size_t i;
    for (i = 0; i < GUARD; i++) if (r->mem[i] != 0xA5 || r->mem[GUARD + r->bytes + i] != 0xA5) return 0;
    for (i = 0; i < SLACK; i++) if (r->mem[2 * GUARD + r->bytes + i] != 0) return 0;
    return 1;
}

static MPI_Offset *imap_of(Req *r, MPI_Offset *v)
{
    int nd = vnd[r->var], i; MPI_Offset m = 1;
    if (!r->imap) return NULL;
    for (i = 0; i < nd; i++) { v[i] = m; m *= r->ct[0][i]; }
    return v;
}

/* Buffer layouts (bl).  KD = number of elements per derived-type instance where one is used.
 *   0 predefined type, bufcount = nelems        1 MPI_DATATYPE_NULL
 *   2 vector(nelems,1,2), bufcount 1 (gaps)     3 (unused here)
 *   4 contiguous(KD), bufcount = nelems/KD      (a CONTIGUOUS derived type: bufcount != nelems)
 *   5 etype resized to 2 elements, bufcount = nelems (gaps)
 *   6 nested: vector(nelems/2,1,2, contiguous(2)), bufcount 1 (pairs with gaps)
 *   7 vector(KD,1,2), bufcount = nelems/KD > 1  (extent 2*KD-1 elements)
 *   8 nested contiguous: contiguous(2, contiguous(KD/2)), bufcount = nelems/KD
 * laypos(bl,p) = position (in elements) of the p-th packed element, layelems = elements spanned */
#define KD 4
static size_t laypos(int bl, size_t p)
{
    switch (bl) {
    case 2: case 5: return 2 * p;
    case 6: return 4 * (p / 2) + p % 2;
    case 7: return (p / KD) * (2 * KD - 1) + 2 * (p % KD);
    default: return p;
    }
}
static size_t layelems(int bl, size_t n)
{
    switch (bl) {
    case 2: case 5: case 6: return 2 * n;
    case 7: return (n / KD) * (2 * KD - 1);
    default: return n;
    }
}

/* memory position (in elements) of the k-th element (row-major order of the request) */
static size_t mempos(Req *r, size_t k)
{
    size_t pos = k;
    if (r->imap && vnd[r->var] == 2) { size_t c1 = (size_t)r->ct[0][1], i0 = k / c1, i1 = k % c1; pos = i0 * 1 + i1 * (size_t)r->ct[0][0]; }
    return laypos(r->bl, pos);
}

/* contiguous reference read of the request's elements in memory type etype */
static int reference_read(Req *r, unsigned char *dst)
{
    int i, err = NC_NOERR; size_t off = 0;
    for (i = 0; i < r->nsub; i++) {
        size_t n = 1; int k, e;
        for (k = 0; k < vnd[r->var]; k++) n *= (size_t)r->ct[i][k];
        e = ncmpi_get_vara_all(ncid, vid[r->var], r->st[i], r->ct[i], dst + off * r->esize, (MPI_Offset)n, r->etype);
        if (e != NC_NOERR && err == NC_NOERR) err = e;
        off += n;
    }
    return err;
}

/* another element type of the same size (for NC_ETYPE_MISMATCH) */
static MPI_Datatype othertype(MPI_Datatype t)
{
    if (t == MPI_INT) return MPI_FLOAT;
    if (t == MPI_FLOAT) return MPI_INT;
    if (t == MPI_DOUBLE) return MPI_LONG_LONG_INT;
    if (t == MPI_LONG_LONG_INT) return MPI_DOUBLE;
    if (t == MPI_SHORT) return MPI_UNSIGNED_SHORT;
    return MPI_UNSIGNED_CHAR;
}

/* the filetype of a vard call for the selection st[0]/ct[0] of the variable, relative to the variable's begin */
static void build_filetype(Req *r)
{
    int nd = vnd[r->var], k, isrec = (vshape[r->var][0] == 0), xsz, one = 1;
    MPI_Datatype xt = mt2mpi(0, r->var), t, t2;
    MPI_Aint stride[3], off = 0;
    MPI_Type_size(xt, &xsz);
    if (r->em == 2) xt = othertype(xt);
    stride[nd - 1] = xsz;
    for (k = nd - 2; k >= 0; k--) stride[k] = stride[k + 1] * (MPI_Aint)vshape[r->var][k + 1];
    if (isrec) stride[0] = (MPI_Aint)the_ncp()->recsize;
    for (k = 0; k < nd; k++) off += (MPI_Aint)r->st[0][k] * stride[k];
    r->free_ft = 1;
    if (r->em == 3) { r->filetype = MPI_DATATYPE_NULL; r->free_ft = 0; return; }
    if (r->em == 5) { MPI_Type_contiguous(0, xt, &r->filetype); MPI_Type_commit(&r->filetype); return; }
    if (r->ft == 2) {            /* one contiguous run (the generator picks this only for contiguous selections) */
        int n = (int)r->nelems;
        if (off == 0) MPI_Type_contiguous(n, xt, &r->filetype);
        else MPI_Type_create_hindexed(1, &n, &off, xt, &r->filetype);
    } else if (r->ft == 0) {     /* subarray */
        int sizes[3], subs[3], sts[3];
        if (!isrec) {
            for (k = 0; k < nd; k++) { sizes[k] = (int)vshape[r->var][k]; subs[k] = (int)r->ct[0][k]; sts[k] = (int)r->st[0][k]; }
            MPI_Type_create_subarray(nd, sizes, subs, sts, MPI_ORDER_C, xt, &r->filetype);
        } else {
            MPI_Aint disp = (MPI_Aint)r->st[0][0] * stride[0];
            for (k = 1; k < nd; k++) { sizes[k - 1] = (int)vshape[r->var][k]; subs[k - 1] = (int)r->ct[0][k]; sts[k - 1] = (int)r->st[0][k]; }
            MPI_Type_create_subarray(nd - 1, sizes, subs, sts, MPI_ORDER_C, xt, &t);
            MPI_Type_create_hvector((int)r->ct[0][0], 1, stride[0], t, &t2); MPI_Type_free(&t);
            MPI_Type_create_hindexed(1, &one, &disp, t2, &r->filetype); MPI_Type_free(&t2);
        }
    } else {                     /* nested hvectors of a contiguous row, displaced to the first element */
        MPI_Type_contiguous((int)r->ct[0][nd - 1], xt, &t);
        for (k = nd - 2; k >= 0; k--) { MPI_Type_create_hvector((int)r->ct[0][k], 1, stride[k], t, &t2); MPI_Type_free(&t); t = t2; }
        MPI_Type_create_hindexed(1, &one, &off, t, &r->filetype); MPI_Type_free(&t);
    }
    MPI_Type_commit(&r->filetype);
}

static int indep_err;
static int do_call(Req *r)
{
    MPI_Offset imv[3], *imp = imap_of(r, imv);
    int v = vid[r->var], id = NC_REQ_NULL, err, i;
    if (r->api == 'd') {
        MPI_Offset bc = r->bufcount;
        if (r->em == 1 && r->bl != 1) bc += 1;
        if (r->em == 4 && r->bl != 1) bc = 0;
        indep_err = 0;
        if (!r->coll) { err = ncmpi_begin_indep_data(ncid); if (err) indep_err = err; }
        if (r->op == 'P') err = r->coll ? ncmpi_put_vard_all(ncid, v, r->filetype, r->buf, bc, r->buftype)
                                        : ncmpi_put_vard(ncid, v, r->filetype, r->buf, bc, r->buftype);
        else              err = r->coll ? ncmpi_get_vard_all(ncid, v, r->filetype, r->buf, bc, r->buftype)
                                        : ncmpi_get_vard(ncid, v, r->filetype, r->buf, bc, r->buftype);
        if (!r->coll) { int e2 = ncmpi_end_indep_data(ncid); if (e2 && !indep_err) indep_err = e2; }
        r->id = NC_REQ_NULL;
        return err;
    }
    if (r->api == 'n') {
        MPI_Offset *sp[MAXSUB], *cp[MAXSUB];
        for (i = 0; i < r->nsub; i++) { sp[i] = r->st[i]; cp[i] = r->ct[i]; }
        switch (r->op) {
        case 'P': err = ncmpi_put_varn_all(ncid, v, r->nsub, sp, cp, r->buf, r->bufcount, r->buftype); break;
        case 'R': err = ncmpi_get_varn_all(ncid, v, r->nsub, sp, cp, r->buf, r->bufcount, r->buftype); break;
        case 'I': err = ncmpi_iput_varn(ncid, v, r->nsub, sp, cp, r->buf, r->bufcount, r->buftype, &id); break;
        case 'B': err = ncmpi_bput_varn(ncid, v, r->nsub, sp, cp, r->buf, r->bufcount, r->buftype, &id); break;
        default:  err = ncmpi_iget_varn(ncid, v, r->nsub, sp, cp, r->buf, r->bufcount, r->buftype, &id); break;
        }
    } else {
        switch (r->op) {
        case 'P': err = ncmpi_put_varm_all(ncid, v, r->st[0], r->ct[0], NULL, imp, r->buf, r->bufcount, r->buftype); break;
        case 'R': err = ncmpi_get_varm_all(ncid, v, r->st[0], r->ct[0], NULL, imp, r->buf, r->bufcount, r->buftype); break;
        case 'I': err = ncmpi_iput_varm(ncid, v, r->st[0], r->ct[0], NULL, imp, r->buf, r->bufcount, r->buftype, &id); break;
        case 'B': err = ncmpi_bput_varm(ncid, v, r->st[0], r->ct[0], NULL, imp, r->buf, r->bufcount, r->buftype, &id); break;
        default:  err = ncmpi_iget_varm(ncid, v, r->st[0], r->ct[0], NULL, imp, r->buf, r->bufcount, r->buftype, &id); break;
        }
    }
    r->id = id;
    return err;
}

/* a read must have written exactly the selected element positions */
static void check_read(int h, Req *r)
{
    unsigned char *ref = (unsigned char *)malloc(r->nelems * r->esize + 8), *exp = (unsigned char *)malloc(r->bytes);
    size_t k, nbad = 0, first = 0, i;
    reference_read(r, ref);
    memset(exp, 0xEE, r->bytes);
    for (k = 0; k < r->nelems; k++) memcpy(exp + mempos(r, k) * r->esize, ref + k * r->esize, r->esize);
    for (i = 0; i < r->bytes; i++) if (exp[i] != r->buf[i]) { if (!nbad) first = i; nbad++; }
    if (nbad) fprintf(out, "D read-buffer-wrong h%d nbad=%zu first=%zu of=%zu\n", h, nbad, first, r->bytes);
    if (!guards_ok(r)) fprintf(out, "D guard-overwritten h%d after-read\n", h);
    free(ref); free(exp);
}

static void close_case(void)
{
    int i, nreqs = 0, err;
    ncmpi_inq_nreqs(ncid, &nreqs);
    if (nreqs > 0) ncmpi_cancel(ncid, NC_REQ_ALL, NULL, NULL);
    /* data of every completed put = buffer contents at posting time */
    for (i = 0; i < MAXH; i++) {
        Req *r = &R[i];
        if (!r->used) continue;
        if ((r->op == 'P' || ((r->op == 'I' || r->op == 'B') && r->state == 1)) && r->nelems > 0 && !r->nodata) {
            unsigned char *ref = (unsigned char *)malloc(r->nelems * r->esize + 8); size_t k, bad = 0;
            reference_read(r, ref);
            for (k = 0; k < r->nelems; k++) if (memcmp(ref + k * r->esize, r->orig + mempos(r, k) * r->esize, r->esize)) bad++;
            if (bad) fprintf(out, "DE file-data-not-posting-time-data h%d op=%c bad=%zu of=%zu\n", i, r->op, bad, r->nelems);
            free(ref);
        }
        if (!guards_ok(r)) fprintf(out, "DE guard-overwritten h%d\n", i);
    }
    for (i = 0; i < MAXH; i++) free_req(&R[i]);
    if (the_ncp()->abuf != NULL) { err = ncmpi_buffer_detach(ncid); if (err) fprintf(out, "DE detach err=%d\n", err); }
    err = ncmpi_close(ncid); if (err) fprintf(out, "DE close err=%d\n", err);
    ncid = -1;
    {   char p[600]; snprintf(p, sizeof p, "%s/C%d.nc", dir, caseidx); unlink(p); }
}

int main(int argc, char **argv)
{
    static char line[1 << 16];
    FILE *in;
    MPI_Init(&argc, &argv);
    alarm(240);
    if (argc < 4) { fprintf(stderr, "usage: c13_buf script out scratchdir\n"); return 2; }
    in = fopen(argv[1], "r"); out = fopen(argv[2], "w");
    if (!in || !out) return 3;
    setvbuf(out, NULL, _IOLBF, 0);
    snprintf(dir, sizeof dir, "%s", argv[3]);
    while (fgets(line, sizeof line, in)) {
        char *tok[1024]; int nt = 0;
        char *s = strtok(line, " \n");
        while (s && nt < 1024) { tok[nt++] = s; s = strtok(NULL, " \n"); }
        if (nt == 0) continue;
        if (!strcmp(tok[0], "S")) { /* unit: ncmpii_in_swapn */
            int esize = atoi(tok[1]); long nel = atol(tok[2]); size_t n = strlen(tok[3]) / 2, i;
            unsigned char *b = (unsigned char *)malloc(n + 16);
            for (i = 0; i < n; i++) { unsigned x; sscanf(tok[3] + 2 * i, "%2x", &x); b[i] = (unsigned char)x; }
            ncmpii_in_swapn(b, nel, esize);
            fprintf(out, "S ");
            for (i = 0; i < n; i++) fprintf(out, "%02x", b[i]);
            fprintf(out, "\n"); free(b);
            continue;
        }
        if (!strcmp(tok[0], "CASE")) {
            char p[600]; int d[8], i, k, err, hint = atoi(tok[2]); MPI_Info info;
            MPI_Offset st1[1] = {0}, ct1[1] = {8};
            caseidx = atoi(tok[1]);
            snprintf(p, sizeof p, "%s/C%d.nc", dir, caseidx);
            MPI_Info_create(&info);
            if (hint == 1) MPI_Info_set(info, "nc_in_place_swap", "enable");
            if (hint == 2) MPI_Info_set(info, "nc_in_place_swap", "disable");
            err = ncmpi_create(MPI_COMM_WORLD, p, NC_CLOBBER | NC_64BIT_DATA, info, &ncid);
            MPI_Info_free(&info);
            if (err) { fprintf(out, "D create err=%d\n", err); continue; }
            ncmpi_def_dim(ncid, "t", NC_UNLIMITED, &d[0]);
            ncmpi_def_dim(ncid, "b", 16384, &d[1]); ncmpi_def_dim(ncid, "s", 8192, &d[2]); ncmpi_def_dim(ncid, "f", 4096, &d[3]);
            ncmpi_def_dim(ncid, "q", 64, &d[4]); ncmpi_def_dim(ncid, "x", 8, &d[5]); ncmpi_def_dim(ncid, "y", 6, &d[6]);
            {   int dd[3];
                dd[0] = d[1]; ncmpi_def_var(ncid, vname[0], vtype[0], 1, dd, &vid[0]);
                dd[0] = d[2]; ncmpi_def_var(ncid, vname[1], vtype[1], 1, dd, &vid[1]);
                dd[0] = d[2]; ncmpi_def_var(ncid, vname[2], vtype[2], 1, dd, &vid[2]);
                dd[0] = d[3]; ncmpi_def_var(ncid, vname[3], vtype[3], 1, dd, &vid[3]);
                dd[0] = d[3]; ncmpi_def_var(ncid, vname[4], vtype[4], 1, dd, &vid[4]);
                dd[0] = d[3]; ncmpi_def_var(ncid, vname[5], vtype[5], 1, dd, &vid[5]);
                dd[0] = d[4]; dd[1] = d[4]; ncmpi_def_var(ncid, vname[6], vtype[6], 2, dd, &vid[6]);
                dd[0] = d[0]; dd[1] = d[5]; ncmpi_def_var(ncid, vname[7], vtype[7], 2, dd, &vid[7]);
                dd[0] = d[0]; dd[1] = d[6]; dd[2] = d[5]; ncmpi_def_var(ncid, vname[8], vtype[8], 3, dd, &vid[8]); }
            err = ncmpi_enddef(ncid); if (err) fprintf(out, "D enddef err=%d\n", err);
            /* background: every element = (index mod 50) + 20, three records */
            for (i = 0; i < NVARS; i++) {
                MPI_Offset st[3] = {0, 0, 0}, ct[3], n = 1; int *tmp;
                for (k = 0; k < vnd[i]; k++) { ct[k] = vshape[i][k] ? vshape[i][k] : 3; n *= ct[k]; }
                tmp = (int *)malloc(sizeof(int) * (size_t)n);
                for (k = 0; k < n; k++) tmp[k] = (k % 50) + 20;
                err = ncmpi_put_vara_int_all(ncid, vid[i], st, ct, tmp); free(tmp);
                if (err) fprintf(out, "D background err=%d\n", err);
            }
            /* a pending read that nobody names keeps the "same as …_ALL" shortcuts of extract_reqs away */
            memset(sentinel_buf, 0xEE, sizeof sentinel_buf);
            st1[0] = 16000; ct1[0] = 8;
            ncmpi_iget_vara_schar(ncid, vid[0], st1, ct1, (signed char *)sentinel_buf, &sentinel_id);
            fprintf(out, "CASE %d", caseidx); dump_state(); fprintf(out, "\n");
            continue;
        }
        if (!strcmp(tok[0], "END")) { close_case(); fprintf(out, "END\n"); continue; }
        if (!strcmp(tok[0], "A")) { int e = ncmpi_buffer_attach(ncid, atoll(tok[1])); fprintf(out, "A err=%d", e); dump_state(); fprintf(out, "\n"); continue; }
        if (!strcmp(tok[0], "D")) { int e = ncmpi_buffer_detach(ncid); fprintf(out, "D_ err=%d", e); dump_state(); fprintf(out, "\n"); continue; }
        if (!strcmp(tok[0], "U")) { fprintf(out, "U"); dump_state(); fprintf(out, "\n"); continue; }
        if (strchr("PRIBG", tok[0][0]) && tok[0][1] == 0) {
            int h = atoi(tok[1]), p, i, k, nd, err; size_t m; unsigned char *pre = NULL;
            Req *r = &R[h];
            free_req(r);
            r->used = 1; r->op = tok[0][0];
            r->apikind = atoi(tok[2]);
            r->var = atoi(tok[8]); r->api = tok[9][0]; r->mt = atoi(tok[10]); r->bl = atoi(tok[11]); r->nsub = atoi(tok[12]);
            r->imap = atoi(tok[6]);
            p = 13; nd = vnd[r->var]; r->nelems = 0;
            for (i = 0; i < r->nsub; i++) {
                size_t n = 1;
                for (k = 0; k < nd; k++) r->st[i][k] = atoll(tok[p++]);
                for (k = 0; k < nd; k++) { r->ct[i][k] = atoll(tok[p++]); n *= (size_t)r->ct[i][k]; }
                r->nelems += n;
            }
            if (r->api == 'd') { r->ft = atoi(tok[p]); r->coll = atoi(tok[p + 1]); r->em = atoi(tok[p + 2]); r->nodata = (r->em != 0); }
            r->etype = mt2mpi(r->mt, r->var);
            { int sz; MPI_Type_size(r->etype, &sz); r->esize = (size_t)sz; }
            r->memelems = layelems(r->bl, r->nelems);
            r->bytes = r->memelems * r->esize;
            r->mem = (unsigned char *)calloc(r->bytes + 2 * GUARD + SLACK, 1);
            memset(r->mem, 0xA5, r->bytes + 2 * GUARD);
            r->buf = r->mem + GUARD;
            r->orig = (unsigned char *)malloc(r->bytes + 1);
            if (r->op == 'R' || r->op == 'G') memset(r->buf, 0xEE, r->bytes);
            else {
                memset(r->buf, 0x5C, r->bytes);
                for (m = 0; m < r->nelems; m++)
                    setval(r->buf + mempos(r, m) * r->esize, r->etype, (long)((caseidx * 7 + h * 13 + (int)m * 3) % 100) + 1);
            }
            memcpy(r->orig, r->buf, r->bytes);
            if (r->bl == 1) { r->buftype = MPI_DATATYPE_NULL; r->bufcount = 0; }
            else if (r->bl == 2) { MPI_Type_vector((int)r->nelems, 1, 2, r->etype, &r->buftype); MPI_Type_commit(&r->buftype); r->bufcount = 1; r->free_type = 1; }
            else if (r->bl == 4) { MPI_Type_contiguous(KD, r->etype, &r->buftype); MPI_Type_commit(&r->buftype); r->bufcount = (MPI_Offset)(r->nelems / KD); r->free_type = 1; }
            else if (r->bl == 5) { MPI_Type_create_resized(r->etype, 0, (MPI_Aint)(2 * r->esize), &r->buftype); MPI_Type_commit(&r->buftype); r->bufcount = (MPI_Offset)r->nelems; r->free_type = 1; }
            else if (r->bl == 6) { MPI_Datatype c2; MPI_Type_contiguous(2, r->etype, &c2); MPI_Type_vector((int)(r->nelems / 2), 1, 2, c2, &r->buftype); MPI_Type_commit(&r->buftype); MPI_Type_free(&c2); r->bufcount = 1; r->free_type = 1; }
            else if (r->bl == 7) { MPI_Type_vector(KD, 1, 2, r->etype, &r->buftype); MPI_Type_commit(&r->buftype); r->bufcount = (MPI_Offset)(r->nelems / KD); r->free_type = 1; }
            else if (r->bl == 8) { MPI_Datatype c2; MPI_Type_contiguous(KD / 2, r->etype, &c2); MPI_Type_contiguous(2, c2, &r->buftype); MPI_Type_commit(&r->buftype); MPI_Type_free(&c2); r->bufcount = (MPI_Offset)(r->nelems / KD); r->free_type = 1; }
            else { r->buftype = r->etype; r->bufcount = (MPI_Offset)r->nelems; }
            if (r->api == 'd') {
                build_filetype(r);
                /* a refused or zero-length put must leave the file alone: remember what the selection holds */
                if (r->op == 'P' && r->em != 0) { pre = (unsigned char *)malloc(r->nelems * r->esize + 8); reference_read(r, pre); }
            }
            if (r->op == 'P') { watch_buf = r->buf; watch_orig = r->orig; watch_len = r->bytes; seen_user = seen_swapped = seen_other = 0; seen_count = -1; }
            if (r->op == 'R' && r->api == 'd') { rwatch_buf = r->buf; rseen_user = 0; }
            err = do_call(r);
            watch_buf = NULL; rwatch_buf = NULL;
            fprintf(out, "%c h%d err=%d", r->op, h, err);
            if (r->op == 'P') {
                fprintf(out, " xbuf=%s swapped=%d", seen_user ? "user" : "own", seen_swapped);
                if (r->api == 'd') { if (seen_user) fprintf(out, " cnt=%d", seen_count); else fprintf(out, " cnt=-"); }
                dump_state(); fprintf(out, "\n");
                if (r->api == 'd' && indep_err) fprintf(out, "D indep-data-mode err=%d\n", indep_err);
                if (memcmp(r->buf, r->orig, r->bytes)) {
                    size_t nb = 0, fb = 0; for (m = 0; m < r->bytes; m++) if (r->buf[m] != r->orig[m]) { if (!nb) fb = m; nb++; }
                    fprintf(out, "D putbuf-changed h%d after-blocking-put nbad=%zu first=%zu of=%zu\n", h, nb, fb, r->bytes);
                }
                if (!guards_ok(r)) fprintf(out, "D guard-overwritten h%d after-blocking-put\n", h);
                if (pre) {
                    unsigned char *post = (unsigned char *)malloc(r->nelems * r->esize + 8);
                    reference_read(r, post);
                    if (memcmp(pre, post, r->nelems * r->esize)) fprintf(out, "D file-changed-by-refused-put h%d em=%d\n", h, r->em);
                    free(post); free(pre);
                }
            } else if (r->op == 'R') {
                if (r->api == 'd') fprintf(out, " xbuf=%s", rseen_user ? "user" : "own");
                dump_state(); fprintf(out, "\n");
                if (r->api == 'd' && indep_err) fprintf(out, "D indep-data-mode err=%d\n", indep_err);
                if (r->api == 'd' && r->em != 0) {
                    for (m = 0; m < r->bytes; m++) if (r->buf[m] != 0xEE) { fprintf(out, "D read-buffer-touched-by-refused-get h%d em=%d\n", h, r->em); break; }
                    if (!guards_ok(r)) fprintf(out, "D guard-overwritten h%d after-read\n", h);
                }
                else if (err == NC_NOERR) check_read(h, r);
            } else {
                r->queued = (err == NC_NOERR || err == NC_ERANGE) && r->id != NC_REQ_NULL;
                fprintf(out, " queued=%d", r->queued);
                if (r->queued && r->op != 'G') {
                    NC *ncp = the_ncp(); int j; const char *xb = "?"; int flag = 0;
                    for (j = 0; j < ncp->numLeadPutReqs; j++) if (ncp->put_lead_list[j].id == r->id) {
                        NC_lead_req *l = &ncp->put_lead_list[j];
                        xb = (l->abuf_index >= 0) ? "abuf" : (l->xbuf == l->buf ? "user" : "own");
                        flag = (l->flag & NC_REQ_BUF_BYTE_SWAP) ? 1 : 0;
                    }
                    fprintf(out, " xbuf=%s flag=%d swapped=%d", xb, flag, memcmp(r->buf, r->orig, r->bytes) ? 1 : 0);
                }
                dump_state(); fprintf(out, "\n");
                if (r->op == 'B' && r->queued) {
                    /* the data has been captured: the caller may overwrite its buffer right away */
                    if (memcmp(r->buf, r->orig, r->bytes)) fprintf(out, "D putbuf-changed h%d after-bput-post\n", h);
                    for (m = 0; m < r->bytes; m++) r->buf[m] ^= 0x3C;
                    r->keep = (unsigned char *)malloc(r->bytes + 1); memcpy(r->keep, r->buf, r->bytes);
                }
                if (!guards_ok(r)) fprintf(out, "D guard-overwritten h%d after-post\n", h);
            }
            continue;
        }
        if (!strcmp(tok[0], "W") || !strcmp(tok[0], "X")) {
            int isw = tok[0][0] == 'W', num = atoi(tok[1]), ids[MAXH], st[MAXH], hs[MAXH], n = 0, i, err;
            if (num >= 0) {
                for (i = 0; i < num; i++) { int h = atoi(tok[2 + i]); if (R[h].used && R[h].queued && R[h].state == 0 && R[h].id != NC_REQ_NULL) { hs[n] = h; ids[n] = R[h].id; st[n] = 777; n++; } }
                err = isw ? ncmpi_wait_all(ncid, n, ids, st) : ncmpi_cancel(ncid, n, ids, st);
            } else {
                err = isw ? ncmpi_wait_all(ncid, num, NULL, NULL) : ncmpi_cancel(ncid, num, NULL, NULL);
                for (i = 0; i < MAXH; i++) {
                    Req *r = &R[i];
                    if (!r->used || !r->queued || r->state != 0) continue;
                    if (num == NC_REQ_ALL || (num == NC_PUT_REQ_ALL && r->op != 'G') || (num == NC_GET_REQ_ALL && r->op == 'G')) hs[n++] = i;
                }
                if (num == NC_REQ_ALL || num == NC_GET_REQ_ALL) sentinel_id = NC_REQ_NULL;
            }
            fprintf(out, "%c err=%d n=%d", tok[0][0], err, n);
            dump_state(); fprintf(out, "\n");
            for (i = 0; i < n; i++) {
                Req *r = &R[hs[i]];
                if (num >= 0 && (ids[i] != NC_REQ_NULL || st[i] != NC_NOERR)) fprintf(out, "D id-or-status h%d id=%d st=%d\n", hs[i], ids[i], st[i]);
                r->state = isw ? 1 : 2;
                if (r->op == 'I' && memcmp(r->buf, r->orig, r->bytes)) fprintf(out, "D putbuf-changed h%d after-%s\n", hs[i], isw ? "wait" : "cancel");
                /* a buffered put handed its data over at posting time: the library must never touch the caller's buffer again */
                if (r->op == 'B' && r->keep && memcmp(r->buf, r->keep, r->bytes)) fprintf(out, "D bput-buffer-touched h%d after-%s\n", hs[i], isw ? "wait" : "cancel");
                if (r->op == 'G' && isw) check_read(hs[i], r);
                if (r->op == 'G' && !isw) { size_t k; for (k = 0; k < r->bytes; k++) if (r->buf[k] != 0xEE) { fprintf(out, "D cancelled-get-modified h%d\n", hs[i]); break; } }
                if (!guards_ok(r)) fprintf(out, "D guard-overwritten h%d after-%s\n", hs[i], isw ? "wait" : "cancel");
            }
            continue;
        }
    }
    fclose(out);
    MPI_Finalize();
    return 0;
}
