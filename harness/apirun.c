/*
 * apirun.c -- script interpreter over the PUBLIC PnetCDF API (the C side of the API-level
 * correspondence; the Lean side is lean/Driver/Api.lean running the abstract specification).
 *
 * usage: mpiexec -n N apirun <script> <outprefix>
 *   script line :  <step> <rank|*> <op> <args...>        ('#' starts a comment line)
 *   every rank executes, in step order, the line of each step addressed to it (a rank-specific
 *   line wins over '*'); it writes one result line per executed op to <outprefix>.<rank>:
 *                  <step> <rank> <op> <err> <payload...>
 * A watchdog alarm turns a deadlock into exit code 97.
 */
#include <stdio.h>
#include <stdlib.h>
#include <string.h>
#include <unistd.h>
#include <signal.h>
#include <stdint.h>
#include <mpi.h>
#include <pnetcdf.h>

#define MAXTOK 4096
#define MAXDIM 8
#define MAXREQ 8192
#define GUARD 16
#define SENT 0xA5

static int rank, nprocs, ncid = -1;
static FILE *out;
static char curpath[512];

typedef enum { T_TEXT, T_SCHAR, T_UCHAR, T_SHORT, T_USHORT, T_INT, T_UINT, T_LONG, T_FLOAT, T_DOUBLE, T_LONGLONG, T_ULONGLONG, T_NTYPES } mtype_t;
static const char *mt_name[] = {"text","schar","uchar","short","ushort","int","uint","long","float","double","longlong","ulonglong"};
static size_t mt_size[] = {1,1,1,2,2,4,4,sizeof(long),4,8,8,8};
static MPI_Datatype mt_mpi(mtype_t t) {
    switch (t) { case T_TEXT: return MPI_CHAR; case T_SCHAR: return MPI_SIGNED_CHAR; case T_UCHAR: return MPI_UNSIGNED_CHAR;
    case T_SHORT: return MPI_SHORT; case T_USHORT: return MPI_UNSIGNED_SHORT; case T_INT: return MPI_INT; case T_UINT: return MPI_UNSIGNED;
    case T_LONG: return MPI_LONG; case T_FLOAT: return MPI_FLOAT; case T_DOUBLE: return MPI_DOUBLE; case T_LONGLONG: return MPI_LONG_LONG_INT;
    default: return MPI_UNSIGNED_LONG_LONG; }
}
static int parse_mt(const char *s) { for (int i=0;i<T_NTYPES;i++) if (!strcmp(s,mt_name[i])) return i; return -1; }
static int parse_xt(const char *s) {
    static const char *n[] = {"","byte","char","short","int","float","double","ubyte","ushort","uint","int64","uint64"};
    for (int i=1;i<=11;i++) if (!strcmp(s,n[i])) return i; return atoi(s);
}
/* script values: decimal integers in [-2^63, 2^64-1]; values above LLONG_MAX keep their bit pattern in a long long */
static long long parse_val(const char *s) { if (s[0]=='-') return strtoll(s,NULL,10); return (long long)strtoull(s,NULL,10); }
static int is_big_unsigned(const char *s) { return s[0] != '-' && strtoull(s,NULL,10) > 9223372036854775807ULL; }
static void set_elem(void *buf, mtype_t t, size_t i, long long v) {
    switch (t) { case T_TEXT: ((char*)buf)[i]=(char)v; break; case T_SCHAR: ((signed char*)buf)[i]=(signed char)v; break;
    case T_UCHAR: ((unsigned char*)buf)[i]=(unsigned char)v; break; case T_SHORT: ((short*)buf)[i]=(short)v; break;
    case T_USHORT: ((unsigned short*)buf)[i]=(unsigned short)v; break; case T_INT: ((int*)buf)[i]=(int)v; break;
    case T_UINT: ((unsigned*)buf)[i]=(unsigned)v; break; case T_LONG: ((long*)buf)[i]=(long)v; break;
    case T_FLOAT: ((float*)buf)[i]=(float)v; break; case T_DOUBLE: ((double*)buf)[i]=(double)v; break;
    case T_LONGLONG: ((long long*)buf)[i]=v; break; default: ((unsigned long long*)buf)[i]=(unsigned long long)v; }
}
static void print_elem(const void *buf, mtype_t t, size_t i) {
    switch (t) { case T_TEXT: fprintf(out," %d",(int)((signed char*)buf)[i]); break; case T_SCHAR: fprintf(out," %d",(int)((signed char*)buf)[i]); break;
    case T_UCHAR: fprintf(out," %u",(unsigned)((unsigned char*)buf)[i]); break; case T_SHORT: fprintf(out," %d",(int)((short*)buf)[i]); break;
    case T_USHORT: fprintf(out," %u",(unsigned)((unsigned short*)buf)[i]); break; case T_INT: fprintf(out," %d",((int*)buf)[i]); break;
    case T_UINT: fprintf(out," %u",((unsigned*)buf)[i]); break; case T_LONG: fprintf(out," %ld",((long*)buf)[i]); break;
    case T_FLOAT: { float f=((float*)buf)[i]; if (f==(long long)f && f>-1e15 && f<1e15) fprintf(out," %lld",(long long)f); else fprintf(out," %.9g",f); } break;
    case T_DOUBLE: { double f=((double*)buf)[i]; if (f==(long long)f && f>-1e15 && f<1e15) fprintf(out," %lld",(long long)f); else fprintf(out," %.17g",f); } break;
    case T_LONGLONG: fprintf(out," %lld",((long long*)buf)[i]); break; default: fprintf(out," %llu",((unsigned long long*)buf)[i]); }
}

/* ---- typed API dispatch (X-macro over the 12 memory types) -------------------------------- */
enum { F_VAR, F_VAR1, F_VARA, F_VARS, F_VARM, F_VARN };
#define TYPED(NAME, CT) \
static int typed_##NAME(int w, int form, int coll, int nb, int varid, const MPI_Offset *st, const MPI_Offset *ct, const MPI_Offset *sd, const MPI_Offset *im, void *buf, int *req) { \
  CT *b = (CT*)buf; \
  if (nb == 0) { \
    if (w) switch (form) { \
      case F_VAR:  return coll ? ncmpi_put_var_##NAME##_all(ncid,varid,b) : ncmpi_put_var_##NAME(ncid,varid,b); \
      case F_VAR1: return coll ? ncmpi_put_var1_##NAME##_all(ncid,varid,st,b) : ncmpi_put_var1_##NAME(ncid,varid,st,b); \
      case F_VARA: return coll ? ncmpi_put_vara_##NAME##_all(ncid,varid,st,ct,b) : ncmpi_put_vara_##NAME(ncid,varid,st,ct,b); \
      case F_VARS: return coll ? ncmpi_put_vars_##NAME##_all(ncid,varid,st,ct,sd,b) : ncmpi_put_vars_##NAME(ncid,varid,st,ct,sd,b); \
      default:     return coll ? ncmpi_put_varm_##NAME##_all(ncid,varid,st,ct,sd,im,b) : ncmpi_put_varm_##NAME(ncid,varid,st,ct,sd,im,b); } \
    else switch (form) { \
      case F_VAR:  return coll ? ncmpi_get_var_##NAME##_all(ncid,varid,b) : ncmpi_get_var_##NAME(ncid,varid,b); \
      case F_VAR1: return coll ? ncmpi_get_var1_##NAME##_all(ncid,varid,st,b) : ncmpi_get_var1_##NAME(ncid,varid,st,b); \
      case F_VARA: return coll ? ncmpi_get_vara_##NAME##_all(ncid,varid,st,ct,b) : ncmpi_get_vara_##NAME(ncid,varid,st,ct,b); \
      case F_VARS: return coll ? ncmpi_get_vars_##NAME##_all(ncid,varid,st,ct,sd,b) : ncmpi_get_vars_##NAME(ncid,varid,st,ct,sd,b); \
      default:     return coll ? ncmpi_get_varm_##NAME##_all(ncid,varid,st,ct,sd,im,b) : ncmpi_get_varm_##NAME(ncid,varid,st,ct,sd,im,b); } \
  } else if (nb == 1) { \
    if (w) switch (form) { \
      case F_VAR:  return ncmpi_iput_var_##NAME(ncid,varid,b,req); \
      case F_VAR1: return ncmpi_iput_var1_##NAME(ncid,varid,st,b,req); \
      case F_VARA: return ncmpi_iput_vara_##NAME(ncid,varid,st,ct,b,req); \
      case F_VARS: return ncmpi_iput_vars_##NAME(ncid,varid,st,ct,sd,b,req); \
      default:     return ncmpi_iput_varm_##NAME(ncid,varid,st,ct,sd,im,b,req); } \
    else switch (form) { \
      case F_VAR:  return ncmpi_iget_var_##NAME(ncid,varid,b,req); \
      case F_VAR1: return ncmpi_iget_var1_##NAME(ncid,varid,st,b,req); \
      case F_VARA: return ncmpi_iget_vara_##NAME(ncid,varid,st,ct,b,req); \
      case F_VARS: return ncmpi_iget_vars_##NAME(ncid,varid,st,ct,sd,b,req); \
      default:     return ncmpi_iget_varm_##NAME(ncid,varid,st,ct,sd,im,b,req); } \
  } else { \
    switch (form) { \
      case F_VAR:  return ncmpi_bput_var_##NAME(ncid,varid,b,req); \
      case F_VAR1: return ncmpi_bput_var1_##NAME(ncid,varid,st,b,req); \
      case F_VARA: return ncmpi_bput_vara_##NAME(ncid,varid,st,ct,b,req); \
      case F_VARS: return ncmpi_bput_vars_##NAME(ncid,varid,st,ct,sd,b,req); \
      default:     return ncmpi_bput_varm_##NAME(ncid,varid,st,ct,sd,im,b,req); } \
  } }
TYPED(text, char) TYPED(schar, signed char) TYPED(uchar, unsigned char) TYPED(short, short) TYPED(ushort, unsigned short)
TYPED(int, int) TYPED(uint, unsigned int) TYPED(long, long) TYPED(float, float) TYPED(double, double)
TYPED(longlong, long long) TYPED(ulonglong, unsigned long long)
#define ATT(NAME, CT) \
static int att_put_##NAME(int v, const char *nm, nc_type xt, MPI_Offset n, const void *b) { return ncmpi_put_att_##NAME(ncid,v,nm,xt,n,(const CT*)b); } \
static int att_get_##NAME(int v, const char *nm, void *b) { return ncmpi_get_att_##NAME(ncid,v,nm,(CT*)b); }
ATT(schar, signed char) ATT(uchar, unsigned char) ATT(short, short) ATT(ushort, unsigned short) ATT(int, int) ATT(uint, unsigned int)
ATT(long, long) ATT(float, float) ATT(double, double) ATT(longlong, long long) ATT(ulonglong, unsigned long long)
static int att_put_text(int v, const char *nm, nc_type xt, MPI_Offset n, const void *b) { (void)xt; return ncmpi_put_att_text(ncid,v,nm,n,(const char*)b); }
static int att_get_text(int v, const char *nm, void *b) { return ncmpi_get_att_text(ncid,v,nm,(char*)b); }
typedef int (*attput_fn)(int,const char*,nc_type,MPI_Offset,const void*);
typedef int (*attget_fn)(int,const char*,void*);
static attput_fn attput_tab[] = {att_put_text,att_put_schar,att_put_uchar,att_put_short,att_put_ushort,att_put_int,att_put_uint,att_put_long,att_put_float,att_put_double,att_put_longlong,att_put_ulonglong};
static attget_fn attget_tab[] = {att_get_text,att_get_schar,att_get_uchar,att_get_short,att_get_ushort,att_get_int,att_get_uint,att_get_long,att_get_float,att_get_double,att_get_longlong,att_get_ulonglong};
typedef int (*typed_fn)(int,int,int,int,int,const MPI_Offset*,const MPI_Offset*,const MPI_Offset*,const MPI_Offset*,void*,int*);
static typed_fn typed_tab[] = {typed_text,typed_schar,typed_uchar,typed_short,typed_ushort,typed_int,typed_uint,typed_long,typed_float,typed_double,typed_longlong,typed_ulonglong};

static int flex(int w, int form, int coll, int nb, int varid, const MPI_Offset *st, const MPI_Offset *ct, const MPI_Offset *sd, const MPI_Offset *im,
                void *buf, MPI_Offset bc, MPI_Datatype bt, int *req) {
  if (nb == 0) {
    if (w) switch (form) {
      case F_VAR:  return coll ? ncmpi_put_var_all(ncid,varid,buf,bc,bt) : ncmpi_put_var(ncid,varid,buf,bc,bt);
      case F_VAR1: return coll ? ncmpi_put_var1_all(ncid,varid,st,buf,bc,bt) : ncmpi_put_var1(ncid,varid,st,buf,bc,bt);
      case F_VARA: return coll ? ncmpi_put_vara_all(ncid,varid,st,ct,buf,bc,bt) : ncmpi_put_vara(ncid,varid,st,ct,buf,bc,bt);
      case F_VARS: return coll ? ncmpi_put_vars_all(ncid,varid,st,ct,sd,buf,bc,bt) : ncmpi_put_vars(ncid,varid,st,ct,sd,buf,bc,bt);
      default:     return coll ? ncmpi_put_varm_all(ncid,varid,st,ct,sd,im,buf,bc,bt) : ncmpi_put_varm(ncid,varid,st,ct,sd,im,buf,bc,bt); }
    else switch (form) {
      case F_VAR:  return coll ? ncmpi_get_var_all(ncid,varid,buf,bc,bt) : ncmpi_get_var(ncid,varid,buf,bc,bt);
      case F_VAR1: return coll ? ncmpi_get_var1_all(ncid,varid,st,buf,bc,bt) : ncmpi_get_var1(ncid,varid,st,buf,bc,bt);
      case F_VARA: return coll ? ncmpi_get_vara_all(ncid,varid,st,ct,buf,bc,bt) : ncmpi_get_vara(ncid,varid,st,ct,buf,bc,bt);
      case F_VARS: return coll ? ncmpi_get_vars_all(ncid,varid,st,ct,sd,buf,bc,bt) : ncmpi_get_vars(ncid,varid,st,ct,sd,buf,bc,bt);
      default:     return coll ? ncmpi_get_varm_all(ncid,varid,st,ct,sd,im,buf,bc,bt) : ncmpi_get_varm(ncid,varid,st,ct,sd,im,buf,bc,bt); }
  } else if (nb == 1) {
    if (w) switch (form) {
      case F_VAR:  return ncmpi_iput_var(ncid,varid,buf,bc,bt,req);
      case F_VAR1: return ncmpi_iput_var1(ncid,varid,st,buf,bc,bt,req);
      case F_VARA: return ncmpi_iput_vara(ncid,varid,st,ct,buf,bc,bt,req);
      case F_VARS: return ncmpi_iput_vars(ncid,varid,st,ct,sd,buf,bc,bt,req);
      default:     return ncmpi_iput_varm(ncid,varid,st,ct,sd,im,buf,bc,bt,req); }
    else switch (form) {
      case F_VAR:  return ncmpi_iget_var(ncid,varid,buf,bc,bt,req);
      case F_VAR1: return ncmpi_iget_var1(ncid,varid,st,buf,bc,bt,req);
      case F_VARA: return ncmpi_iget_vara(ncid,varid,st,ct,buf,bc,bt,req);
      case F_VARS: return ncmpi_iget_vars(ncid,varid,st,ct,sd,buf,bc,bt,req);
      default:     return ncmpi_iget_varm(ncid,varid,st,ct,sd,im,buf,bc,bt,req); }
  } else {
    switch (form) {
      case F_VAR:  return ncmpi_bput_var(ncid,varid,buf,bc,bt,req);
      case F_VAR1: return ncmpi_bput_var1(ncid,varid,st,buf,bc,bt,req);
      case F_VARA: return ncmpi_bput_vara(ncid,varid,st,ct,buf,bc,bt,req);
      case F_VARS: return ncmpi_bput_vars(ncid,varid,st,ct,sd,buf,bc,bt,req);
      default:     return ncmpi_bput_varm(ncid,varid,st,ct,sd,im,buf,bc,bt,req); }
  }
}

/* ---- request table ------------------------------------------------------------------------ */
typedef struct { char name[32]; int id; int isget; unsigned char *raw; unsigned char *orig; size_t rawlen; size_t nelems; int k; mtype_t mt; int live; MPI_Datatype dt; int hasdt; } req_t;
static req_t reqs[MAXREQ]; static int nreqs_tab = 0;
static req_t *find_req(const char *n) { for (int i=0;i<nreqs_tab;i++) if (reqs[i].live && !strcmp(reqs[i].name,n)) return &reqs[i]; return NULL; }

static int split_list(char *s, long long *v, int max) { /* "a,b,c" or "-" */
    if (!strcmp(s,"-")) return 0; int n=0; char *p=s; while (*p && n<max) { v[n++]=strtoll(p,&p,10); if (*p==',') p++; } return n; }

static int varid_of(const char *name) { int v; if (!strcmp(name,"-")) return NC_GLOBAL; if (name[0]=='#') return atoi(name+1); if (ncmpi_inq_varid(ncid,name,&v)!=NC_NOERR) return -77; return v; }

/* user buffer with guard zones; layout 'c' contiguous or 'v<k>' (element every k-th slot) */
static unsigned char *mkbuf(size_t nelems, int k, mtype_t mt, size_t *rawlen) {
    size_t n = (nelems ? nelems : 1) * (size_t)k * mt_size[mt] + 2*GUARD; unsigned char *b = malloc(n); memset(b, SENT, n); *rawlen = n; return b; }
static int gaps_ok(const unsigned char *raw, size_t nelems, int k, mtype_t mt, size_t rawlen) {
    size_t es = mt_size[mt];
    for (size_t i=0;i<GUARD;i++) if (raw[i]!=SENT || raw[rawlen-1-i]!=SENT) return 0;
    const unsigned char *d = raw+GUARD; size_t tot = (nelems?nelems:1)*k;
    for (size_t s=0;s<tot;s++) { if (s%k==0 && s/k<nelems) continue; for (size_t j=0;j<es;j++) if (d[s*es+j]!=SENT) return 0; }
    return 1; }

static void on_alarm(int sig) { (void)sig; if (out) { fprintf(out, "DEADLOCK rank %d\n", rank); fflush(out); } _exit(97); }

static void hexout(const unsigned char *b, size_t n) { for (size_t i=0;i<n;i++) fprintf(out,"%02x",b[i]); }
static int unhex(const char *s, unsigned char *o, int max) { int n=0; while (s[0]&&s[1]&&n<max) { unsigned v; sscanf(s,"%2x",&v); o[n++]=(unsigned char)v; s+=2; } return n; }

int main(int argc, char **argv) {
    MPI_Init(&argc,&argv); MPI_Comm_rank(MPI_COMM_WORLD,&rank); MPI_Comm_size(MPI_COMM_WORLD,&nprocs);
    if (argc<3) { if(!rank) fprintf(stderr,"usage: apirun script outprefix [alarm]\n"); MPI_Finalize(); return 2; }
    int secs = argc>3 ? atoi(argv[3]) : 60; signal(SIGALRM,on_alarm); alarm(secs);
    char on[600]; snprintf(on,sizeof on,"%s.%d",argv[2],rank); out=fopen(on,"w");
    FILE *sf=fopen(argv[1],"r"); if(!sf){perror("script");MPI_Abort(MPI_COMM_WORLD,3);}
    /* read all lines, keep those for this rank; per step a rank-specific line overrides '*' */
    static char *lines[200000]; static int lstep[200000]; static int lspec[200000]; int nl=0; char *lb=NULL; size_t cap=0; ssize_t len;
    while ((len=getline(&lb,&cap,sf))>0) { if (lb[0]=='#'||lb[0]=='\n') continue; char *p=lb; int st=strtol(p,&p,10); while(*p==' ')p++;
        int spec; if (*p=='*') { spec=-1; p++; } else spec=strtol(p,&p,10); if (spec!=-1 && spec!=rank) continue; while(*p==' ')p++;
        lines[nl]=strdup(p); lstep[nl]=st; lspec[nl]=spec; nl++; }
    fclose(sf);
    for (int i=0;i<nl;i++) {
        if (lspec[i]==-1) { int ov=0; for (int j=0;j<nl;j++) if (j!=i && lstep[j]==lstep[i] && lspec[j]==rank) ov=1; if (ov) continue; }
        char *tok[MAXTOK]; int nt=0; char *s=strtok(lines[i]," \n"); while (s&&nt<MAXTOK){tok[nt++]=s; s=strtok(NULL," \n");}
        if (!nt) continue; const char *op=tok[0]; int err=0; int st_=lstep[i];
        fprintf(out,"%d %d %s",st_,rank,op);
#define A(k) (tok[(k)])
        if (!strcmp(op,"create")||!strcmp(op,"open")) {
            MPI_Info info=MPI_INFO_NULL; int hidx = !strcmp(op,"create") ? 4 : 3;
            if (nt>hidx && strcmp(A(hidx),"-")) { MPI_Info_create(&info); char *h=strdup(A(hidx)); char *kv=strtok(h,";"); while(kv){char *eq=strchr(kv,'='); if(eq){*eq=0; MPI_Info_set(info,kv,eq+1);} kv=strtok(NULL,";");} }
            strncpy(curpath,A(1),sizeof curpath-1);
            if (!strcmp(op,"create")) { int fmt=atoi(A(2)); int cm = (fmt==2?NC_64BIT_OFFSET:fmt==5?NC_64BIT_DATA:0) | (!strcmp(A(3),"noclobber")?NC_NOCLOBBER:NC_CLOBBER);
                err=ncmpi_create(MPI_COMM_WORLD,A(1),cm,info,&ncid); }
            else err=ncmpi_open(MPI_COMM_WORLD,A(1),!strcmp(A(2),"w")?NC_WRITE:NC_NOWRITE,info,&ncid);
            if (info!=MPI_INFO_NULL) MPI_Info_free(&info);
            fprintf(out," %d",err);
        } else if (!strcmp(op,"close")) { err=ncmpi_close(ncid); fprintf(out," %d",err);
        } else if (!strcmp(op,"abort")) { err=ncmpi_abort(ncid); fprintf(out," %d",err);
        } else if (!strcmp(op,"enddef")) { err=ncmpi_enddef(ncid); fprintf(out," %d",err);
        } else if (!strcmp(op,"enddef2")) { err=ncmpi__enddef(ncid,atoll(A(1)),atoll(A(2)),atoll(A(3)),atoll(A(4))); fprintf(out," %d",err);
        } else if (!strcmp(op,"redef")) { err=ncmpi_redef(ncid); fprintf(out," %d",err);
        } else if (!strcmp(op,"sync")) { err=ncmpi_sync(ncid); fprintf(out," %d",err);
        } else if (!strcmp(op,"flush")) { err=ncmpi_flush(ncid); fprintf(out," %d",err);
        } else if (!strcmp(op,"sync_numrecs")) { err=ncmpi_sync_numrecs(ncid); fprintf(out," %d",err);
        } else if (!strcmp(op,"begin_indep")) { err=ncmpi_begin_indep_data(ncid); fprintf(out," %d",err);
        } else if (!strcmp(op,"end_indep")) { err=ncmpi_end_indep_data(ncid); fprintf(out," %d",err);
        } else if (!strcmp(op,"barrier")) { MPI_Barrier(MPI_COMM_WORLD); fprintf(out," 0");
        } else if (!strcmp(op,"def_dim")) { int id=-1; err=ncmpi_def_dim(ncid,A(1),!strcmp(A(2),"0")?NC_UNLIMITED:atoll(A(2)),&id); fprintf(out," %d %d",err,err?-1:id);
        } else if (!strcmp(op,"def_var")) { int nd=atoi(A(3)); int dimids[MAXDIM]; int bad=0; for(int d=0;d<nd;d++){ if (A(4+d)[0]=='#') dimids[d]=atoi(A(4+d)+1); else if(ncmpi_inq_dimid(ncid,A(4+d),&dimids[d])) bad=1;} int id=-1;
            err = bad? NC_EBADDIM : ncmpi_def_var(ncid,A(1),parse_xt(A(2)),nd,dimids,&id); fprintf(out," %d %d",err,err?-1:id);
        } else if (!strcmp(op,"put_att")) { /* put_att var name xtype n vals.. | for char: hex string */
            int v=varid_of(A(1)); int xt=parse_xt(A(3)); int n=atoi(A(4));
            if (xt==NC_CHAR) { unsigned char tb[8192]; int m = n? unhex(A(5),tb,sizeof tb):0; err=ncmpi_put_att_text(ncid,v,A(2),m,(char*)tb); }
            else { long long *vals=malloc(sizeof(long long)*(n+1)); for(int k=0;k<n;k++) vals[k]=atoll(A(5+k)); err=ncmpi_put_att_longlong(ncid,v,A(2),xt,n,vals); free(vals);}
            fprintf(out," %d",err);
        } else if (!strcmp(op,"get_att")) { int v=varid_of(A(1)); nc_type xt; MPI_Offset n=0; err=ncmpi_inq_att(ncid,v,A(2),&xt,&n);
            if (err) fprintf(out," %d",err); else if (xt==NC_CHAR) { char *b=malloc(n+1); err=ncmpi_get_att_text(ncid,v,A(2),b); fprintf(out," %d %d %lld ",err,(int)xt,(long long)n); hexout((unsigned char*)b,n); free(b);}
            else { double *b=malloc(sizeof(double)*(n+1)); err=ncmpi_get_att_double(ncid,v,A(2),b); fprintf(out," %d %d %lld",err,(int)xt,(long long)n); for(MPI_Offset k=0;k<n;k++) print_elem(b,T_DOUBLE,k); free(b);}
        } else if (!strcmp(op,"put_attm")) { /* put_attm var name xtype memtype n vals.. : typed API, conversion memtype -> xtype */
            int v=varid_of(A(1)); int xt=parse_xt(A(3)); int mt=parse_mt(A(4)); int n=atoi(A(5));
            unsigned char *b=calloc((size_t)n+1,8); for(int k=0;k<n;k++) set_elem(b,(mtype_t)mt,k,parse_val(A(6+k)));
            err=attput_tab[mt](v,A(2),xt,n,b); free(b); fprintf(out," %d",err);
        } else if (!strcmp(op,"get_attm")) { /* get_attm var name memtype : typed API, conversion xtype -> memtype */
            int v=varid_of(A(1)); int mt=parse_mt(A(3)); nc_type xt; MPI_Offset n=0; err=ncmpi_inq_att(ncid,v,A(2),&xt,&n);
            if (err) fprintf(out," %d",err);
            else { unsigned char *b=calloc((size_t)n+1,8); err=attget_tab[mt](v,A(2),b); fprintf(out," %d %d %lld",err,(int)xt,(long long)n);
                   if (err==NC_NOERR||err==NC_ERANGE) for(MPI_Offset k=0;k<n;k++) print_elem(b,(mtype_t)mt,k); free(b); }
        } else if (!strcmp(op,"del_att")) { err=ncmpi_del_att(ncid,varid_of(A(1)),A(2)); fprintf(out," %d",err);
        } else if (!strcmp(op,"rename_att")) { err=ncmpi_rename_att(ncid,varid_of(A(1)),A(2),A(3)); fprintf(out," %d",err);
        } else if (!strcmp(op,"copy_att")) { err=ncmpi_copy_att(ncid,varid_of(A(1)),A(2),ncid,varid_of(A(3))); fprintf(out," %d",err);
        } else if (!strcmp(op,"rename_var")) { int v=varid_of(A(1)); err = v==-77?NC_ENOTVAR:ncmpi_rename_var(ncid,v,A(2)); fprintf(out," %d",err);
        } else if (!strcmp(op,"rename_dim")) { int d; err=ncmpi_inq_dimid(ncid,A(1),&d); if(!err) err=ncmpi_rename_dim(ncid,d,A(2)); fprintf(out," %d",err);
        } else if (!strcmp(op,"inq_natts")) { int n=-1; int v=varid_of(A(1)); err = v==NC_GLOBAL? ncmpi_inq_natts(ncid,&n):ncmpi_inq_varnatts(ncid,v,&n); fprintf(out," %d %d",err,n);
        } else if (!strcmp(op,"inq_attname")) { char nm[NC_MAX_NAME+1]=""; err=ncmpi_inq_attname(ncid,varid_of(A(1)),atoi(A(2)),nm); fprintf(out," %d %s",err,err?"-":nm);
        } else if (!strcmp(op,"inq_dim")) { int d; MPI_Offset l=-1; err=ncmpi_inq_dimid(ncid,A(1),&d); if(!err) err=ncmpi_inq_dimlen(ncid,d,&l); fprintf(out," %d %d %lld",err,err?-1:d,(long long)l);
        } else if (!strcmp(op,"inq_dimname")) { char nm[NC_MAX_NAME+1]=""; MPI_Offset l=-1; err=ncmpi_inq_dim(ncid,atoi(A(1)),nm,&l); fprintf(out," %d %s %lld",err,err?"-":nm,(long long)l);
        } else if (!strcmp(op,"inq_var")) { int v=varid_of(A(1)); nc_type xt=0; int nd=0,dimids[64],na=0; char nm[NC_MAX_NAME+1]="";
            err = v==-77?NC_ENOTVAR:ncmpi_inq_var(ncid,v,nm,&xt,&nd,dimids,&na); fprintf(out," %d",err); if(!err){fprintf(out," %d %s %d %d",v,nm,(int)xt,nd); for(int d=0;d<nd;d++)fprintf(out," %d",dimids[d]); fprintf(out," %d",na);}
        } else if (!strcmp(op,"inq")) { int nd=-1,nv=-1,na=-1,ud=-2; err=ncmpi_inq(ncid,&nd,&nv,&na,&ud); fprintf(out," %d %d %d %d %d",err,nd,nv,na,ud);
        } else if (!strcmp(op,"inq_numrecs")) { int ud=-1; MPI_Offset l=-1; err=ncmpi_inq_unlimdim(ncid,&ud); if(!err && ud>=0) err=ncmpi_inq_dimlen(ncid,ud,&l); fprintf(out," %d %lld",err,(long long)l);
        } else if (!strcmp(op,"inq_format")) { int f=-1; err=ncmpi_inq_format(ncid,&f); fprintf(out," %d %d",err,f);
        } else if (!strcmp(op,"inq_varoffset")) { MPI_Offset o=-1; int v=varid_of(A(1)); err=ncmpi_inq_varoffset(ncid,v,&o); fprintf(out," %d %lld",err,(long long)o);
        } else if (!strcmp(op,"inq_header")) { MPI_Offset a=-1,b=-1,c=-1; err=ncmpi_inq_header_size(ncid,&a); ncmpi_inq_header_extent(ncid,&b); ncmpi_inq_recsize(ncid,&c); fprintf(out," %d %lld %lld %lld",err,(long long)a,(long long)b,(long long)c);
        } else if (!strcmp(op,"inq_info")) { /* inq_info key1 key2 ... : effective hint values the library reports */
            MPI_Info info; err=ncmpi_inq_file_info(ncid,&info); fprintf(out," %d",err);
            if (!err) { for (int q=1;q<nt;q++){ char val[MPI_MAX_INFO_VAL+1]; int flag=0; MPI_Info_get(info,A(q),MPI_MAX_INFO_VAL,val,&flag); fprintf(out," %s=%s",A(q),flag?val:"<unset>"); } MPI_Info_free(&info); }
        } else if (!strcmp(op,"inq_malloc")) { MPI_Offset m=-1; err=ncmpi_inq_malloc_size(&m); fprintf(out," %d %lld",err,(long long)m);
        } else if (!strcmp(op,"set_fill")) { int old=-1; err=ncmpi_set_fill(ncid,atoi(A(1))?NC_FILL:NC_NOFILL,&old); fprintf(out," %d",err);
        } else if (!strcmp(op,"def_var_fill")) { int v=varid_of(A(1)); int nf=atoi(A(2)); nc_type xt=NC_INT; ncmpi_inq_vartype(ncid,v,&xt);
            unsigned char fv[8]; void *fp=NULL; if (strcmp(A(3),"-")) { long long x=atoll(A(3)); fp=fv;
              switch(xt){case NC_BYTE:{signed char t=x;memcpy(fv,&t,1);}break;case NC_CHAR:{char t=x;memcpy(fv,&t,1);}break;case NC_UBYTE:{unsigned char t=x;memcpy(fv,&t,1);}break;
              case NC_SHORT:{short t=x;memcpy(fv,&t,2);}break;case NC_USHORT:{unsigned short t=x;memcpy(fv,&t,2);}break;case NC_INT:{int t=x;memcpy(fv,&t,4);}break;case NC_UINT:{unsigned t=x;memcpy(fv,&t,4);}break;
              case NC_FLOAT:{float t=x;memcpy(fv,&t,4);}break;case NC_DOUBLE:{double t=x;memcpy(fv,&t,8);}break;case NC_INT64:{long long t=x;memcpy(fv,&t,8);}break;default:{unsigned long long t=x;memcpy(fv,&t,8);}} }
            err=ncmpi_def_var_fill(ncid,v,nf,fp); fprintf(out," %d",err);
        } else if (!strcmp(op,"fill_var_rec")) { err=ncmpi_fill_var_rec(ncid,varid_of(A(1)),atoll(A(2))); fprintf(out," %d",err);
        } else if (!strcmp(op,"attach")) { err=ncmpi_buffer_attach(ncid,atoll(A(1))); fprintf(out," %d",err);
        } else if (!strcmp(op,"detach")) { err=ncmpi_buffer_detach(ncid); fprintf(out," %d",err);
        } else if (!strcmp(op,"inq_buf")) { MPI_Offset u=-1,sz=-1; err=ncmpi_inq_buffer_usage(ncid,&u); int e2=ncmpi_inq_buffer_size(ncid,&sz); fprintf(out," %d %lld %d %lld",err,(long long)u,e2,(long long)sz);
        } else if (!strcmp(op,"inq_nreqs")) { int n=-1; err=ncmpi_inq_nreqs(ncid,&n); fprintf(out," %d %d",err,n);
        } else if (!strcmp(op,"filebytes")) { /* raw bytes of the file, read with stdio */
            FILE *f=fopen(curpath,"rb"); long off=atol(A(1)); int n=atoi(A(2)); unsigned char *b=calloc(n+1,1); int got=0; if(f){fseek(f,off,SEEK_SET); got=fread(b,1,n,f); fclose(f);} fprintf(out," 0 %d ",got); hexout(b,got); free(b);
        } else if (!strcmp(op,"filesize")) { FILE *f=fopen(curpath,"rb"); long sz=-1; if(f){fseek(f,0,SEEK_END); sz=ftell(f); fclose(f);} fprintf(out," 0 %ld",sz);
        } else if (!strcmp(op,"put")||!strcmp(op,"get")||!strcmp(op,"iput")||!strcmp(op,"iget")||!strcmp(op,"bput")) {
            /* put|get  <form> <c|i> <var> <memtype> <layout> <start> <count> <stride> <imap> [: v...]
               iput|iget|bput <req> <form> <var> <memtype> <layout> <start> <count> <stride> <imap> [: v...] */
            int nb = !strcmp(op,"put")||!strcmp(op,"get") ? 0 : (!strcmp(op,"bput")?2:1); int w = op[0]=='p'||op[1]=='p'; /* put, iput, bput */
            if (!strcmp(op,"get")||!strcmp(op,"iget")) w=0;
            int a=1; const char *rname=NULL; if (nb) rname=A(a++);
            const char *fs=A(a++); int form = !strcmp(fs,"var")?F_VAR:!strcmp(fs,"var1")?F_VAR1:!strcmp(fs,"vara")?F_VARA:!strcmp(fs,"vars")?F_VARS:!strcmp(fs,"varm")?F_VARM:F_VARN;
            int coll=0; if (!nb) coll = A(a++)[0]=='c';
            int varid=varid_of(A(a++)); int mt=parse_mt(A(a++)); const char *lay=A(a++);
            long long sv[MAXDIM*64], cv[MAXDIM*64], dv[MAXDIM], iv[MAXDIM]; MPI_Offset st[MAXDIM],ct[MAXDIM],sd[MAXDIM],im[MAXDIM];
            int nd=0; ncmpi_inq_varndims(ncid,varid,&nd); size_t nelems=1; int nseg=0; MPI_Offset **sts=NULL,**cts=NULL;
            if (form==F_VARN) { /* starts "a,b|c,d" counts same ('-' = NULL counts) */
                char *ss=strdup(A(a++)); char *cs=strdup(A(a++)); a+=2; char *sp; nelems=0;
                sts=malloc(sizeof(*sts)*256); cts=malloc(sizeof(*cts)*256); char *p=strtok_r(ss,"|",&sp);
                while(p){ long long t[MAXDIM]; int n=split_list(p,t,MAXDIM); sts[nseg]=malloc(sizeof(MPI_Offset)*MAXDIM); for(int d=0;d<n;d++)sts[nseg][d]=t[d]; nseg++; p=strtok_r(NULL,"|",&sp);}
                int hascounts=strcmp(cs,"-"); int k=0; if (hascounts){ p=strtok_r(cs,"|",&sp); while(p&&k<nseg){ long long t[MAXDIM]; int n=split_list(p,t,MAXDIM); cts[k]=malloc(sizeof(MPI_Offset)*MAXDIM); size_t pe=1; for(int d=0;d<n;d++){cts[k][d]=t[d]; pe*= t[d]>0?t[d]:0;} nelems+=pe; k++; p=strtok_r(NULL,"|",&sp);} } else { free(cts); cts=NULL; nelems=nseg; }
            } else {
                int ns=split_list(A(a++),sv,MAXDIM), nc_=split_list(A(a++),cv,MAXDIM), nds=split_list(A(a++),dv,MAXDIM), ni=split_list(A(a++),iv,MAXDIM);
                for(int d=0;d<MAXDIM;d++){st[d]=d<ns?sv[d]:0; ct[d]=d<nc_?cv[d]:1; sd[d]=d<nds?dv[d]:1; im[d]=d<ni?iv[d]:0;}
                if (form==F_VAR) { /* whole variable: element count from the shape */ int dimids[64]; ncmpi_inq_vardimid(ncid,varid,dimids); for(int d=0;d<nd;d++){MPI_Offset l; ncmpi_inq_dimlen(ncid,dimids[d],&l); nelems*=l;} }
                else if (form==F_VAR1) nelems=1; else for(int d=0;d<nc_;d++) nelems*= cv[d]>0?cv[d]:0;
                (void)ns; if (form==F_VARS||form==F_VARM) { if(!nds) ; }
            }
            /* explicit element count override: token "n=<k>" right before ':' (for error-case requests) */
            long long vals_n=0; int colon=-1; for(int k=a;k<nt;k++) if(!strcmp(tok[k],":")){colon=k;break;}
            if (mt<0) { fprintf(out," -999\n"); continue; }
            /* layouts: c contiguous predefined type; t typed API; and derived buffer types that all place element e at slot e*k
               (k>=1) but are built with different MPI constructors, so that every branch of the library's datatype decoder
               and packer is reached:  v vector  r resized(bufcount=nelems)  h hvector  x indexed  b indexed_block  H hindexed
               s 2-D subarray  S struct  n contiguous(nelems, resized)  d dup(vector)  k<n>: contiguous(n) with bufcount nelems/n */
            int typed = !strcmp(lay,"t"); char lk = lay[0]; int k = strchr("vrhxbHsSnd",lk) && lay[1] ? atoi(lay+1) : 1; if (k<1) k=1; int resized = lk=='r';
            /* U<m>: contiguous elements described as ONE struct of several members of the same type with DIFFERENT block lengths
               (1, 3, rest ...), bufcount 1;  I<m>: indexed with unequal block lengths over contiguous elements */
            int ustruct = (lk=='U' || lk=='I') ? 1 : 0;
            int kcont = (lk=='k' && lay[1]) ? atoi(lay+1) : 0;
            size_t rawlen; unsigned char *raw=mkbuf(nelems,k,mt,&rawlen); unsigned char *data=raw+GUARD;
            if (w && colon>=0) { vals_n=nt-colon-1; for (size_t e=0;e<nelems && (long long)e<vals_n;e++) { const char *tk=tok[colon+1+e]; if (is_big_unsigned(tk) && (mt==T_FLOAT||mt==T_DOUBLE)) { if (mt==T_FLOAT) ((float*)data)[e*k]=(float)strtoull(tk,NULL,10); else ((double*)data)[e*k]=(double)strtoull(tk,NULL,10); } else set_elem(data,mt,e*k,parse_val(tk)); } }
            /* varm with imap: the user buffer is addressed through imap; the script gives imap in elements and the
               values in REQUEST order; place them accordingly (canonical request order = row-major over count) */
            size_t imapspan=0;
            if (form==F_VARM && nd>0) { int hasim=0; for(int d=0;d<nd;d++) if(im[d]) hasim=1;
                if (hasim) { for(int d=0;d<nd;d++) imapspan += (size_t)(ct[d]>0?ct[d]-1:0)*im[d]; imapspan+=1; free(raw); size_t n2=imapspan*mt_size[mt]+2*GUARD; raw=malloc(n2); memset(raw,SENT,n2); rawlen=n2; data=raw+GUARD; k=1;
                    if (w && colon>=0) { size_t idx[MAXDIM]={0}; for(size_t e=0;e<nelems;e++){ size_t off=0; for(int d=0;d<nd;d++) off+=idx[d]*im[d]; if ((long long)e<vals_n) set_elem(data,mt,off,parse_val(tok[colon+1+e])); for(int d=nd-1;d>=0;d--){ if(++idx[d]<(size_t)ct[d])break; idx[d]=0;} } } } }
            unsigned char *orig=malloc(rawlen); memcpy(orig,raw,rawlen);
            MPI_Datatype bt=mt_mpi(mt); MPI_Offset bc=nelems; int hasdt=0; MPI_Datatype dt=MPI_DATATYPE_NULL;
            if (kcont>1 && !imapspan && nelems>0 && nelems%kcont==0) { MPI_Type_contiguous(kcont,bt,&dt); MPI_Type_commit(&dt); hasdt=1; bt=dt; bc=nelems/kcont; }
            if (ustruct && !imapspan && nelems>=2) {
                int n_=(int)nelems; MPI_Aint esz=(MPI_Aint)mt_size[mt]; MPI_Datatype el=bt;
                int bl[4], nb_=0, used=0; int want[3]={1,3,2};
                for (int q=0;q<3 && used<n_-1;q++){ int b_=want[q]; if (used+b_>n_-1) b_=n_-1-used; bl[nb_++]=b_; used+=b_; }
                bl[nb_++]=n_-used;                       /* last member takes the rest (>= 1) */
                MPI_Aint ad[4]; int di[4]; MPI_Datatype ty[4]; int pos=0; for (int q=0;q<nb_;q++){ ad[q]=(MPI_Aint)pos*esz; di[q]=pos; ty[q]=el; pos+=bl[q]; }
                if (lk=='U') MPI_Type_create_struct(nb_,bl,ad,ty,&dt); else MPI_Type_indexed(nb_,bl,di,el,&dt);
                MPI_Type_commit(&dt); hasdt=1; bt=dt; bc=1;
            } else
            if (strchr("hxbHsSnd",lk) && lay[1] && !imapspan && nelems>0) {
                int n_=(int)nelems; MPI_Aint esz=(MPI_Aint)mt_size[mt]; MPI_Datatype el=bt, t1;
                int *bl=malloc(sizeof(int)*n_), *di=malloc(sizeof(int)*n_); MPI_Aint *ad=malloc(sizeof(MPI_Aint)*n_);
                for(int e=0;e<n_;e++){ bl[e]=1; di[e]=e*k; ad[e]=(MPI_Aint)e*k*esz; }
                switch (lk) {
                  case 'h': MPI_Type_create_hvector(n_,1,(MPI_Aint)k*esz,el,&dt); break;
                  case 'x': MPI_Type_indexed(n_,bl,di,el,&dt); break;
                  case 'b': MPI_Type_create_indexed_block(n_,1,di,el,&dt); break;
                  case 'H': MPI_Type_create_hindexed(n_,bl,ad,el,&dt); break;
                  case 's': { int sizes[2]={n_,k}, sub[2]={n_,1}, sta[2]={0,0}; MPI_Type_create_subarray(2,sizes,sub,sta,MPI_ORDER_C,el,&dt); } break;
                  case 'S': { MPI_Type_vector(n_,1,k,el,&t1); int one=1; MPI_Aint z=0; MPI_Type_create_struct(1,&one,&z,&t1,&dt); MPI_Type_free(&t1); } break;
                  case 'n': MPI_Type_create_resized(el,0,(MPI_Aint)k*esz,&t1); MPI_Type_contiguous(n_,t1,&dt); MPI_Type_free(&t1); break;
                  default:  MPI_Type_vector(n_,1,k,el,&t1); MPI_Type_dup(t1,&dt); MPI_Type_free(&t1); break;
                }
                MPI_Type_commit(&dt); hasdt=1; bt=dt; bc=1; free(bl); free(di); free(ad);
            } else
            if (k>1 && !imapspan && !resized) { MPI_Type_vector((int)nelems,1,k,bt,&dt); MPI_Type_commit(&dt); hasdt=1; bt=dt; bc=1; }
            if (k>1 && !imapspan && resized) { /* one field of an array of structs: resized(base, lb 0, extent k*size), bufcount = nelems */
                MPI_Type_create_resized(bt,0,(MPI_Aint)(k*mt_size[mt]),&dt); MPI_Type_commit(&dt); hasdt=1; bt=dt; bc=nelems; }
            if (imapspan) { bc = imapspan; }
            int reqid=NC_REQ_NULL;
            const MPI_Offset *pst=st,*pct=ct,*psd=sd,*pim=im;
            if (form==F_VARS||form==F_VARM) { int allone=1; for(int d=0;d<nd;d++) if(sd[d]!=1) allone=0; if (!strcmp(A(a-2),"-")) psd=NULL; (void)allone; }
            if (form==F_VARM) { if (!strcmp(A(a-1),"-")) pim=NULL; }
            if (form==F_VARN) {
                if (nb==0) { if (w) err = coll? ncmpi_put_varn_all(ncid,varid,nseg,sts,cts,data,bc,bt) : ncmpi_put_varn(ncid,varid,nseg,sts,cts,data,bc,bt);
                             else   err = coll? ncmpi_get_varn_all(ncid,varid,nseg,sts,cts,data,bc,bt) : ncmpi_get_varn(ncid,varid,nseg,sts,cts,data,bc,bt); }
                else if (nb==1) err = w? ncmpi_iput_varn(ncid,varid,nseg,sts,cts,data,bc,bt,&reqid) : ncmpi_iget_varn(ncid,varid,nseg,sts,cts,data,bc,bt,&reqid);
                else err = ncmpi_bput_varn(ncid,varid,nseg,sts,cts,data,bc,bt,&reqid);
            } else if (typed && !imapspan) err = typed_tab[mt](w,form,coll,nb,varid,pst,pct,psd,pim,data,&reqid);
            else if (typed && imapspan) err = typed_tab[mt](w,form,coll,nb,varid,pst,pct,psd,pim,data,&reqid);
            else err = flex(w,form,coll,nb,varid,pst,pct,psd,pim,data,bc,bt,&reqid);
            fprintf(out," %d",err);
            if (nb==0) {
                if (w) fprintf(out," buf=%s", memcmp(orig,raw,rawlen)?"CHANGED":"ok");
                else { fprintf(out," gap=%s", imapspan ? "ok" : (gaps_ok(raw,nelems,k,mt,rawlen)?"ok":"TOUCHED"));
                       if (err==NC_NOERR || err==NC_ERANGE) { fprintf(out," :");
                         if (imapspan) { size_t idx[MAXDIM]={0}; for(size_t e=0;e<nelems;e++){ size_t off=0; for(int d=0;d<nd;d++) off+=idx[d]*im[d]; print_elem(data,mt,off); for(int d=nd-1;d>=0;d--){ if(++idx[d]<(size_t)ct[d])break; idx[d]=0;} } }
                         else for(size_t e=0;e<nelems;e++) print_elem(data,mt,e*k); } }
                if (hasdt) MPI_Type_free(&dt); free(raw); free(orig);
            } else {
                if (err==NC_NOERR && nreqs_tab<MAXREQ) { req_t *r=&reqs[nreqs_tab++]; strncpy(r->name,rname,31); r->id=reqid; r->isget=!w; r->raw=raw; r->orig=orig; r->rawlen=rawlen; r->nelems=nelems; r->k=k; r->mt=mt; r->live=1; r->dt=dt; r->hasdt=hasdt;
                    if (nb==2) { /* bput: the data is captured at posting time; scribble over the user buffer now */ memset(data,0x5A,rawlen-2*GUARD); memcpy(r->orig,raw,rawlen); } }
                else { if (hasdt) MPI_Type_free(&dt); free(raw); free(orig); }
            }
            if (sts) { for(int q=0;q<nseg;q++){free(sts[q]); if(cts)free(cts[q]);} free(sts); if(cts)free(cts);}
        } else if (!strcmp(op,"wait")||!strcmp(op,"cancel")) {
            /* wait <c|i> <n> names...   ('NULL' = NC_REQ_NULL, 'BOGUS' = an id that was never issued) ; cancel <n> names... */
            int a=1; int coll=0; if (!strcmp(op,"wait")) coll=A(a++)[0]=='c'; int n=atoi(A(a++)); int ids[MAXREQ], sts_[MAXREQ]; req_t *rs[MAXREQ];
            for (int q=0;q<n;q++){ const char *nm=A(a+q); rs[q]=NULL; if(!strcmp(nm,"NULL")) ids[q]=NC_REQ_NULL; else if(!strcmp(nm,"BOGUS")) ids[q]=98764; else { rs[q]=find_req(nm); ids[q]=rs[q]?rs[q]->id:NC_REQ_NULL; } sts_[q]=-12345; }
            if (!strcmp(op,"cancel")) err=ncmpi_cancel(ncid,n,ids,sts_); else err = coll? ncmpi_wait_all(ncid,n,ids,sts_) : ncmpi_wait(ncid,n,ids,sts_);
            fprintf(out," %d st", err); for(int q=0;q<n;q++) fprintf(out," %d",sts_[q]); fprintf(out," ids"); for(int q=0;q<n;q++) fprintf(out," %s", ids[q]==NC_REQ_NULL?"N":"L");
            for (int q=0;q<n;q++) if (rs[q] && rs[q]->live) { req_t *r=rs[q]; int dup=0; for(int p=0;p<q;p++) if(rs[p]==r) dup=1; if(dup) continue;
                if (err==NC_NOERR || 1) { if (r->isget) { fprintf(out," | %s gap=%s :", r->name, gaps_ok(r->raw,r->nelems,r->k,r->mt,r->rawlen)?"ok":"TOUCHED"); if (!strcmp(op,"wait")) for(size_t e=0;e<r->nelems;e++) print_elem(r->raw+GUARD,r->mt,e*r->k); }
                    else fprintf(out," | %s buf=%s", r->name, memcmp(r->orig,r->raw,r->rawlen)?"CHANGED":"ok"); }
                if (r->hasdt) MPI_Type_free(&r->dt); free(r->raw); free(r->orig); r->live=0; }
        } else if (!strcmp(op,"waitall")) { /* waitall <c|i> <ALL|GET|PUT> */
            int coll=A(1)[0]=='c'; int kind = !strcmp(A(2),"GET")?NC_GET_REQ_ALL:!strcmp(A(2),"PUT")?NC_PUT_REQ_ALL:NC_REQ_ALL;
            err = coll? ncmpi_wait_all(ncid,kind,NULL,NULL):ncmpi_wait(ncid,kind,NULL,NULL); fprintf(out," %d",err);
            for (int q=0;q<nreqs_tab;q++) if (reqs[q].live) { req_t *r=&reqs[q]; if ((kind==NC_GET_REQ_ALL && !r->isget)||(kind==NC_PUT_REQ_ALL && r->isget)) continue;
                if (r->isget) { fprintf(out," | %s gap=%s :", r->name, gaps_ok(r->raw,r->nelems,r->k,r->mt,r->rawlen)?"ok":"TOUCHED"); for(size_t e=0;e<r->nelems;e++) print_elem(r->raw+GUARD,r->mt,e*r->k); }
                else fprintf(out," | %s buf=%s", r->name, memcmp(r->orig,r->raw,r->rawlen)?"CHANGED":"ok");
                if (r->hasdt) MPI_Type_free(&r->dt); free(r->raw); free(r->orig); r->live=0; }
        } else { fprintf(out," -998 unknown-op"); }
        fprintf(out,"\n"); fflush(out); alarm(secs);
    }
    fclose(out); MPI_Finalize(); return 0;
}
