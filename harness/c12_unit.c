/* C12 unit correspondence: the library's real ncbbio_log_flush_core() (ncbbio_log_flush.c, burst
 * buffering build) is run on a hand-built in-memory log with a STUB lower driver that records which
 * entries are replayed in which round (each `wait` call closes a round).
 *   F <flushbuffersize> <n> v1:s1 v2:s2 ...      (v = 1 valid / 0 cancelled, s = data size in bytes)
 *   -> rounds as "i,j,k|l,m|..."  extra=<number of empty trailing waits>  status=<rc>
 * Every entry's data is its index repeated, so that the stub can also check that the data handed to
 * iput_var is the entry's own data:  data=ok|BAD
 */
#include <stdio.h>
#include <stdlib.h>
#include <string.h>
#include <unistd.h>
#include <fcntl.h>
#include <mpi.h>
#include <pnetcdf.h>
#include <dispatch.h>
#include <ncbbio_driver.h>

static int cur_round[4096], ncur = 0; static char outbuf[1<<20]; static int outpos = 0; static int extra = 0, any = 0, databad = 0;
static int next_req = 0;
static int stub_iput_var(void *ncp, int varid, const MPI_Offset *start, const MPI_Offset *count, const MPI_Offset *stride,
                         const MPI_Offset *imap, const void *buf, MPI_Offset bufcount, MPI_Datatype buftype, int *reqid, int reqMode) {
    /* varid carries the entry index; the first byte of the data must be (index & 0xff) if size > 0 */
    cur_round[ncur++] = varid;
    if (count[0] > 0 && ((const unsigned char*)buf)[0] != (unsigned char)(varid & 0xff)) databad = 1;
    if (count[0] > 1 && ((const unsigned char*)buf)[count[0]-1] != (unsigned char)(varid & 0xff)) databad = 1;
    *reqid = next_req++; return NC_NOERR; }
static int stub_iput_varn(void *ncp, int varid, int num, MPI_Offset* const *starts, MPI_Offset* const *counts, const void *buf,
                          MPI_Offset bufcount, MPI_Datatype buftype, int *reqid, int reqMode) { cur_round[ncur++] = varid; *reqid = next_req++; return NC_NOERR; }
static int stub_wait(void *ncp, int num, int *reqs, int *stats, int reqMode) {
    if (num == 0 && reqs == NULL) { extra++; return NC_NOERR; }
    if (any) outpos += sprintf(outbuf+outpos, "|");
    any = 1;
    for (int i=0;i<ncur;i++) outpos += sprintf(outbuf+outpos, "%s%d", i?",":"", cur_round[i]);
    if (num != ncur) outpos += sprintf(outbuf+outpos, "!num=%d", num);
    for (int i=0;i<num;i++) stats[i] = NC_NOERR;
    ncur = 0; return NC_NOERR; }

int main(int argc, char **argv) {
    MPI_Init(&argc,&argv);
    static char line[1<<16]; char tmpl[] = "/var/tmp/c12unit_XXXXXX";
    while (fgets(line, sizeof line, stdin)) {
        char *tok[4096]; int nt=0; char *s=strtok(line," \n"); while(s&&nt<4096){tok[nt++]=s; s=strtok(NULL," \n");}
        if (nt<3 || strcmp(tok[0],"F")) { printf("bad-op\n"); continue; }
        long long fbs = atoll(tok[1]); int n = atoi(tok[2]); if (nt < 3+n) { printf("bad-op\n"); continue; }
        NC_bb bb; memset(&bb,0,sizeof bb);
        struct PNC_driver drv; memset(&drv,0,sizeof drv); drv.iput_var=stub_iput_var; drv.iput_varn=stub_iput_varn; drv.wait=stub_wait;
        bb.ncmpio_driver=&drv; bb.comm=MPI_COMM_SELF; bb.flag=0; bb.flushbuffersize=fbs;
        /* metadata buffer: header + entries (1-D vara entries: start,count,stride = 3 MPI_Offsets) */
        size_t esz = sizeof(NC_bb_metadataentry) + 3*sizeof(MPI_Offset);
        size_t hsz = sizeof(NC_bb_metadataheader) + 16; hsz = (hsz+7)/8*8;
        char *meta = calloc(1, hsz + esz*(n+1));
        NC_bb_metadataheader *hp=(NC_bb_metadataheader*)meta; hp->entry_begin=hsz; hp->num_entries=n;
        bb.metadata.buffer=meta; bb.metadata.nused=hsz+esz*n; bb.metadata.nalloc=hsz+esz*(n+1);
        bb.metaidx.entries=calloc(n+1,sizeof(NC_bb_metadataptr)); bb.metaidx.nused=n; bb.metaidx.nalloc=n+1;
        bb.entrydatasize.values=calloc(n+1,sizeof(size_t)); bb.entrydatasize.nused=n; bb.entrydatasize.nalloc=n+1;
        strcpy(tmpl,"/var/tmp/c12unit_XXXXXX"); int fd=mkstemp(tmpl); unlink(tmpl);
        char hdr8[8]={0}; if (write(fd,hdr8,8)!=8) {}
        size_t total=0, maxe=0; MPI_Offset off=8;
        for (int i=0;i<n;i++) {
            int valid=0; long long sz=0; sscanf(tok[3+i],"%d:%lld",&valid,&sz);
            NC_bb_metadataentry *e=(NC_bb_metadataentry*)(meta+hsz+esz*i);
            e->esize=esz; e->api_kind=NC_LOG_API_KIND_VARA; e->itype=NC_LOG_TYPE_SCHAR; e->varid=i; e->ndims=1; e->data_off=off; e->data_len=sz;
            MPI_Offset *sc=(MPI_Offset*)(e+1); sc[0]=0; sc[1]=sz; sc[2]=1;
            bb.metaidx.entries[i].ptr=e; bb.metaidx.entries[i].valid=valid; bb.metaidx.entries[i].reqid=-1;
            bb.entrydatasize.values[i]=sz;
            char *d=malloc(sz+1); memset(d,i&0xff,sz); if (write(fd,d,sz)!=sz) {} free(d);
            off+=sz; total+=sz; if ((size_t)sz>maxe) maxe=sz;
        }
        bb.datalogsize=total+8; bb.maxentrysize=maxe;
        NC_bb_sharedfile sf; memset(&sf,0,sizeof sf); sf.fd=fd; sf.chanel=0; sf.nchanel=1; sf.fsize=total+8; bb.datalog_fd=&sf;
        ncur=0; outpos=0; outbuf[0]=0; extra=0; any=0; databad=0; next_req=0;
        alarm(10);
        int rc = ncbbio_log_flush_core(&bb);
        alarm(0);
        printf("%s extra=%d status=%d data=%s\n", outbuf, extra, rc, databad?"BAD":"ok");
        close(fd); free(meta); free(bb.metaidx.entries); free(bb.entrydatasize.values);
    }
    MPI_Finalize(); return 0;
}
