/*
 * C04 public-API harness: opens each listed file with ncmpi_open on MPI_COMM_WORLD and prints every
 * inquiry and the data of every variable.
 *
 *   usage: c04_api <list-file> <output-prefix>
 *   list line:    <path> [<hint>=<value>]...      hints go into the MPI_Info given to ncmpi_open; the pseudo hint
 *                 PNETCDF_SAFE_MODE=<0|1> sets that environment variable for the open instead
 *   besides the by-id inquiries every object is also looked up BY NAME (ncmpi_inq_dimid, ncmpi_inq_varid,
 *   ncmpi_inq_attid for global and per-variable attributes): a failed or wrong lookup is reported as
 *   APIERR <err> byname-<kind>-<index>
 *   answer line (file <output-prefix>.<rank>):
 *     OK <fmt> <numrecs|0> <ndims> {name len}* <ngatts> {att}* <nvars> {name ndims dimid* natts att* type 0 begin}*
 *        | <header_size> <header_extent> <recsize> <unlimdimid> <num_rec_vars> <num_fix_vars>
 *        | <data of var 0 as big-endian hex> <var 1> ...            (ncmpi_get_var_<type>_all)
 *        | <upper-half block of var 0> <var 1> ...                  (ncmpi_get_vara_all with start = len/2 in every dimension)
 *     ERR <code>
 *   att = name type nelems valuehex (big-endian external representation)
 */
#include <stdio.h>
#include <stdlib.h>
#include <string.h>
#include <unistd.h>
#include <sys/resource.h>
#include <mpi.h>
#include <pnetcdf.h>

static void hex(FILE *o, const void *p, size_t n) {
    const unsigned char *c = (const unsigned char*)p;
    size_t i;
    if (n == 0) { fputs("-", o); return; }
    for (i = 0; i < n; i++) fprintf(o, "%02x", c[i]);
}
static int tsize(nc_type t) {
    switch (t) {
        case NC_BYTE: case NC_CHAR: case NC_UBYTE: return 1;
        case NC_SHORT: case NC_USHORT: return 2;
        case NC_INT: case NC_UINT: case NC_FLOAT: return 4;
        default: return 8;
    }
}
/* native little-endian elements -> big-endian external bytes */
static void hexbe(FILE *o, const void *p, size_t nelems, int sz) {
    const unsigned char *c = (const unsigned char*)p;
    size_t i; int k;
    if (nelems == 0) { fputs("-", o); return; }
    for (i = 0; i < nelems; i++)
        for (k = sz - 1; k >= 0; k--) fprintf(o, "%02x", c[i * sz + k]);
}
#define CHK(e) do { if ((e) != NC_NOERR) { fprintf(out, " APIERR %d line %d\n", (e), __LINE__); goto next; } } while (0)

static int get_att(int ncid, int varid, const char *name, nc_type t, void *buf) {
    switch (t) {
        case NC_BYTE:   return ncmpi_get_att_schar(ncid, varid, name, buf);
        case NC_CHAR:   return ncmpi_get_att_text(ncid, varid, name, buf);
        case NC_SHORT:  return ncmpi_get_att_short(ncid, varid, name, buf);
        case NC_INT:    return ncmpi_get_att_int(ncid, varid, name, buf);
        case NC_FLOAT:  return ncmpi_get_att_float(ncid, varid, name, buf);
        case NC_DOUBLE: return ncmpi_get_att_double(ncid, varid, name, buf);
        case NC_UBYTE:  return ncmpi_get_att_uchar(ncid, varid, name, buf);
        case NC_USHORT: return ncmpi_get_att_ushort(ncid, varid, name, buf);
        case NC_UINT:   return ncmpi_get_att_uint(ncid, varid, name, buf);
        case NC_INT64:  return ncmpi_get_att_longlong(ncid, varid, name, buf);
        case NC_UINT64: return ncmpi_get_att_ulonglong(ncid, varid, name, buf);
        default: return NC_EBADTYPE;
    }
}
static int get_var(int ncid, int varid, nc_type t, void *buf) {
    switch (t) {
        case NC_BYTE:   return ncmpi_get_var_schar_all(ncid, varid, buf);
        case NC_CHAR:   return ncmpi_get_var_text_all(ncid, varid, buf);
        case NC_SHORT:  return ncmpi_get_var_short_all(ncid, varid, buf);
        case NC_INT:    return ncmpi_get_var_int_all(ncid, varid, buf);
        case NC_FLOAT:  return ncmpi_get_var_float_all(ncid, varid, buf);
        case NC_DOUBLE: return ncmpi_get_var_double_all(ncid, varid, buf);
        case NC_UBYTE:  return ncmpi_get_var_uchar_all(ncid, varid, buf);
        case NC_USHORT: return ncmpi_get_var_ushort_all(ncid, varid, buf);
        case NC_UINT:   return ncmpi_get_var_uint_all(ncid, varid, buf);
        case NC_INT64:  return ncmpi_get_var_longlong_all(ncid, varid, buf);
        case NC_UINT64: return ncmpi_get_var_ulonglong_all(ncid, varid, buf);
        default: return NC_EBADTYPE;
    }
}

static int dump_atts(FILE *out, int ncid, int varid, int natts) {
    int i, err;
    fprintf(out, " %d", natts);
    for (i = 0; i < natts; i++) {
        char name[NC_MAX_NAME + 1];
        nc_type t; MPI_Offset n; void *buf;
        err = ncmpi_inq_attname(ncid, varid, i, name); if (err) return err;
        err = ncmpi_inq_att(ncid, varid, name, &t, &n); if (err) return err;
        { int id2 = -1; err = ncmpi_inq_attid(ncid, varid, name, &id2);
          if (err != NC_NOERR || id2 != i) return err != NC_NOERR ? err : NC_ENOTATT; }
        buf = calloc((size_t)n + 1, 8);
        if (n > 0) { err = get_att(ncid, varid, name, t, buf); if (err) { free(buf); return err; } }
        fputc(' ', out); hex(out, name, strlen(name));
        fprintf(out, " %d %lld ", (int)t, (long long)n);
        hexbe(out, buf, (size_t)n, tsize(t));
        free(buf);
    }
    return NC_NOERR;
}

int main(int argc, char **argv) {
    int rank;
    char line[8192], path[4096], outname[4096];
    FILE *in, *out;
    MPI_Init(&argc, &argv);
    MPI_Comm_rank(MPI_COMM_WORLD, &rank);
    { struct rlimit rl; rl.rlim_cur = rl.rlim_max = (rlim_t)6 << 30; setrlimit(RLIMIT_AS, &rl); } /* a runaway allocation is a result, not a stuck machine */
    if (argc < 3) { fprintf(stderr, "usage\n"); MPI_Abort(MPI_COMM_WORLD, 2); }
    in = fopen(argv[1], "r");
    snprintf(outname, sizeof outname, "%s.%d", argv[2], rank);
    out = fopen(outname, "w");
    if (!in || !out) { fprintf(stderr, "cannot open\n"); MPI_Abort(MPI_COMM_WORLD, 2); }
    while (fgets(line, sizeof line, in)) {
        int ncid, err, fmt, ndims, nvars, ngatts, unlim, i, j;
        MPI_Offset numrecs = 0, hsize, hext, recsize;
        MPI_Offset dimlen[4096];
        MPI_Info info = MPI_INFO_NULL;
        char *tk, *save = NULL;
        tk = strtok_r(line, " \n", &save);
        if (!tk) continue;
        strncpy(path, tk, sizeof path - 1); path[sizeof path - 1] = 0;
        unsetenv("PNETCDF_SAFE_MODE");
        while ((tk = strtok_r(NULL, " \n", &save)) != NULL) {
            char *eq = strchr(tk, '=');
            if (!eq) continue;
            *eq = 0;
            if (!strcmp(tk, "PNETCDF_SAFE_MODE")) { setenv("PNETCDF_SAFE_MODE", eq + 1, 1); continue; }
            if (info == MPI_INFO_NULL) MPI_Info_create(&info);
            MPI_Info_set(info, tk, eq + 1);
        }
        alarm(10);   /* per-request watchdog: a hang is a result (the driver script restarts after it) */
        err = ncmpi_open(MPI_COMM_WORLD, path, NC_NOWRITE, info, &ncid);
        if (info != MPI_INFO_NULL) MPI_Info_free(&info);
        if (err != NC_NOERR) { fprintf(out, "ERR %d\n", err); fflush(out); continue; }
        err = ncmpi_inq_format(ncid, &fmt); CHK(err);
        err = ncmpi_inq(ncid, &ndims, &nvars, &ngatts, &unlim); CHK(err);
        if (unlim >= 0) { err = ncmpi_inq_dimlen(ncid, unlim, &numrecs); CHK(err); }
        fprintf(out, "OK %d %lld %d", fmt, (long long)numrecs, ndims);
        for (i = 0; i < ndims; i++) {
            char name[NC_MAX_NAME + 1]; MPI_Offset len;
            err = ncmpi_inq_dim(ncid, i, name, &len); CHK(err);
            { int id2 = -1; err = ncmpi_inq_dimid(ncid, name, &id2);
              if (err != NC_NOERR || id2 != i) { fprintf(out, " APIERR %d byname-dim-%d\n", err, i); goto next; } }
            if (i < 4096) dimlen[i] = len;
            fputc(' ', out); hex(out, name, strlen(name));
            fprintf(out, " %lld", (long long)(i == unlim ? 0 : len));
        }
        err = dump_atts(out, ncid, NC_GLOBAL, ngatts); CHK(err);
        fprintf(out, " %d", nvars);
        for (i = 0; i < nvars; i++) {
            char name[NC_MAX_NAME + 1]; nc_type t; int nd, dimids[1024], natts; MPI_Offset off;
            err = ncmpi_inq_varndims(ncid, i, &nd); CHK(err);
            if (nd > 1024) { fprintf(out, " TOOMANYDIMS\n"); goto next; }
            err = ncmpi_inq_var(ncid, i, name, &t, &nd, dimids, &natts); CHK(err);
            err = ncmpi_inq_varoffset(ncid, i, &off); CHK(err);
            { int id2 = -1; err = ncmpi_inq_varid(ncid, name, &id2);
              if (err != NC_NOERR || id2 != i) { fprintf(out, " APIERR %d byname-var-%d\n", err, i); goto next; } }
            fputc(' ', out); hex(out, name, strlen(name));
            fprintf(out, " %d", nd);
            for (j = 0; j < nd; j++) fprintf(out, " %d", dimids[j]);
            err = dump_atts(out, ncid, i, natts); CHK(err);
            fprintf(out, " %d 0 %lld", (int)t, (long long)off);
        }
        err = ncmpi_inq_header_size(ncid, &hsize); CHK(err);
        err = ncmpi_inq_header_extent(ncid, &hext); CHK(err);
        err = ncmpi_inq_recsize(ncid, &recsize); CHK(err);
        { int nrecv = -1, nfixv = -1;
          err = ncmpi_inq_num_rec_vars(ncid, &nrecv); CHK(err);
          err = ncmpi_inq_num_fix_vars(ncid, &nfixv); CHK(err);
          fprintf(out, " | %lld %lld %lld %d %d %d |", (long long)hsize, (long long)hext, (long long)recsize, unlim, nrecv, nfixv); }
        for (i = 0; i < nvars; i++) {
            nc_type t; int nd, dimids[1024]; MPI_Offset n = 1; void *buf;
            err = ncmpi_inq_var(ncid, i, NULL, &t, &nd, dimids, NULL); CHK(err);
            for (j = 0; j < nd; j++) n *= (dimids[j] == unlim) ? numrecs : dimlen[dimids[j]];
            buf = calloc((size_t)n + 1, 8);
            err = get_var(ncid, i, t, buf);
            if (err != NC_NOERR) { free(buf); fprintf(out, " APIERR %d var %d\n", err, i); goto next; }
            fputc(' ', out); hexbe(out, buf, (size_t)n, tsize(t));
            free(buf);
        }
        fputs(" |", out);
        for (i = 0; i < nvars; i++) {
            /* the upper half of every dimension, through the flexible vara API (dispatcher shape cache + driver) */
            nc_type t; int nd, dimids[1024], nd2; MPI_Offset n = 1, start[1024], count[1024]; void *buf;
            static const MPI_Datatype mt[12] = { 0 };
            MPI_Datatype bt;
            err = ncmpi_inq_varndims(ncid, i, &nd2); CHK(err);
            err = ncmpi_inq_var(ncid, i, NULL, &t, &nd, dimids, NULL); CHK(err);
            if (nd != nd2) { fprintf(out, " APIERR 0 varndims-%d\n", i); goto next; }
            { int ids2[1024]; err = ncmpi_inq_vardimid(ncid, i, ids2); CHK(err);
              for (j = 0; j < nd; j++) if (ids2[j] != dimids[j]) { fprintf(out, " APIERR 0 vardimid-%d\n", i); goto next; } }
            for (j = 0; j < nd; j++) {
                MPI_Offset len = (dimids[j] == unlim) ? numrecs : dimlen[dimids[j]];
                start[j] = len / 2; count[j] = len - len / 2; n *= count[j];
            }
            switch (t) {
                case NC_BYTE: bt = MPI_SIGNED_CHAR; break; case NC_CHAR: bt = MPI_CHAR; break; case NC_SHORT: bt = MPI_SHORT; break;
                case NC_INT: bt = MPI_INT; break; case NC_FLOAT: bt = MPI_FLOAT; break; case NC_DOUBLE: bt = MPI_DOUBLE; break;
                case NC_UBYTE: bt = MPI_UNSIGNED_CHAR; break; case NC_USHORT: bt = MPI_UNSIGNED_SHORT; break; case NC_UINT: bt = MPI_UNSIGNED; break;
                case NC_INT64: bt = MPI_LONG_LONG_INT; break; default: bt = MPI_UNSIGNED_LONG_LONG; break;
            }
            (void)mt;
            buf = calloc((size_t)n + 1, 8);
            err = ncmpi_get_vara_all(ncid, i, start, count, buf, n, bt);
            if (err != NC_NOERR) { free(buf); fprintf(out, " APIERR %d vara-%d\n", err, i); goto next; }
            fputc(' ', out); hexbe(out, buf, (size_t)n, tsize(t));
            free(buf);
        }
        fputc('\n', out);
next:
        fflush(out);
        ncmpi_close(ncid);
    }
    fclose(out);
    MPI_Finalize();
    return 0;
}
