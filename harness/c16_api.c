/*
 * C16 API-level harness: the script interpreter of harness/c06_api.c with the PMPI recorder of
 * MPI_Type_create_hindexed switched on (op `plan` prints the file view fillerup_aggregate built on
 * this rank since the last `planreset`).
 */
#define WITH_FILL_PLAN 1
#include "c06_api.c"
