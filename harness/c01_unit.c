/* C01 unit correspondence: calls the library's static stride_flatten() and ncmpio_first_offset()
 * (reached by #include of the scratch tree's ncmpio_filetype.c) on hand-built NC / NC_var objects.
 *   SF <isrec> <xsz> <recsize> <ndims> shape.. start.. count.. stride..   ->  <seglen> <nblocks> disps...
 *   RC <isrec> <numRecVars> <ndims> shape.. start.. count..                   ->  0|1
 *   FO <isrec> <xsz> <recsize> <begin> <ndims> shape.. start..            ->  <offset>
 */
#include <stdio.h>
#include <stdlib.h>
#include <string.h>
#include "ncmpio_filetype.c"

int main(void) {
    static char line[1<<16];
    while (fgets(line, sizeof line, stdin)) {
        char *tok[512]; int nt=0; char *s=strtok(line," \n"); while(s&&nt<512){tok[nt++]=s; s=strtok(NULL," \n");}
        if (nt<5) { printf("bad-op\n"); continue; }
        NC_var var; memset(&var,0,sizeof var); NC nc; memset(&nc,0,sizeof nc);
        MPI_Offset shape[16], dsizes[16], start[16], count[16], stride[16];
        if (!strcmp(tok[0],"SF")) {
            int isrec=atoi(tok[1]); var.xsz=atoi(tok[2]); MPI_Offset recsize=atoll(tok[3]); int nd=atoi(tok[4]); int a=5;
            for(int d=0;d<nd;d++) shape[d]=atoll(tok[a++]); for(int d=0;d<nd;d++) start[d]=atoll(tok[a++]);
            for(int d=0;d<nd;d++) count[d]=atoll(tok[a++]); for(int d=0;d<nd;d++) stride[d]=atoll(tok[a++]);
            if (isrec) shape[0]=NC_UNLIMITED; var.ndims=nd; var.shape=shape;
            MPI_Offset nblocks=0, *blocklens=NULL; MPI_Aint *disps=NULL;
            stride_flatten(&var, recsize, start, count, stride, &nblocks, &blocklens, &disps);
            printf("%lld %lld", nblocks>0?(long long)blocklens[0]:0LL, (long long)nblocks);
            for (MPI_Offset i=0;i<nblocks;i++) printf(" %lld",(long long)disps[i]);
            printf("\n");
            if (blocklens) NCI_Free(blocklens); if (disps) NCI_Free(disps);
        } else if (!strcmp(tok[0],"FO")) {
            int isrec=atoi(tok[1]); var.xsz=atoi(tok[2]); nc.recsize=atoll(tok[3]); var.begin=atoll(tok[4]); int nd=atoi(tok[5]); int a=6;
            for(int d=0;d<nd;d++) shape[d]=atoll(tok[a++]); for(int d=0;d<nd;d++) start[d]=atoll(tok[a++]);
            if (isrec) shape[0]=NC_UNLIMITED; var.ndims=nd; var.shape=shape; var.dsizes=dsizes;
            /* dsizes as ncmpio_NC_var_shape64 computes them: products from the right, record dim excluded */
            if (nd>0) { dsizes[nd-1] = (nd-1==0&&isrec)?1:shape[nd-1]; for(int d=nd-2;d>=0;d--) dsizes[d] = dsizes[d+1] * ((d==0&&isrec)?1:shape[d]); }
            MPI_Offset off=-1; ncmpio_first_offset(&nc,&var,start,&off); printf("%lld\n",(long long)off);
        } else if (!strcmp(tok[0],"RC")) { /* RC <isrec> <numRecVars> <nd> shape.. start.. count.. -> is_request_contiguous */
            int isrec=atoi(tok[1]), nrv=atoi(tok[2]), nd=atoi(tok[3]); int a=4;
            for(int d=0;d<nd;d++) shape[d]=atoll(tok[a++]); for(int d=0;d<nd;d++) start[d]=atoll(tok[a++]);
            for(int d=0;d<nd;d++) count[d]=atoll(tok[a++]);
            if (isrec) shape[0]=NC_UNLIMITED;
            printf("%d\n", is_request_contiguous(isrec, nrv, nd, shape, start, count));
        } else printf("bad-op\n");
    }
    return 0;
}
