/*
 * C07 correspondence harness: executes the request lines of lean/Driver/C07.lean on the real library
 * through the public API (ncmpi_*), plus one internal peek (TAB: the nameT bucket lists, reached
 * through PNC_check_id -> pncp->ncp) so that bucket placement can be compared with the model.
 *
 *   usage: c07_meta <scratch dir>      requests on stdin, one answer per line on stdout
 *
 * name token = <raw hex>:<nfc hex>:<legal>   — only the raw bytes are used here.
 */
#ifdef HAVE_CONFIG_H
#include <config.h>
#endif
#include <stdio.h>
#include <stdlib.h>
#include <string.h>
#include <unistd.h>
#include <mpi.h>
#include <pnetcdf.h>
#include <dispatch.h>
#include "ncmpio_NC.h"

#define NSLOT 2
#define MAXTOK 70000
static int ncid[NSLOT] = {-1, -1};
static int isopen[NSLOT] = {0, 0};
static char path[NSLOT][1024];
static char *tok[MAXTOK];
static int ntok;

static int hexv(int c) {
    if (c >= '0' && c <= '9') return c - '0';
    if (c >= 'a' && c <= 'f') return c - 'a' + 10;
    if (c >= 'A' && c <= 'F') return c - 'A' + 10;
    return 0;
}
/* decode the raw part of a name token into a NUL-terminated C string */
static char *rawname(const char *t, char *buf) {
    int n = 0;
    if (t[0] == '-') { buf[0] = 0; return buf; }
    while (t[0] && t[0] != ':' && t[1]) { buf[n++] = (char)(hexv(t[0]) * 16 + hexv(t[1])); t += 2; }
    buf[n] = 0;
    return buf;
}
static void puthex(const char *s) {
    if (!*s) { printf("-"); return; }
    for (; *s; s++) printf("%02x", (unsigned char)*s);
}
static MPI_Info mkinfo(const char *hd, const char *hv, const char *hg, const char *ha) {
    MPI_Info info;
    MPI_Info_create(&info);
    MPI_Info_set(info, "nc_hash_size_dim", hd);
    MPI_Info_set(info, "nc_hash_size_var", hv);
    MPI_Info_set(info, "nc_hash_size_gattr", hg);
    MPI_Info_set(info, "nc_hash_size_vattr", ha);
    return info;
}

static void dump_atts(int id, int varid) {
    int k, natts = 0, e1, e2, e3, e4, attid;
    char nm[NC_MAX_NAME * 4 + 8];
    nc_type ty;
    MPI_Offset len, i;
    if (varid == NC_GLOBAL) ncmpi_inq_natts(id, &natts); else ncmpi_inq_varnatts(id, varid, &natts);
    for (k = 0; k < natts; k++) {
        nm[0] = 0; ty = 0; len = 0; attid = -1;
        e1 = ncmpi_inq_attname(id, varid, k, nm);
        e2 = ncmpi_inq_att(id, varid, nm, &ty, &len);
        if (e2 != NC_NOERR) { ty = 0; len = 0; }
        e3 = ncmpi_inq_attid(id, varid, nm, &attid);
        if (e3 != NC_NOERR) attid = -1;
        printf(" | A%d.%d %d ", varid, k, e1); puthex(nm);
        printf(" %d %d %lld %d %d", e2, (int)ty, (long long)len, e3, attid);
        if (ty == NC_CHAR) {
            char *b = (char *)calloc((size_t)len + 1, 1);
            e4 = ncmpi_get_att_text(id, varid, nm, b);
            printf(" %d ", e4);
            if (e4 != NC_NOERR || len == 0) printf("-");
            else for (i = 0; i < len; i++) printf("%s%d", i ? "," : "", (int)(unsigned char)b[i]);
            free(b);
        } else {
            long long *b = (long long *)calloc((size_t)len + 1, sizeof(long long));
            e4 = ncmpi_get_att_longlong(id, varid, nm, b);
            printf(" %d ", e4);
            if (e4 != NC_NOERR || len == 0) printf("-");
            else for (i = 0; i < len; i++) printf("%s%lld", i ? "," : "", b[i]);
            free(b);
        }
    }
}

static void dump(int id) {
    int nd = 0, nv = 0, ng = 0, ul = -1, i, j, e, e2, idn;
    char nm[NC_MAX_NAME * 4 + 8];
    ncmpi_inq(id, &nd, &nv, &ng, &ul);
    printf("nd=%d nv=%d ng=%d ul=%d", nd, nv, ng, ul);
    for (i = 0; i < nd; i++) {
        MPI_Offset len = 0;
        nm[0] = 0; idn = -1;
        e = ncmpi_inq_dim(id, i, nm, &len);
        e2 = ncmpi_inq_dimid(id, nm, &idn);
        if (e2 != NC_NOERR) idn = -1;
        printf(" | D%d %d ", i, e); puthex(nm); printf(" %lld %d %d", (long long)len, e2, idn);
    }
    dump_atts(id, NC_GLOBAL);
    for (i = 0; i < nv; i++) {
        nc_type ty = 0; int ndims = 0, natts = 0, *dimids;
        nm[0] = 0; idn = -1;
        ncmpi_inq_varndims(id, i, &ndims);
        dimids = (int *)calloc((size_t)ndims + 1, sizeof(int));
        e = ncmpi_inq_var(id, i, nm, &ty, &ndims, dimids, &natts);
        e2 = ncmpi_inq_varid(id, nm, &idn);
        if (e2 != NC_NOERR) idn = -1;
        printf(" | V%d %d ", i, e); puthex(nm); printf(" %d %d ", (int)ty, ndims);
        if (ndims == 0) printf("-");
        for (j = 0; j < ndims; j++) printf("%s%d", j ? "," : "", dimids[j]);
        printf(" %d %d %d", natts, e2, idn);
        free(dimids);
        dump_atts(id, i);
    }
}

static void showtab(const NC_nametable *T, int size) {
    int k, j, first = 1;
    printf("{");
    if (T != NULL)
        for (k = 0; k < size; k++) {
            if (T[k].num == 0) continue;
            printf("%s%d:", first ? "" : ";", k);
            first = 0;
            for (j = 0; j < T[k].num; j++) printf("%s%d", j ? "," : "", T[k].list[j]);
        }
    printf("}");
}

static void tabdump(int id) {
    PNC *pncp = NULL; NC *ncp; int i;
    if (PNC_check_id(id, &pncp) != NC_NOERR || pncp == NULL) { printf("badid"); return; }
    ncp = (NC *)pncp->ncp;
    printf("D"); showtab(ncp->dims.nameT, ncp->dims.hash_size);
    printf(" V"); showtab(ncp->vars.nameT, ncp->vars.hash_size);
    printf(" G"); showtab(ncp->attrs.nameT, ncp->attrs.hash_size);
    for (i = 0; i < ncp->vars.ndefined; i++) {
        printf(" A"); showtab(ncp->vars.value[i]->attrs.nameT, ncp->hash_size_attr);
    }
}

int main(int argc, char **argv) {
    static char line[4 * 1024 * 1024];
    char n1[NC_MAX_NAME * 8], n2[NC_MAX_NAME * 8];
    int s, s2, err, i;
    const char *dir = argc > 1 ? argv[1] : ".";

    MPI_Init(&argc, &argv);
    alarm(600);
    for (s = 0; s < NSLOT; s++) snprintf(path[s], sizeof(path[s]), "%s/c07_%d.nc", dir, s);

    while (fgets(line, sizeof(line), stdin)) {
        char *p;
        ntok = 0;
        for (p = strtok(line, " \n"); p && ntok < MAXTOK; p = strtok(NULL, " \n")) tok[ntok++] = p;
        if (ntok == 0) { printf("bad-op\n"); continue; }
        if (!strcmp(tok[0], "CFG")) { printf("cfg\n"); fflush(stdout); continue; }   /* model configuration only */
        s = ntok > 1 ? atoi(tok[1]) : 0;
        if (s < 0 || s >= NSLOT) { printf("bad-op\n"); continue; }
#define NEEDOPEN(sl) if (!isopen[sl]) { printf("closed\n"); fflush(stdout); continue; }
        if (!strcmp(tok[0], "CREATE") && ntok == 7) {
            int fmt = atoi(tok[2]);
            int cmode = NC_CLOBBER | (fmt == 5 ? NC_64BIT_DATA : fmt == 2 ? NC_64BIT_OFFSET : 0);
            MPI_Info info = mkinfo(tok[3], tok[4], tok[5], tok[6]);
            err = ncmpi_create(MPI_COMM_WORLD, path[s], cmode, info, &ncid[s]);
            MPI_Info_free(&info);
            isopen[s] = (err == NC_NOERR);
            printf("%d\n", err);
        } else if (!strcmp(tok[0], "OPEN") && ntok == 7) {
            MPI_Info info = mkinfo(tok[3], tok[4], tok[5], tok[6]);
            err = ncmpi_open(MPI_COMM_WORLD, path[s], atoi(tok[2]) ? NC_WRITE : NC_NOWRITE, info, &ncid[s]);
            MPI_Info_free(&info);
            isopen[s] = (err == NC_NOERR);
            printf("%d\n", err);
        } else if (!strcmp(tok[0], "CLOSE")) {
            NEEDOPEN(s)
            err = ncmpi_close(ncid[s]); isopen[s] = 0;
            printf("%d\n", err);
        } else if (!strcmp(tok[0], "ENDDEF")) {
            NEEDOPEN(s)
            printf("%d\n", ncmpi_enddef(ncid[s]));
        } else if (!strcmp(tok[0], "REDEF")) {
            NEEDOPEN(s)
            printf("%d\n", ncmpi_redef(ncid[s]));
        } else if (!strcmp(tok[0], "DEFDIM") && ntok == 4) {
            int id = -1;
            NEEDOPEN(s)
            err = ncmpi_def_dim(ncid[s], rawname(tok[2], n1), (MPI_Offset)atoll(tok[3]), &id);
            printf("%d %d\n", err, err == NC_NOERR ? id : -1);
        } else if (!strcmp(tok[0], "RENDIM") && ntok == 4) {
            NEEDOPEN(s)
            printf("%d\n", ncmpi_rename_dim(ncid[s], atoi(tok[2]), rawname(tok[3], n1)));
        } else if (!strcmp(tok[0], "DEFVAR") && ntok >= 5) {
            int id = -1, nd = atoi(tok[4]), *dimids;
            NEEDOPEN(s)
            dimids = (int *)calloc((size_t)nd + 1, sizeof(int));
            for (i = 0; i < nd && 5 + i < ntok; i++) dimids[i] = atoi(tok[5 + i]);
            err = ncmpi_def_var(ncid[s], rawname(tok[2], n1), (nc_type)atoi(tok[3]), nd, dimids, &id);
            free(dimids);
            printf("%d %d\n", err, err == NC_NOERR ? id : -1);
        } else if (!strcmp(tok[0], "RENVAR") && ntok == 4) {
            NEEDOPEN(s)
            printf("%d\n", ncmpi_rename_var(ncid[s], atoi(tok[2]), rawname(tok[3], n1)));
        } else if (!strcmp(tok[0], "PUTATT") && ntok >= 7) {
            int n = atoi(tok[6]);
            NEEDOPEN(s)
            if (tok[4][0] == 'T') {
                char *b = (char *)calloc((size_t)n + 1, 1);
                for (i = 0; i < n && 7 + i < ntok; i++) b[i] = (char)atoi(tok[7 + i]);
                err = ncmpi_put_att_text(ncid[s], atoi(tok[2]), rawname(tok[3], n1), (MPI_Offset)n, b);
                free(b);
            } else {
                long long *b = (long long *)calloc((size_t)n + 1, sizeof(long long));
                for (i = 0; i < n && 7 + i < ntok; i++) b[i] = atoll(tok[7 + i]);
                err = ncmpi_put_att_longlong(ncid[s], atoi(tok[2]), rawname(tok[3], n1), (nc_type)atoi(tok[5]),
                                             (MPI_Offset)n, b);
                free(b);
            }
            printf("%d\n", err);
        } else if (!strcmp(tok[0], "RENATT") && ntok == 5) {
            NEEDOPEN(s)
            printf("%d\n", ncmpi_rename_att(ncid[s], atoi(tok[2]), rawname(tok[3], n1), rawname(tok[4], n2)));
        } else if (!strcmp(tok[0], "DELATT") && ntok == 4) {
            NEEDOPEN(s)
            printf("%d\n", ncmpi_del_att(ncid[s], atoi(tok[2]), rawname(tok[3], n1)));
        } else if (!strcmp(tok[0], "COPYATT") && ntok == 6) {
            s2 = atoi(tok[4]);
            NEEDOPEN(s)
            if (s2 < 0 || s2 >= NSLOT || !isopen[s2]) { printf("closed\n"); continue; }
            printf("%d\n", ncmpi_copy_att(ncid[s], atoi(tok[2]), rawname(tok[3], n1), ncid[s2], atoi(tok[5])));
        } else if (!strcmp(tok[0], "GETATT") && ntok == 5) {
            nc_type ty = 0; MPI_Offset len = 0, k;
            int varid = atoi(tok[2]);
            NEEDOPEN(s)
            rawname(tok[3], n1);
            if (ncmpi_inq_att(ncid[s], varid, n1, &ty, &len) != NC_NOERR) len = 0;
            if (tok[4][0] == 'T') {
                char *b = (char *)calloc((size_t)len + 1, 1);
                err = ncmpi_get_att_text(ncid[s], varid, n1, b);
                printf("%d ", err);
                if (err != NC_NOERR || len == 0) printf("-");
                else for (k = 0; k < len; k++) printf("%s%d", k ? "," : "", (int)(unsigned char)b[k]);
                free(b);
            } else {
                long long *b = (long long *)calloc((size_t)len + 1, sizeof(long long));
                err = ncmpi_get_att_longlong(ncid[s], varid, n1, b);
                printf("%d ", err);
                if (err != NC_NOERR || len == 0) printf("-");
                else for (k = 0; k < len; k++) printf("%s%lld", k ? "," : "", b[k]);
                free(b);
            }
            printf("\n");
        } else if (!strcmp(tok[0], "INQDIMID") && ntok == 3) {
            int id = -1;
            NEEDOPEN(s)
            err = ncmpi_inq_dimid(ncid[s], rawname(tok[2], n1), &id);
            printf("%d %d\n", err, err == NC_NOERR ? id : -1);
        } else if (!strcmp(tok[0], "INQVARID") && ntok == 3) {
            int id = -1;
            NEEDOPEN(s)
            err = ncmpi_inq_varid(ncid[s], rawname(tok[2], n1), &id);
            printf("%d %d\n", err, err == NC_NOERR ? id : -1);
        } else if (!strcmp(tok[0], "INQATTID") && ntok == 4) {
            int id = -1;
            NEEDOPEN(s)
            err = ncmpi_inq_attid(ncid[s], atoi(tok[2]), rawname(tok[3], n1), &id);
            printf("%d %d\n", err, err == NC_NOERR ? id : -1);
        } else if (!strcmp(tok[0], "INQATT") && ntok == 4) {
            nc_type ty = 0; MPI_Offset len = 0;
            NEEDOPEN(s)
            err = ncmpi_inq_att(ncid[s], atoi(tok[2]), rawname(tok[3], n1), &ty, &len);
            if (err != NC_NOERR) { ty = 0; len = 0; }
            printf("%d %d %lld\n", err, (int)ty, (long long)len);
        } else if (!strcmp(tok[0], "DUMP")) {
            NEEDOPEN(s)
            dump(ncid[s]); printf("\n");
        } else if (!strcmp(tok[0], "DISK")) {
            int id2;
            NEEDOPEN(s)
            /* a second, read-only handle on the same file from the same process: sees what is on disk */
            err = ncmpi_open(MPI_COMM_SELF, path[s], NC_NOWRITE, MPI_INFO_NULL, &id2);
            if (err == NC_ENOTNC) printf("nodisk\n");
            else if (err != NC_NOERR) printf("openerr %d\n", err);
            else { dump(id2); printf("\n"); ncmpi_close(id2); }
        } else if (!strcmp(tok[0], "TAB")) {
            NEEDOPEN(s)
            tabdump(ncid[s]); printf("\n");
        } else {
            printf("bad-op\n");
        }
        fflush(stdout);
    }
    for (s = 0; s < NSLOT; s++) if (isopen[s]) ncmpi_close(ncid[s]);
    {
        MPI_Offset sz = 0;
        if (ncmpi_inq_malloc_size(&sz) == NC_NOERR) fprintf(stderr, "malloc_size %lld\n", (long long)sz);
    }
    MPI_Finalize();
    return 0;
}
