/*
 * C02 correspondence + oracle harness, API level ("nb" stream).
 *
 * Reads an op script (argv[1]); every rank executes the lines carrying its rank and writes one
 * answer line per op to <argv[2]>.<rank>.  File A receives the nonblocking requests, file B the
 * same requests as independent blocking calls at the moment the SPEC says they complete
 * (the `exp` list of a W line).  Lines starting with "D " are the property oracle (data
 * equivalence with the blocking calls, guard zones); all other lines are reproduced by the Lean
 * driver lean/Driver/C02.lean from the model and diffed.
 *
 * The pending queues are read straight out of `struct NC` (ncmpio_NC.h) after every op.
 *
 *   L <nvars> <begin_0> ... <begin_{n-1}> <recsize>          layout the script was generated for (checked)
 *   CASE <idx> <nranks> <abuf_bytes>
 *   P <rank> <h> <put|get|bput> <var> <a|s|m|n> <zero> <nsubs> <start0> <erange> <maxrec> <mt> <bl> <imap> <nreq> {start.. count..}* [stride..]
 *   W <rank> <c|i> <num> <hasst> <expn> <ntok> <tok>* <nexp> <h>*
 *   X <rank> <num> <hasst> <expn> <ntok> <tok>*
 *   B <rank> / E <rank>        begin/end independent data mode on file A
 *   END <rank>
 */
#include <stdio.h>
#include <stdlib.h>
#include <string.h>
#include <unistd.h>
#include <mpi.h>
#include <pnetcdf.h>
#include <dispatch.h>
#include "ncmpio_NC.h"

#define MAXH 128
#define MAXSUB 8
#define GUARD 32
#define SLACK 4096   /* readable zero bytes behind the rear guard (a known over-read must not crash the harness) */
#define NVARS 8
#define NREC0 3

static int rank, nprocs;
static FILE *out;
static char dir[512];

typedef struct {
    int used, kind, var, api, zero, mt, bl, imap, nreq, erange;
    MPI_Offset st[MAXSUB][4], ct[MAXSUB][4], stride[4];
    int has_stride;
    size_t nelems, memelems, esize, bytes;
    unsigned char *mem, *buf, *orig, *shadow;
    MPI_Datatype etype, buftype; MPI_Offset bufcount; int free_type;
    int id, posted, state; /* state 0 pending 1 done 2 cancelled */
} Req;
static Req R[MAXH];

/* schema */
static const char *vname[NVARS] = {"fi", "fs", "rd", "ri", "fb", "ff", "sc", "big"};
static nc_type vtype[NVARS] = {NC_INT, NC_SHORT, NC_DOUBLE, NC_INT, NC_BYTE, NC_FLOAT, NC_INT, NC_INT};
static int vnd[NVARS] = {2, 1, 2, 3, 1, 2, 0, 1};
static int visrec[NVARS] = {0, 0, 1, 1, 0, 0, 0, 0};
/* dims: t(unlim) y=6 x=8 z=12 w=4 */
static int vdims[NVARS][3] = {{1, 2, 0}, {3, 0, 0}, {0, 2, 0}, {0, 1, 2}, {3, 0, 0}, {1, 2, 0}, {0, 0, 0}, {4, 0, 0}};
static MPI_Offset dimlen[5] = {NC_UNLIMITED, 6, 8, 12, 4};

static MPI_Datatype mt2mpi(int mt, int var)
{
    switch (mt) {
    case 1: return MPI_INT;
    case 2: return MPI_DOUBLE;
    case 3: return MPI_SHORT;
    case 4: return MPI_FLOAT;
    case 5: return MPI_SIGNED_CHAR;
    case 6: return MPI_LONG_LONG_INT;
    default:
        switch (vtype[var]) {
        case NC_INT: return MPI_INT;
        case NC_SHORT: return MPI_SHORT;
        case NC_DOUBLE: return MPI_DOUBLE;
        case NC_FLOAT: return MPI_FLOAT;
        default: return MPI_SIGNED_CHAR;
        }
    }
}

static void setval(unsigned char *p, MPI_Datatype t, long v)
{
    if (t == MPI_INT) { int x = (int)v; memcpy(p, &x, 4); }
    else if (t == MPI_DOUBLE) { double x = (double)v; memcpy(p, &x, 8); }
    else if (t == MPI_SHORT) { short x = (short)v; memcpy(p, &x, 2); }
    else if (t == MPI_FLOAT) { float x = (float)v; memcpy(p, &x, 4); }
    else if (t == MPI_LONG_LONG_INT) { long long x = v; memcpy(p, &x, 8); }
    else { signed char x = (signed char)v; memcpy(p, &x, 1); }
}

static void qdump1(const char *nm, int nlead, int nreq, int maxid, NC_lead_req *ll, NC_req *l)
{
    int i;
    fprintf(out, "%s:%d,%d,%d[", nm, nlead, nreq, maxid);
    for (i = 0; i < nlead; i++)
        fprintf(out, "%s%d.%d.%d.%d", i ? " " : "", ll[i].id, ll[i].nonlead_off, ll[i].nonlead_num,
                (ll[i].flag & NC_REQ_TO_FREE) ? 1 : 0);
    fprintf(out, "]{");
    for (i = 0; i < nreq && l != NULL; i++) {
        long long xo = -1;
        if (l[i].lead_off >= 0 && l[i].lead_off < nlead) xo = (long long)((char *)l[i].xbuf - (char *)ll[l[i].lead_off].xbuf);
        fprintf(out, "%s%d:%lld:%lld", i ? " " : "", l[i].lead_off, (long long)l[i].nelems, xo);
    }
    fprintf(out, "}");
}

static void qdump(int ncid)
{
    PNC *p; NC *ncp;
    PNC_check_id(ncid, &p);
    ncp = (NC *)p->ncp;
    fprintf(out, " | ");
    qdump1("P", ncp->numLeadPutReqs, ncp->numPutReqs, ncp->maxPutReqID, ncp->put_lead_list, ncp->put_list);
    fprintf(out, " ");
    qdump1("G", ncp->numLeadGetReqs, ncp->numGetReqs, ncp->maxGetReqID, ncp->get_lead_list, ncp->get_list);
    if (nprocs == 1) fprintf(out, " R:%lld", (long long)ncp->numrecs);
    else fprintf(out, " R:*");   /* with several ranks numrecs depends on the other ranks' requests */
}

static int ncA = -1, ncB = -1, vidA[NVARS], vidB[NVARS], caseidx, dead;

/* elements whose file content is defined: the background records and everything a put of this case
   targets.  Unwritten parts of records added later are undefined in a netCDF file (MPI-IO data sieving
   may leave anything there) and are not compared. */
#define MAXRECS 16
#define MAXVSZ 64
static unsigned char defmask[NVARS][MAXRECS * MAXVSZ];

static size_t recelems(int v)
{
    size_t n = 1; int k;
    for (k = visrec[v] ? 1 : 0; k < vnd[v]; k++) n *= (size_t)dimlen[vdims[v][k]];
    return n;
}

static void mark_defined(Req *r)
{
    int nd = vnd[r->var], i;
    for (i = 0; i < r->nreq; i++) {
        MPI_Offset idx[4] = {0, 0, 0, 0}; int d, done = 0;
        for (d = 0; d < nd; d++) if (r->ct[i][d] <= 0) done = 1;
        while (!done) {
            size_t flat = 0;
            for (d = 0; d < nd; d++) {
                MPI_Offset pos = r->st[i][d] + idx[d] * (r->has_stride ? r->stride[d] : 1);
                MPI_Offset len = (d == 0 && visrec[r->var]) ? MAXRECS : dimlen[vdims[r->var][d]];
                flat = flat * (size_t)len + (size_t)pos;
            }
            if (flat < sizeof defmask[0]) defmask[r->var][flat] = 1;
            for (d = nd - 1; d >= 0; d--) { if (++idx[d] < r->ct[i][d]) break; idx[d] = 0; }
            if (d < 0) done = 1;
        }
        if (nd == 0) break;
    }
}

static int define_schema(const char *path, int *ncidp, int *vid, int oracle_file)
{
    int ncid, d[5], i, k, err;
    MPI_Info info = MPI_INFO_NULL;
    if (oracle_file) {
        /* file B is written by independent blocking calls of several ranks: without data sieving every
           noncontiguous write touches only its own bytes, so concurrent writers cannot lose each other's data */
        MPI_Info_create(&info);
        MPI_Info_set(info, "romio_ds_write", "disable");
        MPI_Info_set(info, "romio_ds_read", "disable");
    }
    err = ncmpi_create(MPI_COMM_WORLD, path, NC_CLOBBER | NC_64BIT_DATA, info, &ncid);
    if (info != MPI_INFO_NULL) MPI_Info_free(&info);
    if (err) return err;
    ncmpi_def_dim(ncid, "t", NC_UNLIMITED, &d[0]);
    ncmpi_def_dim(ncid, "y", 6, &d[1]);
    ncmpi_def_dim(ncid, "x", 8, &d[2]);
    ncmpi_def_dim(ncid, "z", 12, &d[3]);
    ncmpi_def_dim(ncid, "w", 4, &d[4]);
    for (i = 0; i < NVARS; i++) {
        int dd[3];
        for (k = 0; k < vnd[i]; k++) dd[k] = d[vdims[i][k]];
        err = ncmpi_def_var(ncid, vname[i], vtype[i], vnd[i], dd, &vid[i]);
        if (err) return err;
    }
    err = ncmpi_enddef(ncid);
    if (err) return err;
    /* background data, identical in A and B */
    for (i = 0; i < NVARS; i++) {
        MPI_Offset st[3] = {0, 0, 0}, ct[3], n = 1;
        int *tmp;
        for (k = 0; k < vnd[i]; k++) { ct[k] = (k == 0 && visrec[i]) ? NREC0 : dimlen[vdims[i][k]]; n *= ct[k]; }
        tmp = (int *)malloc(sizeof(int) * (size_t)n);
        for (k = 0; k < n; k++) tmp[k] = (i == 7) ? 100000 + k : (i * 17 + k) % 20 + 100;
        if (rank != 0) for (k = 0; k < vnd[i]; k++) ct[k] = 0;
        err = ncmpi_put_vara_int_all(ncid, vid[i], st, ct, tmp);
        free(tmp);
        if (err) return err;
    }
    *ncidp = ncid;
    return NC_NOERR;
}

static void free_req(Req *r)
{
    if (!r->used) return;
    free(r->mem); free(r->orig); free(r->shadow);
    if (r->free_type) MPI_Type_free(&r->buftype);
    memset(r, 0, sizeof(*r));
}

static int guards_ok(Req *r)
{
    size_t i;
    for (i = 0; i < GUARD; i++)
        if (r->mem[i] != 0xA5 || r->mem[GUARD + r->bytes + i] != 0xA5) return 0;
    return 1;
}

/* the blocking call on file B that corresponds to request r, using buffer `b` */
static int blocking(Req *r, void *b)
{
    MPI_Offset imapv[4], *imapp = NULL, *stridep = r->has_stride ? r->stride : NULL;
    MPI_Datatype bt = r->buftype; MPI_Offset bc = r->bufcount;
    int nd = vnd[r->var], i;
    if (r->bl == 3) { bt = r->etype; bc = (MPI_Offset)r->nelems; }
    if (r->api == 'n') {
        MPI_Offset *sp[MAXSUB], *cp[MAXSUB];
        for (i = 0; i < r->nreq; i++) { sp[i] = r->st[i]; cp[i] = r->ct[i]; }
        if (r->kind == 1) return ncmpi_get_varn(ncB, vidB[r->var], r->nreq, sp, cp, b, bc, bt);
        return ncmpi_put_varn(ncB, vidB[r->var], r->nreq, sp, cp, b, bc, bt);
    }
    if (r->imap) {
        MPI_Offset m = 1;
        for (i = 0; i < nd; i++) { imapv[i] = m; m *= r->ct[0][i]; }
        imapp = imapv;
    }
    if (r->kind == 1) return ncmpi_get_varm(ncB, vidB[r->var], r->st[0], r->ct[0], stridep, imapp, b, bc, bt);
    return ncmpi_put_varm(ncB, vidB[r->var], r->st[0], r->ct[0], stridep, imapp, b, bc, bt);
}

static int post(Req *r)
{
    MPI_Offset imapv[4], *imapp = NULL, *stridep = r->has_stride ? r->stride : NULL;
    int nd = vnd[r->var], i, id = -777, err, v = vidA[r->var];
    if (r->api == 'n') {
        MPI_Offset *sp[MAXSUB], *cp[MAXSUB];
        for (i = 0; i < r->nreq; i++) { sp[i] = r->st[i]; cp[i] = r->ct[i]; }
        if (r->kind == 1) err = ncmpi_iget_varn(ncA, v, r->nreq, sp, cp, r->buf, r->bufcount, r->buftype, &id);
        else if (r->kind == 0) err = ncmpi_iput_varn(ncA, v, r->nreq, sp, cp, r->buf, r->bufcount, r->buftype, &id);
        else err = ncmpi_bput_varn(ncA, v, r->nreq, sp, cp, r->buf, r->bufcount, r->buftype, &id);
        r->id = id;
        return err;
    }
    if (r->imap) {
        MPI_Offset m = 1;
        for (i = 0; i < nd; i++) { imapv[i] = m; m *= r->ct[0][i]; }
        imapp = imapv;
    }
    if (r->bl == 3) { /* typed high-level API, vara only */
        if (r->etype == MPI_INT) {
            if (r->kind == 1) err = ncmpi_iget_vara_int(ncA, v, r->st[0], r->ct[0], (int *)r->buf, &id);
            else if (r->kind == 0) err = ncmpi_iput_vara_int(ncA, v, r->st[0], r->ct[0], (int *)r->buf, &id);
            else err = ncmpi_bput_vara_int(ncA, v, r->st[0], r->ct[0], (int *)r->buf, &id);
        } else if (r->etype == MPI_DOUBLE) {
            if (r->kind == 1) err = ncmpi_iget_vara_double(ncA, v, r->st[0], r->ct[0], (double *)r->buf, &id);
            else if (r->kind == 0) err = ncmpi_iput_vara_double(ncA, v, r->st[0], r->ct[0], (double *)r->buf, &id);
            else err = ncmpi_bput_vara_double(ncA, v, r->st[0], r->ct[0], (double *)r->buf, &id);
        } else {
            if (r->kind == 1) err = ncmpi_iget_vara_short(ncA, v, r->st[0], r->ct[0], (short *)r->buf, &id);
            else if (r->kind == 0) err = ncmpi_iput_vara_short(ncA, v, r->st[0], r->ct[0], (short *)r->buf, &id);
            else err = ncmpi_bput_vara_short(ncA, v, r->st[0], r->ct[0], (short *)r->buf, &id);
        }
        r->id = id;
        return err;
    }
    if (r->kind == 1) err = ncmpi_iget_varm(ncA, v, r->st[0], r->ct[0], stridep, imapp, r->buf, r->bufcount, r->buftype, &id);
    else if (r->kind == 0) err = ncmpi_iput_varm(ncA, v, r->st[0], r->ct[0], stridep, imapp, r->buf, r->bufcount, r->buftype, &id);
    else err = ncmpi_bput_varm(ncA, v, r->st[0], r->ct[0], stridep, imapp, r->buf, r->bufcount, r->buftype, &id);
    r->id = id;
    return err;
}

/* the spec says these handles complete now: issue them on B (puts first, then gets), compare */
static void oracle_complete1(int nexp, int *exp);
/* with several ranks (every rank is inside the same collective wait) the ranks take turns */
static void oracle_complete(int nexp, int *exp, int coll)
{
    int r;
    if (!coll || nprocs == 1) { oracle_complete1(nexp, exp); return; }
    for (r = 0; r < nprocs; r++) {
        if (r == rank) oracle_complete1(nexp, exp);
        MPI_Barrier(MPI_COMM_WORLD);
    }
}

static void oracle_complete1(int nexp, int *exp)
{
    int k, pass;
    for (pass = 0; pass < 2; pass++)
        for (k = 0; k < nexp; k++) {
            Req *r = &R[exp[k]];
            int err;
            if (!r->used || !r->posted || r->state != 0) continue;
            if ((pass == 0) != (r->kind != 1)) continue;
            if (r->kind != 1) {
                err = blocking(r, r->orig);
                mark_defined(r);
                if (err != NC_NOERR) fprintf(out, "D blocking-put h%d err=%d\n", exp[k], err);
                /* the user buffer of a (non-buffered) put must be bit-identical after the wait */
                if (r->kind == 0 && memcmp(r->buf, r->orig, r->bytes) != 0)
                    fprintf(out, "D putbuf-changed h%d\n", exp[k]);
            } else {
                err = blocking(r, r->shadow);
                if (err != NC_NOERR && err != NC_ERANGE) fprintf(out, "D blocking-get h%d err=%d\n", exp[k], err);
                if (memcmp(r->buf, r->shadow, r->bytes) != 0) {
                    size_t i, nbad = 0, first = 0;
                    for (i = 0; i < r->bytes; i++) if (r->buf[i] != r->shadow[i]) { if (!nbad) first = i; nbad++; }
                    fprintf(out, "D getbuf-differs h%d var=%d nbad=%zu first=%zu of=%zu\n", exp[k], r->var, nbad, first, r->bytes);
                }
            }
            r->state = 1;
        }
}

static int tokid(const char *t)
{
    if (t[0] == 'N') return NC_REQ_NULL;
    if (t[0] == 'U') return atoi(t + 1);
    return R[atoi(t + 1)].id; /* h<k> : the id returned when it was posted */
}

static void print_ids(int n, int *ids)
{
    int i;
    fprintf(out, " ids=");
    if (n <= 0) fprintf(out, "-");
    for (i = 0; i < n; i++) fprintf(out, "%s%d", i ? "," : "", ids[i]);
}
static void print_st(int n, int *st, int hasst)
{
    int i;
    fprintf(out, " st=");
    if (!hasst || n <= 0) { fprintf(out, "-"); return; }
    for (i = 0; i < n; i++) fprintf(out, "%s%d", i ? "," : "", st[i]);
}

static void close_case(void)
{
    int i, nreqs = 0, err;
    /* anything the script left pending is cancelled; its get buffers must be untouched */
    ncmpi_inq_nreqs(ncA, &nreqs);
    if (nreqs > 0) ncmpi_cancel(ncA, NC_REQ_ALL, NULL, NULL);
    for (i = 0; i < MAXH; i++) {
        Req *r = &R[i];
        if (!r->used) continue;
        if (!guards_ok(r)) fprintf(out, "DE guard-overwritten h%d\n", i);
        if (r->kind == 1 && r->posted && r->state != 1 && !dead) {
            size_t k; int bad = 0;
            for (k = 0; k < r->bytes; k++) if (r->buf[k] != 0xEE) bad = 1;
            if (bad) fprintf(out, "DE uncompleted-get-modified h%d\n", i);
        }
        free_req(r);
    }
    {   PNC *p; NC *ncp; PNC_check_id(ncA, &p); ncp = (NC *)p->ncp;
        if (ncp->abuf != NULL) { err = ncmpi_buffer_detach(ncA); if (err) fprintf(out, "DE detach err=%d\n", err); } }
    ncmpi_end_indep_data(ncA); /* no-op error when already in collective mode */
    err = ncmpi_close(ncA); if (err) fprintf(out, "DE closeA err=%d\n", err);
    ncmpi_end_indep_data(ncB);
    err = ncmpi_close(ncB); if (err) fprintf(out, "DE closeB err=%d\n", err);
    ncA = ncB = -1;
    MPI_Allreduce(MPI_IN_PLACE, defmask, (int)sizeof defmask, MPI_UNSIGNED_CHAR, MPI_MAX, MPI_COMM_WORLD);
    if (rank == 0) { /* compare the two files variable by variable */
        char pa[600], pb[600]; int a, b, v, k, same = 1;
        MPI_Offset na = 0, nb = 0; int da, db;
        snprintf(pa, sizeof pa, "%s/A%d.nc", dir, caseidx);
        snprintf(pb, sizeof pb, "%s/B%d.nc", dir, caseidx);
        if (ncmpi_open(MPI_COMM_SELF, pa, NC_NOWRITE, MPI_INFO_NULL, &a) || ncmpi_open(MPI_COMM_SELF, pb, NC_NOWRITE, MPI_INFO_NULL, &b)) {
            fprintf(out, "DE reopen-failed\n");
        } else {
            ncmpi_inq_unlimdim(a, &da); ncmpi_inq_unlimdim(b, &db);
            ncmpi_inq_dimlen(a, da, &na); ncmpi_inq_dimlen(b, db, &nb);
            if (na != nb) { fprintf(out, "DE numrecs-differ A=%lld B=%lld\n", (long long)na, (long long)nb); same = 0; }
            for (v = 0; v < NVARS && na == nb; v++) {
                MPI_Offset n = 1; double *x, *y;
                for (k = 0; k < vnd[v]; k++) n *= (k == 0 && visrec[v]) ? na : dimlen[vdims[v][k]];
                if (n == 0) continue;
                x = (double *)calloc((size_t)n, 8); y = (double *)calloc((size_t)n, 8);
                ncmpi_get_var_double_all(a, v, x); ncmpi_get_var_double_all(b, v, y);
                for (k = 0; k < n; k++) if (defmask[v][k] && memcmp(&x[k], &y[k], 8)) {
                    fprintf(out, "DE file-differs var=%d elem=%d A=%g B=%g\n", v, k, x[k], y[k]); same = 0; break; }
                free(x); free(y);
            }
            ncmpi_close(a); ncmpi_close(b);
            fprintf(out, "DE file-compare %s\n", same ? "equal" : "DIFFERENT");
        }
        unlink(pa); unlink(pb);
    }
    MPI_Barrier(MPI_COMM_WORLD);
}

int main(int argc, char **argv)
{
    char line[8192], path[600];
    FILE *in;
    MPI_Init(&argc, &argv);
    MPI_Comm_rank(MPI_COMM_WORLD, &rank);
    MPI_Comm_size(MPI_COMM_WORLD, &nprocs);
    alarm(240);
    if (argc < 4) { fprintf(stderr, "usage: c02_nb script outprefix scratchdir\n"); MPI_Abort(MPI_COMM_WORLD, 2); }
    in = fopen(argv[1], "r");
    snprintf(path, sizeof path, "%s.%d", argv[2], rank);
    out = fopen(path, "w");
    snprintf(dir, sizeof dir, "%s", argv[3]);
    if (out) setvbuf(out, NULL, _IOLBF, 0);
    if (!in || !out) MPI_Abort(MPI_COMM_WORLD, 3);

    while (fgets(line, sizeof line, in)) {
        char *tok[512]; int nt = 0, lr;
        char *s = strtok(line, " \n");
        while (s && nt < 512) { tok[nt++] = s; s = strtok(NULL, " \n"); }
        if (nt == 0) continue;
        if (!strcmp(tok[0], "L")) { /* layout check is done when the first case is open */
            continue;
        }
        if (!strcmp(tok[0], "CASE")) {
            char pa[600], pb[600]; int err; MPI_Offset ab;
            caseidx = atoi(tok[1]); ab = atoll(tok[3]); dead = 0;
            snprintf(pa, sizeof pa, "%s/A%d.nc", dir, caseidx);
            snprintf(pb, sizeof pb, "%s/B%d.nc", dir, caseidx);
            {   int v; size_t k;
                memset(defmask, 0, sizeof defmask);
                for (v = 0; v < NVARS; v++) for (k = 0; k < (visrec[v] ? NREC0 : 1) * recelems(v); k++) defmask[v][k] = 1; }
            err = define_schema(pa, &ncA, vidA, 0); if (err) { fprintf(out, "D schemaA err=%d\n", err); }
            err = define_schema(pb, &ncB, vidB, 1); if (err) { fprintf(out, "D schemaB err=%d\n", err); }
            ncmpi_begin_indep_data(ncB);
            if (ab > 0) { err = ncmpi_buffer_attach(ncA, ab); if (err) fprintf(out, "D attach err=%d\n", err); }
            {   int v; MPI_Offset off, rs;
                fprintf(out, "CASE %d layout", caseidx);
                for (v = 0; v < NVARS; v++) { ncmpi_inq_varoffset(ncA, vidA[v], &off); fprintf(out, " %lld", (long long)off); }
                ncmpi_inq_recsize(ncA, &rs); fprintf(out, " %lld\n", (long long)rs); }
            continue;
        }
        lr = (nt > 1) ? atoi(tok[1]) : -1;
        if (lr != rank) continue;
        if (!strcmp(tok[0], "END")) { close_case(); fprintf(out, "END\n"); fflush(out); continue; }
        if (!strcmp(tok[0], "B")) { int e = ncmpi_begin_indep_data(ncA); fprintf(out, "B err=%d\n", e); continue; }
        if (!strcmp(tok[0], "E")) { int e = ncmpi_end_indep_data(ncA); fprintf(out, "E err=%d\n", e); continue; }
        if (dead) { fprintf(out, "DEAD\n"); continue; }
        if (!strcmp(tok[0], "P")) {
            int h = atoi(tok[2]), p = 13, i, k, nd, err; size_t m;
            Req *r = &R[h];
            free_req(r);
            r->used = 1;
            r->kind = !strcmp(tok[3], "put") ? 0 : !strcmp(tok[3], "get") ? 1 : 2;
            r->var = atoi(tok[4]); r->api = tok[5][0]; r->zero = atoi(tok[6]);
            r->erange = atoi(tok[9]); r->mt = atoi(tok[11]); r->bl = atoi(tok[12]); r->imap = atoi(tok[13]);
            r->nreq = atoi(tok[14]); p = 15;
            nd = vnd[r->var];
            r->nelems = 0;
            for (i = 0; i < r->nreq; i++) {
                size_t n = 1;
                for (k = 0; k < nd; k++) r->st[i][k] = atoll(tok[p++]);
                for (k = 0; k < nd; k++) { r->ct[i][k] = atoll(tok[p++]); n *= (size_t)(r->ct[i][k] < 0 ? 0 : r->ct[i][k]); }
                r->nelems += n;
            }
            r->has_stride = 0;
            if (r->api == 's' || (r->api == 'm' && p < nt)) { r->has_stride = 1; for (k = 0; k < nd; k++) r->stride[k] = atoll(tok[p++]); }
            r->etype = mt2mpi(r->mt, r->var);
            { int sz; MPI_Type_size(r->etype, &sz); r->esize = (size_t)sz; }
            r->memelems = (r->bl == 2) ? 2 * r->nelems : r->nelems;
            if (r->memelems == 0) r->memelems = 1;
            r->bytes = r->memelems * r->esize;
            r->mem = (unsigned char *)calloc(r->bytes + 2 * GUARD + SLACK, 1);
            memset(r->mem, 0xA5, r->bytes + 2 * GUARD);
            r->buf = r->mem + GUARD;
            r->orig = (unsigned char *)malloc(r->bytes);
            r->shadow = (unsigned char *)malloc(r->bytes);
            if (r->kind == 1) memset(r->buf, 0xEE, r->bytes);
            else {
                memset(r->buf, 0x5C, r->bytes);
                for (m = 0; m < r->nelems; m++) {
                    size_t pos = (r->bl == 2) ? 2 * m : m;
                    setval(r->buf + pos * r->esize, r->etype, (long)((caseidx * 7 + h * 13 + (int)m * 3) % 100) + 1);
                }
            }
            memcpy(r->orig, r->buf, r->bytes); memcpy(r->shadow, r->buf, r->bytes);
            r->free_type = 0;
            if (r->bl == 1) { r->buftype = MPI_DATATYPE_NULL; r->bufcount = 0; }
            else if (r->bl == 2) {
                MPI_Type_vector((int)r->nelems, 1, 2, r->etype, &r->buftype); MPI_Type_commit(&r->buftype);
                r->bufcount = 1; r->free_type = 1;
            } else { r->buftype = r->etype; r->bufcount = (MPI_Offset)r->nelems; }
            err = post(r);
            r->posted = (err == NC_NOERR || err == NC_ERANGE) && r->id != NC_REQ_NULL;
            if (r->kind == 2 && r->posted) { /* a buffered put has captured the data: the caller may reuse the buffer */
                for (m = 0; m < r->bytes; m++) r->buf[m] ^= 0x3C;
            }
            if (r->zero == 2) fprintf(out, "P h%d err=* id=%d", h, r->id);
            else fprintf(out, "P h%d err=%d id=%d", h, err, r->id);
            qdump(ncA); fprintf(out, "\n");
            continue;
        }
        if (!strcmp(tok[0], "W") || !strcmp(tok[0], "X")) {
            int isw = tok[0][0] == 'W', p = 2, mode = 'c', num, hasst, expn, ntok, i, err, nreqs, nexp = 0, exp[MAXH];
            int ids[MAXH], st[MAXH], arr;
            char *tk[MAXH];
            if (isw) mode = tok[p++][0];
            num = atoi(tok[p++]); hasst = atoi(tok[p++]); expn = atoi(tok[p++]); ntok = atoi(tok[p++]);
            for (i = 0; i < ntok; i++) { tk[i] = tok[p++]; ids[i] = tokid(tk[i]); st[i] = 777; }
            if (isw) { nexp = atoi(tok[p++]); for (i = 0; i < nexp; i++) exp[i] = atoi(tok[p++]); }
            arr = num >= 0 ? num : 0;
            if (isw) err = (mode == 'c') ? ncmpi_wait_all(ncA, num, ids, hasst ? st : NULL) : ncmpi_wait(ncA, num, ids, hasst ? st : NULL);
            else err = ncmpi_cancel(ncA, num, ids, hasst ? st : NULL);
            ncmpi_inq_nreqs(ncA, &nreqs);
            fprintf(out, "%c err=%d", tok[0][0], err); print_ids(arr, ids); print_st(arr, st, hasst);
            fprintf(out, " n=%d", nreqs); qdump(ncA); fprintf(out, "\n");
            (void)expn;
            if (isw && err == NC_EINVAL_REQUEST) {
                /* the wait was refused: every pending request it named must still be completable */
                int seen[MAXH], n2; memset(seen, 0, sizeof seen);
                for (i = 0; i < ntok; i++) {
                    int h, one[1], s1[1] = {777}, e2;
                    if (tk[i][0] != 'h') continue;
                    h = atoi(tk[i] + 1); if (seen[h]) continue; seen[h] = 1;
                    if (!R[h].posted || R[h].state != 0) continue;
                    one[0] = R[h].id;
                    e2 = (mode == 'c') ? ncmpi_wait_all(ncA, 1, one, s1) : ncmpi_wait(ncA, 1, one, s1);
                    ncmpi_inq_nreqs(ncA, &n2);
                    fprintf(out, "R h%d err=%d ids=%d st=%d n=%d", h, e2, one[0], s1[0], n2); qdump(ncA); fprintf(out, "\n");
                    if (e2 != NC_EINVAL_REQUEST && one[0] == NC_REQ_NULL) { int ex[1] = {h}; oracle_complete(1, ex, 0); }
                }
                err = ncmpi_cancel(ncA, NC_REQ_ALL, NULL, NULL);
                ncmpi_inq_nreqs(ncA, &n2);
                fprintf(out, "K err=%d n=%d", err, n2); qdump(ncA); fprintf(out, "\n");
                dead = 1;
            } else if (isw) oracle_complete(nexp, exp, 1);
            continue;
        }
    }
    fclose(out);
    MPI_Finalize();
    return 0;
}
