/*
 * C15 correspondence harness.
 *
 * The generated dispatcher source of the scratch tree is #included, so that the `static`
 * checker check_start_count_stride() is reachable AND the public ncmpi_put/get entry points
 * used by the API stream are this very translation unit (the archive member var_getput.o is
 * not pulled in by the linker because every symbol it defines is defined here).
 *
 *   c15h unit            stdin:  K strict classic isrec isread api nd shape.. S|SN start.. C|CN count.. T|TN stride..
 *                        stdout: <err>
 *   c15h api <dir>       stdin:  F fmt strict indep nvars / V xtype isrec nd len.. / R ... / X      (see below)
 */
#include "var_getput.c"

#include <stdio.h>
#include <string.h>
#include <unistd.h>
#include <fcntl.h>
#include <sys/stat.h>

/* ------------------------------------------------------------------ unit mode */
static MPI_Offset fake_numrecs;
static int fake_inq_dim(void *ncp, int dimid, char *name, MPI_Offset *sizep)
{
    if (sizep != NULL) *sizep = fake_numrecs;
    return NC_NOERR;
}

#define MAXD 8
static int unit_main(void)
{
    static char line[1 << 16];
    PNC pnc;
    PNC_var var;
    struct PNC_driver drv;
    MPI_Offset shape[MAXD], start[MAXD], count[MAXD], stride[MAXD];
    memset(&pnc, 0, sizeof(pnc));
    memset(&var, 0, sizeof(var));
    memset(&drv, 0, sizeof(drv));
    drv.inq_dim = fake_inq_dim;
    pnc.driver = &drv;
    pnc.vars = &var;
    pnc.nvars = 1;
    while (fgets(line, sizeof(line), stdin)) {
        char *tok = strtok(line, " \n");
        if (tok == NULL || strcmp(tok, "K") != 0) { printf("bad-op\n"); continue; }
        int strict = atoi(strtok(NULL, " \n"));
        int classic = atoi(strtok(NULL, " \n"));
        int isrec = atoi(strtok(NULL, " \n"));
        int isread = atoi(strtok(NULL, " \n"));
        int api = atoi(strtok(NULL, " \n"));
        int nd = atoi(strtok(NULL, " \n"));
        int i, hasS, hasC, hasT;
        if (nd < 1 || nd > MAXD) { printf("bad-op\n"); continue; }
        for (i = 0; i < nd; i++) shape[i] = atoll(strtok(NULL, " \n"));
        tok = strtok(NULL, " \n"); hasS = (strcmp(tok, "S") == 0);
        if (hasS) for (i = 0; i < nd; i++) start[i] = atoll(strtok(NULL, " \n"));
        tok = strtok(NULL, " \n"); hasC = (strcmp(tok, "C") == 0);
        if (hasC) for (i = 0; i < nd; i++) count[i] = atoll(strtok(NULL, " \n"));
        tok = strtok(NULL, " \n"); hasT = (strcmp(tok, "T") == 0);
        if (hasT) for (i = 0; i < nd; i++) stride[i] = atoll(strtok(NULL, " \n"));

        pnc.flag = strict ? NC_MODE_STRICT_COORD_BOUND : 0;
        pnc.format = classic ? NC_FORMAT_CDF2 : NC_FORMAT_CDF5;
        var.ndims = nd;
        var.recdim = isrec ? 0 : -1;
        var.shape = shape;
        if (isrec) { fake_numrecs = shape[0]; shape[0] = 0; /* as stored: NC_UNLIMITED */ }
        NC_api k = (api == 1) ? API_VAR1 : (api == 2) ? API_VARA : (api == 3) ? API_VARS : API_VARM;
        int err = check_start_count_stride(&pnc, 0, isread, k, hasS ? start : NULL,
                                           hasC ? count : NULL, hasT ? stride : NULL);
        printf("%d\n", err);
    }
    return 0;
}

/* ------------------------------------------------------------------ api mode */
#define MAXV 6
#define BUFN 8192
static int ncid = -1, nvars, indep, fmt;
static int vid[MAXV], vnd[MAXV], visrec[MAXV];
static nc_type vxt[MAXV];
static char path[1024];
static unsigned char *snapA, *snapB;
static size_t capA, capB;
#define SNAPMAX (4u << 20)
#define DUMPLEN 6144

static long snapshot(unsigned char **bufp, size_t *capp)
{
    struct stat st;
    int fd = open(path, O_RDONLY);
    if (fd < 0) return -1;
    if (fstat(fd, &st) != 0) { close(fd); return -1; }
    if ((size_t)st.st_size > SNAPMAX) { close(fd); return -2; }
    if ((size_t)st.st_size + 1 > *capp) { *capp = st.st_size + 4096; *bufp = realloc(*bufp, *capp); }
    long got = 0;
    while (got < st.st_size) {
        ssize_t r = pread(fd, *bufp + got, st.st_size - got, got);
        if (r <= 0) break;
        got += r;
    }
    close(fd);
    return got;
}

static int parse_list(char *tok, MPI_Offset *out)   /* "N" -> -1 ; "a,b,c" -> n */
{
    int n = 0;
    if (tok[0] == 'N') return -1;
    char *p = tok;
    while (*p) {
        out[n++] = strtoll(p, &p, 10);
        if (*p == ',') p++;
    }
    return n;
}

static void print_changes(long la, long lb)
{
    long n = la > lb ? la : lb, i = 0;
    int first = 1;
    printf(" chg=");
    while (i < n) {
        unsigned char a = i < la ? snapA[i] : 0, b = i < lb ? snapB[i] : 0;
        if (a != b) {
            long j = i;
            while (j + 1 < n) {
                unsigned char a2 = j + 1 < la ? snapA[j + 1] : 0, b2 = j + 1 < lb ? snapB[j + 1] : 0;
                if (a2 == b2) break;
                j++;
            }
            printf("%s%ld-%ld", first ? "" : ",", i, j);
            first = 0;
            i = j + 1;
        } else i++;
    }
    if (first) printf("-");
}

static int api_main(const char *dir)
{
    static char line[1 << 16];
    static int buf[BUFN];
    int nfile = 0, vdef = 0, strict = 0, rank;
    MPI_Comm_rank(MPI_COMM_WORLD, &rank);
    while (fgets(line, sizeof(line), stdin)) {
        char *tok = strtok(line, " \n");
        if (tok == NULL) continue;
        if (strcmp(tok, "F") == 0) {
            fmt = atoi(strtok(NULL, " \n"));
            strict = atoi(strtok(NULL, " \n"));
            indep = atoi(strtok(NULL, " \n"));
            nvars = atoi(strtok(NULL, " \n"));
            vdef = 0;
            snprintf(path, sizeof(path), "%s/f%d.nc", dir, nfile++);
            setenv("PNETCDF_RELAX_COORD_BOUND", strict ? "0" : "1", 1);
            int cmode = NC_CLOBBER | (fmt == 2 ? NC_64BIT_OFFSET : fmt == 5 ? NC_64BIT_DATA : 0);
            int err = ncmpi_create(MPI_COMM_WORLD, path, cmode, MPI_INFO_NULL, &ncid);
            if (err != NC_NOERR) { printf("create-failed %d\n", err); fflush(stdout); return 1; }
            if (nvars == 0) goto enddef;
        }
        else if (strcmp(tok, "V") == 0) {
            int xt = atoi(strtok(NULL, " \n"));
            int isrec = atoi(strtok(NULL, " \n"));
            int nd = atoi(strtok(NULL, " \n"));
            int dimids[MAXD], i, err;
            char nm[64];
            for (i = 0; i < nd; i++) {
                MPI_Offset len = atoll(strtok(NULL, " \n"));
                if (i == 0 && isrec) {
                    err = ncmpi_inq_dimid(ncid, "rec", &dimids[0]);
                    if (err != NC_NOERR) err = ncmpi_def_dim(ncid, "rec", NC_UNLIMITED, &dimids[0]);
                } else {
                    snprintf(nm, sizeof(nm), "d%d_%d", vdef, i);
                    err = ncmpi_def_dim(ncid, nm, len, &dimids[i]);
                }
                if (err != NC_NOERR) { printf("defdim-failed %d\n", err); fflush(stdout); return 1; }
            }
            snprintf(nm, sizeof(nm), "v%d", vdef);
            err = ncmpi_def_var(ncid, nm, (nc_type)xt, nd, dimids, &vid[vdef]);
            if (err != NC_NOERR) { printf("defvar-failed %d\n", err); fflush(stdout); return 1; }
            vnd[vdef] = nd; visrec[vdef] = isrec; vxt[vdef] = (nc_type)xt;
            vdef++;
            if (vdef == nvars) {
                int err2; MPI_Offset hs, he, rs, off;
enddef:
                err2 = ncmpi_enddef(ncid);
                if (err2 != NC_NOERR) { printf("enddef-failed %d\n", err2); fflush(stdout); return 1; }
                /* make the file as large as the dump window, so that reads of never-written
                   elements see zeros instead of whatever a short read leaves in the buffer */
                { struct stat sb; if (stat(path, &sb) == 0 && sb.st_size < DUMPLEN) truncate(path, DUMPLEN); }
                if (indep) ncmpi_begin_indep_data(ncid);
                ncmpi_inq_header_size(ncid, &hs);
                ncmpi_inq_header_extent(ncid, &he);
                ncmpi_inq_recsize(ncid, &rs);
                printf("L %lld %lld %lld", (long long)hs, (long long)he, (long long)rs);
                for (i = 0; i < nvars; i++) { ncmpi_inq_varoffset(ncid, vid[i], &off); printf(" %lld", (long long)off); }
                printf("\n");
            }
        }
        else if (strcmp(tok, "X") == 0) {
            int err = ncmpi_close(ncid);
            ncid = -1;
            printf("X %d\n", err);
            unlink(path);
        }
        else if (strcmp(tok, "R") == 0) {
            /* R <q> <kind> <p|g> <var> <nreq> then per sub-request: start count stride ; then <extra>
               kind: var1 vara vars varm varmt varn ivars bvara flex     extra: bufcount for flex, else 0 */
            int q = atoi(strtok(NULL, " \n"));
            char kind[16]; strncpy(kind, strtok(NULL, " \n"), 15); kind[15] = 0;
            int isput = (strtok(NULL, " \n")[0] == 'p');
            int v = atoi(strtok(NULL, " \n"));
            int nreq = atoi(strtok(NULL, " \n"));
            static MPI_Offset st[8][MAXD], ct[8][MAXD], sd[8][MAXD];
            MPI_Offset *stp[8], *ctp[8], *sdp[8];
            int i, j, err = NC_NOERR, werr = NC_NOERR;
            if (nreq > 8) nreq = 8;
            for (i = 0; i < nreq; i++) {
                stp[i] = parse_list(strtok(NULL, " \n"), st[i]) < 0 ? NULL : st[i];
                ctp[i] = parse_list(strtok(NULL, " \n"), ct[i]) < 0 ? NULL : ct[i];
                sdp[i] = parse_list(strtok(NULL, " \n"), sd[i]) < 0 ? NULL : sd[i];
            }
            long long extra = atoll(strtok(NULL, " \n"));
            int nout = (int)atoll(strtok(NULL, " \n"));   /* number of buffer elements to print for a get */
            if (nout > BUFN) nout = BUFN;
            for (j = 0; j < BUFN; j++) buf[j] = isput ? ((q * 31 + j * 7) % 100) + 1 : -777;
            long la = snapshot(&snapA, &capA);
            int id = vid[v], nd = vnd[v];
            MPI_Offset imap[MAXD];
            if (strcmp(kind, "varmt") == 0 && ctp[0] != NULL) {   /* transposed (column-major) buffer */
                MPI_Offset p = 1;
                for (i = 0; i < nd; i++) { imap[i] = p; p *= (ctp[0][i] > 0 ? ctp[0][i] : 1); }
            }
#define CALL(putc, puti, getc, geti) (isput ? (indep ? puti : putc) : (indep ? geti : getc))
            if (strcmp(kind, "var1") == 0)
                err = CALL(ncmpi_put_var1_int_all(ncid, id, stp[0], buf), ncmpi_put_var1_int(ncid, id, stp[0], buf),
                           ncmpi_get_var1_int_all(ncid, id, stp[0], buf), ncmpi_get_var1_int(ncid, id, stp[0], buf));
            else if (strcmp(kind, "vara") == 0)
                err = CALL(ncmpi_put_vara_int_all(ncid, id, stp[0], ctp[0], buf), ncmpi_put_vara_int(ncid, id, stp[0], ctp[0], buf),
                           ncmpi_get_vara_int_all(ncid, id, stp[0], ctp[0], buf), ncmpi_get_vara_int(ncid, id, stp[0], ctp[0], buf));
            else if (strcmp(kind, "vars") == 0)
                err = CALL(ncmpi_put_vars_int_all(ncid, id, stp[0], ctp[0], sdp[0], buf), ncmpi_put_vars_int(ncid, id, stp[0], ctp[0], sdp[0], buf),
                           ncmpi_get_vars_int_all(ncid, id, stp[0], ctp[0], sdp[0], buf), ncmpi_get_vars_int(ncid, id, stp[0], ctp[0], sdp[0], buf));
            else if (strcmp(kind, "varm") == 0)
                err = CALL(ncmpi_put_varm_int_all(ncid, id, stp[0], ctp[0], sdp[0], NULL, buf), ncmpi_put_varm_int(ncid, id, stp[0], ctp[0], sdp[0], NULL, buf),
                           ncmpi_get_varm_int_all(ncid, id, stp[0], ctp[0], sdp[0], NULL, buf), ncmpi_get_varm_int(ncid, id, stp[0], ctp[0], sdp[0], NULL, buf));
            else if (strcmp(kind, "varmt") == 0)
                err = CALL(ncmpi_put_varm_int_all(ncid, id, stp[0], ctp[0], sdp[0], imap, buf), ncmpi_put_varm_int(ncid, id, stp[0], ctp[0], sdp[0], imap, buf),
                           ncmpi_get_varm_int_all(ncid, id, stp[0], ctp[0], sdp[0], imap, buf), ncmpi_get_varm_int(ncid, id, stp[0], ctp[0], sdp[0], imap, buf));
            else if (strcmp(kind, "varn") == 0) {
                int allnull = 1;
                for (i = 0; i < nreq; i++) if (ctp[i] != NULL) allnull = 0;
                MPI_Offset **cc = allnull ? NULL : ctp;
                err = CALL(ncmpi_put_varn_int_all(ncid, id, nreq, stp, cc, buf), ncmpi_put_varn_int(ncid, id, nreq, stp, cc, buf),
                           ncmpi_get_varn_int_all(ncid, id, nreq, stp, cc, buf), ncmpi_get_varn_int(ncid, id, nreq, stp, cc, buf));
            }
            else if (strcmp(kind, "ivars") == 0) {
                int req = NC_REQ_NULL, stt = NC_NOERR;
                err = isput ? ncmpi_iput_vars_int(ncid, id, stp[0], ctp[0], sdp[0], buf, &req)
                            : ncmpi_iget_vars_int(ncid, id, stp[0], ctp[0], sdp[0], buf, &req);
                werr = indep ? ncmpi_wait(ncid, 1, &req, &stt) : ncmpi_wait_all(ncid, 1, &req, &stt);
                if (werr == NC_NOERR) werr = stt;
            }
            else if (strcmp(kind, "bvara") == 0) {
                int req = NC_REQ_NULL, stt = NC_NOERR;
                ncmpi_buffer_attach(ncid, BUFN * sizeof(int));
                err = ncmpi_bput_vara_int(ncid, id, stp[0], ctp[0], buf, &req);
                werr = indep ? ncmpi_wait(ncid, 1, &req, &stt) : ncmpi_wait_all(ncid, 1, &req, &stt);
                if (werr == NC_NOERR) werr = stt;
                ncmpi_buffer_detach(ncid);
            }
            else if (strcmp(kind, "flex") == 0)
                err = CALL(ncmpi_put_vara_all(ncid, id, stp[0], ctp[0], buf, extra, MPI_INT), ncmpi_put_vara(ncid, id, stp[0], ctp[0], buf, extra, MPI_INT),
                           ncmpi_get_vara_all(ncid, id, stp[0], ctp[0], buf, extra, MPI_INT), ncmpi_get_vara(ncid, id, stp[0], ctp[0], buf, extra, MPI_INT));
            else { printf("bad-op\n"); continue; }
            MPI_Offset nrec = -1;
            { int rd; if (ncmpi_inq_unlimdim(ncid, &rd) == NC_NOERR && rd >= 0) ncmpi_inq_dimlen(ncid, rd, &nrec); }
            long lb = snapshot(&snapB, &capB);
            printf("%d %d %lld", err, werr, (long long)nrec);
            if (la < 0 || lb < 0) printf(" chg=unreadable");
            else {
                unsigned char *t = snapA; snapA = snapA; (void)t;
                print_changes(la, lb);
            }
            printf(" size=%ld>%ld", la, lb);
            if (!isput) { printf(" data="); for (j = 0; j < nout; j++) printf("%s%d", j ? "," : "", buf[j]); if (nout == 0) printf("-"); }
            printf("\n");
        }
        else if (strcmp(tok, "D") == 0) {
            /* D off len : dump bytes of the file (hex) */
            long off = atol(strtok(NULL, " \n")), len = atol(strtok(NULL, " \n")), i;
            long l = snapshot(&snapA, &capA);
            printf("D ");
            for (i = off; i < off + len; i++) printf("%02x", i < l ? snapA[i] : 0);
            printf("\n");
        }
        else printf("bad-op\n");
        fflush(stdout);
    }
    if (ncid >= 0) ncmpi_close(ncid);
    return 0;
}

int main(int argc, char **argv)
{
    int rc;
    alarm(600);
    if (argc >= 2 && strcmp(argv[1], "unit") == 0) return unit_main();
    MPI_Init(&argc, &argv);
    rc = api_main(argc >= 3 ? argv[2] : "/tmp");
    MPI_Finalize();
    return rc;
}
