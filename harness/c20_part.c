/*
 * c20_part.c -- the per-rank partition of ncmpidiff, executed outside MPI (C20 correspondence, stream `part`).
 *
 * The statements of ncmpidiff.c main() between the comments
 *     "calculate read amount of this process in start[] and shape[]"   and   "if none of shape[*] >= nprocs"
 * are extracted verbatim by checks/c20.py from the scratch tree into c20_part_body.inc (the check fails closed
 * when the markers are not found) and compiled here with `nprocs`, `rank`, `ndims[0]`, `shape[]`, `start[]`
 * as the enclosing scope provides them in main().
 *
 * stdin :  P <nprocs> <len>*          stdout:  P <start>,<count>* | ...     (one group per rank, the format of
 *                                               lean/Driver/C20.lean for Tools.rankBox)
 */
#include <stdio.h>
#include <stdlib.h>
#include <string.h>
typedef long long MPI_Offset;

static void part(int nd, MPI_Offset *shape, MPI_Offset *start, int nprocs, int rank)
{
    int ndims[2], j;
    ndims[0] = ndims[1] = nd;
#include "c20_part_body.inc"
}

int main(void)
{
    char line[4096];
    while (fgets(line, sizeof line, stdin)) {
        char *tok = strtok(line, " \n");
        if (!tok || strcmp(tok, "P")) { printf("bad-op\n"); continue; }
        tok = strtok(NULL, " \n");
        int nprocs = atoi(tok), nd = 0, r, k;
        MPI_Offset dims[64];
        while ((tok = strtok(NULL, " \n")) && nd < 64) dims[nd++] = atoll(tok);
        printf("P ");
        for (r = 0; r < nprocs; r++) {
            MPI_Offset *shape = (MPI_Offset*) calloc((size_t)nd * 2 + 1, sizeof(MPI_Offset));
            MPI_Offset *start = shape + nd;
            for (k = 0; k < nd; k++) shape[k] = dims[k];
            part(nd, shape, start, nprocs, r);
            if (r) printf(" | ");
            for (k = 0; k < nd; k++) printf("%s%lld,%lld", k ? " " : "", start[k], shape[k]);
            free(shape);
        }
        printf("\n");
    }
    return 0;
}
