/*
 * C02 unit-level correspondence harness: calls the `static` functions merge_requests() and
 * type_create_off_len() of src/drivers/ncmpio/ncmpio_wait.c directly (the file is #included from
 * the scratch tree) on crafted segment lists and prints the merged off-len list and the two
 * hindexed datatypes (decoded with MPI_Type_get_contents).
 *
 *   M <n> <off len buf>*n     ->   M <nsegs> <off,len,buf>* F <disp,blocklen>* B <disp,blocklen>*
 *   F <ndim> <el> <offset> <bufaddr> <dimlen>*ndim <start>*ndim <count>*ndim <stride>*ndim
 *                             ->   F <nseg> <off,len,buf>*          (vars_flatten called directly)
 *   G <n> <addr size>*n       ->   G <nblocks> <disp,blocklen>*     (mgetput called directly on a scratch file with n
 *                                  requests on a 1-D NC_BYTE variable whose I/O buffers are arena+addr; the buffer
 *                                  datatype it hands to MPI_File_write_at is captured by a PMPI wrapper and decoded;
 *                                  MPI_BYTE x count is printed as the single block 0,count)
 *
 * Every segment is presented as one request on a 1-D NC_BYTE variable that begins at file offset 0
 * (start = off, count = len, xbuf = base + buf), so vars_flatten() yields exactly that segment.
 */
#include "ncmpio_wait.c"
#include <dispatch.h>
#include <unistd.h>

/* ---- PMPI wrapper: capture the buffer datatype mgetput passes to MPI_File_write_at ---- */
static int gnc = -1, gvar; static char gpath[600];
static int cap_on, cap_n; static long long cap_disp[4096], cap_len[4096];
static int cap_calls;
/* mgetput builds the file type first (construct_filetypes: one MPI_Type_create_hindexed call) and, when the requests'
   buffers do not form one contiguous run, the buffer type with a second call; otherwise the buffer is MPI_BYTE x count */
int MPI_Type_create_hindexed(int count, const int *blocklens, const MPI_Aint *disps, MPI_Datatype oldtype, MPI_Datatype *newtype)
{
    if (cap_on) {
        int i;
        cap_calls++;
        if (cap_calls == 2) { cap_n = count; for (i = 0; i < count && i < 4096; i++) { cap_disp[i] = (long long)disps[i]; cap_len[i] = blocklens[i]; } }
    }
    return PMPI_Type_create_hindexed(count, blocklens, disps, oldtype, newtype);
}
int MPI_File_write_at(MPI_File fh, MPI_Offset off, const void *buf, int count, MPI_Datatype t, MPI_Status *st)
{
    if (cap_on && cap_calls < 2 && t == MPI_BYTE) { cap_n = 1; cap_disp[0] = 0; cap_len[0] = count; }
    return PMPI_File_write_at(fh, off, buf, count, t, st);
}

#define MAXS 4096
static char arena[1 << 20];

static void show_type(MPI_Datatype t, const char *tag)
{
    int ni, na, nd, comb, i;
    printf(" %s", tag);
    if (t == MPI_BYTE) { printf(" BYTE"); return; }
    MPI_Type_get_envelope(t, &ni, &na, &nd, &comb);
    if (comb != MPI_COMBINER_HINDEXED) { printf(" combiner=%d", comb); return; }
    {
        int *ints = (int *)malloc(sizeof(int) * (size_t)ni);
        MPI_Aint *ads = (MPI_Aint *)malloc(sizeof(MPI_Aint) * (size_t)(na ? na : 1));
        MPI_Datatype *dts = (MPI_Datatype *)malloc(sizeof(MPI_Datatype) * (size_t)(nd ? nd : 1));
        MPI_Type_get_contents(t, ni, na, nd, ints, ads, dts);
        for (i = 0; i < ints[0]; i++) printf(" %lld,%d", (long long)ads[i], ints[1 + i]);
        free(ints); free(ads); free(dts);
    }
}

int main(int argc, char **argv)
{
    static char line[1 << 18];
    MPI_Init(&argc, &argv);
    while (fgets(line, sizeof line, stdin)) {
        char *s = strtok(line, " \n");
        int n, i;
        long long v[3 * MAXS];
        NC nc; NC_var var; MPI_Offset shape[1];
        NC_lead_req *leads; NC_req *reqs; MPI_Offset *sc;
        void *buf; MPI_Offset nsegs = 0; off_len *segs = NULL;
        MPI_Datatype ft = MPI_BYTE, bt = MPI_BYTE;
        long long base0;
        if (s && !strcmp(s, "F")) {
            int ndim = atoi(strtok(NULL, " \n")), el = atoi(strtok(NULL, " \n")), k;
            long long offset = atoll(strtok(NULL, " \n")), baddr = atoll(strtok(NULL, " \n"));
            MPI_Offset dl[8], st[8], ct[8], sr[8], nseg = 0, tot = 1; off_len *sg;
            for (k = 0; k < ndim; k++) dl[k] = atoll(strtok(NULL, " \n"));
            for (k = 0; k < ndim; k++) st[k] = atoll(strtok(NULL, " \n"));
            for (k = 0; k < ndim; k++) { ct[k] = atoll(strtok(NULL, " \n")); tot *= ct[k] > 0 ? ct[k] : 1; }
            for (k = 0; k < ndim; k++) sr[k] = atoll(strtok(NULL, " \n"));
            sg = (off_len *)calloc((size_t)tot + 1, sizeof(off_len));
            vars_flatten(ndim, el, (MPI_Offset)offset, dl, (MPI_Aint)baddr, st, ct, sr, &nseg, sg);
            printf("F %lld", (long long)nseg);
            for (k = 0; k < nseg; k++) printf(" %lld,%lld,%lld", (long long)sg[k].off, (long long)sg[k].len, (long long)sg[k].buf_addr);
            printf("\n"); free(sg);
            continue;
        }
        if (s && !strcmp(s, "G")) {
            int n = atoi(strtok(NULL, " \n")), i; long long fo = 0;
            PNC *pp; NC *ncp; NC_lead_req *ll; NC_req *rq;
            if (gnc < 0) {
                int d;
                snprintf(gpath, sizeof gpath, "%s/c02_unit_%d.nc", argc > 1 ? argv[1] : "/tmp", (int)getpid());
                ncmpi_create(MPI_COMM_WORLD, gpath, NC_CLOBBER | NC_64BIT_DATA, MPI_INFO_NULL, &gnc);
                ncmpi_def_dim(gnc, "b", 1 << 20, &d); ncmpi_def_var(gnc, "vb", NC_BYTE, 1, &d, &gvar);
                ncmpi_enddef(gnc); ncmpi_begin_indep_data(gnc);
            }
            PNC_check_id(gnc, &pp); ncp = (NC *)pp->ncp;
            ll = (NC_lead_req *)NCI_Calloc((size_t)n, sizeof(NC_lead_req));
            rq = (NC_req *)NCI_Calloc((size_t)n, sizeof(NC_req));
            for (i = 0; i < n; i++) {
                long long addr = atoll(strtok(NULL, " \n")), sz = atoll(strtok(NULL, " \n"));
                ll[i].varp = ncp->vars.value[gvar]; ll[i].flag = NC_REQ_TO_FREE | NC_REQ_STRIDE_NULL | NC_REQ_BUF_TYPE_IS_CONTIG;
                ll[i].abuf_index = -1; ll[i].nonlead_off = i; ll[i].nonlead_num = 1; ll[i].nelems = sz; ll[i].id = 2 * i;
                ll[i].start = (MPI_Offset *)NCI_Malloc(3 * sizeof(MPI_Offset));
                ll[i].start[0] = fo; ll[i].start[1] = sz; ll[i].start[2] = 1;
                rq[i].start = ll[i].start; rq[i].lead_off = i; rq[i].nelems = sz; rq[i].xbuf = arena + (1 << 19) + addr;
                rq[i].offset_start = ncp->vars.value[gvar]->begin + fo; rq[i].offset_end = rq[i].offset_start + sz;
                fo += sz + 1;    /* file ranges increasing and not touching */
            }
            ncp->put_lead_list = ll; ncp->numLeadPutReqs = n;
            cap_on = 1; cap_n = 0; cap_calls = 0;
            mgetput(ncp, n, rq, NC_REQ_WR, NC_REQ_INDEP);    /* frees rq and every lead's start[] */
            cap_on = 0;
            ncp->put_lead_list = NULL; ncp->numLeadPutReqs = 0; NCI_Free(ll);
            printf("G %d", cap_n);
            for (i = 0; i < cap_n; i++) printf(" %lld,%lld", cap_disp[i], cap_len[i]);
            printf("\n");
            continue;
        }
        if (!s || strcmp(s, "M")) { printf("bad-op\n"); continue; }
        n = atoi(strtok(NULL, " \n"));
        for (i = 0; i < 3 * n; i++) v[i] = atoll(strtok(NULL, " \n"));
        memset(&nc, 0, sizeof nc); memset(&var, 0, sizeof var);
        shape[0] = (MPI_Offset)1 << 40;
        var.ndims = 1; var.xsz = 1; var.begin = 0; var.shape = shape; var.xtype = NC_BYTE;
        leads = (NC_lead_req *)calloc((size_t)n, sizeof(NC_lead_req));
        reqs = (NC_req *)calloc((size_t)n, sizeof(NC_req));
        sc = (MPI_Offset *)calloc((size_t)n * 3, sizeof(MPI_Offset));
        for (i = 0; i < n; i++) {
            leads[i].varp = &var; leads[i].flag = NC_REQ_STRIDE_NULL;
            sc[3 * i] = v[3 * i]; sc[3 * i + 1] = v[3 * i + 1]; sc[3 * i + 2] = 1;
            reqs[i].start = sc + 3 * i; reqs[i].lead_off = i; reqs[i].nelems = v[3 * i + 1];
            reqs[i].xbuf = arena + (1 << 19) + v[3 * i + 2];
        }
        base0 = v[2];
        merge_requests(&nc, leads, n, reqs, &buf, &nsegs, &segs);
        printf("M %lld", (long long)nsegs);
        for (i = 0; i < nsegs; i++)
            printf(" %lld,%lld,%lld", (long long)segs[i].off, (long long)segs[i].len, (long long)segs[i].buf_addr + base0);
        /* make buf_addr absolute again so that the buffer type can be compared too */
        for (i = 0; i < nsegs; i++) segs[i].buf_addr += base0;
        if (type_create_off_len(nsegs, segs, &ft, &bt) == NC_NOERR) {
            show_type(ft, "F"); show_type(bt, "B");
            if (ft != MPI_BYTE) MPI_Type_free(&ft);
            if (bt != MPI_BYTE) MPI_Type_free(&bt);
        } else printf(" type-error");
        printf("\n");
        NCI_Free(segs); free(leads); free(reqs); free(sc);
    }
    if (gnc >= 0) { ncmpi_end_indep_data(gnc); ncmpi_close(gnc); unlink(gpath); }
    MPI_Finalize();
    return 0;
}
