/*
 * C02 unit-level correspondence harness: calls the `static` functions merge_requests() and
 * type_create_off_len() of src/drivers/ncmpio/ncmpio_wait.c directly (the file is #included from
 * the scratch tree) on crafted segment lists and prints the merged off-len list and the two
 * hindexed datatypes (decoded with MPI_Type_get_contents).
 *
 *   M <n> <off len buf>*n     ->   M <nsegs> <off,len,buf>* F <disp,blocklen>* B <disp,blocklen>*
 *
 * Every segment is presented as one request on a 1-D NC_BYTE variable that begins at file offset 0
 * (start = off, count = len, xbuf = base + buf), so vars_flatten() yields exactly that segment.
 */
#include "ncmpio_wait.c"

#define MAXS 4096
static char arena[1 << 20];

static void show_type(MPI_Datatype t, const char *tag)
{
    int ni, na, nd, comb, i;
    printf(" %s", tag);
    if (t == MPI_BYTE) { printf(" BYTE"); return; }
    MPI_Type_get_envelope(t, &ni, &na, &nd, &comb);
    if (comb != MPI_COMBINER_HINDEXED) { printf(" combiner=%d", comb); return; }
    {
        int *ints = (int *)malloc(sizeof(int) * (size_t)ni);
        MPI_Aint *ads = (MPI_Aint *)malloc(sizeof(MPI_Aint) * (size_t)(na ? na : 1));
        MPI_Datatype *dts = (MPI_Datatype *)malloc(sizeof(MPI_Datatype) * (size_t)(nd ? nd : 1));
        MPI_Type_get_contents(t, ni, na, nd, ints, ads, dts);
        for (i = 0; i < ints[0]; i++) printf(" %lld,%d", (long long)ads[i], ints[1 + i]);
        free(ints); free(ads); free(dts);
    }
}

int main(int argc, char **argv)
{
    static char line[1 << 18];
    MPI_Init(&argc, &argv);
    while (fgets(line, sizeof line, stdin)) {
        char *s = strtok(line, " \n");
        int n, i;
        long long v[3 * MAXS];
        NC nc; NC_var var; MPI_Offset shape[1];
        NC_lead_req *leads; NC_req *reqs; MPI_Offset *sc;
        void *buf; MPI_Offset nsegs = 0; off_len *segs = NULL;
        MPI_Datatype ft = MPI_BYTE, bt = MPI_BYTE;
        long long base0;
        if (!s || strcmp(s, "M")) { printf("bad-op\n"); continue; }
        n = atoi(strtok(NULL, " \n"));
        for (i = 0; i < 3 * n; i++) v[i] = atoll(strtok(NULL, " \n"));
        memset(&nc, 0, sizeof nc); memset(&var, 0, sizeof var);
        shape[0] = (MPI_Offset)1 << 40;
        var.ndims = 1; var.xsz = 1; var.begin = 0; var.shape = shape; var.xtype = NC_BYTE;
        leads = (NC_lead_req *)calloc((size_t)n, sizeof(NC_lead_req));
        reqs = (NC_req *)calloc((size_t)n, sizeof(NC_req));
        sc = (MPI_Offset *)calloc((size_t)n * 3, sizeof(MPI_Offset));
        for (i = 0; i < n; i++) {
            leads[i].varp = &var; leads[i].flag = NC_REQ_STRIDE_NULL;
            sc[3 * i] = v[3 * i]; sc[3 * i + 1] = v[3 * i + 1]; sc[3 * i + 2] = 1;
            reqs[i].start = sc + 3 * i; reqs[i].lead_off = i; reqs[i].nelems = v[3 * i + 1];
            reqs[i].xbuf = arena + (1 << 19) + v[3 * i + 2];
        }
        base0 = v[2];
        merge_requests(&nc, leads, n, reqs, &buf, &nsegs, &segs);
        printf("M %lld", (long long)nsegs);
        for (i = 0; i < nsegs; i++)
            printf(" %lld,%lld,%lld", (long long)segs[i].off, (long long)segs[i].len, (long long)segs[i].buf_addr + base0);
        /* make buf_addr absolute again so that the buffer type can be compared too */
        for (i = 0; i < nsegs; i++) segs[i].buf_addr += base0;
        if (type_create_off_len(nsegs, segs, &ft, &bt) == NC_NOERR) {
            show_type(ft, "F"); show_type(bt, "B");
            if (ft != MPI_BYTE) MPI_Type_free(&ft);
            if (bt != MPI_BYTE) MPI_Type_free(&bt);
        } else printf(" type-error");
        printf("\n");
        NCI_Free(segs); free(leads); free(reqs); free(sc);
    }
    MPI_Finalize();
    return 0;
}
