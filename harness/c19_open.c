/*
 * C19 malformed-file harness: opens byte strings with the PUBLIC API of the real library and walks
 * everything an application can ask about the file.
 *
 *   usage: c19_open <request-file> <output-prefix> [alarm-seconds] [RLIMIT_AS in MiB, 0 = none] [fork: 1 (default) | 0]
 *          With fork = 1 (single rank only) every request runs in a forked child of the initialised MPI
 *          process, so that a crash, a sanitizer abort or a timeout is an answer line:
 *              CRASH signal=<n>|exit=<code> | <identifying lines of the sanitizer report on the child's stderr>
 *              TIMEOUT
 *          c19_open --f10                    (witness F10: ncmpi_def_var(..., varidp = NULL))
 *
 *   request line : <path>            (read-only walk, answer below)
 *                  <path> FILL       (open for writing, inq_var_fill, converting out-of-range put + iput/wait, fill_var_rec,
 *                                     redefinition in fill mode; answer `FILL open=<e> v0:vf=<e>,put=<e>,... redef=<e> def=<e> enddef=<e> close=<e>`)
 *   answer line  (file <output-prefix>.<rank>, one per request):
 *       ERR <code> F <bytes hdr_fetch asked MPI-IO for|-> # fsz=<file size> grow=<growth of the allocator high-water mark> ms=<wall ms>
 *       OK <fmt> <numrecs|-> <ndims> <nvars> <ngatts> <unlimdim> D <len>... \
 *          V <ndims> <type> <begin> <natts> <dimid>... ; ... F <bytes>  # G <type>:<nelems>... <same trailer> hs=<header size> he=<header extent> \
 *          rs=<recsize> nrv=<#record vars> wf=<ok|list of violated self-consistency rules> rd=<codes of the small reads> \
 *          close=<code>
 *   The part before '#' is what lean/Driver/C19.lean prints for the same bytes (request `OPEN <hex>`).
 *
 * A watchdog alarm (in the child) turns a runaway open into the answer `TIMEOUT`.  With fork = 0 (used
 * for the 2-rank runs) a crash or a sanitizer abort leaves the answer line missing: the driver script
 * records the exit status and the stderr tail, then restarts after the offending request.  The
 * address-space limit cannot be used with the ASan build (shadow memory); there ASAN_OPTIONS
 * max_allocation_size_mb / hard_rss_limit_mb play that role.  `grow` relies on the library being built with
 * -DPNC_MALLOC_TRACE (ncmpi_inq_malloc_max_size; a refused allocation is counted with its requested size).
 */
#include <stdio.h>
#include <stdlib.h>
#include <string.h>
#include <unistd.h>
#include <signal.h>
#include <sys/stat.h>
#include <sys/time.h>
#include <sys/resource.h>
#include <sys/wait.h>
#include <fcntl.h>
#include <mpi.h>
#include <pnetcdf.h>

static FILE *out;
static int rank;

/* PMPI interposition (the harness is linked statically against libpnetcdf.a): what hdr_fetch asks MPI-IO for */
static long long rd_calls, rd_bytes;
static int lookup_miss;
int MPI_File_read_at(MPI_File fh, MPI_Offset off, void *buf, int count, MPI_Datatype dt, MPI_Status *st) {
    rd_calls++; rd_bytes += count;
    return PMPI_File_read_at(fh, off, buf, count, dt, st);
}
int MPI_File_read_at_all(MPI_File fh, MPI_Offset off, void *buf, int count, MPI_Datatype dt, MPI_Status *st) {
    rd_calls++; rd_bytes += count;
    return PMPI_File_read_at_all(fh, off, buf, count, dt, st);
}

static void on_alarm(int sig) {
    (void)sig;
    if (out) { ssize_t r = write(fileno(out), "TIMEOUT\n", 8); (void)r; }     /* the buffered partial answer is dropped */
    _exit(98);
}

static double now_ms(void) { struct timeval tv; gettimeofday(&tv, NULL); return tv.tv_sec * 1000.0 + tv.tv_usec / 1000.0; }

static int type_ok(int fmt, int t) { return t >= 1 && t <= (fmt == 5 ? 11 : 6); }

static MPI_Datatype native(int t) {
    switch (t) {
        case NC_BYTE: return MPI_SIGNED_CHAR; case NC_CHAR: return MPI_CHAR; case NC_SHORT: return MPI_SHORT;
        case NC_INT: return MPI_INT; case NC_FLOAT: return MPI_FLOAT; case NC_DOUBLE: return MPI_DOUBLE;
        case NC_UBYTE: return MPI_UNSIGNED_CHAR; case NC_USHORT: return MPI_UNSIGNED_SHORT; case NC_UINT: return MPI_UNSIGNED;
        case NC_INT64: return MPI_LONG_LONG_INT; default: return MPI_UNSIGNED_LONG_LONG;
    }
}

#define WF(cond, tag) do { if (!(cond)) { if (wfn < 900) wfn += snprintf(wf + wfn, WFSZ - wfn, "%s%s", wfn ? "," : "", tag); } } while (0)
#define WFE(err, tag) do { if ((err) != NC_NOERR) { if (wfn < 900) wfn += snprintf(wf + wfn, WFSZ - wfn, "%s%s(%d)", wfn ? "," : "", tag, (err)); } } while (0)
#define WFSZ 1024
#define MAXLIST 100000

static void walk_atts(int ncid, int varid, int natts, int fmt, char *wf, int *wfnp, int print) {
    int wfn = *wfnp, i;
    for (i = 0; i < natts && i < MAXLIST; i++) {
        char nm[NC_MAX_NAME + 8]; nc_type xt = 0; MPI_Offset n = -1; int err, id = -1;
        nm[0] = 0;
        err = ncmpi_inq_attname(ncid, varid, i, nm);
        WFE(err, "attname");
        if (err != NC_NOERR) continue;
        WF(strlen(nm) <= NC_MAX_NAME, "attnamelen");
        err = ncmpi_inq_att(ncid, varid, nm, &xt, &n);
        /* two attributes of one list may carry the same name in a damaged file: the lookup by name then
           finds one of them; that is self-consistent as far as the API can tell */
        /* the reader does not look at name characters: a name with an embedded NUL comes back from inq_attname
           truncated and is then not found by name (NC_ENOTATT), one with characters the API refuses in names
           is refused by the lookup (NC_EBADNAME): counted, not a self-consistency failure */
        if (err == NC_ENOTATT || err == NC_EBADNAME) { lookup_miss++; continue; }
        WFE(err, "inqatt");
        if (err != NC_NOERR) continue;
        if (print) fprintf(out, " %d:%lld", (int)xt, (long long)n);
        WF(type_ok(fmt, (int)xt), "atttype");
        WF(n >= 0, "attnelems");
        ncmpi_inq_attid(ncid, varid, nm, &id);
        WF(id >= 0 && id < natts, "attid");
        if (n >= 0 && n <= (1 << 20)) {          /* read the values (every value byte of the header is touched) */
            if (xt == NC_CHAR) { char *b = (char*)malloc((size_t)n + 1); err = ncmpi_get_att_text(ncid, varid, nm, b); free(b); }
            else { double *b = (double*)malloc(sizeof(double) * ((size_t)n + 1)); err = ncmpi_get_att_double(ncid, varid, nm, b); free(b); }
            WF(err == NC_NOERR || err == NC_ERANGE, "getatt");
        }
    }
    *wfnp = wfn;
}

/* request `<path> FILL`: what an application does with a file whose variables carry _FillValue attributes:
 * open for writing, ask for the fill value, a converting put of an out-of-range value (blocking and
 * nonblocking: ncmpio_pack_xbuf needs the fill value), ncmpi_fill_var_rec, and a redefinition in fill mode. */
static void do_fill(const char *path) {
    int ncid = -1, err, nvars = 0, i, dimid = -1, wid = -1, old;
    err = ncmpi_open(MPI_COMM_WORLD, path, NC_WRITE, MPI_INFO_NULL, &ncid);
    fprintf(out, "FILL open=%d", err);
    if (err != NC_NOERR) { fprintf(out, "\n"); return; }
    ncmpi_inq_nvars(ncid, &nvars);
    for (i = 0; i < nvars && i < 8; i++) {
        nc_type xt = 0; int nd = 0, dimids[64], nofill = -1, j, isrec = 0, unlim = -1, req = NC_REQ_NULL, st1 = 0;
        unsigned char fv[32]; MPI_Offset st[64], ct[64];
        if (ncmpi_inq_varndims(ncid, i, &nd) != NC_NOERR || nd > 64) continue;
        ncmpi_inq_var(ncid, i, NULL, &xt, &nd, dimids, NULL);
        ncmpi_inq_unlimdim(ncid, &unlim);
        for (j = 0; j < nd; j++) { st[j] = 0; ct[j] = 1; }
        isrec = nd > 0 && dimids[0] == unlim;
        err = ncmpi_inq_var_fill(ncid, i, &nofill, fv);
        fprintf(out, " v%d:vf=%d", i, err);
        if (xt == NC_CHAR) { char c = 'x'; err = ncmpi_put_vara_text_all(ncid, i, st, ct, &c); fprintf(out, ",put=%d", err); }
        else if (xt == NC_DOUBLE) {
            long long v = 7; err = ncmpi_put_vara_longlong_all(ncid, i, st, ct, &v); fprintf(out, ",put=%d", err);
            err = ncmpi_iput_vara_longlong(ncid, i, st, ct, &v, &req); ncmpi_wait_all(ncid, 1, &req, &st1); fprintf(out, ",iput=%d/%d", err, st1);
        } else {
            double v = 1e300; err = ncmpi_put_vara_double_all(ncid, i, st, ct, &v); fprintf(out, ",put=%d", err);
            err = ncmpi_iput_vara_double(ncid, i, st, ct, &v, &req); ncmpi_wait_all(ncid, 1, &req, &st1); fprintf(out, ",iput=%d/%d", err, st1);
        }
        if (isrec) { err = ncmpi_fill_var_rec(ncid, i, 0); fprintf(out, ",frec=%d", err); }
    }
    err = ncmpi_redef(ncid); fprintf(out, " redef=%d", err);
    ncmpi_set_fill(ncid, NC_FILL, &old);
    err = ncmpi_def_dim(ncid, "c19_zz", 2, &dimid);
    if (err == NC_NOERR) err = ncmpi_def_var(ncid, "c19_ww", NC_INT, 1, &dimid, &wid);
    fprintf(out, " def=%d", err);
    err = ncmpi_enddef(ncid); fprintf(out, " enddef=%d", err);
    err = ncmpi_close(ncid); fprintf(out, " close=%d\n", err);
}

static int do_f10(void) {
    int ncid, dimid, err;
    err = ncmpi_create(MPI_COMM_WORLD, "c19_f10.nc", NC_CLOBBER, MPI_INFO_NULL, &ncid);
    if (err) { printf("F10 create %d\n", err); return 1; }
    ncmpi_def_dim(ncid, "x", 4, &dimid);
    fflush(stdout);
    err = ncmpi_def_var(ncid, "v", NC_INT, 1, &dimid, NULL);     /* documented? the netCDF API allows varidp == NULL */
    printf("F10 def_var(varidp=NULL) returned %d\n", err);
    ncmpi_close(ncid);
    return 0;
}

int main(int argc, char **argv) {
    char line[8192], path[4096], outname[4096], errname[4200];
    FILE *in;
    int secs, asmb, dofork;
    MPI_Init(&argc, &argv);
    MPI_Comm_rank(MPI_COMM_WORLD, &rank);
    MPI_Comm_set_errhandler(MPI_COMM_WORLD, MPI_ERRORS_RETURN);
    if (argc >= 2 && !strcmp(argv[1], "--f10")) { int r = do_f10(); MPI_Finalize(); return r; }
    if (argc < 3) { fprintf(stderr, "usage\n"); MPI_Abort(MPI_COMM_WORLD, 2); }
    secs = argc > 3 ? atoi(argv[3]) : 20;
    asmb = argc > 4 ? atoi(argv[4]) : 0;
    dofork = argc > 5 ? atoi(argv[5]) : 1;
    if (asmb > 0) { struct rlimit rl; rl.rlim_cur = rl.rlim_max = (rlim_t)asmb << 20; setrlimit(RLIMIT_AS, &rl); }
    signal(SIGALRM, on_alarm);
    in = fopen(argv[1], "r");
    snprintf(outname, sizeof outname, "%s.%d", argv[2], rank);
    out = fopen(outname, "w");
    snprintf(errname, sizeof errname, "%s.err.%d", argv[2], rank);
    if (!in || !out) { fprintf(stderr, "cannot open\n"); MPI_Abort(MPI_COMM_WORLD, 2); }
    setvbuf(out, NULL, _IOFBF, 1 << 20);     /* an answer line reaches the file whole or not at all */
    while (fgets(line, sizeof line, in)) {
        pid_t pid = 0;
        char mode[16];
        mode[0] = 0;
        if (sscanf(line, "%4095s %15s", path, mode) < 1) continue;
        if (dofork) {
            fflush(out);
            pid = fork();
            if (pid > 0) {              /* parent: wait, turn an abnormal end into an answer line */
                int st = 0, fd, n; char eb[65536];
                waitpid(pid, &st, 0);
                if (WIFEXITED(st) && WEXITSTATUS(st) == 0) continue;
                fseek(out, 0, SEEK_END);
                if (WIFEXITED(st) && WEXITSTATUS(st) == 98) continue;        /* the child wrote TIMEOUT */
                if (WIFSIGNALED(st)) fprintf(out, "CRASH signal=%d", WTERMSIG(st));
                else fprintf(out, "CRASH exit=%d", WEXITSTATUS(st));
                fd = open(errname, O_RDONLY);
                n = fd >= 0 ? (int)read(fd, eb, sizeof eb - 1) : 0;
                if (fd >= 0) close(fd);
                if (n > 0) {            /* the lines that identify a sanitizer report */
                    char *p, *sv; int k = 0;
                    eb[n] = 0;
                    for (p = strtok_r(eb, "\n", &sv); p && k < 12; p = strtok_r(NULL, "\n", &sv))
                        if (strstr(p, "ERROR: AddressSanitizer") || strstr(p, "runtime error:") || strstr(p, "SUMMARY:") ||
                            (strncmp(p, "    #", 5) == 0 && p[5] >= '0' && p[5] <= '7' && p[6] == ' ')) { fprintf(out, " | %.300s", p); k++; }
                }
                fprintf(out, "\n"); fflush(out);
                continue;
            }
            if (pid == 0) {             /* child: stderr to the per-request file */
                int fd = open(errname, O_WRONLY | O_CREAT | O_TRUNC, 0644);
                if (fd >= 0) { dup2(fd, 2); close(fd); }
            }
        }
        int ncid = -1, err, fmt = 0, ndims = -1, nvars = -1, ngatts = -1, unlim = -2, i, j, wfn = 0, nrv = -1, cerr;
        char wf[WFSZ], rd[1024], vf[256]; int rdn = 0, vfn = 0;
        MPI_Offset m0 = 0, m1 = 0, hs = -1, he = -1, rs = -1, numrecs = -1;
        long long ofetch = 0, ocalls = 0;
        struct stat sb; double t0;
        if (!strcmp(mode, "FILL")) {
            alarm(secs); do_fill(path); alarm(0); fflush(out);
            if (dofork && pid == 0) _exit(0);
            continue;
        }
        wf[0] = 0; rd[0] = 0; vf[0] = 0;
        sb.st_size = -1; stat(path, &sb);
        ncmpi_inq_malloc_max_size(&m0);
        t0 = now_ms();
        alarm(secs);
        rd_calls = rd_bytes = 0; lookup_miss = 0;
        err = ncmpi_open(MPI_COMM_WORLD, path, NC_NOWRITE, MPI_INFO_NULL, &ncid);
        if (err != NC_NOERR) {
            ncmpi_inq_malloc_max_size(&m1);
            alarm(0);
            fprintf(out, "ERR %d F ", err);
            if (rd_calls) fprintf(out, "%lld", rd_bytes); else fprintf(out, "-");
            fprintf(out, " # fsz=%lld grow=%lld ms=%.0f fetches=%lld\n", (long long)sb.st_size, (long long)(m1 - m0), now_ms() - t0, rd_calls);
            fflush(out);
            if (dofork && pid == 0) _exit(0);
            continue;
        }
        ncmpi_inq_malloc_max_size(&m1);
        ofetch = rd_bytes; ocalls = rd_calls;
        ncmpi_inq_format(ncid, &fmt);
        fmt = fmt == NC_FORMAT_CDF5 ? 5 : fmt == NC_FORMAT_CDF2 ? 2 : 1;
        err = ncmpi_inq(ncid, &ndims, &nvars, &ngatts, &unlim);
        WFE(err, "inq");
        WF(ndims >= 0 && nvars >= 0 && ngatts >= 0, "counts");
        WF(unlim == -1 || (unlim >= 0 && unlim < ndims), "unlimid");
        if (unlim >= 0) ncmpi_inq_dimlen(ncid, unlim, &numrecs);
        fprintf(out, "OK %d ", fmt);
        if (unlim >= 0) fprintf(out, "%lld", (long long)numrecs); else fprintf(out, "-");
        fprintf(out, " %d %d %d %d D", ndims, nvars, ngatts, unlim);
        for (i = 0; i < ndims && i < MAXLIST; i++) {
            char nm[NC_MAX_NAME + 8]; MPI_Offset l = -1; int id = -1;
            nm[0] = 0;
            err = ncmpi_inq_dim(ncid, i, nm, &l);
            WFE(err, "inqdim");
            WF(strlen(nm) <= NC_MAX_NAME, "dimnamelen");
            WF(l >= 0, "dimlen<0");
            fprintf(out, " %lld", (long long)(i == unlim ? 0 : l));
            if (ncmpi_inq_dimid(ncid, nm, &id) == NC_NOERR) WF(id >= 0 && id < ndims, "dimid");
        }
        fprintf(out, " V");
        for (i = 0; i < nvars && i < MAXLIST; i++) {
            char nm[NC_MAX_NAME + 8]; nc_type xt = 0; int nd = -1, na = -1, *dimids = NULL; MPI_Offset off = -1;
            nm[0] = 0;
            err = ncmpi_inq_varndims(ncid, i, &nd);
            WF(err == NC_NOERR && nd >= 0, "varndims");
            if (err != NC_NOERR || nd < 0) { fprintf(out, " ? ;"); continue; }
            dimids = (int*)malloc(sizeof(int) * ((size_t)nd + 1));
            if (dimids == NULL) { WF(0, "harness-malloc"); fprintf(out, " %d ? ;", nd); continue; }
            err = ncmpi_inq_var(ncid, i, nm, &xt, &nd, dimids, &na);
            WFE(err, "inqvar");
            WF(strlen(nm) <= NC_MAX_NAME, "varnamelen");
            WF(type_ok(fmt, (int)xt), "vartype");
            WF(na >= 0, "varnatts");
            err = ncmpi_inq_varoffset(ncid, i, &off);
            WFE(err, "varoffset");
            {   /* the fill value the library would use (a _FillValue attribute of the file, or the default) */
                int nofill = -1; unsigned char fv[32];
                err = ncmpi_inq_var_fill(ncid, i, &nofill, fv);
                if (vfn < 200) vfn += snprintf(vf + vfn, sizeof vf - vfn, "%s%d", vfn ? "," : "", err);
            }
            fprintf(out, " %d %d %lld %d", nd, (int)xt, (long long)off, na);
            for (j = 0; j < nd; j++) {
                if (j < 64) fprintf(out, " %d", dimids[j]);
                WF(dimids[j] >= 0 && dimids[j] < ndims, "dimid-range");
                WF(j == 0 || dimids[j] != unlim, "unlim-not-first");
            }
            fprintf(out, " ;");
            walk_atts(ncid, i, na, fmt, wf, &wfn, 0);
            /* a one-element read of the first element, when there is one */
            if (nd <= 64) {
                MPI_Offset st[64], ct[64]; int can = 1; unsigned char buf[32];
                for (j = 0; j < nd; j++) {
                    MPI_Offset l = 0; st[j] = 0; ct[j] = 1;
                    if (dimids[j] < 0 || dimids[j] >= ndims || ncmpi_inq_dimlen(ncid, dimids[j], &l) != NC_NOERR || l <= 0) can = 0;
                }
                if (can && type_ok(fmt, (int)xt)) {
                    err = ncmpi_get_vara_all(ncid, i, st, ct, buf, 1, native((int)xt));
                    if (rdn < 900) rdn += snprintf(rd + rdn, sizeof rd - rdn, "%s%d", rdn ? "," : "", err);
                }
            }
            free(dimids);
        }
        WF(ncmpi_inq_header_size(ncid, &hs) == NC_NOERR && hs >= 8, "hdrsize");
        WF(ncmpi_inq_header_extent(ncid, &he) == NC_NOERR && (nvars == 0 || he >= hs), "hdrextent");
        WF(ncmpi_inq_recsize(ncid, &rs) == NC_NOERR && rs >= 0, "recsize");
        WF(ncmpi_inq_num_rec_vars(ncid, &nrv) == NC_NOERR && nrv >= 0 && nrv <= nvars, "nrecvars");
        fprintf(out, " F %lld # G", ofetch);
        walk_atts(ncid, NC_GLOBAL, ngatts, fmt, wf, &wfn, 1);
        cerr = ncmpi_close(ncid);
        alarm(0);
        fprintf(out, " fetches=%lld fsz=%lld grow=%lld ms=%.0f hs=%lld he=%lld rs=%lld nrv=%d wf=%s rd=%s vf=%s miss=%d close=%d\n",
                ocalls, (long long)sb.st_size, (long long)(m1 - m0), now_ms() - t0, (long long)hs, (long long)he, (long long)rs, nrv,
                wfn ? wf : "ok", rdn ? rd : "-", vfn ? vf : "-", lookup_miss, cerr);
        fflush(out);
        if (dofork && pid == 0) _exit(0);
    }
    fclose(out);
    MPI_Finalize();
    return 0;
}
