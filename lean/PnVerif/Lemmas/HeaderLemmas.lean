import PnVerif.Model.Header
/-
  Helper lemmas about Model/Header.lean (byte codecs, zero-extended reads, the read window).
-/
namespace PnVerif.Header
open PnVerif.Spec

/-! ### lengths -/

@[simp] theorem zeros_length (n : Nat) : (zeros n).length = n := by simp [zeros]
@[simp] theorem be32_length (n : Nat) : (be32 n).length = 4 := rfl
@[simp] theorem be64_length (n : Nat) : (be64 n).length = 8 := rfl

@[simp] theorem ztake_length (n : Nat) (s : Bytes) : (ztake n s).length = n := by
  simp [ztake]; omega

theorem putNonNeg_length (f : Fmt) (n : Nat) :
    (putNonNeg f.version n).length = sizeofNonNeg f.version := by
  cases f <;> simp [putNonNeg, sizeofNonNeg, Fmt.version]

theorem putBegin_length (f : Fmt) (n : Nat) :
    (putBegin f.version n).length = sizeofOff f.version := by
  cases f <;> simp [putBegin, sizeofOff, Fmt.version]

/-- a name as the API and the reader produce it: no NUL byte inside -/
def NoNul (name : Bytes) : Prop := ∀ b ∈ name, b ≠ 0

theorem cstr_eq_self {name : Bytes} (h : NoNul name) : cstr name = name := by
  unfold cstr
  induction name with
  | nil => rfl
  | cons a t ih =>
    have ha : a ≠ 0 := h a (by simp)
    have ht : NoNul t := fun b hb => h b (by simp [hb])
    have hb : (a != 0) = true := by simp [ha]
    rw [List.takeWhile_cons, hb]; simp [ih ht]

theorem putName_length (f : Fmt) {name : Bytes} (h : NoNul name) :
    (putName f.version name).length = sizeofNonNeg f.version + rndup name.length 4 := by
  unfold putName
  simp only [cstr_eq_self h, List.length_append, putNonNeg_length, zeros_length]
  unfold rndup
  split <;> omega

theorem length_flatMap_eq_sum {α : Type} (f : α → Bytes) (g : α → Nat) (l : List α)
    (h : ∀ x ∈ l, (f x).length = g x) : (l.flatMap f).length = (l.map g).sum := by
  induction l with
  | nil => rfl
  | cons a t ih =>
    simp only [List.flatMap_cons, List.length_append, List.map_cons, List.sum_cons]
    rw [h a (by simp), ih (fun x hx => h x (by simp [hx]))]

theorem xlenAttrV_ge (t : NcType) (n : Nat) : n * t.size ≤ xlenAttrV t n := by
  cases t <;> simp [xlenAttrV, NcType.size, rndup] <;> omega

end PnVerif.Header

namespace PnVerif.Header
open PnVerif.Spec

/-- no name of the header contains a NUL byte (always true of names that came through the API or
    through strlen-based code; the writer uses strlen, the size computation uses name_len) -/
def NamesNoNul (h : Hdr) : Prop :=
  (∀ d ∈ h.dims, NoNul d.name) ∧ (∀ a ∈ h.gatts, NoNul a.name) ∧
  ∀ v ∈ h.vars, NoNul v.name ∧ ∀ a ∈ v.atts, NoNul a.name

theorem putAttr_length (f : Fmt) (a : Att) (h : NoNul a.name) :
    (putAttr f.version a).length = lenAttr (sizeofNonNeg f.version) a := by
  unfold putAttr lenAttr
  simp only [List.length_append, putName_length f h, be32_length, putNonNeg_length]
  have hx := xlenAttrV_ge a.xtype a.nelems
  unfold attrXsz putAttrV attrXsz
  split
  · simp only [List.length_append, ztake_length, zeros_length]; omega
  · simp

theorem putAttrArray_length (f : Fmt) (as : List Att) (h : ∀ a ∈ as, NoNul a.name) :
    (putAttrArray f.version as).length = lenAttrArray (sizeofNonNeg f.version) as := by
  unfold putAttrArray lenAttrArray
  split
  · rename_i h0
    have : as = [] := List.eq_nil_of_length_eq_zero h0
    subst this
    simp [putNonNeg_length]
  · simp only [List.length_append, be32_length, putNonNeg_length]
    rw [length_flatMap_eq_sum (putAttr f.version) (lenAttr (sizeofNonNeg f.version)) as
          (fun a ha => putAttr_length f a (h a ha))]

theorem putDimArray_length (f : Fmt) (ds : List Dim) (h : ∀ d ∈ ds, NoNul d.name) :
    (putDimArray f.version ds).length = lenDimArray (sizeofNonNeg f.version) ds := by
  unfold putDimArray lenDimArray
  split
  · rename_i h0
    have : ds = [] := List.eq_nil_of_length_eq_zero h0
    subst this
    simp [putNonNeg_length]
  · simp only [List.length_append, be32_length, putNonNeg_length]
    rw [length_flatMap_eq_sum (putDim f.version) (lenDim (sizeofNonNeg f.version)) ds]
    intro d hd
    unfold putDim lenDim
    simp only [List.length_append, putName_length f (h d hd), putNonNeg_length]

theorem putVar_length (f : Fmt) (v : Var) (h : NoNul v.name) (ha : ∀ a ∈ v.atts, NoNul a.name) :
    (putVar f.version v).length = lenVar (sizeofNonNeg f.version) (sizeofOff f.version) v := by
  unfold putVar lenVar
  simp only [List.length_append, putName_length f h, be32_length, putNonNeg_length, putBegin_length,
    putAttrArray_length f v.atts ha]
  rw [length_flatMap_eq_sum (putNonNeg f.version) (fun _ => sizeofNonNeg f.version) v.dimids
        (fun x _ => putNonNeg_length f x)]
  simp only [List.map_const', List.sum_replicate_nat]
  rw [Nat.mul_comm]

theorem putVarArray_length (f : Fmt) (vs : List Var)
    (h : ∀ v ∈ vs, NoNul v.name ∧ ∀ a ∈ v.atts, NoNul a.name) :
    (putVarArray f.version vs).length = lenVarArray (sizeofNonNeg f.version) (sizeofOff f.version) vs := by
  unfold putVarArray lenVarArray
  split
  · rename_i h0
    have : vs = [] := List.eq_nil_of_length_eq_zero h0
    subst this
    simp [putNonNeg_length]
  · simp only [List.length_append, be32_length, putNonNeg_length]
    rw [length_flatMap_eq_sum (putVar f.version) (lenVar (sizeofNonNeg f.version) (sizeofOff f.version)) vs
          (fun v hv => putVar_length f v (h v hv).1 (h v hv).2)]

end PnVerif.Header
