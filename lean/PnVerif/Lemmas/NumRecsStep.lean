import PnVerif.Lemmas.NumRecs
/-
  The per-call lemmas behind `numrecs_inv` (Props/C05.lean): every call keeps the invariant and never
  decreases a record count, provided the call is not one of the three defective cases (`Good`).
-/
namespace PnVerif.NumRecs

theorem putEnd_raise (f : Nat → PutIn) (M : Nat) (r : Rank) : putEnd f (raiseRank M r) = putEnd f r := by
  unfold putEnd; rw [raiseRank_id]
theorem vardEnd_raise (f : Nat → VardIn) (M : Nat) (r : Rank) : vardEnd f (raiseRank M r) = vardEnd f r := by
  unfold vardEnd; rw [raiseRank_id]

theorem filterMap_raise (en : Rank → Option Nat) (M : Nat) (l : List Rank)
    (hid : ∀ r, en (raiseRank M r) = en r) : (l.map (raiseRank M)).filterMap en = l.filterMap en := by
  induction l with
  | nil => rfl
  | cons x xs ih => simp only [List.map_cons, List.filterMap_cons, hid x, ih]

/-- collective write in collective data mode: contributions `c`, completed writes `en` -/
theorem coll_write_inv (w : World) (hI : Inv w) (hc : w.indep = false) (c : Rank → Nat) (en : Rank → Option Nat)
    (hid : ∀ M r, en (raiseRank M r) = en r)
    (h1 : ∀ r ∈ w.ranks, ∀ e, en r = some e → c r = e)
    (h2 : ∀ r ∈ w.ranks, c r ≤ maxOver w.hi (w.ranks.filterMap en)) :
    Inv (recordWrites (raiseAll w (maxOver 0 (w.ranks.map c))) en) ∧
    Mono w (recordWrites (raiseAll w (maxOver 0 (w.ranks.map c))) en) := by
  obtain ⟨hall, hhdr⟩ := hI.coll hc
  have hM : maxOver 0 (w.ranks.map c) ≤ maxOver w.hi (w.ranks.filterMap en) := by
    apply maxOver_le _ _ _ (Nat.zero_le _)
    intro x hx
    obtain ⟨r, hr, rfl⟩ := List.mem_map.mp hx
    exact h2 r hr
  have hN : maxOver w.hi (w.ranks.filterMap en) ≤ max w.hi (maxOver 0 (w.ranks.map c)) := by
    apply maxOver_le _ _ _ (Nat.le_max_left _ _)
    intro e he
    obtain ⟨r, hr, hre⟩ := List.mem_filterMap.mp he
    have : c r = e := h1 r hr e hre
    have hmem : e ∈ w.ranks.map c := List.mem_map.mpr ⟨r, hr, this⟩
    exact Nat.le_trans (le_maxOver_mem 0 _ e hmem) (Nat.le_max_right _ _)
  have hH : w.hi ≤ maxOver w.hi (w.ranks.filterMap en) := le_maxOver_base _ _
  have hEq : max w.hi (maxOver 0 (w.ranks.map c)) = maxOver w.hi (w.ranks.filterMap en) :=
    Nat.le_antisymm (Nat.max_le.mpr ⟨hH, hM⟩) hN
  -- name things
  generalize hMdef : maxOver 0 (w.ranks.map c) = M at *
  have hhi' : (recordWrites (raiseAll w M) en).hi = maxOver w.hi (w.ranks.filterMap en) := by
    show maxOver (raiseAll w M).hi ((raiseAll w M).ranks.filterMap en) = _
    rw [raiseAll_hi, raiseAll_ranks', filterMap_raise en M w.ranks (hid M)]
  have hranks' : (recordWrites (raiseAll w M) en).ranks =
      w.ranks.map (fun r => match en (raiseRank M r) with
                            | some e => { raiseRank M r with own := max (raiseRank M r).own e }
                            | none => raiseRank M r) := by
    show ((raiseAll w M).ranks.map _) = _
    rw [raiseAll_ranks', List.map_map]; rfl
  have hnum : ∀ r ∈ w.ranks, (match en (raiseRank M r) with
                            | some e => { raiseRank M r with own := max (raiseRank M r).own e }
                            | none => raiseRank M r).numrecs = maxOver w.hi (w.ranks.filterMap en) := by
    intro r hr
    have : (raiseRank M r).numrecs = maxOver w.hi (w.ranks.filterMap en) := by
      rw [raiseRank_numrecs, hall r hr, hEq]
    split <;> simpa using this
  obtain ⟨root, rest, hroot⟩ := List.exists_cons_of_ne_nil hI.nonempty
  have hhdr' : (recordWrites (raiseAll w M) en).hdr = maxOver w.hi (w.ranks.filterMap en) := by
    show (raiseAll w M).hdr = _
    rw [raiseAll_hdr_of_root w M w.hi root rest hroot (hall root (head_mem hroot)), ← hEq, hhdr]
    split <;> omega
  constructor
  · constructor
    · rw [hranks']; intro h; exact hI.nonempty (List.map_eq_nil_iff.mp h)
    · intro _
      refine ⟨?_, by rw [hhdr', hhi']⟩
      intro r' hr'
      rw [hranks'] at hr'
      obtain ⟨r, hr, rfl⟩ := List.mem_map.mp hr'
      rw [hhi']; exact hnum r hr
    · intro hi'; exact absurd (show w.indep = true from hi') (by rw [hc]; decide)
    · intro r' hr'
      rw [hranks'] at hr'
      obtain ⟨r, hr, rfl⟩ := List.mem_map.mp hr'
      rw [hnum r hr]
      have hown : r.own ≤ maxOver w.hi (w.ranks.filterMap en) :=
        Nat.le_trans (hI.own r hr) (by rw [hall r hr]; exact hH)
      cases hen : en (raiseRank M r) with
      | none => simp only [raiseRank_own]; exact hown
      | some e =>
        simp only [raiseRank_own]
        have he : e ∈ w.ranks.filterMap en :=
          List.mem_filterMap.mpr ⟨r, hr, by rw [← hid M r]; exact hen⟩
        exact Nat.max_le.mpr ⟨hown, le_maxOver_mem _ _ e he⟩
    · intro root' hroot'
      rw [hranks'] at hroot'
      obtain ⟨r, _, hr, rfl⟩ := head?_map_some _ _ _ hroot'
      rw [hhdr', hnum r hr]; exact Nat.le_refl _
  · refine ⟨by rw [hhdr', hhdr]; exact hH, ?_⟩
    rw [hranks']
    apply forall2_map
    intro r hr
    constructor
    · cases hen : en (raiseRank M r) <;> simp [raiseRank_id]
    · rw [hnum r hr, hall r hr]; exact hH


/-- core of every collective raise in collective mode: all ranks end at `newHi = max hi M` -/
theorem coll_raise_inv (w : World) (hI : Inv w) (hc : w.indep = false) (M newHi : Nat)
    (hEq : max w.hi M = newHi) (g : Rank → Rank)
    (hnum : ∀ r, (g r).numrecs = r.numrecs) (hgid : ∀ r, (g r).id = r.id)
    (hown : ∀ r ∈ w.ranks, (g (raiseRank M r)).own ≤ newHi) :
    Inv { ranks := (w.ranks.map (raiseRank M)).map g, hdr := (raiseAll w M).hdr, indep := false, hi := newHi } ∧
    Mono w { ranks := (w.ranks.map (raiseRank M)).map g, hdr := (raiseAll w M).hdr, indep := false, hi := newHi } := by
  obtain ⟨hall, hhdr⟩ := hI.coll hc
  obtain ⟨root, rest, hroot⟩ := List.exists_cons_of_ne_nil hI.nonempty
  have hH : w.hi ≤ newHi := by omega
  have hhdr' : (raiseAll w M).hdr = newHi := by
    rw [raiseAll_hdr_of_root w M w.hi root rest hroot (hall root (head_mem hroot)), ← hEq, hhdr]
    split <;> omega
  have hn : ∀ r ∈ w.ranks, (g (raiseRank M r)).numrecs = newHi := by
    intro r hr; rw [hnum, raiseRank_numrecs, hall r hr, hEq]
  rw [List.map_map]
  constructor
  · constructor
    · intro h; exact hI.nonempty (List.map_eq_nil_iff.mp h)
    · intro _
      refine ⟨?_, hhdr'⟩
      intro r' hr'
      obtain ⟨r, hr, rfl⟩ := List.mem_map.mp hr'
      exact hn r hr
    · intro h; cases h
    · intro r' hr'
      obtain ⟨r, hr, rfl⟩ := List.mem_map.mp hr'
      show (g (raiseRank M r)).own ≤ (g (raiseRank M r)).numrecs
      rw [hn r hr]; exact hown r hr
    · intro root' hroot'
      obtain ⟨r, _, hr, rfl⟩ := head?_map_some _ _ _ hroot'
      show (raiseAll w M).hdr ≤ (g (raiseRank M r)).numrecs
      rw [hhdr', hn r hr]; exact Nat.le_refl _
  · refine ⟨by show w.hdr ≤ (raiseAll w M).hdr; rw [hhdr', hhdr]; exact hH, ?_⟩
    apply forall2_map
    intro r hr
    refine ⟨?_, ?_⟩
    · show r.id = (g (raiseRank M r)).id
      rw [hgid, raiseRank_id]
    · show r.numrecs ≤ (g (raiseRank M r)).numrecs
      rw [hn r hr, hall r hr]; exact hH

/-- same in independent mode (only ncmpi_fill_var_rec gets here) -/
theorem ind_raise_inv (w : World) (hI : Inv w) (hc : w.indep = true) (M newHi : Nat)
    (hEq : max w.hi M = newHi) (g : Rank → Rank)
    (hnum : ∀ r, (g r).numrecs = r.numrecs) (hgid : ∀ r, (g r).id = r.id)
    (hown : ∀ r ∈ w.ranks, (g (raiseRank M r)).own ≤ max r.numrecs M) :
    Inv { ranks := (w.ranks.map (raiseRank M)).map g, hdr := (raiseAll w M).hdr, indep := true, hi := newHi } ∧
    Mono w { ranks := (w.ranks.map (raiseRank M)).map g, hdr := (raiseAll w M).hdr, indep := true, hi := newHi } := by
  obtain ⟨hle, hhdr, r0, hr0, hr0eq⟩ := hI.ind hc
  have hH : w.hi ≤ newHi := by omega
  have hMle : M ≤ newHi := by omega
  have hn : ∀ r, (g (raiseRank M r)).numrecs = max r.numrecs M := by
    intro r; rw [hnum, raiseRank_numrecs]
  rw [List.map_map]
  constructor
  · constructor
    · intro h; exact hI.nonempty (List.map_eq_nil_iff.mp h)
    · intro h; cases h
    · intro _
      refine ⟨?_, ?_, ?_⟩
      · intro r' hr'
        obtain ⟨r, hr, rfl⟩ := List.mem_map.mp hr'
        show (g (raiseRank M r)).numrecs ≤ newHi
        rw [hn]; have := hle r hr; omega
      · exact raiseAll_hdr_le w M newHi (by omega) hMle (fun r hr => by have := hle r hr; omega)
      · refine ⟨g (raiseRank M r0), List.mem_map.mpr ⟨r0, hr0, rfl⟩, ?_⟩
        show (g (raiseRank M r0)).numrecs = newHi
        rw [hn, hr0eq, hEq]
    · intro r' hr'
      obtain ⟨r, hr, rfl⟩ := List.mem_map.mp hr'
      show (g (raiseRank M r)).own ≤ (g (raiseRank M r)).numrecs
      rw [hn]; exact hown r hr
    · intro root' hroot'
      obtain ⟨r, hrh, hr, rfl⟩ := head?_map_some _ _ _ hroot'
      show (raiseAll w M).hdr ≤ (g (raiseRank M r)).numrecs
      rw [hn]
      obtain ⟨rest, hq⟩ : ∃ rest, w.ranks = r :: rest := by
        cases hw : w.ranks with
        | nil => rw [hw] at hrh; simp at hrh
        | cons x xs => rw [hw] at hrh; simp at hrh; exact ⟨xs, by rw [hrh]⟩
      rw [raiseAll_hdr_of_root w M r.numrecs r rest hq rfl]
      have := hI.rootHdr r hrh
      split <;> omega
  · refine ⟨?_, ?_⟩
    · show w.hdr ≤ (raiseAll w M).hdr
      apply raiseAll_hdr_ge
      intro root rest hroot
      have := hI.rootHdr root (by rw [hroot]; rfl)
      by_cases hlt : root.numrecs < M
      · left; omega
      · right; exact hlt
    · apply forall2_map
      intro r hr
      refine ⟨?_, ?_⟩
      · show r.id = (g (raiseRank M r)).id
        rw [hgid, raiseRank_id]
      · show r.numrecs ≤ (g (raiseRank M r)).numrecs
        rw [hn]; omega


/-! ### calls that only touch bookkeeping -/
/-- ranks mapped by a function that keeps id and numrecs and does not raise `own` above numrecs -/
theorem inv_map_keep (w : World) (hI : Inv w) (g : Rank → Rank) (hi' : Nat) (hhi : hi' = w.hi)
    (hnum : ∀ r, (g r).numrecs = r.numrecs) (hgid : ∀ r, (g r).id = r.id)
    (hown : ∀ r ∈ w.ranks, (g r).own ≤ r.numrecs) :
    Inv { ranks := w.ranks.map g, hdr := w.hdr, indep := w.indep, hi := hi' } ∧
    Mono w { ranks := w.ranks.map g, hdr := w.hdr, indep := w.indep, hi := hi' } := by
  subst hhi
  constructor
  · constructor
    · intro h; exact hI.nonempty (List.map_eq_nil_iff.mp h)
    · intro hc
      obtain ⟨hall, hhdr⟩ := hI.coll hc
      refine ⟨?_, hhdr⟩
      intro r' hr'
      obtain ⟨r, hr, rfl⟩ := List.mem_map.mp hr'
      show (g r).numrecs = w.hi
      rw [hnum]; exact hall r hr
    · intro hc
      obtain ⟨hle, hhdr, r0, hr0, hr0eq⟩ := hI.ind hc
      refine ⟨?_, hhdr, ⟨g r0, List.mem_map.mpr ⟨r0, hr0, rfl⟩, by show (g r0).numrecs = w.hi; rw [hnum]; exact hr0eq⟩⟩
      intro r' hr'
      obtain ⟨r, hr, rfl⟩ := List.mem_map.mp hr'
      show (g r).numrecs ≤ w.hi
      rw [hnum]; exact hle r hr
    · intro r' hr'
      obtain ⟨r, hr, rfl⟩ := List.mem_map.mp hr'
      show (g r).own ≤ (g r).numrecs
      rw [hnum]; exact hown r hr
    · intro root' hroot'
      obtain ⟨r, hrh, _, rfl⟩ := head?_map_some _ _ _ hroot'
      show w.hdr ≤ (g r).numrecs
      rw [hnum]; exact hI.rootHdr r hrh
  · refine ⟨Nat.le_refl _, ?_⟩
    apply forall2_map
    intro r _
    exact ⟨(hgid r).symm, by rw [hnum]; exact Nat.le_refl _⟩

/-! ### ncmpio_sync_numrecs in independent mode -/
theorem syncCore_max (w : World) (hI : Inv w) (hc : w.indep = true) : maxOver 0 (w.ranks.map (·.numrecs)) = w.hi := by
  obtain ⟨hle, _, r0, hr0, hr0eq⟩ := hI.ind hc
  apply Nat.le_antisymm
  · apply maxOver_le _ _ _ (Nat.zero_le _)
    intro x hx
    obtain ⟨r, hr, rfl⟩ := List.mem_map.mp hx
    exact hle r hr
  · rw [← hr0eq]
    exact le_maxOver_mem _ _ _ (List.mem_map.mpr ⟨r0, hr0, rfl⟩)

theorem syncCore_ranks (w : World) :
    (syncCore w).ranks = w.ranks.map (fun r => { r with numrecs := maxOver 0 (w.ranks.map (·.numrecs)), dirty := false }) := rfl
theorem syncCore_hi (w : World) : (syncCore w).hi = w.hi := rfl
theorem syncCore_indep (w : World) : (syncCore w).indep = w.indep := rfl

theorem syncCore_hdr (w : World) (hI : Inv w) (hc : w.indep = true) : (syncCore w).hdr = w.hi := by
  obtain ⟨root, rest, hroot⟩ := List.exists_cons_of_ne_nil hI.nonempty
  obtain ⟨hle, _, _⟩ := hI.ind hc
  have hM := syncCore_max w hI hc
  have hr := hle root (head_mem hroot)
  unfold syncCore writeNumrecs
  simp only [hroot, hM, or_true, if_true]
  rw [hroot] at hM
  omega

/-- after the synchronisation every rank and the header hold `hi`; `ind'` = the mode afterwards -/
theorem syncCore_inv (w : World) (hI : Inv w) (hc : w.indep = true) (ind' : Bool) :
    Inv { syncCore w with indep := ind' } ∧ Mono w { syncCore w with indep := ind' } ∧
    (∀ r ∈ (syncCore w).ranks, r.numrecs = w.hi) ∧ (syncCore w).hdr = w.hi := by
  obtain ⟨hle, hhdr, r0, hr0, hr0eq⟩ := hI.ind hc
  have hM := syncCore_max w hI hc
  have hH := syncCore_hdr w hI hc
  have hall : ∀ r ∈ (syncCore w).ranks, r.numrecs = w.hi := by
    intro r' hr'
    rw [syncCore_ranks] at hr'
    obtain ⟨r, _, rfl⟩ := List.mem_map.mp hr'
    exact hM
  refine ⟨?_, ?_, hall, hH⟩
  · constructor
    · show (syncCore w).ranks ≠ []
      rw [syncCore_ranks]; intro h; exact hI.nonempty (List.map_eq_nil_iff.mp h)
    · intro _; exact ⟨hall, hH⟩
    · intro _
      refine ⟨fun r hr => Nat.le_of_eq (hall r hr), Nat.le_of_eq hH, ?_⟩
      have hne : (syncCore w).ranks ≠ [] := by
        rw [syncCore_ranks]; intro h; exact hI.nonempty (List.map_eq_nil_iff.mp h)
      obtain ⟨x, hx⟩ := List.exists_mem_of_ne_nil _ hne
      exact ⟨x, hx, hall x hx⟩
    · intro r' hr'
      have hr'' : r' ∈ (syncCore w).ranks := hr'
      rw [syncCore_ranks] at hr''
      obtain ⟨r, hr, rfl⟩ := List.mem_map.mp hr''
      show r.own ≤ maxOver 0 (w.ranks.map (·.numrecs))
      rw [hM]; exact Nat.le_trans (hI.own r hr) (hle r hr)
    · intro root' hroot'
      have h2 : (syncCore w).ranks.head? = some root' := hroot'
      rw [syncCore_ranks] at h2
      obtain ⟨r, _, _, rfl⟩ := head?_map_some _ _ _ h2
      show (syncCore w).hdr ≤ maxOver 0 (w.ranks.map (·.numrecs))
      rw [hH, hM]; exact Nat.le_refl _
  · refine ⟨by show w.hdr ≤ (syncCore w).hdr; rw [hH]; exact hhdr, ?_⟩
    show Pointwise _ w.ranks (syncCore w).ranks
    rw [syncCore_ranks]
    apply forall2_map
    intro r hr
    exact ⟨rfl, by show r.numrecs ≤ maxOver 0 (w.ranks.map (·.numrecs)); rw [hM]; exact hle r hr⟩

theorem endIndepCore_inv (w : World) (hI : Inv w) :
    Inv (endIndepCore w) ∧ Mono w (endIndepCore w) ∧ (endIndepCore w).indep = false ∧ (endIndepCore w).hi = w.hi := by
  unfold endIndepCore
  by_cases hc : w.indep = true
  · rw [if_pos hc]
    obtain ⟨h1, h2, _, _⟩ := syncCore_inv w hI hc false
    exact ⟨h1, h2, rfl, rfl⟩
  · have hc' : w.indep = false := by simpa using hc
    rw [if_neg hc]
    exact ⟨hI, Mono.refl w, hc', rfl⟩


/-! ### nonblocking requests -/
theorem litNew_ge (scan : Bool) (r : Rank) (s : Sel) : r.numrecs ≤ litNew scan r s := le_maxOver_base _ _

/-- what req_commit computes never exceeds what the marked requests write -/
theorem litNew_le (scan : Bool) (r : Rank) (s : Sel) : litNew scan r s ≤ maxOver r.numrecs (markedRecs r s) := by
  unfold litNew
  apply maxOver_le _ _ _ (le_maxOver_base _ _)
  intro x hx
  obtain ⟨p, hp, rfl⟩ := List.mem_map.mp hx
  obtain ⟨hp1, hp2⟩ := List.mem_filter.mp hp
  have hpm : p ∈ r.pending := List.mem_of_mem_take hp1
  simp only [Bool.and_eq_true] at hp2
  apply le_maxOver_mem
  unfold markedRecs marked
  exact List.mem_map.mpr ⟨p, List.mem_filter.mpr ⟨List.mem_filter.mpr ⟨hpm, hp2.1⟩, hp2.2⟩, rfl⟩

theorem markedRecs_raise (M : Nat) (r : Rank) (s : Sel) : markedRecs (raiseRank M r) s = markedRecs r s := by
  unfold markedRecs marked; rw [raiseRank_pending]

theorem markedRecs_nil_of_marked_nil (r : Rank) (s : Sel) (h : (marked r.pending s).isEmpty = true) : markedRecs r s = [] := by
  unfold markedRecs
  have : marked r.pending s = [] := List.isEmpty_iff.mp h
  rw [this]; rfl

theorem completeReqs_numrecs (r : Rank) (s : Sel) : (completeReqs r s).numrecs = r.numrecs := rfl
theorem completeReqs_id (r : Rank) (s : Sel) : (completeReqs r s).id = r.id := rfl
theorem completeReqs_own (r : Rank) (s : Sel) : (completeReqs r s).own = maxOver r.own (markedRecs r s) := rfl

/-- with the repaired loop bound req_commit sees every marked request -/
theorem litNew_scan_ge (r : Rank) (s : Sel) : ∀ e ∈ markedRecs r s, e ≤ litNew true r s := by
  intro e he
  unfold markedRecs marked at he
  obtain ⟨p, hp, rfl⟩ := List.mem_map.mp he
  obtain ⟨hp1, hrec⟩ := List.mem_filter.mp hp
  obtain ⟨hpm, hmk⟩ := List.mem_filter.mp hp1
  unfold litNew
  apply le_maxOver_mem
  simp only [if_true, List.take_length]
  exact List.mem_map.mpr ⟨p, List.mem_filter.mpr ⟨hpm, by simp [hmk, hrec]⟩, rfl⟩

/-- ncmpi_wait_all in collective mode, no invalid request id -/
theorem waitAll_inv (scan : Bool) (w : World) (hI : Inv w) (hc : w.indep = false) (sel : Nat → Sel)
    (hg : ∀ r ∈ w.ranks, ∀ e ∈ markedRecs r (sel r.id), e ≤ litNew scan r (sel r.id)) :
    let M := maxOver 0 (w.ranks.map fun r => litNew scan r (sel r.id))
    let doWrite := w.ranks.any fun r => !(marked r.pending (sel r.id)).isEmpty
    let w1 := if doWrite then raiseAll w M else w
    let w' : World := { w1 with hi := maxOver w1.hi (w.ranks.flatMap fun r => markedRecs r (sel r.id)),
                                ranks := w1.ranks.map fun r => completeReqs r (sel r.id) }
    Inv w' ∧ Mono w w' := by
  intro M doWrite w1 w'
  obtain ⟨hall, hhdr⟩ := hI.coll hc
  obtain ⟨root, rest, hroot⟩ := List.exists_cons_of_ne_nil hI.nonempty
  have hrootmem : root ∈ w.ranks := head_mem hroot
  -- the new ghost value
  have hnew_ge : w.hi ≤ maxOver w.hi (w.ranks.flatMap fun r => markedRecs r (sel r.id)) := le_maxOver_base _ _
  have hsub : ∀ r ∈ w.ranks, ∀ e ∈ markedRecs r (sel r.id), e ≤ maxOver w.hi (w.ranks.flatMap fun r => markedRecs r (sel r.id)) := by
    intro r hr e he
    exact le_maxOver_mem _ _ e (List.mem_flatMap.mpr ⟨r, hr, he⟩)
  have hlit_le : ∀ r ∈ w.ranks, litNew scan r (sel r.id) ≤ maxOver w.hi (w.ranks.flatMap fun r => markedRecs r (sel r.id)) := by
    intro r hr
    apply Nat.le_trans (litNew_le scan r (sel r.id))
    apply maxOver_le
    · rw [hall r hr]; exact hnew_ge
    · exact hsub r hr
  have hM_le : M ≤ maxOver w.hi (w.ranks.flatMap fun r => markedRecs r (sel r.id)) := by
    apply maxOver_le _ _ _ (Nat.zero_le _)
    intro x hx
    obtain ⟨r, hr, rfl⟩ := List.mem_map.mp hx
    exact hlit_le r hr
  have hM_ge : ∀ r ∈ w.ranks, litNew scan r (sel r.id) ≤ M := by
    intro r hr
    exact le_maxOver_mem _ _ _ (List.mem_map.mpr ⟨r, hr, rfl⟩)
  have hEq : max w.hi M = maxOver w.hi (w.ranks.flatMap fun r => markedRecs r (sel r.id)) := by
    apply Nat.le_antisymm (Nat.max_le.mpr ⟨hnew_ge, hM_le⟩)
    apply maxOver_le _ _ _ (Nat.le_max_left _ _)
    intro e he
    obtain ⟨r, hr, her⟩ := List.mem_flatMap.mp he
    exact Nat.le_trans (Nat.le_trans (hg r hr e her) (hM_ge r hr)) (Nat.le_max_right _ _)
  by_cases hd : doWrite = true
  · have hw1 : w1 = raiseAll w M := by show (if doWrite then raiseAll w M else w) = _; rw [if_pos hd]
    have hw' : w' = { ranks := (w.ranks.map (raiseRank M)).map (fun r => completeReqs r (sel r.id)),
                      hdr := (raiseAll w M).hdr, indep := false,
                      hi := maxOver w.hi (w.ranks.flatMap fun r => markedRecs r (sel r.id)) } := by
      show ({ w1 with hi := maxOver w1.hi _, ranks := w1.ranks.map _ } : World) = _
      rw [hw1, raiseAll_hi, raiseAll_ranks']
      show World.mk _ _ (raiseAll w M).indep _ = _
      rw [raiseAll_indep, hc]
    rw [hw']
    apply coll_raise_inv w hI hc M _ hEq (fun r => completeReqs r (sel r.id))
    · intro r; rfl
    · intro r; rfl
    · intro r hr
      show maxOver (raiseRank M r).own (markedRecs (raiseRank M r) (sel (raiseRank M r).id)) ≤ _
      rw [raiseRank_own, raiseRank_id, markedRecs_raise]
      apply maxOver_le
      · exact Nat.le_trans (hI.own r hr) (by rw [hall r hr]; exact hnew_ge)
      · exact hsub r hr
  · have hd' : doWrite = false := by simpa using hd
    have hw1 : w1 = w := by show (if doWrite then raiseAll w M else w) = _; rw [if_neg hd]
    have hempty : ∀ r ∈ w.ranks, markedRecs r (sel r.id) = [] := by
      intro r hr
      apply markedRecs_nil_of_marked_nil
      have := List.any_eq_false.mp hd' r hr
      simpa using this
    have hnewhi : maxOver w.hi (w.ranks.flatMap fun r => markedRecs r (sel r.id)) = w.hi := by
      apply Nat.le_antisymm _ hnew_ge
      apply maxOver_le _ _ _ (Nat.le_refl _)
      intro e he
      obtain ⟨r, hr, her⟩ := List.mem_flatMap.mp he
      rw [hempty r hr] at her; cases her
    have hw' : w' = { ranks := w.ranks.map (fun r => completeReqs r (sel r.id)), hdr := w.hdr, indep := w.indep,
                      hi := maxOver w.hi (w.ranks.flatMap fun r => markedRecs r (sel r.id)) } := by
      show ({ w1 with hi := maxOver w1.hi _, ranks := w1.ranks.map _ } : World) = _
      rw [hw1]
    rw [hw']
    apply inv_map_keep w hI _ _ hnewhi
    · intro r; rfl
    · intro r; rfl
    · intro r hr
      show maxOver r.own (markedRecs r (sel r.id)) ≤ r.numrecs
      rw [hempty r hr]; exact hI.own r hr


/-! ### rank-local updates in independent mode -/
theorem indep_local_inv (w : World) (hI : Inv w) (hc : w.indep = true) (g : Rank → Rank) (hi' : Nat)
    (hge : w.hi ≤ hi') (hgid : ∀ r, (g r).id = r.id)
    (hmono : ∀ r ∈ w.ranks, r.numrecs ≤ (g r).numrecs) (hle : ∀ r ∈ w.ranks, (g r).numrecs ≤ hi')
    (hown : ∀ r ∈ w.ranks, (g r).own ≤ (g r).numrecs)
    (hwit : hi' ≠ w.hi → ∃ r ∈ w.ranks, (g r).numrecs = hi') :
    Inv { ranks := w.ranks.map g, hdr := w.hdr, indep := true, hi := hi' } ∧
    Mono w { ranks := w.ranks.map g, hdr := w.hdr, indep := true, hi := hi' } := by
  obtain ⟨hle0, hhdr, r0, hr0, hr0eq⟩ := hI.ind hc
  constructor
  · constructor
    · intro h; exact hI.nonempty (List.map_eq_nil_iff.mp h)
    · intro h; cases h
    · intro _
      refine ⟨?_, Nat.le_trans hhdr hge, ?_⟩
      · intro r' hr'
        obtain ⟨r, hr, rfl⟩ := List.mem_map.mp hr'
        exact hle r hr
      · by_cases hq : hi' = w.hi
        · refine ⟨g r0, List.mem_map.mpr ⟨r0, hr0, rfl⟩, ?_⟩
          have h1 := hmono r0 hr0
          have h2 := hle r0 hr0
          show (g r0).numrecs = hi'
          omega
        · obtain ⟨r, hr, hrr⟩ := hwit hq
          exact ⟨g r, List.mem_map.mpr ⟨r, hr, rfl⟩, hrr⟩
    · intro r' hr'
      obtain ⟨r, hr, rfl⟩ := List.mem_map.mp hr'
      exact hown r hr
    · intro root' hroot'
      obtain ⟨r, hrh, hr, rfl⟩ := head?_map_some _ _ _ hroot'
      exact Nat.le_trans (hI.rootHdr r hrh) (hmono r hr)
  · refine ⟨Nat.le_refl _, ?_⟩
    apply forall2_map
    intro r hr
    exact ⟨(hgid r).symm, hmono r hr⟩

theorem putIndep_inv (w : World) (hI : Inv w) (hc : w.indep = true) (rk e : Nat) :
    let w' : World := { w with
        hi := maxOver w.hi ((w.ranks.filter fun r => r.id == rk).map fun _ => e),
        ranks := w.ranks.map fun r =>
          if r.id == rk then
            (if r.numrecs < e then { r with numrecs := e, dirty := true, own := max r.own e }
             else { r with own := max r.own e })
          else r }
    Inv w' ∧ Mono w w' := by
  intro w'
  obtain ⟨hle0, _, _, _, _⟩ := hI.ind hc
  have hw' : w' = { ranks := w.ranks.map (fun r =>
          if r.id == rk then
            (if r.numrecs < e then { r with numrecs := e, dirty := true, own := max r.own e }
             else { r with own := max r.own e })
          else r),
                    hdr := w.hdr, indep := true,
                    hi := maxOver w.hi ((w.ranks.filter fun r => r.id == rk).map fun _ => e) } := by
    show World.mk _ w.hdr w.indep _ = _
    rw [hc]
  rw [hw']
  have hmem : ∀ r ∈ w.ranks, (r.id == rk) = true → e ≤ maxOver w.hi ((w.ranks.filter fun r => r.id == rk).map fun _ => e) := by
    intro r hr hid
    apply le_maxOver_mem
    exact List.mem_map.mpr ⟨r, List.mem_filter.mpr ⟨hr, hid⟩, rfl⟩
  apply indep_local_inv w hI hc _ _ (le_maxOver_base _ _)
  · intro r; split
    · split <;> rfl
    · rfl
  · intro r _; split
    · split
      · simp only; omega
      · exact Nat.le_refl _
    · exact Nat.le_refl _
  · intro r hr
    by_cases hid : (r.id == rk) = true
    · rw [if_pos hid]
      split
      · exact hmem r hr hid
      · exact Nat.le_trans (hle0 r hr) (le_maxOver_base _ _)
    · rw [if_neg hid]; exact Nat.le_trans (hle0 r hr) (le_maxOver_base _ _)
  · intro r hr
    have := hI.own r hr
    by_cases hid : (r.id == rk) = true
    · rw [if_pos hid]
      split
      · simp only; omega
      · simp only; omega
    · rw [if_neg hid]; exact this
  · intro hne
    rcases maxOver_mem_or w.hi ((w.ranks.filter fun r => r.id == rk).map fun _ => e) with h | h
    · exact absurd h hne
    · obtain ⟨r, hrf, hre⟩ := List.mem_map.mp h
      obtain ⟨hr, hid⟩ := List.mem_filter.mp hrf
      refine ⟨r, hr, ?_⟩
      rw [if_pos hid, ← hre]
      have h1 := hle0 r hr
      have h2 : w.hi ≤ e := by rw [hre]; exact le_maxOver_base _ _
      split
      · rfl
      · simp only; omega

theorem wait_inv (scan : Bool) (w : World) (hI : Inv w) (hc : w.indep = true) (rk : Nat) (s : Sel)
    (hg : ∀ r ∈ w.ranks, r.id = rk → ∀ e ∈ markedRecs r s, e ≤ litNew scan r s) :
    let w' : World := { w with
        hi := maxOver w.hi ((w.ranks.filter fun r => r.id == rk && !badSel r.pending s).flatMap fun r => markedRecs r s),
        ranks := w.ranks.map fun r =>
          if r.id == rk && !badSel r.pending s then
            (if !(marked r.pending s).isEmpty && decide (r.numrecs < litNew scan r s) then
               { completeReqs r s with numrecs := litNew scan r s, dirty := true }
             else completeReqs r s)
          else r }
    Inv w' ∧ Mono w w' := by
  intro w'
  obtain ⟨hle0, _, _, _, _⟩ := hI.ind hc
  have hw' : w' = { ranks := w.ranks.map (fun r =>
          if r.id == rk && !badSel r.pending s then
            (if !(marked r.pending s).isEmpty && decide (r.numrecs < litNew scan r s) then
               { completeReqs r s with numrecs := litNew scan r s, dirty := true }
             else completeReqs r s)
          else r),
                    hdr := w.hdr, indep := true,
                    hi := maxOver w.hi ((w.ranks.filter fun r => r.id == rk && !badSel r.pending s).flatMap fun r => markedRecs r s) } := by
    show World.mk _ w.hdr w.indep _ = _
    rw [hc]
  rw [hw']
  generalize hH : maxOver w.hi ((w.ranks.filter fun r => r.id == rk && !badSel r.pending s).flatMap fun r => markedRecs r s) = H
  have hbase : w.hi ≤ H := by rw [← hH]; exact le_maxOver_base _ _
  have hmem : ∀ r ∈ w.ranks, (r.id == rk && !badSel r.pending s) = true → ∀ e ∈ markedRecs r s, e ≤ H := by
    intro r hr hsel e he
    rw [← hH]
    exact le_maxOver_mem _ _ e (List.mem_flatMap.mpr ⟨r, List.mem_filter.mpr ⟨hr, hsel⟩, he⟩)
  have hlit : ∀ r ∈ w.ranks, (r.id == rk && !badSel r.pending s) = true → litNew scan r s ≤ H := by
    intro r hr hsel
    apply Nat.le_trans (litNew_le scan r s)
    exact maxOver_le _ _ _ (Nat.le_trans (hle0 r hr) hbase) (hmem r hr hsel)
  have hidOf : ∀ r : Rank, (r.id == rk && !badSel r.pending s) = true → r.id = rk := by
    intro r h
    simp only [Bool.and_eq_true, beq_iff_eq] at h
    exact h.1
  apply indep_local_inv w hI hc _ H hbase
  · intro r; split
    · split <;> rfl
    · rfl
  · intro r _; split
    · split
      · rename_i h2
        simp only [Bool.and_eq_true, decide_eq_true_eq] at h2
        exact Nat.le_of_lt h2.2
      · exact Nat.le_refl _
    · exact Nat.le_refl _
  · intro r hr
    by_cases hsel : (r.id == rk && !badSel r.pending s) = true
    · rw [if_pos hsel]
      split
      · exact hlit r hr hsel
      · exact Nat.le_trans (hle0 r hr) hbase
    · rw [if_neg hsel]; exact Nat.le_trans (hle0 r hr) hbase
  · intro r hr
    by_cases hsel : (r.id == rk && !badSel r.pending s) = true
    · rw [if_pos hsel]
      have hgood := hg r hr (hidOf r hsel)
      split
      · show maxOver r.own (markedRecs r s) ≤ litNew scan r s
        exact maxOver_le _ _ _ (Nat.le_trans (hI.own r hr) (litNew_ge scan r s)) hgood
      · rename_i h2
        show maxOver r.own (markedRecs r s) ≤ r.numrecs
        apply maxOver_le _ _ _ (hI.own r hr)
        intro e he
        by_cases hem : (marked r.pending s).isEmpty = true
        · rw [markedRecs_nil_of_marked_nil r s hem] at he; cases he
        · have hnlt : ¬ r.numrecs < litNew scan r s := by
            intro hlt; apply h2
            simp only [Bool.and_eq_true, decide_eq_true_eq]
            exact ⟨by simpa using hem, hlt⟩
          exact Nat.le_trans (hgood e he) (Nat.le_of_not_lt hnlt)
    · rw [if_neg hsel]; exact hI.own r hr
  · intro hne
    rcases maxOver_mem_or w.hi ((w.ranks.filter fun r => r.id == rk && !badSel r.pending s).flatMap fun r => markedRecs r s) with h | h
    · rw [hH] at h; exact absurd h hne
    · rw [hH] at h
      obtain ⟨r, hrf, hre⟩ := List.mem_flatMap.mp h
      obtain ⟨hr, hsel⟩ := List.mem_filter.mp hrf
      refine ⟨r, hr, ?_⟩
      rw [if_pos hsel]
      have h1 := hg r hr (hidOf r hsel) H hre
      have h2 := hlit r hr hsel
      have h3 := hle0 r hr
      have hlt : r.numrecs < litNew scan r s := by
        have : w.hi < H := Nat.lt_of_le_of_ne hbase (fun hh => hne hh.symm)
        omega
      have hne' : (marked r.pending s).isEmpty = false := by
        cases hq : (marked r.pending s).isEmpty with
        | false => rfl
        | true => rw [markedRecs_nil_of_marked_nil r s hq] at hre; cases hre
      rw [if_pos (by simp only [Bool.and_eq_true, decide_eq_true_eq]; exact ⟨by simp [hne'], hlt⟩)]
      show litNew scan r s = H
      omega

end PnVerif.NumRecs
