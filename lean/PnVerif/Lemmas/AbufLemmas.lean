import PnVerif.Model.Abuf
/-
  Helper lemmas about Model/Abuf.lean.
-/
namespace PnVerif.Abuf

/-! ### byte swap -/

theorem swapn_involutive (e : Nat) : ∀ (n : Nat) (l : List UInt8), n * e ≤ l.length →
    swapn e n (swapn e n l) = l := by
  intro n
  induction n with
  | zero => intro l _; rfl
  | succ n ih =>
    intro l h
    have he : e ≤ l.length := by
      have : (n + 1) * e = n * e + e := by rw [Nat.add_mul, Nat.one_mul]
      omega
    have hlen : ((l.take e).reverse).length = e := by simp [Nat.min_eq_left he]
    simp only [swapn]
    rw [List.take_left' hlen, List.drop_left' hlen, List.reverse_reverse, ih]
    · exact List.take_append_drop e l
    · have : (n + 1) * e = n * e + e := by rw [Nat.add_mul, Nat.one_mul]
      simp only [List.length_drop]; omega

theorem swapn_length (e : Nat) : ∀ (n : Nat) (l : List UInt8), (swapn e n l).length = l.length := by
  intro n
  induction n with
  | zero => intro l; rfl
  | succ n ih =>
    intro l
    simp only [swapn, List.length_append, List.length_reverse, List.length_take, ih, List.length_drop]
    omega

theorem inSwapn_involutive (buf : List UInt8) (nelems : Int) (esize : Nat)
    (h : nelems.toNat * esize ≤ buf.length) : inSwapn (inSwapn buf nelems esize) nelems esize = buf := by
  unfold inSwapn
  split
  · rfl
  · exact swapn_involutive esize _ buf h

/-! ### sums over the occupy table -/

def sumSizes : List Slot → Int
  | [] => 0
  | s :: ss => s.reqSize + sumSizes ss

theorem sumSizes_append (a b : List Slot) : sumSizes (a ++ b) = sumSizes a + sumSizes b := by
  induction a with
  | nil => simp [sumSizes]
  | cons s ss ih => simp [sumSizes, ih]; omega

theorem sumSizes_reverse (a : List Slot) : sumSizes a.reverse = sumSizes a := by
  induction a with
  | nil => rfl
  | cons s ss ih => simp [sumSizes, sumSizes_append, ih]; omega

/-- the entries abuf_coalesce keeps (seen from the tail) and the bytes it gives back -/
theorem coalGo_spec (r : List Slot) : ∀ (su : Int),
    (coalGo r su).2 = su - (sumSizes r - sumSizes (coalGo r su).1) ∧
    ((coalGo r su).1 = [] ∨ ∃ s rest, (coalGo r su).1 = s :: rest ∧ s.isUsed = true) ∧
    (∃ dropped, r = dropped ++ (coalGo r su).1 ∧ ∀ s ∈ dropped, s.isUsed = false) := by
  induction r with
  | nil => intro su; simp [coalGo, sumSizes]
  | cons s rest ih =>
    intro su
    unfold coalGo
    by_cases h : s.isUsed = true
    · simp only [h, if_true]
      refine ⟨by omega, Or.inr ⟨s, rest, rfl, h⟩, [], by simp, by simp⟩
    · have h' : s.isUsed = false := by simpa using h
      simp only [h', Bool.false_eq_true, if_false]
      obtain ⟨h1, h2, dropped, h3, h4⟩ := ih (su - s.reqSize)
      refine ⟨?_, h2, s :: dropped, ?_, ?_⟩
      · rw [h1]; simp only [sumSizes]; omega
      · rw [List.cons_append, ← h3]
      · intro x hx
        rcases List.mem_cons.mp hx with rfl | hx
        · exact h'
        · exact h4 x hx

/-! ### the table against the pending buffered puts -/

/-- the pending buffered puts, in posting order -/
def bputs (ps : List PReq) : List PReq := ps.filter (fun p => decide (p.abufIndex ≥ 0))

/-- `Shape i table bs`: reading the table from index `i`, the used slots are exactly the pending
    buffered puts `bs`, in order, each at its abuf_index and with its size; the other slots are
    holes (completed or cancelled, not yet given back) of non-negative size -/
def Shape : Nat → List Slot → List PReq → Prop
  | _, [], bs => bs = []
  | i, s :: ss, bs =>
    if s.isUsed then ∃ p bs', bs = p :: bs' ∧ p.abufIndex = (i : Int) ∧ p.nbytes = s.reqSize ∧ 0 ≤ s.reqSize ∧ Shape (i + 1) ss bs'
    else 0 ≤ s.reqSize ∧ Shape (i + 1) ss bs

def sumBytes : List PReq → Int
  | [] => 0
  | p :: ps => p.nbytes + sumBytes ps

theorem shape_sum (ss : List Slot) : ∀ (i : Nat) (bs : List PReq), Shape i ss bs →
    sumBytes bs ≤ sumSizes ss ∧ ((∀ s ∈ ss, s.isUsed = true) → sumBytes bs = sumSizes ss) := by
  induction ss with
  | nil => intro i bs h; simp [Shape] at h; subst h; simp [sumBytes, sumSizes]
  | cons s ss ih =>
    intro i bs h
    unfold Shape at h
    by_cases hu : s.isUsed = true
    · simp only [hu, if_true] at h
      obtain ⟨p, bs', rfl, _, hn, h0, hs⟩ := h
      have := ih (i + 1) bs' hs
      simp only [sumBytes, sumSizes]
      refine ⟨by omega, ?_⟩
      intro hall
      have := this.2 (fun x hx => hall x (List.mem_cons_of_mem _ hx))
      omega
    · have hu' : s.isUsed = false := by simpa using hu
      simp only [hu', Bool.false_eq_true, if_false] at h
      have := ih (i + 1) bs h.2
      simp only [sumSizes]
      refine ⟨by omega, ?_⟩
      intro hall
      have := hall s List.mem_cons_self
      rw [hu'] at this; exact absurd this (by simp)

theorem shape_idx (ss : List Slot) : ∀ (i : Nat) (bs : List PReq), Shape i ss bs →
    ∀ p ∈ bs, (i : Int) ≤ p.abufIndex ∧ p.abufIndex < (i + ss.length : Nat) := by
  induction ss with
  | nil => intro i bs h p hp; simp [Shape] at h; subst h; simp at hp
  | cons s ss ih =>
    intro i bs h p hp
    unfold Shape at h
    by_cases hu : s.isUsed = true
    · simp only [hu, if_true] at h
      obtain ⟨q, bs', rfl, hq, _, _, hs⟩ := h
      rcases List.mem_cons.mp hp with rfl | hp'
      · simp only [List.length_cons]; omega
      · have := ih (i + 1) bs' hs p hp'
        simp only [List.length_cons]; omega
    · have hu' : s.isUsed = false := by simpa using hu
      simp only [hu', Bool.false_eq_true, if_false] at h
      have := ih (i + 1) bs h.2 p hp
      simp only [List.length_cons]; omega

/-- appending a freshly allocated slot for a new buffered put -/
theorem shape_append (ss : List Slot) : ∀ (i : Nat) (bs : List PReq) (p : PReq), Shape i ss bs →
    p.abufIndex = ((i + ss.length : Nat) : Int) → 0 ≤ p.nbytes →
    Shape i (ss ++ [⟨true, p.nbytes⟩]) (bs ++ [p]) := by
  induction ss with
  | nil =>
    intro i bs p h hp hn
    simp [Shape] at h; subst h
    simp only [List.nil_append, Shape, if_true]
    exact ⟨p, [], rfl, by simpa using hp, rfl, hn, rfl⟩
  | cons s ss ih =>
    intro i bs p h hp hn
    unfold Shape at h
    simp only [List.cons_append]
    unfold Shape
    by_cases hu : s.isUsed = true
    · simp only [hu, if_true] at h ⊢
      obtain ⟨q, bs', rfl, hq, hqn, h0, hs⟩ := h
      refine ⟨q, bs' ++ [p], rfl, hq, hqn, h0, ih (i + 1) bs' p hs ?_ hn⟩
      rw [hp]; simp only [List.length_cons]; omega
    · have hu' : s.isUsed = false := by simpa using hu
      simp only [hu', Bool.false_eq_true, if_false] at h ⊢
      refine ⟨h.1, ih (i + 1) bs p h.2 ?_ hn⟩
      rw [hp]; simp only [List.length_cons]; omega

/-- dropping trailing holes (what abuf_coalesce does) keeps the shape -/
theorem shape_drop_holes (ss : List Slot) : ∀ (i : Nat) (bs : List PReq) (holes : List Slot),
    Shape i (ss ++ holes) bs → (∀ s ∈ holes, s.isUsed = false) → Shape i ss bs := by
  induction ss with
  | nil =>
    intro i bs holes h hh
    simp only [List.nil_append] at h
    induction holes generalizing i with
    | nil => exact h
    | cons x xs ihx =>
      unfold Shape at h
      have hx := hh x List.mem_cons_self
      simp only [hx, Bool.false_eq_true, if_false] at h
      exact ihx (i + 1) h.2 (fun s hs => hh s (List.mem_cons_of_mem _ hs))
  | cons s ss ih =>
    intro i bs holes h hh
    simp only [List.cons_append] at h
    unfold Shape at h ⊢
    by_cases hu : s.isUsed = true
    · simp only [hu, if_true] at h ⊢
      obtain ⟨q, bs', rfl, hq, hqn, h0, hs⟩ := h
      exact ⟨q, bs', rfl, hq, hqn, h0, ih (i + 1) bs' holes hs hh⟩
    · have hu' : s.isUsed = false := by simpa using hu
      simp only [hu', Bool.false_eq_true, if_false] at h ⊢
      exact ⟨h.1, ih (i + 1) bs holes h.2 hh⟩

/-- mark the slots whose index satisfies `P` unused, reading the table from index `i` -/
def relFrom (i : Nat) (P : Nat → Bool) (ss : List Slot) : List Slot :=
  ss.mapIdx (fun k s => if P (i + k) then { s with isUsed := false } else s)

theorem relFrom_cons (i : Nat) (P : Nat → Bool) (s : Slot) (ss : List Slot) :
    relFrom i P (s :: ss) = (if P i then { s with isUsed := false } else s) :: relFrom (i + 1) P ss := by
  unfold relFrom
  rw [List.mapIdx_cons]
  congr 1
  apply List.mapIdx_eq_mapIdx_iff.mpr
  intro k _
  have : i + (k + 1) = i + 1 + k := by omega
  rw [this]

/-- marking the slots of the completed requests (those with `sel p`) unused removes exactly those
    requests from the shape; every other slot keeps its state and size -/
theorem shape_release (ss : List Slot) : ∀ (i : Nat) (bs : List PReq) (sel : PReq → Bool) (P : Nat → Bool),
    Shape i ss bs → (∀ p ∈ bs, P p.abufIndex.toNat = sel p) →
    Shape i (relFrom i P ss) (bs.filter (fun p => !sel p)) := by
  induction ss with
  | nil => intro i bs sel P h _; simp [Shape] at h; subst h; simp [Shape, relFrom]
  | cons s ss ih =>
    intro i bs sel P h hP
    rw [relFrom_cons]
    unfold Shape at h
    by_cases hu : s.isUsed = true
    · simp only [hu, if_true] at h
      obtain ⟨q, bs', rfl, hq, hqn, h0, hs⟩ := h
      have hPq : P i = sel q := by
        have := hP q List.mem_cons_self
        rw [hq] at this; simpa using this
      have hrest := ih (i + 1) bs' sel P hs (fun p hp => hP p (List.mem_cons_of_mem _ hp))
      by_cases hsq : sel q = true
      · rw [hPq, hsq]
        simp only [if_true, List.filter_cons, hsq, Bool.not_true, Bool.false_eq_true, if_false]
        unfold Shape
        simp only [Bool.false_eq_true, if_false]
        exact ⟨h0, hrest⟩
      · have hsq' : sel q = false := by simpa using hsq
        rw [hPq, hsq']
        simp only [Bool.false_eq_true, if_false, List.filter_cons, hsq', Bool.not_false, if_true]
        unfold Shape
        simp only [hu, if_true]
        exact ⟨q, _, rfl, hq, hqn, h0, hrest⟩
    · have hu' : s.isUsed = false := by simpa using hu
      simp only [hu', Bool.false_eq_true, if_false] at h
      have hrest := ih (i + 1) bs sel P h.2 hP
      unfold Shape
      have hstay : (if P i = true then ({ s with isUsed := false } : Slot) else s).isUsed = false := by
        split <;> simp [hu']
      have hsz : (if P i = true then ({ s with isUsed := false } : Slot) else s).reqSize = s.reqSize := by
        split <;> rfl
      simp only [hstay, Bool.false_eq_true, if_false, hsz]
      exact ⟨h.1, hrest⟩

theorem relFrom_length (i : Nat) (P : Nat → Bool) (ss : List Slot) : (relFrom i P ss).length = ss.length := by
  simp [relFrom]

theorem relFrom_sum (ss : List Slot) : ∀ (i : Nat) (P : Nat → Bool), sumSizes (relFrom i P ss) = sumSizes ss := by
  induction ss with
  | nil => intro i P; rfl
  | cons s ss ih =>
    intro i P
    rw [relFrom_cons]
    simp only [sumSizes, ih]
    split <;> rfl

/-- the buffered puts of a shape have strictly increasing indices -/
theorem shape_sorted (ss : List Slot) : ∀ (i : Nat) (bs : List PReq), Shape i ss bs →
    List.Pairwise (fun a b => a.abufIndex < b.abufIndex) bs := by
  induction ss with
  | nil => intro i bs h; simp [Shape] at h; subst h; exact List.Pairwise.nil
  | cons s ss ih =>
    intro i bs h
    unfold Shape at h
    by_cases hu : s.isUsed = true
    · simp only [hu, if_true] at h
      obtain ⟨q, bs', rfl, hq, _, _, hs⟩ := h
      refine List.pairwise_cons.mpr ⟨?_, ih (i + 1) bs' hs⟩
      intro p hp
      have := (shape_idx ss (i + 1) bs' hs p hp).1
      omega
    · have hu' : s.isUsed = false := by simpa using hu
      simp only [hu', Bool.false_eq_true, if_false] at h
      exact ih (i + 1) bs h.2

theorem sorted_inj (bs : List PReq) (h : List.Pairwise (fun a b => a.abufIndex < b.abufIndex) bs) :
    ∀ p ∈ bs, ∀ q ∈ bs, p.abufIndex = q.abufIndex → p = q := by
  induction bs with
  | nil => intro p hp; simp at hp
  | cons x xs ih =>
    have h' := List.pairwise_cons.mp h
    intro p hp q hq heq
    rcases List.mem_cons.mp hp with rfl | hp' <;> rcases List.mem_cons.mp hq with rfl | hq'
    · rfl
    · have := h'.1 q hq'; omega
    · have := h'.1 p hp'; omega
    · exact ih h'.2 p hp' q hq' heq

theorem shape_nonneg (ss : List Slot) : ∀ (i : Nat) (bs : List PReq), Shape i ss bs → ∀ s ∈ ss, 0 ≤ s.reqSize := by
  induction ss with
  | nil => intro i bs _ s hs; simp at hs
  | cons x xs ih =>
    intro i bs h s hs
    unfold Shape at h
    by_cases hu : x.isUsed = true
    · simp only [hu, if_true] at h
      obtain ⟨q, bs', _, _, _, h0, hsh⟩ := h
      rcases List.mem_cons.mp hs with rfl | hs'
      · exact h0
      · exact ih (i + 1) bs' hsh s hs'
    · have hu' : x.isUsed = false := by simpa using hu
      simp only [hu', Bool.false_eq_true, if_false] at h
      rcases List.mem_cons.mp hs with rfl | hs'
      · exact h.1
      · exact ih (i + 1) bs h.2 s hs'

theorem sumSizes_nonneg (ss : List Slot) (h : ∀ s ∈ ss, 0 ≤ s.reqSize) : 0 ≤ sumSizes ss := by
  induction ss with
  | nil => simp [sumSizes]
  | cons x xs ih =>
    have := h x List.mem_cons_self
    have := ih (fun s hs => h s (List.mem_cons_of_mem _ hs))
    simp only [sumSizes]; omega

/-! ### invariant of the attached buffer -/

structure AInv (a : A) (ps : List PReq) : Prop where
  tail_eq : a.tail = a.table.length
  sum : a.sizeUsed = sumSizes a.table
  last : a.table = [] ∨ ∃ init s, a.table = init ++ [s] ∧ s.isUsed = true
  shape : Shape 0 a.table (bputs ps)
  cap : a.sizeUsed ≤ a.sizeAllocated

/-- abuf_coalesce re-establishes "the last entry below tail is in use" and keeps everything else -/
theorem coalesce_inv (a : A) (bs : List PReq) (ht : a.tail = a.table.length) (hsum : a.sizeUsed = sumSizes a.table)
    (hsh : Shape 0 a.table bs) (hcap : a.sizeUsed ≤ a.sizeAllocated) :
    a.coalesce.tail = a.coalesce.table.length ∧ a.coalesce.sizeUsed = sumSizes a.coalesce.table ∧
    (a.coalesce.table = [] ∨ ∃ init s, a.coalesce.table = init ++ [s] ∧ s.isUsed = true) ∧
    Shape 0 a.coalesce.table bs ∧ a.coalesce.sizeUsed ≤ a.coalesce.sizeAllocated ∧
    (∃ holes, a.table = a.coalesce.table ++ holes ∧ ∀ s ∈ holes, s.isUsed = false) := by
  unfold A.coalesce
  have htk : a.table.take a.tail = a.table := by rw [ht]; exact List.take_length
  simp only [htk]
  obtain ⟨h1, h2, dropped, h3, h4⟩ := coalGo_spec a.table.reverse a.sizeUsed
  have htab : a.table = (coalGo a.table.reverse a.sizeUsed).1.reverse ++ dropped.reverse := by
    have := congrArg List.reverse h3
    simpa using this
  have hdrop : ∀ s ∈ dropped.reverse, s.isUsed = false := fun s hs => h4 s (List.mem_reverse.mp hs)
  have hnn := shape_nonneg a.table 0 bs hsh
  have hsumd : 0 ≤ sumSizes dropped.reverse := by
    apply sumSizes_nonneg
    intro s hs; apply hnn; rw [htab]; exact List.mem_append_right _ hs
  have hsplit : sumSizes a.table = sumSizes (coalGo a.table.reverse a.sizeUsed).1.reverse + sumSizes dropped.reverse := by
    conv => lhs; rw [htab]
    exact sumSizes_append _ _
  refine ⟨by simp, ?_, ?_, ?_, ?_, ⟨dropped.reverse, htab, hdrop⟩⟩
  · show (coalGo a.table.reverse a.sizeUsed).2 = sumSizes (coalGo a.table.reverse a.sizeUsed).1.reverse
    rw [h1]
    have e1 : sumSizes a.table.reverse = sumSizes a.table := sumSizes_reverse _
    have e2 : sumSizes (coalGo a.table.reverse a.sizeUsed).1.reverse = sumSizes (coalGo a.table.reverse a.sizeUsed).1 := sumSizes_reverse _
    omega
  · show (coalGo a.table.reverse a.sizeUsed).1.reverse = [] ∨ ∃ init s, (coalGo a.table.reverse a.sizeUsed).1.reverse = init ++ [s] ∧ s.isUsed = true
    rcases h2 with h2 | ⟨s, rest, h2, hs⟩
    · left; rw [h2]; rfl
    · right; exact ⟨rest.reverse, s, by rw [h2]; simp, hs⟩
  · show Shape 0 (coalGo a.table.reverse a.sizeUsed).1.reverse bs
    apply shape_drop_holes _ 0 bs dropped.reverse
    · rw [← htab]; exact hsh
    · exact hdrop
  · show (coalGo a.table.reverse a.sizeUsed).2 ≤ a.sizeAllocated
    rw [h1]
    have e1 : sumSizes a.table.reverse = sumSizes a.table := sumSizes_reverse _
    have e2 : sumSizes (coalGo a.table.reverse a.sizeUsed).1.reverse = sumSizes (coalGo a.table.reverse a.sizeUsed).1 := sumSizes_reverse _
    omega

theorem releaseAll_eq (a : A) (ps : List PReq) :
    (releaseAll a ps).table = relFrom 0 (fun i => ps.any (fun p => decide (p.abufIndex = (i : Int)))) a.table := by
  unfold releaseAll relFrom
  simp

theorem bputs_append (ps : List PReq) (p : PReq) :
    bputs (ps ++ [p]) = if p.abufIndex ≥ 0 then bputs ps ++ [p] else bputs ps := by
  unfold bputs
  rw [List.filter_append]
  by_cases h : p.abufIndex ≥ 0 <;> simp [h]

theorem bputs_filter (ps : List PReq) (c : PReq → Bool) :
    bputs (ps.filter c) = (bputs ps).filter c := by
  unfold bputs
  rw [List.filter_filter, List.filter_filter]
  apply List.filter_congr
  intro x _; exact Bool.and_comm _ _

/-- marking the completed requests: the shape loses exactly the completed buffered puts -/
theorem release_shape (a : A) (ps : List PReq) (c : PReq → Bool) (hsh : Shape 0 a.table (bputs ps)) :
    Shape 0 (releaseAll a (ps.filter c)).table (bputs (ps.filter (fun p => !c p))) := by
  rw [releaseAll_eq, bputs_filter]
  apply shape_release
  · exact hsh
  · intro p hp
    have hsorted := shape_sorted a.table 0 _ hsh
    have hp' := List.mem_filter.mp hp
    have hge : p.abufIndex ≥ 0 := by simpa using hp'.2
    have hcast : ((p.abufIndex.toNat : Nat) : Int) = p.abufIndex := by omega
    by_cases hc : c p = true
    · rw [hc, List.any_eq_true]
      exact ⟨p, List.mem_filter.mpr ⟨hp'.1, hc⟩, by simp [hcast]⟩
    · have hc' : c p = false := by simpa using hc
      rw [hc', List.any_eq_false]
      intro q hq
      have hq' := List.mem_filter.mp hq
      simp only [decide_eq_true_eq]
      intro heq
      rw [hcast] at heq
      have hqb : q ∈ bputs ps := List.mem_filter.mpr ⟨hq'.1, by rw [heq]; simpa using hge⟩
      have := sorted_inj _ hsorted q hqb p hp heq
      rw [this] at hq'; rw [hq'.2] at hc'; exact absurd hc' (by simp)

end PnVerif.Abuf
