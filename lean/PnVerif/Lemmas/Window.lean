import PnVerif.Lemmas.HeaderLemmas
/-
  The read window of ncmpio_header_get.c refines the flat, zero-extended byte stream:
  `Inv file chunk w s` says that window `w` presents the stream `s` (the unread rest of the file).
-/
namespace PnVerif.Header
open PnVerif.Spec

theorem zeros_add (a b : Nat) : zeros (a + b) = zeros a ++ zeros b := by
  simp [zeros, List.replicate_append_replicate]

theorem ztake_nil (n : Nat) : ztake n [] = zeros n := by simp [ztake]

theorem ztake_of_le {n : Nat} {s : Bytes} (h : n ≤ s.length) : ztake n s = s.take n := by
  simp [ztake, zeros, Nat.sub_eq_zero_of_le h]

theorem ztake_of_ge {n : Nat} {s : Bytes} (h : s.length ≤ n) : ztake n s = s ++ zeros (n - s.length) := by
  simp [ztake, List.take_of_length_le h]

/-- reading a+b bytes = reading a bytes, then b bytes of what is left -/
theorem ztake_add (a b : Nat) (s : Bytes) : ztake (a + b) s = ztake a s ++ ztake b (s.drop a) := by
  by_cases h : a ≤ s.length
  · rw [ztake_of_le h]
    unfold ztake
    rw [List.take_add, List.length_drop]
    have : a + b - s.length = b - (s.length - a) := by omega
    rw [this, List.append_assoc]
  · have h' : s.length ≤ a := by omega
    rw [ztake_of_ge h', List.drop_of_length_le h', ztake_nil, ztake_of_ge (by omega : s.length ≤ a + b)]
    rw [List.append_assoc, ← zeros_add]
    congr 2; omega

theorem take_ztake {k n : Nat} (h : k ≤ n) (s : Bytes) : (ztake n s).take k = ztake k s := by
  obtain ⟨d, rfl⟩ := Nat.exists_eq_add_of_le h
  rw [ztake_add, List.take_append_of_le_length (by simp)]
  simp [List.take_of_length_le]

theorem drop_ztake {k n : Nat} (h : k ≤ n) (s : Bytes) : (ztake n s).drop k = ztake (n - k) (s.drop k) := by
  obtain ⟨d, rfl⟩ := Nat.exists_eq_add_of_le h
  rw [ztake_add]
  have : (ztake k s).length = k := ztake_length k s
  rw [List.drop_append_of_le_length (by omega), List.drop_of_length_le (by omega)]
  simp

/-- window `w` presents the stream `s`: the unread part of the buffer holds the first
    `chunk - pos` bytes of `s` (zero-extended) and the file from `off` on holds the rest -/
structure Inv (file : Bytes) (chunk : Nat) (w : Win) (s : Bytes) : Prop where
  len  : w.buf.length = chunk
  pos  : w.pos ≤ chunk
  buf  : w.buf.drop w.pos = ztake (chunk - w.pos) s
  rest : file.drop w.off = s.drop (chunk - w.pos)

/-- hdr_fetch keeps the stream (needs `pos > 0`: with pos = base the C treats the buffer as empty) -/
theorem fetch_inv {file : Bytes} {chunk : Nat} {w : Win} {s : Bytes}
    (h : Inv file chunk w s) (hp : 0 < w.pos) :
    Inv file chunk (fetch file chunk w) s ∧ (fetch file chunk w).pos = 0 := by
  obtain ⟨hl, hpos, hb, hr⟩ := h
  have hne : ¬ (chunk - w.pos = chunk) := by omega
  refine ⟨⟨?_, ?_, ?_, ?_⟩, ?_⟩
  · simp only [fetch, hne, if_false, List.length_append, List.length_take, List.length_drop, ztake_length]
    omega
  · simp [fetch]
  · simp only [fetch, hne, if_false, List.drop_zero, Nat.sub_zero]
    rw [hb, hr, List.take_of_length_le (by simp)]
    have : chunk = (chunk - w.pos) + (chunk - (chunk - w.pos)) := by omega
    conv => rhs; rw [this]
    rw [ztake_add]
  · simp only [fetch, hne, if_false, Nat.sub_zero]
    rw [← List.drop_drop, hr, List.drop_drop]
    congr 1; omega
  · simp [fetch]

/-- the very first hdr_fetch of ncmpio_hdr_get_NC (buffer empty, offset 0) -/
theorem fetch_init (file : Bytes) (chunk : Nat) (buf0 : Bytes) :
    Inv file chunk (fetch file chunk { buf := buf0, pos := 0, off := 0 }) file := by
  refine ⟨?_, ?_, ?_, ?_⟩ <;> simp [fetch]

theorem fetch_init_eq (file : Bytes) (chunk : Nat) (buf0 : Bytes) :
    fetch file chunk { buf := buf0, pos := 0, off := 0 } = { buf := ztake chunk file, pos := 0, off := chunk } := by
  simp [fetch]

/-- consuming `k` bytes that are in the buffer -/
theorem advance_inv {file : Bytes} {chunk : Nat} {w : Win} {s : Bytes} {k : Nat}
    (h : Inv file chunk w s) (hk : w.pos + k ≤ chunk) :
    (w.buf.drop w.pos).take k = ztake k s ∧ Inv file chunk { w with pos := w.pos + k } (s.drop k) := by
  obtain ⟨hl, hpos, hb, hr⟩ := h
  refine ⟨?_, ⟨hl, hk, ?_, ?_⟩⟩
  · rw [hb, take_ztake (by omega)]
  · show w.buf.drop (w.pos + k) = _
    rw [← List.drop_drop, hb, drop_ztake (by omega)]
    dsimp only
    congr 1; omega
  · show file.drop w.off = _
    rw [hr, List.drop_drop]
    dsimp only
    congr 1; omega

/-- hdr_get_uint32 / hdr_get_uint64 read the next k bytes of the stream -/
theorem getFixedW_spec {file : Bytes} {chunk : Nat} {w : Win} {s : Bytes} {k : Nat}
    (h : Inv file chunk w s) (hk : k ≤ chunk) :
    (getFixedW file chunk k w).1 = ztake k s ∧ Inv file chunk (getFixedW file chunk k w).2 (s.drop k) := by
  unfold getFixedW
  by_cases hc : w.pos + k > chunk
  · simp only [hc, if_true]
    have hp : 0 < w.pos := by omega
    obtain ⟨hi, hz⟩ := fetch_inv h hp
    exact advance_inv hi (by omega)
  · simp only [hc, if_false]
    exact advance_inv h (by omega)

/-- the padding skip -/
theorem padW_spec {file : Bytes} {chunk : Nat} {w : Win} {s : Bytes} {k : Nat}
    (h : Inv file chunk w s) (hk : k ≤ chunk) :
    Inv file chunk (padW file chunk k w) (s.drop k) := by
  unfold padW
  by_cases hc : w.pos + k > chunk
  · simp only [hc, if_true]
    have hp : 0 < w.pos := by omega
    obtain ⟨hi, hz⟩ := fetch_inv h hp
    exact (advance_inv hi (by omega)).2
  · simp only [hc, if_false]
    exact (advance_inv h (by omega)).2

/-- the copy loop of hdr_get_NC_name / hdr_get_NC_attrV reads the next n bytes of the stream,
    whatever the number of refills in between -/
theorem getBytesW_spec {file : Bytes} {chunk : Nat} (hc : 0 < chunk) (n : Nat) :
    ∀ (w : Win) (s acc : Bytes), Inv file chunk w s →
      (getBytesW file chunk n w acc).1 = acc ++ ztake n s ∧
      Inv file chunk (getBytesW file chunk n w acc).2 (s.drop n) := by
  induction n using Nat.strongRecOn with
  | _ n ih =>
    intro w s acc h
    rw [getBytesW]
    by_cases hn : n = 0
    · subst hn; simp [ztake, zeros, h]
    · simp only [hn, dite_false]
      -- the state after the optional refill
      have hw1 : ∃ w1, (if chunk - w.pos = 0 then fetch file chunk w else w) = w1 ∧ Inv file chunk w1 s ∧ 0 < chunk - w1.pos := by
        by_cases he : chunk - w.pos = 0
        · have hp : 0 < w.pos := by have := h.pos; omega
          obtain ⟨hi, hz⟩ := fetch_inv h hp
          exact ⟨_, by simp [he], hi, by omega⟩
        · exact ⟨w, by simp [he], h, by omega⟩
      obtain ⟨w1, hw1e, hi1, hrem⟩ := hw1
      rw [hw1e]
      have hk : ¬ (min (chunk - w1.pos) n = 0) := by omega
      simp only [hk, dite_false]
      have hadv := advance_inv (k := min (chunk - w1.pos) n) hi1 (by have := hi1.pos; omega)
      obtain ⟨hval, hi2⟩ := hadv
      have := ih (n - min (chunk - w1.pos) n) (by omega) _ _ (acc ++ (w1.buf.drop w1.pos).take (min (chunk - w1.pos) n)) hi2
      obtain ⟨h1, h2⟩ := this
      refine ⟨?_, ?_⟩
      · rw [h1, hval, List.append_assoc, ← ztake_add]
        congr 2; omega
      · rw [List.drop_drop] at h2
        have : min (chunk - w1.pos) n + (n - min (chunk - w1.pos) n) = n := by omega
        rw [this] at h2
        exact h2

end PnVerif.Header

namespace PnVerif.Header
open PnVerif.Spec

/-- the two interpretations of a reader program agree: same value or same error, and the window
    still presents the flat stream afterwards -/
def SimRes (file : Bytes) (chunk : Nat) {α : Type}
    (x : Except Err (α × Win)) (y : Except Err (α × Bytes)) : Prop :=
  match x, y with
  | .ok (a, w), .ok (b, s) => a = b ∧ Inv file chunk w s
  | .error e, .error f => e = f
  | _, _ => False

/-- Refinement of the whole reader: for EVERY reader program (in particular the header decoder
    `getBody`), every chunk size ≥ 8, every file and every reachable window state, running the
    program through the read window gives exactly what running it on the flat byte stream gives. -/
theorem run_sim {file : Bytes} {chunk : Nat} (hc : 8 ≤ chunk) {α : Type} (p : P α) :
    ∀ (w : Win) (s : Bytes), Inv file chunk w s →
      SimRes file chunk (run (winR file chunk) p w) (run flatR p s) := by
  induction p with
  | ret a => intro w s h; exact ⟨rfl, h⟩
  | fail e => intro w s h; rfl
  | u32 k ih =>
    intro w s h
    obtain ⟨hv, hi⟩ := getFixedW_spec (k := 4) h (by omega)
    simp only [run, winR, flatR]
    rw [hv]
    exact ih _ _ _ hi
  | u64 k ih =>
    intro w s h
    obtain ⟨hv, hi⟩ := getFixedW_spec (k := 8) h (by omega)
    simp only [run, winR, flatR]
    rw [hv]
    exact ih _ _ _ hi
  | bytes n k ih =>
    intro w s h
    obtain ⟨hv, hi⟩ := getBytesW_spec (by omega : 0 < chunk) n w s [] h
    simp only [run, winR, flatR]
    rw [hv, List.nil_append]
    exact ih _ _ _ hi
  | pad q k ih =>
    intro w s h
    have hi := padW_spec (k := q.val) h (by have := q.isLt; omega)
    simp only [run, winR, flatR]
    exact ih _ _ hi

theorem chunkOf_ge (c : Nat) : 36 ≤ chunkOf c := by
  unfold chunkOf rndup MIN_NC_XSZ; omega

end PnVerif.Header
