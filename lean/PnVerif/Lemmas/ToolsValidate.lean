import PnVerif.Model.Tools
import PnVerif.Lemmas.Encode
/-
  Lemmas about the ncvalidator model (Model/Tools.lean).
  Part 1: the validator's reader run on the output of the library's writer (`encodeRaw`), parser by parser.
-/
namespace PnVerif.Tools
open PnVerif.Spec PnVerif.Header

theorem bind_apply {α β : Type} (p : VP α) (f : α → VP β) (s : Bytes) :
    (p >>= f) s = (match p s with
      | .ok (a, s') => f a s'
      | .error e => .error e) := rfl

theorem pure_apply {α : Type} (a : α) (s : Bytes) : (pure a : VP α) s = .ok (a, s) := rfl

theorem bind_ok {α β : Type} {p : VP α} {f : α → VP β} {s s' : Bytes} {a : α} (h : p s = .ok (a, s')) :
    (p >>= f) s = f a s' := by
  rw [bind_apply, h]

theorem bind_err {α β : Type} {p : VP α} {f : α → VP β} {s : Bytes} {e : VErr} (h : p s = .error e) :
    (p >>= f) s = .error e := by
  rw [bind_apply, h]

theorem ztake_append_left (x r : Bytes) : ztake x.length (x ++ r) = x := by
  rw [ztake_of_le (by simp)]; simp

theorem ztake_append_left' {n : Nat} (x r : Bytes) (h : x.length = n) : ztake n (x ++ r) = x := by
  subst h; exact ztake_append_left x r

theorem drop_append_left' {n : Nat} (x r : Bytes) (h : x.length = n) : (x ++ r).drop n = r := by
  subst h; simp

theorem rdU32_put (n : Nat) (r : Bytes) (h : n < 4294967296) : rdU32 (be32 n ++ r) = .ok (n, r) := by
  unfold rdU32
  rw [ztake_append_left' (n := 4) (be32 n) r rfl, beNat_be32 n h, drop_append_left' (n := 4) (be32 n) r rfl]

theorem rdU64_put (n : Nat) (r : Bytes) (h : n < 9223372036854775808) : rdU64 (be64 n ++ r) = .ok (n, r) := by
  unfold rdU64
  rw [ztake_append_left' (n := 8) (be64 n) r rfl, beNat_be64 n (by omega), drop_append_left' (n := 8) (be64 n) r rfl]
  have : ¬ n ≥ 9223372036854775808 := by omega
  simp only [this, if_false]

theorem rdBytes_put (x r : Bytes) : rdBytes x.length (x ++ r) = .ok (x, r) := by
  unfold rdBytes
  rw [ztake_append_left]; simp

theorem rdBytes_put' {n : Nat} (x r : Bytes) (h : x.length = n) : rdBytes n (x ++ r) = .ok (x, r) := by
  subst h; exact rdBytes_put x r

theorem rdU64raw_put (n : Nat) (r : Bytes) (h : n < 18446744073709551616) : rdU64raw (be64 n ++ r) = .ok (n, r) := by
  unfold rdU64raw
  rw [ztake_append_left' (n := 8) (be64 n) r rfl, beNat_be64 n h, drop_append_left' (n := 8) (be64 n) r rfl]

theorem vNonNeg_put (c : VCfg) (f : Fmt) (n : Nat) (r : Bytes) (h : n < nnLim f) :
    vNonNeg c f.version (putNonNeg f.version n ++ r) = .ok (n, r) := by
  obtain ⟨sl, ss, st, d64⟩ := c
  cases ss <;> cases f <;> simp only [nnLim] at h
  · show rdU32 (be32 n ++ r) = _; exact rdU32_put n r (by omega)
  · show rdU32 (be32 n ++ r) = _; exact rdU32_put n r (by omega)
  · show rdU64 (be64 n ++ r) = _; exact rdU64_put n r (by omega)
  · show (rdU32 >>= fun v => if v > 2147483647 then VP.fail .enotnc else pure v) (be32 n ++ r) = _
    rw [bind_ok (rdU32_put n r (by omega))]
    have : ¬ n > 2147483647 := by omega
    simp only [this, if_false, pure_apply]
  · show (rdU32 >>= fun v => if v > 2147483647 then VP.fail .enotnc else pure v) (be32 n ++ r) = _
    rw [bind_ok (rdU32_put n r (by omega))]
    have : ¬ n > 2147483647 := by omega
    simp only [this, if_false, pure_apply]
  · show (rdU64raw >>= fun v => if v ≥ 9223372036854775808 then VP.fail .enotnc else pure v) (be64 n ++ r) = _
    rw [bind_ok (rdU64raw_put n r (by omega))]
    have : ¬ n ≥ 9223372036854775808 := by omega
    simp only [this, if_false, pure_apply]

theorem vNumrecs_put (c : VCfg) (f : Fmt) (n : Nat) (r : Bytes) (h : n < nnLim f) :
    vNumrecs c f.version (putNonNeg f.version n ++ r) = .ok (n, r) := by
  obtain ⟨sl, ss, st, d64⟩ := c
  cases ss <;> cases f <;> simp only [nnLim] at h
  · show rdU32 (be32 n ++ r) = _; exact rdU32_put n r (by omega)
  · show rdU32 (be32 n ++ r) = _; exact rdU32_put n r (by omega)
  · show rdU64 (be64 n ++ r) = _; exact rdU64_put n r (by omega)
  · show (rdU32 >>= fun v => if v > 2147483647 ∧ v ≠ 4294967295 then VP.fail .enotnc else pure v) (be32 n ++ r) = _
    rw [bind_ok (rdU32_put n r (by omega))]
    have : ¬ (n > 2147483647 ∧ n ≠ 4294967295) := by omega
    simp only [this, if_false, pure_apply]
  · show (rdU32 >>= fun v => if v > 2147483647 ∧ v ≠ 4294967295 then VP.fail .enotnc else pure v) (be32 n ++ r) = _
    rw [bind_ok (rdU32_put n r (by omega))]
    have : ¬ (n > 2147483647 ∧ n ≠ 4294967295) := by omega
    simp only [this, if_false, pure_apply]
  · show (rdU64raw >>= fun v => if v ≥ 9223372036854775808 ∧ v ≠ 18446744073709551615 then VP.fail .enotnc else pure v) (be64 n ++ r) = _
    rw [bind_ok (rdU64raw_put n r (by omega))]
    have : ¬ (n ≥ 9223372036854775808 ∧ n ≠ 18446744073709551615) := by omega
    simp only [this, if_false, pure_apply]

theorem allZero_zeros (n : Nat) : allZero (zeros n) = true := by
  simp [allZero, zeros]

theorem vName_put (c : VCfg) (f : Fmt) (nm r : Bytes) (h0 : NoNul nm) (hl : nm.length < nnLim f) :
    vName c f.version (putName f.version nm ++ r) = .ok ((nm, true), r) := by
  unfold vName putName
  simp only [cstr_eq_self h0, List.append_assoc]
  rw [bind_ok (vNonNeg_put c f _ _ hl), bind_ok (rdBytes_put nm _)]
  have hp : rndup nm.length 4 - nm.length = (if nm.length % 4 ≠ 0 then 4 - nm.length % 4 else 0) := by
    unfold rndup; split <;> omega
  by_cases hz : nm.length % 4 = 0
  · have h1 : ¬ rndup nm.length 4 - nm.length > 0 := by rw [hp]; simp [hz]
    simp only [h1, if_false, hz, ne_eq, not_true_eq_false, zeros, List.replicate_zero, List.nil_append, pure_apply]
  · have h1 : rndup nm.length 4 - nm.length > 0 := by rw [hp]; simp [hz]; omega
    simp only [h1, if_true, hz, ne_eq, not_false_eq_true]
    rw [hp]
    simp only [hz, ne_eq, not_false_eq_true, if_true]
    rw [bind_ok (rdBytes_put' (zeros (4 - nm.length % 4)) r (by simp))]
    simp [pure_apply, allZero_zeros]

@[simp] theorem VFlags.and_ok_ok : VFlags.ok.and VFlags.ok = VFlags.ok := rfl
@[simp] theorem VFlags.ofPad_true : VFlags.ofPad true = VFlags.ok := rfl

theorem vDim_put (c : VCfg) (f : Fmt) (d : Dim) (r : Bytes) (hu : Bool) (h : DimWF f d) (hok : ¬ (hu = true ∧ d.size = 0)) :
    vDim c f.version hu (putDim f.version d ++ r) = .ok ((d, VFlags.ok), r) := by
  unfold vDim putDim
  rw [List.append_assoc, bind_ok (vName_put c f d.name _ h.nul h.nameLen)]
  simp only []
  rw [bind_ok (vNonNeg_put c f d.size r h.size)]
  simp only [hok, if_false, pure_apply, VFlags.ofPad_true]

/-- the dimension loop on the writer's output: at most one record dimension in `hu :: ds` -/
theorem vDims_put (c : VCfg) (f : Fmt) : ∀ (ds : List Dim) (r : Bytes) (hu : Bool), (∀ d ∈ ds, DimWF f d) →
    (ds.filter (fun x => x.size == 0)).length + (if hu then 1 else 0) ≤ 1 →
    vDims c f.version ds.length hu (ds.flatMap (putDim f.version) ++ r) = .ok ((ds, VFlags.ok), r) := by
  intro ds
  induction ds with
  | nil => intro r hu _ _; rfl
  | cons d t ih =>
    intro r hu hw h1
    simp only [List.length_cons, vDims, List.flatMap_cons, List.append_assoc]
    have hok : ¬ (hu = true ∧ d.size = 0) := by
      intro ⟨h2, h3⟩
      simp [h2, h3] at h1
    rw [bind_ok (vDim_put c f d _ hu (hw d (by simp)) hok)]
    simp only []
    have h1' : (t.filter (fun x => x.size == 0)).length + (if (hu || d.size == 0) = true then 1 else 0) ≤ 1 := by
      by_cases hd : d.size = 0
      · have hu' : hu = false := by
          cases hu
          · rfl
          · exact absurd ⟨rfl, hd⟩ hok
        simp [hd, hu'] at h1 ⊢
        omega
      · have : (d.size == 0) = false := by simp [hd]
        simp only [List.filter_cons, this, Bool.or_false] at h1 ⊢
        simpa using h1
    rw [bind_ok (ih r (hu || d.size == 0) (fun x hx => hw x (by simp [hx])) h1')]
    simp [pure_apply]

theorem vTag_put (t : Nat) (r : Bytes) (h : t = 0 ∨ t = 10 ∨ t = 11 ∨ t = 12) : vTag (be32 t ++ r) = .ok (t, r) := by
  unfold vTag
  rw [bind_ok (rdU32_put t r (by omega))]
  simp only [h, if_true, pure_apply]

/-- a list written by hdr_put_NC_*array is read back by the validator's array reader -/
theorem vArray_put (c : VCfg) {α : Type} (f : Fmt) (tag maxN : Nat) (errMax : VErr) (htag : tag = 10 ∨ tag = 11 ∨ tag = 12)
    (items : Nat → VP (List α × VFlags)) (enc : α → Bytes) (xs : List α) (r : Bytes)
    (hn : xs.length < nnLim f) (hm : xs.length ≤ maxN)
    (hi : xs.length ≠ 0 → items xs.length (xs.flatMap enc ++ r) = .ok ((xs, VFlags.ok), r)) :
    vArray c f.version tag maxN errMax items
      ((if xs.length = 0 then be32 0 ++ putNonNeg f.version 0
        else be32 tag ++ putNonNeg f.version xs.length ++ xs.flatMap enc) ++ r) = .ok ((xs, VFlags.ok), r) := by
  unfold vArray
  by_cases h0 : xs.length = 0
  · have : xs = [] := List.eq_nil_of_length_eq_zero h0
    subst this
    simp only [List.length_nil, if_true, List.append_assoc]
    rw [bind_ok (vTag_put 0 _ (by simp))]
    rw [bind_ok (vNonNeg_put c f 0 r (by cases f <;> simp [nnLim]))]
    simp [pure_apply, VFlags.ok]
  · simp only [h0, if_false, List.append_assoc]
    rw [bind_ok (vTag_put tag _ (by omega))]
    rw [bind_ok (vNonNeg_put c f _ _ hn)]
    have h1 : ¬ xs.length > maxN := by omega
    simp only [h1, h0, if_false, ne_eq, not_true_eq_false]
    exact hi h0

theorem vType_put (f : Fmt) (t : NcType) (r : Bytes) (h : t.okFor f = true) :
    vType f.version (be32 t.code ++ r) = .ok (t, r) := by
  unfold vType
  rw [bind_ok (rdU32_put t.code r (by cases t <;> simp [NcType.code]))]
  have a1 : ¬ t.code < 1 := by cases t <;> simp [NcType.code]
  have a2 : ¬ (f.version < 5 ∧ t.code > 6) := by
    intro ⟨hv, h6⟩
    cases f <;> cases t <;> simp [NcType.okFor, Fmt.version, NcType.code] at h hv h6
  have a3 : ¬ (¬ f.version < 5 ∧ t.code > 11) := by
    intro ⟨_, h6⟩
    cases t <;> simp [NcType.code] at h6
  simp only [a1, a2, a3, if_false, ofCode_code, pure_apply]

theorem vAttr_tail (a : Att) (ok1 : Bool) (k : Nat) (r : Bytes) :
    (if k > 0 then (do
        let pad ← rdBytes k
        pure (a, VFlags.ofPad (ok1 && allZero pad)) : VP (Att × VFlags))
      else pure (a, VFlags.ofPad ok1)) (zeros k ++ r) = .ok ((a, VFlags.ofPad ok1), r) := by
  by_cases hk : k > 0
  · simp only [hk, if_true]
    rw [bind_ok (rdBytes_put' (zeros k) r (by simp))]
    simp [pure_apply, allZero_zeros]
  · have : k = 0 := by omega
    subst this
    simp [pure_apply, zeros]

theorem vAttr_put (c : VCfg) (f : Fmt) (a : Att) (r : Bytes) (h : AttWF f a) :
    vAttr c f.version (putAttr f.version a ++ r) = .ok ((a, VFlags.ok), r) := by
  unfold vAttr putAttr
  simp only [List.append_assoc]
  rw [bind_ok (vName_put c f a.name _ h.nul h.nameLen)]
  simp only []
  rw [bind_ok (vType_put f a.xtype _ h.typeOk), bind_ok (vNonNeg_put c f a.nelems _ h.nelems)]
  rw [putAttrV_eq a h.value, List.append_assoc]
  rw [bind_ok (rdBytes_put' a.xvalue _ h.value)]
  have hp : (if a.nelems > 0 then xlenAttrV a.xtype a.nelems else 0) - a.nelems * a.xtype.size =
      Spec.padLen a.xvalue.length := by
    rw [h.value]; exact attr_pad_eq a.xtype a.nelems
  have ht := vAttr_tail a true ((if a.nelems > 0 then xlenAttrV a.xtype a.nelems else 0) - a.nelems * a.xtype.size) r
  rw [hp] at ht
  rw [hp]
  exact ht

theorem vN_put {α : Type} (item : VP (α × VFlags)) (enc : α → Bytes) (WF : α → Prop)
    (h : ∀ x r, WF x → item (enc x ++ r) = .ok ((x, VFlags.ok), r)) :
    ∀ (xs : List α) (r : Bytes), (∀ x ∈ xs, WF x) → vN item xs.length (xs.flatMap enc ++ r) = .ok ((xs, VFlags.ok), r) := by
  intro xs
  induction xs with
  | nil => intro r _; rfl
  | cons x t ih =>
    intro r hw
    simp only [List.length_cons, vN, List.flatMap_cons, List.append_assoc]
    rw [bind_ok (h x _ (hw x (by simp)))]
    simp only []
    rw [bind_ok (ih r (fun y hy => hw y (by simp [hy])))]
    simp [pure_apply]

theorem vAttrArray_put (c : VCfg) (f : Fmt) (as : List Att) (r : Bytes) (hn : as.length < nnLim f) (hm : as.length ≤ NC_MAX_ATTRS)
    (hw : ∀ a ∈ as, AttWF f a) :
    vAttrArray c f.version (putAttrArray f.version as ++ r) = .ok ((as, VFlags.ok), r) := by
  unfold vAttrArray putAttrArray
  exact vArray_put c f NC_ATTRIBUTE NC_MAX_ATTRS .emaxatts (by simp [NC_ATTRIBUTE]) _ (putAttr f.version) as r hn hm
    (fun _ => vN_put (vAttr c f.version) (putAttr f.version) (AttWF f) (vAttr_put c f) as r hw)

theorem dimidC_small {id : Nat} (h : id < 2147483648) : dimidC id = some id := by
  unfold dimidC
  have : id % 4294967296 = id := Nat.mod_eq_of_lt (by omega)
  simp only [this]
  have : ¬ id ≥ 2147483648 := by omega
  simp [this]

theorem vDimid_put (c : VCfg) (f : Fmt) (nd id : Nat) (r : Bytes) (h : id < nd) (hnd : nd ≤ 2147483647) :
    vDimid c f.version nd (putNonNeg f.version id ++ r) = .ok ((id, VFlags.ok), r) := by
  have hge : ¬ id ≥ nd := by omega
  obtain ⟨sl, ss, st, d64⟩ := c
  cases d64 <;> cases f
  · show (rdU32 >>= fun v => match dimidC v with
        | some d => if d ≥ nd then VP.fail .ebaddim else pure (v, VFlags.ok)
        | none => pure (v, VFlags.ok)) (be32 id ++ r) = _
    rw [bind_ok (rdU32_put id r (by omega)), dimidC_small (by omega)]
    simp only [hge, if_false, pure_apply]
  · show (rdU32 >>= fun v => match dimidC v with
        | some d => if d ≥ nd then VP.fail .ebaddim else pure (v, VFlags.ok)
        | none => pure (v, VFlags.ok)) (be32 id ++ r) = _
    rw [bind_ok (rdU32_put id r (by omega)), dimidC_small (by omega)]
    simp only [hge, if_false, pure_apply]
  · show (rdU64 >>= fun v => match dimidC v with
        | some d => if d ≥ nd then VP.fail .ebaddim else pure (v, VFlags.ok)
        | none => pure (v, VFlags.ok)) (be64 id ++ r) = _
    rw [bind_ok (rdU64_put id r (by omega)), dimidC_small (by omega)]
    simp only [hge, if_false, pure_apply]
  · show (rdU32 >>= fun v => if v ≥ nd then VP.fail .ebaddim else pure (v, VFlags.ok)) (be32 id ++ r) = _
    rw [bind_ok (rdU32_put id r (by omega))]
    simp only [hge, if_false, pure_apply]
  · show (rdU32 >>= fun v => if v ≥ nd then VP.fail .ebaddim else pure (v, VFlags.ok)) (be32 id ++ r) = _
    rw [bind_ok (rdU32_put id r (by omega))]
    simp only [hge, if_false, pure_apply]
  · show (rdU64raw >>= fun v => if v ≥ nd then VP.fail .ebaddim else pure (v, VFlags.ok)) (be64 id ++ r) = _
    rw [bind_ok (rdU64raw_put id r (by omega))]
    simp only [hge, if_false, pure_apply]

theorem vBegin_put (c : VCfg) (f : Fmt) (n : Nat) (r : Bytes) (h : n < offLim f) :
    vBegin c f.version (putBegin f.version n ++ r) = .ok (n, r) := by
  obtain ⟨sl, ss, st, d64⟩ := c
  cases ss <;> cases f <;> simp only [offLim] at h
  · show rdU32 (be32 n ++ r) = _; exact rdU32_put n r (by omega)
  · show rdU64 (be64 n ++ r) = _; exact rdU64_put n r (by omega)
  · show rdU64 (be64 n ++ r) = _; exact rdU64_put n r (by omega)
  · show (rdU32 >>= fun v => if v > 2147483647 then VP.fail .enotnc else pure v) (be32 n ++ r) = _
    rw [bind_ok (rdU32_put n r (by omega))]
    have : ¬ n > 2147483647 := by omega
    simp only [this, if_false, pure_apply]
  · show (rdU64raw >>= fun v => if v ≥ 9223372036854775808 then VP.fail .enotnc else pure v) (be64 n ++ r) = _
    rw [bind_ok (rdU64raw_put n r (by omega))]
    have : ¬ n ≥ 9223372036854775808 := by omega
    simp only [this, if_false, pure_apply]
  · show (rdU64raw >>= fun v => if v ≥ 9223372036854775808 then VP.fail .enotnc else pure v) (be64 n ++ r) = _
    rw [bind_ok (rdU64raw_put n r (by omega))]
    have : ¬ n ≥ 9223372036854775808 := by omega
    simp only [this, if_false, pure_apply]

/-- bound of the vsize field as the validator reads it (hdr_get_NON_NEG): any 32-bit word, a 64-bit word
    without sign bit -/
def vsizeLim (f : Fmt) : Nat := match f with | .cdf5 => 2 ^ 63 | _ => 2 ^ 32

theorem vVsize_put (c : VCfg) (f : Fmt) (n : Nat) (r : Bytes) (h : n < vsizeLim f) :
    vVsize c f.version (putNonNeg f.version n ++ r) = .ok (n, r) := by
  obtain ⟨sl, ss, st, d64⟩ := c
  cases ss <;> cases f <;> simp only [vsizeLim] at h
  · show rdU32 (be32 n ++ r) = _; exact rdU32_put n r (by omega)
  · show rdU32 (be32 n ++ r) = _; exact rdU32_put n r (by omega)
  · show rdU64 (be64 n ++ r) = _; exact rdU64_put n r (by omega)
  · show rdU32 (be32 n ++ r) = _; exact rdU32_put n r (by omega)
  · show rdU32 (be32 n ++ r) = _; exact rdU32_put n r (by omega)
  · show rdU64raw (be64 n ++ r) = _; exact rdU64raw_put n r (by omega)

/-- what the validator needs of a variable beyond `VarWF`: its own limits and the modelled domain -/
structure VarV (f : Fmt) (nd : Nat) (v : Var) : Prop where
  wf     : VarWF f v
  ndims  : v.dimids.length ≤ NC_MAX_VAR_DIMS
  dimids : ∀ id ∈ v.dimids, id < nd
  natts  : v.atts.length ≤ NC_MAX_ATTRS
  vsize  : v.vsize < vsizeLim f

theorem vVar_put (c : VCfg) (f : Fmt) (nd : Nat) (hnd : nd ≤ 2147483647) (v : Var) (r : Bytes) (h : VarV f nd v) :
    vVar c f.version nd (putVar f.version v ++ r) = .ok ((v, VFlags.ok), r) := by
  unfold vVar putVar
  simp only [List.append_assoc]
  rw [bind_ok (vName_put c f v.name _ h.wf.nul h.wf.nameLen)]
  simp only []
  rw [bind_ok (vNonNeg_put c f _ _ h.wf.ndims)]
  have h1 : ¬ v.dimids.length > NC_MAX_VAR_DIMS := by have := h.ndims; omega
  simp only [h1, if_false]
  rw [bind_ok (vN_put (vDimid c f.version nd) (putNonNeg f.version) (fun id => id < nd)
        (fun x r hx => vDimid_put c f nd x r hx hnd) v.dimids _ h.dimids)]
  simp only []
  rw [bind_ok (vAttrArray_put c f v.atts _ h.wf.natts h.natts h.wf.atts)]
  simp only []
  rw [bind_ok (vType_put f v.xtype _ h.wf.typeOk), bind_ok (vVsize_put c f v.vsize _ h.vsize),
      bind_ok (vBegin_put c f v.begin r h.wf.begin)]
  simp [pure_apply]

/-- headers inside the validator's limits (counts ≤ NC_MAX_INT, one record dimension, dimension ids in range)
    and inside the modelled domain (vsize field without sign bit) -/
structure VLimits (d : Schema) : Prop where
  ndims  : d.dims.length ≤ NC_MAX_DIMS
  oneRec : (d.dims.filter (fun x => x.size == 0)).length ≤ 1
  ngatts : d.gatts.length ≤ NC_MAX_ATTRS
  nvars  : d.vars.length ≤ NC_MAX_VARS
  vars   : ∀ v ∈ d.vars, v.dimids.length ≤ NC_MAX_VAR_DIMS ∧ (∀ id ∈ v.dimids, id < d.dims.length) ∧
             v.atts.length ≤ NC_MAX_ATTRS ∧ v.vsize < vsizeLim d.fmt

theorem vBody_put (c : VCfg) (d : Schema) (rest : Bytes) (he : Encodable d) (hl : VLimits d) :
    vBody c d.fmt ((encodeRaw d).drop 4 ++ rest) = .ok ((d, VFlags.ok), rest) := by
  have hdrop : (encodeRaw d).drop 4 = putNonNeg d.fmt.version d.numrecs ++ putDimArray d.fmt.version d.dims ++
      putAttrArray d.fmt.version d.gatts ++ putVarArray d.fmt.version d.vars := by
    unfold encodeRaw
    simp only [List.append_assoc]
    exact drop_append_left' (n := 4) (magicBytes d.fmt) _ (by simp [magicBytes])
  rw [hdrop]
  unfold vBody
  simp only [List.append_assoc]
  rw [bind_ok (vNumrecs_put c d.fmt _ _ he.numrecs)]
  have hnd : d.dims.length ≤ 2147483647 := hl.ndims
  have hd : vDimArray c d.fmt.version (putDimArray d.fmt.version d.dims ++
      (putAttrArray d.fmt.version d.gatts ++ (putVarArray d.fmt.version d.vars ++ rest))) =
        .ok ((d.dims, VFlags.ok), putAttrArray d.fmt.version d.gatts ++ (putVarArray d.fmt.version d.vars ++ rest)) := by
    unfold vDimArray putDimArray
    exact vArray_put c d.fmt NC_DIMENSION NC_MAX_DIMS .emaxdims (by simp [NC_DIMENSION]) _ (putDim d.fmt.version) d.dims _
      he.ndims hl.ndims (fun _ => vDims_put c d.fmt d.dims _ false he.dims (by simpa using hl.oneRec))
  rw [bind_ok hd]
  simp only []
  rw [bind_ok (vAttrArray_put c d.fmt d.gatts _ he.ngatts hl.ngatts he.gatts)]
  simp only []
  have hv : vVarArray c d.fmt.version d.dims.length (putVarArray d.fmt.version d.vars ++ rest) = .ok ((d.vars, VFlags.ok), rest) := by
    unfold vVarArray putVarArray
    exact vArray_put c d.fmt NC_VARIABLE NC_MAX_VARS .emaxvars (by simp [NC_VARIABLE]) _ (putVar d.fmt.version) d.vars rest
      he.nvars hl.nvars (fun _ => vN_put (vVar c d.fmt.version d.dims.length) (putVar d.fmt.version) (VarV d.fmt d.dims.length)
        (fun v r hv => vVar_put c d.fmt d.dims.length hnd v r hv) d.vars rest
        (fun v hv => ⟨he.vars v hv, (hl.vars v hv).1, (hl.vars v hv).2.1, (hl.vars v hv).2.2.1, (hl.vars v hv).2.2.2⟩))
  rw [bind_ok hv]
  simp [pure_apply]

/-! Part 2: the post-pass of the validator accepts whatever the library's own reader accepts. -/

theorem vShapeOf_of (dims : List Dim) : ∀ (ids : List Nat) (i : Nat) (sh : List Nat),
    (∀ id ∈ ids, id < 2147483648) → shapeOf dims ids i = .ok sh → vShapeOf dims ids i = .ok sh := by
  intro ids
  induction ids with
  | nil => intro i sh _ h; simpa [shapeOf, vShapeOf] using h
  | cons id t ih =>
    intro i sh hs h
    unfold shapeOf at h
    unfold vShapeOf
    rw [dimidC_small (hs id (by simp))]
    simp only []
    cases hd : dims[id]? with
    | none => rw [hd] at h; cases h
    | some dm =>
      rw [hd] at h
      simp only [] at h ⊢
      by_cases hu : dm.size = 0 ∧ i ≠ 0
      · rw [if_pos hu] at h; cases h
      · rw [if_neg hu] at h ⊢
        cases hr : shapeOf dims t (i + 1) with
        | error e => rw [hr] at h; cases h
        | ok sh' =>
          rw [hr] at h
          rw [ih (i + 1) sh' (fun x hx => hs x (by simp [hx])) hr]
          cases h; rfl

theorem vVarShape64_of (dims : List Dim) (v : Var) (r : List Nat × Nat)
    (hs : ∀ id ∈ v.dimids, id < 2147483648) (h : varShape64 dims v = .ok r) : vVarShape64 dims v = .ok r := by
  unfold varShape64 at h
  unfold vVarShape64
  cases hr : shapeOf dims v.dimids 0 with
  | error e => rw [hr] at h; cases h
  | ok sh =>
    rw [hr] at h
    rw [vShapeOf_of dims v.dimids 0 sh hs hr]
    simp only [] at h ⊢
    split at h
    · cases h
    · cases h; rfl

theorem vDimidsOk_of (nd : Nat) (ids : List Nat) (h : ∀ id ∈ ids, id < nd) (hnd : nd ≤ 2147483647) :
    vDimidsOk nd ids = true := by
  unfold vDimidsOk
  rw [List.all_eq_true]
  intro id hid
  rw [dimidC_small (by have := h id hid; omega)]
  simpa using h id hid

theorem vCvsLoop_of (dims : List Dim) (hnd : dims.length ≤ 2147483647) : ∀ (vs : List Var) (st st' : CvsState),
    (∀ v ∈ vs, ∀ id ∈ v.dimids, id < dims.length) → cvsLoop dims vs st = .ok st' → vCvsLoop dims vs st = .ok st' := by
  intro vs
  induction vs with
  | nil => intro st st' _ h; simpa [cvsLoop, vCvsLoop] using h
  | cons v t ih =>
    intro st st' hd h
    unfold cvsLoop at h
    unfold vCvsLoop
    have hok := vDimidsOk_of dims.length v.dimids (hd v (by simp)) hnd
    simp only [hok, not_true_eq_false, if_false]
    cases hr : varShape64 dims v with
    | error e => rw [hr] at h; cases h
    | ok r =>
      obtain ⟨shape, len⟩ := r
      rw [hr] at h
      rw [vVarShape64_of dims v (shape, len) (fun id hid => by have := hd v (by simp) id hid; omega) hr]
      simp only [] at h ⊢
      split
      · rename_i hrec
        rw [if_pos hrec] at h
        exact ih _ _ (fun x hx => hd x (by simp [hx])) h
      · rename_i hrec
        rw [if_neg hrec] at h
        exact ih _ _ (fun x hx => hd x (by simp [hx])) h

theorem vComputeVarShape_of (h : Hdr) (xsz : Nat) (r : Nat × Nat × Nat × List (List Nat) × List Nat)
    (hnd : h.dims.length ≤ 2147483647) (hd : ∀ v ∈ h.vars, ∀ id ∈ v.dimids, id < h.dims.length)
    (hc : computeVarShape h xsz = .ok r) : vComputeVarShape h xsz = .ok r := by
  unfold computeVarShape at hc
  unfold vComputeVarShape
  split
  · rename_i h0; rw [if_pos h0] at hc; cases hc; rfl
  · rename_i h0
    rw [if_neg h0] at hc
    cases hl : cvsLoop h.dims h.vars { beginRec := xsz, recsize := 0, firstVar := none, firstRec := none, shapes := [], lens := [] } with
    | error e => rw [hl] at hc; cases hc
    | ok st =>
      rw [hl] at hc
      rw [vCvsLoop_of h.dims hnd h.vars _ st hd hl]
      simp only [] at hc ⊢
      rw [hc]

/-- the validator's post-pass accepts every header the library's reader accepts, with the same layout -/
theorem vPostPass_of (h : Hdr) (info : Info) (hnd : h.dims.length ≤ 2147483647)
    (hd : ∀ v ∈ h.vars, ∀ id ∈ v.dimids, id < h.dims.length) (hp : postPass h = .ok info) :
    vPostPass h = .ok info := by
  unfold postPass at hp
  unfold vPostPass
  simp only [] at hp ⊢
  cases hc : computeVarShape h h.len with
  | error e => rw [hc] at hp; cases hp
  | ok r =>
    obtain ⟨bv, br, rs, shapes, lens⟩ := r
    rw [hc] at hp
    rw [vComputeVarShape_of h h.len _ hnd hd hc]
    simp only [] at hp ⊢
    cases hv : checkVlens h.fmt.version ((h.vars.map (fun v => v.xtype.size)).zip shapes) with
    | error e => rw [hv] at hp; cases hp
    | ok u =>
      rw [hv] at hp
      simp only [] at hp ⊢
      cases ho : checkVoffs bv br (shapes.filter isRecShape).length
          ((shapes.map isRecShape).zip ((h.vars.map (fun v => v.begin)).zip lens)) with
      | error e => rw [ho] at hp; cases hp
      | ok u2 =>
        rw [ho] at hp
        cases hp; rfl

theorem vMagic_put (d : Schema) (rest : Bytes) : vMagic (encodeRaw d ++ rest) = .ok d.fmt := by
  have hlen : ¬ (encodeRaw d ++ rest).length < 8 := by
    unfold encodeRaw
    simp only [List.length_append, putNonNeg_length]
    have : (magicBytes d.fmt).length = 4 := by simp [magicBytes]
    have : 4 ≤ sizeofNonNeg d.fmt.version := by unfold sizeofNonNeg; split <;> omega
    omega
  unfold vMagic
  rw [if_neg hlen]
  unfold encodeRaw
  cases d.fmt <;> simp [magicBytes, Fmt.version]

/-- the validator's header reader returns exactly the header that was written, all padding null, and the
    layout the library's reader derives -/
theorem vGetNC_put (c : VCfg) (d : Schema) (rest : Bytes) (info : Info) (he : Encodable d) (hl : VLimits d)
    (hp : postPass d = .ok info) : vGetNC c (encodeRaw d ++ rest) = .ok (d, info, VFlags.ok) := by
  unfold vGetNC
  rw [vMagic_put]
  simp only []
  have hdrop : (encodeRaw d ++ rest).drop 4 = (encodeRaw d).drop 4 ++ rest := by
    rw [List.drop_append_of_le_length]
    unfold encodeRaw
    simp [magicBytes]
  rw [hdrop, vBody_put c d rest he hl]
  simp only []
  rw [vPostPass_of d info hl.ndims (fun v hv => (hl.vars v hv).2.1) hp]

end PnVerif.Tools
