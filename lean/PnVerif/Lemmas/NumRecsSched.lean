import PnVerif.Lemmas.NumRecs
/-
  Schedule independence for C05: the calls a single rank executes on its own (independent put, posting a
  nonblocking request, independent wait) commute with the rank-local calls of every other rank, so the state
  a history reaches does not depend on how the ranks' local calls interleave between two collectives.
-/
namespace PnVerif.NumRecs

/-- a call executed by rank `rk` alone: it rewrites that rank with `g` and (ghost) completes writes ending at `en` -/
def localApply (rk : Nat) (g : Rank → Rank) (en : Rank → List Nat) (w : World) : World :=
  { w with hi := maxOver w.hi ((w.ranks.filter fun r => r.id == rk).flatMap en),
           ranks := w.ranks.map fun r => if r.id == rk then g r else r }

theorem maxOver_append (b : Nat) (l1 l2 : List Nat) : maxOver (maxOver b l1) l2 = maxOver b (l1 ++ l2) := by
  unfold maxOver; rw [List.foldl_append]

theorem maxOver_comm (b : Nat) (l1 l2 : List Nat) : maxOver (maxOver b l1) l2 = maxOver (maxOver b l2) l1 := by
  rw [maxOver_eq_max (maxOver b l1) l2, maxOver_eq_max b l1, maxOver_eq_max (maxOver b l2) l1, maxOver_eq_max b l2]
  omega

theorem filter_map_other (a b : Nat) (hab : a ≠ b) (ga : Rank → Rank) (hga : ∀ r, (ga r).id = r.id) (l : List Rank) :
    (l.map fun r => if r.id == a then ga r else r).filter (fun r => r.id == b) = l.filter (fun r => r.id == b) := by
  induction l with
  | nil => rfl
  | cons x xs ih =>
    simp only [List.map_cons, List.filter_cons]
    by_cases hxa : (x.id == a) = true
    · have hida : x.id = a := by simpa using hxa
      have hnb : (x.id == b) = false := by simp [hida, hab]
      have hnb' : ((ga x).id == b) = false := by rw [hga]; exact hnb
      simp only [hxa, if_true, hnb, hnb', ih]
      simp
    · simp only [hxa, if_false, ih]
      simp

/-- rank-local calls of two different ranks commute -/
theorem localApply_comm (a b : Nat) (hab : a ≠ b) (ga gb : Rank → Rank) (ea eb : Rank → List Nat)
    (hga : ∀ r, (ga r).id = r.id) (hgb : ∀ r, (gb r).id = r.id) (w : World) :
    localApply b gb eb (localApply a ga ea w) = localApply a ga ea (localApply b gb eb w) := by
  unfold localApply
  simp only
  have h1 := filter_map_other a b hab ga hga w.ranks
  have h2 := filter_map_other b a (Ne.symm hab) gb hgb w.ranks
  rw [h1, h2, maxOver_comm]
  congr 1
  rw [List.map_map, List.map_map]
  apply List.map_congr_left
  intro r _
  simp only [Function.comp]
  by_cases hra : (r.id == a) = true
  · have hida : r.id = a := by simpa using hra
    have hnb : (r.id == b) = false := by simp [hida, hab]
    have hnb' : ((ga r).id == b) = false := by rw [hga]; exact hnb
    simp [hra, hnb, hnb']
  · have hra' : (r.id == a) = false := by simpa using hra
    by_cases hrb : (r.id == b) = true
    · have hna' : ((gb r).id == a) = false := by rw [hgb]; exact hra'
      simp [hra', hrb, hna']
    · have hrb' : (r.id == b) = false := by simpa using hrb
      simp [hra', hrb']

theorem localApply_indep (rk : Nat) (g : Rank → Rank) (en : Rank → List Nat) (w : World) :
    (localApply rk g en w).indep = w.indep := rfl

/-! ### the three rank-local calls as `localApply` -/
def putIndepG (e : Nat) (r : Rank) : Rank :=
  if r.numrecs < e then { r with numrecs := e, dirty := true, own := max r.own e } else { r with own := max r.own e }
def iputG (p : Pend) (r : Rank) : Rank := { r with pending := insertPend r.pending p }
def waitG (scan : Bool) (s : Sel) (r : Rank) : Rank :=
  if badSel r.pending s then r
  else if !(marked r.pending s).isEmpty && decide (r.numrecs < litNew scan r s) then
    { completeReqs r s with numrecs := litNew scan r s, dirty := true }
  else completeReqs r s
def waitE (s : Sel) (r : Rank) : List Nat := if badSel r.pending s then [] else markedRecs r s

theorem putIndepG_id (e : Nat) (r : Rank) : (putIndepG e r).id = r.id := by unfold putIndepG; split <;> rfl
theorem iputG_id (p : Pend) (r : Rank) : (iputG p r).id = r.id := rfl
theorem waitG_id (scan : Bool) (s : Sel) (r : Rank) : (waitG scan s r).id = r.id := by
  unfold waitG; split
  · rfl
  · split <;> rfl

theorem flatMap_nil_fun {α : Type} (l : List α) : l.flatMap (fun _ => ([] : List Nat)) = [] := by
  induction l with
  | nil => rfl
  | cons x xs ih => simp [List.flatMap_cons, ih]

theorem flatMap_single {α : Type} (l : List α) (e : Nat) : l.flatMap (fun _ => [e]) = l.map (fun _ => e) := by
  induction l with
  | nil => rfl
  | cons x xs ih => simp [List.flatMap_cons, ih]

theorem flatMap_filter_if (l : List Rank) (c : Rank → Bool) (f : Rank → List Nat) (p : Rank → Bool) :
    (l.filter fun r => p r && !c r).flatMap f = (l.filter p).flatMap (fun r => if c r then [] else f r) := by
  induction l with
  | nil => rfl
  | cons x xs ih =>
    simp only [List.filter_cons]
    by_cases hp : p x = true
    · by_cases hc : c x = true
      · simp [hp, hc, ih]
      · have hc' : c x = false := by simpa using hc
        simp [hp, hc', ih]
    · have hp' : p x = false := by simpa using hp
      simp [hp', ih]

theorem step_putIndep_eq (fx : Fix) (w : World) (rk e : Nat) :
    step fx w (.putIndep rk e) = some (if !w.indep then w else localApply rk (putIndepG e) (fun _ => [e]) w) := by
  obtain ⟨ranks, hdr, indep, hi⟩ := w
  show (if !indep then some _ else some _) = _
  cases indep with
  | false => rfl
  | true =>
    simp only [Bool.not_true, Bool.false_eq_true, if_false]
    unfold localApply putIndepG
    simp only [flatMap_single]

theorem step_iput_eq (fx : Fix) (w : World) (rk id : Nat) (isRec : Bool) (e vb ro : Nat) :
    step fx w (.iput rk id isRec e vb ro) =
      some (localApply rk (iputG { id := id, isRec := isRec, maxRec := if isRec then e else 0, varBegin := vb, reqOff := ro })
              (fun _ => []) w) := by
  show some _ = some _
  unfold localApply iputG
  rw [flatMap_nil_fun]
  rfl

theorem step_wait_eq (fx : Fix) (w : World) (rk : Nat) (s : Sel) :
    step fx w (.wait rk s) = some (if !w.indep then w else localApply rk (waitG fx.waitScan s) (waitE s) w) := by
  obtain ⟨ranks, hdr, indep, hi⟩ := w
  show stepWait fx.waitScan _ rk s = _
  unfold stepWait
  cases indep with
  | false => rfl
  | true =>
    simp only [Bool.not_true, Bool.false_eq_true, if_false]
    unfold localApply
    have hhi : (ranks.filter fun r => r.id == rk && !badSel r.pending s).flatMap (fun r => markedRecs r s) =
        (ranks.filter fun r => r.id == rk).flatMap (waitE s) :=
      flatMap_filter_if ranks (fun r => badSel r.pending s) (fun r => markedRecs r s) (fun r => r.id == rk)
    have hranks : (ranks.map fun r =>
          if r.id == rk && !badSel r.pending s then
            (if !(marked r.pending s).isEmpty && decide (r.numrecs < litNew fx.waitScan r s) then
               { completeReqs r s with numrecs := litNew fx.waitScan r s, dirty := true }
             else completeReqs r s)
          else r) = ranks.map fun r => if r.id == rk then waitG fx.waitScan s r else r := by
      apply List.map_congr_left
      intro r _
      unfold waitG
      by_cases hid : (r.id == rk) = true
      · by_cases hb : badSel r.pending s = true
        · simp [hid, hb]
        · have hb' : badSel r.pending s = false := by simpa using hb
          simp [hid, hb']
      · have hid' : (r.id == rk) = false := by simpa using hid
        simp [hid']
    simp only [hhi, hranks]

end PnVerif.NumRecs
