import PnVerif.Model.Layout
/-
  Lemmas about Model/Layout.lean: rounding, the alignment precedence, the two passes of NC_begins.
-/
namespace PnVerif.Layout
open PnVerif.Spec PnVerif.Header

theorem rndup_ge (x u : Nat) (hu : 0 < u) : x ≤ rndup x u := by
  unfold rndup
  have h1 := Nat.div_add_mod (x + u - 1) u
  have h2 := Nat.mod_lt (x + u - 1) hu
  rw [Nat.mul_comm] at h1
  omega

theorem rndup_lt (x u : Nat) (hu : 0 < u) : rndup x u < x + u := by
  unfold rndup
  have h1 := Nat.div_add_mod (x + u - 1) u
  rw [Nat.mul_comm] at h1
  omega

theorem rndup_dvd (x u : Nat) : u ∣ rndup x u := by
  unfold rndup; exact Nat.dvd_mul_left _ _

theorem rndup_mod (x u : Nat) : rndup x u % u = 0 := Nat.mod_eq_zero_of_dvd (rndup_dvd x u)

theorem rndup_mod4 (x u : Nat) (h4 : u % 4 = 0) : rndup x u % 4 = 0 := by
  have h : 4 ∣ u := Nat.dvd_of_mod_eq_zero h4
  exact Nat.mod_eq_zero_of_dvd (Nat.dvd_trans h (rndup_dvd x u))

theorem rndup_id (x u : Nat) (hu : 0 < u) (h : x % u = 0) : rndup x u = x := by
  have h1 := rndup_ge x u hu
  have h2 := rndup_lt x u hu
  have h3 := rndup_mod x u
  have : (rndup x u - x) % u = 0 := by
    have := Nat.sub_mod_eq_zero_of_mod_eq (m := rndup x u) (n := x) (k := u) (by rw [h3, h])
    exact this
  have h5 : rndup x u - x < u := by omega
  have : rndup x u - x = 0 := by
    have := Nat.mod_eq_of_lt h5
    omega
  omega

/-- alignments NC_begins can work with: positive multiples of 4 -/
structure AlignOk (al : Align) : Prop where
  hpos : 0 < al.hAlign
  h4   : al.hAlign % 4 = 0
  rpos : 0 < al.rAlign
  r4   : al.rAlign % 4 = 0

theorem rndup4_pos (h : Nat) (hh : h ≠ 0) : 0 < rndup h 4 := by
  have := rndup_ge h 4 (by omega); omega

theorem al4 (x : Nat) : 0 < (if x = 0 then 4 else rndup x 4) ∧ (if x = 0 then 4 else rndup x 4) % 4 = 0 := by
  split
  · exact ⟨by omega, rfl⟩
  · rename_i h; exact ⟨rndup4_pos x h, rndup_mod x 4⟩

/-- whatever hints and arguments are given, ncmpio__enddef hands NC_begins positive multiples of 4 -/
theorem resolveAlign_ok (envH envV envR hMin argV vMin argR numFix : Nat) (isRedef : Bool) :
    AlignOk (resolveAlign envH envV envR hMin argV vMin argR numFix isRedef) := by
  unfold resolveAlign
  exact ⟨(al4 _).1, (al4 _).2, (al4 _).1, (al4 _).2⟩

end PnVerif.Layout

namespace PnVerif.Layout
open PnVerif.Spec PnVerif.Header

/-- the begins `bs` place the variables `vs` one after the other starting not before `prev`,
    without overlap: prev ≤ b₀, b₀ + len₀ ≤ b₁, … -/
def chainOk : List VarL → List Nat → Nat → Prop
  | [], [], _ => True
  | v :: vs, b :: bs, prev => prev ≤ b ∧ chainOk vs bs (b + v.len)
  | _, _, _ => False

/-- end of the last variable of the chain (`e` if there is none) -/
def endOf : List VarL → List Nat → Nat → Nat
  | v :: vs, b :: bs, _ => endOf vs bs (b + v.len)
  | _, _, e => e

/-- pairwise old ≤ new over the common prefix (nothing moves towards the file start) -/
def geOld : List Nat → List Nat → Prop
  | o :: os, b :: bs => o ≤ b ∧ geOld os bs
  | _, _ => True

/-- variables laid out back to back from `b` -/
def consec : List VarL → Nat → List Nat
  | [], _ => []
  | v :: vs, b => b :: consec vs (b + v.len)

def sumLen (vs : List VarL) : Nat := (vs.map (·.len)).sum

/-- the record size the format prescribes: the sum of the padded lengths, or the unpadded size of
    one record when there is exactly one record variable -/
def specRecsize (recs : List VarL) : Nat :=
  match recs with
  | [v] => v.packed
  | rs => sumLen rs

def oldBeginRec (old : Option Old) : Nat :=
  match old with
  | some o => o.beginRec
  | none => 0

theorem passFixed_spec (fmt : Fmt) : ∀ (vs : List VarL) (ob : List Nat) (e : Nat) (bs : List Nat) (e' : Nat),
    passFixed fmt vs ob e = .ok (bs, e') →
      chainOk vs bs e ∧ e' = endOf vs bs e ∧ geOld ob bs ∧ bs.length = vs.length ∧ e ≤ e' ∧
      ((∀ o ∈ ob, o % 4 = 0) → ∀ b ∈ bs, b % 4 = 0) ∧
      (fmt = .cdf1 → ∀ b ∈ bs, b ≤ NC_MAX_INT + 4 ∨ b ∈ ob) := by
  intro vs
  induction vs with
  | nil =>
    intro ob e bs e' h
    simp only [passFixed, Except.ok.injEq, Prod.mk.injEq] at h
    obtain ⟨rfl, rfl⟩ := h
    refine ⟨trivial, rfl, ?_, rfl, Nat.le_refl _, (fun _ b hb => by cases hb), (fun _ b hb => by cases hb)⟩
    cases ob <;> trivial
  | cons v vs ih =>
    intro ob e bs e' h
    simp only [passFixed] at h
    split at h
    · contradiction
    · rename_i hchk
      split at h
      · contradiction
      · rename_i bs' e2 hrec
        simp only [Except.ok.injEq, Prod.mk.injEq] at h
        obtain ⟨rfl, rfl⟩ := h
        obtain ⟨h1, h2, h3, h4, h5, h6, h7⟩ := ih _ _ _ _ hrec
        have hge : e ≤ rndup e 4 := rndup_ge e 4 (by omega)
        cases ob with
        | nil =>
          simp only at hrec h1 h2 h5 ⊢
          refine ⟨⟨hge, h1⟩, h2, trivial, by simp [h4], by omega, ?_, ?_⟩
          · intro _ b hb
            rcases List.mem_cons.mp hb with rfl | hb'
            · exact rndup_mod e 4
            · exact h6 (fun o ho => by cases ho) b hb'
          · intro hf b hb
            rcases List.mem_cons.mp hb with rfl | hb'
            · left
              have : ¬ e > NC_MAX_INT := fun hgt => hchk ⟨hf, hgt⟩
              have := rndup_lt e 4 (by omega)
              omega
            · rcases h7 hf b hb' with a | a
              · left; exact a
              · simp at a
        | cons o os =>
          simp only [List.drop_succ_cons, List.drop_zero] at hrec h1 h2 h3 h5 h6 h7 ⊢
          refine ⟨⟨by split <;> omega, h1⟩, h2, ⟨by split <;> omega, h3⟩, by simp [h4], by split at h5 <;> omega, ?_, ?_⟩
          · intro ho b hb
            rcases List.mem_cons.mp hb with rfl | hb'
            · split
              · exact ho o (by simp)
              · exact rndup_mod e 4
            · exact h6 (fun o' ho' => ho o' (by simp [ho'])) b hb'
          · intro hf b hb
            rcases List.mem_cons.mp hb with rfl | hb'
            · split
              · right; simp
              · left
                have : ¬ e > NC_MAX_INT := fun hgt => hchk ⟨hf, hgt⟩
                have := rndup_lt e 4 (by omega)
                omega
            · rcases h7 hf b hb' with a | a
              · left; exact a
              · right; simp [a]

end PnVerif.Layout

namespace PnVerif.Layout
open PnVerif.Spec PnVerif.Header

/-- `ob` is an initial segment of `l` -/
def IsPrefix (ob l : List Nat) : Prop := ∃ k, ob = l.take k

theorem isPrefix_nil (l : List Nat) : IsPrefix [] l := ⟨0, by simp⟩

/-- second pass: if the old record variables are an initial segment of the new ones (same lengths,
    laid out back to back from an old begin_rec that is not after the new one) — which is what a
    redefinition can produce, variables being only ever appended — the record variables come out
    back to back from begin_rec, and recsize is the sum of their lengths -/
theorem passRec_spec (fmt : Fmt) : ∀ (vs : List VarL) (ob : List Nat) (e rs eo : Nat) (bs : List Nat) (rs' : Nat),
    passRec fmt vs ob e rs = .ok (bs, rs') → IsPrefix ob (consec vs eo) → eo ≤ e →
      bs = consec vs e ∧ rs' = rs + sumLen vs := by
  intro vs
  induction vs with
  | nil =>
    intro ob e rs eo bs rs' h _ _
    simp only [passRec, Except.ok.injEq, Prod.mk.injEq] at h
    obtain ⟨rfl, rfl⟩ := h
    exact ⟨rfl, by simp [sumLen]⟩
  | cons v vs ih =>
    intro ob e rs eo bs rs' h hp hle
    simp only [passRec] at h
    split at h
    · contradiction
    · split at h
      · contradiction
      · rename_i bs' rs2 hrec
        simp only [Except.ok.injEq, Prod.mk.injEq] at h
        obtain ⟨rfl, rfl⟩ := h
        obtain ⟨k, hk⟩ := hp
        cases ob with
        | nil =>
          simp only [List.drop_nil] at hrec
          obtain ⟨h1, h2⟩ := ih [] (e + v.len) (rs + v.len) (eo + v.len) _ _ hrec (isPrefix_nil _) (by omega)
          refine ⟨by simp [consec, h1], ?_⟩
          rw [h2]; simp [sumLen]; omega
        | cons o os =>
          simp only [List.drop_succ_cons, List.drop_zero] at hrec
          cases k with
          | zero => simp at hk
          | succ k =>
            simp only [consec, List.take_succ_cons, List.cons.injEq] at hk
            obtain ⟨rfl, hos⟩ := hk
            obtain ⟨h1, h2⟩ := ih os (e + v.len) (rs + v.len) (o + v.len) _ _ hrec ⟨k, hos⟩ (by omega)
            have : ¬ e < o := by omega
            refine ⟨by simp [consec, h1, this], ?_⟩
            rw [h2]; simp [sumLen]; omega

theorem consec_length (vs : List VarL) (b : Nat) : (consec vs b).length = vs.length := by
  induction vs generalizing b with
  | nil => rfl
  | cons v vs ih => simp [consec, ih]

theorem consec_mod4 (vs : List VarL) (b : Nat) (hb : b % 4 = 0) (hl : ∀ v ∈ vs, v.len % 4 = 0) :
    ∀ x ∈ consec vs b, x % 4 = 0 := by
  induction vs generalizing b with
  | nil => intro x hx; cases hx
  | cons v vs ih =>
    intro x hx
    simp only [consec, List.mem_cons] at hx
    rcases hx with rfl | hx
    · exact hb
    · have := hl v (by simp)
      exact ih (b + v.len) (by omega) (fun w hw => hl w (by simp [hw])) x hx

theorem consec_ge (vs : List VarL) (b : Nat) : ∀ x ∈ consec vs b, b ≤ x := by
  induction vs generalizing b with
  | nil => intro x hx; cases hx
  | cons v vs ih =>
    intro x hx
    simp only [consec, List.mem_cons] at hx
    rcases hx with rfl | hx
    · exact Nat.le_refl _
    · have := ih (b + v.len) x hx; omega

/-- old begins of an initial segment laid out from an earlier start are not after the new ones -/
theorem geOld_consec (vs : List VarL) (eo e : Nat) (h : eo ≤ e) (ob : List Nat) (hp : IsPrefix ob (consec vs eo)) :
    geOld ob (consec vs e) := by
  induction vs generalizing eo e ob with
  | nil =>
    obtain ⟨k, hk⟩ := hp
    simp [consec] at hk; subst hk; trivial
  | cons v vs ih =>
    obtain ⟨k, hk⟩ := hp
    cases k with
    | zero => simp at hk; subst hk; trivial
    | succ k =>
      simp only [consec, List.take_succ_cons] at hk
      subst hk
      exact ⟨h, ih (eo + v.len) (e + v.len) (by omega) _ ⟨k, rfl⟩⟩

end PnVerif.Layout

namespace PnVerif.Layout
open PnVerif.Spec PnVerif.Header

/-- what NC_begins may assume of ncp->old: it is itself a layout with 4-aligned begins whose record
    variables are an initial segment of the present ones, laid out back to back from its begin_rec -/
structure OldOk (vars : List VarL) (o : Old) : Prop where
  begins4   : ∀ p ∈ o.vars, p.2 % 4 = 0
  rec4      : o.beginRec % 4 = 0
  recPrefix : IsPrefix ((o.vars.filter (fun p => p.1)).map (·.2)) (consec (vars.filter (fun v => v.isRec)) o.beginRec)
  varLeRec  : o.beginVar ≤ o.beginRec

/-- the layout rules of the classic format + the alignment requests + monotonicity on redefinition -/
structure LayoutWF (xsz : Nat) (vars : List VarL) (al : Align) (old : Option Old) (L : Layout) : Prop where
  /-- one begin per variable -/
  nFixed   : L.fixedBegins.length = (vars.filter (fun v => !v.isRec)).length
  /-- every begin is a multiple of 4 -/
  fixed4   : ∀ b ∈ L.fixedBegins, b % 4 = 0
  rec4     : L.beginRec % 4 = 0 ∧ ∀ b ∈ L.recBegins, b % 4 = 0
  /-- the header (plus the requested free space) fits before the first variable; fixed-size variables
      follow in definition order without overlap; the record section starts after them (plus the
      requested free space) -/
  fixedOk  : ∃ bv0, xsz ≤ bv0 ∧ (vars ≠ [] → xsz + al.hMinfree ≤ bv0) ∧
               chainOk (vars.filter (fun v => !v.isRec)) L.fixedBegins bv0 ∧
               endOf (vars.filter (fun v => !v.isRec)) L.fixedBegins bv0 + al.vMinfree ≤ L.beginRec
  /-- header extent = begin of the first variable -/
  extent   : L.beginVar = L.fixedBegins.headD L.beginRec
  /-- record variables are consecutive inside a record, from begin_rec -/
  recs     : L.recBegins = consec (vars.filter (fun v => v.isRec)) L.beginRec
  /-- record size: sum of the (padded) lengths, or the unpadded size for exactly one record variable -/
  recsize  : L.recsize = specRecsize (vars.filter (fun v => v.isRec))
  /-- requested alignments -/
  alignVar : old = none → vars.filter (fun v => !v.isRec) ≠ [] → L.beginVar % al.hAlign = 0
  alignRec : L.beginRec % al.rAlign = 0 ∨ ∃ o, old = some o ∧ L.beginRec = o.beginRec
  /-- a redefinition never moves anything towards the start of the file -/
  monotone : ∀ o, old = some o → o.beginVar ≤ L.beginVar ∧ o.beginRec ≤ L.beginRec ∧
               geOld ((o.vars.filter (fun p => !p.1)).map (·.2)) L.fixedBegins ∧
               geOld ((o.vars.filter (fun p => p.1)).map (·.2)) L.recBegins

theorem initExtent_spec (xsz nvars : Nat) (al : Align) (old : Option Old) (hal : AlignOk al) :
    xsz ≤ initExtent xsz nvars al old ∧ (nvars > 0 → xsz + al.hMinfree ≤ initExtent xsz nvars al old) ∧
    (∀ o, old = some o → o.beginVar ≤ initExtent xsz nvars al old) ∧
    (old = none → nvars > 0 → initExtent xsz nvars al old % al.hAlign = 0) := by
  have hge := rndup_ge (xsz + al.hMinfree) al.hAlign hal.hpos
  have hmod := rndup_mod (xsz + al.hMinfree) al.hAlign
  unfold initExtent
  cases old with
  | none =>
    simp only
    refine ⟨?_, ?_, ?_, ?_⟩
    · split <;> omega
    · intro h; simp only [h, if_true]; omega
    · intro o ho; cases ho
    · intro _ h; simp only [h, if_true]; exact hmod
  | some o =>
    simp only
    have hx1 : xsz ≤ (if nvars > 0 then rndup (xsz + al.hMinfree) al.hAlign else xsz) := by split <;> omega
    have hx2 : nvars > 0 → xsz + al.hMinfree ≤ (if nvars > 0 then rndup (xsz + al.hMinfree) al.hAlign else xsz) := by
      intro h; simp only [h, if_true]; omega
    generalize (if nvars > 0 then rndup (xsz + al.hMinfree) al.hAlign else xsz) = x at hx1 hx2 ⊢
    refine ⟨?_, ?_, ?_, ?_⟩
    · split <;> omega
    · intro h; have := hx2 h; split <;> omega
    · intro o' ho; cases ho; split <;> omega
    · intro h; cases h

theorem recStart_spec (al : Align) (beginRec0 endVar : Nat) (old : Option Old) (hal : AlignOk al)
    (ho4 : ∀ o, old = some o → o.beginRec % 4 = 0) :
    endVar + al.vMinfree ≤ recStart al beginRec0 endVar old ∧ recStart al beginRec0 endVar old % 4 = 0 ∧
    (recStart al beginRec0 endVar old % al.rAlign = 0 ∨ ∃ o, old = some o ∧ recStart al beginRec0 endVar old = o.beginRec) ∧
    (∀ o, old = some o → o.beginRec ≤ recStart al beginRec0 endVar old) ∧
    beginRec0 ≤ recStart al beginRec0 endVar old := by
  -- the value before the comparison with the old begin_rec
  have key : ∀ x, (if beginRec0 < endVar + al.vMinfree then endVar + al.vMinfree else beginRec0) = x →
      endVar + al.vMinfree ≤ (if al.rAlign > 1 then rndup (rndup x 4) al.rAlign else rndup x 4) ∧
      (if al.rAlign > 1 then rndup (rndup x 4) al.rAlign else rndup x 4) % 4 = 0 ∧
      (if al.rAlign > 1 then rndup (rndup x 4) al.rAlign else rndup x 4) % al.rAlign = 0 ∧
      beginRec0 ≤ (if al.rAlign > 1 then rndup (rndup x 4) al.rAlign else rndup x 4) := by
    intro x hx
    have h1 : endVar + al.vMinfree ≤ x ∧ beginRec0 ≤ x := by subst hx; split <;> omega
    have h2 := rndup_ge x 4 (by omega)
    have h3 := rndup_ge (rndup x 4) al.rAlign hal.rpos
    have h4 := rndup_mod x 4
    split
    · exact ⟨by omega, rndup_mod4 _ _ hal.r4, rndup_mod _ _, by omega⟩
    · rename_i hr
      have hr1 : al.rAlign = 1 := by have := hal.rpos; omega
      have := hal.r4
      omega
  obtain ⟨k1, k2, k3, k4⟩ := key _ rfl
  unfold recStart
  simp only
  generalize (if al.rAlign > 1 then
      rndup (rndup (if beginRec0 < endVar + al.vMinfree then endVar + al.vMinfree else beginRec0) 4) al.rAlign
    else rndup (if beginRec0 < endVar + al.vMinfree then endVar + al.vMinfree else beginRec0) 4) = y at k1 k2 k3 k4 ⊢
  cases old with
  | none =>
    simp only
    refine ⟨k1, k2, Or.inl k3, ?_, k4⟩
    intro o ho; cases ho
  | some o =>
    simp only
    have ho := ho4 o rfl
    split
    · rename_i hlt
      refine ⟨by omega, ho, Or.inr ⟨o, rfl, rfl⟩, ?_, by omega⟩
      intro o' ho'; cases ho'; omega
    · rename_i hlt
      refine ⟨k1, k2, Or.inl k3, ?_, k4⟩
      intro o' ho'; cases ho'; omega

theorem sumLen_cons (v : VarL) (vs : List VarL) : sumLen (v :: vs) = v.len + sumLen vs := by
  simp [sumLen]

theorem le_sumLen_of_mem (vs : List VarL) (l : VarL) (h : l ∈ vs) : l.len ≤ sumLen vs := by
  induction vs with
  | nil => cases h
  | cons a t ih =>
    rw [sumLen_cons]
    rcases List.mem_cons.mp h with rfl | h'
    · omega
    · have := ih h'; omega

theorem packRecsize_spec (recs : List VarL) (hpos : ∀ v ∈ recs, 0 < v.len) :
    packRecsize recs (sumLen recs) = specRecsize recs := by
  unfold packRecsize specRecsize
  match recs, hpos with
  | [], _ => simp
  | [v], _ => simp [sumLen]
  | a :: b :: rest, hp =>
    have hlast : ∃ l, (a :: b :: rest).getLast? = some l ∧ l ∈ (b :: rest) := by
      refine ⟨(b :: rest).getLast (by simp), ?_, List.getLast_mem _⟩
      simp [List.getLast?_eq_some_getLast]
    obtain ⟨l, hl, hmem⟩ := hlast
    rw [hl]
    simp only
    have ha := hp a (by simp)
    have hle : l.len ≤ sumLen (b :: rest) := le_sumLen_of_mem _ _ hmem
    have : ¬ sumLen (a :: b :: rest) = l.len := by rw [sumLen_cons]; omega
    simp [this]

end PnVerif.Layout

namespace PnVerif.Layout
open PnVerif.Spec PnVerif.Header

theorem mem_filter_len {vars : List VarL} {p : VarL → Bool} (hlen : ∀ v ∈ vars, v.len % 4 = 0 ∧ 0 < v.len) :
    ∀ v ∈ vars.filter p, v.len % 4 = 0 ∧ 0 < v.len :=
  fun v hv => hlen v (List.mem_filter.mp hv).1

/-- NC_begins, for every input it accepts — a new file (`old = none`) or a redefinition (`old = some o`
    with `o` itself a well-formed layout of an initial segment of the variables) — produces a layout
    that satisfies every rule of `LayoutWF`. -/
theorem ncBegins_wf (fmt : Fmt) (xsz : Nat) (vars : List VarL) (al : Align) (beginRec0 : Nat) (old : Option Old)
    (L : Layout) (hal : AlignOk al) (hlen : ∀ v ∈ vars, v.len % 4 = 0 ∧ 0 < v.len)
    (hold : ∀ o, old = some o → OldOk vars o ∧ beginRec0 = o.beginRec)
    (h : ncBegins fmt xsz vars al beginRec0 old = .ok L) : LayoutWF xsz vars al old L := by
  unfold ncBegins at h
  simp only [] at h
  split at h
  · contradiction
  · rename_i fb endVar hfix
    split at h
    · contradiction
    · rename_i rb recsize hrec
      simp only [Except.ok.injEq] at h
      subst h
      -- facts about the pieces
      obtain ⟨i1, i2, i3, i4⟩ := initExtent_spec xsz vars.length al old hal
      have ho4 : ∀ o, old = some o → o.beginRec % 4 = 0 := fun o ho => (hold o ho).1.rec4
      obtain ⟨r1, r2, r3, r4, r5⟩ := recStart_spec al beginRec0 endVar old hal ho4
      have hob4 : ∀ x ∈ oldFixedBegins old, x % 4 = 0 := by
        intro x hx
        cases old with
        | none => simp [oldFixedBegins] at hx
        | some o =>
          simp only [oldFixedBegins, List.mem_map, List.mem_filter] at hx
          obtain ⟨p, ⟨hp, _⟩, rfl⟩ := hx
          exact (hold o rfl).1.begins4 p hp
      obtain ⟨f1, f2, f3, f4, f5, f6, _⟩ := passFixed_spec fmt _ _ _ _ _ hfix
      have hpre : IsPrefix (oldRecBegins old) (consec (vars.filter (fun v => v.isRec)) (oldBeginRec old)) := by
        cases old with
        | none => exact isPrefix_nil _
        | some o => exact (hold o rfl).1.recPrefix
      have hle : oldBeginRec old ≤ recStart al beginRec0 endVar old := by
        cases old with
        | none => exact Nat.zero_le _
        | some o => exact r4 o rfl
      obtain ⟨p1, p2⟩ := passRec_spec fmt _ _ _ _ _ _ _ hrec hpre hle
      subst p1
      rw [Nat.zero_add] at p2
      subst p2
      have hlenR := mem_filter_len (p := fun v => v.isRec) hlen
      refine ⟨f4, f6 hob4, ⟨r2, consec_mod4 _ _ r2 (fun v hv => (hlenR v hv).1)⟩, ?_, ?_, rfl, ?_, ?_, r3, ?_⟩
      · -- fixedOk
        refine ⟨initExtent xsz vars.length al old, i1, ?_, f1, ?_⟩
        · intro hne
          apply i2
          cases vars with
          | nil => exact absurd rfl hne
          | cons a t => simp
        · rw [← f2]; exact r1
      · -- extent
        cases fb <;> rfl
      · -- recsize
        exact packRecsize_spec _ (fun v hv => (hlenR v hv).2)
      · -- alignVar
        intro hnone hne
        cases fb with
        | nil =>
          have : (vars.filter (fun v => !v.isRec)).length = 0 := by rw [← f4]; rfl
          exact absurd (List.eq_nil_of_length_eq_zero this) hne
        | cons b bs =>
          -- the first fixed variable begins at RNDUP(extent, 4) = extent
          subst hnone
          have hv : vars.length > 0 := by
            cases vars with
            | nil => simp at hne
            | cons a t => simp
          have hm := i4 rfl hv
          have hm4 : initExtent xsz vars.length al none % 4 = 0 := by
            have hd : 4 ∣ al.hAlign := Nat.dvd_of_mod_eq_zero hal.h4
            have hd2 : al.hAlign ∣ initExtent xsz vars.length al none := Nat.dvd_of_mod_eq_zero hm
            exact Nat.mod_eq_zero_of_dvd (Nat.dvd_trans hd hd2)
          have hb : b = initExtent xsz vars.length al none := by
            cases hvs : vars.filter (fun v => !v.isRec) with
            | nil => exact absurd hvs hne
            | cons v vs =>
              rw [hvs] at hfix
              simp only [passFixed, oldFixedBegins] at hfix
              split at hfix
              · contradiction
              · split at hfix
                · contradiction
                · simp only [Except.ok.injEq, Prod.mk.injEq, List.cons.injEq] at hfix
                  rw [← hfix.1.1]
                  exact rndup_id _ 4 (by omega) hm4
          show b % al.hAlign = 0
          rw [hb]; exact hm
      · -- monotone
        intro o ho
        subst ho
        refine ⟨?_, r4 o rfl, f3, ?_⟩
        · cases fb with
          | nil =>
            show o.beginVar ≤ recStart al beginRec0 endVar (some o)
            have := (hold o rfl).1.varLeRec
            have := r4 o rfl
            omega
          | cons b bs =>
            show o.beginVar ≤ b
            have := i3 o rfl
            cases hvs : vars.filter (fun v => !v.isRec) with
            | nil => rw [hvs] at f4; simp at f4
            | cons v vs =>
              rw [hvs] at f1
              have := f1.1
              omega
        · exact geOld_consec _ _ _ (r4 o rfl) _ (hold o rfl).1.recPrefix

end PnVerif.Layout

namespace PnVerif.Layout
open PnVerif.Spec PnVerif.Header

/-! ### redefinition histories: the well-formedness of one layout is what the next NC_begins needs -/

/-- ncp->old as the next NC_begins will see it (dup_NC of the header at ncmpi_redef) -/
def toOld (vars : List VarL) (L : Layout) : Old :=
  { beginVar := L.beginVar, beginRec := L.beginRec,
    vars := (vars.map (·.isRec)).zip (interleave vars L.fixedBegins L.recBegins) }

theorem toOld_filters : ∀ (vars : List VarL) (fb rb : List Nat),
    fb.length = (vars.filter (fun v => !v.isRec)).length → rb.length = (vars.filter (fun v => v.isRec)).length →
    ((((vars.map (·.isRec)).zip (interleave vars fb rb)).filter (fun p => !p.1)).map (·.2) = fb) ∧
    ((((vars.map (·.isRec)).zip (interleave vars fb rb)).filter (fun p => p.1)).map (·.2) = rb) ∧
    (∀ x ∈ interleave vars fb rb, x ∈ fb ∨ x ∈ rb) := by
  intro vars
  induction vars with
  | nil =>
    intro fb rb hf hr
    simp only [List.filter_nil, List.length_nil] at hf hr
    have h1 := List.eq_nil_of_length_eq_zero hf
    have h2 := List.eq_nil_of_length_eq_zero hr
    subst h1 h2
    simp [interleave]
  | cons v vs ih =>
    intro fb rb hf hr
    cases hv : v.isRec with
    | true =>
      simp only [List.filter_cons, hv, Bool.not_true, Bool.false_eq_true, if_false, if_true, List.length_cons] at hf hr
      cases rb with
      | nil => simp at hr
      | cons r rs =>
        simp only [List.length_cons, Nat.add_right_cancel_iff] at hr
        obtain ⟨i1, i2, i3⟩ := ih fb rs hf hr
        simp only [interleave, hv, if_true, List.map_cons, List.zip_cons_cons, List.filter_cons, Bool.not_true,
          Bool.false_eq_true, if_false, List.headD_cons, List.drop_succ_cons, List.drop_zero]
        refine ⟨i1, by simp [i2], ?_⟩
        intro x hx
        rcases List.mem_cons.mp hx with rfl | hx'
        · right; simp
        · rcases i3 x hx' with a | a
          · left; exact a
          · right; simp [a]
    | false =>
      simp only [List.filter_cons, hv, Bool.not_false, Bool.false_eq_true, if_false, if_true, List.length_cons] at hf hr
      cases fb with
      | nil => simp at hf
      | cons f fs =>
        simp only [List.length_cons, Nat.add_right_cancel_iff] at hf
        obtain ⟨i1, i2, i3⟩ := ih fs rb hf hr
        simp only [interleave, hv, Bool.false_eq_true, if_false, List.map_cons, List.zip_cons_cons, List.filter_cons,
          Bool.not_false, if_true, List.headD_cons, List.drop_succ_cons, List.drop_zero]
        refine ⟨by simp [i1], i2, ?_⟩
        intro x hx
        rcases List.mem_cons.mp hx with rfl | hx'
        · left; simp
        · rcases i3 x hx' with a | a
          · left; simp [a]
          · right; exact a

theorem consec_append_take (vs ws : List VarL) (b : Nat) : consec vs b = (consec (vs ++ ws) b).take vs.length := by
  induction vs generalizing b with
  | nil => simp [consec]
  | cons v vs ih => simp [consec, ← ih]

theorem chainOk_le_endOf : ∀ (vs : List VarL) (bs : List Nat) (e : Nat), chainOk vs bs e → e ≤ endOf vs bs e ∧
    ∀ b ∈ bs, b ≤ endOf vs bs e := by
  intro vs
  induction vs with
  | nil =>
    intro bs e h
    cases bs with
    | nil => exact ⟨Nat.le_refl _, fun b hb => by cases hb⟩
    | cons b bs => exact absurd h (by simp [chainOk])
  | cons v vs ih =>
    intro bs e h
    cases bs with
    | nil => exact absurd h (by simp [chainOk])
    | cons b bs =>
      simp only [chainOk] at h
      obtain ⟨i1, i2⟩ := ih bs (b + v.len) h.2
      simp only [endOf]
      refine ⟨by omega, ?_⟩
      intro x hx
      rcases List.mem_cons.mp hx with rfl | hx'
      · omega
      · exact i2 x hx'

/-- a well-formed layout is a valid `old` for the NC_begins of any later redefinition that appends
    variables -/
theorem wf_toOld (xsz : Nat) (vars extra : List VarL) (al : Align) (old : Option Old) (L : Layout)
    (hw : LayoutWF xsz vars al old L) : OldOk (vars ++ extra) (toOld vars L) := by
  have hr : L.recBegins.length = (vars.filter (fun v => v.isRec)).length := by
    rw [hw.recs, consec_length]
  obtain ⟨t1, t2, t3⟩ := toOld_filters vars L.fixedBegins L.recBegins hw.nFixed hr
  refine ⟨?_, hw.rec4.1, ?_, ?_⟩
  · intro p hp
    have : p.2 ∈ interleave vars L.fixedBegins L.recBegins := by
      simp only [toOld] at hp
      exact (List.of_mem_zip hp).2
    rcases t3 _ this with a | a
    · exact hw.fixed4 _ a
    · exact hw.rec4.2 _ a
  · show IsPrefix ((((vars.map (·.isRec)).zip (interleave vars L.fixedBegins L.recBegins)).filter (fun p => p.1)).map (·.2)) _
    rw [t2, hw.recs, List.filter_append]
    exact ⟨_, consec_append_take _ _ _⟩
  · show L.beginVar ≤ L.beginRec
    rw [hw.extent]
    obtain ⟨bv0, _, _, hc, he⟩ := hw.fixedOk
    cases hfb : L.fixedBegins with
    | nil => simp
    | cons b bs =>
      rw [hfb] at hc he
      have := (chainOk_le_endOf _ _ _ hc).2 b (by simp)
      simp only [List.headD_cons]
      omega

/-- one define phase of a history: the header size at its enddef, the variables it appends, the
    hints in force and the ncmpi__enddef arguments -/
structure Phase where
  xsz   : Nat
  extra : List VarL
  envH  : Nat
  envV  : Nat
  envR  : Nat
  hMin  : Nat
  argV  : Nat
  vMin  : Nat
  argR  : Nat

/-- what one enddef saw and produced -/
structure Step where
  xsz  : Nat
  vars : List VarL
  al   : Align
  old  : Option Old
  L    : Layout

/-- create, then any number of (define …, enddef, data mode, redef) rounds: the successive calls of
    NC_begins with the state the C carries from one to the next (variables only ever appended,
    ncp->begin_rec kept, ncp->old = the previous header, num_rec_vars = the previous count) -/
def runHistory (fmt : Fmt) : List VarL → Nat → Option Old → List Phase → Except Err (List Step)
  | _, _, _, [] => .ok []
  | vars, br0, old, p :: ps =>
    let vars' := vars ++ p.extra
    let staleRec := (vars.filter (fun v => v.isRec)).length
    let al := resolveAlign p.envH p.envV p.envR p.hMin p.argV p.vMin p.argR (vars'.length - staleRec) old.isSome
    match ncBegins fmt p.xsz vars' al br0 old with
    | .error e => .error e
    | .ok L =>
      match runHistory fmt vars' L.beginRec (some (toOld vars' L)) ps with
      | .error e => .error e
      | .ok rest => .ok ({ xsz := p.xsz, vars := vars', al := al, old := old, L := L } :: rest)

theorem runHistory_wf (fmt : Fmt) : ∀ (ps : List Phase) (vars : List VarL) (br0 : Nat) (old : Option Old) (steps : List Step),
    (∀ v ∈ vars, v.len % 4 = 0 ∧ 0 < v.len) → (∀ p ∈ ps, ∀ v ∈ p.extra, v.len % 4 = 0 ∧ 0 < v.len) →
    (∀ extra o, old = some o → OldOk (vars ++ extra) o ∧ br0 = o.beginRec) →
    runHistory fmt vars br0 old ps = .ok steps → ∀ s ∈ steps, LayoutWF s.xsz s.vars s.al s.old s.L := by
  intro ps
  induction ps with
  | nil =>
    intro vars br0 old steps _ _ _ h
    simp only [runHistory, Except.ok.injEq] at h
    subst h
    intro s hs; cases hs
  | cons p ps ih =>
    intro vars br0 old steps hv hp hold h
    simp only [runHistory] at h
    split at h
    · contradiction
    · rename_i L hL
      split at h
      · contradiction
      · rename_i rest hrest
        simp only [Except.ok.injEq] at h
        subst h
        have hv' : ∀ v ∈ vars ++ p.extra, v.len % 4 = 0 ∧ 0 < v.len := by
          intro v hm
          rcases List.mem_append.mp hm with a | a
          · exact hv v a
          · exact hp p (by simp) v a
        have hwf := ncBegins_wf fmt p.xsz (vars ++ p.extra) _ br0 old L (resolveAlign_ok _ _ _ _ _ _ _ _ _) hv'
          (fun o ho => hold p.extra o ho) hL
        intro s hs
        rcases List.mem_cons.mp hs with rfl | hs'
        · exact hwf
        · refine ih (vars ++ p.extra) L.beginRec _ rest hv' (fun q hq => hp q (by simp [hq])) ?_ hrest s hs'
          intro extra o ho
          simp only [Option.some.injEq] at ho
          subst ho
          exact ⟨wf_toOld p.xsz _ extra _ old L hwf, rfl⟩

end PnVerif.Layout

namespace PnVerif.Layout
open PnVerif.Spec PnVerif.Header

theorem prodR_pos_all (l : List Nat) (h : ∀ s ∈ l, s ≠ 0) : 0 < prodR l := by
  induction l with
  | nil => simp [prodR]
  | cons a t ih =>
    cases t with
    | nil => simp only [prodR]; have := h a (by simp); omega
    | cons b t' =>
      simp only [prodR]
      have h1 := ih (fun s hs => h s (by simp [hs]))
      have ha := h a (by simp)
      simp only [ha, ne_eq, not_false_eq_true, if_true]
      exact Nat.mul_pos (by omega) h1

theorem shapeProduct_pos (shape : List Nat) (h : ∀ s ∈ shape.drop 1, s ≠ 0) : 0 < shapeProduct shape := by
  unfold shapeProduct
  match shape, h with
  | [], _ => simp
  | [s0], _ => simp only; split <;> omega
  | a :: b :: t, h =>
    simp only [prodR]
    have h1 := prodR_pos_all (b :: t) (fun s hs => h s (by simpa using hs))
    refine Nat.mul_pos ?_ h1
    split <;> omega

/-- the shape loop of ncmpio_NC_var_shape64 only lets a zero (the record dimension) through at index 0 -/
theorem shapeOf_nonzero (dims : List Dim) : ∀ (ids : List Nat) (i : Nat) (sh : List Nat),
    shapeOf dims ids i = .ok sh → (i ≠ 0 → ∀ s ∈ sh, s ≠ 0) ∧ (∀ s ∈ sh.drop 1, s ≠ 0) := by
  intro ids
  induction ids with
  | nil =>
    intro i sh h
    simp only [shapeOf, Except.ok.injEq] at h
    subst h
    exact ⟨(fun _ s hs => by cases hs), (fun s hs => by cases hs)⟩
  | cons id ids ih =>
    intro i sh h
    simp only [shapeOf] at h
    split at h
    · contradiction
    · rename_i d hd
      split at h
      · contradiction
      · rename_i hz
        split at h
        · rename_i sh' hsh
          simp only [Except.ok.injEq] at h
          subst h
          obtain ⟨i1, _⟩ := ih (i + 1) sh' hsh
          have hall := i1 (by omega)
          refine ⟨?_, ?_⟩
          · intro hi s hs
            rcases List.mem_cons.mp hs with rfl | hs'
            · intro h0; exact hz ⟨h0, hi⟩
            · exact hall s hs'
          · intro s hs
            simp only [List.drop_succ_cons, List.drop_zero] at hs
            exact hall s hs
        · contradiction

/-- the variable lengths NC_begins works with (computed by ncmpio_NC_var_shape64) are positive
    multiples of 4 -/
theorem varShape64_len (dims : List Dim) (v : Var) (shape : List Nat) (len : Nat)
    (h : varShape64 dims v = .ok (shape, len)) : len % 4 = 0 ∧ 0 < len := by
  unfold varShape64 at h
  split at h
  · contradiction
  · rename_i sh hsh
    split at h
    · contradiction
    · simp only [Except.ok.injEq, Prod.mk.injEq] at h
      obtain ⟨rfl, rfl⟩ := h
      have hp := shapeProduct_pos sh (shapeOf_nonzero dims _ _ _ hsh).2
      have hs : 0 < v.xtype.size := by cases v.xtype <;> simp [NcType.size]
      have hm := Nat.mul_pos hp hs
      refine ⟨?_, ?_⟩
      · split <;> omega
      · split <;> omega

theorem varsOf_len (h : Hdr) (vars : List VarL) (hv : varsOf h = .ok vars) :
    ∀ v ∈ vars, v.len % 4 = 0 ∧ 0 < v.len := by
  unfold varsOf at hv
  have key : ∀ (l : List Var) (out : List VarL),
      l.mapM (fun v => match varShape64 h.dims v with
        | .error e => (.error e : Except Err VarL)
        | .ok (shape, len) => .ok { isRec := isRecShape shape, len := len, packed := dsizes0 shape * v.xtype.size }) = .ok out →
      ∀ v ∈ out, v.len % 4 = 0 ∧ 0 < v.len := by
    intro l
    induction l with
    | nil =>
      intro out ho
      simp only [List.mapM_nil, pure, Except.pure, Except.ok.injEq] at ho
      subst ho
      intro v hv; cases hv
    | cons a t ih =>
      intro out ho
      simp only [List.mapM_cons, bind, Except.bind] at ho
      split at ho
      · contradiction
      · rename_i x hx
        split at ho
        · contradiction
        · rename_i xs hxs
          simp only [pure, Except.pure, Except.ok.injEq] at ho
          subst ho
          intro v hv
          rcases List.mem_cons.mp hv with rfl | hv'
          · split at hx
            · contradiction
            · rename_i shape len hsl
              simp only [Except.ok.injEq] at hx
              subst hx
              exact varShape64_len h.dims a shape len hsl
          · exact ih xs hxs v hv'
  exact key h.vars vars hv

end PnVerif.Layout
