import PnVerif.Lemmas.LayoutLemmas
import PnVerif.Props.C06
/-
  Bridge C03 → C06: the facts about a pair (layout before redef, layout NC_begins computes at the
  enddef of the redefinition) that the data-moving code of ncmpio__enddef relies on are DERIVED from
  the model of NC_begins (Model/Layout.lean) instead of being assumed.

  `fixedMVars` pairs the old and the new begin of every fixed-size variable that existed before the
  redefinition; the lemmas below are about chains (`chainOk`), the first pass of NC_begins
  (`passFixed`) and the record size (`specRecsize`).
-/
namespace PnVerif.Layout
open PnVerif.Spec PnVerif.Header PnVerif.Redef

/-- (old begin, new begin, len) of the fixed-size variables `vs` that existed before the redefinition:
    `os` = their begins in the old header, `ns` = the begins NC_begins assigned now (a list that may
    be longer: variables appended in this define phase) -/
def fixedMVars : List VarL → List Nat → List Nat → List MVar
  | v :: vs, o :: os, n :: ns => ⟨o, n, v.len, false⟩ :: fixedMVars vs os ns
  | _, _, _ => []

theorem fixedMVars_isRec : ∀ (vs : List VarL) (os ns : List Nat), ∀ w ∈ fixedMVars vs os ns, w.isRec = false := by
  intro vs
  induction vs with
  | nil => intro os ns w hw; simp [fixedMVars] at hw
  | cons v vs ih =>
    intro os ns w hw
    cases os with
    | nil => simp [fixedMVars] at hw
    | cons o os =>
      cases ns with
      | nil => simp [fixedMVars] at hw
      | cons n ns =>
        simp only [fixedMVars, List.mem_cons] at hw
        rcases hw with rfl | hw
        · rfl
        · exact ih os ns w hw

theorem fixedMVars_length (vs : List VarL) : ∀ (os ns : List Nat), os.length = vs.length → vs.length ≤ ns.length →
    (fixedMVars vs os ns).length = vs.length := by
  induction vs with
  | nil => intro os ns _ _; simp [fixedMVars]
  | cons v vs ih =>
    intro os ns ho hn
    cases os with
    | nil => simp at ho
    | cons o os =>
      cases ns with
      | nil => simp at hn
      | cons n ns =>
        simp only [fixedMVars, List.length_cons] at *
        rw [ih os ns (by omega) (by omega)]

/-- old side: every paired variable lies inside the old chain -/
theorem chain_old_bounds : ∀ (vs : List VarL) (os ns : List Nat) (prev : Nat), chainOk vs os prev →
    ∀ w ∈ fixedMVars vs os ns, prev ≤ w.oldBegin ∧ w.oldBegin + w.len ≤ endOf vs os prev := by
  intro vs
  induction vs with
  | nil => intro os ns prev _ w hw; simp [fixedMVars] at hw
  | cons v vs ih =>
    intro os ns prev hc w hw
    cases os with
    | nil => simp [fixedMVars] at hw
    | cons o os =>
      cases ns with
      | nil => simp [fixedMVars] at hw
      | cons n ns =>
        simp only [chainOk] at hc
        simp only [fixedMVars, List.mem_cons] at hw
        simp only [endOf]
        have hle := (chainOk_le_endOf vs os (o + v.len) hc.2).1
        rcases hw with rfl | hw
        · exact ⟨hc.1, hle⟩
        · obtain ⟨a, b⟩ := ih os ns (o + v.len) hc.2 w hw
          exact ⟨by omega, b⟩

/-- new side: the old variables are an initial segment `vs` of the chain `vs ++ es` -/
theorem chain_new_bounds : ∀ (vs es : List VarL) (os ns : List Nat) (prev : Nat), chainOk (vs ++ es) ns prev →
    ∀ w ∈ fixedMVars vs os ns, prev ≤ w.newBegin ∧ w.newBegin + w.len ≤ endOf (vs ++ es) ns prev := by
  intro vs
  induction vs with
  | nil => intro es os ns prev _ w hw; simp [fixedMVars] at hw
  | cons v vs ih =>
    intro es os ns prev hc w hw
    cases os with
    | nil => simp [fixedMVars] at hw
    | cons o os =>
      cases ns with
      | nil => simp [fixedMVars] at hw
      | cons n ns =>
        simp only [List.cons_append, chainOk] at hc
        simp only [fixedMVars, List.mem_cons] at hw
        simp only [List.cons_append, endOf]
        have hle := (chainOk_le_endOf (vs ++ es) ns (n + v.len) hc.2).1
        rcases hw with rfl | hw
        · exact ⟨hc.1, hle⟩
        · obtain ⟨a, b⟩ := ih es os ns (n + v.len) hc.2 w hw
          exact ⟨by omega, b⟩

/-- `FixedOK` (what move_fixed_vars needs) follows from: both layouts are chains and nothing moved down -/
theorem fixedOK_of_chains : ∀ (vs es : List VarL) (os ns : List Nat) (po pn : Nat),
    chainOk vs os po → chainOk (vs ++ es) ns pn → geOld os ns →
    PnVerif.Props.C06.FixedOK (fixedMVars vs os ns) := by
  intro vs
  induction vs with
  | nil => intro es os ns po pn _ _ _; simp [fixedMVars, PnVerif.Props.C06.FixedOK]
  | cons v vs ih =>
    intro es os ns po pn hco hcn hge
    cases os with
    | nil => simp [fixedMVars, PnVerif.Props.C06.FixedOK]
    | cons o os =>
      cases ns with
      | nil => simp [fixedMVars, PnVerif.Props.C06.FixedOK]
      | cons n ns =>
        simp only [chainOk] at hco
        simp only [List.cons_append, chainOk] at hcn
        simp only [geOld] at hge
        simp only [fixedMVars, PnVerif.Props.C06.FixedOK]
        refine ⟨fun _ => ⟨hge.1, ?_⟩, ih es os ns _ _ hco.2 hcn.2 hge.2⟩
        intro w hw _
        exact ⟨(chain_old_bounds vs os ns _ hco.2 w hw).1, (chain_new_bounds vs es os ns _ hcn.2 w hw).1⟩

theorem rndup4_le_of_aligned (x y : Nat) (h : x ≤ y) (hy : y % 4 = 0) : rndup x 4 ≤ y := by
  have h1 := rndup_lt x 4 (by omega)
  have h2 := rndup_mod x 4
  omega

/-- the first pass of NC_begins keeps every old begin once the first one is kept: if the running end,
    rounded up, does not exceed the old begin of the next old variable, and the old begins are a
    4-aligned chain, then each old variable gets exactly its old begin -/
theorem passFixed_keeps (fmt : Fmt) : ∀ (vs es : List VarL) (os : List Nat) (e po : Nat) (bs : List Nat) (e' : Nat),
    passFixed fmt (vs ++ es) os e = .ok (bs, e') → chainOk vs os po → (∀ o ∈ os, o % 4 = 0) →
    (∀ o, os.head? = some o → rndup e 4 ≤ o) →
    ∀ w ∈ fixedMVars vs os bs, w.newBegin = w.oldBegin := by
  intro vs
  induction vs with
  | nil => intro es os e po bs e' _ _ _ _ w hw; simp [fixedMVars] at hw
  | cons v vs ih =>
    intro es os e po bs e' hp hc h4 hhead w hw
    cases os with
    | nil => simp [fixedMVars] at hw
    | cons o os =>
      simp only [List.cons_append, passFixed] at hp
      split at hp
      · contradiction
      · have hr : rndup e 4 ≤ o := hhead o rfl
        have hb : (if rndup e 4 < o then o else rndup e 4) = o := by
          split <;> omega
        simp only [hb, List.drop_succ_cons, List.drop_zero] at hp
        split at hp
        · contradiction
        · rename_i bs' e'' hrec
          simp only [Except.ok.injEq, Prod.mk.injEq] at hp
          obtain ⟨rfl, rfl⟩ := hp
          simp only [chainOk] at hc
          simp only [fixedMVars, List.mem_cons] at hw
          rcases hw with rfl | hw
          · rfl
          · refine ih es os (o + v.len) (o + v.len) bs' e'' hrec hc.2 (fun x hx => h4 x (List.mem_cons_of_mem _ hx)) ?_ w hw
            intro o2 ho2
            cases os with
            | nil => simp at ho2
            | cons o2' os' =>
              simp only [List.head?_cons, Option.some.injEq] at ho2
              subst ho2
              cases vs with
              | nil => simp [fixedMVars] at hw
              | cons v2 vs2 =>
                simp only [chainOk] at hc
                exact rndup4_le_of_aligned _ _ hc.2.1 (h4 o2' (by simp))

/-- the head of the result of the first pass, when the head old begin is reproduced, bounds the
    rounded-up initial extent -/
theorem passFixed_head (fmt : Fmt) (v : VarL) (vs : List VarL) (o : Nat) (os : List Nat) (e : Nat) (b : Nat) (bs : List Nat) (e' : Nat)
    (hp : passFixed fmt (v :: vs) (o :: os) e = .ok (b :: bs, e')) (hb : b ≤ o) : rndup e 4 ≤ o := by
  simp only [passFixed] at hp
  split at hp
  · contradiction
  · split at hp
    · contradiction
    · simp only [Except.ok.injEq, Prod.mk.injEq, List.cons.injEq] at hp
      obtain ⟨⟨rfl, _⟩, _⟩ := hp
      split at hb <;> omega

theorem sumLen_append (a b : List VarL) : sumLen (a ++ b) = sumLen a + sumLen b := by
  simp [sumLen, List.map_append, List.sum_append]

/-- appending record variables never shrinks the record size (needs packed ≤ padded length, which is
    how ncmpio_NC_var_shape64 computes `len`) -/
theorem specRecsize_mono (rs xs : List VarL) (hpk : ∀ v ∈ rs, v.packed ≤ v.len) :
    specRecsize rs ≤ specRecsize (rs ++ xs) := by
  cases rs with
  | nil => simp [specRecsize, sumLen]
  | cons v rs =>
    cases rs with
    | nil =>
      cases xs with
      | nil => simp
      | cons x xs =>
        have := hpk v (by simp)
        simp only [specRecsize, List.cons_append, List.nil_append, sumLen_cons]
        omega
    | cons w rs =>
      simp only [specRecsize, List.cons_append]
      have := sumLen_append (v :: w :: rs) xs
      simp only [List.cons_append] at this
      omega

theorem dsizes0_eq (shape : List Nat) : dsizes0 shape = shapeProduct shape := by
  cases shape with
  | nil => rfl
  | cons a t =>
    cases t with
    | nil => rfl
    | cons b u => rfl

/-- `len` of ncmpio_NC_var_shape64 is the unpadded size rounded up: the unpadded size of one record
    (`dsizes[0] * xsz`) never exceeds it -/
theorem varShape64_packed (dims : List Dim) (v : Var) (shape : List Nat) (len : Nat)
    (h : varShape64 dims v = .ok (shape, len)) : dsizes0 shape * v.xtype.size ≤ len := by
  unfold varShape64 at h
  split at h
  · contradiction
  · rename_i sh hsh
    split at h
    · contradiction
    · simp only [Except.ok.injEq, Prod.mk.injEq] at h
      obtain ⟨rfl, rfl⟩ := h
      rw [dsizes0_eq]
      split <;> omega

/-- the hypothesis `packed ≤ len` of `specRecsize_mono` / `redef_layout_ok` holds for every variable
    list computed from a schema by the model of ncmpio_NC_var_shape64 -/
theorem varsOf_packed (h : Hdr) (vars : List VarL) (hv : varsOf h = .ok vars) :
    ∀ v ∈ vars, v.packed ≤ v.len := by
  unfold varsOf at hv
  have key : ∀ (l : List Var) (out : List VarL),
      l.mapM (fun v => match varShape64 h.dims v with
        | .error e => (.error e : Except Err VarL)
        | .ok (shape, len) => .ok { isRec := isRecShape shape, len := len, packed := dsizes0 shape * v.xtype.size }) = .ok out →
      ∀ v ∈ out, v.packed ≤ v.len := by
    intro l
    induction l with
    | nil =>
      intro out ho
      simp only [List.mapM_nil, pure, Except.pure, Except.ok.injEq] at ho
      subst ho
      intro v hv; cases hv
    | cons a t ih =>
      intro out ho
      simp only [List.mapM_cons, bind, Except.bind] at ho
      split at ho
      · contradiction
      · rename_i x hx
        split at ho
        · contradiction
        · rename_i xs hxs
          simp only [pure, Except.pure, Except.ok.injEq] at ho
          subst ho
          intro v hv
          rcases List.mem_cons.mp hv with rfl | hv'
          · split at hx
            · contradiction
            · rename_i shape len hsl
              simp only [Except.ok.injEq] at hx
              subst hx
              exact varShape64_packed h.dims a shape len hsl
          · exact ih xs hxs v hv'
  exact key h.vars vars hv

end PnVerif.Layout
