import PnVerif.Lemmas.PostPass
/-
  Acceptance: every schema whose layout the specification allows (`Schema.LayoutValid`) passes the
  post-pass of ncmpio_hdr_get_NC (compute_var_shape, ncmpio_NC_check_vlens, ncmpio_NC_check_voffs).
-/
namespace PnVerif.Header
open PnVerif.Spec PnVerif.Layout

/-- the dimension length a variable's dimid stands for -/
def dimSize (dims : List Dim) (id : Nat) : Nat := (dims[id]?.map (·.size)).getD 0

theorem shapeOf_ok (dims : List Dim) : ∀ (ids : List Nat) (i : Nat),
    (∀ id ∈ ids, id < dims.length) →
    (∀ id ∈ (if i = 0 then ids.drop 1 else ids), dimSize dims id ≠ 0) →
    shapeOf dims ids i = .ok (ids.map (dimSize dims)) := by
  intro ids
  induction ids with
  | nil => intro i _ _; rfl
  | cons id ids ih =>
    intro i hr hz
    have hlt := hr id (by simp)
    have hget : dims[id]? = some dims[id] := List.getElem?_eq_getElem hlt
    simp only [shapeOf, hget]
    have hds : dimSize dims id = dims[id].size := by simp [dimSize, hget]
    have hnz : ¬ (dims[id].size = 0 ∧ i ≠ 0) := by
      intro ⟨h0, hi⟩
      have := hz id (by simp [hi])
      rw [hds] at this; exact this h0
    simp only [hnz, if_false]
    have ih' := ih (i + 1) (fun x hx => hr x (by simp [hx])) (by
      intro x hx
      simp only [Nat.add_eq_zero_iff, Nat.succ_ne_self, and_false, if_false] at hx
      apply hz x
      split
      · simpa using hx
      · simp [hx])
    rw [ih']
    simp [hds]

theorem isRecDim_eq (d : Schema) (id : Nat) (h : id < d.dims.length) :
    d.isRecDim id = (dimSize d.dims id == 0) := by
  have hget : d.dims[id]? = some d.dims[id] := List.getElem?_eq_getElem h
  simp [Schema.isRecDim, dimSize, hget]

/-- the shape the model computes, for a variable whose references are valid -/
def shapeS (d : Schema) (v : Var) : List Nat := v.dimids.map (dimSize d.dims)

theorem shapeOf_var (d : Schema) (v : Var)
    (hr : (∀ id ∈ v.dimids, id < d.dims.length) ∧ (∀ id ∈ v.dimids.drop 1, d.isRecDim id = false)) :
    shapeOf d.dims v.dimids 0 = .ok (shapeS d v) := by
  apply shapeOf_ok d.dims v.dimids 0 hr.1
  intro id hid
  simp only [if_true] at hid
  have hlt := hr.1 id (List.mem_of_mem_drop hid)
  have := hr.2 id hid
  rw [isRecDim_eq d id hlt] at this
  simpa using this

theorem isRecShape_eq (d : Schema) (v : Var) (hr : ∀ id ∈ v.dimids, id < d.dims.length) :
    isRecShape (shapeS d v) = d.isRecVar v := by
  unfold shapeS Schema.isRecVar
  cases hv : v.dimids with
  | nil => rfl
  | cons id ids =>
    simp only [List.map_cons, isRecShape]
    rw [isRecDim_eq d id (hr id (by simp [hv]))]

/-- the overflow-free size test never rejects a product that is within the limit -/
theorem checkVlenLoop_true (M : Nat) : ∀ (l : List Nat) (prod : Nat), 0 < prod → (∀ s ∈ l, s ≠ 0) →
    prod * l.foldr (· * ·) 1 ≤ M → checkVlenLoop M l prod = true := by
  intro l
  induction l with
  | nil => intro prod _ _ _; rfl
  | cons s t ih =>
    intro prod hp hnz hle
    simp only [List.foldr_cons] at hle
    have hs : 0 < s := Nat.pos_of_ne_zero (hnz s (by simp))
    have ht : 0 < t.foldr (· * ·) 1 := by
      have : ∀ (l : List Nat), (∀ x ∈ l, x ≠ 0) → 0 < l.foldr (· * ·) 1 := by
        intro l; induction l with
        | nil => intro _; simp
        | cons a b ihb =>
          intro h
          simp only [List.foldr_cons]
          exact Nat.mul_pos (Nat.pos_of_ne_zero (h a (by simp))) (ihb (fun x hx => h x (by simp [hx])))
      exact this t (fun x hx => hnz x (by simp [hx]))
    have h1 : prod * s ≤ M := by
      calc prod * s = prod * s * 1 := by rw [Nat.mul_one]
        _ ≤ prod * s * t.foldr (· * ·) 1 := Nat.mul_le_mul_left _ ht
        _ = prod * (s * t.foldr (· * ·) 1) := by rw [Nat.mul_assoc]
        _ ≤ M := hle
    have h2 : ¬ s > M / prod := by
      have : s ≤ M / prod := (Nat.le_div_iff_mul_le hp).mpr (by rw [Nat.mul_comm]; exact h1)
      omega
    have hp0 : ¬ prod = 0 := by omega
    simp only [checkVlenLoop, hp0, h2, if_false]
    exact ih (prod * s) (Nat.mul_pos hp hs) (fun x hx => hnz x (by simp [hx])) (by rw [Nat.mul_assoc]; exact hle)

end PnVerif.Header

namespace PnVerif.Header
open PnVerif.Spec PnVerif.Layout

theorem dimFactor_eq (d : Schema) (id : Nat) (h : id < d.dims.length) :
    d.dimFactor id = if dimSize d.dims id = 0 then 1 else dimSize d.dims id := by
  have hget : d.dims[id]? = some d.dims[id] := List.getElem?_eq_getElem h
  simp [Schema.dimFactor, dimSize, hget]

theorem foldr_factor (d : Schema) : ∀ (ids : List Nat), (∀ id ∈ ids, id < d.dims.length) →
    (∀ id ∈ ids, dimSize d.dims id ≠ 0) →
    (ids.map (dimSize d.dims)).foldr (· * ·) 1 = (ids.map d.dimFactor).foldr (· * ·) 1 := by
  intro ids
  induction ids with
  | nil => intro _ _; rfl
  | cons a t ih =>
    intro hr hz
    simp only [List.map_cons, List.foldr_cons]
    rw [ih (fun x hx => hr x (by simp [hx])) (fun x hx => hz x (by simp [hx])), dimFactor_eq d a (hr a (by simp))]
    simp [hz a (by simp)]

/-- the list ncmpio_NC_check_vlen multiplies, and its product -/
theorem vlen_list (d : Schema) (v : Var)
    (hr : (∀ id ∈ v.dimids, id < d.dims.length) ∧ (∀ id ∈ v.dimids.drop 1, d.isRecDim id = false)) :
    (∀ s ∈ (if isRecShape (shapeS d v) then (shapeS d v).drop 1 else shapeS d v), s ≠ 0) ∧
    (if isRecShape (shapeS d v) then (shapeS d v).drop 1 else shapeS d v).foldr (· * ·) 1 = d.nelems v := by
  have hz : ∀ id ∈ v.dimids.drop 1, dimSize d.dims id ≠ 0 := by
    intro id hid
    have hlt := hr.1 id (List.mem_of_mem_drop hid)
    have := hr.2 id hid
    rw [isRecDim_eq d id hlt] at this
    simpa using this
  unfold shapeS Schema.nelems
  cases hv : v.dimids with
  | nil => simp [isRecShape]
  | cons id ids =>
    rw [hv] at hz hr
    simp only [List.drop_succ_cons, List.drop_zero] at hz
    have hrin : ∀ x ∈ ids, x < d.dims.length := fun x hx => hr.1 x (by simp [hx])
    have hid := hr.1 id (by simp)
    simp only [List.map_cons, isRecShape]
    by_cases h0 : dimSize d.dims id = 0
    · simp only [h0, beq_self_eq_true, if_true, List.drop_succ_cons, List.drop_zero, List.foldr_cons]
      refine ⟨?_, ?_⟩
      · intro s hs
        obtain ⟨x, hx, rfl⟩ := List.mem_map.mp hs
        exact hz x hx
      · rw [foldr_factor d ids hrin hz, dimFactor_eq d id hid]; simp [h0]
    · have hb : (dimSize d.dims id == 0) = false := by simp [h0]
      simp only [hb, Bool.false_eq_true, if_false, List.foldr_cons]
      refine ⟨?_, ?_⟩
      · intro s hs
        rcases List.mem_cons.mp hs with rfl | hs'
        · exact h0
        · obtain ⟨x, hx, rfl⟩ := List.mem_map.mp hs'
          exact hz x hx
      · rw [foldr_factor d ids hrin hz, dimFactor_eq d id hid]; simp [h0]

theorem size_pos (t : NcType) : 0 < t.size := by cases t <;> simp [NcType.size]

theorem checkVlen_small (d : Schema) (v : Var) (M : Nat)
    (hr : (∀ id ∈ v.dimids, id < d.dims.length) ∧ (∀ id ∈ v.dimids.drop 1, d.isRecDim id = false))
    (hs : d.nelems v * v.xtype.size ≤ M) : checkVlen v.xtype.size (shapeS d v) M = true := by
  obtain ⟨h1, h2⟩ := vlen_list d v hr
  unfold checkVlen
  apply checkVlenLoop_true M _ _ (size_pos _) h1
  rw [h2, Nat.mul_comm]; exact hs

/-- ncmpio_NC_var_shape64 accepts every valid variable and computes the specified length -/
theorem varShape64_ok (d : Schema) (v : Var)
    (hr : (∀ id ∈ v.dimids, id < d.dims.length) ∧ (∀ id ∈ v.dimids.drop 1, d.isRecDim id = false))
    (hs : d.nelems v * v.xtype.size ≤ 2147483644) :
    varShape64 d.dims v = .ok (shapeS d v, d.varLen v) := by
  have hc := checkVlen_small d v (NC_MAX_INT64 - 3) hr (by unfold NC_MAX_INT64; omega)
  have h1 : ∃ len, varShape64 d.dims v = .ok (shapeS d v, len) := by
    unfold varShape64
    rw [shapeOf_var d v hr]
    simp only [hc, not_true_eq_false, if_false]
    exact ⟨_, rfl⟩
  obtain ⟨len, h1⟩ := h1
  rw [h1, varShape64_spec d v _ _ h1]

end PnVerif.Header

namespace PnVerif.Header
open PnVerif.Spec PnVerif.Layout

/-- a variable the specification's layout rules allow -/
def VarValid (d : Schema) (v : Var) : Prop :=
  ((∀ id ∈ v.dimids, id < d.dims.length) ∧ (∀ id ∈ v.dimids.drop 1, d.isRecDim id = false)) ∧
  d.nelems v * v.xtype.size ≤ 2147483644

def lastFixedEnd (d : Schema) : List Var → Nat → Nat
  | [], e => e
  | v :: vs, e => if d.isRecVar v then lastFixedEnd d vs e else lastFixedEnd d vs (v.begin + d.varLen v)

def firstOf (d : Schema) (wantRec : Bool) : List Var → Option Var
  | [] => none
  | v :: vs => if d.isRecVar v = wantRec then some v else firstOf d wantRec vs

def recLenSum (d : Schema) : List Var → Nat
  | [] => 0
  | v :: vs => (if d.isRecVar v then d.varLen v else 0) + recLenSum d vs

def recInfo (d : Schema) (v : Var) : Nat × Nat × Nat := (v.begin, d.varLen v, dsizes0 (shapeS d v) * v.xtype.size)

theorem cvsLoop_ok (d : Schema) : ∀ (vs : List Var) (st : CvsState), (∀ v ∈ vs, VarValid d v) →
    ∃ st', cvsLoop d.dims vs st = .ok st' ∧
      st'.beginRec = lastFixedEnd d vs st.beginRec ∧
      st'.recsize = st.recsize + recLenSum d vs ∧
      st'.firstVar = (match st.firstVar with | some x => some x | none => (firstOf d false vs).map (·.begin)) ∧
      st'.firstRec = (match st.firstRec with | some x => some x | none => (firstOf d true vs).map (recInfo d)) ∧
      st'.shapes = st.shapes ++ vs.map (shapeS d) ∧
      st'.lens = st.lens ++ vs.map d.varLen := by
  intro vs
  induction vs with
  | nil =>
    intro st _
    refine ⟨st, rfl, rfl, by simp [recLenSum], ?_, ?_, by simp, by simp⟩
    · cases st.firstVar <;> rfl
    · cases st.firstRec <;> rfl
  | cons v vs ih =>
    intro st hv
    have hvv := hv v (by simp)
    have hsh := varShape64_ok d v hvv.1 hvv.2
    have hrec := isRecShape_eq d v hvv.1.1
    simp only [cvsLoop, hsh]
    cases hr : d.isRecVar v with
    | true =>
      rw [hr] at hrec
      simp only [hrec, if_true]
      obtain ⟨st', h1, h2, h3, h4, h5, h6, h7⟩ := ih { st with shapes := st.shapes ++ [shapeS d v], lens := st.lens ++ [d.varLen v], firstRec := (match st.firstRec with | none => some (v.begin, d.varLen v, dsizes0 (shapeS d v) * v.xtype.size) | some x => some x), recsize := st.recsize + d.varLen v } (fun x hx => hv x (by simp [hx]))
      refine ⟨st', h1, ?_, ?_, ?_, ?_, ?_, ?_⟩
      · rw [h2]; simp [lastFixedEnd, hr]
      · rw [h3]; simp [recLenSum, hr]; omega
      · rw [h4]; simp only [firstOf, hr]
        cases st.firstVar <;> simp
      · rw [h5]; simp only [firstOf, hr]
        cases st.firstRec <;> simp [recInfo]
      · rw [h6]; simp
      · rw [h7]; simp
    | false =>
      rw [hr] at hrec
      simp only [hrec, Bool.false_eq_true, if_false]
      obtain ⟨st', h1, h2, h3, h4, h5, h6, h7⟩ := ih { st with shapes := st.shapes ++ [shapeS d v], lens := st.lens ++ [d.varLen v], firstVar := (match st.firstVar with | none => some v.begin | some x => some x), beginRec := v.begin + d.varLen v } (fun x hx => hv x (by simp [hx]))
      refine ⟨st', h1, ?_, ?_, ?_, ?_, ?_, ?_⟩
      · rw [h2]; simp [lastFixedEnd, hr]
      · rw [h3]; simp [recLenSum, hr]
      · rw [h4]; simp only [firstOf, hr]
        cases st.firstVar <;> simp
      · rw [h5]; simp only [firstOf, hr]
        cases st.firstRec <;> simp
      · rw [h6]; simp
      · rw [h7]; simp

end PnVerif.Header

namespace PnVerif.Header
open PnVerif.Spec PnVerif.Layout

theorem chain_mono (d : Schema) (w : Bool) : ∀ (vs : List Var) (prev e : Nat),
    d.chainFrom w vs prev = some e → prev ≤ e := by
  intro vs
  induction vs with
  | nil => intro prev e h; simp only [Schema.chainFrom, Option.some.injEq] at h; omega
  | cons v vs ih =>
    intro prev e h
    simp only [Schema.chainFrom] at h
    split at h
    · exact ih _ _ h
    · split at h
      · contradiction
      · have := ih _ _ h; omega

theorem chain_fixed (d : Schema) : ∀ (vs : List Var) (prev e : Nat), d.chainFrom false vs prev = some e →
    e = lastFixedEnd d vs prev ∧ (∀ f, firstOf d false vs = some f → prev ≤ f.begin ∧ f.begin ≤ e) := by
  intro vs
  induction vs with
  | nil =>
    intro prev e h
    simp only [Schema.chainFrom, Option.some.injEq] at h
    subst h
    exact ⟨rfl, fun f hf => by simp [firstOf] at hf⟩
  | cons v vs ih =>
    intro prev e h
    simp only [Schema.chainFrom] at h
    cases hr : d.isRecVar v with
    | true =>
      simp only [hr, bne_self_eq_false, Bool.true_bne, Bool.not_false, if_true] at h
      obtain ⟨i1, i2⟩ := ih _ _ h
      refine ⟨by simp [lastFixedEnd, hr, i1], ?_⟩
      intro f hf
      simp only [firstOf, hr, Bool.true_eq_false, if_false] at hf
      exact i2 f hf
    | false =>
      simp only [hr, bne_self_eq_false, Bool.false_eq_true, if_false] at h
      split at h
      · contradiction
      · rename_i hlt
        obtain ⟨i1, _⟩ := ih _ _ h
        have hm := chain_mono d false _ _ _ h
        refine ⟨by simp [lastFixedEnd, hr, i1], ?_⟩
        intro f hf
        simp only [firstOf, hr, if_true, Option.some.injEq] at hf
        subst hf
        omega

theorem chain_rec (d : Schema) : ∀ (vs : List Var) (prev e : Nat), d.chainFrom true vs prev = some e →
    ∀ r, firstOf d true vs = some r → prev ≤ r.begin := by
  intro vs
  induction vs with
  | nil => intro prev e _ r hr; simp [firstOf] at hr
  | cons v vs ih =>
    intro prev e h r hfr
    simp only [Schema.chainFrom] at h
    cases hr : d.isRecVar v with
    | true =>
      simp only [hr, bne_self_eq_false, Bool.false_eq_true, if_false] at h
      split at h
      · contradiction
      · simp only [firstOf, hr, if_true, Option.some.injEq] at hfr
        subst hfr
        omega
    | false =>
      simp only [hr, Bool.false_bne, if_true] at h
      simp only [firstOf, hr, Bool.false_eq_true, if_false] at hfr
      exact ih _ _ h r hfr

theorem firstOf_none_all (d : Schema) (w : Bool) : ∀ (vs : List Var), firstOf d w vs = none → ∀ v ∈ vs, d.isRecVar v = !w := by
  intro vs
  induction vs with
  | nil => intro _ v hv; cases hv
  | cons a t ih =>
    intro h v hv
    simp only [firstOf] at h
    split at h
    · contradiction
    · rename_i hne
      rcases List.mem_cons.mp hv with rfl | hv'
      · cases w <;> cases hx : d.isRecVar v <;> simp_all
      · exact ih h v hv'

theorem hdrLen_pos (d : Schema) : 0 < Hdr.len d := by
  unfold Hdr.len; simp only []; omega

end PnVerif.Header

namespace PnVerif.Header
open PnVerif.Spec PnVerif.Layout

/-- begin of the first variable of one kind, `x` if there is none -/
def firstBegin (d : Schema) (w : Bool) (vs : List Var) (x : Nat) : Nat :=
  ((firstOf d w vs).map (·.begin)).getD x

/-- restarting a chain at the begin of its first member changes nothing -/
theorem chain_restart (d : Schema) (w : Bool) : ∀ (vs : List Var) (prev e x : Nat), d.chainFrom w vs prev = some e →
    d.chainFrom w vs (firstBegin d w vs x) = some (if (firstOf d w vs).isSome then e else x) := by
  intro vs
  induction vs with
  | nil => intro prev e x _; simp [Schema.chainFrom, firstOf, firstBegin]
  | cons v vs ih =>
    intro prev e x h
    simp only [Schema.chainFrom] at h ⊢
    by_cases hq : d.isRecVar v = w
    · have hb : (d.isRecVar v != w) = false := by simp [hq]
      simp only [hb, Bool.false_eq_true, if_false] at h ⊢
      simp only [firstBegin, firstOf, hq, if_true, Option.map_some, Option.getD_some, Option.isSome_some]
      split at h
      · contradiction
      · simp only [Nat.lt_irrefl, if_false]; exact h
    · have hb : (d.isRecVar v != w) = true := by simp [hq]
      simp only [hb, if_true] at h ⊢
      have := ih _ _ x h
      simp only [firstBegin, firstOf, hq, if_false] at this ⊢
      exact this

/-- one pass of ncmpio_NC_check_voffs is the specification's chain test -/
theorem voffsPass_chain (d : Schema) (w : Bool) : ∀ (vs : List Var) (prev : Nat),
    voffsPass w (vs.map (fun v => (d.isRecVar v, v.begin, d.varLen v))) prev =
      (match d.chainFrom w vs prev with | some e => .ok e | none => .error .enotnc) := by
  intro vs
  induction vs with
  | nil => intro prev; rfl
  | cons v vs ih =>
    intro prev
    simp only [List.map_cons, voffsPass, Schema.chainFrom]
    by_cases hq : d.isRecVar v = w
    · have hb : (d.isRecVar v != w) = false := by simp [hq]
      have hn : ¬ d.isRecVar v ≠ w := by simp [hq]
      simp only [hb, hn, Bool.false_eq_true, if_false]
      split
      · rfl
      · exact ih _
    · have hb : (d.isRecVar v != w) = true := by simp [hq]
      have hn : d.isRecVar v ≠ w := hq
      simp only [hb, hn, ne_eq, not_false_eq_true, if_true]
      exact ih _

/-- with every variable within the size limit, neither pass of ncmpio_NC_check_vlens counts one -/
theorem vlensPass_none (ver M : Nat) (w : Bool) : ∀ (L : List (Nat × List Nat)) (last : Bool),
    (∀ p ∈ L, checkVlen p.1 p.2 M = true) → ∃ l, vlensPass ver M w L 0 last = .ok (0, l) := by
  intro L
  induction L with
  | nil => intro last _; exact ⟨last, rfl⟩
  | cons p t ih =>
    intro last h
    obtain ⟨xsz, shape⟩ := p
    simp only [vlensPass]
    split
    · exact ih last (fun q hq => h q (by simp [hq]))
    · have := h (xsz, shape) (by simp)
      simp only at this
      simp only [this, not_true_eq_false, if_false]
      exact ih false (fun q hq => h q (by simp [hq]))

theorem checkVlens_ok (d : Schema) (hv : ∀ v ∈ d.vars, VarValid d v) :
    checkVlens d.fmt.version ((d.vars.map (fun v => v.xtype.size)).zip (d.vars.map (shapeS d))) = .ok () := by
  have hM : ∀ M, 2147483644 ≤ M → ∀ p ∈ (d.vars.map (fun v => v.xtype.size)).zip (d.vars.map (shapeS d)), checkVlen p.1 p.2 M = true := by
    intro M hM p hp
    rw [List.zip_map'] at hp
    obtain ⟨v, hvm, rfl⟩ := List.mem_map.mp hp
    have := hv v hvm
    exact checkVlen_small d v M this.1 (by have := this.2; omega)
  unfold checkVlens
  split
  · rfl
  · have hmax : 2147483644 ≤ (if d.fmt.version ≥ 5 then NC_MAX_INT64 - 3 else if d.fmt.version = 2 then NC_MAX_UINT - 3 else NC_MAX_INT - 3) := by
      unfold NC_MAX_INT64 NC_MAX_UINT NC_MAX_INT; split <;> (try split) <;> omega
    simp only []
    obtain ⟨l1, h1⟩ := vlensPass_none d.fmt.version _ false _ false (hM _ hmax)
    obtain ⟨l2, h2⟩ := vlensPass_none d.fmt.version _ true _ false (hM _ hmax)
    rw [h1]
    simp only [Nat.lt_irrefl, if_false, Nat.zero_ne_one, false_and, gt_iff_lt, Nat.not_lt_zero]
    split
    · rfl
    · rw [h2]
      simp

end PnVerif.Header

namespace PnVerif.Header
open PnVerif.Spec PnVerif.Layout

theorem zip3_map (d : Schema) (vs : List Var) (hr : ∀ v ∈ vs, ∀ id ∈ v.dimids, id < d.dims.length) :
    ((vs.map (shapeS d)).map isRecShape).zip ((vs.map (fun v => v.begin)).zip (vs.map d.varLen)) =
      vs.map (fun v => (d.isRecVar v, v.begin, d.varLen v)) := by
  induction vs with
  | nil => rfl
  | cons v t ih =>
    simp only [List.map_cons, List.zip_cons_cons]
    rw [ih (fun x hx => hr x (by simp [hx])), isRecShape_eq d v (hr v (by simp))]

/-- Every schema whose layout the specification allows is accepted by the post-pass of
    ncmpio_hdr_get_NC: compute_var_shape, ncmpio_NC_check_vlens and ncmpio_NC_check_voffs all succeed. -/
theorem postPass_ok (d : Schema) (hv : d.LayoutValid (Hdr.len d)) : ∃ info, postPass d = .ok info := by
  obtain ⟨hrefs, hsmall, e, hf, e', hr⟩ := hv
  have hvalid : ∀ v ∈ d.vars, VarValid d v := fun v hm => ⟨hrefs v hm, hsmall v hm⟩
  by_cases hnil : d.vars = []
  · -- no variable: nothing is checked
    unfold postPass computeVarShape
    simp [hnil, checkVlens, checkVoffs]
  · have hlen : ¬ d.vars.length = 0 := fun h0 => hnil (List.eq_nil_of_length_eq_zero h0)
    obtain ⟨st, hst, s1, s2, s3, s4, s5, s6⟩ := cvsLoop_ok d d.vars
      { beginRec := Hdr.len d, recsize := 0, firstVar := none, firstRec := none, shapes := [], lens := [] } hvalid
    simp only [List.nil_append] at s3 s4 s5 s6
    obtain ⟨c1, c2⟩ := chain_fixed d _ _ _ hf
    have cm := chain_mono d false _ _ _ hf
    have cr := chain_rec d _ _ _ hr
    have hpos := hdrLen_pos d
    -- begin_rec and begin_var as compute_var_shape sets them
    have hbrdef : ∃ br, br = firstBegin d true d.vars e := ⟨_, rfl⟩
    obtain ⟨br, hbrdef⟩ := hbrdef
    have hbvdef : ∃ bv, bv = firstBegin d false d.vars br := ⟨_, rfl⟩
    obtain ⟨bv, hbvdef⟩ := hbvdef
    have hbr : e ≤ br := by
      rw [hbrdef]; unfold firstBegin
      cases hfr : firstOf d true d.vars with
      | none => simp
      | some r => simpa using cr r hfr
    have hbv : Hdr.len d ≤ bv ∧ bv ≤ br := by
      rw [hbvdef]; unfold firstBegin
      cases hff : firstOf d false d.vars with
      | none => simp; omega
      | some f => have := c2 f hff; simp; omega
    have hfin : ∃ rs, cvsFinish (Hdr.len d) st = .ok (bv, br, rs, d.vars.map (shapeS d), d.vars.map d.varLen) := by
      have hbv' : st.firstVar.getD br = bv := by rw [s3, hbvdef]; rfl
      unfold cvsFinish cvsRec
      rw [s4, s1, ← c1, s5, s6]
      cases hfr : firstOf d true d.vars with
      | none =>
        have hbre : br = e := by rw [hbrdef]; simp [firstBegin, hfr]
        simp only [Option.map_none]
        rw [← hbre, hbv']
        have : ¬ (bv ≤ 0 ∨ Hdr.len d > bv ∨ br ≤ 0 ∨ bv > br) := by omega
        simp only [this, if_false]
        exact ⟨_, rfl⟩
      | some r =>
        have hbre : br = r.begin := by rw [hbrdef]; simp [firstBegin, hfr]
        have hle : ¬ e > r.begin := by have := cr r hfr; omega
        simp only [Option.map_some, recInfo, hle, if_false]
        rw [← hbre, hbv']
        have : ¬ (bv ≤ 0 ∨ Hdr.len d > bv ∨ br ≤ 0 ∨ bv > br) := by omega
        simp only [this, if_false]
        exact ⟨_, rfl⟩
    obtain ⟨rs, hfin⟩ := hfin
    have hcvs : computeVarShape d (Hdr.len d) = .ok (bv, br, rs, d.vars.map (shapeS d), d.vars.map d.varLen) := by
      unfold computeVarShape
      simp only [hlen, if_false, hst, hfin]
    have hvl := checkVlens_ok d hvalid
    -- check_voffs
    have hz := zip3_map d d.vars (fun v hm => (hrefs v hm).1)
    have hfix := chain_restart d false d.vars _ e br hf
    have hrec := chain_restart d true d.vars _ e' e hr
    rw [← hbvdef] at hfix
    rw [← hbrdef] at hrec
    have hvo : checkVoffs bv br ((d.vars.map (shapeS d)).filter isRecShape).length
        (((d.vars.map (shapeS d)).map isRecShape).zip ((d.vars.map (fun v => v.begin)).zip (d.vars.map d.varLen))) = .ok () := by
      rw [hz]
      unfold checkVoffs
      simp only [List.length_map, hlen, if_false]
      rw [voffsPass_chain d false, voffsPass_chain d true, hfix, hrec]
      have hle : ¬ br < (if (firstOf d false d.vars).isSome then e else br) := by
        split <;> omega
      by_cases h1 : d.vars.length - ((d.vars.map (shapeS d)).filter isRecShape).length = 0 <;>
        by_cases h2 : ((d.vars.map (shapeS d)).filter isRecShape).length = 0 <;>
        simp [h1, h2, hle]
    refine ⟨{ xsz := Hdr.len d, beginVar := bv, beginRec := br, recsize := rs, numRecVars := ((d.vars.map (shapeS d)).filter isRecShape).length, shapes := d.vars.map (shapeS d), lens := d.vars.map d.varLen }, ?_⟩
    unfold postPass
    simp only [hcvs, hvl, hvo]

end PnVerif.Header
