import PnVerif.Lemmas.PostPass
/-
  Acceptance: every schema whose layout the specification allows (`Schema.LayoutValid`) passes the
  post-pass of ncmpio_hdr_get_NC (compute_var_shape, ncmpio_NC_check_vlens, ncmpio_NC_check_voffs).
-/
namespace PnVerif.Header
open PnVerif.Spec PnVerif.Layout

/-- the dimension length a variable's dimid stands for -/
def dimSize (dims : List Dim) (id : Nat) : Nat := (dims[id]?.map (·.size)).getD 0

theorem shapeOf_ok (dims : List Dim) : ∀ (ids : List Nat) (i : Nat),
    (∀ id ∈ ids, id < dims.length) →
    (∀ id ∈ (if i = 0 then ids.drop 1 else ids), dimSize dims id ≠ 0) →
    shapeOf dims ids i = .ok (ids.map (dimSize dims)) := by
  intro ids
  induction ids with
  | nil => intro i _ _; rfl
  | cons id ids ih =>
    intro i hr hz
    have hlt := hr id (by simp)
    have hget : dims[id]? = some dims[id] := List.getElem?_eq_getElem hlt
    simp only [shapeOf, hget]
    have hds : dimSize dims id = dims[id].size := by simp [dimSize, hget]
    have hnz : ¬ (dims[id].size = 0 ∧ i ≠ 0) := by
      intro ⟨h0, hi⟩
      have := hz id (by simp [hi])
      rw [hds] at this; exact this h0
    simp only [hnz, if_false]
    have ih' := ih (i + 1) (fun x hx => hr x (by simp [hx])) (by
      intro x hx
      simp only [Nat.add_eq_zero_iff, Nat.succ_ne_self, and_false, if_false] at hx
      apply hz x
      split
      · simpa using hx
      · simp [hx])
    rw [ih']
    simp [hds]

theorem isRecDim_eq (d : Schema) (id : Nat) (h : id < d.dims.length) :
    d.isRecDim id = (dimSize d.dims id == 0) := by
  have hget : d.dims[id]? = some d.dims[id] := List.getElem?_eq_getElem h
  simp [Schema.isRecDim, dimSize, hget]

/-- the shape the model computes, for a variable whose references are valid -/
def shapeS (d : Schema) (v : Var) : List Nat := v.dimids.map (dimSize d.dims)

theorem shapeOf_var (d : Schema) (v : Var)
    (hr : (∀ id ∈ v.dimids, id < d.dims.length) ∧ (∀ id ∈ v.dimids.drop 1, d.isRecDim id = false)) :
    shapeOf d.dims v.dimids 0 = .ok (shapeS d v) := by
  apply shapeOf_ok d.dims v.dimids 0 hr.1
  intro id hid
  simp only [if_true] at hid
  have hlt := hr.1 id (List.mem_of_mem_drop hid)
  have := hr.2 id hid
  rw [isRecDim_eq d id hlt] at this
  simpa using this

theorem isRecShape_eq (d : Schema) (v : Var) (hr : ∀ id ∈ v.dimids, id < d.dims.length) :
    isRecShape (shapeS d v) = d.isRecVar v := by
  unfold shapeS Schema.isRecVar
  cases hv : v.dimids with
  | nil => rfl
  | cons id ids =>
    simp only [List.map_cons, isRecShape]
    rw [isRecDim_eq d id (hr id (by simp [hv]))]

/-- the overflow-free size test never rejects a product that is within the limit -/
theorem checkVlenLoop_true (M : Nat) : ∀ (l : List Nat) (prod : Nat), 0 < prod → (∀ s ∈ l, s ≠ 0) →
    prod * l.foldr (· * ·) 1 ≤ M → checkVlenLoop M l prod = true := by
  intro l
  induction l with
  | nil => intro prod _ _ _; rfl
  | cons s t ih =>
    intro prod hp hnz hle
    simp only [List.foldr_cons] at hle
    have hs : 0 < s := Nat.pos_of_ne_zero (hnz s (by simp))
    have ht : 0 < t.foldr (· * ·) 1 := by
      have : ∀ (l : List Nat), (∀ x ∈ l, x ≠ 0) → 0 < l.foldr (· * ·) 1 := by
        intro l; induction l with
        | nil => intro _; simp
        | cons a b ihb =>
          intro h
          simp only [List.foldr_cons]
          exact Nat.mul_pos (Nat.pos_of_ne_zero (h a (by simp))) (ihb (fun x hx => h x (by simp [hx])))
      exact this t (fun x hx => hnz x (by simp [hx]))
    have h1 : prod * s ≤ M := by
      calc prod * s = prod * s * 1 := by rw [Nat.mul_one]
        _ ≤ prod * s * t.foldr (· * ·) 1 := Nat.mul_le_mul_left _ ht
        _ = prod * (s * t.foldr (· * ·) 1) := by rw [Nat.mul_assoc]
        _ ≤ M := hle
    have h2 : ¬ s > M / prod := by
      have : s ≤ M / prod := (Nat.le_div_iff_mul_le hp).mpr (by rw [Nat.mul_comm]; exact h1)
      omega
    have hp0 : ¬ prod = 0 := by omega
    simp only [checkVlenLoop, hp0, h2, if_false]
    exact ih (prod * s) (Nat.mul_pos hp hs) (fun x hx => hnz x (by simp [hx])) (by rw [Nat.mul_assoc]; exact hle)

end PnVerif.Header
