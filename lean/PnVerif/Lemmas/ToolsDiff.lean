import PnVerif.Model.Tools
/-
  Lemmas about the cdfdiff / ncmpidiff model (Model/Tools.lean, `toolDiff`).
-/
namespace PnVerif.Tools
open PnVerif.Spec PnVerif.Header

/-! ### sums and indexed maps -/

theorem sumNat_eq_zero (l : List Nat) : sumNat l = 0 ↔ ∀ x ∈ l, x = 0 := by
  induction l with
  | nil => simp [sumNat]
  | cons a t ih =>
    have : sumNat (a :: t) = a + sumNat t := rfl
    rw [this]
    constructor
    · intro h x hx
      have h1 : a = 0 := by omega
      have h2 : sumNat t = 0 := by omega
      rcases List.mem_cons.mp hx with rfl | hx
      · exact h1
      · exact ih.mp h2 x hx
    · intro h
      have h1 := h a (by simp)
      have h2 := ih.mpr (fun x hx => h x (by simp [hx]))
      omega

theorem imap_eq_map {α β : Type} (f : Nat → α → β) (g : α → β) (l : List α) (h : ∀ i x, x ∈ l → f i x = g x) :
    ∀ k, imap f l k = l.map g := by
  induction l with
  | nil => intro k; rfl
  | cons a t ih =>
    intro k
    simp only [imap, List.map_cons]
    rw [h k a (by simp), ih (fun i x hx => h i x (by simp [hx]))]

theorem b2n_eq_zero (b : Bool) : b2n b = 0 ↔ b = false := by
  cases b <;> simp [b2n]

/-! ### name lookup: with unique names the wrap-around search of cdfdiff finds what a plain search finds -/

/-- the names of a list are pairwise different -/
def UniqueNames {α : Type} (nameOf : α → Bytes) (xs : List α) : Prop := (xs.map nameOf).Nodup

theorem unique_of_names {α : Type} {nameOf : α → Bytes} {xs : List α} (h : UniqueNames nameOf xs) {x y : α}
    (hx : x ∈ xs) (hy : y ∈ xs) (hn : nameOf x = nameOf y) : x = y := by
  induction xs with
  | nil => cases hx
  | cons a t ih =>
    unfold UniqueNames at h ih
    simp only [List.map_cons, List.nodup_cons, List.mem_map, not_exists, not_and] at h
    rcases List.mem_cons.mp hx with rfl | hx' <;> rcases List.mem_cons.mp hy with rfl | hy'
    · rfl
    · exact absurd hn.symm (h.1 y hy')
    · exact absurd hn (h.1 x hx')
    · exact ih h.2 hx' hy'

theorem find_perm_unique {α : Type} (p : α → Bool) (xs ys : List α) (hm : ∀ x, x ∈ ys ↔ x ∈ xs)
    (hu : ∀ x y, x ∈ xs → y ∈ xs → p x = true → p y = true → x = y) : ys.find? p = xs.find? p := by
  cases hx : xs.find? p with
  | none =>
    rw [List.find?_eq_none] at hx ⊢
    intro y hy
    exact hx y ((hm y).mp hy)
  | some x =>
    have hxm := List.mem_of_find?_eq_some hx
    have hxp := List.find?_some hx
    cases hy : ys.find? p with
    | none =>
      rw [List.find?_eq_none] at hy
      exact absurd hxp (hy x ((hm x).mpr hxm))
    | some y =>
      have hym := List.mem_of_find?_eq_some hy
      have hyp := List.find?_some hy
      rw [hu y x ((hm y).mp hym) hxm hyp hxp]

theorem lookup_eq_find {α : Type} (cfg : DiffCfg) (nameOf : α → Bytes) (xs : List α) (i : Nat) (nm : Bytes)
    (hu : UniqueNames nameOf xs) : lookup cfg nameOf xs i nm = xs.find? (fun x => nameOf x == nm) := by
  unfold lookup
  split
  · unfold lookupFrom
    apply find_perm_unique
    · intro x
      rw [List.mem_append]
      constructor
      · rintro (h | h)
        · exact List.mem_of_mem_drop h
        · exact List.mem_of_mem_take h
      · intro h
        rw [← List.take_append_drop (i % xs.length) xs] at h
        rcases List.mem_append.mp h with h | h
        · exact Or.inr h
        · exact Or.inl h
    · intro x y hx hy hpx hpy
      apply unique_of_names hu hx hy
      rw [beq_iff_eq] at hpx hpy
      rw [hpx, hpy]
  · rfl

@[simp] theorem optCase_none {α β : Type} (n : β) (f : α → β) : optCase none n f = n := rfl
@[simp] theorem optCase_some {α β : Type} (y : α) (n : β) (f : α → β) : optCase (some y) n f = f y := rfl

def findBy {α : Type} (nameOf : α → Bytes) (xs : List α) (nm : Bytes) : Option α := xs.find? (fun x => nameOf x == nm)

theorem findBy_some {α : Type} {nameOf : α → Bytes} {xs : List α} {nm : Bytes} {x : α} (h : findBy nameOf xs nm = some x) :
    x ∈ xs ∧ nameOf x = nm := by
  unfold findBy at h
  exact ⟨List.mem_of_find?_eq_some h, by simpa using List.find?_some h⟩

theorem findBy_self {α : Type} {nameOf : α → Bytes} {xs : List α} (hu : UniqueNames nameOf xs) {x : α} (hx : x ∈ xs) :
    findBy nameOf xs (nameOf x) = some x := by
  cases h : findBy nameOf xs (nameOf x) with
  | none =>
    unfold findBy at h
    rw [List.find?_eq_none] at h
    exact absurd (by simp) (h x hx)
  | some y =>
    obtain ⟨hy, hn⟩ := findBy_some h
    rw [unique_of_names hu hy hx hn]

/-- the two loops "everything of A has a namesake in B that compares equal, everything of B has a namesake in A"
    count zero exactly when the two name-keyed tables agree -/
theorem keyed_zero_iff {α : Type} (nameOf : α → Bytes) (A B : List α) (d : α → α → Nat) (R : α → α → Prop)
    (hA : UniqueNames nameOf A) (hB : UniqueNames nameOf B)
    (hd : ∀ x ∈ A, ∀ y ∈ B, nameOf x = nameOf y → (d x y = 0 ↔ R x y)) :
    (sumNat (A.map (fun x => optCase (findBy nameOf B (nameOf x)) 1 (fun y => d x y))) +
     sumNat (B.map (fun y => optCase (findBy nameOf A (nameOf y)) 1 (fun _ => 0))) = 0)
    ↔ ((∀ nm, (findBy nameOf A nm).isSome = (findBy nameOf B nm).isSome) ∧
       ∀ nm x y, findBy nameOf A nm = some x → findBy nameOf B nm = some y → R x y) := by
  constructor
  · intro h
    have h1 : sumNat (A.map (fun x => optCase (findBy nameOf B (nameOf x)) 1 (fun y => d x y))) = 0 := by omega
    have h2 : sumNat (B.map (fun y => optCase (findBy nameOf A (nameOf y)) 1 (fun _ => 0))) = 0 := by omega
    rw [sumNat_eq_zero] at h1 h2
    have k1 : ∀ x ∈ A, ∃ y, findBy nameOf B (nameOf x) = some y ∧ d x y = 0 := by
      intro x hx
      have := h1 _ (List.mem_map.mpr ⟨x, hx, rfl⟩)
      cases hf : findBy nameOf B (nameOf x) with
      | none => rw [hf, optCase_none] at this; cases this
      | some y => rw [hf, optCase_some] at this; exact ⟨y, rfl, this⟩
    have k2 : ∀ y ∈ B, ∃ x, findBy nameOf A (nameOf y) = some x := by
      intro y hy
      have := h2 _ (List.mem_map.mpr ⟨y, hy, rfl⟩)
      cases hf : findBy nameOf A (nameOf y) with
      | none => rw [hf, optCase_none] at this; cases this
      | some x => exact ⟨x, rfl⟩
    constructor
    · intro nm
      cases ha : findBy nameOf A nm with
      | some x =>
        obtain ⟨hx, hn⟩ := findBy_some ha
        obtain ⟨y, hy, _⟩ := k1 x hx
        rw [hn] at hy; rw [hy]; rfl
      | none =>
        cases hb : findBy nameOf B nm with
        | none => rfl
        | some y =>
          obtain ⟨hy, hn⟩ := findBy_some hb
          obtain ⟨x, hx⟩ := k2 y hy
          rw [hn, ha] at hx; cases hx
    · intro nm x y ha hb
      obtain ⟨hx, hn⟩ := findBy_some ha
      obtain ⟨hy, hn'⟩ := findBy_some hb
      obtain ⟨y', hy', hd0⟩ := k1 x hx
      rw [hn, hb] at hy'
      cases hy'
      exact (hd x hx y hy (by rw [hn, hn'])).mp hd0
  · intro ⟨hs, hr⟩
    have h1 : sumNat (A.map (fun x => optCase (findBy nameOf B (nameOf x)) 1 (fun y => d x y))) = 0 := by
      rw [sumNat_eq_zero]
      intro t ht
      obtain ⟨x, hx, rfl⟩ := List.mem_map.mp ht
      have ha := findBy_self hA hx
      have := hs (nameOf x)
      rw [ha] at this
      cases hb : findBy nameOf B (nameOf x) with
      | none => rw [hb] at this; cases this
      | some y =>
        rw [optCase_some]
        obtain ⟨hy, hn⟩ := findBy_some hb
        exact (hd x hx y hy hn.symm).mpr (hr _ x y ha hb)
    have h2 : sumNat (B.map (fun y => optCase (findBy nameOf A (nameOf y)) 1 (fun _ => 0))) = 0 := by
      rw [sumNat_eq_zero]
      intro t ht
      obtain ⟨y, hy, rfl⟩ := List.mem_map.mp ht
      have hb := findBy_self hB hy
      have := hs (nameOf y)
      rw [hb] at this
      cases ha : findBy nameOf A (nameOf y) with
      | none => rw [ha] at this; cases this
      | some x => rfl
    omega

theorem keyed_rel_of_zero {α : Type} (nameOf : α → Bytes) (A B : List α) (d : α → α → Nat) (R : α → α → Prop)
    (hd : ∀ x ∈ A, ∀ y ∈ B, nameOf x = nameOf y → d x y = 0 → R x y)
    (h : sumNat (A.map (fun x => optCase (findBy nameOf B (nameOf x)) 1 (fun y => d x y))) +
     sumNat (B.map (fun y => optCase (findBy nameOf A (nameOf y)) 1 (fun _ => 0))) = 0) :
    (∀ nm, (findBy nameOf A nm).isSome = (findBy nameOf B nm).isSome) ∧
       ∀ nm x y, findBy nameOf A nm = some x → findBy nameOf B nm = some y → R x y := by
  have h1 : sumNat (A.map (fun x => optCase (findBy nameOf B (nameOf x)) 1 (fun y => d x y))) = 0 := by omega
  have h2 : sumNat (B.map (fun y => optCase (findBy nameOf A (nameOf y)) 1 (fun _ => 0))) = 0 := by omega
  rw [sumNat_eq_zero] at h1 h2
  have k1 : ∀ x ∈ A, ∃ y, findBy nameOf B (nameOf x) = some y ∧ d x y = 0 := by
    intro x hx
    have := h1 _ (List.mem_map.mpr ⟨x, hx, rfl⟩)
    cases hf : findBy nameOf B (nameOf x) with
    | none => rw [hf, optCase_none] at this; cases this
    | some y => rw [hf, optCase_some] at this; exact ⟨y, rfl, this⟩
  have k2 : ∀ y ∈ B, ∃ x, findBy nameOf A (nameOf y) = some x := by
    intro y hy
    have := h2 _ (List.mem_map.mpr ⟨y, hy, rfl⟩)
    cases hf : findBy nameOf A (nameOf y) with
    | none => rw [hf, optCase_none] at this; cases this
    | some x => exact ⟨x, rfl⟩
  constructor
  · intro nm
    cases ha : findBy nameOf A nm with
    | some x =>
      obtain ⟨hx, hn⟩ := findBy_some ha
      obtain ⟨y, hy, _⟩ := k1 x hx
      rw [hn] at hy; rw [hy]; rfl
    | none =>
      cases hb : findBy nameOf B nm with
      | none => rfl
      | some y =>
        obtain ⟨hy, hn⟩ := findBy_some hb
        obtain ⟨x, hx⟩ := k2 y hy
        rw [hn, ha] at hx; cases hx
  · intro nm x y ha hb
    obtain ⟨hx, hn⟩ := findBy_some ha
    obtain ⟨hy, hn'⟩ := findBy_some hb
    obtain ⟨y', hy', hd0⟩ := k1 x hx
    rw [hn, hb] at hy'
    cases hy'
    exact hd x hx y hy (by rw [hn, hn']) hd0

/-- one direction with a one-directional comparison (ncmpidiff's comparison of NC_BYTE values answers "same" for
    anything) -/
theorem keyed_zero_of_rel {α : Type} (nameOf : α → Bytes) (A B : List α) (d : α → α → Nat) (R : α → α → Prop)
    (hA : UniqueNames nameOf A) (hB : UniqueNames nameOf B)
    (hd : ∀ x ∈ A, ∀ y ∈ B, nameOf x = nameOf y → R x y → d x y = 0)
    (hs : ∀ nm, (findBy nameOf A nm).isSome = (findBy nameOf B nm).isSome)
    (hr : ∀ nm x y, findBy nameOf A nm = some x → findBy nameOf B nm = some y → R x y) :
    sumNat (A.map (fun x => optCase (findBy nameOf B (nameOf x)) 1 (fun y => d x y))) +
     sumNat (B.map (fun y => optCase (findBy nameOf A (nameOf y)) 1 (fun _ => 0))) = 0 := by
  have h1 : sumNat (A.map (fun x => optCase (findBy nameOf B (nameOf x)) 1 (fun y => d x y))) = 0 := by
    rw [sumNat_eq_zero]
    intro t ht
    obtain ⟨x, hx, rfl⟩ := List.mem_map.mp ht
    have ha := findBy_self hA hx
    have := hs (nameOf x)
    rw [ha] at this
    cases hb : findBy nameOf B (nameOf x) with
    | none => rw [hb] at this; cases this
    | some y =>
      rw [optCase_some]
      obtain ⟨hy, hn⟩ := findBy_some hb
      exact hd x hx y hy hn.symm (hr _ x y ha hb)
  have h2 : sumNat (B.map (fun y => optCase (findBy nameOf A (nameOf y)) 1 (fun _ => 0))) = 0 := by
    rw [sumNat_eq_zero]
    intro t ht
    obtain ⟨y, hy, rfl⟩ := List.mem_map.mp ht
    have hb := findBy_self hB hy
    have := hs (nameOf y)
    rw [hb] at this
    cases ha : findBy nameOf A (nameOf y) with
    | none => rw [ha] at this; cases this
    | some x => rfl
  omega

/-- when the relation is equality the two tables are the same function -/
theorem keyed_eq_iff {α : Type} (nameOf : α → Bytes) (A B : List α) :
    ((∀ nm, (findBy nameOf A nm).isSome = (findBy nameOf B nm).isSome) ∧
       ∀ nm x y, findBy nameOf A nm = some x → findBy nameOf B nm = some y → x = y)
    ↔ ∀ nm, findBy nameOf A nm = findBy nameOf B nm := by
  constructor
  · intro ⟨hs, hr⟩ nm
    have := hs nm
    cases ha : findBy nameOf A nm with
    | none =>
      rw [ha] at this
      cases hb : findBy nameOf B nm with
      | none => rfl
      | some y => rw [hb] at this; cases this
    | some x =>
      rw [ha] at this
      cases hb : findBy nameOf B nm with
      | none => rw [hb] at this; cases this
      | some y => rw [hr nm x y ha hb]
  · intro h
    refine ⟨fun nm => by rw [h nm], fun nm x y ha hb => ?_⟩
    rw [h nm, hb] at ha
    cases ha; rfl

/-! ### attributes -/

/-- attribute lists as every reader produces them: unique names, `nelems` values stored -/
def AttsWF (A : List Att) : Prop :=
  UniqueNames (fun x : Att => x.name) A ∧ ∀ x ∈ A, x.xvalue.length = x.nelems * x.xtype.size

/-- ncmpidiff never looks at NC_BYTE values -/
def NoByteAtts (cfg : DiffCfg) (A : List Att) : Prop := cfg.skipByte = true → ∀ x ∈ A, x.xtype ≠ .byte

theorem attsDiff_eq (cfg : DiffCfg) (A B : List Att) (hA : UniqueNames (fun x : Att => x.name) A)
    (hB : UniqueNames (fun x : Att => x.name) B) :
    attsDiff cfg A B =
      sumNat (A.map (fun x => optCase (findBy (fun x : Att => x.name) B x.name) 1 (fun y => attDiff cfg x y))) +
      sumNat (B.map (fun y => optCase (findBy (fun x : Att => x.name) A y.name) 1 (fun _ => 0))) := by
  unfold attsDiff
  rw [imap_eq_map _ (fun x => optCase (findBy (fun x : Att => x.name) B x.name) 1 (fun y => attDiff cfg x y)) A
        (fun i x _ => by rw [lookup_eq_find cfg _ B i x.name hB]; rfl) 0,
      imap_eq_map _ (fun y => optCase (findBy (fun x : Att => x.name) A y.name) 1 (fun _ => 0)) B
        (fun i y _ => by rw [lookup_eq_find cfg _ A i y.name hA]; rfl) 0]

theorem attDiff_self (cfg : DiffCfg) (x : Att) : attDiff cfg x x = 0 := by
  unfold attDiff
  simp [b2n]

theorem attDiff_zero (cfg : DiffCfg) (x y : Att) (hn : x.name = y.name)
    (hx : x.xvalue.length = x.nelems * x.xtype.size) (hy : y.xvalue.length = y.nelems * y.xtype.size)
    (hb : cfg.skipByte = true → x.xtype ≠ .byte) (h : attDiff cfg x y = 0) : x = y := by
  unfold attDiff at h
  by_cases c1 : x.xtype ≠ y.xtype
  · rw [if_pos c1] at h; cases h
  · rw [if_neg c1] at h
    by_cases c2 : x.nelems ≠ y.nelems
    · rw [if_pos c2] at h; cases h
    · rw [if_neg c2] at h
      have c1' : x.xtype = y.xtype := by simpa using c1
      have c2' : x.nelems = y.nelems := by omega
      have c3 : ¬ (cfg.skipByte = true ∧ x.xtype = .byte) := fun ⟨a, b⟩ => hb a b
      rw [if_neg c3, b2n_eq_zero] at h
      have hv : x.xvalue.take (x.nelems * x.xtype.size) = y.xvalue.take (x.nelems * x.xtype.size) := by simpa using h
      rw [List.take_of_length_le (by omega), List.take_of_length_le (by rw [hy, c1', c2']; omega)] at hv
      cases x; cases y
      simp only [] at hn c1' c2' hv
      subst hn c1' c2' hv
      rfl

theorem atts_zero_of_eq (cfg : DiffCfg) (A B : List Att) (hA : UniqueNames (fun x : Att => x.name) A)
    (hB : UniqueNames (fun x : Att => x.name) B) (h : ∀ nm, findAtt A nm = findAtt B nm) : attsDiff cfg A B = 0 := by
  rw [attsDiff_eq cfg A B hA hB]
  have h' := (keyed_eq_iff (fun x : Att => x.name) A B).mpr h
  exact keyed_zero_of_rel _ A B (attDiff cfg) Eq hA hB (fun x _ y _ _ hxy => by subst hxy; exact attDiff_self cfg x) h'.1 h'.2

theorem atts_eq_of_zero (cfg : DiffCfg) (A B : List Att) (hA : AttsWF A) (hB : AttsWF B) (hb : NoByteAtts cfg A)
    (h : attsDiff cfg A B = 0) : ∀ nm, findAtt A nm = findAtt B nm := by
  rw [attsDiff_eq cfg A B hA.1 hB.1] at h
  apply (keyed_eq_iff (fun x : Att => x.name) A B).mp
  exact (keyed_zero_iff _ A B (attDiff cfg) Eq hA.1 hB.1 (fun x hx y hy hn =>
    ⟨attDiff_zero cfg x y hn (hA.2 x hx) (hB.2 y hy) (fun hs => hb hs x hx), fun hxy => by subst hxy; exact attDiff_self cfg x⟩)).mp h

/-! ### dimensions -/

theorem dimsDiff_eq (cfg : DiffCfg) (a b : LFile) (hA : UniqueNames (fun x : Dim => x.name) a.dims)
    (hB : UniqueNames (fun x : Dim => x.name) b.dims) (hpos : a.dims.length > 0 ∧ b.dims.length > 0) :
    dimsDiff cfg a b =
      sumNat (a.dims.map (fun x => optCase (findBy (fun x : Dim => x.name) b.dims x.name) 1
                (fun y => b2n (dimLen cfg a.numrecs x.size ≠ dimLen cfg b.numrecs y.size)))) +
      sumNat (b.dims.map (fun y => optCase (findBy (fun x : Dim => x.name) a.dims y.name) 1 (fun _ => 0))) := by
  unfold dimsDiff
  rw [if_pos hpos]
  rw [imap_eq_map _ (fun x => optCase (findBy (fun x : Dim => x.name) b.dims x.name) 1
          (fun y => b2n (dimLen cfg a.numrecs x.size ≠ dimLen cfg b.numrecs y.size))) a.dims
        (fun i x _ => by rw [lookup_eq_find cfg _ b.dims i x.name hB]; rfl) 0,
      imap_eq_map _ (fun y => optCase (findBy (fun x : Dim => x.name) a.dims y.name) 1 (fun _ => 0)) b.dims
        (fun i y _ => by rw [lookup_eq_find cfg _ a.dims i y.name hA]; rfl) 0]

theorem dim_ext {x y : Dim} (h1 : x.name = y.name) (h2 : x.size = y.size) : x = y := by
  cases x; cases y; simp only [] at h1 h2; subst h1 h2; rfl

theorem dims_zero_of_eq (cfg : DiffCfg) (a b : LFile) (hA : UniqueNames (fun x : Dim => x.name) a.dims)
    (hB : UniqueNames (fun x : Dim => x.name) b.dims) (hn : a.numrecs = b.numrecs)
    (h : ∀ nm, findDim a.dims nm = findDim b.dims nm) : dimsDiff cfg a b = 0 := by
  by_cases hpos : a.dims.length > 0 ∧ b.dims.length > 0
  · rw [dimsDiff_eq cfg a b hA hB hpos]
    have h' := (keyed_eq_iff (fun x : Dim => x.name) a.dims b.dims).mpr h
    exact keyed_zero_of_rel _ a.dims b.dims _ Eq hA hB
      (fun x _ y _ _ hxy => by subst hxy; rw [hn]; simp [b2n]) h'.1 h'.2
  · unfold dimsDiff; rw [if_neg hpos]

theorem dims_eq_of_zero (cfg : DiffCfg) (a b : LFile) (hA : UniqueNames (fun x : Dim => x.name) a.dims)
    (hB : UniqueNames (fun x : Dim => x.name) b.dims) (hlen : a.dims.length = b.dims.length)
    (hag : ∀ x ∈ a.dims, ∀ y ∈ b.dims, x.name = y.name →
      dimLen cfg a.numrecs x.size = dimLen cfg b.numrecs y.size → x.size = y.size)
    (h : dimsDiff cfg a b = 0) : ∀ nm, findDim a.dims nm = findDim b.dims nm := by
  by_cases hpos : a.dims.length > 0 ∧ b.dims.length > 0
  · rw [dimsDiff_eq cfg a b hA hB hpos] at h
    apply (keyed_eq_iff (fun x : Dim => x.name) a.dims b.dims).mp
    exact keyed_rel_of_zero _ a.dims b.dims _ Eq
      (fun x hx y hy hn hd => dim_ext hn (hag x hx y hy hn (by rw [b2n_eq_zero] at hd; simpa using hd))) h
  · have ha : a.dims = [] := by
      cases hd : a.dims with
      | nil => rfl
      | cons x t => rw [hd] at hpos hlen; simp only [List.length_cons] at hpos hlen; omega
    have hb : b.dims = [] := by
      cases hd : b.dims with
      | nil => rfl
      | cons x t => rw [hd, ha] at hlen; simp at hlen
    intro nm; rw [ha, hb]

/-! ### variables: metadata -/

/-- the header part of `LVarEq` -/
structure LVarMetaEq (v w : LVar) : Prop where
  xtype : v.xtype = w.xtype
  dims  : v.dims = w.dims
  natts : v.atts.length = w.atts.length
  atts  : ∀ nm, findAtt v.atts nm = findAtt w.atts nm

theorem varDimsDiff_self (cfg : DiffCfg) (n : Nat) : ∀ ds : List LDim, varDimsDiff cfg n n ds ds = 0 := by
  intro ds
  induction ds with
  | nil => rfl
  | cons d t ih => simp [varDimsDiff, b2n, ih]

theorem ldim_ext {x y : LDim} (h1 : x.name = y.name) (h2 : x.size = y.size) : x = y := by
  cases x; cases y; simp only [] at h1 h2; subst h1 h2; rfl

theorem varDims_eq_of_zero (cfg : DiffCfg) (na nb : Nat) : ∀ (ds es : List LDim), ds.length = es.length →
    (∀ p ∈ ds.zip es, p.1.name = p.2.name → dimLen cfg na p.1.size = dimLen cfg nb p.2.size → p.1.size = p.2.size) →
    varDimsDiff cfg na nb ds es = 0 → ds = es := by
  intro ds
  induction ds with
  | nil => intro es hl _ _; cases es with | nil => rfl | cons _ _ => cases hl
  | cons d t ih =>
    intro es hl hag h
    cases es with
    | nil => cases hl
    | cons e u =>
      simp only [varDimsDiff] at h
      have h1 : b2n (decide (d.name ≠ e.name)) = 0 := by omega
      have h2 : b2n (decide (dimLen cfg na d.size ≠ dimLen cfg nb e.size)) = 0 := by omega
      have h3 : varDimsDiff cfg na nb t u = 0 := by omega
      rw [b2n_eq_zero] at h1 h2
      have hn : d.name = e.name := by simpa using h1
      have hs : d.size = e.size := hag (d, e) (by simp) hn (by simpa using h2)
      rw [ldim_ext hn hs, ih u (by simpa using hl) (fun p hp => hag p (by simp [hp])) h3]

theorem varMeta_zero_of (cfg : DiffCfg) (n : Nat) (v w : LVar) (hv : UniqueNames (fun x : Att => x.name) v.atts)
    (hw : UniqueNames (fun x : Att => x.name) w.atts) (h : LVarMetaEq v w) : varMetaDiff cfg n n v w = 0 := by
  unfold varMetaDiff
  have h1 : b2n (decide (v.xtype ≠ w.xtype)) = 0 := by rw [b2n_eq_zero]; simp [h.xtype]
  have h2 : (if v.dims.length ≠ w.dims.length then 1 else varDimsDiff cfg n n v.dims w.dims) = 0 := by
    rw [h.dims]; simp [varDimsDiff_self]
  have h3 : b2n (decide (v.atts.length ≠ w.atts.length)) = 0 := by rw [b2n_eq_zero]; simp [h.natts]
  have h4 := atts_zero_of_eq cfg v.atts w.atts hv hw h.atts
  omega

theorem varMeta_of_zero (cfg : DiffCfg) (na nb : Nat) (v w : LVar) (hv : AttsWF v.atts) (hw : AttsWF w.atts)
    (hb : NoByteAtts cfg v.atts)
    (hag : ∀ p ∈ v.dims.zip w.dims, p.1.name = p.2.name → dimLen cfg na p.1.size = dimLen cfg nb p.2.size → p.1.size = p.2.size)
    (h : varMetaDiff cfg na nb v w = 0) : LVarMetaEq v w := by
  unfold varMetaDiff at h
  have h1 : b2n (decide (v.xtype ≠ w.xtype)) = 0 := by omega
  have h2 : (if v.dims.length ≠ w.dims.length then 1 else varDimsDiff cfg na nb v.dims w.dims) = 0 := by omega
  have h3 : b2n (decide (v.atts.length ≠ w.atts.length)) = 0 := by omega
  have h4 : attsDiff cfg v.atts w.atts = 0 := by omega
  rw [b2n_eq_zero] at h1 h3
  by_cases hl : v.dims.length ≠ w.dims.length
  · rw [if_pos hl] at h2; cases h2
  · rw [if_neg hl] at h2
    exact ⟨by simpa using h1, varDims_eq_of_zero cfg na nb v.dims w.dims (by omega) hag h2, by simpa using h3,
      atts_eq_of_zero cfg v.atts w.atts hv hw hb h4⟩

/-! ### whole files -/

/-- files as every reader produces them: unique names in every name space, attribute values of the stated length -/
structure LWF (a : LFile) : Prop where
  dimNames : UniqueNames (fun x : Dim => x.name) a.dims
  gatts    : AttsWF a.gatts
  varNames : UniqueNames (fun x : LVar => x.name) a.vars
  vatts    : ∀ v ∈ a.vars, AttsWF v.atts

/-- nothing of type NC_BYTE in the first file (what ncmpidiff never compares) -/
structure NoByte (cfg : DiffCfg) (a : LFile) : Prop where
  gatts : NoByteAtts cfg a.gatts
  vars  : ∀ v ∈ a.vars, (cfg.skipByte = true → v.xtype ≠ .byte) ∧ NoByteAtts cfg v.atts

/-- the tool's view of dimension lengths separates what it must separate: two same-named dimensions that look
    equally long to the tool have the same stored length.  Always true for cdfdiff (it compares the stored
    lengths); for ncmpidiff (record dimension seen as numrecs) it says that a record dimension is not compared
    with a fixed dimension of length numrecs. -/
structure LenAgree (cfg : DiffCfg) (a b : LFile) : Prop where
  dims  : ∀ x ∈ a.dims, ∀ y ∈ b.dims, x.name = y.name →
            dimLen cfg a.numrecs x.size = dimLen cfg b.numrecs y.size → x.size = y.size
  vdims : ∀ v ∈ a.vars, ∀ w ∈ b.vars, v.name = w.name → ∀ p ∈ v.dims.zip w.dims, p.1.name = p.2.name →
            dimLen cfg a.numrecs p.1.size = dimLen cfg b.numrecs p.2.size → p.1.size = p.2.size

theorem lenAgree_of_stored (cfg : DiffCfg) (a b : LFile) (h : cfg.recLenIsNumrecs = false) : LenAgree cfg a b := by
  have hd : ∀ n s, dimLen cfg n s = s := by intro n s; simp [dimLen, h]
  exact ⟨fun x _ y _ _ he => by rwa [hd, hd] at he, fun v _ w _ _ p _ _ he => by rwa [hd, hd] at he⟩

theorem attsCrash_of_len (cfg : DiffCfg) (A B : List Att) (h : A.length = B.length) : attsCrash cfg A B = false := by
  unfold attsCrash
  by_cases h0 : B.length = 0
  · have : A.length = 0 := by omega
    simp [h0, this]
  · have : ¬ A.length = 0 := by omega
    simp [h0, this]

theorem recsSame_iff (v w : LVar) : ∀ n, recsSame v w n = true ↔ ∀ r, r < n → v.data r = w.data r := by
  intro n
  induction n with
  | zero => simp [recsSame]
  | succ n ih =>
    simp only [recsSame, Bool.and_eq_true, beq_iff_eq, ih]
    constructor
    · intro ⟨h1, h2⟩ r hr
      by_cases hrn : r = n
      · subst hrn; exact h2
      · exact h1 r (by omega)
    · intro h
      exact ⟨fun r hr => h r (by omega), h n (by omega)⟩

theorem varsDiff_eq (cfg : DiffCfg) (a b : LFile) (hA : UniqueNames (fun x : LVar => x.name) a.vars)
    (hB : UniqueNames (fun x : LVar => x.name) b.vars) (hpos : a.vars.length > 0 ∧ b.vars.length > 0) :
    varsDiff cfg a b =
      (sumNat (a.vars.map (fun v => optCase (findBy (fun x : LVar => x.name) b.vars v.name) 1
                (fun w => varMetaDiff cfg a.numrecs b.numrecs v w))) +
       sumNat (b.vars.map (fun w => optCase (findBy (fun x : LVar => x.name) a.vars w.name) 1 (fun _ => 0))),
       sumNat (a.vars.map (fun v => optCase (findBy (fun x : LVar => x.name) b.vars v.name) 1 (fun _ => 0))) +
       sumNat (b.vars.map (fun w => optCase (findBy (fun x : LVar => x.name) a.vars w.name) 1 (fun _ => 0)))) := by
  unfold varsDiff
  rw [if_pos hpos]
  rw [imap_eq_map _ (fun v => optCase (findBy (fun x : LVar => x.name) b.vars v.name) 1
          (fun w => varMetaDiff cfg a.numrecs b.numrecs v w)) a.vars
        (fun i x _ => by rw [lookup_eq_find cfg _ b.vars i x.name hB]; rfl) 0,
      imap_eq_map _ (fun w => optCase (findBy (fun x : LVar => x.name) a.vars w.name) 1 (fun _ => 0)) b.vars
        (fun i y _ => by rw [lookup_eq_find cfg _ a.vars i y.name hA]; rfl) 0,
      imap_eq_map _ (fun v => optCase (findBy (fun x : LVar => x.name) b.vars v.name) 1 (fun _ => 0)) a.vars
        (fun i x _ => by rw [lookup_eq_find cfg _ b.vars i x.name hB]; rfl) 0]

theorem metaEq_of_eq {n : Nat} {v w : LVar} (h : LVarEq n v w) : LVarMetaEq v w := ⟨h.xtype, h.dims, h.natts, h.atts⟩

/-- D1: same format and same logical content ⇒ the tool reports no difference (either tool, any layout) -/
theorem toolDiff_of_logicalEq (cfg : DiffCfg) (a b : LFile) (wa : LWF a) (wb : LWF b) (E : LogicalEq a b) :
    toolDiff cfg a b = .counts 0 0 := by
  have hfa : ∀ v ∈ a.vars, findVar a.vars v.name = some v := fun v hv => findBy_self wa.varNames hv
  -- no crash
  have c1 : attsCrash cfg a.gatts b.gatts = false := attsCrash_of_len cfg _ _ E.ngatts
  have c2 : varsCrash cfg a b = false := by
    unfold varsCrash
    rw [imap_eq_map _ (fun _ => false) a.vars (fun i v hv => by
      rw [lookup_eq_find cfg _ b.vars i v.name wb.varNames]
      cases hf : b.vars.find? (fun x => x.name == v.name) with
      | none => rfl
      | some w =>
        rw [optCase_some]
        exact attsCrash_of_len cfg _ _ (E.vars v.name v w (hfa v hv) hf).natts) 0]
    simp
  unfold toolDiff
  rw [c1, c2]
  simp only [Bool.or_self, Bool.false_eq_true, ↓reduceIte]
  -- header
  have g1 : b2n (decide (a.fmt ≠ b.fmt)) = 0 := by rw [b2n_eq_zero]; simp [E.fmt]
  have g2 : b2n (decide (a.dims.length ≠ b.dims.length)) = 0 := by rw [b2n_eq_zero]; simp [E.ndims]
  have g3 : b2n (decide (a.vars.length ≠ b.vars.length)) = 0 := by rw [b2n_eq_zero]; simp [E.nvars]
  have g4 : b2n (decide (a.gatts.length ≠ b.gatts.length)) = 0 := by rw [b2n_eq_zero]; simp [E.ngatts]
  have g4' : b2n (cfg.cmpNumrecs && decide (a.numrecs ≠ b.numrecs)) = 0 := by rw [b2n_eq_zero]; simp [E.numrecs]
  have g5 := atts_zero_of_eq cfg a.gatts b.gatts wa.gatts.1 wb.gatts.1 E.gatts
  have g6 := dims_zero_of_eq cfg a b wa.dimNames wb.dimNames E.numrecs E.dims
  have g7 : varsDiff cfg a b = (0, 0) := by
    by_cases hpos : a.vars.length > 0 ∧ b.vars.length > 0
    · rw [varsDiff_eq cfg a b wa.varNames wb.varNames hpos]
      have k1 := keyed_zero_of_rel (fun x : LVar => x.name) a.vars b.vars
        (fun v w => varMetaDiff cfg a.numrecs b.numrecs v w) LVarMetaEq wa.varNames wb.varNames
        (fun v hv w hw _ hr => by
          rw [← E.numrecs]
          exact varMeta_zero_of cfg a.numrecs v w (wa.vatts v hv).1 (wb.vatts w hw).1 hr)
        E.varsDef (fun nm v w hv hw => metaEq_of_eq (E.vars nm v w hv hw))
      have k2 := keyed_zero_of_rel (fun x : LVar => x.name) a.vars b.vars
        (fun _ _ => 0) (fun _ _ => True) wa.varNames wb.varNames (fun _ _ _ _ _ _ => rfl)
        E.varsDef (fun _ _ _ _ _ => trivial)
      rw [k1, k2]
    · unfold varsDiff; rw [if_neg hpos]
  -- data
  have g8 : sumNat (a.vars.map (fun v => varDataDiff cfg a b v.name)) = 0 := by
    rw [sumNat_eq_zero]
    intro t ht
    obtain ⟨v, hv, rfl⟩ := List.mem_map.mp ht
    unfold varDataDiff
    have h1 : a.vars.find? (fun x => x.name == v.name) = some v := hfa v hv
    rw [h1]
    cases hf : b.vars.find? (fun x => x.name == v.name) with
    | none => rfl
    | some w =>
      have e := E.vars v.name v w h1 hf
      simp only []
      have t1 : ¬ v.xtype ≠ w.xtype := by simp [e.xtype]
      have t2 : ¬ v.dims.length ≠ w.dims.length := by simp [e.dims]
      have t3 : ¬ (v.dims.map (fun d => dimLen cfg a.numrecs d.size)) ≠ (w.dims.map (fun d => dimLen cfg b.numrecs d.size)) := by
        simp [e.dims, E.numrecs]
      have t3' : ¬ (cfg.cmpNumrecs = true ∧ v.isRec = true ∧ a.numrecs ≠ b.numrecs) := fun ⟨_, _, x⟩ => x E.numrecs
      rw [if_neg t1, if_neg t2, if_neg t3, if_neg t3']
      split
      · rfl
      · rw [b2n_eq_zero]
        have := (recsSame_iff v w (if v.isRec then a.numrecs else 1)).mpr e.data
        simp [this]
  rw [g7]
  simp only [g1, g2, g3, g4, g4', g5, g6, g8, Nat.add_zero]

theorem nil_of_length_zero {α : Type} {l : List α} (h : ¬ l.length > 0) : l = [] := by
  cases l with
  | nil => rfl
  | cons _ _ => simp at h

/-- D2: the tool reports no difference ⇒ same format and same logical content, provided the record counts
    agree (cdfdiff never looks at the second file's), nothing in the first file is of a type the tool skips
    (ncmpidiff: NC_BYTE) and the tool's view of dimension lengths is faithful (`LenAgree`) -/
theorem logicalEq_of_toolDiff (cfg : DiffCfg) (a b : LFile) (wa : LWF a) (wb : LWF b) (nb : NoByte cfg a)
    (ag : LenAgree cfg a b) (hn' : cfg.cmpNumrecs = true ∨ a.numrecs = b.numrecs) (h : toolDiff cfg a b = .counts 0 0) :
    LogicalEq a b := by
  unfold toolDiff at h
  split at h
  · cases h
  · simp only [DiffOut.counts.injEq] at h
    obtain ⟨hh, hv⟩ := h
    have g1 : b2n (decide (a.fmt ≠ b.fmt)) = 0 := by omega
    have g2 : b2n (decide (a.dims.length ≠ b.dims.length)) = 0 := by omega
    have g3 : b2n (decide (a.vars.length ≠ b.vars.length)) = 0 := by omega
    have g4 : b2n (decide (a.gatts.length ≠ b.gatts.length)) = 0 := by omega
    have g4' : b2n (cfg.cmpNumrecs && decide (a.numrecs ≠ b.numrecs)) = 0 := by omega
    have hn : a.numrecs = b.numrecs := by
      rcases hn' with hc | hn
      · rw [b2n_eq_zero, hc] at g4'
        simpa using g4'
      · exact hn
    have g5 : attsDiff cfg a.gatts b.gatts = 0 := by omega
    have g6 : dimsDiff cfg a b = 0 := by omega
    have g7 : (varsDiff cfg a b).1 = 0 := by omega
    have g8 : sumNat (a.vars.map (fun v => varDataDiff cfg a b v.name)) = 0 := by omega
    rw [b2n_eq_zero] at g1 g2 g3 g4
    have efmt : a.fmt = b.fmt := by simpa using g1
    have endims : a.dims.length = b.dims.length := by simpa using g2
    have envars : a.vars.length = b.vars.length := by simpa using g3
    have engatts : a.gatts.length = b.gatts.length := by simpa using g4
    -- variables: metadata
    have hvars : (∀ nm, (findVar a.vars nm).isSome = (findVar b.vars nm).isSome) ∧
        ∀ nm v w, findVar a.vars nm = some v → findVar b.vars nm = some w → LVarMetaEq v w := by
      by_cases hpos : a.vars.length > 0 ∧ b.vars.length > 0
      · rw [varsDiff_eq cfg a b wa.varNames wb.varNames hpos] at g7
        simp only [] at g7
        exact keyed_rel_of_zero (fun x : LVar => x.name) a.vars b.vars
          (fun v w => varMetaDiff cfg a.numrecs b.numrecs v w) LVarMetaEq
          (fun v hv w hw hnm hd => varMeta_of_zero cfg a.numrecs b.numrecs v w (wa.vatts v hv) (wb.vatts w hw)
            (nb.vars v hv).2 (ag.vdims v hv w hw hnm) hd) g7
      · have ha : a.vars = [] := by
          by_cases h0 : a.vars.length > 0
          · have : ¬ b.vars.length > 0 := fun hb => hpos ⟨h0, hb⟩
            omega
          · exact nil_of_length_zero h0
        have hb : b.vars = [] := nil_of_length_zero (by rw [← envars, ha]; simp)
        rw [ha, hb]
        exact ⟨fun _ => rfl, fun nm v w hv _ => by cases hv⟩
    refine ⟨efmt, hn, endims, dims_eq_of_zero cfg a b wa.dimNames wb.dimNames endims ag.dims g6, engatts,
      atts_eq_of_zero cfg a.gatts b.gatts wa.gatts wb.gatts nb.gatts g5, envars, hvars.1, ?_⟩
    intro nm v w hfv hfw
    have me := hvars.2 nm v w hfv hfw
    refine ⟨me.xtype, me.dims, me.natts, me.atts, ?_⟩
    -- data
    obtain ⟨hvm, hvn⟩ := findBy_some (nameOf := fun x : LVar => x.name) hfv
    rw [sumNat_eq_zero] at g8
    have t := g8 _ (List.mem_map.mpr ⟨v, hvm, rfl⟩)
    unfold varDataDiff at t
    have hvn' : v.name = nm := hvn
    rw [hvn'] at t
    have h1 : a.vars.find? (fun x => x.name == nm) = some v := hfv
    have h2 : b.vars.find? (fun x => x.name == nm) = some w := hfw
    rw [h1, h2] at t
    simp only [] at t
    have t1 : ¬ v.xtype ≠ w.xtype := by simp [me.xtype]
    have t2 : ¬ v.dims.length ≠ w.dims.length := by simp [me.dims]
    have t3 : ¬ (v.dims.map (fun d => dimLen cfg a.numrecs d.size)) ≠ (w.dims.map (fun d => dimLen cfg b.numrecs d.size)) := by
      simp [me.dims, hn]
    have t3' : ¬ (cfg.cmpNumrecs = true ∧ v.isRec = true ∧ a.numrecs ≠ b.numrecs) := fun ⟨_, _, x⟩ => x hn
    have t4 : ¬ (cfg.skipByte = true ∧ v.xtype = .byte) := fun ⟨x, y⟩ => (nb.vars v hvm).1 x y
    rw [if_neg t1, if_neg t2, if_neg t3, if_neg t3', if_neg t4, b2n_eq_zero] at t
    exact (recsSame_iff v w _).mp (by simpa using t)

theorem same_iff (o : DiffOut) : o.same = true ↔ o = .counts 0 0 := by
  cases o with
  | crash => simp [DiffOut.same]
  | counts h v =>
    cases h with
    | zero => cases v with
      | zero => simp [DiffOut.same]
      | succ _ => simp [DiffOut.same]
    | succ _ => simp [DiffOut.same]

theorem LogicalEq.refl (a : LFile) : LogicalEq a a :=
  ⟨rfl, rfl, rfl, fun _ => rfl, rfl, fun _ => rfl, rfl, fun _ => rfl,
   fun nm v w hv hw => by rw [hv] at hw; cases hw; exact ⟨rfl, rfl, rfl, fun _ => rfl, fun _ _ => rfl⟩⟩

theorem LVarEq.symm {n : Nat} {v w : LVar} (hr : v.isRec = w.isRec) (h : LVarEq n v w) : LVarEq n w v :=
  ⟨h.xtype.symm, h.dims.symm, h.natts.symm, fun nm => (h.atts nm).symm, fun r hlt => (h.data r (by rw [hr]; exact hlt)).symm⟩

/-- record-ness of a variable is determined by its dimensions -/
def RecByDims (a : LFile) : Prop :=
  ∀ v ∈ a.vars, v.isRec = (match v.dims with | d :: _ => d.size == 0 | [] => false)

theorem LogicalEq.symm {a b : LFile} (ra : RecByDims a) (rb : RecByDims b) (h : LogicalEq a b) : LogicalEq b a :=
  ⟨h.fmt.symm, h.numrecs.symm, h.ndims.symm, fun nm => (h.dims nm).symm, h.ngatts.symm, fun nm => (h.gatts nm).symm,
   h.nvars.symm, fun nm => (h.varsDef nm).symm,
   fun nm w v hw hv => by
     have e := h.vars nm v w hv hw
     have hr : v.isRec = w.isRec := by
       rw [ra v (findBy_some (nameOf := fun x : LVar => x.name) hv).1, rb w (findBy_some (nameOf := fun x : LVar => x.name) hw).1, e.dims]
     rw [← h.numrecs]
     exact LVarEq.symm hr e⟩

theorem LogicalEq.trans {a b c : LFile} (rb : RecByDims b) (ra : RecByDims a) (h1 : LogicalEq a b) (h2 : LogicalEq b c) :
    LogicalEq a c :=
  ⟨h1.fmt.trans h2.fmt, h1.numrecs.trans h2.numrecs, h1.ndims.trans h2.ndims, fun nm => (h1.dims nm).trans (h2.dims nm),
   h1.ngatts.trans h2.ngatts, fun nm => (h1.gatts nm).trans (h2.gatts nm), h1.nvars.trans h2.nvars,
   fun nm => (h1.varsDef nm).trans (h2.varsDef nm),
   fun nm v x hv hx => by
     have hs := h1.varsDef nm
     rw [hv] at hs
     cases hw : findVar b.vars nm with
     | none => rw [hw] at hs; cases hs
     | some w =>
       have e1 := h1.vars nm v w hv hw
       have e2 := h2.vars nm w x hw hx
       have hr : v.isRec = w.isRec := by
         rw [ra v (findBy_some (nameOf := fun x : LVar => x.name) hv).1, rb w (findBy_some (nameOf := fun x : LVar => x.name) hw).1, e1.dims]
       exact ⟨e1.xtype.trans e2.xtype, e1.dims.trans e2.dims, e1.natts.trans e2.natts,
         fun n => (e1.atts n).trans (e2.atts n),
         fun r hlt => (e1.data r hlt).trans (e2.data r (by rw [← hr, ← h1.numrecs]; exact hlt))⟩⟩

/-! ### the view `absFile` and the layout -/

theorem absFile_recByDims (h : Hdr) (rs : Nat) (f : Bytes) : RecByDims (absFile h rs f) := by
  intro v hv
  simp only [absFile, List.mem_map] at hv
  obtain ⟨x, _, rfl⟩ := hv
  rfl

theorem rdAt_shift (pre gap rest : Bytes) (off n : Nat) (h : pre.length ≤ off) :
    rdAt (pre ++ gap ++ rest) (off + gap.length) n = rdAt (pre ++ rest) off n := by
  unfold rdAt
  congr 1
  rw [List.append_assoc, List.drop_append, List.drop_append, List.drop_append]
  have h1 : List.drop (off + gap.length) pre = [] := List.drop_eq_nil_of_le (by omega)
  have h2 : List.drop (off + gap.length - pre.length) gap = [] := List.drop_eq_nil_of_le (by omega)
  have h3 : List.drop off pre = [] := List.drop_eq_nil_of_le h
  rw [h1, h2, h3]
  simp only [List.nil_append]
  congr 1
  omega

theorem rdAt_shift' (pre gap rest : Bytes) (b c n : Nat) (h : pre.length ≤ b) :
    rdAt (pre ++ gap ++ rest) (b + gap.length + c) n = rdAt (pre ++ rest) (b + c) n := by
  have : b + gap.length + c = (b + c) + gap.length := by omega
  rw [this]
  exact rdAt_shift pre gap rest _ _ (by omega)

/-- every `begin` moved by `k` bytes -/
def shiftBegins (k : Nat) (h : Hdr) : Hdr :=
  { h with vars := h.vars.map (fun v => { v with begin := v.begin + k }) }

/-- moving the whole data section by `gap.length` bytes (more header free space, another alignment of the first
    variable) leaves the view of the diff tools unchanged: same names, types, shapes, attributes, and the same
    bytes for EVERY record index (also beyond numrecs) -/
theorem absFile_shift (h : Hdr) (rs : Nat) (pre gap rest : Bytes) (hb : ∀ v ∈ h.vars, pre.length ≤ v.begin) :
    absFile (shiftBegins gap.length h) rs (pre ++ gap ++ rest) = absFile h rs (pre ++ rest) := by
  unfold absFile shiftBegins
  simp only [List.map_map]
  congr 1
  apply List.map_congr_left
  intro v hv
  simp only [Function.comp]
  congr 1
  funext r
  exact rdAt_shift' pre gap rest v.begin _ _ (hb v hv)

end PnVerif.Tools
