import PnVerif.Model.Tools
/-
  Lemmas about the cdfdiff / ncmpidiff model (Model/Tools.lean, `toolDiff`).
-/
namespace PnVerif.Tools
open PnVerif.Spec PnVerif.Header

/-! ### sums and indexed maps -/

theorem sumNat_eq_zero (l : List Nat) : sumNat l = 0 ↔ ∀ x ∈ l, x = 0 := by
  induction l with
  | nil => simp [sumNat]
  | cons a t ih =>
    have : sumNat (a :: t) = a + sumNat t := rfl
    rw [this]
    constructor
    · intro h x hx
      have h1 : a = 0 := by omega
      have h2 : sumNat t = 0 := by omega
      rcases List.mem_cons.mp hx with rfl | hx
      · exact h1
      · exact ih.mp h2 x hx
    · intro h
      have h1 := h a (by simp)
      have h2 := ih.mpr (fun x hx => h x (by simp [hx]))
      omega

theorem imap_eq_map {α β : Type} (f : Nat → α → β) (g : α → β) (l : List α) (h : ∀ i x, x ∈ l → f i x = g x) :
    ∀ k, imap f l k = l.map g := by
  induction l with
  | nil => intro k; rfl
  | cons a t ih =>
    intro k
    simp only [imap, List.map_cons]
    rw [h k a (by simp), ih (fun i x hx => h i x (by simp [hx]))]

theorem b2n_eq_zero (b : Bool) : b2n b = 0 ↔ b = false := by
  cases b <;> simp [b2n]

/-! ### name lookup: with unique names the wrap-around search of cdfdiff finds what a plain search finds -/

/-- the names of a list are pairwise different -/
def UniqueNames {α : Type} (nameOf : α → Bytes) (xs : List α) : Prop := (xs.map nameOf).Nodup

theorem unique_of_names {α : Type} {nameOf : α → Bytes} {xs : List α} (h : UniqueNames nameOf xs) {x y : α}
    (hx : x ∈ xs) (hy : y ∈ xs) (hn : nameOf x = nameOf y) : x = y := by
  induction xs with
  | nil => cases hx
  | cons a t ih =>
    unfold UniqueNames at h ih
    simp only [List.map_cons, List.nodup_cons, List.mem_map, not_exists, not_and] at h
    rcases List.mem_cons.mp hx with rfl | hx' <;> rcases List.mem_cons.mp hy with rfl | hy'
    · rfl
    · exact absurd hn.symm (h.1 y hy')
    · exact absurd hn (h.1 x hx')
    · exact ih h.2 hx' hy'

theorem find_perm_unique {α : Type} (p : α → Bool) (xs ys : List α) (hm : ∀ x, x ∈ ys ↔ x ∈ xs)
    (hu : ∀ x y, x ∈ xs → y ∈ xs → p x = true → p y = true → x = y) : ys.find? p = xs.find? p := by
  cases hx : xs.find? p with
  | none =>
    rw [List.find?_eq_none] at hx ⊢
    intro y hy
    exact hx y ((hm y).mp hy)
  | some x =>
    have hxm := List.mem_of_find?_eq_some hx
    have hxp := List.find?_some hx
    cases hy : ys.find? p with
    | none =>
      rw [List.find?_eq_none] at hy
      exact absurd hxp (hy x ((hm x).mpr hxm))
    | some y =>
      have hym := List.mem_of_find?_eq_some hy
      have hyp := List.find?_some hy
      rw [hu y x ((hm y).mp hym) hxm hyp hxp]

theorem lookup_eq_find {α : Type} (cfg : DiffCfg) (nameOf : α → Bytes) (xs : List α) (i : Nat) (nm : Bytes)
    (hu : UniqueNames nameOf xs) : lookup cfg nameOf xs i nm = xs.find? (fun x => nameOf x == nm) := by
  unfold lookup
  split
  · unfold lookupFrom
    apply find_perm_unique
    · intro x
      rw [List.mem_append]
      constructor
      · rintro (h | h)
        · exact List.mem_of_mem_drop h
        · exact List.mem_of_mem_take h
      · intro h
        rw [← List.take_append_drop (i % xs.length) xs] at h
        rcases List.mem_append.mp h with h | h
        · exact Or.inr h
        · exact Or.inl h
    · intro x y hx hy hpx hpy
      apply unique_of_names hu hx hy
      rw [beq_iff_eq] at hpx hpy
      rw [hpx, hpy]
  · rfl

@[simp] theorem optCase_none {α β : Type} (n : β) (f : α → β) : optCase none n f = n := rfl
@[simp] theorem optCase_some {α β : Type} (y : α) (n : β) (f : α → β) : optCase (some y) n f = f y := rfl

def findBy {α : Type} (nameOf : α → Bytes) (xs : List α) (nm : Bytes) : Option α := xs.find? (fun x => nameOf x == nm)

theorem findBy_some {α : Type} {nameOf : α → Bytes} {xs : List α} {nm : Bytes} {x : α} (h : findBy nameOf xs nm = some x) :
    x ∈ xs ∧ nameOf x = nm := by
  unfold findBy at h
  exact ⟨List.mem_of_find?_eq_some h, by simpa using List.find?_some h⟩

theorem findBy_self {α : Type} {nameOf : α → Bytes} {xs : List α} (hu : UniqueNames nameOf xs) {x : α} (hx : x ∈ xs) :
    findBy nameOf xs (nameOf x) = some x := by
  cases h : findBy nameOf xs (nameOf x) with
  | none =>
    unfold findBy at h
    rw [List.find?_eq_none] at h
    exact absurd (by simp) (h x hx)
  | some y =>
    obtain ⟨hy, hn⟩ := findBy_some h
    rw [unique_of_names hu hy hx hn]

/-- the two loops "everything of A has a namesake in B that compares equal, everything of B has a namesake in A"
    count zero exactly when the two name-keyed tables agree -/
theorem keyed_zero_iff {α : Type} (nameOf : α → Bytes) (A B : List α) (d : α → α → Nat) (R : α → α → Prop)
    (hA : UniqueNames nameOf A) (hB : UniqueNames nameOf B)
    (hd : ∀ x ∈ A, ∀ y ∈ B, nameOf x = nameOf y → (d x y = 0 ↔ R x y)) :
    (sumNat (A.map (fun x => optCase (findBy nameOf B (nameOf x)) 1 (fun y => d x y))) +
     sumNat (B.map (fun y => optCase (findBy nameOf A (nameOf y)) 1 (fun _ => 0))) = 0)
    ↔ ((∀ nm, (findBy nameOf A nm).isSome = (findBy nameOf B nm).isSome) ∧
       ∀ nm x y, findBy nameOf A nm = some x → findBy nameOf B nm = some y → R x y) := by
  constructor
  · intro h
    have h1 : sumNat (A.map (fun x => optCase (findBy nameOf B (nameOf x)) 1 (fun y => d x y))) = 0 := by omega
    have h2 : sumNat (B.map (fun y => optCase (findBy nameOf A (nameOf y)) 1 (fun _ => 0))) = 0 := by omega
    rw [sumNat_eq_zero] at h1 h2
    have k1 : ∀ x ∈ A, ∃ y, findBy nameOf B (nameOf x) = some y ∧ d x y = 0 := by
      intro x hx
      have := h1 _ (List.mem_map.mpr ⟨x, hx, rfl⟩)
      cases hf : findBy nameOf B (nameOf x) with
      | none => rw [hf, optCase_none] at this; cases this
      | some y => rw [hf, optCase_some] at this; exact ⟨y, rfl, this⟩
    have k2 : ∀ y ∈ B, ∃ x, findBy nameOf A (nameOf y) = some x := by
      intro y hy
      have := h2 _ (List.mem_map.mpr ⟨y, hy, rfl⟩)
      cases hf : findBy nameOf A (nameOf y) with
      | none => rw [hf, optCase_none] at this; cases this
      | some x => exact ⟨x, rfl⟩
    constructor
    · intro nm
      cases ha : findBy nameOf A nm with
      | some x =>
        obtain ⟨hx, hn⟩ := findBy_some ha
        obtain ⟨y, hy, _⟩ := k1 x hx
        rw [hn] at hy; rw [hy]; rfl
      | none =>
        cases hb : findBy nameOf B nm with
        | none => rfl
        | some y =>
          obtain ⟨hy, hn⟩ := findBy_some hb
          obtain ⟨x, hx⟩ := k2 y hy
          rw [hn, ha] at hx; cases hx
    · intro nm x y ha hb
      obtain ⟨hx, hn⟩ := findBy_some ha
      obtain ⟨hy, hn'⟩ := findBy_some hb
      obtain ⟨y', hy', hd0⟩ := k1 x hx
      rw [hn, hb] at hy'
      cases hy'
      exact (hd x hx y hy (by rw [hn, hn'])).mp hd0
  · intro ⟨hs, hr⟩
    have h1 : sumNat (A.map (fun x => optCase (findBy nameOf B (nameOf x)) 1 (fun y => d x y))) = 0 := by
      rw [sumNat_eq_zero]
      intro t ht
      obtain ⟨x, hx, rfl⟩ := List.mem_map.mp ht
      have ha := findBy_self hA hx
      have := hs (nameOf x)
      rw [ha] at this
      cases hb : findBy nameOf B (nameOf x) with
      | none => rw [hb] at this; cases this
      | some y =>
        rw [optCase_some]
        obtain ⟨hy, hn⟩ := findBy_some hb
        exact (hd x hx y hy hn.symm).mpr (hr _ x y ha hb)
    have h2 : sumNat (B.map (fun y => optCase (findBy nameOf A (nameOf y)) 1 (fun _ => 0))) = 0 := by
      rw [sumNat_eq_zero]
      intro t ht
      obtain ⟨y, hy, rfl⟩ := List.mem_map.mp ht
      have hb := findBy_self hB hy
      have := hs (nameOf y)
      rw [hb] at this
      cases ha : findBy nameOf A (nameOf y) with
      | none => rw [ha] at this; cases this
      | some x => rfl
    omega

theorem keyed_rel_of_zero {α : Type} (nameOf : α → Bytes) (A B : List α) (d : α → α → Nat) (R : α → α → Prop)
    (hd : ∀ x ∈ A, ∀ y ∈ B, nameOf x = nameOf y → d x y = 0 → R x y)
    (h : sumNat (A.map (fun x => optCase (findBy nameOf B (nameOf x)) 1 (fun y => d x y))) +
     sumNat (B.map (fun y => optCase (findBy nameOf A (nameOf y)) 1 (fun _ => 0))) = 0) :
    (∀ nm, (findBy nameOf A nm).isSome = (findBy nameOf B nm).isSome) ∧
       ∀ nm x y, findBy nameOf A nm = some x → findBy nameOf B nm = some y → R x y := by
  have h1 : sumNat (A.map (fun x => optCase (findBy nameOf B (nameOf x)) 1 (fun y => d x y))) = 0 := by omega
  have h2 : sumNat (B.map (fun y => optCase (findBy nameOf A (nameOf y)) 1 (fun _ => 0))) = 0 := by omega
  rw [sumNat_eq_zero] at h1 h2
  have k1 : ∀ x ∈ A, ∃ y, findBy nameOf B (nameOf x) = some y ∧ d x y = 0 := by
    intro x hx
    have := h1 _ (List.mem_map.mpr ⟨x, hx, rfl⟩)
    cases hf : findBy nameOf B (nameOf x) with
    | none => rw [hf, optCase_none] at this; cases this
    | some y => rw [hf, optCase_some] at this; exact ⟨y, rfl, this⟩
  have k2 : ∀ y ∈ B, ∃ x, findBy nameOf A (nameOf y) = some x := by
    intro y hy
    have := h2 _ (List.mem_map.mpr ⟨y, hy, rfl⟩)
    cases hf : findBy nameOf A (nameOf y) with
    | none => rw [hf, optCase_none] at this; cases this
    | some x => exact ⟨x, rfl⟩
  constructor
  · intro nm
    cases ha : findBy nameOf A nm with
    | some x =>
      obtain ⟨hx, hn⟩ := findBy_some ha
      obtain ⟨y, hy, _⟩ := k1 x hx
      rw [hn] at hy; rw [hy]; rfl
    | none =>
      cases hb : findBy nameOf B nm with
      | none => rfl
      | some y =>
        obtain ⟨hy, hn⟩ := findBy_some hb
        obtain ⟨x, hx⟩ := k2 y hy
        rw [hn, ha] at hx; cases hx
  · intro nm x y ha hb
    obtain ⟨hx, hn⟩ := findBy_some ha
    obtain ⟨hy, hn'⟩ := findBy_some hb
    obtain ⟨y', hy', hd0⟩ := k1 x hx
    rw [hn, hb] at hy'
    cases hy'
    exact hd x hx y hy (by rw [hn, hn']) hd0

/-- one direction with a one-directional comparison (ncmpidiff's comparison of NC_BYTE values answers "same" for
    anything) -/
theorem keyed_zero_of_rel {α : Type} (nameOf : α → Bytes) (A B : List α) (d : α → α → Nat) (R : α → α → Prop)
    (hA : UniqueNames nameOf A) (hB : UniqueNames nameOf B)
    (hd : ∀ x ∈ A, ∀ y ∈ B, nameOf x = nameOf y → R x y → d x y = 0)
    (hs : ∀ nm, (findBy nameOf A nm).isSome = (findBy nameOf B nm).isSome)
    (hr : ∀ nm x y, findBy nameOf A nm = some x → findBy nameOf B nm = some y → R x y) :
    sumNat (A.map (fun x => optCase (findBy nameOf B (nameOf x)) 1 (fun y => d x y))) +
     sumNat (B.map (fun y => optCase (findBy nameOf A (nameOf y)) 1 (fun _ => 0))) = 0 := by
  have h1 : sumNat (A.map (fun x => optCase (findBy nameOf B (nameOf x)) 1 (fun y => d x y))) = 0 := by
    rw [sumNat_eq_zero]
    intro t ht
    obtain ⟨x, hx, rfl⟩ := List.mem_map.mp ht
    have ha := findBy_self hA hx
    have := hs (nameOf x)
    rw [ha] at this
    cases hb : findBy nameOf B (nameOf x) with
    | none => rw [hb] at this; cases this
    | some y =>
      rw [optCase_some]
      obtain ⟨hy, hn⟩ := findBy_some hb
      exact hd x hx y hy hn.symm (hr _ x y ha hb)
  have h2 : sumNat (B.map (fun y => optCase (findBy nameOf A (nameOf y)) 1 (fun _ => 0))) = 0 := by
    rw [sumNat_eq_zero]
    intro t ht
    obtain ⟨y, hy, rfl⟩ := List.mem_map.mp ht
    have hb := findBy_self hB hy
    have := hs (nameOf y)
    rw [hb] at this
    cases ha : findBy nameOf A (nameOf y) with
    | none => rw [ha] at this; cases this
    | some x => rfl
  omega

/-- when the relation is equality the two tables are the same function -/
theorem keyed_eq_iff {α : Type} (nameOf : α → Bytes) (A B : List α) :
    ((∀ nm, (findBy nameOf A nm).isSome = (findBy nameOf B nm).isSome) ∧
       ∀ nm x y, findBy nameOf A nm = some x → findBy nameOf B nm = some y → x = y)
    ↔ ∀ nm, findBy nameOf A nm = findBy nameOf B nm := by
  constructor
  · intro ⟨hs, hr⟩ nm
    have := hs nm
    cases ha : findBy nameOf A nm with
    | none =>
      rw [ha] at this
      cases hb : findBy nameOf B nm with
      | none => rfl
      | some y => rw [hb] at this; cases this
    | some x =>
      rw [ha] at this
      cases hb : findBy nameOf B nm with
      | none => rw [hb] at this; cases this
      | some y => rw [hr nm x y ha hb]
  · intro h
    refine ⟨fun nm => by rw [h nm], fun nm x y ha hb => ?_⟩
    rw [h nm, hb] at ha
    cases ha; rfl

/-! ### attributes -/

/-- attribute lists as every reader produces them: unique names, `nelems` values stored -/
def AttsWF (A : List Att) : Prop :=
  UniqueNames (fun x : Att => x.name) A ∧ ∀ x ∈ A, x.xvalue.length = x.nelems * x.xtype.size

/-- ncmpidiff never looks at NC_BYTE values -/
def NoByteAtts (cfg : DiffCfg) (A : List Att) : Prop := cfg.skipByte = true → ∀ x ∈ A, x.xtype ≠ .byte

theorem attsDiff_eq (cfg : DiffCfg) (A B : List Att) (hA : UniqueNames (fun x : Att => x.name) A)
    (hB : UniqueNames (fun x : Att => x.name) B) :
    attsDiff cfg A B =
      sumNat (A.map (fun x => optCase (findBy (fun x : Att => x.name) B x.name) 1 (fun y => attDiff cfg x y))) +
      sumNat (B.map (fun y => optCase (findBy (fun x : Att => x.name) A y.name) 1 (fun _ => 0))) := by
  unfold attsDiff
  rw [imap_eq_map _ (fun x => optCase (findBy (fun x : Att => x.name) B x.name) 1 (fun y => attDiff cfg x y)) A
        (fun i x _ => by rw [lookup_eq_find cfg _ B i x.name hB]; rfl) 0,
      imap_eq_map _ (fun y => optCase (findBy (fun x : Att => x.name) A y.name) 1 (fun _ => 0)) B
        (fun i y _ => by rw [lookup_eq_find cfg _ A i y.name hA]; rfl) 0]

theorem attDiff_self (cfg : DiffCfg) (x : Att) : attDiff cfg x x = 0 := by
  unfold attDiff
  simp [b2n]

theorem attDiff_zero (cfg : DiffCfg) (x y : Att) (hn : x.name = y.name)
    (hx : x.xvalue.length = x.nelems * x.xtype.size) (hy : y.xvalue.length = y.nelems * y.xtype.size)
    (hb : cfg.skipByte = true → x.xtype ≠ .byte) (h : attDiff cfg x y = 0) : x = y := by
  unfold attDiff at h
  by_cases c1 : x.xtype ≠ y.xtype
  · rw [if_pos c1] at h; cases h
  · rw [if_neg c1] at h
    by_cases c2 : x.nelems ≠ y.nelems
    · rw [if_pos c2] at h; cases h
    · rw [if_neg c2] at h
      have c1' : x.xtype = y.xtype := by simpa using c1
      have c2' : x.nelems = y.nelems := by omega
      have c3 : ¬ (cfg.skipByte = true ∧ x.xtype = .byte) := fun ⟨a, b⟩ => hb a b
      rw [if_neg c3, b2n_eq_zero] at h
      have hv : x.xvalue.take (x.nelems * x.xtype.size) = y.xvalue.take (x.nelems * x.xtype.size) := by simpa using h
      rw [List.take_of_length_le (by omega), List.take_of_length_le (by rw [hy, c1', c2']; omega)] at hv
      cases x; cases y
      simp only [] at hn c1' c2' hv
      subst hn c1' c2' hv
      rfl

theorem atts_zero_of_eq (cfg : DiffCfg) (A B : List Att) (hA : UniqueNames (fun x : Att => x.name) A)
    (hB : UniqueNames (fun x : Att => x.name) B) (h : ∀ nm, findAtt A nm = findAtt B nm) : attsDiff cfg A B = 0 := by
  rw [attsDiff_eq cfg A B hA hB]
  have h' := (keyed_eq_iff (fun x : Att => x.name) A B).mpr h
  exact keyed_zero_of_rel _ A B (attDiff cfg) Eq hA hB (fun x _ y _ _ hxy => by subst hxy; exact attDiff_self cfg x) h'.1 h'.2

theorem atts_eq_of_zero (cfg : DiffCfg) (A B : List Att) (hA : AttsWF A) (hB : AttsWF B) (hb : NoByteAtts cfg A)
    (h : attsDiff cfg A B = 0) : ∀ nm, findAtt A nm = findAtt B nm := by
  rw [attsDiff_eq cfg A B hA.1 hB.1] at h
  apply (keyed_eq_iff (fun x : Att => x.name) A B).mp
  exact (keyed_zero_iff _ A B (attDiff cfg) Eq hA.1 hB.1 (fun x hx y hy hn =>
    ⟨attDiff_zero cfg x y hn (hA.2 x hx) (hB.2 y hy) (fun hs => hb hs x hx), fun hxy => by subst hxy; exact attDiff_self cfg x⟩)).mp h

/-! ### dimensions -/

theorem dimsDiff_eq (cfg : DiffCfg) (a b : LFile) (hA : UniqueNames (fun x : Dim => x.name) a.dims)
    (hB : UniqueNames (fun x : Dim => x.name) b.dims) (hpos : a.dims.length > 0 ∧ b.dims.length > 0) :
    dimsDiff cfg a b =
      sumNat (a.dims.map (fun x => optCase (findBy (fun x : Dim => x.name) b.dims x.name) 1
                (fun y => b2n (dimLen cfg a.numrecs x.size ≠ dimLen cfg b.numrecs y.size)))) +
      sumNat (b.dims.map (fun y => optCase (findBy (fun x : Dim => x.name) a.dims y.name) 1 (fun _ => 0))) := by
  unfold dimsDiff
  rw [if_pos hpos]
  rw [imap_eq_map _ (fun x => optCase (findBy (fun x : Dim => x.name) b.dims x.name) 1
          (fun y => b2n (dimLen cfg a.numrecs x.size ≠ dimLen cfg b.numrecs y.size))) a.dims
        (fun i x _ => by rw [lookup_eq_find cfg _ b.dims i x.name hB]; rfl) 0,
      imap_eq_map _ (fun y => optCase (findBy (fun x : Dim => x.name) a.dims y.name) 1 (fun _ => 0)) b.dims
        (fun i y _ => by rw [lookup_eq_find cfg _ a.dims i y.name hA]; rfl) 0]

theorem dim_ext {x y : Dim} (h1 : x.name = y.name) (h2 : x.size = y.size) : x = y := by
  cases x; cases y; simp only [] at h1 h2; subst h1 h2; rfl

theorem dims_zero_of_eq (cfg : DiffCfg) (a b : LFile) (hA : UniqueNames (fun x : Dim => x.name) a.dims)
    (hB : UniqueNames (fun x : Dim => x.name) b.dims) (hn : a.numrecs = b.numrecs)
    (h : ∀ nm, findDim a.dims nm = findDim b.dims nm) : dimsDiff cfg a b = 0 := by
  by_cases hpos : a.dims.length > 0 ∧ b.dims.length > 0
  · rw [dimsDiff_eq cfg a b hA hB hpos]
    have h' := (keyed_eq_iff (fun x : Dim => x.name) a.dims b.dims).mpr h
    exact keyed_zero_of_rel _ a.dims b.dims _ Eq hA hB
      (fun x _ y _ _ hxy => by subst hxy; rw [hn]; simp [b2n]) h'.1 h'.2
  · unfold dimsDiff; rw [if_neg hpos]

theorem dims_eq_of_zero (cfg : DiffCfg) (a b : LFile) (hA : UniqueNames (fun x : Dim => x.name) a.dims)
    (hB : UniqueNames (fun x : Dim => x.name) b.dims) (hlen : a.dims.length = b.dims.length)
    (hag : ∀ x ∈ a.dims, ∀ y ∈ b.dims, x.name = y.name →
      dimLen cfg a.numrecs x.size = dimLen cfg b.numrecs y.size → x.size = y.size)
    (h : dimsDiff cfg a b = 0) : ∀ nm, findDim a.dims nm = findDim b.dims nm := by
  by_cases hpos : a.dims.length > 0 ∧ b.dims.length > 0
  · rw [dimsDiff_eq cfg a b hA hB hpos] at h
    apply (keyed_eq_iff (fun x : Dim => x.name) a.dims b.dims).mp
    exact keyed_rel_of_zero _ a.dims b.dims _ Eq
      (fun x hx y hy hn hd => dim_ext hn (hag x hx y hy hn (by rw [b2n_eq_zero] at hd; simpa using hd))) h
  · have ha : a.dims = [] := by
      cases hd : a.dims with
      | nil => rfl
      | cons x t => rw [hd] at hpos hlen; simp only [List.length_cons] at hpos hlen; omega
    have hb : b.dims = [] := by
      cases hd : b.dims with
      | nil => rfl
      | cons x t => rw [hd, ha] at hlen; simp at hlen
    intro nm; rw [ha, hb]

/-! ### variables: metadata -/

/-- the header part of `LVarEq` -/
structure LVarMetaEq (v w : LVar) : Prop where
  xtype : v.xtype = w.xtype
  dims  : v.dims = w.dims
  natts : v.atts.length = w.atts.length
  atts  : ∀ nm, findAtt v.atts nm = findAtt w.atts nm

theorem varDimsDiff_self (cfg : DiffCfg) (n : Nat) : ∀ ds : List LDim, varDimsDiff cfg n n ds ds = 0 := by
  intro ds
  induction ds with
  | nil => rfl
  | cons d t ih => simp [varDimsDiff, b2n, ih]

theorem ldim_ext {x y : LDim} (h1 : x.name = y.name) (h2 : x.size = y.size) : x = y := by
  cases x; cases y; simp only [] at h1 h2; subst h1 h2; rfl

theorem varDims_eq_of_zero (cfg : DiffCfg) (na nb : Nat) : ∀ (ds es : List LDim), ds.length = es.length →
    (∀ p ∈ ds.zip es, p.1.name = p.2.name → dimLen cfg na p.1.size = dimLen cfg nb p.2.size → p.1.size = p.2.size) →
    varDimsDiff cfg na nb ds es = 0 → ds = es := by
  intro ds
  induction ds with
  | nil => intro es hl _ _; cases es with | nil => rfl | cons _ _ => cases hl
  | cons d t ih =>
    intro es hl hag h
    cases es with
    | nil => cases hl
    | cons e u =>
      simp only [varDimsDiff] at h
      have h1 : b2n (decide (d.name ≠ e.name)) = 0 := by omega
      have h2 : b2n (decide (dimLen cfg na d.size ≠ dimLen cfg nb e.size)) = 0 := by omega
      have h3 : varDimsDiff cfg na nb t u = 0 := by omega
      rw [b2n_eq_zero] at h1 h2
      have hn : d.name = e.name := by simpa using h1
      have hs : d.size = e.size := hag (d, e) (by simp) hn (by simpa using h2)
      rw [ldim_ext hn hs, ih u (by simpa using hl) (fun p hp => hag p (by simp [hp])) h3]

theorem varMeta_zero_of (cfg : DiffCfg) (n : Nat) (v w : LVar) (hv : UniqueNames (fun x : Att => x.name) v.atts)
    (hw : UniqueNames (fun x : Att => x.name) w.atts) (h : LVarMetaEq v w) : varMetaDiff cfg n n v w = 0 := by
  unfold varMetaDiff
  have h1 : b2n (decide (v.xtype ≠ w.xtype)) = 0 := by rw [b2n_eq_zero]; simp [h.xtype]
  have h2 : (if v.dims.length ≠ w.dims.length then 1 else varDimsDiff cfg n n v.dims w.dims) = 0 := by
    rw [h.dims]; simp [varDimsDiff_self]
  have h3 : b2n (decide (v.atts.length ≠ w.atts.length)) = 0 := by rw [b2n_eq_zero]; simp [h.natts]
  have h4 := atts_zero_of_eq cfg v.atts w.atts hv hw h.atts
  omega

theorem varMeta_of_zero (cfg : DiffCfg) (na nb : Nat) (v w : LVar) (hv : AttsWF v.atts) (hw : AttsWF w.atts)
    (hb : NoByteAtts cfg v.atts)
    (hag : ∀ p ∈ v.dims.zip w.dims, p.1.name = p.2.name → dimLen cfg na p.1.size = dimLen cfg nb p.2.size → p.1.size = p.2.size)
    (h : varMetaDiff cfg na nb v w = 0) : LVarMetaEq v w := by
  unfold varMetaDiff at h
  have h1 : b2n (decide (v.xtype ≠ w.xtype)) = 0 := by omega
  have h2 : (if v.dims.length ≠ w.dims.length then 1 else varDimsDiff cfg na nb v.dims w.dims) = 0 := by omega
  have h3 : b2n (decide (v.atts.length ≠ w.atts.length)) = 0 := by omega
  have h4 : attsDiff cfg v.atts w.atts = 0 := by omega
  rw [b2n_eq_zero] at h1 h3
  by_cases hl : v.dims.length ≠ w.dims.length
  · rw [if_pos hl] at h2; cases h2
  · rw [if_neg hl] at h2
    exact ⟨by simpa using h1, varDims_eq_of_zero cfg na nb v.dims w.dims (by omega) hag h2, by simpa using h3,
      atts_eq_of_zero cfg v.atts w.atts hv hw hb h4⟩

end PnVerif.Tools
