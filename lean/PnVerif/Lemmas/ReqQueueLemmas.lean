import PnVerif.Model.ReqQueue
/-
  Helper lemmas about Model/ReqQueue.lean.

  Method: a queue in "canonical form" is determined by the list of pending requests it stands for
  (`Entry` = core fields + the payloads of its non-lead requests): lead i has
  nonleadOff = Σ_{k<i} nonleadNum k, and the non-lead list is the concatenation of the slices with
  leadOff = i.  `Rep q v` says that `q` is the canonical form of `v` and that the two C counters
  equal the list lengths.  Every operation of the model is shown to map canonical forms to canonical
  forms and its effect on `v` is computed.
-/
namespace PnVerif.ReqQueue

def total : List Entry → Nat
  | [] => 0
  | e :: es => e.subs.length + total es

def canonLeads : Nat → List Entry → List Lead
  | _, [] => []
  | o, e :: es => ⟨e.c, o, e.subs.length⟩ :: canonLeads (o + e.subs.length) es

def canonNL : Nat → List Entry → List NonLead
  | _, [] => []
  | i, e :: es => e.subs.map (fun s => (⟨i, s⟩ : NonLead)) ++ canonNL (i + 1) es

structure Rep (q : Q) (v : List Entry) : Prop where
  lead : q.lead = canonLeads 0 v
  nonlead : q.nonlead = canonNL 0 v
  numLead : q.numLead = v.length
  numReqs : q.numReqs = total v

/-! ### canonical forms -/

@[simp] theorem total_nil : total [] = 0 := rfl
@[simp] theorem total_cons (e : Entry) (es : List Entry) : total (e :: es) = e.subs.length + total es := rfl

theorem total_append (a b : List Entry) : total (a ++ b) = total a + total b := by
  induction a with
  | nil => simp
  | cons e es ih => simp [ih]; omega

@[simp] theorem canonLeads_length (o : Nat) (v : List Entry) : (canonLeads o v).length = v.length := by
  induction v generalizing o with
  | nil => rfl
  | cons e es ih => simp [canonLeads, ih]

@[simp] theorem canonNL_length (i : Nat) (v : List Entry) : (canonNL i v).length = total v := by
  induction v generalizing i with
  | nil => rfl
  | cons e es ih => simp [canonNL, ih]

theorem canonLeads_append (o : Nat) (a b : List Entry) :
    canonLeads o (a ++ b) = canonLeads o a ++ canonLeads (o + total a) b := by
  induction a generalizing o with
  | nil => simp [canonLeads]
  | cons e es ih => simp [canonLeads, ih, Nat.add_assoc]

theorem canonNL_append (i : Nat) (a b : List Entry) :
    canonNL i (a ++ b) = canonNL i a ++ canonNL (i + a.length) b := by
  induction a generalizing i with
  | nil => simp [canonNL]
  | cons e es ih =>
    simp only [List.cons_append, canonNL, ih, List.length_cons, List.append_assoc]
    congr 3; omega

theorem canonLeads_bump (o n : Nat) (v : List Entry) :
    (canonLeads o v).map (fun l => { l with nonleadOff := l.nonleadOff + n }) = canonLeads (o + n) v := by
  induction v generalizing o with
  | nil => rfl
  | cons e es ih =>
    simp only [canonLeads, List.map_cons, ih]
    congr 2; omega

theorem canonNL_bump (i : Nat) (v : List Entry) :
    (canonNL i v).map (fun r => { r with leadOff := r.leadOff + 1 }) = canonNL (i + 1) v := by
  induction v generalizing i with
  | nil => rfl
  | cons e es ih => simp [canonNL, ih, List.map_map, Function.comp_def]

theorem canonLeads_unbump (o n : Nat) (v : List Entry) :
    (canonLeads (o + n) v).map (fun l => { l with nonleadOff := l.nonleadOff - n }) = canonLeads o v := by
  induction v generalizing o with
  | nil => rfl
  | cons e es ih =>
    simp only [canonLeads, List.map_cons]
    have : o + n + e.subs.length = (o + e.subs.length) + n := by omega
    rw [this, ih]
    congr 2; omega

theorem canonNL_unbump (i : Nat) (v : List Entry) :
    (canonNL (i + 1) v).map (fun r => { r with leadOff := r.leadOff - 1 }) = canonNL i v := by
  induction v generalizing i with
  | nil => rfl
  | cons e es ih => simp [canonNL, ih, List.map_map, Function.comp_def]

theorem canonLeads_take (o p : Nat) (v : List Entry) :
    (canonLeads o v).take p = canonLeads o (v.take p) := by
  induction v generalizing o p with
  | nil => simp [canonLeads]
  | cons e es ih =>
    cases p with
    | zero => simp [canonLeads]
    | succ p => simp [canonLeads, ih]

theorem canonLeads_drop (o p : Nat) (v : List Entry) :
    (canonLeads o v).drop p = canonLeads (o + total (v.take p)) (v.drop p) := by
  induction v generalizing o p with
  | nil => simp [canonLeads]
  | cons e es ih =>
    cases p with
    | zero => simp
    | succ p => simp [canonLeads, ih, Nat.add_assoc]

theorem canonNL_take (i p : Nat) (v : List Entry) :
    (canonNL i v).take (total (v.take p)) = canonNL i (v.take p) := by
  have h := canonNL_append i (v.take p) (v.drop p)
  rw [List.take_append_drop] at h
  rw [h, List.take_left' (by simp)]

theorem canonNL_drop (i p : Nat) (v : List Entry) :
    (canonNL i v).drop (total (v.take p)) = canonNL (i + (v.take p).length) (v.drop p) := by
  have h := canonNL_append i (v.take p) (v.drop p)
  rw [List.take_append_drop] at h
  rw [h, List.drop_left' (by simp)]

/-- the slice of lead `e` inside a canonical non-lead list -/
theorem slice_canon (pre post : List NonLead) (i : Nat) (e : Entry) (es : List Entry) :
    ((pre ++ canonNL i (e :: es) ++ post).drop pre.length).take e.subs.length
      = e.subs.map (fun s => (⟨i, s⟩ : NonLead)) := by
  simp only [canonNL, List.append_assoc]
  rw [List.drop_left' rfl, List.take_left' (by simp)]

theorem rep_view (q : Q) (v : List Entry) (h : Rep q v) : q.view = v := by
  unfold Q.view
  rw [h.lead, h.nonlead]
  suffices H : ∀ (pre : List NonLead) (i : Nat) (w : List Entry),
      (canonLeads pre.length w).map (fun l => (⟨l.c, (((pre ++ canonNL i w).drop l.nonleadOff).take l.nonleadNum).map (fun r => r.s)⟩ : Entry)) = w by
    simpa using H [] 0 v
  intro pre i w
  induction w generalizing pre i with
  | nil => rfl
  | cons e es ih =>
    simp only [canonLeads, List.map_cons]
    congr 1
    · have := slice_canon pre [] i e es
      simp only [List.append_nil] at this
      rw [this]
      cases e; simp [List.map_map, Function.comp_def]
    · have h2 := ih (pre ++ e.subs.map (fun s => (⟨i, s⟩ : NonLead))) (i + 1)
      simp only [List.length_append, List.length_map, canonNL, List.append_assoc] at h2 ⊢
      exact h2

/-! ### posting -/

theorem insPos_le (lead : List Lead) (reqOff : Int) : insPos lead reqOff ≤ lead.length := by
  unfold insPos; omega

private theorem insPos_rev (P : Lead → Bool) (r : List Lead) :
    (∀ l ∈ r.reverse.drop (r.length - (r.takeWhile P).length), P l = true) ∧
    (∀ l, (r.reverse.take (r.length - (r.takeWhile P).length)).getLast? = some l → P l = false) := by
  induction r with
  | nil => simp
  | cons x xs ih =>
    by_cases hx : P x = true
    · rw [List.takeWhile_cons_of_pos hx]
      simp only [List.length_cons, List.reverse_cons]
      have h1 : xs.length + 1 - ((List.takeWhile P xs).length + 1) = xs.length - (List.takeWhile P xs).length := by omega
      rw [h1]
      have hle : xs.length - (List.takeWhile P xs).length ≤ xs.reverse.length := by simp
      constructor
      · intro l hlm
        rw [List.drop_append_of_le_length hle] at hlm
        rcases List.mem_append.mp hlm with h | h
        · exact ih.1 l h
        · simp at h; subst h; exact hx
      · intro l hlast
        rw [List.take_append_of_le_length hle] at hlast
        exact ih.2 l hlast
    · rw [List.takeWhile_cons_of_neg hx]
      simp only [List.length_cons, List.reverse_cons, List.length_nil, Nat.sub_zero]
      constructor
      · intro l hlm
        have : (xs.reverse ++ [x]).drop (xs.length + 1) = [] := by
          apply List.drop_eq_nil_of_le; simp
        simp [this] at hlm
      · intro l hlast
        have : (xs.reverse ++ [x]).take (xs.length + 1) = xs.reverse ++ [x] := by
          apply List.take_of_length_le; simp
        rw [this] at hlast
        simp at hlast
        subst hlast
        simpa using hx

/-- where the sorted insertion puts the new request: everything behind it has a larger
    `varp->begin`, the entry in front of it (if any) does not -/
theorem insPos_spec (lead : List Lead) (reqOff : Int) :
    (∀ l ∈ lead.drop (insPos lead reqOff), l.c.varBegin > reqOff) ∧
    (∀ l, (lead.take (insPos lead reqOff)).getLast? = some l → l.c.varBegin ≤ reqOff) := by
  have h := insPos_rev (fun l => decide (l.c.varBegin > reqOff)) lead.reverse
  simp only [List.reverse_reverse, List.length_reverse] at h
  unfold insPos
  constructor
  · intro l hl; simpa using h.1 l hl
  · intro l hl; have := h.2 l hl; simpa using this

/-- the entry a post adds -/
def newEntry (id varBegin abuf maxRec : Int) (tag : Nat) (subs : List Sub) : Entry :=
  ⟨{ id := id, varBegin := varBegin, abufIndex := abuf, maxRec := maxRec, tag := tag }, subs⟩

/-- position at which `Q.post` inserts -/
def postPos (q : Q) (sorted : Bool) (reqOff : Int) : Nat :=
  if sorted then insPos q.lead reqOff else q.numLead

def postId (q : Q) (first : Int) : Int := if q.numLead = 0 then first else q.maxId + 2

/-- the body of `Q.post` once the insertion index and the id are fixed -/
def postAt (q : Q) (p : Nat) (id varBegin abuf : Int) (tag : Nat) (subs : List Sub) (maxRec : Int) : Q :=
  let pos := if p < q.numLead then
               (match q.lead[p]? with | some l => l.nonleadOff | none => q.numReqs)
             else q.numReqs
  { lead := q.lead.take p ++ [{ c := { id := id, varBegin := varBegin, abufIndex := abuf, maxRec := maxRec, tag := tag },
                                nonleadOff := pos, nonleadNum := subs.length }] ++
            (q.lead.drop p).map (fun l => { l with nonleadOff := l.nonleadOff + subs.length }),
    nonlead := q.nonlead.take pos ++ subs.map (fun s => (⟨p, s⟩ : NonLead)) ++
               (q.nonlead.drop pos).map (fun r => { r with leadOff := r.leadOff + 1 }),
    numLead := q.numLead + 1, numReqs := q.numReqs + subs.length, maxId := id }

theorem post_eq (q : Q) (first : Int) (sorted : Bool) (varBegin reqOff abuf : Int) (tag : Nat)
    (subs : List Sub) (maxRec : Int) :
    q.post first sorted varBegin reqOff abuf tag subs maxRec
      = (postAt q (postPos q sorted reqOff) (postId q first) varBegin abuf tag subs maxRec, postId q first) := rfl

theorem postPos_le (q : Q) (v : List Entry) (h : Rep q v) (sorted : Bool) (reqOff : Int) :
    postPos q sorted reqOff ≤ v.length := by
  unfold postPos
  have h2 : q.lead.length = v.length := by rw [h.lead]; simp
  split
  · have := insPos_le q.lead reqOff; omega
  · rw [h.numLead]; exact Nat.le_refl _

theorem postAt_rep (q : Q) (v : List Entry) (h : Rep q v) (p : Nat) (hp : p ≤ v.length)
    (id varBegin abuf : Int) (tag : Nat) (subs : List Sub) (maxRec : Int) :
    Rep (postAt q p id varBegin abuf tag subs maxRec)
        (v.take p ++ [newEntry id varBegin abuf maxRec tag subs] ++ v.drop p) := by
  have hpos : (if p < q.numLead then
               (match q.lead[p]? with | some l => l.nonleadOff | none => q.numReqs)
             else q.numReqs) = total (v.take p) := by
    rw [h.numLead, h.numReqs, h.lead]
    split
    · rename_i hlt
      have hd : canonLeads 0 v = canonLeads 0 (v.take p) ++ canonLeads (0 + total (v.take p)) (v.drop p) := by
        rw [← canonLeads_append, List.take_append_drop]
      rw [hd, List.getElem?_append_right (by simp; omega)]
      simp only [canonLeads_length, List.length_take, Nat.min_eq_left hp, Nat.sub_self, Nat.zero_add]
      cases hdv : v.drop p with
      | nil =>
        have : (v.drop p).length = 0 := by rw [hdv]; rfl
        simp at this; omega
      | cons e es => simp [canonLeads]
    · rename_i hge
      have : p = v.length := by omega
      rw [this, List.take_length]
  unfold postAt
  simp only [hpos]
  constructor
  · simp only
    rw [h.lead, canonLeads_take, canonLeads_drop, canonLeads_bump, canonLeads_append, canonLeads_append]
    simp [canonLeads, newEntry, total_append, Nat.add_assoc]
  · simp only
    rw [h.nonlead, canonNL_take, canonNL_drop, canonNL_bump, canonNL_append, canonNL_append]
    simp [canonNL, newEntry, List.length_take, Nat.min_eq_left hp, Nat.add_assoc]
  · simp [h.numLead, List.length_take, Nat.min_eq_left hp]; omega
  · simp only
    rw [h.numReqs, total_append, total_append]
    have := total_append (v.take p) (v.drop p)
    rw [List.take_append_drop] at this
    simp [newEntry]; omega

/-! ### cancel -/

/-- remove the first pending request with this id (ids equal to NC_REQ_NULL never match) -/
def eraseId (rid : Int) : List Entry → List Entry
  | [] => []
  | e :: es => if e.c.id = NC_REQ_NULL ∨ e.c.id ≠ rid then e :: eraseId rid es else es

theorem findLead_canon (rid : Int) (v : List Entry) : ∀ (j0 o : Nat),
    (findLead rid j0 (canonLeads o v) = none ∧ eraseId rid v = v) ∨
    (∃ a e d, v = a ++ e :: d ∧
      findLead rid j0 (canonLeads o v) = some (j0 + a.length, ⟨e.c, o + total a, e.subs.length⟩) ∧
      eraseId rid v = a ++ d ∧ e.c.id = rid ∧ e.c.id ≠ NC_REQ_NULL ∧ (∀ x ∈ a, x.c.id = NC_REQ_NULL ∨ x.c.id ≠ rid)) := by
  induction v with
  | nil => intro j0 o; left; simp [findLead, canonLeads, eraseId]
  | cons e es ih =>
    intro j0 o
    by_cases hc : e.c.id = NC_REQ_NULL ∨ e.c.id ≠ rid
    · rcases ih (j0 + 1) (o + e.subs.length) with ⟨h1, h2⟩ | ⟨a, e', d, hv, hf, he, hid, hnn, ha⟩
      · left
        simp only [findLead, canonLeads, eraseId, hc, if_true, h1, h2, and_self]
      · right
        refine ⟨e :: a, e', d, by simp [hv], ?_, ?_, hid, hnn, ?_⟩
        · simp only [findLead, canonLeads, hc, if_true, hf, List.length_cons, total_cons]
          congr 2
          · omega
          · congr 1; omega
        · simp only [eraseId, hc, if_true, he, List.cons_append]
        · intro x hx
          rcases List.mem_cons.mp hx with rfl | hx
          · exact hc
          · exact ha x hx
    · right
      refine ⟨[], e, es, rfl, ?_, ?_, ?_, ?_, by simp⟩
      · simp [findLead, canonLeads, hc]
      · simp [eraseId, hc]
      · have := not_or.mp hc; exact Classical.not_not.mp this.2
      · exact (not_or.mp hc).1

theorem drop_mid {α : Type} (A B : List α) (x : α) (n : Nat) (h : A.length = n) :
    (A ++ x :: B).drop (n + 1) = B := by
  subst h
  induction A with
  | nil => simp
  | cons y ys ih => simpa using ih

theorem remove_rep (q : Q) (a d : List Entry) (e : Entry) (h : Rep q (a ++ e :: d)) :
    Rep (q.remove a.length ⟨e.c, total a, e.subs.length⟩) (a ++ d) := by
  unfold Q.remove
  constructor
  · simp only
    rw [h.lead, canonLeads_append, canonLeads_append]
    simp only [canonLeads, Nat.zero_add]
    rw [List.take_left' (by simp), drop_mid _ _ _ _ (by simp), canonLeads_unbump]
  · simp only
    rw [h.nonlead, canonNL_append, canonNL_append]
    simp only [canonNL, Nat.zero_add]
    rw [List.take_left' (by simp)]
    rw [show canonNL 0 a ++ (e.subs.map (fun s => (⟨a.length, s⟩ : NonLead)) ++ canonNL (a.length + 1) d)
          = (canonNL 0 a ++ e.subs.map (fun s => (⟨a.length, s⟩ : NonLead))) ++ canonNL (a.length + 1) d by simp]
    rw [List.drop_left' (by simp), canonNL_unbump]
  · simp [h.numLead]
  · simp only
    rw [h.numReqs, total_append, total_append]
    simp; omega

/-- the pending sets after the id loop of ncmpio_cancel -/
def cancelView (ids : List Int) (vP vG : List Entry) : List Entry × List Entry :=
  ids.foldl (fun acc rid =>
    if rid = NC_REQ_NULL then acc
    else if rid % 2 = 1 then (acc.1, eraseId rid acc.2)
    else (eraseId rid acc.1, acc.2)) (vP, vG)

theorem cancelLoop_rep (ids : List Int) : ∀ (i : Nat) (r : CancelRes) (vP vG : List Entry),
    Rep r.nc.put vP → Rep r.nc.get vG →
    Rep (cancelLoop i ids r).nc.put (cancelView ids vP vG).1 ∧
    Rep (cancelLoop i ids r).nc.get (cancelView ids vP vG).2 ∧
    (cancelLoop i ids r).nc.numrecs = r.nc.numrecs := by
  induction ids with
  | nil => intro i r vP vG hP hG; exact ⟨hP, hG, rfl⟩
  | cons rid rest ih =>
    intro i r vP vG hP hG
    unfold cancelLoop cancelView
    simp only [List.foldl_cons]
    by_cases hn : rid = NC_REQ_NULL
    · simp only [hn, if_true]
      exact ih _ _ vP vG hP hG
    · simp only [hn, if_false]
      by_cases hodd : rid % 2 = 1
      · simp only [hodd, if_true]
        rcases findLead_canon rid vG 0 0 with ⟨h1, h2⟩ | ⟨a, e, d, hv, hf, he, _, _, _⟩
        · rw [← hG.lead] at h1
          simp only [h1, h2]
          exact ih _ _ vP vG hP hG
        · rw [← hG.lead] at hf
          simp only [hf, he, Nat.zero_add]
          have := ih (i + 1) { nc := { r.nc with get := r.nc.get.remove a.length ⟨e.c, total a, e.subs.length⟩ },
                               ids := r.ids ++ [NC_REQ_NULL], st := r.st.map (fun s => setAt s i NC_NOERR), err := r.err,
                               cancelled := r.cancelled ++ [⟨e.c, total a, e.subs.length⟩] } vP (a ++ d) hP
                      (remove_rep _ a d e (hv ▸ hG))
          exact this
      · simp only [hodd, if_false]
        rcases findLead_canon rid vP 0 0 with ⟨h1, h2⟩ | ⟨a, e, d, hv, hf, he, _, _, _⟩
        · rw [← hP.lead] at h1
          simp only [h1, h2]
          exact ih _ _ vP vG hP hG
        · rw [← hP.lead] at hf
          simp only [hf, he, Nat.zero_add]
          have := ih (i + 1) { nc := { r.nc with put := r.nc.put.remove a.length ⟨e.c, total a, e.subs.length⟩ },
                               ids := r.ids ++ [NC_REQ_NULL], st := r.st.map (fun s => setAt s i NC_NOERR), err := r.err,
                               cancelled := r.cancelled ++ [⟨e.c, total a, e.subs.length⟩] } (a ++ d) vG
                      (remove_rep _ a d e (hv ▸ hP)) hG
          exact this

theorem freeIfEmpty_rep (q : Q) (v : List Entry) (h : Rep q v) : Rep q.freeIfEmpty v := by
  unfold Q.freeIfEmpty
  split
  · rename_i h0
    have : v = [] := by
      have := h.numLead; rw [h0] at this
      exact List.eq_nil_of_length_eq_zero this.symm
    subst this
    exact ⟨rfl, rfl, h.numLead, h.numReqs⟩
  · exact h

theorem clear_rep (q : Q) : Rep q.clear [] := ⟨rfl, rfl, rfl, rfl⟩

/-! ### wait: compaction of the non-lead list and the post-I/O clean-up -/

def kept (v : List Entry) : List Entry := v.filter (fun e => !e.c.toFree)
def flagged (v : List Entry) : List Entry := v.filter (fun e => e.c.toFree)

/-- lead list after loop 3 of extract_reqs: surviving leads get the offsets of the compacted
    array, flagged leads keep their stale offsets -/
def reoff : Nat → Nat → List Entry → List Lead
  | _, _, [] => []
  | k, o, e :: es =>
    if e.c.toFree then ⟨e.c, o, e.subs.length⟩ :: reoff k (o + e.subs.length) es
    else ⟨e.c, k, e.subs.length⟩ :: reoff (k + e.subs.length) (o + e.subs.length) es

/-- compacted non-lead list: slices of the surviving leads, still carrying their OLD lead index -/
def keptNL : Nat → List Entry → List NonLead
  | _, [] => []
  | i, e :: es =>
    if e.c.toFree then keptNL (i + 1) es
    else e.subs.map (fun s => (⟨i, s⟩ : NonLead)) ++ keptNL (i + 1) es

def flaggedLeads : Nat → List Entry → List Lead
  | _, [] => []
  | o, e :: es =>
    if e.c.toFree then ⟨e.c, o, e.subs.length⟩ :: flaggedLeads (o + e.subs.length) es
    else flaggedLeads (o + e.subs.length) es

@[simp] theorem keptNL_length (i : Nat) (v : List Entry) : (keptNL i v).length = total (kept v) := by
  induction v generalizing i with
  | nil => rfl
  | cons e es ih =>
    by_cases h : e.c.toFree = true
    · simp [keptNL, kept, h, List.filter_cons]; simpa [kept] using ih (i + 1)
    · simp [keptNL, kept, h, List.filter_cons]; simpa [kept] using ih (i + 1)

theorem total_kept_flagged (v : List Entry) : total (kept v) + total (flagged v) = total v := by
  induction v with
  | nil => rfl
  | cons e es ih =>
    by_cases h : e.c.toFree = true
    · simp [kept, flagged, h, List.filter_cons] at ih ⊢; omega
    · simp [kept, flagged, h, List.filter_cons] at ih ⊢; omega

theorem length_kept_flagged (v : List Entry) : (kept v).length + (flagged v).length = v.length := by
  induction v with
  | nil => rfl
  | cons e es ih =>
    by_cases h : e.c.toFree = true
    · simp [kept, flagged, h, List.filter_cons] at ih ⊢; omega
    · simp [kept, flagged, h, List.filter_cons] at ih ⊢; omega

theorem compactGo_canon (v : List Entry) : ∀ (pre post : List NonLead) (i k : Nat),
    compactGo (pre ++ canonNL i v ++ post) k (canonLeads pre.length v) = (reoff k pre.length v, keptNL i v) := by
  induction v with
  | nil => intro pre post i k; rfl
  | cons e es ih =>
    intro pre post i k
    have hassoc : pre ++ canonNL i (e :: es) ++ post
        = (pre ++ e.subs.map (fun s => (⟨i, s⟩ : NonLead))) ++ canonNL (i + 1) es ++ post := by
      simp [canonNL]
    have hlen : (pre ++ e.subs.map (fun s => (⟨i, s⟩ : NonLead))).length = pre.length + e.subs.length := by simp
    by_cases h : e.c.toFree = true
    · simp only [canonLeads, compactGo, h, if_true, reoff, keptNL]
      rw [hassoc, ← hlen, ih]
    · have h' : e.c.toFree = false := by simpa using h
      simp only [canonLeads, compactGo, h', reoff, keptNL, Bool.false_eq_true, if_false]
      rw [slice_canon pre post i e es, hassoc, ← hlen, ih]

theorem setLeadOff_mid (D T : List NonLead) (subs : List Sub) (i j : Nat) :
    setLeadOff (D ++ subs.map (fun s => (⟨i, s⟩ : NonLead)) ++ T) D.length subs.length j
      = D ++ subs.map (fun s => (⟨j, s⟩ : NonLead)) ++ T := by
  unfold setLeadOff
  have h1 : (D ++ subs.map (fun s => (⟨i, s⟩ : NonLead)) ++ T).take D.length = D := by
    rw [List.append_assoc]; exact List.take_left' rfl
  have h2 : (D ++ subs.map (fun s => (⟨i, s⟩ : NonLead)) ++ T).drop D.length
      = subs.map (fun s => (⟨i, s⟩ : NonLead)) ++ T := by
    rw [List.append_assoc]; exact List.drop_left' rfl
  have h3 : (D ++ subs.map (fun s => (⟨i, s⟩ : NonLead)) ++ T).drop (D.length + subs.length) = T :=
    List.drop_left' (by simp)
  rw [h1, h2, h3, List.take_left' (by simp)]
  simp [List.map_map, Function.comp_def]

theorem cleanupGo_canon (v : List Entry) : ∀ (D : List NonLead) (i j o : Nat), j ≤ i →
    cleanupGo i j (reoff D.length o v) (D ++ keptNL i v)
      = (canonLeads D.length (kept v), D ++ canonNL j (kept v), flaggedLeads o v) := by
  induction v with
  | nil => intro D i j o _; simp [cleanupGo, reoff, keptNL, kept, canonLeads, canonNL, flaggedLeads]
  | cons e es ih =>
    intro D i j o hji
    by_cases h : e.c.toFree = true
    · simp only [reoff, cleanupGo, h, if_true, keptNL, kept, List.filter_cons, flaggedLeads, Bool.not_true,
                 Bool.false_eq_true, if_false]
      have := ih D (i + 1) j (o + e.subs.length) (by omega)
      simp only [kept] at this
      rw [this]
    · have h' : e.c.toFree = false := by simpa using h
      simp only [reoff, cleanupGo, h', keptNL, kept, List.filter_cons, flaggedLeads, Bool.not_false, if_true,
                 Bool.false_eq_true, if_false, canonLeads, canonNL]
      have hnl : (if j < i then setLeadOff (D ++ (e.subs.map (fun s => (⟨i, s⟩ : NonLead)) ++ keptNL (i + 1) es)) D.length e.subs.length j
                  else D ++ (e.subs.map (fun s => (⟨i, s⟩ : NonLead)) ++ keptNL (i + 1) es))
          = (D ++ e.subs.map (fun s => (⟨j, s⟩ : NonLead))) ++ keptNL (i + 1) es := by
        split
        · rw [← List.append_assoc, setLeadOff_mid]
        · have : j = i := by omega
          subst this; simp
      rw [hnl]
      have hlen : (D ++ e.subs.map (fun s => (⟨j, s⟩ : NonLead))).length = D.length + e.subs.length := by simp
      have := ih (D ++ e.subs.map (fun s => (⟨j, s⟩ : NonLead))) (i + 1) (j + 1) (o + e.subs.length) (by omega)
      rw [hlen] at this
      simp only [kept] at this
      rw [this]
      simp

theorem flagged_nil_of_total (v : List Entry) (hne : ∀ e ∈ v, e.subs ≠ []) (h : total (flagged v) = 0) :
    flagged v = [] := by
  cases hf : flagged v with
  | nil => rfl
  | cons e es =>
    have hm : e ∈ flagged v := by rw [hf]; exact List.mem_cons_self
    have hv : e ∈ v := (List.mem_filter.mp hm).1
    have := hne e hv
    rw [hf] at h
    simp at h
    exact absurd h.1 this

theorem kept_eq_self_of_flagged_nil (v : List Entry) (h : flagged v = []) : kept v = v := by
  unfold kept flagged at *
  rw [List.filter_eq_self]
  intro e he
  have : e ∉ v.filter (fun e => e.c.toFree) := by rw [h]; simp
  simp [List.mem_filter, he] at this
  simp [this]

/-- loop 3 of extract_reqs followed by the post-I/O loop of req_commit on one queue whose lead
    list is the canonical form of `m` (flags set on the extracted requests): the result is the
    canonical form of the requests that stay, the completed leads are the flagged ones -/
theorem compact_cleanup_rep (q : Q) (m : List Entry) (h : Rep q m) (hne : ∀ e ∈ m, e.subs ≠ []) :
    Rep ((q.compact (total (flagged m))).cleanup (flagged m).length).1 (kept m) ∧
    ((q.compact (total (flagged m))).cleanup (flagged m).length).2 = flaggedLeads 0 m := by
  by_cases hn : total (flagged m) = 0
  · have hf := flagged_nil_of_total m hne hn
    have hk := kept_eq_self_of_flagged_nil m hf
    have hfl : flaggedLeads 0 m = [] := by
      suffices H : ∀ (o : Nat) (w : List Entry), flagged w = [] → flaggedLeads o w = [] from H 0 m hf
      intro o w
      induction w generalizing o with
      | nil => intro _; rfl
      | cons e es ih =>
        intro hw
        by_cases he : e.c.toFree = true
        · simp [flagged, List.filter_cons, he] at hw
        · have he' : e.c.toFree = false := by simpa using he
          simp only [flaggedLeads, he', Bool.false_eq_true, if_false]
          apply ih
          simpa [flagged, List.filter_cons, he'] using hw
    simp [Q.compact, Q.cleanup, hn, hf, hk, hfl, h]
  · have hcnt : q.numReqs - total (flagged m) = total (kept m) := by
      have := total_kept_flagged m; rw [h.numReqs]; omega
    have hfpos : (flagged m).length ≠ 0 := by
      intro h0
      have : flagged m = [] := List.eq_nil_of_length_eq_zero h0
      rw [this] at hn; simp at hn
    have hcg := compactGo_canon m [] [] 0 0
    simp only [List.nil_append, List.append_nil, List.length_nil] at hcg
    have hcl := cleanupGo_canon m [] 0 0 0 (Nat.le_refl 0)
    simp only [List.nil_append, List.length_nil] at hcl
    unfold Q.compact Q.cleanup
    simp only [hn, hfpos, if_false]
    rw [h.lead, h.nonlead, hcg]
    simp only [hcnt]
    have harr : (keptNL 0 m ++ List.drop (keptNL 0 m).length (canonNL 0 m)).take (total (kept m)) = keptNL 0 m := by
      rw [List.take_left' (by simp)]
    rw [harr]
    have hk0 : (if total (kept m) = 0 then [] else keptNL 0 m) = keptNL 0 m := by
      split
      · rename_i h0
        have : (keptNL 0 m).length = 0 := by simp [h0]
        exact (List.eq_nil_of_length_eq_zero this).symm
      · rfl
    simp only [hk0, hcl]
    constructor
    · constructor
      · rfl
      · simp only [canonLeads_length]
        split
        · rename_i h0
          have : kept m = [] := List.eq_nil_of_length_eq_zero h0
          rw [this]; rfl
        · rfl
      · simp
      · rfl
    · trivial

/-! ### wait: marking (loop 1 of the subset path) on entries -/

def flagE (s : Option Nat) (e : Entry) : Entry := { e with c := { e.c with toFree := true, status := s } }

def newStatus (slot : Option Nat) (e : Entry) : Option Nat :=
  match slot with | some i => some i | none => e.c.status

def markE (slot : Option Nat) (rid : Int) : List Entry → Option (List Entry × Nat)
  | [] => none
  | e :: es =>
    if e.c.toFree then (markE slot rid es).map (fun r => (e :: r.1, r.2))
    else if e.c.id = rid then some (flagE (newStatus slot e) e :: es, e.subs.length)
    else (markE slot rid es).map (fun r => (e :: r.1, r.2))

theorem markLead_canon (slot : Option Nat) (rid : Int) (v : List Entry) : ∀ (o : Nat),
    markLead slot rid (canonLeads o v) = (markE slot rid v).map (fun r => (canonLeads o r.1, r.2)) := by
  induction v with
  | nil => intro o; rfl
  | cons e es ih =>
    intro o
    simp only [canonLeads, markLead, markE]
    by_cases h1 : e.c.toFree = true
    · simp only [h1, if_true, ih, Option.map_map]
      cases markE slot rid es <;> simp [canonLeads]
    · have h1' : e.c.toFree = false := by simpa using h1
      simp only [h1', Bool.false_eq_true, if_false]
      by_cases h2 : e.c.id = rid
      · simp only [h2, if_true, Option.map_some, canonLeads, flagE, newStatus]
        cases slot <;> rfl
      · simp only [h2, if_false, ih, Option.map_map]
        cases markE slot rid es <;> simp [canonLeads]

/-- which requests a mark map flags: `mk id = some s` means "flagged, status slot s" -/
def applyMark (mk : Int → Option (Option Nat)) (e : Entry) : Entry :=
  match mk e.c.id with | some s => flagE s e | none => e

def Clean (v : List Entry) : Prop := ∀ e ∈ v, e.c.toFree = false
def Distinct (v : List Entry) : Prop := List.Pairwise (fun a b => a.c.id ≠ b.c.id) v

theorem applyMark_subs (mk : Int → Option (Option Nat)) (e : Entry) : (applyMark mk e).subs = e.subs := by
  unfold applyMark; cases mk e.c.id <;> rfl
theorem applyMark_id (mk : Int → Option (Option Nat)) (e : Entry) : (applyMark mk e).c.id = e.c.id := by
  unfold applyMark; cases mk e.c.id <;> rfl

theorem canonNL_congr (v w : List Entry) (h : v.map (fun e => e.subs) = w.map (fun e => e.subs)) :
    ∀ i, canonNL i v = canonNL i w := by
  induction v generalizing w with
  | nil => intro i; cases w with | nil => rfl | cons _ _ => simp at h
  | cons e es ih =>
    intro i
    cases w with
    | nil => simp at h
    | cons f fs =>
      simp only [List.map_cons, List.cons.injEq] at h
      simp only [canonNL, h.1, ih fs h.2]

theorem total_congr (v w : List Entry) (h : v.map (fun e => e.subs) = w.map (fun e => e.subs)) : total v = total w := by
  have := canonNL_congr v w h 0
  rw [← canonNL_length 0 v, ← canonNL_length 0 w, this]

theorem map_applyMark_subs (mk : Int → Option (Option Nat)) (v : List Entry) :
    (v.map (applyMark mk)).map (fun e => e.subs) = v.map (fun e => e.subs) := by
  simp [List.map_map, Function.comp_def, applyMark_subs]

/-- marking one id in a list that is "clean original + mark map" -/
theorem markE_map (slot : Option Nat) (rid : Int) (mk : Int → Option (Option Nat)) (v : List Entry)
    (hc : Clean v) (hd : Distinct v) :
    markE slot rid (v.map (applyMark mk)) =
      match v.find? (fun e => decide (e.c.id = rid)) with
      | some e => if mk rid = none then
                    some (v.map (applyMark (fun x => if x = rid then some (newStatus slot e) else mk x)), e.subs.length)
                  else none
      | none => none := by
  induction v with
  | nil => rfl
  | cons e es ih =>
    have hc' : Clean es := fun x hx => hc x (List.mem_cons_of_mem _ hx)
    have hd' := List.pairwise_cons.mp hd
    have ihh := ih hc' hd'.2
    have hce : e.c.toFree = false := hc e List.mem_cons_self
    simp only [List.map_cons, List.find?_cons]
    by_cases hid : e.c.id = rid
    · have hnone : es.find? (fun x => decide (x.c.id = rid)) = none := by
        rw [List.find?_eq_none]
        intro x hx; have := hd'.1 x hx; simp; intro h; exact this (hid.trans h.symm)
      simp only [hid, decide_true]
      cases hm : mk rid with
      | none =>
        have : applyMark mk e = e := by unfold applyMark; rw [hid, hm]
        rw [this]
        simp only [markE, hce, Bool.false_eq_true, if_false, hid, if_true]
        congr 2
        have h1 : applyMark (fun x => if x = rid then some (newStatus slot e) else mk x) e = flagE (newStatus slot e) e := by
          unfold applyMark; simp [hid]
        have h2 : es.map (applyMark (fun x => if x = rid then some (newStatus slot e) else mk x)) = es.map (applyMark mk) := by
          apply List.map_congr_left
          intro x hx
          have : x.c.id ≠ rid := fun h => hd'.1 x hx (hid.trans h.symm)
          unfold applyMark; simp [this]
        rw [h1, h2]
      | some s =>
        have : applyMark mk e = flagE s e := by unfold applyMark; rw [hid, hm]
        rw [this]
        simp only [markE, flagE, if_true, ihh, hnone, Option.map_none]
        simp
    · simp only [hid, decide_false]
      have hhead : ∀ mk' : Int → Option (Option Nat), (∀ x, x ≠ rid → mk' x = mk x) → applyMark mk' e = applyMark mk e := by
        intro mk' h; unfold applyMark; rw [h _ hid]
      cases hm : mk e.c.id with
      | none =>
        have : applyMark mk e = e := by unfold applyMark; rw [hm]
        rw [this]
        simp only [markE, hce, Bool.false_eq_true, if_false, hid, ihh]
        cases hf : es.find? (fun x => decide (x.c.id = rid)) with
        | none => simp
        | some x =>
          simp only
          split
          · simp only [Option.map_some, List.map_cons]
            rw [hhead _ (fun y hy => by simp [hy]), this]
          · simp
      | some s =>
        have : applyMark mk e = flagE s e := by unfold applyMark; rw [hm]
        rw [this]
        simp only [markE, flagE, if_true, ihh]
        cases hf : es.find? (fun x => decide (x.c.id = rid)) with
        | none => simp
        | some x =>
          simp only
          split
          · simp only [Option.map_some, List.map_cons]
            rw [hhead _ (fun y hy => by simp [hy]), this]
            rfl
          · simp

/-- marking flags exactly one more lead and adds its slice length -/
theorem markE_counts (slot : Option Nat) (rid : Int) (m : List Entry) :
    ∀ m' n, markE slot rid m = some (m', n) →
      (flagged m').length = (flagged m).length + 1 ∧ total (flagged m') = total (flagged m) + n := by
  induction m with
  | nil => intro m' n h; simp [markE] at h
  | cons e es ih =>
    intro m' n h
    simp only [markE] at h
    by_cases h1 : e.c.toFree = true
    · simp only [h1, if_true] at h
      cases hr : markE slot rid es with
      | none => rw [hr] at h; simp at h
      | some r =>
        rw [hr] at h
        simp only [Option.map_some, Option.some.injEq, Prod.mk.injEq] at h
        have := ih r.1 r.2 (by rw [hr])
        rw [← h.1, ← h.2]
        simp [flagged, List.filter_cons, h1] at this ⊢
        omega
    · have h1' : e.c.toFree = false := by simpa using h1
      simp only [h1', Bool.false_eq_true, if_false] at h
      by_cases h2 : e.c.id = rid
      · simp only [h2, if_true, Option.some.injEq, Prod.mk.injEq] at h
        rw [← h.1, ← h.2]
        simp [flagged, List.filter_cons, h1', flagE]
        omega
      · simp only [h2, if_false] at h
        cases hr : markE slot rid es with
        | none => rw [hr] at h; simp at h
        | some r =>
          rw [hr] at h
          simp only [Option.map_some, Option.some.injEq, Prod.mk.injEq] at h
          have := ih r.1 r.2 (by rw [hr])
          rw [← h.1, ← h.2]
          simp [flagged, List.filter_cons, h1'] at this ⊢
          omega

theorem kept_map_applyMark (mk : Int → Option (Option Nat)) (v : List Entry) (hc : Clean v) :
    kept (v.map (applyMark mk)) = v.filter (fun e => (mk e.c.id).isNone) := by
  induction v with
  | nil => rfl
  | cons e es ih =>
    have hc' : Clean es := fun x hx => hc x (List.mem_cons_of_mem _ hx)
    have hce : e.c.toFree = false := hc e List.mem_cons_self
    have ih' := ih hc'
    simp only [kept] at ih' ⊢
    simp only [List.map_cons, List.filter_cons]
    cases hm : mk e.c.id with
    | none =>
      have : applyMark mk e = e := by unfold applyMark; rw [hm]
      simp [this, hce, ih']
    | some s =>
      have : applyMark mk e = flagE s e := by unfold applyMark; rw [hm]
      simp [this, flagE, ih']

end PnVerif.ReqQueue
