import PnVerif.Model.ReqQueue
/-
  Helper lemmas about Model/ReqQueue.lean.

  Method: a queue in "canonical form" is determined by the list of pending requests it stands for
  (`Entry` = core fields + the payloads of its non-lead requests): lead i has
  nonleadOff = Σ_{k<i} nonleadNum k, and the non-lead list is the concatenation of the slices with
  leadOff = i.  `Rep q v` says that `q` is the canonical form of `v` and that the two C counters
  equal the list lengths.  Every operation of the model is shown to map canonical forms to canonical
  forms and its effect on `v` is computed.
-/
namespace PnVerif.ReqQueue

def total : List Entry → Nat
  | [] => 0
  | e :: es => e.subs.length + total es

def canonLeads : Nat → List Entry → List Lead
  | _, [] => []
  | o, e :: es => ⟨e.c, o, e.subs.length⟩ :: canonLeads (o + e.subs.length) es

def canonNL : Nat → List Entry → List NonLead
  | _, [] => []
  | i, e :: es => e.subs.map (fun s => (⟨i, s⟩ : NonLead)) ++ canonNL (i + 1) es

structure Rep (q : Q) (v : List Entry) : Prop where
  lead : q.lead = canonLeads 0 v
  nonlead : q.nonlead = canonNL 0 v
  numLead : q.numLead = v.length
  numReqs : q.numReqs = total v

/-! ### canonical forms -/

@[simp] theorem total_nil : total [] = 0 := rfl
@[simp] theorem total_cons (e : Entry) (es : List Entry) : total (e :: es) = e.subs.length + total es := rfl

theorem total_append (a b : List Entry) : total (a ++ b) = total a + total b := by
  induction a with
  | nil => simp
  | cons e es ih => simp [ih]; omega

@[simp] theorem canonLeads_length (o : Nat) (v : List Entry) : (canonLeads o v).length = v.length := by
  induction v generalizing o with
  | nil => rfl
  | cons e es ih => simp [canonLeads, ih]

@[simp] theorem canonNL_length (i : Nat) (v : List Entry) : (canonNL i v).length = total v := by
  induction v generalizing i with
  | nil => rfl
  | cons e es ih => simp [canonNL, ih]

theorem canonLeads_append (o : Nat) (a b : List Entry) :
    canonLeads o (a ++ b) = canonLeads o a ++ canonLeads (o + total a) b := by
  induction a generalizing o with
  | nil => simp [canonLeads]
  | cons e es ih => simp [canonLeads, ih, Nat.add_assoc]

theorem canonNL_append (i : Nat) (a b : List Entry) :
    canonNL i (a ++ b) = canonNL i a ++ canonNL (i + a.length) b := by
  induction a generalizing i with
  | nil => simp [canonNL]
  | cons e es ih =>
    simp only [List.cons_append, canonNL, ih, List.length_cons, List.append_assoc]
    congr 3; omega

theorem canonLeads_bump (o n : Nat) (v : List Entry) :
    (canonLeads o v).map (fun l => { l with nonleadOff := l.nonleadOff + n }) = canonLeads (o + n) v := by
  induction v generalizing o with
  | nil => rfl
  | cons e es ih =>
    simp only [canonLeads, List.map_cons, ih]
    congr 2; omega

theorem canonNL_bump (i : Nat) (v : List Entry) :
    (canonNL i v).map (fun r => { r with leadOff := r.leadOff + 1 }) = canonNL (i + 1) v := by
  induction v generalizing i with
  | nil => rfl
  | cons e es ih => simp [canonNL, ih, List.map_map, Function.comp_def]

theorem canonLeads_unbump (o n : Nat) (v : List Entry) :
    (canonLeads (o + n) v).map (fun l => { l with nonleadOff := l.nonleadOff - n }) = canonLeads o v := by
  induction v generalizing o with
  | nil => rfl
  | cons e es ih =>
    simp only [canonLeads, List.map_cons]
    have : o + n + e.subs.length = (o + e.subs.length) + n := by omega
    rw [this, ih]
    congr 2; omega

theorem canonNL_unbump (i : Nat) (v : List Entry) :
    (canonNL (i + 1) v).map (fun r => { r with leadOff := r.leadOff - 1 }) = canonNL i v := by
  induction v generalizing i with
  | nil => rfl
  | cons e es ih => simp [canonNL, ih, List.map_map, Function.comp_def]

theorem canonLeads_take (o p : Nat) (v : List Entry) :
    (canonLeads o v).take p = canonLeads o (v.take p) := by
  induction v generalizing o p with
  | nil => simp [canonLeads]
  | cons e es ih =>
    cases p with
    | zero => simp [canonLeads]
    | succ p => simp [canonLeads, ih]

theorem canonLeads_drop (o p : Nat) (v : List Entry) :
    (canonLeads o v).drop p = canonLeads (o + total (v.take p)) (v.drop p) := by
  induction v generalizing o p with
  | nil => simp [canonLeads]
  | cons e es ih =>
    cases p with
    | zero => simp
    | succ p => simp [canonLeads, ih, Nat.add_assoc]

theorem canonNL_take (i p : Nat) (v : List Entry) :
    (canonNL i v).take (total (v.take p)) = canonNL i (v.take p) := by
  have h := canonNL_append i (v.take p) (v.drop p)
  rw [List.take_append_drop] at h
  rw [h, List.take_left' (by simp)]

theorem canonNL_drop (i p : Nat) (v : List Entry) :
    (canonNL i v).drop (total (v.take p)) = canonNL (i + (v.take p).length) (v.drop p) := by
  have h := canonNL_append i (v.take p) (v.drop p)
  rw [List.take_append_drop] at h
  rw [h, List.drop_left' (by simp)]

/-- the slice of lead `e` inside a canonical non-lead list -/
theorem slice_canon (pre post : List NonLead) (i : Nat) (e : Entry) (es : List Entry) :
    ((pre ++ canonNL i (e :: es) ++ post).drop pre.length).take e.subs.length
      = e.subs.map (fun s => (⟨i, s⟩ : NonLead)) := by
  simp only [canonNL, List.append_assoc]
  rw [List.drop_left' rfl, List.take_left' (by simp)]

theorem rep_view (q : Q) (v : List Entry) (h : Rep q v) : q.view = v := by
  unfold Q.view
  rw [h.lead, h.nonlead]
  suffices H : ∀ (pre : List NonLead) (i : Nat) (w : List Entry),
      (canonLeads pre.length w).map (fun l => (⟨l.c, (((pre ++ canonNL i w).drop l.nonleadOff).take l.nonleadNum).map (fun r => r.s)⟩ : Entry)) = w by
    simpa using H [] 0 v
  intro pre i w
  induction w generalizing pre i with
  | nil => rfl
  | cons e es ih =>
    simp only [canonLeads, List.map_cons]
    congr 1
    · have := slice_canon pre [] i e es
      simp only [List.append_nil] at this
      rw [this]
      cases e; simp [List.map_map, Function.comp_def]
    · have h2 := ih (pre ++ e.subs.map (fun s => (⟨i, s⟩ : NonLead))) (i + 1)
      simp only [List.length_append, List.length_map, canonNL, List.append_assoc] at h2 ⊢
      exact h2

end PnVerif.ReqQueue
