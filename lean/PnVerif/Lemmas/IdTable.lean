import PnVerif.Model.IdTable
/- C17 helper lemmas about the id table -/
namespace PnVerif.IdTable

variable {α : Type}

/-- number of occupied elements of pnc_filelist[] -/
def countSome : List (Option α) → Nat
  | [] => 0
  | none :: r => countSome r
  | some _ :: r => countSome r + 1

/-- the invariant of the two statics: pnc_numfiles = number of non-NULL elements -/
def Consistent (t : Tab α) : Prop := t.num = (countSome t.slots : Int)

def free (t : Tab α) : Nat := t.cap - countSome t.slots

theorem countSome_le (l : List (Option α)) : countSome l ≤ l.length := by
  induction l with
  | nil => simp [countSome]
  | cons x r ih => cases x <;> simp [countSome] <;> omega

theorem countSome_replicate (n : Nat) : countSome (List.replicate n (none : Option α)) = 0 := by
  induction n with
  | zero => rfl
  | succ k ih => simp [List.replicate_succ, countSome, ih]

theorem firstFree_none_iff (l : List (Option α)) : firstFree l = none ↔ countSome l = l.length := by
  induction l with
  | nil => simp [firstFree, countSome]
  | cons x r ih =>
    cases x with
    | none =>
      have := countSome_le r
      simp [firstFree, countSome]; omega
    | some a => simp [firstFree, countSome, ih]

theorem firstFree_some {l : List (Option α)} {i : Nat} (h : firstFree l = some i) :
    l[i]? = some none ∧ ∀ j, j < i → ∃ q, l[j]? = some (some q) := by
  induction l generalizing i with
  | nil => simp [firstFree] at h
  | cons x r ih =>
    cases x with
    | none =>
      simp only [firstFree, Option.some.injEq] at h
      subst h
      exact ⟨by simp, by intro j hj; omega⟩
    | some a =>
      simp only [firstFree, Option.map_eq_some_iff] at h
      obtain ⟨i', hi', rfl⟩ := h
      obtain ⟨h1, h2⟩ := ih hi'
      refine ⟨by simpa using h1, ?_⟩
      intro j hj
      cases j with
      | zero => exact ⟨a, by simp⟩
      | succ j' => simpa using h2 j' (by omega)

theorem countSome_set_some {l : List (Option α)} {i : Nat} (h : l[i]? = some none) (p : α) :
    countSome (l.set i (some p)) = countSome l + 1 := by
  induction l generalizing i with
  | nil => simp at h
  | cons x r ih =>
    cases i with
    | zero =>
      simp only [List.getElem?_cons_zero, Option.some.injEq] at h
      subst h
      simp [countSome]
    | succ j =>
      simp only [List.getElem?_cons_succ] at h
      cases x <;> simp [countSome, ih h]

theorem countSome_set_none {l : List (Option α)} {i : Nat} {q : α} (h : l[i]? = some (some q)) :
    countSome (l.set i none) + 1 = countSome l := by
  induction l generalizing i with
  | nil => simp at h
  | cons x r ih =>
    cases i with
    | zero =>
      simp only [List.getElem?_cons_zero, Option.some.injEq] at h
      subst h
      simp [countSome]
    | succ j =>
      simp only [List.getElem?_cons_succ] at h
      cases x <;> simp [countSome] <;> have := ih h <;> omega

theorem countSome_set_same {l : List (Option α)} {i : Nat} {q : α} (h : l[i]? = some (some q)) (p : α) :
    countSome (l.set i (some p)) = countSome l := by
  induction l generalizing i with
  | nil => simp at h
  | cons x r ih =>
    cases i with
    | zero =>
      simp only [List.getElem?_cons_zero, Option.some.injEq] at h
      subst h
      simp [countSome]
    | succ j =>
      simp only [List.getElem?_cons_succ] at h
      cases x <;> simp [countSome, ih h]

theorem countSome_zero {l : List (Option α)} (h : countSome l = 0) (i : Nat) (hi : i < l.length) :
    l[i]? = some none := by
  induction l generalizing i with
  | nil => simp at hi
  | cons x r ih =>
    cases x with
    | some a => simp [countSome] at h
    | none =>
      cases i with
      | zero => simp
      | succ j => simpa using ih (by simpa [countSome] using h) j (by simpa using hi)

theorem init_inv (N : Nat) : Consistent (init α N) := by
  simp [Consistent, init, countSome_replicate]

theorem init_free (N : Nat) : free (init α N) = N := by
  simp [free, init, Tab.cap, countSome_replicate]

/-- complete description of new_id_PNCList on a consistent table -/
theorem newId_spec {t : Tab α} (inv : Consistent t) (p : α) :
    (free t = 0 ∧ newId t p = (t, NC_ENFILE, -1)) ∨
    (∃ i : Nat, newId t p = (⟨t.slots.set i (some p), t.num + 1⟩, NC_NOERR, (i : Int)) ∧
       t.slots[i]? = some none ∧ (∀ j, j < i → ∃ q, t.slots[j]? = some (some q)) ∧ 0 < free t) := by
  unfold Consistent at inv
  have hle := countSome_le t.slots
  by_cases hfull : t.num = t.cap
  · left
    refine ⟨?_, by simp [newId, hfull]⟩
    unfold free; unfold Tab.cap at hfull ⊢; omega
  · right
    have hne : countSome t.slots ≠ t.slots.length := by
      intro e; apply hfull; unfold Tab.cap; omega
    cases hff : firstFree t.slots with
    | none => exact absurd ((firstFree_none_iff _).mp hff) hne
    | some i =>
      obtain ⟨h1, h2⟩ := firstFree_some hff
      refine ⟨i, by simp [newId, hfull, hff], h1, h2, ?_⟩
      unfold free Tab.cap; omega

theorem newId_inv {t : Tab α} (inv : Consistent t) (p : α) : Consistent (newId t p).1 := by
  rcases newId_spec inv p with ⟨_, h⟩ | ⟨i, h, hi, _, _⟩
  · rw [h]; exact inv
  · rw [h]
    unfold Consistent at inv ⊢
    simp only [countSome_set_some hi p, inv]
    omega

theorem del_inv {t : Tab α} (inv : Consistent t) {id : Nat} {q : α} (h : t.slots[id]? = some (some q)) :
    Consistent (del t id) := by
  unfold Consistent at inv ⊢
  have := countSome_set_none h
  simp only [del, inv]
  omega

/-- PNC_check_id returns an object only if that object is in the slot -/
theorem checkId_ok {b : Bool} {t : Tab α} {ncid : Int} {p : α} (h : checkId b t ncid = .ok p) :
    0 ≤ ncid ∧ ncid.toNat < t.cap ∧ t.slots[ncid.toNat]? = some (some p) := by
  unfold checkId at h
  split at h
  · cases h
  · rename_i hc
    have hr : 0 ≤ ncid ∧ ncid.toNat < t.cap := by omega
    split at h
    · rename_i q hq
      cases h
      exact ⟨hr.1, hr.2, hq⟩
    · split at h <;> cases h

theorem step_inv (b : Bool) {t : Tab α} (inv : Consistent t) (op : Op α) : Consistent (step b t op).1 := by
  cases op with
  | create p derr =>
    rcases newId_spec inv p with ⟨_, h⟩ | ⟨i, h, hi, _, _⟩
    · simp only [step, h]
      simp [NC_ENFILE, NC_NOERR, inv]
    · simp only [step, h]
      simp only [ne_eq, not_true_eq_false, if_false]
      split
      · have h1 : (t.slots.set i (some p))[i]? = some (some p) := by
          have : i < t.slots.length := by
            rcases Nat.lt_or_ge i t.slots.length with h' | h'
            · exact h'
            · rw [List.getElem?_eq_none h'] at hi; cases hi
          simp [this]
        have inv1 : Consistent (⟨t.slots.set i (some p), t.num + 1⟩ : Tab α) := by
          unfold Consistent at inv ⊢
          simp only [countSome_set_some hi p, inv]; omega
        simpa using del_inv inv1 h1
      · unfold Consistent at inv ⊢
        simp only [countSome_set_some hi p, inv]; omega
  | close ncid f =>
    simp only [step]
    cases hc : checkId b t ncid with
    | badid => exact inv
    | null => exact inv
    | ok p => exact del_inv inv (checkId_ok hc).2.2
  | call ncid f =>
    simp only [step]
    cases hc : checkId b t ncid with
    | badid => exact inv
    | null => exact inv
    | ok p =>
      unfold Consistent at inv ⊢
      simp only [countSome_set_same (checkId_ok hc).2.2, inv]

theorem run_inv (b : Bool) {t : Tab α} (inv : Consistent t) (ops : List (Op α)) : Consistent (run b t ops).1 := by
  induction ops generalizing t with
  | nil => exact inv
  | cons op rest ih =>
    simp only [run]
    have h1 := step_inv b inv op
    rcases hs : step b t op with ⟨t', o, id⟩
    rw [hs] at h1
    cases o with
    | crash => exact inv
    | ret e => exact ih h1

theorem step_true_no_crash (t : Tab α) (op : Op α) : (step true t op).2.1 ≠ .crash := by
  have hnull : ∀ ncid, checkId true t ncid ≠ (.null : Chk α) := by
    intro ncid h
    unfold checkId at h
    split at h
    · cases h
    · split at h
      · cases h
      · simp at h
  cases op with
  | create p derr =>
    simp only [step]
    rcases newId t p with ⟨t1, e, id⟩
    simp only
    split
    · simp
    · split <;> simp
  | close ncid f =>
    simp only [step]
    cases hc : checkId true t ncid with
    | badid => simp
    | null => exact absurd hc (hnull ncid)
    | ok p => simp
  | call ncid f =>
    simp only [step]
    cases hc : checkId true t ncid with
    | badid => simp
    | null => exact absurd hc (hnull ncid)
    | ok p => simp

theorem run_true_no_crash (t : Tab α) (ops : List (Op α)) : Outcome.crash ∉ (run true t ops).2 := by
  induction ops generalizing t with
  | nil => simp [run]
  | cons op rest ih =>
    simp only [run]
    have h1 := step_true_no_crash t op
    rcases hs : step true t op with ⟨t', o, id⟩
    rw [hs] at h1
    cases o with
    | crash => exact absurd rfl h1
    | ret e =>
      simp only [List.mem_cons, not_or]
      exact ⟨by simp, ih t'⟩

end PnVerif.IdTable
