import PnVerif.Model.NumRecs
/-
  Helper lemmas for Props/C05.lean: folds of `max`, the `raiseAll` / `syncCore` building blocks, and the
  invariant / monotonicity relations.
-/
namespace PnVerif.NumRecs

/-! ### maxOver -/
theorem le_maxOver_base (b : Nat) (l : List Nat) : b ≤ maxOver b l := by
  unfold maxOver
  induction l generalizing b with
  | nil => exact Nat.le_refl _
  | cons x xs ih => exact Nat.le_trans (Nat.le_max_left b x) (ih (max b x))

theorem le_maxOver_mem (b : Nat) (l : List Nat) (x : Nat) (h : x ∈ l) : x ≤ maxOver b l := by
  unfold maxOver
  induction l generalizing b with
  | nil => cases h
  | cons y ys ih =>
    rcases List.mem_cons.mp h with rfl | h'
    · exact Nat.le_trans (Nat.le_max_right b x) (le_maxOver_base (max b x) ys)
    · exact ih (max b y) h'

theorem maxOver_le (b c : Nat) (l : List Nat) (hb : b ≤ c) (h : ∀ x ∈ l, x ≤ c) : maxOver b l ≤ c := by
  unfold maxOver
  induction l generalizing b with
  | nil => exact hb
  | cons y ys ih =>
    apply ih
    · exact Nat.max_le.mpr ⟨hb, h y (List.mem_cons_self)⟩
    · intro x hx; exact h x (List.mem_cons_of_mem _ hx)

theorem maxOver_mono_base (a b : Nat) (l : List Nat) (h : a ≤ b) : maxOver a l ≤ maxOver b l :=
  maxOver_le a _ l (Nat.le_trans h (le_maxOver_base b l)) (fun x hx => le_maxOver_mem b l x hx)

/-- `maxOver b l = max b (maxOver 0 l)` -/
theorem maxOver_eq_max (b : Nat) (l : List Nat) : maxOver b l = max b (maxOver 0 l) := by
  apply Nat.le_antisymm
  · apply maxOver_le
    · exact Nat.le_max_left _ _
    · intro x hx; exact Nat.le_trans (le_maxOver_mem 0 l x hx) (Nat.le_max_right _ _)
  · apply Nat.max_le.mpr
    exact ⟨le_maxOver_base b l, maxOver_mono_base 0 b l (Nat.zero_le _)⟩

/-- the maximum is attained (or is the base) -/
theorem maxOver_mem_or (b : Nat) (l : List Nat) : maxOver b l = b ∨ maxOver b l ∈ l := by
  unfold maxOver
  induction l generalizing b with
  | nil => exact Or.inl rfl
  | cons y ys ih =>
    rcases ih (max b y) with h | h
    · simp only [List.foldl_cons]
      rw [h]
      rcases Nat.le_total b y with hby | hby
      · right; rw [Nat.max_eq_right hby]; exact List.mem_cons_self
      · left; exact Nat.max_eq_left hby
    · right; exact List.mem_cons_of_mem _ h

/-! ### relations -/
/-- the specification's invariant (see Props/C05.lean for the reading) -/
structure Inv (w : World) : Prop where
  nonempty : w.ranks ≠ []
  coll : w.indep = false → (∀ r ∈ w.ranks, r.numrecs = w.hi) ∧ w.hdr = w.hi
  ind : w.indep = true → (∀ r ∈ w.ranks, r.numrecs ≤ w.hi) ∧ w.hdr ≤ w.hi ∧ (∃ r ∈ w.ranks, r.numrecs = w.hi)
  own : ∀ r ∈ w.ranks, r.own ≤ r.numrecs
  rootHdr : ∀ root, w.ranks.head? = some root → w.hdr ≤ root.numrecs

theorem head?_map_some {α β : Type} (g : α → β) (l : List α) (b : β) (h : (l.map g).head? = some b) :
    ∃ a, l.head? = some a ∧ a ∈ l ∧ b = g a := by
  cases l with
  | nil => simp at h
  | cons x xs =>
    simp only [List.map_cons, List.head?_cons, Option.some.injEq] at h
    exact ⟨x, rfl, List.mem_cons_self, h.symm⟩

/-- two lists related position by position -/
inductive Pointwise {α : Type} (R : α → α → Prop) : List α → List α → Prop where
  | nil : Pointwise R [] []
  | cons {a b : α} {l1 l2 : List α} : R a b → Pointwise R l1 l2 → Pointwise R (a :: l1) (b :: l2)

/-- rank by rank (same position, same id) the record count did not decrease, nor did the header field -/
def Mono (w w' : World) : Prop :=
  w.hdr ≤ w'.hdr ∧ Pointwise (fun r r' => r.id = r'.id ∧ r.numrecs ≤ r'.numrecs) w.ranks w'.ranks

theorem forall2_map {α : Type} (R : α → α → Prop) (l : List α) (g : α → α) (h : ∀ r ∈ l, R r (g r)) :
    Pointwise R l (l.map g) := by
  induction l with
  | nil => exact Pointwise.nil
  | cons x xs ih =>
    exact Pointwise.cons (h x (List.mem_cons_self)) (ih (fun r hr => h r (List.mem_cons_of_mem _ hr)))

theorem forall2_trans {α : Type} (R : α → α → Prop) (ht : ∀ a b c, R a b → R b c → R a c)
    {l1 l2 l3 : List α} (h12 : Pointwise R l1 l2) (h23 : Pointwise R l2 l3) : Pointwise R l1 l3 := by
  induction h12 generalizing l3 with
  | nil => cases h23; exact Pointwise.nil
  | cons hab _ ih =>
    cases h23 with
    | cons hbc t23 => exact Pointwise.cons (ht _ _ _ hab hbc) (ih t23)

theorem forall2_refl {α : Type} (R : α → α → Prop) (hr : ∀ a, R a a) (l : List α) : Pointwise R l l := by
  induction l with
  | nil => exact Pointwise.nil
  | cons x xs ih => exact Pointwise.cons (hr x) ih

theorem Mono.refl (w : World) : Mono w w :=
  ⟨Nat.le_refl _, forall2_refl _ (fun r => ⟨rfl, Nat.le_refl _⟩) _⟩

theorem Mono.trans {a b c : World} (h1 : Mono a b) (h2 : Mono b c) : Mono a c :=
  ⟨Nat.le_trans h1.1 h2.1,
   forall2_trans _ (fun x y z hxy hyz => ⟨hxy.1.trans hyz.1, Nat.le_trans hxy.2 hyz.2⟩) h1.2 h2.2⟩

/-- Mono for a world whose ranks were mapped -/
theorem mono_of_map (w : World) (hdr' : Nat) (ind' : Bool) (hi' : Nat) (g : Rank → Rank)
    (hh : w.hdr ≤ hdr') (hg : ∀ r ∈ w.ranks, r.id = (g r).id ∧ r.numrecs ≤ (g r).numrecs) :
    Mono w { ranks := w.ranks.map g, hdr := hdr', indep := ind', hi := hi' } :=
  ⟨hh, forall2_map _ _ _ hg⟩

theorem head_mem {α : Type} {l : List α} {x : α} {xs : List α} (h : l = x :: xs) : x ∈ l := by
  rw [h]; exact List.mem_cons_self

/-! ### raiseAll -/
theorem raiseAll_ranks (w : World) (M : Nat) :
    (raiseAll w M).ranks = w.ranks.map (fun r => if r.numrecs < M then { r with numrecs := M } else r) := rfl
theorem raiseAll_indep (w : World) (M : Nat) : (raiseAll w M).indep = w.indep := rfl
theorem raiseAll_hi (w : World) (M : Nat) : (raiseAll w M).hi = w.hi := rfl

/-- the per-rank effect of raiseAll -/
def raiseRank (M : Nat) (r : Rank) : Rank := if r.numrecs < M then { r with numrecs := M } else r
theorem raiseRank_numrecs (M : Nat) (r : Rank) : (raiseRank M r).numrecs = max r.numrecs M := by
  unfold raiseRank; split
  · simp only; omega
  · omega
theorem raiseRank_id (M : Nat) (r : Rank) : (raiseRank M r).id = r.id := by unfold raiseRank; split <;> rfl
theorem raiseRank_own (M : Nat) (r : Rank) : (raiseRank M r).own = r.own := by unfold raiseRank; split <;> rfl
theorem raiseRank_pending (M : Nat) (r : Rank) : (raiseRank M r).pending = r.pending := by unfold raiseRank; split <;> rfl
theorem raiseAll_ranks' (w : World) (M : Nat) : (raiseAll w M).ranks = w.ranks.map (raiseRank M) := rfl

/-- header field after raiseAll when root holds `h` records -/
theorem raiseAll_hdr_of_root (w : World) (M h : Nat) (root : Rank) (rest : List Rank)
    (hr : w.ranks = root :: rest) (hn : root.numrecs = h) :
    (raiseAll w M).hdr = if h < M then M else w.hdr := by
  unfold raiseAll writeNumrecs
  simp only [hr, hn]
  split
  · rename_i hlt; simp only [hlt, true_or, if_true]; omega
  · rfl

theorem raiseAll_hdr_le (w : World) (M b : Nat) (hh : w.hdr ≤ b) (hM : M ≤ b)
    (hr : ∀ r ∈ w.ranks, r.numrecs ≤ b) : (raiseAll w M).hdr ≤ b := by
  unfold raiseAll writeNumrecs
  cases hq : w.ranks with
  | nil => simpa using hh
  | cons root rest =>
    have := hr root (head_mem hq)
    simp only
    split
    · split
      · exact Nat.max_le.mpr ⟨this, hM⟩
      · exact hh
    · exact hh

theorem raiseAll_hdr_ge (w : World) (M : Nat) (hinv : ∀ root rest, w.ranks = root :: rest → w.hdr ≤ max root.numrecs M ∨ ¬ root.numrecs < M) :
    w.hdr ≤ (raiseAll w M).hdr := by
  unfold raiseAll writeNumrecs
  cases hq : w.ranks with
  | nil => exact Nat.le_refl _
  | cons root rest =>
    simp only
    split
    · rename_i hlt
      rcases hinv root rest hq with h | h
      · simp only [hlt, true_or, if_true]; exact h
      · exact absurd hlt h
    · exact Nat.le_refl _

end PnVerif.NumRecs
