import PnVerif.Lemmas.ReqQueueWait
/-
  The queue invariant and its preservation by post / wait / cancel.
-/
namespace PnVerif.ReqQueue

/-- invariant of one queue, `par` = 0 for the put queue and 1 for the get queue -/
structure QInv (q : Q) (par : Int) (v : List Entry) : Prop where
  rep : Rep q v
  clean : Clean v
  distinct : Distinct v
  noEmpty : NoEmpty v
  ids : ∀ e ∈ v, e.c.id % 2 = par ∧ 0 ≤ e.c.id ∧ e.c.id ≤ q.maxId
  maxPar : v ≠ [] → q.maxId % 2 = par

theorem QInv.ne_null {q : Q} {par : Int} {v : List Entry} (h : QInv q par v) :
    ∀ e ∈ v, e.c.id ≠ NC_REQ_NULL := by
  intro e he hn
  have := (h.ids e he).2.1
  rw [hn] at this
  exact absurd this (by decide)

/-! ### sub-lists keep the invariant -/

theorem QInv.of_sublist {q q' : Q} {par : Int} {v v' : List Entry} (h : QInv q par v)
    (hs : v'.Sublist v) (hr : Rep q' v') (hm : q'.maxId = q.maxId) : QInv q' par v' := by
  refine ⟨hr, ?_, ?_, ?_, ?_, ?_⟩
  · intro e he; exact h.clean e (hs.subset he)
  · exact List.Pairwise.sublist hs h.distinct
  · intro e he; exact h.noEmpty e (hs.subset he)
  · intro e he; rw [hm]; exact h.ids e (hs.subset he)
  · intro hne; rw [hm]; apply h.maxPar; intro hv; rw [hv] at hs; exact hne (List.sublist_nil.mp hs)

theorem eraseId_sublist (rid : Int) (v : List Entry) : (eraseId rid v).Sublist v := by
  induction v with
  | nil => exact List.Sublist.slnil
  | cons e es ih =>
    unfold eraseId
    split
    · exact List.Sublist.cons_cons e ih
    · exact List.sublist_cons_self e es

theorem eraseId_eq_filter (rid : Int) (v : List Entry) (hd : Distinct v) (hn : ∀ e ∈ v, e.c.id ≠ NC_REQ_NULL) :
    eraseId rid v = v.filter (fun e => decide (e.c.id ≠ rid)) := by
  induction v with
  | nil => rfl
  | cons e es ih =>
    have hd' := List.pairwise_cons.mp hd
    have hn' : ∀ x ∈ es, x.c.id ≠ NC_REQ_NULL := fun x hx => hn x (List.mem_cons_of_mem _ hx)
    have hne := hn e List.mem_cons_self
    by_cases hid : e.c.id = rid
    · have hc : ¬ (e.c.id = NC_REQ_NULL ∨ e.c.id ≠ rid) := by
        intro h; rcases h with h | h
        · exact hne h
        · exact h hid
      have h1 : eraseId rid (e :: es) = es := by
        show (if e.c.id = NC_REQ_NULL ∨ e.c.id ≠ rid then e :: eraseId rid es else es) = es
        rw [if_neg hc]
      have h2 : (e :: es).filter (fun e => decide (e.c.id ≠ rid)) = es.filter (fun e => decide (e.c.id ≠ rid)) := by
        rw [List.filter_cons]; simp [hid]
      rw [h1, h2]
      symm
      rw [List.filter_eq_self]
      intro x hx
      have := hd'.1 x hx
      simp; intro h; exact this (hid.trans h.symm)
    · have hc : (e.c.id = NC_REQ_NULL ∨ e.c.id ≠ rid) := Or.inr hid
      have h1 : eraseId rid (e :: es) = e :: eraseId rid es := by
        show (if e.c.id = NC_REQ_NULL ∨ e.c.id ≠ rid then e :: eraseId rid es else es) = e :: eraseId rid es
        rw [if_pos hc]
      have h2 : (e :: es).filter (fun e => decide (e.c.id ≠ rid)) = e :: es.filter (fun e => decide (e.c.id ≠ rid)) := by
        rw [List.filter_cons]; simp [hid]
      rw [h1, h2, ih hd'.2 hn']

/-! ### the "ALL" paths: every lead flagged, non-lead list handed over -/

theorem cleanupGo_allflagged (L : List Lead) (h : ∀ l ∈ L, l.c.toFree = true) :
    ∀ (i j : Nat) (nl : List NonLead), cleanupGo i j L nl = ([], nl, L) := by
  induction L with
  | nil => intro i j nl; rfl
  | cons l ls ih =>
    intro i j nl
    have hl := h l List.mem_cons_self
    simp only [cleanupGo, hl, if_true]
    rw [ih (fun x hx => h x (List.mem_cons_of_mem _ hx))]

theorem flagAll_flagged (L : List Lead) : ∀ l ∈ flagAll L, l.c.toFree = true := by
  intro l hl
  obtain ⟨x, _, rfl⟩ := List.mem_map.mp hl
  rfl

/-- a queue whose leads are all flagged and whose non-lead list has been handed to the I/O is
    empty after the post-I/O loop -/
theorem cleanup_all (q : Q) (L : List Lead) (n : Nat) (hn : n = q.numLead) (hlen : L.length = q.numLead) :
    let q1 : Q := { q with lead := flagAll L, nonlead := [], numReqs := 0 }
    Rep (q1.cleanup n).1 [] ∧ (q1.cleanup n).1.maxId = q.maxId := by
  intro q1
  unfold Q.cleanup
  by_cases h0 : n = 0
  · have hL : L = [] := List.eq_nil_of_length_eq_zero (by omega)
    subst hL
    simp only [h0, if_true]
    exact ⟨⟨rfl, rfl, by show q.numLead = 0; omega, rfl⟩, rfl⟩
  · simp only [h0, if_false]
    have := cleanupGo_allflagged (flagAll L) (flagAll_flagged L) 0 0 []
    simp only [q1, this]
    exact ⟨⟨rfl, rfl, rfl, rfl⟩, trivial⟩

theorem flagAll_slot (L : List Lead) : ∀ i, flagAll (slotByPosition i L) = flagAll (slotByPosition i L) := fun _ => rfl

theorem slotByPosition_length (L : List Lead) : ∀ i, (slotByPosition i L).length = L.length := by
  induction L with
  | nil => intro i; rfl
  | cons l ls ih => intro i; simp [slotByPosition, ih]

theorem cleanup_zero (q : Q) : q.cleanup 0 = (q, []) := by
  unfold Q.cleanup; simp

theorem compact_maxId (q : Q) (n : Nat) : (q.compact n).maxId = q.maxId := by
  unfold Q.compact; split <;> rfl

theorem cleanup_maxId (q : Q) (n : Nat) : (q.cleanup n).1.maxId = q.maxId := by
  unfold Q.cleanup; split <;> rfl

/-! ### post keeps the invariant -/

theorem insert_perm {α : Type} (v : List α) (p : Nat) (x : α) : (v.take p ++ [x] ++ v.drop p).Perm (x :: v) := by
  have h1 : (v.take p ++ [x] ++ v.drop p).Perm ([x] ++ v.take p ++ v.drop p) :=
    List.Perm.append_right _ List.perm_append_comm
  have h2 : [x] ++ v.take p ++ v.drop p = x :: v := by
    simp [List.take_append_drop]
  rw [h2] at h1; exact h1

theorem post_inv (q : Q) (par : Int) (v : List Entry) (h : QInv q par v)
    (first : Int) (hfirst : first % 2 = par ∧ 0 ≤ first) (sorted : Bool)
    (varBegin reqOff abuf : Int) (tag : Nat) (subs : List Sub) (maxRec : Int) (hsubs : subs ≠ []) :
    QInv (q.post first sorted varBegin reqOff abuf tag subs maxRec).1 par
      (v.take (postPos q sorted reqOff) ++ [newEntry (postId q first) varBegin abuf maxRec tag subs] ++
       v.drop (postPos q sorted reqOff)) := by
  rw [post_eq]
  simp only
  have hp := postPos_le q v h.rep sorted reqOff
  have hperm := insert_perm v (postPos q sorted reqOff) (newEntry (postId q first) varBegin abuf maxRec tag subs)
  have hv0 : q.numLead = 0 → v = [] := fun h0 => List.eq_nil_of_length_eq_zero (by rw [← h.rep.numLead]; exact h0)
  -- facts about the new id
  have hid : (postId q first) % 2 = par ∧ 0 ≤ postId q first ∧ (∀ e ∈ v, e.c.id < postId q first) := by
    unfold postId
    by_cases h0 : q.numLead = 0
    · simp only [h0, if_true]
      have := hv0 h0
      subst this
      exact ⟨hfirst.1, hfirst.2, by simp⟩
    · simp only [h0, if_false]
      have hne : v ≠ [] := by
        intro hv; rw [hv] at h; have := h.rep.numLead; simp at this; exact h0 this
      have hm := h.maxPar hne
      obtain ⟨e0, he0⟩ := List.exists_mem_of_ne_nil v hne
      have h00 := h.ids e0 he0
      refine ⟨by omega, by omega, ?_⟩
      intro e he; have := (h.ids e he).2.2; omega
  have hmem : ∀ e, e ∈ v.take (postPos q sorted reqOff) ++ [newEntry (postId q first) varBegin abuf maxRec tag subs] ++
      v.drop (postPos q sorted reqOff) → e = newEntry (postId q first) varBegin abuf maxRec tag subs ∨ e ∈ v := by
    intro e he
    have := hperm.mem_iff.mp he
    exact List.mem_cons.mp this
  refine ⟨postAt_rep q v h.rep _ hp _ _ _ _ _ _, ?_, ?_, ?_, ?_, ?_⟩
  · intro e he
    rcases hmem e he with rfl | he
    · rfl
    · exact h.clean e he
  · unfold Distinct
    refine (List.Perm.pairwise_iff (fun {a b} (hab : a.c.id ≠ b.c.id) => fun hba => hab hba.symm) hperm).mpr ?_
    refine List.pairwise_cons.mpr ⟨?_, h.distinct⟩
    intro e he
    have := hid.2.2 e he
    simp only [newEntry]; omega
  · intro e he
    rcases hmem e he with rfl | he
    · exact hsubs
    · exact h.noEmpty e he
  · intro e he
    simp only [postAt]
    rcases hmem e he with rfl | he
    · simp only [newEntry]; exact ⟨hid.1, hid.2.1, Int.le_refl _⟩
    · have := h.ids e he
      have := hid.2.2 e he
      refine ⟨by omega, by omega, by omega⟩
  · intro _
    simp only [postAt]; exact hid.1

/-! ### cancel keeps the invariant -/

theorem cancelView_sublist (ids : List Int) : ∀ (vP vG : List Entry),
    (cancelView ids vP vG).1.Sublist vP ∧ (cancelView ids vP vG).2.Sublist vG := by
  induction ids with
  | nil => intro vP vG; exact ⟨List.Sublist.refl _, List.Sublist.refl _⟩
  | cons rid rest ih =>
    intro vP vG
    unfold cancelView
    simp only [List.foldl_cons]
    by_cases hn : rid = NC_REQ_NULL
    · simp only [hn, if_true]; exact ih vP vG
    · simp only [hn, if_false]
      by_cases ho : rid % 2 = 1
      · simp only [ho, if_true]
        have := ih vP (eraseId rid vG)
        exact ⟨this.1, this.2.trans (eraseId_sublist rid vG)⟩
      · simp only [ho, if_false]
        have := ih (eraseId rid vP) vG
        exact ⟨this.1.trans (eraseId_sublist rid vP), this.2⟩

theorem remove_maxId (q : Q) (j : Nat) (l : Lead) : (q.remove j l).maxId = q.maxId := rfl

theorem cancelLoop_maxId (ids : List Int) : ∀ (i : Nat) (r : CancelRes),
    (cancelLoop i ids r).nc.put.maxId = r.nc.put.maxId ∧ (cancelLoop i ids r).nc.get.maxId = r.nc.get.maxId := by
  induction ids with
  | nil => intro i r; exact ⟨rfl, rfl⟩
  | cons rid rest ih =>
    intro i r
    unfold cancelLoop
    simp only []
    split
    · exact ih _ _
    · split
      · split
        · refine ⟨(ih _ _).1.trans ?_, (ih _ _).2.trans ?_⟩ <;> rfl
        · exact ih _ _
      · split
        · refine ⟨(ih _ _).1.trans ?_, (ih _ _).2.trans ?_⟩ <;> rfl
        · exact ih _ _

theorem freeIfEmpty_maxId (q : Q) : q.freeIfEmpty.maxId = q.maxId := by
  unfold Q.freeIfEmpty; split <;> rfl

/-- invariant of the two queues together -/
def Inv (nc : NC) : Prop := ∃ vP vG, QInv nc.put 0 vP ∧ QInv nc.get 1 vG

theorem QInv.empty (q : Q) (par : Int) (h : Rep q []) : QInv q par [] :=
  ⟨h, by intro e he; simp at he, List.Pairwise.nil, by intro e he; simp at he, by intro e he; simp at he,
   fun h => absurd rfl h⟩

theorem cancel_inv (nc : NC) (h : Inv nc) (num : Int) (ids : List Int) (st : Option (List Int)) :
    Inv (cancel nc num ids st).nc := by
  obtain ⟨vP, vG, hP, hG⟩ := h
  unfold cancel
  by_cases h0 : num = 0
  · simp only [h0, if_true]; exact ⟨vP, vG, hP, hG⟩
  · simp only [h0, if_false]
    by_cases hlt : num < NC_PUT_REQ_ALL
    · simp only [hlt, if_true]; exact ⟨vP, vG, hP, hG⟩
    · simp only [hlt, if_false]
      by_cases hneg : num < 0
      · simp only [hneg, if_true]
        by_cases hg : num = NC_GET_REQ_ALL ∨ num = NC_REQ_ALL
        · by_cases hp : num = NC_PUT_REQ_ALL ∨ num = NC_REQ_ALL
          · simp only [hg, hp, if_true]
            exact ⟨[], [], QInv.empty _ _ (clear_rep _), QInv.empty _ _ (clear_rep _)⟩
          · simp only [hg, hp, if_true, if_false]
            exact ⟨vP, [], hP, QInv.empty _ _ (clear_rep _)⟩
        · by_cases hp : num = NC_PUT_REQ_ALL ∨ num = NC_REQ_ALL
          · simp only [hg, hp, if_true, if_false]
            exact ⟨[], vG, QInv.empty _ _ (clear_rep _), hG⟩
          · simp only [hg, hp, if_false]
            exact ⟨vP, vG, hP, hG⟩
      · -- explicit id list: num ≥ 0, none of the constants
        have hg : ¬ (num = NC_GET_REQ_ALL ∨ num = NC_REQ_ALL) := by
          unfold NC_GET_REQ_ALL NC_REQ_ALL; omega
        have hp : ¬ (num = NC_PUT_REQ_ALL ∨ num = NC_REQ_ALL) := by
          unfold NC_PUT_REQ_ALL NC_REQ_ALL; omega
        simp only [hneg, hg, hp, if_false]
        have hrep := cancelLoop_rep ids 0 { nc := nc, ids := [], st := st, err := NC_NOERR } vP vG hP.rep hG.rep
        have hmax := cancelLoop_maxId ids 0 { nc := nc, ids := [], st := st, err := NC_NOERR }
        have hsub := cancelView_sublist ids vP vG
        refine ⟨(cancelView ids vP vG).1, (cancelView ids vP vG).2, ?_, ?_⟩
        · exact hP.of_sublist hsub.1 (freeIfEmpty_rep _ _ hrep.1) (by rw [freeIfEmpty_maxId, hmax.1])
        · exact hG.of_sublist hsub.2 (freeIfEmpty_rep _ _ hrep.2.1) (by rw [freeIfEmpty_maxId, hmax.2])

/-! ### wait keeps the invariant (whenever it is not refused) -/

theorem cleared_qinv (q : Q) (par : Int) (L : List Lead) (hlen : L.length = q.numLead) :
    QInv (({ q with lead := flagAll L, nonlead := [], numReqs := 0 } : Q).cleanup q.numLead).1 par [] :=
  QInv.empty _ _ (cleanup_all q L q.numLead rfl hlen).1

theorem lead_length_of_rep {q : Q} {v : List Entry} (h : Rep q v) : q.lead.length = q.numLead := by
  rw [h.lead, h.numLead]; simp

theorem wait_inv (nc : NC) (h : Inv nc) (num : Int) (ids : List Int) (st : Option (List Int)) (V : Variant := {})
    (herr : (wait nc num ids st V).err = NC_NOERR) : Inv (wait nc num ids st V).nc := by
  obtain ⟨vP, vG, hP, hG⟩ := h
  have hlP := lead_length_of_rep hP.rep
  have hlG := lead_length_of_rep hG.rep
  by_cases hc : num = NC_REQ_ALL ∨ num = NC_GET_REQ_ALL ∨ num = NC_PUT_REQ_ALL
  · rcases hc with hc | hc | hc
    · subst hc
      have h1 : (wait nc NC_REQ_ALL ids st V).nc.put = (nc.put.takeAll.cleanup nc.put.numLead).1 := by
        simp [wait, extract, NC_PUT_REQ_ALL, NC_REQ_ALL, NC_GET_REQ_ALL, NC_NOERR]
      have h2 : (wait nc NC_REQ_ALL ids st V).nc.get = (nc.get.takeAll.cleanup nc.get.numLead).1 := by
        simp [wait, extract, NC_PUT_REQ_ALL, NC_REQ_ALL, NC_GET_REQ_ALL, NC_NOERR]
      refine ⟨[], [], ?_, ?_⟩
      · rw [h1]; exact cleared_qinv nc.put 0 nc.put.lead hlP
      · rw [h2]; exact cleared_qinv nc.get 1 nc.get.lead hlG
    · subst hc
      have h1 : (wait nc NC_GET_REQ_ALL ids st V).nc.put = nc.put := by
        simp [wait, extract, NC_PUT_REQ_ALL, NC_REQ_ALL, NC_GET_REQ_ALL, NC_NOERR, cleanup_zero]
      have h2 : (wait nc NC_GET_REQ_ALL ids st V).nc.get = (nc.get.takeAll.cleanup nc.get.numLead).1 := by
        simp [wait, extract, NC_PUT_REQ_ALL, NC_REQ_ALL, NC_GET_REQ_ALL, NC_NOERR]
      refine ⟨vP, [], ?_, ?_⟩
      · rw [h1]; exact hP
      · rw [h2]; exact cleared_qinv nc.get 1 nc.get.lead hlG
    · subst hc
      have h1 : (wait nc NC_PUT_REQ_ALL ids st V).nc.put = (nc.put.takeAll.cleanup nc.put.numLead).1 := by
        simp [wait, extract, NC_PUT_REQ_ALL, NC_REQ_ALL, NC_GET_REQ_ALL, NC_NOERR]
      have h2 : (wait nc NC_PUT_REQ_ALL ids st V).nc.get = nc.get := by
        simp [wait, extract, NC_PUT_REQ_ALL, NC_REQ_ALL, NC_GET_REQ_ALL, NC_NOERR, cleanup_zero]
      refine ⟨[], vG, ?_, ?_⟩
      · rw [h1]; exact cleared_qinv nc.put 0 nc.put.lead hlP
      · rw [h2]; exact hG
  · by_cases hs1 : sc1 V nc num ids
    · have hext : extract nc num ids st V =
          { nc := { nc with put := { nc.put with lead := flagAll (if st.isSome then slotByPosition 0 nc.put.lead else nc.put.lead),
                                                 nonlead := [], numReqs := 0 } },
            ids := nullIds ids, st := st.map (zeroFirst nc.put.numLead),
            numWLead := nc.put.numLead, numW := nc.put.numReqs, putList := nc.put.nonlead } := by
        unfold extract; dsimp only; rw [if_neg hc, if_pos hs1]
      have h1 : (wait nc num ids st V).nc.put =
          (({ nc.put with lead := flagAll (if st.isSome then slotByPosition 0 nc.put.lead else nc.put.lead),
                          nonlead := [], numReqs := 0 } : Q).cleanup nc.put.numLead).1 := by
        unfold wait; rw [hext]; simp [NC_NOERR]
      have h2 : (wait nc num ids st V).nc.get = nc.get := by
        unfold wait; rw [hext]; simp [NC_NOERR, cleanup_zero]
      refine ⟨[], vG, ?_, ?_⟩
      · rw [h1]; apply cleared_qinv
        split
        · rw [slotByPosition_length]; exact hlP
        · exact hlP
      · rw [h2]; exact hG
    · by_cases hs2 : sc2 V nc num ids
      · have hext : extract nc num ids st V =
            { nc := { nc with get := { nc.get with lead := flagAll (if st.isSome then slotByPosition 0 nc.get.lead else nc.get.lead),
                                                   nonlead := [], numReqs := 0 } },
              ids := nullIds ids, st := st.map (zeroFirst nc.get.numLead),
              numRLead := nc.get.numLead, numR := nc.get.numReqs, getList := nc.get.nonlead } := by
          unfold extract; dsimp only; rw [if_neg hc, if_neg hs1, if_pos hs2]
        have h1 : (wait nc num ids st V).nc.get =
            (({ nc.get with lead := flagAll (if st.isSome then slotByPosition 0 nc.get.lead else nc.get.lead),
                            nonlead := [], numReqs := 0 } : Q).cleanup nc.get.numLead).1 := by
          unfold wait; rw [hext]; simp [NC_NOERR]
        have h2 : (wait nc num ids st V).nc.put = nc.put := by
          unfold wait; rw [hext]; simp [NC_NOERR, cleanup_zero]
        refine ⟨vP, [], ?_, ?_⟩
        · rw [h2]; exact hP
        · rw [h1]; apply cleared_qinv
          split
          · rw [slotByPosition_length]; exact hlG
          · exact hlG
      · by_cases hs3 : sc3 V nc num ids st
        · have hext : extract nc num ids st V =
              { nc := { nc with put := nc.put.takeAll, get := nc.get.takeAll },
                ids := nullIds ids, st := st,
                numWLead := nc.put.numLead, numW := nc.put.numReqs, putList := nc.put.nonlead,
                numRLead := nc.get.numLead, numR := nc.get.numReqs, getList := nc.get.nonlead } := by
            unfold extract; dsimp only; rw [if_neg hc, if_neg hs1, if_neg hs2, if_pos hs3]
          have h1 : (wait nc num ids st V).nc.put = (nc.put.takeAll.cleanup nc.put.numLead).1 := by
            unfold wait; rw [hext]; simp [NC_NOERR]
          have h2 : (wait nc num ids st V).nc.get = (nc.get.takeAll.cleanup nc.get.numLead).1 := by
            unfold wait; rw [hext]; simp [NC_NOERR]
          refine ⟨[], [], ?_, ?_⟩
          · rw [h1]; exact cleared_qinv nc.put 0 nc.put.lead hlP
          · rw [h2]; exact cleared_qinv nc.get 1 nc.get.lead hlG
        · have hsub : SubsetPath nc num ids st V := ⟨hc, hs1, hs2, hs3⟩
          have hw := wait_subset nc vP vG hP.rep hG.rep hP.clean hG.clean hP.distinct hG.distinct hP.noEmpty hG.noEmpty
            (fun e he => ⟨(hP.ids e he).1, hP.ne_null e he⟩)
            (fun e he => ⟨by have := (hG.ids e he).1; omega, hG.ne_null e he⟩)
            num ids st V hsub herr
          exact ⟨_, _, hP.of_sublist List.filter_sublist hw.1 hw.2.2.2.2.2.2.1,
                 hG.of_sublist List.filter_sublist hw.2.1 hw.2.2.2.2.2.2.2.1⟩

/-! ### cancel: the pending sets in closed form -/

theorem cancelView_filter (ids : List Int) : ∀ (vP vG : List Entry),
    Distinct vP → Distinct vG →
    (∀ e ∈ vP, e.c.id % 2 = 0 ∧ e.c.id ≠ NC_REQ_NULL) → (∀ e ∈ vG, e.c.id % 2 = 1 ∧ e.c.id ≠ NC_REQ_NULL) →
    cancelView ids vP vG = (vP.filter (fun e => decide (e.c.id ∉ ids)), vG.filter (fun e => decide (e.c.id ∉ ids))) := by
  induction ids with
  | nil =>
    intro vP vG _ _ _ _
    simp only [cancelView, List.foldl_nil, List.not_mem_nil, not_false_eq_true, decide_true]
    rw [List.filter_eq_self.mpr (fun _ _ => rfl), List.filter_eq_self.mpr (fun _ _ => rfl)]
  | cons rid rest ih =>
    intro vP vG hdP hdG hpP hpG
    unfold cancelView
    simp only [List.foldl_cons]
    have hfold : ∀ a b, List.foldl (fun acc rid =>
        if rid = NC_REQ_NULL then acc
        else if rid % 2 = 1 then (acc.1, eraseId rid acc.2)
        else (eraseId rid acc.1, acc.2)) (a, b) rest = cancelView rest a b := fun _ _ => rfl
    by_cases hn : rid = NC_REQ_NULL
    · simp only [hn, if_true]
      rw [hfold, ih vP vG hdP hdG hpP hpG]
      congr 1
      · apply List.filter_congr; intro x hx
        have := (hpP x hx).2; simp [this]
      · apply List.filter_congr; intro x hx
        have := (hpG x hx).2; simp [this]
    · simp only [hn, if_false]
      by_cases ho : rid % 2 = 1
      · simp only [ho, if_true]
        rw [hfold, eraseId_eq_filter rid vG hdG (fun e he => (hpG e he).2)]
        rw [ih vP _ hdP (List.Pairwise.sublist List.filter_sublist hdG) hpP
              (fun e he => hpG e (List.mem_filter.mp he).1)]
        congr 1
        · apply List.filter_congr; intro x hx
          have := (hpP x hx).1
          have hne : x.c.id ≠ rid := by intro h; rw [h] at this; omega
          simp [hne]
        · rw [List.filter_filter]
          apply List.filter_congr; intro x _
          by_cases h : x.c.id = rid <;> simp [h]
      · simp only [ho, if_false]
        rw [hfold, eraseId_eq_filter rid vP hdP (fun e he => (hpP e he).2)]
        rw [ih _ vG (List.Pairwise.sublist List.filter_sublist hdP) hdG
              (fun e he => hpP e (List.mem_filter.mp he).1) hpG]
        congr 1
        · rw [List.filter_filter]
          apply List.filter_congr; intro x _
          by_cases h : x.c.id = rid <;> simp [h]
        · apply List.filter_congr; intro x hx
          have := (hpG x hx).1
          have hne : x.c.id ≠ rid := by intro h; rw [h] at this; omega
          simp [hne]

/-! ### numrecs -/

theorem newNumrecs_allflagged (L : List Lead) (h : ∀ l ∈ L, l.c.toFree = true) :
    ∀ (a : Int), 0 ≤ a →
      L.foldl (fun acc l => if l.c.maxRec < 0 ∨ ¬ l.c.toFree then acc
                            else if acc < l.c.maxRec then l.c.maxRec else acc) a
        = maxRecOf a L ∧ a ≤ maxRecOf a L := by
  induction L with
  | nil => intro a _; exact ⟨rfl, Int.le_refl _⟩
  | cons l ls ih =>
    intro a ha
    have hl := h l List.mem_cons_self
    have ih' := ih (fun x hx => h x (List.mem_cons_of_mem _ hx))
    simp only [List.foldl_cons, maxRecOf, hl, not_true_eq_false, or_false]
    by_cases h1 : l.c.maxRec < 0
    · have h2 : ¬ a < l.c.maxRec := by omega
      simp only [h1, if_true, h2, if_false]
      exact ih' a ha
    · simp only [h1, if_false]
      by_cases h2 : a < l.c.maxRec
      · simp only [h2, if_true]
        have := ih' l.c.maxRec (by omega)
        exact ⟨this.1, by have := this.2; unfold maxRecOf at this; omega⟩
      · simp only [h2, if_false]
        exact ih' a ha

end PnVerif.ReqQueue
