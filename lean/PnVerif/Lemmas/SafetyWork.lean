import PnVerif.Lemmas.Safety
/-
  Lemmas/SafetyWork.lean — how much work the header reader does: bytes consumed on the zero-extended
  stream, bytes hdr_fetch asks MPI-IO for, the guarded reader, and the 40-byte witness of F14.
-/
namespace PnVerif.Safety
open PnVerif.Spec PnVerif.Header

/-- a run that never reads beyond the end of the stream consumes at most the stream -/
theorem consumed_le_of_inBounds {α : Type} (p : P α) :
    ∀ (s : Bytes), inBounds p s = true → consumed p s ≤ s.length := by
  induction p with
  | ret a => intro s _; simp [consumed]
  | fail e => intro s _; simp [consumed]
  | u32 k ih =>
    intro s h
    simp only [inBounds, Bool.and_eq_true, decide_eq_true_eq] at h
    have := ih _ _ h.2
    simp only [consumed, List.length_drop] at this ⊢
    omega
  | u64 k ih =>
    intro s h
    simp only [inBounds, Bool.and_eq_true, decide_eq_true_eq] at h
    have := ih _ _ h.2
    simp only [consumed, List.length_drop] at this ⊢
    omega
  | bytes n k ih =>
    intro s h
    simp only [inBounds, Bool.and_eq_true, decide_eq_true_eq] at h
    have := ih _ _ h.2
    simp only [consumed, List.length_drop] at this ⊢
    omega
  | pad q k ih =>
    intro s h
    simp only [inBounds, Bool.and_eq_true, decide_eq_true_eq] at h
    have := ih _ h.2
    simp only [consumed, List.length_drop] at this ⊢
    omega

/-- when the guarded reader stops at a read far beyond the end of the file, the unguarded reader
    consumes at least up to there -/
theorem guardRun_big {α : Type} (total limit : Nat) (p : P α) :
    ∀ (s : Bytes) (c : Nat) (wd : Bool) (b : Bool) (m : Nat) (w : Bool),
      guardRun total limit p s c wd = .big b m w → total + limit < m ∧ m ≤ c + consumed p s := by
  induction p with
  | ret a => intro s c wd b m w h; simp [guardRun] at h
  | fail e => intro s c wd b m w h; simp [guardRun] at h
  | u32 k ih =>
    intro s c wd b m w h
    simp only [guardRun] at h
    split at h
    · simp only [GRes.big.injEq] at h
      simp only [consumed]; omega
    · have := ih _ _ _ _ _ _ _ h
      simp only [consumed]; omega
  | u64 k ih =>
    intro s c wd b m w h
    simp only [guardRun] at h
    split at h
    · simp only [GRes.big.injEq] at h
      simp only [consumed]; omega
    · have := ih _ _ _ _ _ _ _ h
      simp only [consumed]; omega
  | bytes n k ih =>
    intro s c wd b m w h
    simp only [guardRun] at h
    split at h
    · simp only [GRes.big.injEq] at h
      simp only [consumed]; omega
    · have := ih _ _ _ _ _ _ _ h
      simp only [consumed]; omega
  | pad q k ih =>
    intro s c wd b m w h
    simp only [guardRun] at h
    split at h
    · simp only [GRes.big.injEq] at h
      simp only [consumed]; omega
    · have := ih _ _ _ _ _ _ h
      simp only [consumed]; omega

/-- the guarded reader is the flat reader wherever it answers -/
theorem guardRun_sound {α : Type} (total limit : Nat) (p : P α) :
    ∀ (s : Bytes) (c : Nat) (wd : Bool),
      (∀ a r c' w, guardRun total limit p s c wd = .ok a r c' w → run flatR p s = .ok (a, r)) ∧
      (∀ e c' w, guardRun total limit p s c wd = .err e c' w → run flatR p s = .error e) := by
  induction p with
  | ret a =>
    intro s c wd
    refine ⟨?_, ?_⟩
    · intro a' r c' w h
      simp only [guardRun, GRes.ok.injEq] at h
      obtain ⟨rfl, rfl, _, _⟩ := h
      rfl
    · intro e c' w h; simp [guardRun] at h
  | fail e =>
    intro s c wd
    refine ⟨?_, ?_⟩
    · intro a' r c' w h; simp [guardRun] at h
    · intro e' c' w h
      simp only [guardRun, GRes.err.injEq] at h
      obtain ⟨rfl, _, _⟩ := h
      rfl
  | u32 k ih =>
    intro s c wd
    refine ⟨?_, ?_⟩
    · intro a r c' w h
      simp only [guardRun] at h
      split at h
      · simp at h
      · exact (ih _ _ _ _).1 a r c' w h
    · intro e c' w h
      simp only [guardRun] at h
      split at h
      · simp at h
      · exact (ih _ _ _ _).2 e c' w h
  | u64 k ih =>
    intro s c wd
    refine ⟨?_, ?_⟩
    · intro a r c' w h
      simp only [guardRun] at h
      split at h
      · simp at h
      · exact (ih _ _ _ _).1 a r c' w h
    · intro e c' w h
      simp only [guardRun] at h
      split at h
      · simp at h
      · exact (ih _ _ _ _).2 e c' w h
  | bytes n k ih =>
    intro s c wd
    refine ⟨?_, ?_⟩
    · intro a r c' w h
      simp only [guardRun] at h
      split at h
      · simp at h
      · exact (ih _ _ _ _).1 a r c' w h
    · intro e c' w h
      simp only [guardRun] at h
      split at h
      · simp at h
      · exact (ih _ _ _ _).2 e c' w h
  | pad q k ih =>
    intro s c wd
    refine ⟨?_, ?_⟩
    · intro a r c' w h
      simp only [guardRun] at h
      split at h
      · simp at h
      · exact (ih _ _ _).1 a r c' w h
    · intro e c' w h
      simp only [guardRun] at h
      split at h
      · simp at h
      · exact (ih _ _ _).2 e c' w h

/-- bytes hdr_fetch asks MPI-IO for, against the bytes the decoder consumes: between
    `4 + consumed` and `chunk + 4 + consumed` (the window reads ahead by at most one chunk) -/
theorem bytesFetched_bounds (c : Nat) (file : Bytes) (f : Fmt) (hm : checkMagic (ztake 12 file) = .ok f) :
    4 + consumed (getBody f) (file.drop 4) ≤ bytesFetched c file ∧
    bytesFetched c file ≤ chunkOf c + 4 + consumed (getBody f) (file.drop 4) := by
  have hc := chunkOf_ge c
  have h0 := fetch_init file (chunkOf c) (zeros (chunkOf c))
  rw [fetch_init_eq] at h0
  have h4 := (advance_inv (k := 4) h0 (by show 0 + 4 ≤ chunkOf c; omega)).2
  have hnum := endWin_num (file := file) (chunk := chunkOf c) (by omega) (getBody f) _ _ h4
  unfold bytesFetched
  simp only [fetch_init_eq, take_ztake (show 12 ≤ chunkOf c by omega), hm]
  simp only [Nat.zero_add] at hnum
  obtain ⟨h1, h2⟩ := hnum
  omega

/-- when the magic is refused exactly one chunk is fetched -/
theorem bytesFetched_nomagic (c : Nat) (file : Bytes) (e : Err) (hm : checkMagic (ztake 12 file) = .error e) :
    bytesFetched c file = chunkOf c := by
  have hc := chunkOf_ge c
  unfold bytesFetched
  simp only [fetch_init_eq, take_ztake (show 12 ≤ chunkOf c by omega), hm]

/-- the verdict the driver prints (guarded reader) is the model's verdict wherever it is one -/
theorem openGuarded_sound (limit : Nat) (file : Bytes) :
    (∀ h info w, openGuarded limit file = .ok h info w → openVerdict file = .ok (h, info)) ∧
    (∀ e w, openGuarded limit file = .err e w → openVerdict file = .error e) := by
  unfold openGuarded openVerdict decodeWhole
  cases hf : inqFileFormat file with
  | error e0 =>
    refine ⟨?_, ?_⟩
    · intro h info w hg; simp at hg
    · intro e w hg
      simp only [Verdict.err.injEq] at hg
      rw [hg.1]
  | ok fmt =>
    simp only []
    cases hm : checkMagic (ztake 12 file) with
    | error e1 =>
      refine ⟨?_, ?_⟩
      · intro h info w hg; simp at hg
      · intro e w hg
        simp only [Verdict.err.injEq] at hg
        rw [← hg.1]
    | ok f =>
      simp only []
      have hs := guardRun_sound file.length limit (getBody f) (file.drop 4) 4 false
      cases hg0 : guardRun file.length limit (getBody f) (file.drop 4) 4 false with
      | big b m w =>
        refine ⟨?_, ?_⟩
        · intro h info w' hg; simp at hg
        · intro e w' hg; simp at hg
      | err e2 c w =>
        have hr := hs.2 e2 c w hg0
        rw [hr]
        refine ⟨?_, ?_⟩
        · intro h info w' hg; simp at hg
        · intro e w' hg
          simp only [Verdict.err.injEq] at hg
          rw [← hg.1]
      | ok h0 r c w =>
        have hr := hs.1 h0 r c w hg0
        rw [hr]
        simp only []
        cases hp : postPass h0 with
        | error e3 =>
          refine ⟨?_, ?_⟩
          · intro h info w' hg; simp at hg
          · intro e w' hg
            simp only [Verdict.err.injEq] at hg
            rw [← hg.1]
        | ok info0 =>
          refine ⟨?_, ?_⟩
          · intro h info w' hg
            simp only [Verdict.ok.injEq] at hg
            rw [hg.1, hg.2.1]
          · intro e w' hg; simp at hg
/-! ### the witness of F14 -/

/-- 40 bytes: "CDF\x01", numrecs 0, dim_list ABSENT, gatt_list = NC_ATTRIBUTE 1 attribute, name "a",
    type NC_DOUBLE (6), nelems 0x7fffffff — and then the file ends -/
def witness40 : Bytes :=
  [0x43, 0x44, 0x46, 0x01,  0, 0, 0, 0,  0, 0, 0, 0,  0, 0, 0, 0,  0, 0, 0, 12,  0, 0, 0, 1,
   0, 0, 0, 1,  0x61, 0, 0, 0,  0, 0, 0, 6,  0x7f, 0xff, 0xff, 0xff]

theorem witness40_length : witness40.length = 40 := by decide

theorem witness40_magic : checkMagic (ztake 12 witness40) = .ok .cdf1 := by rfl

set_option maxRecDepth 100000 in
/-- the guarded reader stops at the attribute values: they would end at stream position
    4 + 32 + 8·(2^31 − 1) = 17 179 869 216 of a 40-byte file -/
theorem witness40_big :
    guardRun 40 65536 (getBody .cdf1) (witness40.drop 4) 4 false = .big true 17179869216 false := by rfl

theorem witness40_consumed : 17179869212 ≤ consumed (getBody .cdf1) (witness40.drop 4) := by
  have := (guardRun_big 40 65536 (getBody .cdf1) _ _ _ _ _ _ witness40_big).2
  omega

/-- for every read chunk size the decoder asks MPI-IO for more than 17 GB on the 40-byte file -/
theorem witness40_fetched (c : Nat) : 17179869216 ≤ bytesFetched c witness40 := by
  have h1 := (bytesFetched_bounds c witness40 .cdf1 witness40_magic).1
  have h2 := witness40_consumed
  omega

end PnVerif.Safety
