import PnVerif.Lemmas.ToolsValidate
/-
  Lemmas about the ncvalidator model, part 3: what an accepting run says about the bytes.
  If the validator's reader returns `x` with all flags set, never had to read past the end of the file, and
  the fields of `x` fit the widths of the format (no sign bit, no NUL in names), then the bytes it consumed are
  exactly the library writer's encoding of `x`.
-/
namespace PnVerif.Tools
open PnVerif.Spec PnVerif.Header

theorem bind_inv {α β : Type} {p : VP α} {f : α → VP β} {s : Bytes} {r : β × Bytes} (h : (p >>= f) s = .ok r) :
    ∃ a s1, p s = .ok (a, s1) ∧ f a s1 = .ok r := by
  rw [bind_apply] at h
  cases hp : p s with
  | error e => rw [hp] at h; cases h
  | ok q => obtain ⟨a, s1⟩ := q; rw [hp] at h; exact ⟨a, s1, rfl, h⟩

theorem pure_inv {α : Type} {a : α} {s : Bytes} {r : α × Bytes} (h : (pure a : VP α) s = .ok r) : r = (a, s) := by
  rw [pure_apply] at h; cases h; rfl

theorem fail_inv {α : Type} {e : VErr} {s : Bytes} {r : α × Bytes} (h : (VP.fail e : VP α) s = .ok r) : False := by
  cases h

theorem u8_ofNat_toNat (a : UInt8) (k : Nat) (h : k % 256 = a.toNat) : UInt8.ofNat k = a := by
  apply UInt8.toNat_inj.mp
  rw [UInt8.toNat_ofNat']; exact h

theorem be32_beNat (bs : Bytes) (h : bs.length = 4) : be32 (beNat bs) = bs := by
  match bs, h with
  | [a, b, c, d], _ =>
    have ha := a.toNat_lt; have hb := b.toNat_lt; have hc := c.toNat_lt; have hd := d.toNat_lt
    simp only [beNat, be32, List.foldl_cons, List.foldl_nil]
    rw [u8_ofNat_toNat a _ (by omega), u8_ofNat_toNat b _ (by omega), u8_ofNat_toNat c _ (by omega), u8_ofNat_toNat d _ (by omega)]

theorem be64_beNat (bs : Bytes) (h : bs.length = 8) : be64 (beNat bs) = bs := by
  match bs, h with
  | [a, b, c, d, e, f, g, i], _ =>
    have ha := a.toNat_lt; have hb := b.toNat_lt; have hc := c.toNat_lt; have hd := d.toNat_lt
    have he := e.toNat_lt; have hf := f.toNat_lt; have hg := g.toNat_lt; have hi := i.toNat_lt
    simp only [beNat, be64, List.foldl_cons, List.foldl_nil]
    rw [u8_ofNat_toNat a _ (by omega), u8_ofNat_toNat b _ (by omega), u8_ofNat_toNat c _ (by omega), u8_ofNat_toNat d _ (by omega),
        u8_ofNat_toNat e _ (by omega), u8_ofNat_toNat f _ (by omega), u8_ofNat_toNat g _ (by omega), u8_ofNat_toNat i _ (by omega)]

theorem rdU32_inv {s s' : Bytes} {n : Nat} (h : rdU32 s = .ok (n, s')) (hl : 4 ≤ s.length) : s = be32 n ++ s' := by
  unfold rdU32 at h
  simp only [Except.ok.injEq, Prod.mk.injEq] at h
  obtain ⟨rfl, rfl⟩ := h
  rw [ztake_of_le hl, be32_beNat _ (by simp; omega), List.take_append_drop]

theorem rdU64_inv {s s' : Bytes} {n : Nat} (h : rdU64 s = .ok (n, s')) (hl : 8 ≤ s.length) : s = be64 n ++ s' := by
  unfold rdU64 at h
  simp only [] at h
  split at h
  · cases h
  · simp only [Except.ok.injEq, Prod.mk.injEq] at h
    obtain ⟨rfl, rfl⟩ := h
    rw [ztake_of_le hl, be64_beNat _ (by simp; omega), List.take_append_drop]

theorem rdBytes_inv {s s' x : Bytes} {n : Nat} (h : rdBytes n s = .ok (x, s')) (hl : n ≤ s.length) :
    s = x ++ s' ∧ x.length = n := by
  unfold rdBytes at h
  simp only [Except.ok.injEq, Prod.mk.injEq] at h
  obtain ⟨rfl, rfl⟩ := h
  rw [ztake_of_le hl, List.take_append_drop]
  exact ⟨rfl, by simp; omega⟩

theorem rdBytes_len {s s' x : Bytes} {n : Nat} (h : rdBytes n s = .ok (x, s')) : x.length = n := by
  unfold rdBytes at h
  simp only [Except.ok.injEq, Prod.mk.injEq] at h
  obtain ⟨rfl, _⟩ := h
  simp

theorem rdU64raw_inv {s s' : Bytes} {n : Nat} (h : rdU64raw s = .ok (n, s')) (hl : 8 ≤ s.length) : s = be64 n ++ s' := by
  unfold rdU64raw at h
  simp only [Except.ok.injEq, Prod.mk.injEq] at h
  obtain ⟨rfl, rfl⟩ := h
  rw [ztake_of_le hl, be64_beNat _ (by simp; omega), List.take_append_drop]

/-- `p >>= fun v => if bad v then fail else pure v` accepted: `p` returned that value -/
theorem guard_inv {p : VP Nat} {bad : Nat → Prop} [DecidablePred bad] {e : VErr} {s s' : Bytes} {n : Nat}
    (h : (p >>= fun v => if bad v then VP.fail e else pure v) s = .ok (n, s')) : p s = .ok (n, s') ∧ ¬ bad n := by
  obtain ⟨v, s1, h1, h⟩ := bind_inv h
  by_cases hb : bad v
  · simp only [hb, ↓reduceIte] at h; exact (fail_inv h).elim
  · simp only [hb, ↓reduceIte] at h
    have := pure_inv h
    simp only [Prod.mk.injEq] at this
    obtain ⟨rfl, rfl⟩ := this
    exact ⟨h1, hb⟩

theorem vNonNeg_inv (c : VCfg) (f : Fmt) {s s' : Bytes} {n : Nat} (h : vNonNeg c f.version s = .ok (n, s'))
    (hl : sizeofNonNeg f.version ≤ s.length) : s = putNonNeg f.version n ++ s' := by
  obtain ⟨sl, ss, st, d64⟩ := c
  cases ss <;> cases f
  · exact rdU32_inv (s := s) h (by simpa [sizeofNonNeg, Fmt.version] using hl)
  · exact rdU32_inv (s := s) h (by simpa [sizeofNonNeg, Fmt.version] using hl)
  · exact rdU64_inv (s := s) h (by simpa [sizeofNonNeg, Fmt.version] using hl)
  · exact rdU32_inv (guard_inv (p := rdU32) (bad := fun v => v > 2147483647) h).1 (by simpa [sizeofNonNeg, Fmt.version] using hl)
  · exact rdU32_inv (guard_inv (p := rdU32) (bad := fun v => v > 2147483647) h).1 (by simpa [sizeofNonNeg, Fmt.version] using hl)
  · exact rdU64raw_inv (guard_inv (p := rdU64raw) (bad := fun v => v ≥ 9223372036854775808) h).1 (by simpa [sizeofNonNeg, Fmt.version] using hl)

theorem vNumrecs_inv (c : VCfg) (f : Fmt) {s s' : Bytes} {n : Nat} (h : vNumrecs c f.version s = .ok (n, s'))
    (hl : sizeofNonNeg f.version ≤ s.length) : s = putNonNeg f.version n ++ s' := by
  obtain ⟨sl, ss, st, d64⟩ := c
  cases ss <;> cases f
  · exact rdU32_inv (s := s) h (by simpa [sizeofNonNeg, Fmt.version] using hl)
  · exact rdU32_inv (s := s) h (by simpa [sizeofNonNeg, Fmt.version] using hl)
  · exact rdU64_inv (s := s) h (by simpa [sizeofNonNeg, Fmt.version] using hl)
  · exact rdU32_inv (guard_inv (p := rdU32) (bad := fun v => v > 2147483647 ∧ v ≠ 4294967295) h).1 (by simpa [sizeofNonNeg, Fmt.version] using hl)
  · exact rdU32_inv (guard_inv (p := rdU32) (bad := fun v => v > 2147483647 ∧ v ≠ 4294967295) h).1 (by simpa [sizeofNonNeg, Fmt.version] using hl)
  · exact rdU64raw_inv (guard_inv (p := rdU64raw) (bad := fun v => v ≥ 9223372036854775808 ∧ v ≠ 18446744073709551615) h).1 (by simpa [sizeofNonNeg, Fmt.version] using hl)

theorem vVsize_inv (c : VCfg) (f : Fmt) {s s' : Bytes} {n : Nat} (h : vVsize c f.version s = .ok (n, s'))
    (hl : sizeofNonNeg f.version ≤ s.length) : s = putNonNeg f.version n ++ s' := by
  obtain ⟨sl, ss, st, d64⟩ := c
  cases ss <;> cases f
  · exact rdU32_inv (s := s) h (by simpa [sizeofNonNeg, Fmt.version] using hl)
  · exact rdU32_inv (s := s) h (by simpa [sizeofNonNeg, Fmt.version] using hl)
  · exact rdU64_inv (s := s) h (by simpa [sizeofNonNeg, Fmt.version] using hl)
  · exact rdU32_inv (s := s) h (by simpa [sizeofNonNeg, Fmt.version] using hl)
  · exact rdU32_inv (s := s) h (by simpa [sizeofNonNeg, Fmt.version] using hl)
  · exact rdU64raw_inv (s := s) h (by simpa [sizeofNonNeg, Fmt.version] using hl)

theorem vBegin_inv (c : VCfg) (f : Fmt) {s s' : Bytes} {n : Nat} (h : vBegin c f.version s = .ok (n, s'))
    (hl : sizeofOff f.version ≤ s.length) : s = putBegin f.version n ++ s' := by
  obtain ⟨sl, ss, st, d64⟩ := c
  cases ss <;> cases f
  · exact rdU32_inv (s := s) h (by simpa [sizeofOff, Fmt.version] using hl)
  · exact rdU64_inv (s := s) h (by simpa [sizeofOff, Fmt.version] using hl)
  · exact rdU64_inv (s := s) h (by simpa [sizeofOff, Fmt.version] using hl)
  · exact rdU32_inv (guard_inv (p := rdU32) (bad := fun v => v > 2147483647) h).1 (by simpa [sizeofOff, Fmt.version] using hl)
  · exact rdU64raw_inv (guard_inv (p := rdU64raw) (bad := fun v => v ≥ 9223372036854775808) h).1 (by simpa [sizeofOff, Fmt.version] using hl)
  · exact rdU64raw_inv (guard_inv (p := rdU64raw) (bad := fun v => v ≥ 9223372036854775808) h).1 (by simpa [sizeofOff, Fmt.version] using hl)

theorem allZero_eq : ∀ (b : Bytes), allZero b = true → b = zeros b.length := by
  intro b
  induction b with
  | nil => intro _; rfl
  | cons a t ih =>
    intro h
    simp only [allZero, List.all_cons, Bool.and_eq_true, beq_iff_eq] at h
    have := ih (by simpa [allZero] using h.2)
    simp only [List.length_cons, zeros, List.replicate_succ]
    rw [h.1]
    congr 1

/-- hdr_get_name accepted with null padding and without reading past the end: the bytes are the writer's -/
theorem vName_inv (c : VCfg) (f : Fmt) {s s' nm : Bytes} (h : vName c f.version s = .ok ((nm, true), s'))
    (hl : sizeofNonNeg f.version + rndup nm.length 4 ≤ s.length) (h0 : NoNul nm) :
    s = putName f.version nm ++ s' := by
  unfold vName at h
  obtain ⟨nchars, s1, h1, h⟩ := bind_inv h
  obtain ⟨x, s2, h2, h⟩ := bind_inv h
  have hx := rdBytes_len h2
  subst hx
  have e1 := vNonNeg_inv c f h1 (by omega)
  have hl1 : s1.length = s.length - sizeofNonNeg f.version := by
    have := congrArg List.length e1
    simp only [List.length_append, putNonNeg_length] at this
    omega
  unfold putName
  simp only [cstr_eq_self h0]
  have hp : rndup nm.length 4 - nm.length = (if nm.length % 4 ≠ 0 then 4 - nm.length % 4 else 0) := by
    unfold rndup; split <;> omega
  have hge : nm.length ≤ rndup nm.length 4 := by unfold rndup; omega
  by_cases hpad : rndup x.length 4 - x.length > 0
  · simp only [hpad, ↓reduceIte] at h
    obtain ⟨pad, s3, h3, h⟩ := bind_inv h
    have := pure_inv h
    simp only [Prod.mk.injEq] at this
    obtain ⟨⟨rfl, hz⟩, rfl⟩ := this
    obtain ⟨e2, _⟩ := rdBytes_inv h2 (by omega)
    have hl2 : s2.length = s1.length - nm.length := by
      have := congrArg List.length e2
      simp only [List.length_append] at this
      omega
    obtain ⟨e3, hpl⟩ := rdBytes_inv h3 (by omega)
    have hzz := allZero_eq pad hz.symm
    rw [e1, e2, e3, hzz, hpl, ← hp]
    simp [List.append_assoc]
  · simp only [hpad, ↓reduceIte] at h
    have := pure_inv h
    simp only [Prod.mk.injEq] at this
    obtain ⟨⟨rfl, _⟩, rfl⟩ := this
    obtain ⟨e2, _⟩ := rdBytes_inv h2 (by omega)
    have hz : (if nm.length % 4 ≠ 0 then 4 - nm.length % 4 else 0) = 0 := by rw [← hp]; omega
    rw [e1, e2, hz]
    simp [zeros, List.append_assoc]

theorem VFlags.and_eq_ok {a b : VFlags} (h : a.and b = VFlags.ok) : a = VFlags.ok ∧ b = VFlags.ok := by
  cases a; cases b
  simp only [VFlags.and, VFlags.ok, VFlags.mk.injEq, Bool.and_eq_true] at h ⊢
  exact ⟨⟨h.1.1, h.2.1⟩, ⟨h.1.2, h.2.2⟩⟩

theorem VFlags.ofPad_eq_ok {p : Bool} (h : VFlags.ofPad p = VFlags.ok) : p = true := by
  simp only [VFlags.ofPad, VFlags.ok, VFlags.mk.injEq, and_true] at h
  exact h

theorem length_of_eq_append {s x r : Bytes} (h : s = x ++ r) : r.length = s.length - x.length := by
  subst h; simp

theorem vDim_inv (c : VCfg) (f : Fmt) {s s' : Bytes} {d : Dim} {hu : Bool} (h : vDim c f.version hu s = .ok ((d, VFlags.ok), s'))
    (hl : lenDim (sizeofNonNeg f.version) d ≤ s.length) (h0 : NoNul d.name) : s = putDim f.version d ++ s' := by
  unfold vDim at h
  obtain ⟨⟨nm, ok⟩, s1, h1, h⟩ := bind_inv h
  simp only [] at h
  obtain ⟨len, s2, h2, h⟩ := bind_inv h
  by_cases hc : hu = true ∧ len = 0
  · simp only [hc, and_self, ↓reduceIte] at h; exact (fail_inv h).elim
  · simp only [hc, ↓reduceIte] at h
    have := pure_inv h
    simp only [Prod.mk.injEq] at this
    obtain ⟨⟨rfl, hf⟩, rfl⟩ := this
    have hok := VFlags.ofPad_eq_ok hf.symm
    subst hok
    unfold lenDim at hl
    simp only [] at hl h0
    have e1 := vName_inv c f h1 (by omega) h0
    have l1 := length_of_eq_append e1
    rw [putName_length f h0] at l1
    have e2 := vNonNeg_inv c f h2 (by omega)
    unfold putDim
    simp only []
    rw [e1, e2, List.append_assoc]

theorem vDims_succ_apply (c : VCfg) (ver n : Nat) (hu : Bool) (s : Bytes) :
    vDims c ver (n + 1) hu s = (do
      let (d, ok) ← vDim c ver hu
      let (ds, oks) ← vDims c ver n (hu || d.size == 0)
      pure (d :: ds, ok.and oks) : VP (List Dim × VFlags)) s := rfl

theorem vDims_inv (c : VCfg) (f : Fmt) : ∀ (n : Nat) (hu : Bool) (s s' : Bytes) (ds : List Dim) (fl : VFlags),
    vDims c f.version n hu s = .ok ((ds, fl), s') → fl = VFlags.ok →
    (ds.map (lenDim (sizeofNonNeg f.version))).sum ≤ s.length → (∀ d ∈ ds, NoNul d.name) →
    s = ds.flatMap (putDim f.version) ++ s' ∧ ds.length = n := by
  intro n
  induction n with
  | zero =>
    intro hu s s' ds fl h _ _ _
    have := pure_inv (show (pure ([], VFlags.ok) : VP (List Dim × VFlags)) s = _ from h)
    simp only [Prod.mk.injEq] at this
    obtain ⟨⟨rfl, _⟩, rfl⟩ := this
    simp
  | succ n ih =>
    intro hu s s' ds fl h hfl hl h0
    rw [vDims_succ_apply] at h
    obtain ⟨⟨d, ok⟩, s1, h1, h⟩ := bind_inv h
    simp only [] at h
    obtain ⟨⟨t, oks⟩, s2, h2, h⟩ := bind_inv h
    have := pure_inv h
    simp only [Prod.mk.injEq] at this
    obtain ⟨⟨rfl, rfl⟩, rfl⟩ := this
    obtain ⟨rfl, rfl⟩ := VFlags.and_eq_ok hfl
    simp only [List.map_cons, List.sum_cons] at hl
    have hd0 : NoNul d.name := h0 d (by simp)
    have e1 := vDim_inv c f h1 (by omega) hd0
    have l1 := length_of_eq_append e1
    have hpl : (putDim f.version d).length = lenDim (sizeofNonNeg f.version) d := by
      unfold putDim lenDim
      simp only [List.length_append, putName_length f hd0, putNonNeg_length]
    rw [hpl] at l1
    obtain ⟨e2, hn⟩ := ih _ s1 _ t VFlags.ok h2 rfl (by omega) (fun x hx => h0 x (by simp [hx]))
    refine ⟨?_, by simp [hn]⟩
    rw [e1, e2]
    simp [List.append_assoc]

theorem vTag_inv {s s' : Bytes} {t : Nat} (h : vTag s = .ok (t, s')) (hl : 4 ≤ s.length) : s = be32 t ++ s' := by
  unfold vTag at h
  obtain ⟨tag, s1, h1, h⟩ := bind_inv h
  by_cases hc : tag = 0 ∨ tag = 10 ∨ tag = 11 ∨ tag = 12
  · simp only [hc, ↓reduceIte] at h
    have := pure_inv h
    simp only [Prod.mk.injEq] at this
    obtain ⟨rfl, rfl⟩ := this
    exact rdU32_inv h1 hl
  · simp only [hc, ↓reduceIte] at h; exact (fail_inv h).elim

/-- the array reader accepted, every empty list written as ABSENT: the bytes are hdr_put_NC_*array's -/
theorem vArray_inv (c : VCfg) {α : Type} (f : Fmt) (tag maxN : Nat) (errMax : VErr) (items : Nat → VP (List α × VFlags))
    (enc : α → Bytes) (len : α → Nat) (WF : α → Prop) {s s' : Bytes} {xs : List α}
    (hi : ∀ (n : Nat) (s0 s1 : Bytes) (ys : List α) (fl : VFlags), items n s0 = .ok ((ys, fl), s1) → fl = VFlags.ok →
        (ys.map len).sum ≤ s0.length → (∀ y ∈ ys, WF y) → s0 = ys.flatMap enc ++ s1 ∧ ys.length = n)
    (h : vArray c f.version tag maxN errMax items s = .ok ((xs, VFlags.ok), s'))
    (hl : 4 + sizeofNonNeg f.version + (xs.map len).sum ≤ s.length) (hw : ∀ x ∈ xs, WF x) :
    s = (if xs.length = 0 then be32 0 ++ putNonNeg f.version 0
         else be32 tag ++ putNonNeg f.version xs.length ++ xs.flatMap enc) ++ s' := by
  unfold vArray at h
  obtain ⟨t, s1, h1, h⟩ := bind_inv h
  obtain ⟨n, s2, h2, h⟩ := bind_inv h
  have e1 := vTag_inv h1 (by omega)
  have l1 := length_of_eq_append e1
  simp only [be32_length] at l1
  have e2 := vNonNeg_inv c f h2 (by omega)
  have l2 := length_of_eq_append e2
  rw [putNonNeg_length] at l2
  by_cases c1 : n > maxN
  · simp only [c1, ↓reduceIte] at h; exact (fail_inv h).elim
  · simp only [c1, ↓reduceIte] at h
    by_cases c2 : n = 0
    · simp only [c2, ↓reduceIte] at h
      by_cases c4 : c.strictTag = true ∧ t ≠ 0 ∧ t ≠ tag
      · simp only [if_pos c4] at h; exact (fail_inv h).elim
      simp only [if_neg c4] at h
      have := pure_inv h
      simp only [Prod.mk.injEq, VFlags.ok, VFlags.mk.injEq, true_and] at this
      obtain ⟨⟨rfl, ht⟩, rfl⟩ := this
      have ht' : t = 0 := by simpa using ht.symm
      subst ht' c2
      simp only [List.length_nil, ↓reduceIte]
      rw [e1, e2, List.append_assoc]
    · simp only [c2, ↓reduceIte] at h
      by_cases c3' : t = tag
      case neg => simp only [c3', ne_eq, not_false_eq_true, ↓reduceIte] at h; exact (fail_inv h).elim
      case pos =>
        simp only [c3', ne_eq, not_true_eq_false, ↓reduceIte] at h
        obtain ⟨e3, hn⟩ := hi n s2 s' xs VFlags.ok h rfl (by omega) hw
        have : ¬ xs.length = 0 := by omega
        simp only [this, ↓reduceIte]
        rw [e1, e2, e3, c3', hn]
        simp [List.append_assoc]

theorem vType_inv (f : Fmt) {s s' : Bytes} {t : NcType} (h : vType f.version s = .ok (t, s')) (hl : 4 ≤ s.length) :
    s = be32 t.code ++ s' := by
  unfold vType at h
  obtain ⟨x, s1, h1, h⟩ := bind_inv h
  have e1 := rdU32_inv h1 hl
  by_cases c1 : x < 1
  · simp only [c1, ↓reduceIte] at h; exact (fail_inv h).elim
  · simp only [c1, ↓reduceIte] at h
    by_cases c2 : f.version < 5 ∧ x > 6
    · simp only [c2, and_self, ↓reduceIte] at h; exact (fail_inv h).elim
    · simp only [c2, ↓reduceIte] at h
      by_cases c3 : ¬ f.version < 5 ∧ x > 11
      · simp only [c3, not_false_eq_true, and_self, ↓reduceIte] at h; exact (fail_inv h).elim
      · simp only [c3, ↓reduceIte] at h
        cases ho : NcType.ofCode x with
        | none => rw [ho] at h; exact (fail_inv h).elim
        | some t' =>
          rw [ho] at h
          have := pure_inv h
          simp only [Prod.mk.injEq] at this
          obtain ⟨rfl, rfl⟩ := this
          rw [(ofCode_some ho).1]
          exact e1

theorem vAttr_inv (c : VCfg) (f : Fmt) {s s' : Bytes} {a : Att} (h : vAttr c f.version s = .ok ((a, VFlags.ok), s'))
    (hl : lenAttr (sizeofNonNeg f.version) a ≤ s.length) (h0 : NoNul a.name) :
    s = putAttr f.version a ++ s' ∧ a.xvalue.length = a.nelems * a.xtype.size := by
  unfold vAttr at h
  obtain ⟨⟨nm, ok1⟩, s1, h1, h⟩ := bind_inv h
  simp only [] at h
  obtain ⟨ty, s2, h2, h⟩ := bind_inv h
  obtain ⟨ne, s3, h3, h⟩ := bind_inv h
  obtain ⟨val, s4, h4, h⟩ := bind_inv h
  have hvl := rdBytes_len h4
  have key : a = { name := nm, xtype := ty, nelems := ne, xvalue := val } ∧ ok1 = true ∧
      ((if ne > 0 then xlenAttrV ty ne else 0) - ne * ty.size ≤ s4.length → s4 = zeros ((if ne > 0 then xlenAttrV ty ne else 0) - ne * ty.size) ++ s') := by
    by_cases hp : (if ne > 0 then xlenAttrV ty ne else 0) - ne * ty.size > 0
    · simp only [hp, ↓reduceIte] at h
      obtain ⟨pad, s5, h5, h⟩ := bind_inv h
      have := pure_inv h
      simp only [Prod.mk.injEq] at this
      obtain ⟨⟨rfl, hf⟩, rfl⟩ := this
      have hok := VFlags.ofPad_eq_ok hf.symm
      simp only [Bool.and_eq_true] at hok
      refine ⟨rfl, hok.1, fun hl5 => ?_⟩
      obtain ⟨e5, hpl⟩ := rdBytes_inv h5 hl5
      rw [e5, allZero_eq pad hok.2, hpl]
    · simp only [hp, ↓reduceIte] at h
      have := pure_inv h
      simp only [Prod.mk.injEq] at this
      obtain ⟨⟨rfl, hf⟩, rfl⟩ := this
      have hok := VFlags.ofPad_eq_ok hf.symm
      refine ⟨rfl, hok, fun _ => ?_⟩
      have : (if ne > 0 then xlenAttrV ty ne else 0) - ne * ty.size = 0 := by omega
      rw [this]; simp [zeros]
  obtain ⟨rfl, rfl, htail⟩ := key
  simp only [] at h0 hl ⊢
  unfold lenAttr attrXsz at hl
  simp only [] at hl
  have hge := xlenAttrV_ge ty ne
  have e1 := vName_inv c f h1 (by omega) h0
  have l1 := length_of_eq_append e1
  rw [putName_length f h0] at l1
  have e2 := vType_inv f h2 (by omega)
  have l2 := length_of_eq_append e2
  simp only [be32_length] at l2
  have e3 := vNonNeg_inv c f h3 (by omega)
  have l3 := length_of_eq_append e3
  rw [putNonNeg_length] at l3
  have hxs : (if ne > 0 then xlenAttrV ty ne else 0) = (if ne > 0 then xlenAttrV ty ne else 0) - ne * ty.size + ne * ty.size := by
    split
    · omega
    · have : ne = 0 := by omega
      subst this; simp
  obtain ⟨e4, _⟩ := rdBytes_inv h4 (by omega)
  have l4 := length_of_eq_append e4
  have e5 := htail (by omega)
  refine ⟨?_, hvl⟩
  unfold putAttr
  simp only []
  have hv : (if ne > 0 then putAttrV { name := nm, xtype := ty, nelems := ne, xvalue := val } else []) =
      val ++ zeros ((if ne > 0 then xlenAttrV ty ne else 0) - ne * ty.size) := by
    have := putAttrV_eq { name := nm, xtype := ty, nelems := ne, xvalue := val } hvl
    simp only [] at this
    rw [this]
    congr 2
    rw [hvl]
    exact (attr_pad_eq ty ne).symm
  rw [hv, e1, e2, e3, e4, e5]
  simp [List.append_assoc]

theorem vN_inv {α : Type} (item : VP (α × VFlags)) (enc : α → Bytes) (len : α → Nat) (WF : α → Prop)
    (hlen : ∀ x, WF x → (enc x).length = len x)
    (hi : ∀ (s0 s1 : Bytes) (x : α), item s0 = .ok ((x, VFlags.ok), s1) → len x ≤ s0.length → WF x → s0 = enc x ++ s1) :
    ∀ (n : Nat) (s s' : Bytes) (xs : List α) (fl : VFlags), vN item n s = .ok ((xs, fl), s') → fl = VFlags.ok →
      (xs.map len).sum ≤ s.length → (∀ x ∈ xs, WF x) → s = xs.flatMap enc ++ s' ∧ xs.length = n := by
  intro n
  induction n with
  | zero =>
    intro s s' xs fl h _ _ _
    have := pure_inv (show (pure ([], VFlags.ok) : VP (List α × VFlags)) s = _ from h)
    simp only [Prod.mk.injEq] at this
    obtain ⟨⟨rfl, _⟩, rfl⟩ := this
    simp
  | succ n ih =>
    intro s s' xs fl h hfl hl hw
    unfold vN at h
    obtain ⟨⟨x, ok⟩, s1, h1, h⟩ := bind_inv h
    simp only [] at h
    obtain ⟨⟨t, oks⟩, s2, h2, h⟩ := bind_inv h
    have := pure_inv h
    simp only [Prod.mk.injEq] at this
    obtain ⟨⟨rfl, rfl⟩, rfl⟩ := this
    obtain ⟨rfl, rfl⟩ := VFlags.and_eq_ok hfl
    simp only [List.map_cons, List.sum_cons] at hl
    have hx : WF x := hw x (by simp)
    have e1 := hi s s1 x h1 (by omega) hx
    have l1 := length_of_eq_append e1
    rw [hlen x hx] at l1
    obtain ⟨e2, hn⟩ := ih s1 _ t VFlags.ok h2 rfl (by omega) (fun y hy => hw y (by simp [hy]))
    refine ⟨?_, by simp [hn]⟩
    rw [e1, e2]
    simp [List.append_assoc]

theorem vAttrArray_inv (c : VCfg) (f : Fmt) {s s' : Bytes} {as : List Att} (h : vAttrArray c f.version s = .ok ((as, VFlags.ok), s'))
    (hl : lenAttrArray (sizeofNonNeg f.version) as ≤ s.length) (h0 : ∀ a ∈ as, NoNul a.name) :
    s = putAttrArray f.version as ++ s' := by
  unfold vAttrArray at h
  unfold putAttrArray
  unfold lenAttrArray at hl
  exact vArray_inv c f NC_ATTRIBUTE NC_MAX_ATTRS .emaxatts _ (putAttr f.version) (lenAttr (sizeofNonNeg f.version))
    (fun a => NoNul a.name)
    (vN_inv (vAttr c f.version) (putAttr f.version) (lenAttr (sizeofNonNeg f.version)) (fun a => NoNul a.name)
      (fun a ha => putAttr_length f a ha)
      (fun s0 s1 a ha hla h0a => (vAttr_inv c f ha hla h0a).1))
    h hl h0

theorem dimid_asis_inv {p : VP Nat} {nd : Nat} {s s' : Bytes} {id : Nat} {fl : VFlags}
    (h : (p >>= fun v => match dimidC v with
        | some d => if d ≥ nd then VP.fail .ebaddim else pure (v, VFlags.ok)
        | none => pure (v, VFlags.ok)) s = .ok ((id, fl), s')) : p s = .ok (id, s') ∧ fl = VFlags.ok := by
  obtain ⟨v, s1, h1, h⟩ := bind_inv h
  cases hd : dimidC v with
  | none =>
    rw [hd] at h
    have := pure_inv h
    simp only [Prod.mk.injEq] at this
    obtain ⟨⟨rfl, rfl⟩, rfl⟩ := this
    exact ⟨h1, rfl⟩
  | some d =>
    rw [hd] at h
    simp only [] at h
    by_cases cd : d ≥ nd
    · simp only [cd, ↓reduceIte] at h; exact (fail_inv h).elim
    · simp only [cd, ↓reduceIte] at h
      have := pure_inv h
      simp only [Prod.mk.injEq] at this
      obtain ⟨⟨rfl, rfl⟩, rfl⟩ := this
      exact ⟨h1, rfl⟩

theorem dimid_rep_inv {p : VP Nat} {nd : Nat} {s s' : Bytes} {id : Nat} {fl : VFlags}
    (h : (p >>= fun v => if v ≥ nd then VP.fail .ebaddim else pure (v, VFlags.ok)) s = .ok ((id, fl), s')) :
    p s = .ok (id, s') ∧ fl = VFlags.ok ∧ id < nd := by
  obtain ⟨v, s1, h1, h⟩ := bind_inv h
  by_cases cd : v ≥ nd
  · simp only [cd, ↓reduceIte] at h; exact (fail_inv h).elim
  · simp only [cd, ↓reduceIte] at h
    have := pure_inv h
    simp only [Prod.mk.injEq] at this
    obtain ⟨⟨rfl, rfl⟩, rfl⟩ := this
    exact ⟨h1, rfl, by omega⟩

theorem vDimid_inv (c : VCfg) (f : Fmt) {nd : Nat} {s s' : Bytes} {id : Nat} {fl : VFlags} (h : vDimid c f.version nd s = .ok ((id, fl), s'))
    (hl : sizeofNonNeg f.version ≤ s.length) : s = putNonNeg f.version id ++ s' := by
  obtain ⟨sl, ss, st, d64⟩ := c
  cases d64 <;> cases f
  · exact rdU32_inv (dimid_asis_inv (p := rdU32) h).1 (by simpa [sizeofNonNeg, Fmt.version] using hl)
  · exact rdU32_inv (dimid_asis_inv (p := rdU32) h).1 (by simpa [sizeofNonNeg, Fmt.version] using hl)
  · exact rdU64_inv (dimid_asis_inv (p := rdU64) h).1 (by simpa [sizeofNonNeg, Fmt.version] using hl)
  · exact rdU32_inv (dimid_rep_inv (p := rdU32) h).1 (by simpa [sizeofNonNeg, Fmt.version] using hl)
  · exact rdU32_inv (dimid_rep_inv (p := rdU32) h).1 (by simpa [sizeofNonNeg, Fmt.version] using hl)
  · exact rdU64raw_inv (dimid_rep_inv (p := rdU64raw) h).1 (by simpa [sizeofNonNeg, Fmt.version] using hl)

theorem sum_map_const (w : Nat) (l : List Nat) : (l.map (fun _ => w)).sum = w * l.length := by
  induction l with
  | nil => simp
  | cons a t ih => simp only [List.map_cons, List.sum_cons, List.length_cons, ih, Nat.mul_succ]; omega

theorem vDimid_flag (c : VCfg) (f : Fmt) (nd : Nat) {s s' : Bytes} {id : Nat} {fl : VFlags}
    (h : vDimid c f.version nd s = .ok ((id, fl), s')) : fl = VFlags.ok := by
  obtain ⟨sl, ss, st, d64⟩ := c
  cases d64 <;> cases f
  · exact (dimid_asis_inv (p := rdU32) h).2
  · exact (dimid_asis_inv (p := rdU32) h).2
  · exact (dimid_asis_inv (p := rdU64) h).2
  · exact (dimid_rep_inv (p := rdU32) h).2.1
  · exact (dimid_rep_inv (p := rdU32) h).2.1
  · exact (dimid_rep_inv (p := rdU64raw) h).2.1

theorem vN_dimid_flag (c : VCfg) (f : Fmt) (nd : Nat) : ∀ (n : Nat) (s s' : Bytes) (ids : List Nat) (fl : VFlags),
    vN (vDimid c f.version nd) n s = .ok ((ids, fl), s') → fl = VFlags.ok := by
  intro n
  induction n with
  | zero =>
    intro s s' ids fl h
    have := pure_inv (show (pure ([], VFlags.ok) : VP (List Nat × VFlags)) s = _ from h)
    simp only [Prod.mk.injEq] at this
    exact this.1.2
  | succ n ih =>
    intro s s' ids fl h
    unfold vN at h
    obtain ⟨⟨x, ok⟩, t1, g1, h⟩ := bind_inv h
    simp only [] at h
    obtain ⟨⟨t, oks⟩, t2, g2, h⟩ := bind_inv h
    have := pure_inv h
    simp only [Prod.mk.injEq] at this
    obtain ⟨⟨_, rfl⟩, _⟩ := this
    rw [vDimid_flag c f nd g1, ih t1 t2 t oks g2]
    rfl

theorem vVar_inv (c : VCfg) (f : Fmt) {nd : Nat} {s s' : Bytes} {v : Var} (h : vVar c f.version nd s = .ok ((v, VFlags.ok), s'))
    (hl : lenVar (sizeofNonNeg f.version) (sizeofOff f.version) v ≤ s.length)
    (h0 : NoNul v.name ∧ ∀ a ∈ v.atts, NoNul a.name) : s = putVar f.version v ++ s' := by
  unfold vVar at h
  obtain ⟨⟨nm, ok1⟩, s1, h1, h⟩ := bind_inv h
  simp only [] at h
  obtain ⟨ndims, s2, h2, h⟩ := bind_inv h
  by_cases cnd : ndims > NC_MAX_VAR_DIMS
  · simp only [cnd, ↓reduceIte] at h; exact (fail_inv h).elim
  · simp only [cnd, ↓reduceIte] at h
    obtain ⟨⟨ids, fl1⟩, s3, h3, h⟩ := bind_inv h
    simp only [] at h
    obtain ⟨⟨atts, ok2⟩, s4, h4, h⟩ := bind_inv h
    simp only [] at h
    obtain ⟨ty, s5, h5, h⟩ := bind_inv h
    obtain ⟨vs, s6, h6, h⟩ := bind_inv h
    obtain ⟨bg, s7, h7, h⟩ := bind_inv h
    have := pure_inv h
    simp only [Prod.mk.injEq] at this
    obtain ⟨⟨rfl, hf⟩, rfl⟩ := this
    obtain ⟨hf1, rfl⟩ := VFlags.and_eq_ok hf.symm
    have hok := VFlags.ofPad_eq_ok hf1
    subst hok
    simp only [] at h0
    unfold lenVar at hl
    simp only [] at hl
    have hla : 4 + sizeofNonNeg f.version ≤ lenAttrArray (sizeofNonNeg f.version) atts := by unfold lenAttrArray; omega
    have e1 := vName_inv c f h1 (by omega) h0.1
    have l1 := length_of_eq_append e1
    rw [putName_length f h0.1] at l1
    have e2 := vNonNeg_inv c f h2 (by omega)
    have l2 := length_of_eq_append e2
    rw [putNonNeg_length] at l2
    -- the dimids: `ndims` of them
    have hN := vN_inv (vDimid c f.version nd) (putNonNeg f.version) (fun _ => sizeofNonNeg f.version) (fun _ => True)
      (fun x _ => putNonNeg_length f x)
      (fun s0 s1 x hx hlx _ => vDimid_inv c f hx hlx)
    have hfl1 := vN_dimid_flag c f nd ndims s2 s3 ids fl1 h3
    subst hfl1
    have hsum : (ids.map (fun _ => sizeofNonNeg f.version)).sum = sizeofNonNeg f.version * ids.length := sum_map_const _ _
    obtain ⟨e3, hidl⟩ := hN ndims s2 s3 ids VFlags.ok h3 rfl (by rw [hsum]; omega) (fun _ _ => trivial)
    have l3 := length_of_eq_append e3
    rw [length_flatMap_eq_sum (putNonNeg f.version) (fun _ => sizeofNonNeg f.version) ids (fun x _ => putNonNeg_length f x), hsum] at l3
    have e4 := vAttrArray_inv c f h4 (by omega) h0.2
    have l4 := length_of_eq_append e4
    rw [putAttrArray_length f atts h0.2] at l4
    have e5 := vType_inv f h5 (by omega)
    have l5 := length_of_eq_append e5
    simp only [be32_length] at l5
    have e6 := vVsize_inv c f h6 (by omega)
    have l6 := length_of_eq_append e6
    rw [putNonNeg_length] at l6
    have e7 := vBegin_inv c f h7 (by omega)
    unfold putVar
    simp only []
    rw [e1, e2, e3, e4, e5, e6, e7, hidl]
    simp [List.append_assoc]

theorem vBody_inv (c : VCfg) (f : Fmt) {s s' : Bytes} {h : Hdr} (hb : vBody c f s = .ok ((h, VFlags.ok), s'))
    (hl : Hdr.len h ≤ s.length + 4) (h0 : NamesNoNul h) :
    h.fmt = f ∧ s = putNonNeg f.version h.numrecs ++ putDimArray f.version h.dims ++ putAttrArray f.version h.gatts ++
      putVarArray f.version h.vars ++ s' := by
  unfold vBody at hb
  simp only [] at hb
  obtain ⟨nr, s1, h1, hb⟩ := bind_inv hb
  obtain ⟨⟨dims, ok1⟩, s2, h2, hb⟩ := bind_inv hb
  simp only [] at hb
  obtain ⟨⟨gatts, ok2⟩, s3, h3, hb⟩ := bind_inv hb
  simp only [] at hb
  obtain ⟨⟨vars, ok3⟩, s4, h4, hb⟩ := bind_inv hb
  have := pure_inv hb
  simp only [Prod.mk.injEq] at this
  obtain ⟨⟨rfl, hf⟩, rfl⟩ := this
  obtain ⟨hf12, rfl⟩ := VFlags.and_eq_ok hf.symm
  obtain ⟨rfl, rfl⟩ := VFlags.and_eq_ok hf12
  refine ⟨rfl, ?_⟩
  unfold Hdr.len at hl
  simp only [] at hl h0 ⊢
  obtain ⟨hd0, hg0, hv0⟩ := h0
  simp only [] at hd0 hg0 hv0
  have hda : 4 + sizeofNonNeg f.version ≤ lenDimArray (sizeofNonNeg f.version) dims := by unfold lenDimArray; omega
  have hga : 4 + sizeofNonNeg f.version ≤ lenAttrArray (sizeofNonNeg f.version) gatts := by unfold lenAttrArray; omega
  have hva : 4 + sizeofNonNeg f.version ≤ lenVarArray (sizeofNonNeg f.version) (sizeofOff f.version) vars := by unfold lenVarArray; omega
  have e1 := vNumrecs_inv c f h1 (by omega)
  have l1 := length_of_eq_append e1
  rw [putNonNeg_length] at l1
  have e2 : s1 = putDimArray f.version dims ++ s2 := by
    unfold vDimArray at h2
    unfold putDimArray
    unfold lenDimArray at hl hda
    exact vArray_inv c f NC_DIMENSION NC_MAX_DIMS .emaxdims _ (putDim f.version) (lenDim (sizeofNonNeg f.version))
      (fun d => NoNul d.name)
      (fun n s0 s1 ys fl hy hfl hly hwy => vDims_inv c f n false s0 s1 ys fl hy hfl hly hwy)
      h2 (by omega) hd0
  have l2 := length_of_eq_append e2
  rw [putDimArray_length f dims hd0] at l2
  have e3 := vAttrArray_inv c f h3 (by omega) hg0
  have l3 := length_of_eq_append e3
  rw [putAttrArray_length f gatts hg0] at l3
  have e4 : s3 = putVarArray f.version vars ++ s' := by
    unfold vVarArray at h4
    unfold putVarArray
    unfold lenVarArray at hl hva
    exact vArray_inv c f NC_VARIABLE NC_MAX_VARS .emaxvars _ (putVar f.version)
      (lenVar (sizeofNonNeg f.version) (sizeofOff f.version)) (fun v => NoNul v.name ∧ ∀ a ∈ v.atts, NoNul a.name)
      (vN_inv (vVar c f.version dims.length) (putVar f.version) (lenVar (sizeofNonNeg f.version) (sizeofOff f.version))
        (fun v => NoNul v.name ∧ ∀ a ∈ v.atts, NoNul a.name)
        (fun v hv => putVar_length f v hv.1 hv.2)
        (fun s0 s1 v hv hlv h0v => vVar_inv c f hv hlv h0v))
      h4 (by omega) hv0
  rw [e1, e2, e3, e4]
  simp [List.append_assoc]

theorem vMagic_inv {b : Bytes} {f : Fmt} (h : vMagic b = .ok f) : b = magicBytes f ++ b.drop 4 ∧ 8 ≤ b.length := by
  unfold vMagic at h
  split at h
  · cases h
  · rename_i hlen
    refine ⟨?_, by omega⟩
    split at h
    · rename_i v rest
      split at h
      · rename_i hv; cases h; subst hv; rfl
      · split at h
        · rename_i hv; cases h; subst hv; rfl
        · split at h
          · rename_i hv; cases h; subst hv; rfl
          · cases h
    · cases h

/-- If ncvalidator's reader accepts a file with null padding and every empty list written as ABSENT, the file is
    at least as long as the header it read, and no name contains a NUL byte, then the file begins with exactly
    the bytes the library's writer produces for that header: every tag, count, padding byte is determined. -/
theorem vGetNC_canonical (c : VCfg) (b : Bytes) (h : Hdr) (info : Info) (hg : vGetNC c b = .ok (h, info, VFlags.ok))
    (h0 : NamesNoNul h) (hl : Hdr.len h ≤ b.length) : ∃ rest, b = encodeRaw h ++ rest := by
  unfold vGetNC at hg
  cases hm : vMagic b with
  | error e => rw [hm] at hg; cases hg
  | ok f =>
    rw [hm] at hg
    simp only [] at hg
    cases hb : vBody c f (b.drop 4) with
    | error e => rw [hb] at hg; cases hg
    | ok r =>
      obtain ⟨⟨h', fl⟩, s'⟩ := r
      rw [hb] at hg
      simp only [] at hg
      cases hp : vPostPass h' with
      | error e => rw [hp] at hg; cases hg
      | ok i =>
        rw [hp] at hg
        simp only [Except.ok.injEq, Prod.mk.injEq] at hg
        obtain ⟨rfl, rfl, rfl⟩ := hg
        obtain ⟨em, hlen⟩ := vMagic_inv hm
        obtain ⟨hfmt, eb⟩ := vBody_inv c f hb (by simp only [List.length_drop]; omega) h0
        refine ⟨s', ?_⟩
        rw [em, eb]
        unfold encodeRaw
        simp only [hfmt, List.append_assoc]

end PnVerif.Tools
