import PnVerif.Spec.ModeSpec
/-
  C14 — helper definitions and lemmas: the reachable-state invariant of the two-layer mode
  machine, its preservation by every call, and the simp set used by Props/C14.lean.
-/
namespace PnVerif.ModeLemmas
open PnVerif.Mode PnVerif.ModeSpec

/-- What holds in every state the library can reach (proved below by induction over call
    histories).  It relates the dispatcher word `d` to the driver word `n`:
    * RDONLY and DEF agree bit for bit;
    * INDEP agrees *in data mode*; in define mode the driver bit is clear while the dispatcher bit
      may be stale (ncmpi_redef sets DEF but does not clear INDEP; every dispatcher test reads DEF
      first, and ncmpi_enddef clears both);
    * the driver word never has DEF and INDEP together; a read-only file is never in define mode
      and has no pending put; CREATE (driver) implies define mode entered by create (`old` unset);
      the dispatcher's CREATE bit is never cleared (nothing reads it);
      `old` is set exactly in a define mode entered by redef — these are the `assert`s of
      ncmpio_abort / ncmpio__enddef;
    * pending bput requests are put requests and need the attached buffer. -/
structure ModeInv (s : State) : Prop where
  cl   : s.opened = false → s = closed
  rd   : s.opened = true → s.d.rdonly = s.n.rdonly
  df   : s.opened = true → s.d.indef = s.n.indef
  ind  : s.opened = true → s.n.indef = false → s.d.indep = s.n.indep
  one  : s.opened = true → s.n.indef = true → s.n.indep = false
  ro   : s.opened = true → s.n.rdonly = true → s.n.indef = false ∧ s.nPut = 0
  cr   : s.opened = true → s.n.create = true → s.n.indef = true ∧ s.old = false
  dcr  : s.opened = true → s.n.create = true → s.d.create = true
  od   : s.opened = true → s.old = true → s.n.indef = true
  rdf  : s.opened = true → s.n.indef = true → s.n.create = false → s.old = true
  bp   : s.nBput ≤ s.nPut
  ab   : 0 < s.nBput → s.abuf = true

theorem ite_err (c : Prop) [Decidable c] (a b : Out) : (if c then a else b).err = if c then a.err else b.err := by
  split <;> rfl
theorem ite_st (c : Prop) [Decidable c] (a b : Out) : (if c then a else b).st = if c then a.st else b.st := by
  split <;> rfl
theorem ite_del (c : Prop) [Decidable c] (a b : Out) : (if c then a else b).del = if c then a.del else b.del := by
  split <;> rfl
theorem ite_val (c : Prop) [Decidable c] (a b : Out) : (if c then a else b).val = if c then a.val else b.val := by
  split <;> rfl
theorem ite_wr (c : Prop) [Decidable c] (a b : Out) : (if c then a else b).wr = if c then a.wr else b.wr := by
  split <;> rfl

/-- the implementation's `x_len_NC_attrV` is the format's "values padded to 4 bytes" -/
theorem xlen_eq_headerBytes (t : XT) (n : Nat) : xlen t n = headerBytes t n := by
  cases t <;> simp only [xlen, headerBytes, elemSize] <;> omega

/-- unfold model and specification completely -/
macro "mode_simp" : tactic => `(tactic|
  simp [step, specStep, abs, absOut, ret, aclosed, closed, modeOf, specErr, rule, modeErr, firstErr, effect,
        PnVerif.ModeLemmas.xlen_eq_headerBytes, Cfg.repaired, Cfg.pinned, Cfg.pinnedMulti, vNoGlobal, vOrGlobal, growsInData, isRejection, isModeCall,
        PnVerif.ModeLemmas.ite_err, PnVerif.ModeLemmas.ite_st, PnVerif.ModeLemmas.ite_del,
        PnVerif.ModeLemmas.ite_val, PnVerif.ModeLemmas.ite_wr,
        Drv.enddef, Drv.endIndep, Drv.beginIndep, Drv.redef, Drv.cancelAll, Drv.close, Drv.abort,
        Drv.syncNumrecs, Drv.sync, Drv.wait, Drv.waitNull, Drv.cancel, Drv.attach, Drv.detach, Drv.hdrWrite, Drv.putAtt,
        Drv.renameAtt, Drv.copyAtt, Drv.delAtt, Drv.rename, Drv.fillVarRec, Drv.post, sanityCheck, fillDispErr])

/-- case split on the call — and, for put/get, on the argument classes that sanity_check turns into
    a code which the collective branch then *tests again* — closing every case with `t` -/
macro "mode_all " t:tactic : tactic => `(tactic|
  (cases ‹Call› with
   | rw isPut coll v text cb varn zl => cases isPut <;> cases coll <;> cases v <;> cases text <;> $t:tactic
   | post k v text cb varn zl => cases k <;> $t:tactic
   | _ => $t:tactic))

theorem inv_closed : ModeInv closed := by constructor <;> simp [closed]

theorem inv_created (r : Bool) : ModeInv (created r) := by constructor <;> simp [created, closed]

theorem inv_opened (w r : Bool) : ModeInv (openedFile w r) := by
  constructor <;> simp [openedFile, closed]

/-- The shape of an open reachable state: the eight configurations of the mode bits. -/
inductive Core : State → Prop
  /-- data mode (collective or independent), writable or read-only; `old` unset, not new -/
  | data (dr di dc recDef recCommit abuf : Bool) (nGet nPut nBput : Nat) :
      Core { opened := true, d := ⟨dr, false, di, dc⟩, n := ⟨dr, false, di, false⟩, old := false, recDef := recDef,
             recCommit := recCommit, abuf := abuf, nGet := nGet, nPut := nPut, nBput := nBput }
  /-- define mode right after ncmpi_create -/
  | defNew (di recDef recCommit abuf : Bool) (nGet nPut nBput : Nat) :
      Core { opened := true, d := ⟨false, true, di, true⟩, n := ⟨false, true, false, true⟩, old := false,
             recDef := recDef, recCommit := recCommit, abuf := abuf, nGet := nGet, nPut := nPut, nBput := nBput }
  /-- define mode entered through ncmpi_redef (the dispatcher INDEP bit `di` may be stale) -/
  | defRe (di dc recDef recCommit abuf : Bool) (nGet nPut nBput : Nat) :
      Core { opened := true, d := ⟨false, true, di, dc⟩, n := ⟨false, true, false, false⟩, old := true,
             recDef := recDef, recCommit := recCommit, abuf := abuf, nGet := nGet, nPut := nPut, nBput := nBput }

theorem core_of_inv (s : State) (h : ModeInv s) (ho : s.opened = true) : Core s := by
  obtain ⟨cl, rd, df, ind, one, ro, cr, dcr, od, rdf, bp, ab⟩ := h
  obtain ⟨opened, ⟨dr, dd, di, dc⟩, ⟨nr, nd, ni, nc⟩, old, recDef, recCommit, abuf, nGet, nPut, nBput⟩ := s
  simp only at ho
  subst ho
  simp only [forall_const] at rd df ind one ro cr dcr od rdf
  subst rd df
  cases dd with
  | false =>
    simp only [forall_const] at ind
    subst ind
    have hnc : nc = false := by
      cases nc with
      | false => rfl
      | true => exact Bool.noConfusion (cr rfl).1
    have hold : old = false := by
      cases old with
      | false => rfl
      | true => exact Bool.noConfusion (od rfl)
    subst hnc hold
    exact Core.data ..
  | true =>
    have hni : ni = false := one rfl
    have hdr : dr = false := by
      cases dr with
      | false => rfl
      | true => exact Bool.noConfusion (ro rfl).1
    subst hni hdr
    cases nc with
    | true =>
      have hold : old = false := (cr rfl).2
      have hdc : dc = true := dcr rfl
      subst hold hdc
      exact Core.defNew ..
    | false =>
      have hold : old = true := rdf rfl rfl
      subst hold
      exact Core.defRe ..

/-- the three ways a file comes into being in the harness and in the property -/
inductive Start : State → Prop
  | created (hasRec : Bool) : Start (Mode.created hasRec)
  | opened (write hasRec : Bool) : Start (Mode.openedFile write hasRec)


/-- the only calls on which the pinned source differs from the repaired one -/
def droppedCheck (s : State) : Call → Bool
  | .fillVarRec v => s.opened && fillDispErr s.d v != .noerr
  | _ => false


/-- the documented automaton iterated over a history -/
def specRun (a : AState) : List Call → AState
  | [] => a
  | c :: cs => specRun (specStep a c).st cs


/-- Formerly the one place where the number of processes mattered: a *collective varn* call whose argument
    tests fail still joins the collective wait with a null request id, and `extract_reqs` used to
    complete the caller's single pending request (defect F4 of property C02 seen from here).  Repaired in
    /repo commit 12532099; the predicate is kept (constantly false) so that the statements below read
    the same on both sides of the repair. -/
def flushQuirk (_cfg : Cfg) (_s : State) : Call → Bool
  | _ => false


end PnVerif.ModeLemmas
