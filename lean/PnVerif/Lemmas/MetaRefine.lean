import PnVerif.Lemmas.MetaTab
import PnVerif.Spec.MetaSpec
/-
  C07 helper lemmas: the abstraction from the model file (arrays + hash tables) to the reference
  model file (plain lists), the file invariant, and one refinement lemma per operation.
-/
namespace PnVerif.Meta

/-- abstraction: forget the tables (and keep of ncp->old only what the reference model needs) -/
def File.abs (f : File) : SFile :=
  { format := f.cfg.format, hdr := f.hdr.abs, indef := f.indef, rdonly := f.rdonly,
    oldNvars := f.old.map (fun o => o.vars.items.length), disk := f.disk }

/-- what a header must satisfy for the tables built at open to be consistent: names pairwise
    distinct per name space (true of every header the library itself wrote: `FInv_wf`) -/
structure SHdr.Wf (s : SHdr) : Prop where
  dims : (names s.dims).Nodup
  vars : (names s.vars).Nodup
  gatts : (names s.gatts).Nodup
  vatts : ∀ v ∈ s.vars, (names v.atts).Nodup

/-- every table of the file satisfies the table invariant, names are pairwise distinct per table,
    and so they are in the header last written to the file -/
structure FInv (E : Env) (f : File) : Prop where
  hd : 0 < f.cfg.hd
  hv : 0 < f.cfg.hv
  hg : 0 < f.cfg.hg
  ha : 0 < f.cfg.ha
  dims : f.hdr.dims.Inv E.h f.cfg.hd
  vars : f.hdr.vars.Inv E.h f.cfg.hv
  gatts : f.hdr.gatts.Inv E.h f.cfg.hg
  vatts : ∀ v ∈ f.hdr.vars.items, v.atts.Inv E.h f.cfg.ha
  disk : ∀ d, f.disk = some d → d.Wf

section basics
variable {E : Env} {f : File}

@[simp] theorem abs_indef : f.abs.indef = f.indef := rfl
@[simp] theorem abs_rdonly : f.abs.rdonly = f.rdonly := rfl
@[simp] theorem abs_format : f.abs.format = f.cfg.format := rfl
@[simp] theorem abs_disk : f.abs.disk = f.disk := rfl
@[simp] theorem abs_dims : f.abs.hdr.dims = f.hdr.dims.items := rfl
@[simp] theorem abs_gatts : f.abs.hdr.gatts = f.hdr.gatts.items := rfl
@[simp] theorem abs_vars : f.abs.hdr.vars = f.hdr.vars.items.map Var.abs := rfl
@[simp] theorem abs_ndims : f.abs.ndims = f.ndims := rfl
@[simp] theorem abs_nvars : f.abs.nvars = f.nvars := by simp [SFile.nvars, File.nvars]

theorem names_dims : names f.abs.hdr.dims = f.hdr.dims.names := rfl
theorem names_gatts : names f.abs.hdr.gatts = f.hdr.gatts.names := rfl
theorem names_vars : names f.abs.hdr.vars = f.hdr.vars.names := by
  simp [names, NArr.names, List.map_map, Function.comp_def, Var.abs, Named.name]

theorem find_dims (inv : FInv E f) (nm : Name) :
    f.hdr.dims.find E.h f.cfg.hd nm = lookup (names f.hdr.dims.items) nm :=
  NArr.find_eq_lookup inv.dims nm

theorem find_vars (inv : FInv E f) (nm : Name) :
    f.hdr.vars.find E.h f.cfg.hv nm = lookup (names (f.hdr.vars.items.map Var.abs)) nm := by
  have := names_vars (f := f)
  simp only [abs_vars] at this
  rw [this]; exact NArr.find_eq_lookup inv.vars nm

theorem abs_getAtts (varid : Int) : f.abs.getAtts varid = (f.getAtts varid).map (fun A => A.items) := by
  unfold SFile.getAtts File.getAtts
  by_cases h1 : varid = NC_GLOBAL
  · simp [h1]
  · by_cases h2 : 0 ≤ varid
    · simp only [h1, h2, if_false, if_true, abs_vars, List.getElem?_map, Option.map_map]
      cases f.hdr.vars.items[varid.toNat]? <;> simp [Var.abs]
    · simp [h1, h2]

theorem getAtts_inv (inv : FInv E f) {varid : Int} {A : NArr Attr} (h : f.getAtts varid = some A) :
    A.Inv E.h (f.asize varid) ∧ 0 < f.asize varid := by
  unfold File.getAtts at h
  unfold File.asize
  by_cases h1 : varid = NC_GLOBAL
  · simp only [h1, if_true, Option.some.injEq] at h ⊢
    subst h; exact ⟨inv.gatts, inv.hg⟩
  · simp only [h1, if_false] at h ⊢
    by_cases h2 : 0 ≤ varid
    · simp only [h2, if_true, Option.map_eq_some_iff] at h
      obtain ⟨v, hv, rfl⟩ := h
      exact ⟨inv.vatts v (List.mem_of_getElem? hv), inv.ha⟩
    · simp [h2] at h

theorem find_atts (inv : FInv E f) {varid : Int} {A : NArr Attr} (h : f.getAtts varid = some A) (nm : Name) :
    A.find E.h (f.asize varid) nm = lookup (names A.items) nm :=
  NArr.find_eq_lookup (getAtts_inv inv h).1 nm

theorem abs_setAtts (varid : Int) (A : NArr Attr) : (f.setAtts varid A).abs = f.abs.setAtts varid A.items := by
  unfold File.setAtts SFile.setAtts
  by_cases h1 : varid = NC_GLOBAL
  · simp [h1, File.abs, Hdr.abs]
  · simp only [h1, if_false, File.abs, Hdr.abs, NArr.update]
    congr 2
    apply List.ext_getElem?
    intro i
    simp only [List.getElem?_map, List.getElem?_modify]
    cases f.hdr.vars.items[i]? with
    | none => rfl
    | some v => by_cases hi : varid.toNat = i <;> simp [hi, Var.abs]

theorem mem_modify {β : Type} {l : List β} {i : Nat} {g : β → β} {x : β} (h : x ∈ l.modify i g) :
    x ∈ l ∨ ∃ y ∈ l, x = g y := by
  obtain ⟨j, hj, rfl⟩ := List.mem_iff_getElem.mp h
  have hj' : j < l.length := by simpa using hj
  rw [List.getElem_modify]
  by_cases hij : i = j
  · right; exact ⟨l[j], List.getElem_mem _, by simp [hij]⟩
  · left; simp [hij]

theorem FInv_setAtts (inv : FInv E f) {varid : Int} {A0 A : NArr Attr} (h : f.getAtts varid = some A0)
    (hA : A.Inv E.h (f.asize varid)) : FInv E (f.setAtts varid A) := by
  unfold File.setAtts
  unfold File.asize at hA
  by_cases h1 : varid = NC_GLOBAL
  · simp only [h1, if_true] at hA ⊢
    exact { inv with gatts := hA }
  · simp only [h1, if_false] at hA ⊢
    refine { inv with vars := ?_, vatts := ?_ }
    · exact NArr.update_inv inv.vars _ _ (fun _ => rfl)
    · intro v hv
      simp only [NArr.update] at hv
      rcases mem_modify hv with hm | ⟨y, _, rfl⟩
      · exact inv.vatts v hm
      · exact hA

theorem FInv_wf {E : Env} {f : File} (inv : FInv E f) : f.hdr.abs.Wf := by
  refine ⟨inv.dims.2, ?_, inv.gatts.2, ?_⟩
  · have := names_vars (f := f)
    simp only [abs_vars] at this
    show (names (f.hdr.vars.items.map Var.abs)).Nodup
    rw [this]; exact inv.vars.2
  · intro v hv
    simp only [Hdr.abs, List.mem_map] at hv
    obtain ⟨w, hw, rfl⟩ := hv
    exact (inv.vatts w hw).2

theorem abs_sync : (File.sync f).abs = SFile.sync f.abs := by
  unfold File.sync SFile.sync
  by_cases h : f.indef <;> simp [h, File.abs]

theorem FInv_sync (inv : FInv E f) : FInv E (File.sync f) := by
  unfold File.sync
  by_cases h : f.indef
  · simp only [h, if_true]; exact inv
  · simp only [h, if_false, Bool.false_eq_true]
    exact ⟨inv.hd, inv.hv, inv.hg, inv.ha, inv.dims, inv.vars, inv.gatts, inv.vatts,
           fun d hd => by cases hd; exact FInv_wf inv⟩

theorem lookup_none_fresh {l : List Name} {nm : Name} (h : lookup l nm = none) : nm ∉ l :=
  (lookup_none_iff l nm).mp h

end basics

/-! ### the refinement relation between a model result and a reference-model result -/

/-- same abstract file, same visible result, invariant kept -/
def R (E : Env) {β : Type} (x : File × β) (y : SFile × β) : Prop :=
  x.1.abs = y.1 ∧ x.2 = y.2 ∧ FInv E x.1

theorem R_err {E : Env} {f : File} {β : Type} (inv : FInv E f) (e : β) : R E (f, e) (f.abs, e) :=
  ⟨rfl, rfl, inv⟩

theorem R_ite {E : Env} {β : Type} {c : Prop} [Decidable c] {a a' : File × β} {b b' : SFile × β}
    (h1 : c → R E a b) (h2 : ¬ c → R E a' b') : R E (if c then a else a') (if c then b else b') := by
  by_cases h : c
  · simp only [h, if_true]; exact h1 h
  · simp only [h, if_false]; exact h2 h

theorem getElem?_lt {β : Type} {l : List β} {i : Nat} {x : β} (h : l[i]? = some x) :
    ∃ hlt : i < l.length, l[i] = x := by
  rcases Nat.lt_or_ge i l.length with h' | h'
  · exact ⟨h', by rw [List.getElem?_eq_getElem h'] at h; exact Option.some.inj h⟩
  · rw [List.getElem?_eq_none h'] at h; cases h

/-! ### dimensions -/

theorem defDim_refines (E : Env) (f : File) (raw : Name) (size : Int) (inv : FInv E f) :
    R E (defDim E f raw size) (sDefDim E f.abs raw size) := by
  unfold defDim sDefDim
  simp only [abs_indef, abs_format, abs_dims, abs_ndims, find_dims inv]
  refine R_ite (fun _ => R_err inv _) (fun _ => ?_)
  refine R_ite (fun _ => R_err inv _) (fun _ => ?_)
  refine R_ite (fun _ => R_err inv _) (fun _ => ?_)
  refine R_ite (fun _ => R_err inv _) (fun _ => ?_)
  cases hl : lookup (names f.hdr.dims.items) (E.nfc raw) with
  | some i => exact R_err inv _
  | none =>
    refine ⟨?_, rfl, ?_⟩
    · simp [File.abs, Hdr.abs, NArr.push]
    · exact { inv with dims := NArr.push_inv inv.hd inv.dims _ (lookup_none_fresh hl) }

theorem renameDim_refines (E : Env) (f : File) (dimid : Int) (raw : Name) (inv : FInv E f) :
    R E (renameDim E f dimid raw) (sRenameDim E f.abs dimid raw) := by
  unfold renameDim sRenameDim
  simp only [abs_indef, abs_rdonly, abs_dims, abs_ndims, find_dims inv]
  refine R_ite (fun _ => R_err inv _) (fun _ => ?_)
  refine R_ite (fun _ => R_err inv _) (fun _ => ?_)
  refine R_ite (fun _ => R_err inv _) (fun _ => ?_)
  cases hl : lookup (names f.hdr.dims.items) (E.nfc raw) with
  | some i => exact R_ite (fun _ => R_err inv _) (fun _ => R_err inv _)
  | none =>
    simp only
    cases hd : f.hdr.dims.items[dimid.toNat]? with
    | none => exact R_err inv _
    | some d =>
      simp only
      refine R_ite (fun _ => R_err inv _) (fun _ => ?_)
      obtain ⟨hlt, hde⟩ := getElem?_lt hd
      obtain ⟨B, hB, hitems, hinv⟩ :=
        NArr.rename_spec inv.hd inv.dims dimid.toNat hlt (E.nfc raw) (lookup_none_fresh hl)
      rw [hB]
      refine ⟨?_, rfl, ?_⟩
      · simp only [abs_sync]
        simp [File.abs, Hdr.abs, hitems, hde, Named.setName]
      · exact FInv_sync { inv with dims := hinv }

/-! ### variables -/

theorem fresh_var {f : File} {nm : Name} (h : lookup (names (f.hdr.vars.items.map Var.abs)) nm = none) :
    nm ∉ f.hdr.vars.names := by
  have := names_vars (f := f)
  simp only [abs_vars] at this
  rw [← this]; exact lookup_none_fresh h

theorem defVar_refines (E : Env) (f : File) (raw : Name) (xtype : Int) (dimids : List Int) (inv : FInv E f) :
    R E (defVar E f raw xtype dimids) (sDefVar E f.abs raw xtype dimids) := by
  unfold defVar sDefVar
  simp only [abs_indef, abs_format, abs_dims, abs_ndims, abs_nvars, abs_vars, find_vars inv]
  refine R_ite (fun _ => R_err inv _) (fun _ => ?_)
  refine R_ite (fun _ => R_err inv _) (fun _ => ?_)
  refine R_ite (fun _ => R_err inv _) (fun _ => ?_)
  refine R_ite (fun _ => R_err inv _) (fun _ => ?_)
  cases hl : lookup (names (f.hdr.vars.items.map Var.abs)) (E.nfc raw) with
  | some i => exact R_err inv _
  | none =>
    simp only
    refine R_ite (fun _ => R_err inv _) (fun _ => ?_)
    refine R_ite (fun _ => R_err inv _) (fun _ => ?_)
    refine ⟨?_, rfl, ?_⟩
    · simp [File.abs, Hdr.abs, NArr.push, Var.abs, NArr.empty]
    · refine { inv with vars := NArr.push_inv inv.hv inv.vars _ (fresh_var hl), vatts := ?_ }
      intro v hv
      simp only [NArr.push, List.mem_append, List.mem_singleton] at hv
      rcases hv with hv | rfl
      · exact inv.vatts v hv
      · exact NArr.empty_inv E.h f.cfg.ha

theorem renameVar_refines (E : Env) (f : File) (varid : Int) (raw : Name) (inv : FInv E f) :
    R E (renameVar E f varid raw) (sRenameVar E f.abs varid raw) := by
  unfold renameVar sRenameVar
  simp only [abs_indef, abs_rdonly, abs_nvars, abs_vars, find_vars inv, List.getElem?_map]
  refine R_ite (fun _ => R_err inv _) (fun _ => ?_)
  refine R_ite (fun _ => R_err inv _) (fun _ => ?_)
  refine R_ite (fun _ => R_err inv _) (fun _ => ?_)
  refine R_ite (fun _ => R_err inv _) (fun _ => ?_)
  cases hl : lookup (names (f.hdr.vars.items.map Var.abs)) (E.nfc raw) with
  | some i => exact R_err inv _
  | none =>
    simp only
    cases hd : f.hdr.vars.items[varid.toNat]? with
    | none => exact R_err inv _
    | some v =>
      simp only [Option.map_some]
      refine R_ite (fun _ => R_err inv _) (fun _ => ?_)
      obtain ⟨hlt, hde⟩ := getElem?_lt hd
      obtain ⟨B, hB, hitems, hinv⟩ :=
        NArr.rename_spec inv.hv inv.vars varid.toNat hlt (E.nfc raw) (fresh_var hl)
      rw [hB]
      refine ⟨?_, rfl, ?_⟩
      · simp only [abs_sync]
        simp [File.abs, Hdr.abs, hitems, hde, Named.setName, List.map_set, Var.abs]
      · refine FInv_sync { inv with vars := hinv, vatts := ?_ }
        intro w hw
        simp only [hitems] at hw
        rcases List.mem_or_eq_of_mem_set hw with hm | rfl
        · exact inv.vatts w hm
        · rw [hde]; exact inv.vatts v (List.mem_of_getElem? hd)

/-! ### attributes -/

theorem fillRule_abs (f : File) (varid : Int) (raw : Name) (xtype nelems : Nat) :
    sFillRule f.abs varid raw xtype nelems = fillRule f varid raw xtype nelems := by
  unfold sFillRule fillRule
  simp only [abs_vars, List.getElem?_map]
  by_cases h : varid ≠ NC_GLOBAL ∧ raw = fillValueName
  · simp only [h, and_self, if_true, ne_eq, not_false_eq_true]
    cases f.hdr.vars.items[varid.toNat]? with
    | none => rfl
    | some v =>
      simp only [Option.map_some, Var.abs, File.abs]
      cases f.old <;> rfl
  · simp only [h, if_false]

theorem putAtt_refines (E : Env) (f : File) (varid : Int) (raw : Name) (isText : Bool) (xtypeArg : Int)
    (vals : List Int) (inv : FInv E f) :
    R E (putAtt E f varid raw isText xtypeArg vals) (sPutAtt E f.abs varid raw isText xtypeArg vals) := by
  unfold putAtt sPutAtt
  simp only [abs_indef, abs_rdonly, abs_format, abs_nvars, abs_getAtts, fillRule_abs]
  refine R_ite (fun _ => R_err inv _) (fun _ => ?_)
  refine R_ite (fun _ => R_err inv _) (fun _ => ?_)
  refine R_ite (fun _ => R_err inv _) (fun _ => ?_)
  refine R_ite (fun _ => R_err inv _) (fun _ => ?_)
  refine R_ite (fun _ => R_err inv _) (fun _ => ?_)
  cases hg : f.getAtts varid with
  | none => exact R_err inv _
  | some A =>
    obtain ⟨hA, hsz⟩ := getAtts_inv inv hg
    simp only [Option.map_some, find_atts inv hg]
    cases hl : lookup (names A.items) (E.nfc raw) with
    | some idx =>
      simp only
      cases ha : A.items[idx]? with
      | none => exact R_err inv _
      | some a =>
        simp only
        refine R_ite (fun _ => R_err inv _) (fun _ => ?_)
        refine ⟨?_, rfl, ?_⟩
        · simp only [abs_sync, abs_setAtts, NArr.update]
        · exact FInv_sync (FInv_setAtts inv hg (NArr.update_inv hA _ _ (fun _ => rfl)))
    | none =>
      simp only
      refine R_ite (fun _ => R_err inv _) (fun _ => ?_)
      refine ⟨?_, rfl, ?_⟩
      · simp only [abs_sync, abs_setAtts, NArr.push]
      · exact FInv_sync (FInv_setAtts inv hg (NArr.push_inv hsz hA _ (lookup_none_fresh hl)))

theorem renameAtt_refines (E : Env) (f : File) (varid : Int) (raw rawNew : Name) (inv : FInv E f) :
    R E (renameAtt E f varid raw rawNew) (sRenameAtt E f.abs varid raw rawNew) := by
  unfold renameAtt sRenameAtt
  simp only [abs_indef, abs_rdonly, abs_nvars, abs_getAtts]
  refine R_ite (fun _ => R_err inv _) (fun _ => ?_)
  refine R_ite (fun _ => R_err inv _) (fun _ => ?_)
  refine R_ite (fun _ => R_err inv _) (fun _ => ?_)
  refine R_ite (fun _ => R_err inv _) (fun _ => ?_)
  cases hg : f.getAtts varid with
  | none => exact R_err inv _
  | some A =>
    obtain ⟨hA, hsz⟩ := getAtts_inv inv hg
    simp only [Option.map_some, find_atts inv hg]
    cases hl : lookup (names A.items) (E.nfc raw) with
    | none => exact R_err inv _
    | some idx =>
      simp only
      cases hl2 : lookup (names A.items) (E.nfc rawNew) with
      | some j => exact R_err inv _
      | none =>
        simp only
        cases ha : A.items[idx]? with
        | none => exact R_err inv _
        | some a =>
          simp only
          refine R_ite (fun _ => R_err inv _) (fun _ => ?_)
          obtain ⟨hlt, hde⟩ := getElem?_lt ha
          obtain ⟨B, hB, hitems, hinv⟩ := NArr.rename_spec hsz hA idx hlt (E.nfc rawNew) (lookup_none_fresh hl2)
          rw [hB]
          refine ⟨?_, rfl, ?_⟩
          · simp only [abs_sync, abs_setAtts, hitems, hde, Named.setName]
          · exact FInv_sync (FInv_setAtts inv hg hinv)

theorem delAtt_refines (E : Env) (f : File) (varid : Int) (raw : Name) (inv : FInv E f) :
    R E (delAtt E f varid raw) (sDelAtt E f.abs varid raw) := by
  unfold delAtt sDelAtt
  simp only [abs_indef, abs_rdonly, abs_nvars, abs_getAtts]
  refine R_ite (fun _ => R_err inv _) (fun _ => ?_)
  refine R_ite (fun _ => R_err inv _) (fun _ => ?_)
  refine R_ite (fun _ => R_err inv _) (fun _ => ?_)
  refine R_ite (fun _ => R_err inv _) (fun _ => ?_)
  cases hg : f.getAtts varid with
  | none => exact R_err inv _
  | some A =>
    obtain ⟨hA, hsz⟩ := getAtts_inv inv hg
    simp only [Option.map_some, find_atts inv hg]
    cases hl : lookup (names A.items) (E.nfc raw) with
    | none => exact R_err inv _
    | some idx =>
      simp only
      have hlt : idx < A.items.length := by
        have := lookup_lt hl; simpa [names] using this
      obtain ⟨B, hB, hitems, hinv⟩ := NArr.del_spec hsz hA idx hlt
      rw [hB]
      refine ⟨?_, rfl, ?_⟩
      · simp only [abs_setAtts, hitems]
      · exact FInv_setAtts inv hg hinv

theorem copyAtt_refines (E : Env) (fin : File) (varidIn : Int) (raw : Name) (fout : File) (varidOut : Int)
    (same : Bool) (invIn : FInv E fin) (inv : FInv E fout)
    (hok : E.copyChk = true ∨ ∀ Ain i ia, fin.getAtts varidIn = some Ain → lookup (names Ain.items) (E.nfc raw) = some i →
             Ain.items[i]? = some ia → ¬ (fout.cfg.format ≤ 2 ∧ ia.xtype > 6)) :
    R E (copyAtt E fin varidIn raw fout varidOut same) (sCopyAtt E fin.abs varidIn raw fout.abs varidOut same) := by
  unfold copyAtt sCopyAtt
  simp only [abs_indef, abs_rdonly, abs_nvars, abs_getAtts, abs_format]
  refine R_ite (fun _ => R_err inv _) (fun _ => ?_)
  refine R_ite (fun _ => R_err inv _) (fun _ => ?_)
  refine R_ite (fun _ => R_err inv _) (fun _ => ?_)
  refine R_ite (fun _ => R_err inv _) (fun _ => ?_)
  cases hgi : fin.getAtts varidIn with
  | none => cases fout.getAtts varidOut <;> exact R_err inv _
  | some Ain =>
    cases hgo : fout.getAtts varidOut with
    | none => exact R_err inv _
    | some Aout =>
      obtain ⟨hA, hsz⟩ := getAtts_inv inv hgo
      simp only [Option.map_some, find_atts invIn hgi, find_atts inv hgo]
      cases hl : lookup (names Ain.items) (E.nfc raw) with
      | none => exact R_err inv _
      | some i =>
        simp only
        cases hia : Ain.items[i]? with
        | none => exact R_err inv _
        | some ia =>
          simp only
          by_cases hc : fout.cfg.format ≤ 2 ∧ ia.xtype > 6
          · have hchk : E.copyChk = true := by
              rcases hok with h | h
              · exact h
              · exact absurd hc (h Ain i ia hgi hl hia)
            simp only [hchk, hc, and_self, if_true]
            exact R_err inv _
          simp only [hc, and_false, if_false]
          cases hlo : lookup (names Aout.items) (E.nfc raw) with
          | some idx =>
            simp only
            refine R_ite (fun _ => R_err inv _) (fun _ => ?_)
            cases hoa : Aout.items[idx]? with
            | none => exact R_err inv _
            | some oa =>
              simp only
              refine R_ite (fun _ => R_err inv _) (fun _ => ?_)
              refine ⟨?_, rfl, ?_⟩
              · simp only [abs_sync, abs_setAtts, NArr.update]
              · exact FInv_sync (FInv_setAtts inv hgo (NArr.update_inv hA _ _ (fun _ => rfl)))
          | none =>
            simp only
            refine R_ite (fun _ => R_err inv _) (fun _ => ?_)
            refine ⟨?_, rfl, ?_⟩
            · simp only [abs_sync, abs_setAtts, NArr.push]
            · exact FInv_sync (FInv_setAtts inv hgo (NArr.push_inv hsz hA _ (lookup_none_fresh hlo)))

/-! ### mode changes, create, open, close -/

theorem enddef_refines (E : Env) (f : File) (inv : FInv E f) : R E (enddef f) (sEnddef f.abs) := by
  unfold enddef sEnddef
  simp only [abs_indef]
  refine R_ite (fun _ => R_err inv _) (fun _ => ?_)
  exact ⟨rfl, rfl, ⟨inv.hd, inv.hv, inv.hg, inv.ha, inv.dims, inv.vars, inv.gatts, inv.vatts,
                    fun d hd => by cases hd; exact FInv_wf inv⟩⟩

theorem redef_refines (E : Env) (f : File) (inv : FInv E f) : R E (redef f) (sRedef f.abs) := by
  unfold redef sRedef
  simp only [abs_indef, abs_rdonly, abs_nvars]
  refine R_ite (fun _ => R_err inv _) (fun _ => ?_)
  refine R_ite (fun _ => R_err inv _) (fun _ => ?_)
  refine ⟨?_, rfl, ⟨inv.hd, inv.hv, inv.hg, inv.ha, inv.dims, inv.vars, inv.gatts, inv.vatts, inv.disk⟩⟩
  simp [File.abs, Hdr.dup, File.nvars]

theorem close_refines (f : File) : close f = sClose f.abs := rfl

theorem create_refines (E : Env) (c : Cfg) (hd : 0 < c.hd) (hv : 0 < c.hv) (hg : 0 < c.hg) (ha : 0 < c.ha) :
    (create c).abs = sCreate c.format ∧ FInv E (create c) :=
  ⟨rfl, ⟨hd, hv, hg, ha, NArr.empty_inv _ _, NArr.empty_inv _ _, NArr.empty_inv _ _, (by intro v hv; cases hv),
         (by intro d h; cases h)⟩⟩

theorem openFile_refines (E : Env) (c : Cfg) (s : SHdr) (rdonly : Bool) (wf : s.Wf)
    (hd : 0 < c.hd) (hv : 0 < c.hv) (hg : 0 < c.hg) (ha : 0 < c.ha) :
    (openFile E c s rdonly).abs = sOpen c.format s rdonly ∧ FInv E (openFile E c s rdonly) := by
  have hD := NArr.ofList_spec (h := E.h) hd s.dims wf.dims
  have hG := NArr.ofList_spec (h := E.h) hg s.gatts wf.gatts
  have hVn : ((s.vars.map (fun v => Var.mk v.name v.xtype v.dimids (NArr.ofList E.h c.ha v.atts))).map Named.name).Nodup := by
    have : (s.vars.map (fun v => Var.mk v.name v.xtype v.dimids (NArr.ofList E.h c.ha v.atts))).map Named.name = names s.vars := by
      simp [names, List.map_map, Function.comp_def, Named.name]
    rw [this]; exact wf.vars
  have hV := NArr.ofList_spec (h := E.h) hv _ hVn
  refine ⟨?_, ⟨hd, hv, hg, ha, hD.2, hV.2, hG.2, ?_, fun d h => by cases h; exact wf⟩⟩
  · simp only [File.abs, openFile, sOpen, Hdr.abs, hD.1, hV.1, hG.1, Option.map_none]
    congr 2
    cases s with
    | mk dims vars gatts =>
      simp only [SHdr.mk.injEq, true_and, and_true, List.map_map]
      apply List.ext_getElem?
      intro i
      simp only [List.getElem?_map]
      cases hvi : vars[i]? with
      | none => rfl
      | some v =>
        have hm : v ∈ vars := List.mem_of_getElem? hvi
        have := (NArr.ofList_spec (h := E.h) ha v.atts (wf.vatts v hm)).1
        simp [Var.abs, this]
  · intro v hvm
    simp only [openFile, hV.1, List.mem_map] at hvm
    obtain ⟨sv, hsv, rfl⟩ := hvm
    exact (NArr.ofList_spec (h := E.h) ha sv.atts (wf.vatts sv hsv)).2

/-! ### inquiries agree -/

theorem inqDimid_eq (E : Env) (f : File) (raw : Name) (inv : FInv E f) : inqDimid E f raw = sInqDimid E f.abs raw := by
  unfold inqDimid sInqDimid; simp only [abs_dims, find_dims inv]; rfl

theorem inqVarid_eq (E : Env) (f : File) (raw : Name) (inv : FInv E f) : inqVarid E f raw = sInqVarid E f.abs raw := by
  unfold inqVarid sInqVarid; simp only [abs_vars, find_vars inv]; rfl

theorem inqDim_eq (f : File) (dimid : Int) : inqDim f dimid = sInqDim f.abs dimid := rfl

theorem inqVar_eq (f : File) (varid : Int) : inqVar f varid = sInqVar f.abs varid := by
  unfold inqVar sInqVar
  simp only [abs_nvars, abs_vars, List.getElem?_map]
  cases f.hdr.vars.items[varid.toNat]? <;> rfl

theorem inqNatts_eq (f : File) (varid : Int) : inqNatts f varid = sInqNatts f.abs varid := by
  unfold inqNatts sInqNatts
  simp only [abs_nvars, abs_getAtts]
  cases f.getAtts varid <;> rfl

theorem inqAttname_eq (f : File) (varid attnum : Int) : inqAttname f varid attnum = sInqAttname f.abs varid attnum := by
  unfold inqAttname sInqAttname
  simp only [abs_nvars, abs_getAtts]
  cases f.getAtts varid <;> rfl

theorem inqAttid_eq (E : Env) (f : File) (varid : Int) (raw : Name) (inv : FInv E f) :
    inqAttid E f varid raw = sInqAttid E f.abs varid raw := by
  unfold inqAttid sInqAttid
  simp only [abs_nvars, abs_getAtts]
  cases hg : f.getAtts varid with
  | none => rfl
  | some A => simp only [Option.map_some, find_atts inv hg]; rfl

theorem inqAtt_eq (E : Env) (f : File) (varid : Int) (raw : Name) (inv : FInv E f) :
    inqAtt E f varid raw = sInqAtt E f.abs varid raw := by
  unfold inqAtt sInqAtt
  simp only [abs_nvars, abs_getAtts]
  cases hg : f.getAtts varid with
  | none => rfl
  | some A => simp only [Option.map_some, find_atts inv hg]; rfl

theorem getAtt_eq (E : Env) (f : File) (varid : Int) (raw : Name) (asText : Bool) (inv : FInv E f) :
    getAtt E f varid raw asText = sGetAtt E f.abs varid raw asText := by
  unfold getAtt sGetAtt
  simp only [abs_nvars, abs_getAtts]
  cases hg : f.getAtts varid with
  | none => rfl
  | some A => simp only [Option.map_some, find_atts inv hg]; rfl

/-! ### whole programs -/

def World.abs (w : World) : SWorld := ⟨w.files.map (Option.map File.abs), w.disks⟩

/-- every open file satisfies the file invariant, every closed file's header is well formed -/
structure WInv (E : Env) (w : World) : Prop where
  files : ∀ s f, w.file s = some f → FInv E f
  disks : ∀ s fmt d, w.disk s = some (fmt, d) → d.Wf

/-- the hash sizes given in create/open are ≥ 1 (size 0 is accepted by the library and overflows
    the table: note N2, property C10/C19) -/
def MOp.ok : MOp → Prop
  | .create _ c => 0 < c.hd ∧ 0 < c.hv ∧ 0 < c.hg ∧ 0 < c.ha
  | .openF _ hd hv hg ha _ => 0 < hd ∧ 0 < hv ∧ 0 < hg ∧ 0 < ha
  | _ => True

instance : DecidablePred MOp.ok := fun op => by cases op <;> unfold MOp.ok <;> infer_instance

theorem abs_file (w : World) (s : Nat) : w.abs.file s = (w.file s).map File.abs := by
  unfold SWorld.file World.file World.abs
  simp only [List.getElem?_map]
  cases w.files[s]? with
  | none => rfl
  | some o => cases o <;> rfl

theorem abs_disk' (w : World) (s : Nat) : w.abs.disk s = w.disk s := rfl

theorem file_set (w : World) (s s' : Nat) (x : Option File) (d : List (Option (Nat × SHdr))) :
    (World.mk (w.files.set s x) d).file s' = if s = s' ∧ s < w.files.length then x else w.file s' := by
  unfold World.file
  simp only [List.getElem?_set]
  by_cases h : s = s'
  · subst h
    by_cases h2 : s < w.files.length
    · simp [h2]
    · simp [h2, List.getElem?_eq_none (Nat.le_of_not_lt h2)]
  · simp [h]

theorem disk_set (w : World) (s s' : Nat) (x : Option (Nat × SHdr)) (fl : List (Option File)) :
    (World.mk fl (w.disks.set s x)).disk s' = if s = s' ∧ s < w.disks.length then x else w.disk s' := by
  unfold World.disk
  simp only [List.getElem?_set]
  by_cases h : s = s'
  · subst h
    by_cases h2 : s < w.disks.length
    · simp [h2]
    · simp [h2, List.getElem?_eq_none (Nat.le_of_not_lt h2)]
  · simp [h]

theorem abs_set (w : World) (s : Nat) (x : Option File) (d : List (Option (Nat × SHdr))) :
    (World.mk (w.files.set s x) d).abs = ⟨w.abs.files.set s (x.map File.abs), d⟩ := by
  simp [World.abs, List.map_set]

/-- the world relation: same abstract world, same result, invariant kept -/
def RW (E : Env) (x : World × Int × Int) (y : SWorld × Int × Int) : Prop :=
  x.1.abs = y.1 ∧ x.2 = y.2 ∧ WInv E x.1

theorem on_refines {E : Env} {w : World} (winv : WInv E w) (s : Nat) (g : File → File × Int × Int)
    (sg : SFile → SFile × Int × Int) (h : ∀ f, w.file s = some f → FInv E f → R E (g f) (sg f.abs)) :
    RW E (w.on s g) (w.abs.on s sg) := by
  unfold World.on SWorld.on
  rw [abs_file]
  cases hf : w.file s with
  | none => exact ⟨rfl, rfl, winv⟩
  | some f =>
    obtain ⟨h1, h2, h3⟩ := h f hf (winv.files s f hf)
    simp only [Option.map_some]
    refine ⟨?_, by rw [h2], ?_⟩
    · rw [abs_set]; simp [h1, World.abs]
    · refine ⟨?_, ?_⟩
      · intro s' f' hf'
        rw [file_set] at hf'
        by_cases hc : s = s' ∧ s < w.files.length
        · rw [if_pos hc] at hf'
          cases hf'; exact h3
        · rw [if_neg hc] at hf'
          exact winv.files s' f' hf'
      · exact winv.disks

theorem R_wrap {E : Env} {x : File × Int} {y : SFile × Int} (h : R E x y) :
    R E (x.1, x.2, (-1 : Int)) (y.1, y.2, (-1 : Int)) :=
  ⟨h.1, by rw [h.2.1], h.2.2⟩

/-- the one thing the code does not check (defect, see `meta_refines_counterexample` in Props/C07.lean):
    ncmpi_copy_att copies an attribute of an extended type into a CDF-1/2 file.  `copyOK` = this
    operation is not such a copy. -/
def copyOK (E : Env) (w : World) : MOp → Bool
  | .copyAtt s varid raw s2 _ =>
    E.copyChk ||
    match w.file s, w.file s2 with
    | some fin, some fout =>
      match fin.getAtts varid with
      | some Ain =>
        match lookup (names Ain.items) (E.nfc raw) with
        | some i =>
          match Ain.items[i]? with
          | some ia => !(decide (fout.cfg.format ≤ 2) && decide (ia.xtype > 6))
          | none => true
        | none => true
      | none => true
    | _, _ => true
  | _ => true

/-- one step of any program on any consistent world refines the reference model -/
theorem wstep_refines (E : Env) (w : World) (op : MOp) (winv : WInv E w) (ok : op.ok) (cok : copyOK E w op = true) :
    RW E (wstep E w op) (swstep E w.abs op) := by
  cases op with
  | create s c =>
    simp only [wstep, swstep]
    rw [abs_file]
    cases hf : w.file s with
    | some f => exact ⟨rfl, rfl, winv⟩
    | none =>
      obtain ⟨h1, h2, h3, h4⟩ := ok
      obtain ⟨ha, hi⟩ := create_refines E c h1 h2 h3 h4
      refine ⟨?_, rfl, ?_, ?_⟩
      · rw [abs_set]; simp [ha, World.abs]
      · intro s' f' hf'
        rw [file_set] at hf'
        by_cases hc : s = s' ∧ s < w.files.length
        · rw [if_pos hc] at hf'
          cases hf'; exact hi
        · rw [if_neg hc] at hf'
          exact winv.files s' f' hf'
      · intro s' fmt d hd
        rw [disk_set] at hd
        by_cases hc : s = s' ∧ s < w.disks.length
        · rw [if_pos hc] at hd; cases hd
        · rw [if_neg hc] at hd
          exact winv.disks s' fmt d hd
  | openF s hd hv hg ha write =>
    simp only [wstep, swstep]
    rw [abs_file, abs_disk']
    cases hf : w.file s with
    | some f => exact ⟨rfl, rfl, winv⟩
    | none =>
      cases hdk : w.disk s with
      | none => exact ⟨rfl, rfl, winv⟩
      | some p =>
        obtain ⟨fmt, d⟩ := p
        obtain ⟨h1, h2, h3, h4⟩ := ok
        obtain ⟨hab, hi⟩ := openFile_refines E ⟨hd, hv, hg, ha, fmt⟩ d (!write) (winv.disks s fmt d hdk) h1 h2 h3 h4
        refine ⟨?_, rfl, ?_, winv.disks⟩
        · show (World.mk _ w.disks).abs = _
          rw [abs_set]; simp [hab, World.abs]
        · intro s' f' hf'
          have := file_set w s s' (some (openFile E ⟨hd, hv, hg, ha, fmt⟩ d (!write))) w.disks
          rw [this] at hf'
          by_cases hc : s = s' ∧ s < w.files.length
          · rw [if_pos hc] at hf'
            cases hf'; exact hi
          · rw [if_neg hc] at hf'
            exact winv.files s' f' hf'
  | close s =>
    simp only [wstep, swstep]
    rw [abs_file]
    cases hf : w.file s with
    | none => exact ⟨rfl, rfl, winv⟩
    | some f =>
      have inv := winv.files s f hf
      refine ⟨?_, rfl, ?_, ?_⟩
      · simp only [Option.map_some]
        rw [abs_set]; simp [World.abs, close_refines]
      · intro s' f' hf'
        rw [file_set] at hf'
        by_cases hc : s = s' ∧ s < w.files.length
        · rw [if_pos hc] at hf'; cases hf'
        · rw [if_neg hc] at hf'
          exact winv.files s' f' hf'
      · intro s' fmt d hd
        rw [disk_set] at hd
        by_cases hc : s = s' ∧ s < w.disks.length
        · rw [if_pos hc] at hd
          simp only [Option.map_eq_some_iff, Prod.mk.injEq] at hd
          obtain ⟨d', hd', _, rfl⟩ := hd
          unfold close at hd'
          by_cases hi : f.indef = true
          · simp only [hi, if_true, Option.some.injEq] at hd'
            subst hd'; exact FInv_wf inv
          · simp only [hi, if_false, Bool.false_eq_true] at hd'
            exact inv.disk d' hd'
        · rw [if_neg hc] at hd
          exact winv.disks s' fmt d hd
  | enddef s => exact on_refines winv s _ _ (fun f _ inv => R_wrap (enddef_refines E f inv))
  | redef s => exact on_refines winv s _ _ (fun f _ inv => R_wrap (redef_refines E f inv))
  | defDim s raw size => exact on_refines winv s _ _ (fun f _ inv => defDim_refines E f raw size inv)
  | renameDim s dimid raw => exact on_refines winv s _ _ (fun f _ inv => R_wrap (renameDim_refines E f dimid raw inv))
  | defVar s raw xtype dimids => exact on_refines winv s _ _ (fun f _ inv => defVar_refines E f raw xtype dimids inv)
  | renameVar s varid raw => exact on_refines winv s _ _ (fun f _ inv => R_wrap (renameVar_refines E f varid raw inv))
  | putAtt s varid raw isText xtype vals =>
    exact on_refines winv s _ _ (fun f _ inv => R_wrap (putAtt_refines E f varid raw isText xtype vals inv))
  | renameAtt s varid raw rawNew =>
    exact on_refines winv s _ _ (fun f _ inv => R_wrap (renameAtt_refines E f varid raw rawNew inv))
  | delAtt s varid raw => exact on_refines winv s _ _ (fun f _ inv => R_wrap (delAtt_refines E f varid raw inv))
  | copyAtt s varid raw s2 varid2 =>
    simp only [wstep, swstep]
    rw [abs_file]
    cases hf : w.file s with
    | none => exact ⟨rfl, rfl, winv⟩
    | some fin =>
      simp only [Option.map_some]
      refine on_refines winv s2 _ _
        (fun f hf2 inv => R_wrap (copyAtt_refines E fin varid raw f varid2 (s == s2) (winv.files s fin hf) inv ?_))
      by_cases hchk : E.copyChk = true
      · exact Or.inl hchk
      right
      intro Ain i ia h1 h2 h3
      simp only [copyOK, hchk, Bool.false_or, hf, hf2, h1, h2, h3, Bool.not_eq_true', Bool.and_eq_false_iff,
        decide_eq_false_iff_not] at cok
      intro hc
      rcases cok with h | h
      · exact h hc.1
      · exact h hc.2

theorem init_winv (E : Env) (n : Nat) : WInv E (World.init n) := by
  refine ⟨?_, ?_⟩
  · intro s f h
    unfold World.file World.init at h
    simp only [List.getElem?_replicate] at h
    split at h <;> simp at h
  · intro s fmt d h
    unfold World.disk World.init at h
    simp only [List.getElem?_replicate] at h
    split at h <;> simp at h

theorem init_abs (n : Nat) : (World.init n).abs = SWorld.init n := by
  simp [World.abs, World.init, SWorld.init]

/-- the program never copies an extended-type attribute into a classic-format file (checked along the
    model's own run) -/
def copiesOK (E : Env) : World → List MOp → Bool
  | _, [] => true
  | w, op :: rest => copyOK E w op && copiesOK E (wstep E w op).1 rest

theorem copyOK_of_chk {E : Env} (h : E.copyChk = true) (w : World) (op : MOp) : copyOK E w op = true := by
  cases op <;> simp [copyOK, h]

theorem copiesOK_of_chk {E : Env} (h : E.copyChk = true) (w : World) (ops : List MOp) : copiesOK E w ops = true := by
  induction ops generalizing w with
  | nil => rfl
  | cons op rest ih => simp [copiesOK, copyOK_of_chk h, ih]

/-- whole programs: same results, same abstract final world, invariant kept -/
theorem wrun_refines (E : Env) (w : World) (ops : List MOp) (winv : WInv E w) (ok : ∀ op ∈ ops, op.ok)
    (cok : copiesOK E w ops = true) :
    (wrun E w ops).1.abs = (swrun E w.abs ops).1 ∧ (wrun E w ops).2 = (swrun E w.abs ops).2 ∧
    WInv E (wrun E w ops).1 := by
  induction ops generalizing w with
  | nil => exact ⟨rfl, rfl, winv⟩
  | cons op rest ih =>
    simp only [copiesOK, Bool.and_eq_true] at cok
    obtain ⟨h1, h2, h3⟩ := wstep_refines E w op winv (ok op (by simp)) cok.1
    obtain ⟨i1, i2, i3⟩ := ih (wstep E w op).1 h3 (fun o ho => ok o (by simp [ho])) cok.2
    simp only [wrun, swrun]
    rw [← h1, ← h2]
    exact ⟨i1, by rw [i2], i3⟩

/-! ### a change made in data mode is on disk when the call returns -/

@[simp] theorem setAtts_indef (f : File) (v : Int) (A : NArr Attr) : (f.setAtts v A).indef = f.indef := by
  unfold File.setAtts; split <;> rfl

/-- ncmpio_write_header was reached: a file that is in data mode has, after `sync`, exactly its
    current header on disk -/
theorem sync_disk (f : File) (h : f.indef = false) : (File.sync f).disk = some (File.sync f).hdr.abs := by
  simp [File.sync, h]

theorem putAtt_disk (E : Env) (f : File) (varid : Int) (raw : Name) (isText : Bool) (xt : Int) (vals : List Int)
    (h : f.indef = false) :
    (putAtt E f varid raw isText xt vals).1 = f ∨
    (putAtt E f varid raw isText xt vals).1.disk = some (putAtt E f varid raw isText xt vals).1.hdr.abs := by
  unfold putAtt
  try simp only []
  repeat' split
  all_goals first | exact Or.inl rfl | (right; exact sync_disk _ (by simp [h]))

theorem renameAtt_disk (E : Env) (f : File) (varid : Int) (raw rawNew : Name) (h : f.indef = false) :
    (renameAtt E f varid raw rawNew).1 = f ∨
    (renameAtt E f varid raw rawNew).1.disk = some (renameAtt E f varid raw rawNew).1.hdr.abs := by
  unfold renameAtt
  try simp only []
  repeat' split
  all_goals first | exact Or.inl rfl | (right; exact sync_disk _ (by simp [h]))

theorem renameDim_disk (E : Env) (f : File) (dimid : Int) (raw : Name) (h : f.indef = false) :
    (renameDim E f dimid raw).1 = f ∨
    (renameDim E f dimid raw).1.disk = some (renameDim E f dimid raw).1.hdr.abs := by
  unfold renameDim
  try simp only []
  repeat' split
  all_goals first | exact Or.inl rfl | (right; exact sync_disk _ (by simp [h]))

theorem renameVar_disk (E : Env) (f : File) (varid : Int) (raw : Name) (h : f.indef = false) :
    (renameVar E f varid raw).1 = f ∨
    (renameVar E f varid raw).1.disk = some (renameVar E f varid raw).1.hdr.abs := by
  unfold renameVar
  try simp only []
  repeat' split
  all_goals first | exact Or.inl rfl | (right; exact sync_disk _ (by simp [h]))

theorem copyAtt_disk (E : Env) (fin : File) (varidIn : Int) (raw : Name) (fout : File) (varidOut : Int) (same : Bool)
    (h : fout.indef = false) :
    (copyAtt E fin varidIn raw fout varidOut same).1 = fout ∨
    (copyAtt E fin varidIn raw fout varidOut same).1.disk =
      some (copyAtt E fin varidIn raw fout varidOut same).1.hdr.abs := by
  unfold copyAtt
  try simp only []
  repeat' split
  all_goals first | exact Or.inl rfl | (right; exact sync_disk _ (by simp [h]))

end PnVerif.Meta
