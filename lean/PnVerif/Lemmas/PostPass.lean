import PnVerif.Lemmas.LayoutLemmas
import PnVerif.Lemmas.Encode
/-
  The post-pass of ncmpio_hdr_get_NC (compute_var_shape) against the specification's size rules.
-/
namespace PnVerif.Header
open PnVerif.Spec PnVerif.Layout

def nz (s : Nat) : Nat := if s ≠ 0 then s else 1

theorem prodR_eq_of_nonzero (l : List Nat) (h : ∀ s ∈ l, s ≠ 0) : prodR l = (l.map nz).foldr (· * ·) 1 := by
  induction l with
  | nil => rfl
  | cons a t ih =>
    have ha := h a (by simp)
    have iht := ih (fun s hs => h s (by simp [hs]))
    cases t with
    | nil => simp [prodR, nz, ha]
    | cons b t' =>
      simp only [prodR, List.map_cons, List.foldr_cons] at iht ⊢
      rw [iht]; simp [nz, ha]

theorem shapeProduct_eq (sh : List Nat) (h : ∀ s ∈ sh.drop 1, s ≠ 0) :
    shapeProduct sh = (sh.map nz).foldr (· * ·) 1 := by
  unfold shapeProduct
  match sh, h with
  | [], _ => rfl
  | [s0], _ => simp only [List.map_cons, List.map_nil, List.foldr_cons, List.foldr_nil, nz]; split <;> simp_all
  | a :: b :: t, h =>
    simp only [prodR]
    rw [prodR_eq_of_nonzero (b :: t) (fun s hs => h s (by simpa using hs))]
    simp [nz]

/-- when the shape loop succeeds, the shape is the list of the dimension lengths -/
theorem shapeOf_eq (dims : List Dim) : ∀ (ids : List Nat) (i : Nat) (sh : List Nat),
    shapeOf dims ids i = .ok sh → sh.map nz = ids.map (fun id => match dims[id]? with
      | some dm => if dm.size = 0 then 1 else dm.size
      | none => 1) := by
  intro ids
  induction ids with
  | nil =>
    intro i sh h
    simp only [shapeOf, Except.ok.injEq] at h
    subst h; rfl
  | cons id ids ih =>
    intro i sh h
    simp only [shapeOf] at h
    split at h
    · contradiction
    · rename_i d hd
      split at h
      · contradiction
      · split at h
        · rename_i sh' hsh
          simp only [Except.ok.injEq] at h
          subst h
          simp only [List.map_cons, ih _ _ hsh, hd, List.cons.injEq, and_true]
          unfold nz; split <;> simp_all
        · contradiction

/-- whenever ncmpio_NC_var_shape64 accepts a variable, the length it computes is the one the format
    prescribes: product of the dimension lengths (record dimension = 1) × element size, padded to 4 -/
theorem varShape64_spec (d : Schema) (v : Var) (shape : List Nat) (len : Nat)
    (h : varShape64 d.dims v = .ok (shape, len)) : len = d.varLen v := by
  unfold varShape64 at h
  split at h
  · contradiction
  · rename_i sh hsh
    split at h
    · contradiction
    · simp only [Except.ok.injEq, Prod.mk.injEq] at h
      obtain ⟨rfl, rfl⟩ := h
      have hp := shapeProduct_eq sh (shapeOf_nonzero d.dims _ _ _ hsh).2
      have he := shapeOf_eq d.dims _ _ _ hsh
      have : shapeProduct sh = d.nelems v := by
        rw [hp, he]; rfl
      rw [this]
      unfold Schema.varLen Spec.rndup4
      split <;> omega

end PnVerif.Header

namespace PnVerif.Header
open PnVerif.Spec PnVerif.Layout

theorem cvsFinish_lens (xsz : Nat) (st : CvsState) (a b c : Nat) (shapes : List (List Nat)) (lens : List Nat)
    (h : cvsFinish xsz st = .ok (a, b, c, shapes, lens)) : shapes = st.shapes ∧ lens = st.lens := by
  unfold cvsFinish at h
  split at h
  · contradiction
  · simp only [] at h
    split at h <;> first
      | contradiction
      | (simp only [Except.ok.injEq, Prod.mk.injEq] at h; exact ⟨h.2.2.2.1.symm, h.2.2.2.2.symm⟩)

theorem cvsLoop_lens (d : Schema) : ∀ (vs : List Var) (st st' : CvsState),
    cvsLoop d.dims vs st = .ok st' → st'.lens = st.lens ++ vs.map d.varLen := by
  intro vs
  induction vs with
  | nil =>
    intro st st' h
    simp only [cvsLoop, Except.ok.injEq] at h
    subst h; simp
  | cons v vs ih =>
    intro st st' h
    simp only [cvsLoop] at h
    split at h
    · contradiction
    · rename_i shape len hsl
      have hl := varShape64_spec d v shape len hsl
      split at h
      · have := ih _ _ h
        rw [this]; simp [hl]
      · have := ih _ _ h
        rw [this]; simp [hl]

/-- Whenever ncmpio_hdr_get_NC accepts a header, the variable lengths it works with from then on
    (every data offset of every later read is computed from them) are exactly the ones the format
    specification prescribes, whatever the vsize fields of the file say, and the header size it
    reports is the size of the encoded header. -/
theorem postPass_lens (d : Schema) (info : Info) (h : postPass d = .ok info) :
    info.lens = d.vars.map d.varLen ∧ info.xsz = Hdr.len d := by
  unfold postPass at h
  simp only [] at h
  split at h
  · contradiction
  · rename_i beginVar beginRec recsize shapes lens hcvs
    split at h
    · contradiction
    · split at h
      · contradiction
      · simp only [Except.ok.injEq] at h
        subst h
        refine ⟨?_, rfl⟩
        show lens = _
        unfold computeVarShape at hcvs
        split at hcvs
        · rename_i h0
          simp only [Except.ok.injEq, Prod.mk.injEq] at hcvs
          have : d.vars = [] := List.eq_nil_of_length_eq_zero h0
          rw [this]; simp [hcvs.2.2.2.2.symm]
        · split at hcvs
          · contradiction
          · rename_i st hst
            have hl := cvsLoop_lens d _ _ _ hst
            simp only [List.nil_append] at hl
            rw [(cvsFinish_lens _ _ _ _ _ _ _ hcvs).2, hl]

end PnVerif.Header

namespace PnVerif.Header
open PnVerif.Spec PnVerif.Layout

theorem decodeWhole_post (file : Bytes) (h : Hdr) (info : Info) (hd : decodeWhole file = .ok (h, info)) :
    postPass h = .ok info := by
  unfold decodeWhole at hd
  split at hd
  · contradiction
  · split at hd
    · contradiction
    · split at hd
      · contradiction
      · rename_i hp
        simp only [Except.ok.injEq, Prod.mk.injEq] at hd
        obtain ⟨rfl, rfl⟩ := hd
        exact hp

theorem cvsFinish_extent (xsz : Nat) (st : CvsState) (a b c : Nat) (shapes : List (List Nat)) (lens : List Nat)
    (h : cvsFinish xsz st = .ok (a, b, c, shapes, lens)) : xsz ≤ a := by
  unfold cvsFinish at h
  split at h
  · contradiction
  · simp only [] at h
    split at h <;> first
      | contradiction
      | (rename_i hc; simp only [Except.ok.injEq, Prod.mk.injEq] at h; obtain ⟨rfl, _⟩ := h; omega)

theorem postPass_extent (d : Schema) (info : Info) (h : postPass d = .ok info) (hv : d.vars ≠ []) :
    info.xsz ≤ info.beginVar := by
  unfold postPass at h
  simp only [] at h
  split at h
  · contradiction
  · rename_i beginVar beginRec recsize shapes lens hcvs
    split at h
    · contradiction
    · split at h
      · contradiction
      · simp only [Except.ok.injEq] at h
        subst h
        show Hdr.len d ≤ beginVar
        unfold computeVarShape at hcvs
        split at hcvs
        · rename_i h0; exact absurd (List.eq_nil_of_length_eq_zero h0) hv
        · split at hcvs
          · contradiction
          · exact cvsFinish_extent _ _ _ _ _ _ _ hcvs

end PnVerif.Header
