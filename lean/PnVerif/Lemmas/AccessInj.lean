import PnVerif.Model.Access
namespace PnVerif.Access

/-- index tuple inside the shape -/
def inBounds : List Nat → List Nat → Prop
  | [], [] => True
  | n :: ns, i :: is => i < n ∧ inBounds ns is
  | _, _ => False

instance : (shape idx : List Nat) → Decidable (inBounds shape idx)
  | [], [] => isTrue trivial
  | n :: ns, i :: is => by
      have := instDecidableInBounds ns is
      unfold inBounds; infer_instance
  | [], _ :: _ => isFalse (by simp [inBounds])
  | _ :: _, [] => isFalse (by simp [inBounds])

theorem rowMajor_lt (shape idx : List Nat) (h : inBounds shape idx) : rowMajor shape idx < prod shape := by
  induction shape generalizing idx with
  | nil => cases idx <;> simp_all [inBounds, rowMajor, prod]
  | cons n ns ih =>
    cases idx with
    | nil => simp [inBounds] at h
    | cons i is =>
      obtain ⟨hi, hr⟩ := h
      have h2 := ih is hr
      simp only [rowMajor, prod]
      calc i * prod ns + rowMajor ns is < i * prod ns + prod ns := by omega
        _ = (i + 1) * prod ns := by rw [Nat.add_mul, Nat.one_mul]
        _ ≤ n * prod ns := Nat.mul_le_mul_right _ hi

theorem mul_add_inj (P a b r r' : Nat) (hr : r < P) (hr' : r' < P) (h : a * P + r = b * P + r') : a = b ∧ r = r' := by
  have hab : a = b := by
    rcases Nat.lt_trichotomy a b with hlt | heq | hgt
    · exfalso
      have : (a + 1) * P ≤ b * P := Nat.mul_le_mul_right _ hlt
      rw [Nat.add_mul, Nat.one_mul] at this
      omega
    · exact heq
    · exfalso
      have : (b + 1) * P ≤ a * P := Nat.mul_le_mul_right _ hgt
      rw [Nat.add_mul, Nat.one_mul] at this
      omega
  subst hab
  exact ⟨rfl, by omega⟩

/-- distinct in-bounds index tuples have distinct row-major positions -/
theorem rowMajor_inj (shape idx idx' : List Nat) (h : inBounds shape idx) (h' : inBounds shape idx')
    (heq : rowMajor shape idx = rowMajor shape idx') : idx = idx' := by
  induction shape generalizing idx idx' with
  | nil => cases idx <;> cases idx' <;> simp_all [inBounds]
  | cons n ns ih =>
    cases idx with
    | nil => simp [inBounds] at h
    | cons i is =>
    cases idx' with
    | nil => simp [inBounds] at h'
    | cons i' is' =>
      obtain ⟨_, hr⟩ := h
      obtain ⟨_, hr'⟩ := h'
      simp only [rowMajor] at heq
      have := mul_add_inj (prod ns) i i' _ _ (rowMajor_lt ns is hr) (rowMajor_lt ns is' hr') heq
      rw [this.1, ih is is' hr hr' this.2]

/-- two positions p ≠ q scaled by the element size give disjoint byte intervals -/
theorem scaled_disjoint (p q xsz : Nat) (h : p ≠ q) : p * xsz + xsz ≤ q * xsz ∨ q * xsz + xsz ≤ p * xsz := by
  rcases Nat.lt_or_gt_of_ne h with hlt | hgt
  · left
    have : (p + 1) * xsz ≤ q * xsz := Nat.mul_le_mul_right _ hlt
    rwa [Nat.add_mul, Nat.one_mul] at this
  · right
    have : (q + 1) * xsz ≤ p * xsz := Nat.mul_le_mul_right _ hgt
    rwa [Nat.add_mul, Nat.one_mul] at this

end PnVerif.Access

namespace PnVerif.Access

/-- the index form used by ncmpio_first_offset for the dimensions after the first:
    Σ_{j ≤ m-2} idx[j] * Π shape[j+1..]  +  idx[m-1]   =   rowMajor shape idx      (m = length ≥ 1) -/
theorem sumRange_rowMajor (shape idx : List Nat) (h : shape.length = idx.length) (hpos : 0 < shape.length) :
    sumRange (shape.length - 1) (fun j => idx.getD j 0 * prod (shape.drop (j + 1))) + idx.getD (shape.length - 1) 0
      = rowMajor shape idx := by
  induction shape generalizing idx with
  | nil => simp at hpos
  | cons a as ih =>
    cases idx with
    | nil => simp at h
    | cons s ss =>
      simp only [List.length_cons, Nat.add_right_cancel_iff] at h
      cases as with
      | nil =>
        have : ss = [] := List.length_eq_zero_iff.mp h.symm
        subst this
        simp [sumRange, rowMajor, prod]
      | cons b bs =>
        have ih' := ih ss h (by simp)
        simp only [List.length_cons, Nat.add_sub_cancel] at ih' ⊢
        simp only [sumRange, rowMajor]
        rw [← ih']
        have e1 : (s :: ss).getD 0 0 = s := rfl
        have e2 : List.drop (0 + 1) (a :: b :: bs) = b :: bs := rfl
        have e3 : (s :: ss).getD (bs.length + 1) 0 = ss.getD bs.length 0 := rfl
        have e4 : (fun j => (s :: ss).getD (j + 1) 0 * prod (List.drop (j + 1 + 1) (a :: b :: bs)))
                = (fun j => ss.getD j 0 * prod (List.drop (j + 1) (b :: bs))) := by
          funext j; rfl
        rw [e1, e2, e3, e4]
        omega

end PnVerif.Access
