import PnVerif.Model.Scs
import PnVerif.Spec.InBounds
/-
  Helper lemmas for C15: characterisation of the checker's loops, exact vs 64-bit arithmetic,
  row-major offsets, write footprints.
-/
namespace PnVerif.Scs
open PnVerif.Spec.InBounds

theorem mul_ge_self {a s : Int} (ha : 0 ≤ a) (hs : 1 ≤ s) : a ≤ a * s := by
  have : a * 1 ≤ a * s := Int.mul_le_mul_of_nonneg_left hs ha
  simpa using this

theorem mul_nonpos_of {a s : Int} (ha : 0 ≤ a) (hs : s ≤ 0) : a * s ≤ 0 :=
  Int.mul_nonpos_of_nonneg_of_nonpos ha hs

/-! ### check_EINVALCOORDS / check_EEDGE -/

theorem checkEINVALCOORDS_cases (strict : Bool) (s c sh : Int) :
    (checkEINVALCOORDS strict s c sh = NC_NOERR ∧ ¬ BadCoord strict s c sh) ∨
    (checkEINVALCOORDS strict s c sh = NC_EINVALCOORDS ∧ BadCoord strict s c sh) := by
  unfold checkEINVALCOORDS BadCoord NC_NOERR NC_EINVALCOORDS
  cases strict <;> simp <;> (repeat' split) <;> omega

theorem checkEEDGE_cases (s c : Int) (str : Option Int) (sh : Int) :
    (checkEEDGE exact s c str sh = NC_NOERR ∧ ¬ EdgeViol s c str sh) ∨
    (checkEEDGE exact s c str sh = NC_EEDGE ∧ EdgeViol s c str sh) := by
  unfold checkEEDGE EdgeViol exact NC_NOERR NC_EEDGE
  have h1 : ∀ x : Int, x + -1 = x - 1 := fun x => by omega
  cases str <;> simp [h1] <;> (repeat' split) <;> simp_all <;> omega


/-! ### the loops -/

theorem coordLoop_eq (c : Ctx) (r : Req) (l : List D) :
    coordLoop c.strict r.hasCount l =
      if ∃ d ∈ l, CoordBadDim c r (true, d) then NC_EINVALCOORDS else NC_NOERR := by
  induction l with
  | nil => simp [coordLoop]
  | cons d ds ih =>
    unfold coordLoop
    rcases checkEINVALCOORDS_cases c.strict d.start (if r.hasCount then d.count else 1) d.shape with ⟨h1, h2⟩ | ⟨h1, h2⟩
    · have hd : ¬ CoordBadDim c r (true, d) := by
        unfold CoordBadDim effCount; simp only [true_and]
        intro h; rcases h with h | h
        · exact h2 (Or.inl h)
        · exact h2 h
      simp only [h1, ne_eq, not_true_eq_false, if_false, ih, List.exists_mem_cons]
      simp [hd]
    · have hd : CoordBadDim c r (true, d) := by
        unfold CoordBadDim effCount; exact Or.inr ⟨rfl, h2⟩
      have : ∃ x ∈ d :: ds, CoordBadDim c r (true, x) := ⟨d, List.mem_cons_self, hd⟩
      simp only [h1, if_pos this]
      simp [NC_EINVALCOORDS, NC_NOERR]

/-- the edge loop in uniform form over (bounded, dim) pairs -/
def edgeU (r : Req) : List (Bool × D) → Int
  | [] => NC_NOERR
  | p :: ps =>
    if NegCount p then NC_ENEGATIVECNT
    else if EdgeBadDim r p then NC_EEDGE
    else edgeU r ps

theorem edgeLoop_eq (r : Req) (l : List D) (hs : ∀ d ∈ l, 0 ≤ d.shape) :
    edgeLoop exact r.hasStride l = edgeU r (l.map (fun d => (true, d))) := by
  induction l with
  | nil => simp [edgeLoop, edgeU]
  | cons d ds ih =>
    have h0 : 0 ≤ d.shape := hs d List.mem_cons_self
    have ih' := ih (fun x hx => hs x (List.mem_cons_of_mem _ hx))
    unfold edgeLoop
    simp only [List.map_cons, edgeU, NegCount, EdgeBadDim, strideOpt, true_and]
    have hn : ¬ d.shape < 0 := by omega
    simp only [hn, if_false]
    by_cases hc : d.count < 0
    · simp [hc]
    · simp only [hc, if_false]
      rcases checkEEDGE_cases d.start d.count (if r.hasStride then some d.stride else none) d.shape with ⟨h1, h2⟩ | ⟨h1, h2⟩
      · simp only [h1, ne_eq, not_true_eq_false, if_false, ih', if_neg h2]
      · simp only [h1, if_pos h2]; simp [NC_EEDGE, NC_NOERR]

theorem strideLoop_eq (l : List D) :
    strideLoop l = if ∃ d ∈ l, d.stride ≤ 0 then NC_ESTRIDE else NC_NOERR := by
  induction l with
  | nil => simp [strideLoop]
  | cons d ds ih =>
    unfold strideLoop
    by_cases h : d.stride ≤ 0
    · have : ∃ x ∈ d :: ds, x.stride ≤ 0 := ⟨d, List.mem_cons_self, h⟩
      simp [h, this]
    · simp only [h, if_false, ih, List.exists_mem_cons]; simp [h]

/-- check_start_count_stride over exact integers, in uniform (phase) form -/
def scsU (c : Ctx) (r : Req) : Int :=
  if CoordBad c r then NC_EINVALCOORDS
  else if r.hasCount = false then (if c.needCount then NC_EEDGE else NC_NOERR)
  else
    let e := edgeU r (bdims c r)
    if e ≠ NC_NOERR then e
    else if r.hasStride = true ∧ ∃ d ∈ r.dims, d.stride ≤ 0 then NC_ESTRIDE else NC_NOERR

theorem checkEINVALCOORDS_eq (strict : Bool) (s c sh : Int) :
    checkEINVALCOORDS strict s c sh = if BadCoord strict s c sh then NC_EINVALCOORDS else NC_NOERR := by
  rcases checkEINVALCOORDS_cases strict s c sh with ⟨h1, h2⟩ | ⟨h1, h2⟩ <;> simp [h1, h2]

theorem checkEEDGE_eq (s c : Int) (str : Option Int) (sh : Int) :
    checkEEDGE exact s c str sh = if EdgeViol s c str sh then NC_EEDGE else NC_NOERR := by
  rcases checkEEDGE_cases s c str sh with ⟨h1, h2⟩ | ⟨h1, h2⟩ <;> simp [h1, h2]

theorem exists_bd (c : Ctx) (r : Req) (b : Bool) (d0 : D) (rest : List D) :
    (∃ p, p ∈ (b, d0) :: List.map (fun d => ((true:Bool), d)) rest ∧ CoordBadDim c r p) ↔
      (CoordBadDim c r (b, d0) ∨ ∃ d, d ∈ rest ∧ CoordBadDim c r (true, d)) := by simp

theorem checkSCS_exact_eq (c : Ctx) (r : Req) (hs : ∀ d ∈ r.dims, 0 ≤ d.shape) (hne : r.dims ≠ []) :
    checkSCS exact c r = scsU c r := by
  obtain ⟨dims, sn, hc, hst⟩ := r
  cases dims with
  | nil => exact absurd rfl hne
  | cons d0 rest =>
    simp only at hs
    have hs0 : 0 ≤ d0.shape := hs d0 List.mem_cons_self
    have hsr : ∀ d ∈ rest, 0 ≤ d.shape := fun d hd => hs d (List.mem_cons_of_mem _ hd)
    generalize hr : (⟨d0 :: rest, sn, hc, hst⟩ : Req) = r
    have e1 : r.dims = d0 :: rest := by rw [← hr]
    unfold checkSCS scsU CoordBad bdims
    simp only [e1]
    cases hrec : c.isRec
    · -- fixed-size variable
      simp only [Bool.false_eq_true, if_false, false_and, or_false, ne_eq, not_true_eq_false]
      rw [coordLoop_eq c r, edgeLoop_eq r _ hs, strideLoop_eq]
      have hx : (∃ p, p ∈ (true, d0) :: List.map (fun d => (true, d)) rest ∧ CoordBadDim c r p) ↔
          ∃ d, d ∈ d0 :: rest ∧ CoordBadDim c r (true, d) := by simp
      have hm : List.map (fun d => ((true : Bool), d)) (d0 :: rest) = (true, d0) :: List.map (fun d => (true, d)) rest := rfl
      simp only [hx, hm]
      have h0 : d0.start < 0 → ∃ d, d ∈ d0 :: rest ∧ CoordBadDim c r (true, d) :=
        fun h => ⟨d0, List.mem_cons_self, Or.inl h⟩
      have hne' : ¬ (NC_EINVALCOORDS = NC_NOERR) := by decide
      by_cases hsn : r.startNull = true
      · simp only [hsn, true_or, if_true]
      · by_cases hB : ∃ d, d ∈ d0 :: rest ∧ CoordBadDim c r (true, d)
        · by_cases h00 : d0.start < 0
          · simp only [hsn, h00, hB, or_true, if_true]
          · simp only [hsn, h00, hB, or_true, or_false, if_true, if_false, hne', not_false_eq_true, Bool.false_eq_true]
        · have h00 : ¬ d0.start < 0 := fun h => hB (h0 h)
          simp only [hsn, h00, hB, or_self, if_false, not_true_eq_false]
          cases hc' : r.hasCount
          · simp only [Bool.not_false, if_true]
          · simp only [Bool.not_true, Bool.false_eq_true, if_false, Bool.true_eq_false]
            by_cases he : edgeU r ((true, d0) :: List.map (fun d => (true, d)) rest) = NC_NOERR
            · simp only [he, not_true_eq_false, if_false]
              cases hst' : r.hasStride
              · simp only [Bool.false_eq_true, if_false, false_and]
              · simp only [if_true, true_and]
            · simp only [he, not_false_eq_true, if_true]
    · simp only [if_true, true_and, ne_eq]
      rw [coordLoop_eq c r, edgeLoop_eq r _ hsr, strideLoop_eq, checkEINVALCOORDS_eq, checkEEDGE_eq]
      simp only [exists_bd, edgeU, NegCount, EdgeBadDim, strideOpt, List.head?_cons,
        Option.mem_def, Option.some.injEq, exists_eq_left']
      have hcb0 : CoordBadDim c r (c.isRead, d0) ↔
          (d0.start < 0 ∨ c.isRead = true ∧ BadCoord c.strict d0.start (effCount r d0) d0.shape) := Iff.rfl
      simp only [hcb0]
      have hn1 : ¬ (NC_EINVALCOORDS = NC_NOERR) := by decide
      have hn2 : ¬ (NC_ENEGATIVECNT = NC_NOERR) := by decide
      have hn3 : ¬ (NC_EEDGE = NC_NOERR) := by decide
      have hlen : (if r.hasCount = true then d0.count else 1) = effCount r d0 := rfl
      simp only [hlen]
      by_cases hsn : r.startNull = true
      · simp only [hsn, true_or, if_true]
      by_cases h00 : d0.start < 0
      · simp only [h00, true_or, or_true, if_true]
      -- the record-dimension coordinate test in one condition
      have hE1 : (if c.classic = true ∧ d0.start > NC_MAX_UINT then NC_EINVALCOORDS
              else if c.isRead = true then
                  if d0.shape = 0 ∧ effCount r d0 > 0 then NC_EINVALCOORDS
                  else if BadCoord c.strict d0.start (effCount r d0) d0.shape then NC_EINVALCOORDS else NC_NOERR
                else NC_NOERR) =
            if (c.classic = true ∧ d0.start > NC_MAX_UINT) ∨
               (c.isRead = true ∧ BadCoord c.strict d0.start (effCount r d0) d0.shape)
            then NC_EINVALCOORDS else NC_NOERR := by
        by_cases hcl : c.classic = true ∧ d0.start > NC_MAX_UINT
        · simp only [hcl, and_self, true_or, if_true]
        · simp only [hcl, false_or, if_false]
          cases hrd : c.isRead
          · simp only [Bool.false_eq_true, if_false, false_and]
          · simp only [if_true, true_and]
            by_cases hz : d0.shape = 0 ∧ effCount r d0 > 0
            · have : BadCoord c.strict d0.start (effCount r d0) d0.shape := by
                unfold BadCoord; cases c.strict <;> simp <;> omega
              rw [if_pos hz, if_pos this]
            · simp only [hz, if_false]
      simp only [hE1]
      by_cases hQ : (c.classic = true ∧ d0.start > NC_MAX_UINT) ∨
               (c.isRead = true ∧ BadCoord c.strict d0.start (effCount r d0) d0.shape)
      · rcases hQ with h | h
        · simp only [hsn, h00, h, and_self, hn1, if_true, if_false, false_or, true_or, or_true, not_false_eq_true, Bool.false_eq_true]
        · simp only [hsn, h00, h, and_self, hn1, if_true, if_false, false_or, true_or, or_true, not_false_eq_true, Bool.false_eq_true]
      · have hq1 : ¬ (c.classic = true ∧ d0.start > NC_MAX_UINT) := fun h => hQ (Or.inl h)
        have hq2 : ¬ (c.isRead = true ∧ BadCoord c.strict d0.start (effCount r d0) d0.shape) := fun h => hQ (Or.inr h)
        simp only [hsn, h00, hQ, hq1, hq2, if_false, false_or, or_false, not_true_eq_false, Bool.false_eq_true]
        by_cases hPR : ∃ d, d ∈ rest ∧ CoordBadDim c r (true, d)
        · simp only [hPR, hn1, if_true, not_false_eq_true]
        · simp only [hPR, if_false, not_true_eq_false]
          cases hc' : r.hasCount
          · simp only [Bool.not_false, if_true]
          · simp only [Bool.not_true, Bool.false_eq_true, if_false, Bool.true_eq_false]
            by_cases hneg : d0.count < 0
            · simp only [hneg, if_true, hn2, not_false_eq_true]
            · simp only [hneg, if_false]
              by_cases hEB : c.isRead = true ∧ EdgeViol d0.start d0.count (if r.hasStride = true then some d0.stride else none) d0.shape
              · simp only [hEB, and_self, if_true, hn3, not_false_eq_true]
              · have hl : (if c.isRead = true then
                      if EdgeViol d0.start d0.count (if r.hasStride = true then some d0.stride else none) d0.shape then NC_EEDGE
                      else NC_NOERR else NC_NOERR) = NC_NOERR := by
                  cases hrd : c.isRead
                  · simp only [Bool.false_eq_true, if_false]
                  · have : ¬ EdgeViol d0.start d0.count (if r.hasStride = true then some d0.stride else none) d0.shape :=
                      fun h => hEB ⟨hrd, h⟩
                    simp only [this, if_true, if_false]
                simp only [hl, hEB, if_false, not_true_eq_false]
                by_cases he : edgeU r (List.map (fun d => (true, d)) rest) = NC_NOERR
                · simp only [he, not_true_eq_false, if_false]
                  cases hst' : r.hasStride
                  · simp only [Bool.false_eq_true, if_false, false_and]
                  · simp only [if_true, true_and]
                · simp only [he, not_false_eq_true, if_true]

/-! ### consequences of the phase form -/

theorem edgeU_ok_iff (r : Req) (l : List (Bool × D)) :
    edgeU r l = NC_NOERR ↔ ∀ p ∈ l, ¬ NegCount p ∧ ¬ EdgeBadDim r p := by
  induction l with
  | nil => simp [edgeU]
  | cons p ps ih =>
    unfold edgeU
    by_cases h1 : NegCount p
    · simp [h1, NC_ENEGATIVECNT, NC_NOERR]
    · by_cases h2 : EdgeBadDim r p
      · simp [h1, h2, NC_EEDGE, NC_NOERR]
      · simp [h1, h2, ih]

/-- which error the edge phase reports: the left-most offending dimension decides, a negative
    count before an exceeded edge -/
theorem edgeU_err (r : Req) (l : List (Bool × D)) (e : Int) (he : edgeU r l = e) (hne : e ≠ NC_NOERR) :
    ∃ pre p post, l = pre ++ p :: post ∧ (∀ x ∈ pre, ¬ NegCount x ∧ ¬ EdgeBadDim r x) ∧
      ((e = NC_ENEGATIVECNT ∧ NegCount p) ∨ (e = NC_EEDGE ∧ ¬ NegCount p ∧ EdgeBadDim r p)) := by
  induction l with
  | nil => simp [edgeU] at he; exact absurd he.symm hne
  | cons q qs ih =>
    unfold edgeU at he
    by_cases h1 : NegCount q
    · simp only [h1, if_true] at he
      exact ⟨[], q, qs, rfl, by simp, Or.inl ⟨he.symm, h1⟩⟩
    · by_cases h2 : EdgeBadDim r q
      · simp only [h1, h2, if_true, if_false] at he
        exact ⟨[], q, qs, rfl, by simp, Or.inr ⟨he.symm, h1, h2⟩⟩
      · simp only [h1, h2, if_false] at he
        obtain ⟨pre, p, post, hl, hpre, hp⟩ := ih he
        refine ⟨q :: pre, p, post, by rw [hl]; rfl, ?_, hp⟩
        intro x hx
        rcases List.mem_cons.mp hx with rfl | hx
        · exact ⟨h1, h2⟩
        · exact hpre x hx

theorem bdims_snd (c : Ctx) (r : Req) : (bdims c r).map Prod.snd = r.dims := by
  unfold bdims
  cases r.dims with
  | nil => rfl
  | cons d0 rest => simp [List.map_map, Function.comp_def]

theorem mem_dims_iff (c : Ctx) (r : Req) (d : D) : d ∈ r.dims ↔ ∃ b, (b, d) ∈ bdims c r := by
  rw [← bdims_snd c r]
  simp

theorem dimOK_iff (c : Ctx) (r : Req) (b : Bool) (d : D) (hsh : 0 ≤ d.shape) (hc : r.hasCount = true) :
    dimOK c r b d ↔ ¬ CoordBadDim c r (b, d) ∧ ¬ NegCount (b, d) ∧ ¬ EdgeBadDim r (b, d) ∧
      (r.hasStride = true → 0 < d.stride) := by
  unfold dimOK DimOK CoordBadDim NegCount EdgeBadDim EdgeViol BadCoord strideOpt effCount effStride
  simp only [hc, if_true]
  have hm : 0 ≤ d.count - 1 → 1 ≤ d.stride → d.count - 1 ≤ (d.count - 1) * d.stride := mul_ge_self
  cases b <;> cases c.strict <;> cases r.hasStride <;> simp <;> omega

theorem dimOK_iff_nocount (c : Ctx) (r : Req) (b : Bool) (d : D)
    (hc : r.hasCount = false) (hst : r.hasStride = false) :
    dimOK c r b d ↔ ¬ CoordBadDim c r (b, d) := by
  unfold dimOK DimOK CoordBadDim BadCoord effCount effStride
  simp only [hc, hst]
  cases b <;> cases c.strict <;> simp <;> omega

theorem bdims_shape (c : Ctx) (r : Req) (hs : ∀ d ∈ r.dims, 0 ≤ d.shape) :
    ∀ p ∈ bdims c r, 0 ≤ p.2.shape := by
  intro p hp
  apply hs
  rw [mem_dims_iff c r]
  exact ⟨p.1, hp⟩

theorem scsU_ok_iff (c : Ctx) (r : Req) (hs : ∀ d ∈ r.dims, 0 ≤ d.shape)
    (hstr : r.hasStride = true → c.needCount = true) :
    scsU c r = NC_NOERR ↔ InBounds c r := by
  have hsb := bdims_shape c r hs
  unfold scsU InBounds
  by_cases hcb : CoordBad c r
  · simp only [hcb, if_true]
    constructor
    · intro h; exact absurd h (by decide)
    · intro ⟨h1, h2, h3, h4⟩
      exfalso
      rcases hcb with h | ⟨p, hp, hbad⟩ | ⟨hr, hcl, d0, hd0, hgt⟩
      · simp [h] at h1
      · cases hc : r.hasCount
        · have hst : r.hasStride = false := by
            cases hh : r.hasStride
            · rfl
            · have := h2 (hstr hh); simp [hc] at this
          exact ((dimOK_iff_nocount c r p.1 p.2 hc hst).mp (h3 p hp)) hbad
        · exact ((dimOK_iff c r p.1 p.2 (hsb p hp) hc).mp (h3 p hp)).1 hbad
      · have := h4 hr hcl d0 hd0; omega
  · simp only [hcb, if_false]
    have hsn : r.startNull = false := by
      cases h : r.startNull
      · rfl
      · exact absurd (Or.inl h) hcb
    have hnb : ∀ p ∈ bdims c r, ¬ CoordBadDim c r p := fun p hp h => hcb (Or.inr (Or.inl ⟨p, hp, h⟩))
    have hcl : c.isRec = true → c.classic = true → ∀ d0 ∈ r.dims.head?, d0.start ≤ NC_MAX_UINT := by
      intro h1 h2 d0 hd0
      have : ¬ d0.start > NC_MAX_UINT := fun h => hcb (Or.inr (Or.inr ⟨h1, h2, d0, hd0, h⟩))
      omega
    cases hc : r.hasCount
    · simp only [if_true]
      cases hn : c.needCount
      · have hst : r.hasStride = false := by
          cases hh : r.hasStride
          · rfl
          · have := hstr hh; simp [hn] at this
        simp only [Bool.false_eq_true, if_false, true_iff]
        refine ⟨hsn, by simp, fun p hp => (dimOK_iff_nocount c r p.1 p.2 hc hst).mpr (hnb p hp), hcl⟩
      · simp only [if_true]
        constructor
        · intro h; exact absurd h (by decide)
        · intro ⟨_, h2, _, _⟩; simp at h2
    · simp only [Bool.true_eq_false, if_false]
      by_cases he : edgeU r (bdims c r) = NC_NOERR
      · simp only [he, ne_eq, not_true_eq_false, if_false]
        have hE := (edgeU_ok_iff r (bdims c r)).mp he
        by_cases hS : r.hasStride = true ∧ ∃ d ∈ r.dims, d.stride ≤ 0
        · simp only [hS, and_self, if_true]
          constructor
          · intro h; exact absurd h (by decide)
          · intro ⟨_, _, h3, _⟩
            obtain ⟨hst, d, hd, hle⟩ := hS
            obtain ⟨b, hb⟩ := (mem_dims_iff c r d).mp hd
            have := ((dimOK_iff c r b d (hsb _ hb) hc).mp (h3 _ hb)).2.2.2 hst
            omega
        · simp only [hS, if_false, true_iff]
          refine ⟨hsn, fun _ => trivial, ?_, hcl⟩
          intro p hp
          refine (dimOK_iff c r p.1 p.2 (hsb p hp) hc).mpr ⟨hnb p hp, (hE p hp).1, (hE p hp).2, ?_⟩
          intro hst
          have : ¬ p.2.stride ≤ 0 := fun h => hS ⟨hst, p.2, (mem_dims_iff c r p.2).mpr ⟨p.1, hp⟩, h⟩
          omega
      · simp only [he, ne_eq, not_false_eq_true, if_true, false_iff]
        intro ⟨_, _, h3, _⟩
        apply he
        rw [edgeU_ok_iff]
        intro p hp
        have := (dimOK_iff c r p.1 p.2 (hsb p hp) hc).mp (h3 p hp)
        exact ⟨this.2.1, this.2.2.1⟩

/-! ### 64-bit arithmetic agrees with exact arithmetic inside the envelope -/

theorem wrap64_of_fits {x : Int} (h : fits64 x) : wrap64 x = x := by
  unfold fits64 at h; unfold wrap64; omega

/-- the four quantities check_EEDGE computes for one dimension stay inside int64 -/
def NoOvfDim (d : D) : Prop :=
  fits64 (d.start + d.count) ∧ fits64 (d.count - 1) ∧ fits64 ((d.count - 1) * d.stride) ∧
  fits64 (d.start + (d.count - 1) * d.stride)

def NoOvf (r : Req) : Prop := ∀ d ∈ r.dims, NoOvfDim d

theorem checkEEDGE_c64 (d : D) (hst : Bool) (h : NoOvfDim d) :
    checkEEDGE c64 d.start d.count (if hst then some d.stride else none) d.shape =
    checkEEDGE exact d.start d.count (if hst then some d.stride else none) d.shape := by
  obtain ⟨h1, h2, h3, h4⟩ := h
  have e2 : d.count + -1 = d.count - 1 := by omega
  cases hst
  · simp only [Bool.false_eq_true, if_false]
    unfold checkEEDGE c64 exact
    simp only [wrap64_of_fits h1]
  · simp only [if_true]
    unfold checkEEDGE c64 exact
    simp only [wrap64_of_fits h1, e2, wrap64_of_fits h2, wrap64_of_fits h3, wrap64_of_fits h4]

theorem edgeLoop_c64 (hst : Bool) (l : List D) (h : ∀ d ∈ l, NoOvfDim d) :
    edgeLoop c64 hst l = edgeLoop exact hst l := by
  induction l with
  | nil => rfl
  | cons d ds ih =>
    unfold edgeLoop
    rw [checkEEDGE_c64 d hst (h d List.mem_cons_self), ih (fun x hx => h x (List.mem_cons_of_mem _ hx))]

theorem checkSCS_c64 (c : Ctx) (r : Req) (h : NoOvf r) : checkSCS c64 c r = checkSCS exact c r := by
  unfold NoOvf at h
  unfold checkSCS
  cases hd : r.dims with
  | nil => rfl
  | cons d0 rest =>
    rw [hd] at h
    simp only
    have h0 := h d0 List.mem_cons_self
    have hr : ∀ d ∈ rest, NoOvfDim d := fun x hx => h x (List.mem_cons_of_mem _ hx)
    rw [checkEEDGE_c64 d0 r.hasStride h0]
    cases c.isRec
    · simp only [Bool.false_eq_true, if_false]
      rw [edgeLoop_c64 r.hasStride (d0 :: rest) h]
    · simp only [if_true]
      rw [edgeLoop_c64 r.hasStride rest hr]

/-! ### addressed coordinates and row-major offsets -/

/-- coordinate vector `is` lies inside the extents `ss` -/
def Below : List Nat → List Nat → Prop
  | [], [] => True
  | s :: ss, i :: is => i < s ∧ Below ss is
  | _, _ => False

theorem rowMajor_lt : ∀ (ss is : List Nat), Below ss is → rowMajor ss is < prodl ss
  | [], [], _ => by simp [rowMajor, prodl]
  | [], _ :: _, h => by simp [Below] at h
  | _ :: _, [], h => by simp [Below] at h
  | s :: ss, i :: is, h => by
    obtain ⟨h1, h2⟩ := h
    have ih := rowMajor_lt ss is h2
    unfold rowMajor prodl
    simp only [List.foldr_cons]
    have e : List.foldr (fun x1 x2 => x1 * x2) 1 ss = prodl ss := rfl
    rw [e]
    calc i * prodl ss + rowMajor ss is < i * prodl ss + prodl ss := by omega
      _ = (i + 1) * prodl ss := by rw [Nat.add_mul]; omega
      _ ≤ s * prodl ss := Nat.mul_le_mul_right _ h1

/-- `t` picks one element from each list -/
def AllIn : List (List Int) → List Int → Prop
  | [], [] => True
  | l :: ls, x :: xs => x ∈ l ∧ AllIn ls xs
  | _, _ => False

theorem mem_cart : ∀ (ls : List (List Int)) (t : List Int), t ∈ cart ls ↔ AllIn ls t
  | [], [] => by simp [cart, AllIn]
  | [], _ :: _ => by simp [cart, AllIn]
  | l :: ls, [] => by simp [cart, AllIn]
  | l :: ls, x :: xs => by
    have ih := mem_cart ls xs
    simp only [cart, AllIn, List.mem_flatMap, List.mem_map, List.cons.injEq]
    constructor
    · rintro ⟨a, ha, b, hb, rfl, rfl⟩
      exact ⟨ha, ih.mp hb⟩
    · rintro ⟨h1, h2⟩
      exact ⟨x, h1, xs, ih.mpr h2, rfl, rfl⟩

theorem mem_dimIdx (start cnt str x : Int) :
    x ∈ dimIdx start cnt str ↔ ∃ k : Nat, (k : Int) < cnt ∧ x = start + (k : Int) * str := by
  unfold dimIdx
  simp only [List.mem_map, List.mem_range]
  constructor
  · rintro ⟨k, hk, rfl⟩; exact ⟨k, by omega, rfl⟩
  · rintro ⟨k, hk, rfl⟩; exact ⟨k, by omega, rfl⟩

/-- every addressed coordinate is non-negative and, in a bounded dimension, below the extent -/
def CoordsOK : List (Bool × D) → List Int → Prop
  | [], [] => True
  | p :: ps, x :: xs => (0 ≤ x ∧ (p.1 = true → x < p.2.shape)) ∧ CoordsOK ps xs
  | _, _ => False

theorem coord_ok_of_dimOK (c : Ctx) (r : Req) (b : Bool) (d : D) (h : dimOK c r b d) (x : Int)
    (hx : x ∈ dimIdx d.start (effCount r d) (effStride r d)) : 0 ≤ x ∧ (b = true → x < d.shape) := by
  obtain ⟨k, hk, rfl⟩ := (mem_dimIdx _ _ _ _).mp hx
  obtain ⟨h0, h1, h2, h3⟩ := h
  have hk0 : (0 : Int) ≤ (k : Int) := Int.natCast_nonneg k
  have hks : 0 ≤ (k : Int) * effStride r d := Int.mul_nonneg hk0 (by omega)
  refine ⟨by omega, fun hb => ?_⟩
  obtain ⟨_, h4⟩ := h3 hb
  have hle : (k : Int) * effStride r d ≤ (effCount r d - 1) * effStride r d :=
    Int.mul_le_mul_of_nonneg_right (by omega) (by omega)
  have := h4 (by omega)
  omega

theorem allIn_coordsOK (c : Ctx) (r : Req) :
    ∀ (ps : List (Bool × D)) (ix : List Int), (∀ p ∈ ps, dimOK c r p.1 p.2) →
      AllIn (ps.map (fun p => dimIdx p.2.start (effCount r p.2) (effStride r p.2))) ix → CoordsOK ps ix
  | [], [], _, _ => trivial
  | [], _ :: _, _, h => by simp [AllIn] at h
  | _ :: _, [], _, h => by simp [AllIn] at h
  | p :: ps, x :: xs, hd, h => by
    simp only [List.map_cons, AllIn] at h
    exact ⟨coord_ok_of_dimOK c r p.1 p.2 (hd p List.mem_cons_self) x h.1,
      allIn_coordsOK c r ps xs (fun q hq => hd q (List.mem_cons_of_mem _ hq)) h.2⟩

/-- the coordinates of an in-bounds request are inside the variable -/
theorem indices_coordsOK (c : Ctx) (r : Req) (hin : InBounds c r) (ix : List Int) (hix : ix ∈ indices r) :
    CoordsOK (bdims c r) ix := by
  unfold indices at hix
  rw [mem_cart] at hix
  apply allIn_coordsOK c r _ _ hin.2.2.1
  have : r.dims.map (fun d => dimIdx d.start (effCount r d) (effStride r d)) =
      (bdims c r).map ((fun p => dimIdx p.2.start (effCount r p.2) (effStride r p.2))) := by
    conv => lhs; rw [← bdims_snd c r]
    rw [List.map_map]; rfl
  rw [this] at hix
  exact hix

/-! ### byte level -/

theorem below_of_coordsOK : ∀ (ps : List (Bool × D)) (ix : List Int), (∀ p ∈ ps, p.1 = true) →
    CoordsOK ps ix → Below (ps.map (fun p => p.2.shape.toNat)) (ix.map Int.toNat)
  | [], [], _, _ => trivial
  | [], _ :: _, _, h => by simp [CoordsOK] at h
  | _ :: _, [], _, h => by simp [CoordsOK] at h
  | p :: ps, x :: xs, hb, h => by
    obtain ⟨⟨h0, h1⟩, h2⟩ := h
    have := h1 (hb p List.mem_cons_self)
    show x.toNat < p.2.shape.toNat ∧ _
    exact ⟨by omega, below_of_coordsOK ps xs (fun q hq => hb q (List.mem_cons_of_mem _ hq)) h2⟩

/-- C15, fixed-size variable: every element an accepted request addresses lies inside the
    variable's own data area -/
theorem inside_fixed (c : Ctx) (r : Req) (v : VarLayout)
    (hrec : c.isRec = false) (hv : v.isRec = false)
    (hshape : v.shape = r.dims.map (fun d => d.shape.toNat)) (hin : InBounds c r) :
    ∀ off ∈ footprint v r, v.begin ≤ off ∧ off + v.xsz ≤ v.begin + prodl v.shape * v.xsz := by
  intro off hoff
  unfold footprint at hoff
  obtain ⟨ix, hix, rfl⟩ := List.mem_map.mp hoff
  have hc := indices_coordsOK c r hin ix hix
  have hall : ∀ p ∈ bdims c r, p.1 = true := by
    intro p hp
    unfold bdims at hp
    cases hd : r.dims with
    | nil => rw [hd] at hp; simp at hp
    | cons d0 rest =>
      rw [hd] at hp
      simp only [hrec, Bool.false_eq_true, if_false, List.mem_cons, List.mem_map] at hp
      rcases hp with rfl | ⟨d, _, rfl⟩ <;> rfl
  have hb := below_of_coordsOK _ _ hall hc
  have hs : (bdims c r).map (fun p => p.2.shape.toNat) = v.shape := by
    rw [hshape, ← bdims_snd c r, List.map_map]; rfl
  rw [hs] at hb
  have hlt := rowMajor_lt _ _ hb
  unfold elemOffset
  simp only [hv, Bool.false_eq_true, if_false]
  refine ⟨Nat.le_add_right _ _, ?_⟩
  have : (rowMajor v.shape (ix.map Int.toNat) + 1) * v.xsz ≤ prodl v.shape * v.xsz :=
    Nat.mul_le_mul_right _ hlt
  rw [Nat.add_mul] at this
  omega

/-- C15, record variable: every element an accepted request addresses lies inside the variable's
    slot of some record; for a read that record exists -/
theorem inside_record (c : Ctx) (r : Req) (v : VarLayout)
    (hrec : c.isRec = true) (hv : v.isRec = true)
    (hshape : v.shape = r.dims.map (fun d => d.shape.toNat)) (hin : InBounds c r) :
    ∀ off ∈ footprint v r, ∃ rec : Nat,
      v.begin + rec * v.recsize ≤ off ∧
      off + v.xsz ≤ v.begin + rec * v.recsize + prodl v.shape.tail * v.xsz ∧
      (c.isRead = true → ∀ d0 ∈ r.dims.head?, (rec : Int) < d0.shape) := by
  intro off hoff
  unfold footprint at hoff
  obtain ⟨ix, hix, rfl⟩ := List.mem_map.mp hoff
  have hc := indices_coordsOK c r hin ix hix
  unfold bdims at hc
  cases hd : r.dims with
  | nil =>
    rw [hd] at hc hshape
    cases ix with
    | cons _ _ => simp [CoordsOK] at hc
    | nil =>
      refine ⟨0, ?_⟩
      simp [elemOffset, hv, hshape, prodl]
  | cons d0 rest =>
    rw [hd] at hc hshape
    cases ix with
    | nil => simp [CoordsOK] at hc
    | cons x0 xs =>
      obtain ⟨⟨h0, h1⟩, h2⟩ := hc
      have hall : ∀ p ∈ rest.map (fun d => ((true : Bool), d)), p.1 = true := by
        intro p hp; obtain ⟨d, _, rfl⟩ := List.mem_map.mp hp; rfl
      have hb := below_of_coordsOK _ _ hall h2
      rw [List.map_map] at hb
      have hlt := rowMajor_lt _ _ hb
      refine ⟨x0.toNat, ?_⟩
      simp only [List.map_cons] at hshape
      simp only [elemOffset, hv, if_true, hshape, List.map_cons, List.tail_cons]
      have e : (List.map ((fun p : Bool × D => p.2.shape.toNat) ∘ fun d => (true, d)) rest) =
          List.map (fun d => d.shape.toNat) rest := rfl
      rw [e] at hlt
      have : (rowMajor (List.map (fun d => d.shape.toNat) rest) (xs.map Int.toNat) + 1) * v.xsz ≤
          prodl (List.map (fun d => d.shape.toNat) rest) * v.xsz := Nat.mul_le_mul_right _ hlt
      rw [Nat.add_mul] at this
      refine ⟨by omega, by omega, ?_⟩
      intro hr d hdm
      simp only [List.head?_cons, Option.mem_def, Option.some.injEq] at hdm
      subst hdm
      have h3 : x0 < d0.shape := h1 (by simp [hrec, hr])
      omega

theorem dimIdx_empty (start cnt str : Int) (h : cnt ≤ 0) : dimIdx start cnt str = [] := by
  unfold dimIdx
  have : cnt.toNat = 0 := by omega
  rw [this]; rfl

theorem cart_empty : ∀ (ls : List (List Int)), [] ∈ ls → cart ls = []
  | [], h => by simp at h
  | l :: ls, h => by
    rcases List.mem_cons.mp h with h | h
    · subst h; simp [cart]
    · simp [cart, cart_empty ls h]

theorem indices_empty (r : Req) (h : ∃ d ∈ r.dims, effCount r d ≤ 0) : indices r = [] := by
  obtain ⟨d, hd, hle⟩ := h
  unfold indices
  apply cart_empty
  exact List.mem_map.mpr ⟨d, hd, dimIdx_empty _ _ _ hle⟩

theorem writeAll_outside (xsz : Nat) : ∀ (offs : List Nat) (f : File) (data : Nat → Nat → Nat) (k p : Nat),
    (∀ off ∈ offs, p < off ∨ off + xsz ≤ p) → writeAll xsz f offs data k p = f p
  | [], _, _, _, _, _ => rfl
  | off :: offs, f, data, k, p, h => by
    unfold writeAll
    rw [writeAll_outside xsz offs _ data (k + 1) p (fun o ho => h o (List.mem_cons_of_mem _ ho))]
    unfold writeElem
    have := h off List.mem_cons_self
    have hn : ¬ (off ≤ p ∧ p < off + xsz) := by omega
    simp only [hn, if_false]

/-! ### the repaired (division-form) check_EEDGE -/

theorem edgeS_div (s c t sh : Int) (h0 : ¬ c > sh - s) (hs : 0 ≤ s) :
    divForm.edgeS s c t sh = exact.edgeS s c t sh := by
  unfold divForm exact
  simp only [decide_eq_decide]
  have e1 : c + -1 = c - 1 := by omega
  rw [e1]
  by_cases hc : c > 1
  · by_cases ht : t > 0
    · have hpos : (0 : Int) < c - 1 := by omega
      have := Int.ediv_lt_iff_lt_mul (a := sh - 1 - s) (b := t) hpos
      have hm : t * (c - 1) = (c - 1) * t := Int.mul_comm _ _
      constructor
      · rintro ⟨_, _, h⟩
        have := this.mp h
        exact ⟨by omega, by omega⟩
      · rintro ⟨_, h⟩
        exact ⟨hc, ht, this.mpr (by omega)⟩
    · have : (c - 1) * t ≤ 0 := Int.mul_nonpos_of_nonneg_of_nonpos (by omega) (by omega)
      constructor
      · rintro ⟨_, h, _⟩; exact absurd h ht
      · rintro ⟨_, h⟩; omega
  · constructor
    · rintro ⟨h, _⟩; exact absurd h hc
    · rintro ⟨h1, h2⟩
      have hc1 : c = 1 := by omega
      subst hc1
      simp at h2
      omega

theorem checkEEDGE_div (s c : Int) (str : Option Int) (sh : Int) (hs : 0 ≤ s) :
    checkEEDGE divForm s c str sh = checkEEDGE exact s c str sh := by
  have h0 : divForm.edge0 s c sh = exact.edge0 s c sh := by
    unfold divForm exact; simp only [decide_eq_decide]; omega
  unfold checkEEDGE
  rw [h0]
  by_cases he : exact.edge0 s c sh = true
  · simp [he]
  · simp only [he, Bool.false_eq_true, if_false]
    cases str with
    | none => rfl
    | some t =>
      have : ¬ c > sh - s := by
        intro h
        apply he
        unfold exact; simp only [decide_eq_true_eq]; omega
      simp only [edgeS_div s c t sh this hs]

theorem edgeLoop_div (hst : Bool) : ∀ (l : List D), (∀ d ∈ l, 0 ≤ d.start) →
    edgeLoop divForm hst l = edgeLoop exact hst l
  | [], _ => rfl
  | d :: ds, h => by
    unfold edgeLoop
    rw [checkEEDGE_div d.start d.count _ d.shape (h d List.mem_cons_self),
        edgeLoop_div hst ds (fun x hx => h x (List.mem_cons_of_mem _ hx))]

theorem coordLoop_start_nonneg (strict hc : Bool) : ∀ (l : List D),
    coordLoop strict hc l = NC_NOERR → ∀ d ∈ l, 0 ≤ d.start
  | [], _, d, hd => by cases hd
  | x :: xs, h, d, hd => by
    unfold coordLoop at h
    rcases checkEINVALCOORDS_cases strict x.start (if hc then x.count else 1) x.shape with ⟨h1, h2⟩ | ⟨h1, _⟩
    · simp only [h1, ne_eq, not_true_eq_false, if_false] at h
      rcases List.mem_cons.mp hd with rfl | hd
      · unfold BadCoord at h2
        have : ¬ d.start < 0 := fun hlt => h2 (Or.inl hlt)
        omega
      · exact coordLoop_start_nonneg strict hc xs h d hd
    · simp only [h1] at h
      have hne : NC_EINVALCOORDS ≠ NC_NOERR := by decide
      simp only [hne, ne_eq, not_false_eq_true, if_true] at h

/-- the repaired checker is the checker over exact integers: no envelope needed -/
theorem checkSCS_div (c : Ctx) (r : Req) : checkSCS divForm c r = checkSCS exact c r := by
  unfold checkSCS
  cases hd : r.dims with
  | nil => rfl
  | cons d0 rest =>
    simp only
    by_cases h0 : r.startNull = true ∨ d0.start < 0
    · simp only [h0, if_true]
    · simp only [h0, if_false]
      have hs0 : 0 ≤ d0.start := by
        have : ¬ d0.start < 0 := fun h => h0 (Or.inr h)
        omega
      rw [checkEEDGE_div d0.start d0.count _ d0.shape hs0]
      generalize hE1 : (if c.isRec = true then
          if c.classic = true ∧ d0.start > NC_MAX_UINT then NC_EINVALCOORDS
          else if c.isRead = true then
            if d0.shape = 0 ∧ (if r.hasCount = true then d0.count else 1) > 0 then NC_EINVALCOORDS
            else checkEINVALCOORDS c.strict d0.start (if r.hasCount = true then d0.count else 1) d0.shape
          else NC_NOERR
        else NC_NOERR) = e1
      by_cases he1 : e1 ≠ NC_NOERR
      · rw [if_pos he1, if_pos he1]
      · rw [if_neg he1, if_neg he1]
        by_cases he2 : coordLoop c.strict r.hasCount (if c.isRec = true then rest else d0 :: rest) ≠ NC_NOERR
        · rw [if_pos he2, if_pos he2]
        · rw [if_neg he2, if_neg he2]
          have hz : coordLoop c.strict r.hasCount (if c.isRec = true then rest else d0 :: rest) = NC_NOERR := by
            by_cases h : coordLoop c.strict r.hasCount (if c.isRec = true then rest else d0 :: rest) = NC_NOERR
            · exact h
            · exact absurd h he2
          have hnn := coordLoop_start_nonneg c.strict r.hasCount _ hz
          rw [edgeLoop_div r.hasStride _ hnn]

/-- in the repaired code the strided test is only reached with a non-negative dividend (so C's
    truncating division and the floor division of the model agree) and every intermediate value
    is representable: nothing can overflow -/
theorem divForm_no_overflow (s c sh : Int) (hs : 0 ≤ s) (hsh : fits64 sh) (hc : fits64 c)
    (h0 : ¬ c > sh - s) (hc1 : c > 1) :
    0 ≤ sh - 1 - s ∧ fits64 (sh - s) ∧ fits64 (sh - 1 - s) ∧ fits64 (c - 1) ∧ 0 < c - 1 := by
  unfold fits64 at *; omega

end PnVerif.Scs
